package lib

import (
	"math/big"

	"github.com/onflow/cadence/interpreter"
)

// IntType describes one Cadence integer type for the numeric harnesses.
type IntType struct {
	Name string
	Kind string // "signed" | "unsigned" | "word" | "int" | "uint"
	Bits int    // 0 for Int / UInt
	Make func(*big.Int) interpreter.IntegerValue
}

func two(n int) *big.Int { return new(big.Int).Lsh(big.NewInt(1), uint(n)) }

// Min / Max return nil when unbounded.
func (t IntType) Min() *big.Int {
	switch t.Kind {
	case "signed":
		return new(big.Int).Neg(two(t.Bits - 1))
	case "int":
		return nil
	}
	return big.NewInt(0)
}

func (t IntType) Max() *big.Int {
	switch t.Kind {
	case "signed":
		return new(big.Int).Sub(two(t.Bits-1), big.NewInt(1))
	case "unsigned", "word":
		return new(big.Int).Sub(two(t.Bits), big.NewInt(1))
	}
	return nil
}

func (t IntType) InRange(z *big.Int) bool {
	if m := t.Min(); m != nil && z.Cmp(m) < 0 {
		return false
	}
	if m := t.Max(); m != nil && z.Cmp(m) > 0 {
		return false
	}
	return true
}

// CoqKind renders the type as an `ikind` term of Num/IntSpec.v.
func (t IntType) CoqKind() string {
	switch t.Kind {
	case "signed":
		return "(KSigned " + ZI(int64(t.Bits)) + ")"
	case "unsigned":
		return "(KUnsigned " + ZI(int64(t.Bits)) + ")"
	case "word":
		return "(KWord " + ZI(int64(t.Bits)) + ")"
	case "int":
		return "KInt"
	}
	return "KUInt"
}

var IntTypes = []IntType{
	{"Int8", "signed", 8, func(z *big.Int) interpreter.IntegerValue { return interpreter.NewUnmeteredInt8Value(int8(z.Int64())) }},
	{"Int16", "signed", 16, func(z *big.Int) interpreter.IntegerValue { return interpreter.NewUnmeteredInt16Value(int16(z.Int64())) }},
	{"Int32", "signed", 32, func(z *big.Int) interpreter.IntegerValue { return interpreter.NewUnmeteredInt32Value(int32(z.Int64())) }},
	{"Int64", "signed", 64, func(z *big.Int) interpreter.IntegerValue { return interpreter.NewUnmeteredInt64Value(z.Int64()) }},
	{"Int128", "signed", 128, func(z *big.Int) interpreter.IntegerValue {
		return interpreter.NewUnmeteredInt128ValueFromBigInt(new(big.Int).Set(z))
	}},
	{"Int256", "signed", 256, func(z *big.Int) interpreter.IntegerValue {
		return interpreter.NewUnmeteredInt256ValueFromBigInt(new(big.Int).Set(z))
	}},
	{"UInt8", "unsigned", 8, func(z *big.Int) interpreter.IntegerValue {
		return interpreter.NewUnmeteredUInt8Value(uint8(z.Uint64()))
	}},
	{"UInt16", "unsigned", 16, func(z *big.Int) interpreter.IntegerValue {
		return interpreter.NewUnmeteredUInt16Value(uint16(z.Uint64()))
	}},
	{"UInt32", "unsigned", 32, func(z *big.Int) interpreter.IntegerValue {
		return interpreter.NewUnmeteredUInt32Value(uint32(z.Uint64()))
	}},
	{"UInt64", "unsigned", 64, func(z *big.Int) interpreter.IntegerValue { return interpreter.NewUnmeteredUInt64Value(z.Uint64()) }},
	{"UInt128", "unsigned", 128, func(z *big.Int) interpreter.IntegerValue {
		return interpreter.NewUnmeteredUInt128ValueFromBigInt(new(big.Int).Set(z))
	}},
	{"UInt256", "unsigned", 256, func(z *big.Int) interpreter.IntegerValue {
		return interpreter.NewUnmeteredUInt256ValueFromBigInt(new(big.Int).Set(z))
	}},
	{"Word8", "word", 8, func(z *big.Int) interpreter.IntegerValue {
		return interpreter.NewUnmeteredWord8Value(uint8(z.Uint64()))
	}},
	{"Word16", "word", 16, func(z *big.Int) interpreter.IntegerValue {
		return interpreter.NewUnmeteredWord16Value(uint16(z.Uint64()))
	}},
	{"Word32", "word", 32, func(z *big.Int) interpreter.IntegerValue {
		return interpreter.NewUnmeteredWord32Value(uint32(z.Uint64()))
	}},
	{"Word64", "word", 64, func(z *big.Int) interpreter.IntegerValue { return interpreter.NewUnmeteredWord64Value(z.Uint64()) }},
	{"Word128", "word", 128, func(z *big.Int) interpreter.IntegerValue {
		return interpreter.NewUnmeteredWord128ValueFromBigInt(new(big.Int).Set(z))
	}},
	{"Word256", "word", 256, func(z *big.Int) interpreter.IntegerValue {
		return interpreter.NewUnmeteredWord256ValueFromBigInt(new(big.Int).Set(z))
	}},
	{"Int", "int", 0, func(z *big.Int) interpreter.IntegerValue {
		return interpreter.NewUnmeteredIntValueFromBigInt(new(big.Int).Set(z))
	}},
	{"UInt", "uint", 0, func(z *big.Int) interpreter.IntegerValue {
		return interpreter.NewUnmeteredUIntValueFromBigInt(new(big.Int).Set(z))
	}},
}

func IntTypeByName(n string) IntType {
	for _, t := range IntTypes {
		if t.Name == n {
			return t
		}
	}
	panic("no int type " + n)
}

// ValueToBig reads back the mathematical value of a numeric interpreter value.
func ValueToBig(v interpreter.Value) *big.Int {
	z, ok := new(big.Int).SetString(v.String(), 10)
	if !ok {
		panic("not an integer: " + v.String())
	}
	return z
}

// Lattice returns boundary values of the type: 0, ±1, ±2, min, min+1, max, max-1, 2^k, 2^k±1,
// sqrt(max) neighbours. For unbounded kinds a 600-bit pseudo range is used.
func (t IntType) Lattice() []*big.Int {
	seen := map[string]bool{}
	var out []*big.Int
	add := func(z *big.Int) {
		if !t.InRange(z) || seen[z.String()] {
			return
		}
		seen[z.String()] = true
		out = append(out, new(big.Int).Set(z))
	}
	for _, i := range []int64{0, 1, -1, 2, -2, 3, -3, 7, 10, -10} {
		add(big.NewInt(i))
	}
	bits := t.Bits
	if bits == 0 {
		bits = 300
	}
	for _, k := range []int{bits - 2, bits - 1, bits, bits / 2, bits/2 - 1, bits/2 + 1, 63, 64, 65, 31, 32, 7, 8} {
		if k < 0 {
			continue
		}
		p := two(k)
		for _, d := range []int64{-1, 0, 1} {
			z := new(big.Int).Add(p, big.NewInt(d))
			add(z)
			add(new(big.Int).Neg(z))
		}
	}
	if m := t.Min(); m != nil {
		add(m)
		add(new(big.Int).Add(m, big.NewInt(1)))
	}
	if m := t.Max(); m != nil {
		add(m)
		add(new(big.Int).Sub(m, big.NewInt(1)))
		s := new(big.Int).Sqrt(m)
		for _, d := range []int64{-1, 0, 1} {
			z := new(big.Int).Add(s, big.NewInt(d))
			add(z)
			add(new(big.Int).Neg(z))
		}
	}
	return out
}

// Random returns a random in-range value with varied bit length.
func (t IntType) Random(r *Rng) *big.Int {
	lo, hi := t.Min(), t.Max()
	if hi == nil {
		hi = two(200 + r.Intn(200))
	}
	if lo == nil {
		lo = new(big.Int).Neg(hi)
	}
	return r.BigBetween(lo, hi)
}
