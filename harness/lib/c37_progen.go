package lib

// Grammar-based Cadence source generator shared by the C37 (lexing/parsing/checking totality and
// positions) and C38 (print/parse round trip) harnesses. It aims at *syntactic* coverage: every
// declaration, statement, expression and type form of parser/{declaration,statement,expression,type,
// transaction}.go, with operator precedence / associativity corner cases, string escapes and templates.
// Programs are mostly accepted by the parser; they are not meant to type-check.

import (
	"fmt"
	"strings"
)

type ProgGen struct {
	R *Rng
	// Forms counts how often each syntactic form was produced (distribution evidence).
	Forms map[string]int
	// NonASCII allows multi-byte characters in strings and comments.
	NonASCII bool
	// Comments allows comments between tokens (dropped by the pretty printer, so C38 switches them off
	// only for text comparison, not for the AST round trip).
	Comments bool
	// Clean avoids the constructs whose print/parse round trip is known to fail on the pinned tree
	// (nested move/destroy/attach operands, member access on integer literals, empty else blocks,
	// `transaction()`, empty entitlement mappings, statements that start with a prefix operator).
	// The C38 harness exercises those constructs from its fixed corpus instead.
	Clean bool
	n     int
}

func NewProgGen(r *Rng) *ProgGen {
	return &ProgGen{R: r, Forms: map[string]int{}}
}

func (g *ProgGen) form(s string) { g.Forms[s]++ }

var identPool = []string{"a", "b", "c", "x", "y", "foo", "bar", "acct", "result", "value", "items", "i", "n", "r", "s",
	"view", "all", "from", "to", "account", "contract", "mapping", "include", "require", "type", "is", "base", "auth2"}
var typeNamePool = []string{"Int", "String", "Bool", "UInt8", "UFix64", "Address", "AnyStruct", "AnyResource", "R", "S", "T", "Foo", "Bar", "Vault", "NFT", "Account"}
var ifacePool = []string{"I", "J", "Provider", "Receiver", "HasID"}
var entPool = []string{"E", "F", "G", "Withdraw", "Mutate", "Storage"}

func (g *ProgGen) ident() string {
	g.n++
	if g.R.Chance(1, 6) {
		return fmt.Sprintf("%s%d", Pick(g.R, identPool[:12]), g.R.Intn(40))
	}
	if g.R.Chance(1, 12) {
		return Pick(g.R, identPool[15:]) // soft keywords used as identifiers
	}
	return Pick(g.R, identPool[:15])
}

func (g *ProgGen) typeName() string { return Pick(g.R, typeNamePool) }

// ------------------------------------------------------------------ types

func (g *ProgGen) nominal() string {
	if g.R.Chance(1, 5) {
		g.form("type:qualified-nominal")
		return g.typeName() + "." + g.typeName()
	}
	g.form("type:nominal")
	return g.typeName()
}

func (g *ProgGen) entitlementList() string {
	n := 1 + g.R.Intn(3)
	sep := ", "
	if g.R.Chance(1, 3) {
		sep = " | "
	}
	var xs []string
	for i := 0; i < n; i++ {
		xs = append(xs, Pick(g.R, entPool))
	}
	return strings.Join(xs, sep)
}

func (g *ProgGen) auth() string {
	if g.R.Chance(1, 5) {
		g.form("type:auth-mapping")
		return "auth(mapping " + Pick(g.R, []string{"M", "Map", "Identity"}) + ") "
	}
	g.form("type:auth-set")
	return "auth(" + g.entitlementList() + ") "
}

// Type produces a type (without the resource marker).
func (g *ProgGen) Type(d int) string {
	if d <= 0 {
		return g.nominal()
	}
	switch g.R.Intn(13) {
	case 0, 1, 2:
		return g.nominal()
	case 3:
		g.form("type:optional")
		t := g.Type(d - 1)
		if g.R.Chance(1, 5) {
			g.form("type:double-optional")
			return t + "??"
		}
		return t + "?"
	case 4:
		g.form("type:variable-array")
		return "[" + g.Type(d-1) + "]"
	case 5:
		g.form("type:constant-array")
		return fmt.Sprintf("[%s; %d]", g.Type(d-1), g.R.Intn(20))
	case 6:
		g.form("type:dictionary")
		return "{" + g.Type(d-1) + ": " + g.Type(d-1) + "}"
	case 7:
		g.form("type:reference")
		a := ""
		if g.R.Chance(1, 2) {
			a = g.auth()
		}
		inner := g.Type(d - 1)
		return a + "&" + inner
	case 8:
		g.form("type:intersection")
		n := 1 + g.R.Intn(3)
		var xs []string
		for i := 0; i < n; i++ {
			xs = append(xs, Pick(g.R, ifacePool))
		}
		return "{" + strings.Join(xs, ", ") + "}"
	case 9:
		g.form("type:function")
		n := g.R.Intn(3)
		var xs []string
		for i := 0; i < n; i++ {
			xs = append(xs, g.TypeAnn(d-1))
		}
		v := ""
		if g.R.Chance(1, 3) {
			g.form("type:view-function")
			v = "view "
		}
		return v + "fun(" + strings.Join(xs, ", ") + "): " + g.TypeAnn(d-1)
	case 10:
		g.form("type:instantiation")
		n := 1 + g.R.Intn(2)
		var xs []string
		for i := 0; i < n; i++ {
			xs = append(xs, g.TypeAnn(d-1))
		}
		name := Pick(g.R, []string{"Capability", "InclusiveRange", "Foo"})
		if name == "InclusiveRange" && len(xs) != 1 && !g.R.Chance(1, 8) {
			xs = xs[:1] // InclusiveRange with a wrong number of type arguments crashes the checker (known finding): keep it rare
		}
		return name + "<" + strings.Join(xs, ", ") + ">"
	case 11:
		g.form("type:parenthesized")
		return "(" + g.Type(d-1) + ")"
	default:
		g.form("type:optional-reference")
		return "&" + g.nominal() + "?"
	}
}

// TypeAnn is a type annotation: optional resource marker.
func (g *ProgGen) TypeAnn(d int) string {
	if g.R.Chance(1, 6) {
		g.form("type:resource-annotation")
		return "@" + g.Type(d)
	}
	return g.Type(d)
}

// ------------------------------------------------------------------ literals

var escapes = []string{`\n`, `\t`, `\r`, `\\`, `\"`, `\'`, `\0`, `\u{41}`, `\u{1F600}`, `\u{e9}`, `\u{0}`, `\u{10FFFF}`}
var nonASCIIChars = []string{"é", "€", "😀", "ü", "日本", " ", "ß"}

func (g *ProgGen) StringLit(d int) string {
	var b strings.Builder
	b.WriteByte('"')
	n := g.R.Intn(6)
	for i := 0; i < n; i++ {
		switch g.R.Intn(9) {
		case 0, 1, 2, 3:
			b.WriteString(Pick(g.R, []string{"a", "hello", " ", "x y", "1", "'", "/*", "//", "(", ")", "{", "\\\\"}))
		case 4, 5:
			g.form("string:escape")
			b.WriteString(Pick(g.R, escapes))
		case 6:
			if g.NonASCII {
				g.form("string:non-ascii")
				b.WriteString(Pick(g.R, nonASCIIChars))
			} else {
				b.WriteString("z")
			}
		default:
			if d > 0 {
				g.form("string:template")
				b.WriteString(`\(`)
				if g.R.Chance(1, 2) {
					b.WriteString(g.ident())
				} else {
					b.WriteString(g.Expr(d - 1))
				}
				b.WriteString(")")
			}
		}
	}
	b.WriteByte('"')
	return b.String()
}

func (g *ProgGen) IntLit() string {
	switch g.R.Intn(10) {
	case 0:
		g.form("literal:hex")
		return Pick(g.R, []string{"0xFF", "0x0", "0xdead_beef", "0x1", "0xABCDEF0123456789"})
	case 1:
		g.form("literal:binary")
		return Pick(g.R, []string{"0b0", "0b1010", "0b1111_0000"})
	case 2:
		g.form("literal:octal")
		return Pick(g.R, []string{"0o0", "0o17", "0o7_7"})
	case 3:
		g.form("literal:underscore")
		return Pick(g.R, []string{"1_000", "1_000_000", "12_34"})
	case 4:
		g.form("literal:big")
		return "1" + strings.Repeat("0", 1+g.R.Intn(45))
	default:
		g.form("literal:decimal")
		return fmt.Sprint(g.R.Intn(300))
	}
}

func (g *ProgGen) FixLit() string {
	g.form("literal:fixed-point")
	return Pick(g.R, []string{"0.0", "1.5", "3.14159", "100.00000001", "0.5", "12_3.4_5", "184467440737.09551615"})
}

// ------------------------------------------------------------------ expressions

var binOps = []string{"||", "&&", "<", "<=", ">", ">=", "==", "!=", "??", "|", "^", "&", "<<", ">>", "+", "-", "*", "/", "%"}

func (g *ProgGen) args(d int) string {
	n := g.R.Intn(3)
	var xs []string
	for i := 0; i < n; i++ {
		if g.R.Chance(1, 3) {
			g.form("expr:labeled-argument")
			xs = append(xs, g.ident()+": "+g.Expr(d))
		} else {
			xs = append(xs, g.Expr(d))
		}
	}
	return "(" + strings.Join(xs, ", ") + ")"
}

// primary expressions (no operators outside brackets)
func (g *ProgGen) Primary(d int) string {
	k := g.R.Intn(20)
	if d <= 0 && k >= 10 {
		k = g.R.Intn(10)
	}
	switch k {
	case 0, 1, 2:
		g.form("expr:identifier")
		return g.ident()
	case 3:
		return g.IntLit()
	case 4:
		return g.FixLit()
	case 5:
		return g.StringLit(d)
	case 6:
		g.form("expr:bool")
		return Pick(g.R, []string{"true", "false"})
	case 7:
		g.form("expr:nil")
		return "nil"
	case 8:
		g.form("expr:path")
		return Pick(g.R, []string{"/storage/", "/public/", "/private/"}) + g.ident()
	case 9:
		g.form("expr:self-member")
		return "self." + g.ident()
	case 10:
		g.form("expr:array")
		n := g.R.Intn(4)
		var xs []string
		for i := 0; i < n; i++ {
			xs = append(xs, g.Expr(d-1))
		}
		return "[" + strings.Join(xs, ", ") + "]"
	case 11:
		g.form("expr:dictionary")
		n := g.R.Intn(3)
		var xs []string
		for i := 0; i < n; i++ {
			xs = append(xs, g.Expr(d-1)+": "+g.Expr(d-1))
		}
		return "{" + strings.Join(xs, ", ") + "}"
	case 12:
		g.form("expr:parenthesized")
		return "(" + g.Expr(d-1) + ")"
	case 13:
		g.form("expr:create")
		return "create " + g.nominal() + g.args(d-1)
	case 14:
		g.form("expr:function-expression")
		v := ""
		if g.R.Chance(1, 4) {
			v = "view "
		}
		return v + "fun " + g.params(d-1, false) + g.retType(d-1) + " " + g.funcBlock(d-1, false)
	case 15:
		g.form("expr:invocation-type-args")
		return g.ident() + "<" + g.TypeAnn(1) + ">" + g.args(d-1)
	case 16:
		g.form("expr:type-invocation")
		return "Type<" + g.TypeAnn(2) + ">()"
	case 17:
		if g.Clean {
			g.form("expr:identifier")
			return g.ident()
		}
		g.form("expr:attach")
		return "attach " + g.nominal() + g.args(d-1) + " to " + g.Postfix(d-1)
	case 18:
		g.form("expr:void-invocation")
		return g.ident() + g.args(d-1)
	default:
		g.form("expr:negative-literal")
		if g.R.Bool() {
			return "-" + g.IntLit()
		}
		return "-" + g.FixLit()
	}
}

// postfix chains: member access, optional chaining, index, invocation, force unwrap
func (g *ProgGen) Postfix(d int) string {
	e := g.Primary(d)
	n := g.R.Intn(4)
	if g.Clean && strings.HasPrefix(e, "-") {
		n = 0 // no postfix operator on a negative literal
	}
	for i := 0; i < n; i++ {
		k := g.R.Intn(6)
		core := strings.Trim(e, "()")
		if g.Clean && k <= 2 && len(core) > 0 && core[0] >= '0' && core[0] <= '9' && !strings.ContainsAny(core, ".)]\"( [") {
			k = 3 + g.R.Intn(3) // no member access directly on an integer literal
		}
		switch k {
		case 0, 1:
			g.form("expr:member")
			e += "." + g.ident()
		case 2:
			g.form("expr:optional-chaining")
			e += "?." + g.ident()
		case 3:
			g.form("expr:index")
			e += "[" + g.Expr(d-1) + "]"
		case 4:
			g.form("expr:invocation")
			e += g.args(d - 1)
		default:
			g.form("expr:force")
			e += "!"
		}
	}
	return e
}

func (g *ProgGen) Unary(d int) string {
	if d > 0 {
		k := g.R.Intn(12)
		if g.Clean && (k == 2 || k == 5) {
			k = 0
		}
		switch k {
		case 0:
			g.form("expr:unary-minus")
			return "-" + g.Unary(d-1)
		case 1:
			g.form("expr:unary-not")
			return "!" + g.Unary(d-1)
		case 2:
			g.form("expr:unary-move")
			return "<-" + g.Unary(d-1)
		case 3:
			g.form("expr:unary-deref")
			return "*" + g.Unary(d-1)
		case 4:
			g.form("expr:reference")
			if g.R.Bool() {
				return "&" + g.Postfix(d-1) + " as " + g.Type(1)
			}
			return "&" + g.Postfix(d-1)
		case 5:
			g.form("expr:destroy")
			return "destroy " + g.Unary(d-1)
		case 6:
			g.form("expr:unary-on-parenthesized-binary")
			ops := []string{"-", "!", "*", "<-"}
			if g.Clean {
				ops = ops[:3]
			}
			return Pick(g.R, ops) + "(" + g.Binary(d-1, 2) + ")"
		}
	}
	return g.Postfix(d)
}

func (g *ProgGen) Cast(d int) string {
	e := g.Unary(d)
	n := 0
	if g.R.Chance(1, 5) {
		n = 1 + g.R.Intn(2)
	}
	for i := 0; i < n; i++ {
		g.form("expr:cast")
		e += " " + Pick(g.R, []string{"as", "as?", "as!"}) + " " + g.TypeAnn(1)
	}
	if n > 0 && g.R.Chance(1, 3) {
		g.form("expr:member-of-parenthesized-cast")
		e = "(" + e + ")" + Pick(g.R, []string{".", "?."}) + g.ident()
	}
	return e
}

// Binary produces a chain of n binary operators without parentheses (precedence decides the tree),
// with random parenthesised sub-chains.
func (g *ProgGen) Binary(d int, maxOps int) string {
	n := g.R.Intn(maxOps + 1)
	e := g.operand(d)
	for i := 0; i < n; i++ {
		op := Pick(g.R, binOps)
		g.form("expr:binary " + op)
		e += " " + op + " " + g.operand(d)
	}
	return e
}

func (g *ProgGen) operand(d int) string {
	if d > 0 && g.R.Chance(1, 6) {
		g.form("expr:parenthesized-binary-operand")
		return "(" + g.Binary(d-1, 2) + ")"
	}
	return g.Cast(d)
}

func (g *ProgGen) Expr(d int) string {
	if d <= 0 {
		return g.Postfix(0)
	}
	if g.R.Chance(1, 8) {
		g.form("expr:conditional")
		return g.Binary(d-1, 2) + " ? " + g.Expr(d-1) + " : " + g.Expr(d-1)
	}
	return g.Binary(d-1, 3)
}

// ------------------------------------------------------------------ functions, statements

func (g *ProgGen) params(d int, defaults bool) string {
	n := g.R.Intn(3)
	var xs []string
	for i := 0; i < n; i++ {
		p := ""
		if g.R.Chance(1, 3) {
			g.form("param:label")
			p = Pick(g.R, []string{"_", "to", "from", "with"}) + " "
		}
		p += g.ident() + "_" + fmt.Sprint(i) + ": " + g.TypeAnn(d)
		if defaults {
			p += " = " + g.Postfix(0)
		}
		xs = append(xs, p)
	}
	return "(" + strings.Join(xs, ", ") + ")"
}

func (g *ProgGen) retType(d int) string {
	if g.R.Chance(1, 2) {
		return ""
	}
	return ": " + g.TypeAnn(d)
}

func (g *ProgGen) condition(d int) string {
	if g.R.Chance(1, 6) {
		g.form("condition:emit")
		return "emit " + g.typeName() + g.args(d)
	}
	c := g.Expr(d)
	if g.Clean {
		c = g.ident() + " " + Pick(g.R, binOps) + " " + c
	}
	if g.R.Chance(1, 2) {
		g.form("condition:message")
		c += ": " + g.StringLit(0)
	}
	return c
}

func (g *ProgGen) conditions(kind string, d int) string {
	n := 1 + g.R.Intn(2)
	var xs []string
	for i := 0; i < n; i++ {
		xs = append(xs, "        "+g.condition(d))
	}
	g.form("conditions:" + kind)
	return "    " + kind + " {\n" + strings.Join(xs, "\n") + "\n    }\n"
}

func (g *ProgGen) funcBlock(d int, conds bool) string {
	var b strings.Builder
	b.WriteString("{\n")
	if conds && g.R.Chance(1, 3) {
		b.WriteString(g.conditions("pre", d))
	}
	if conds && g.R.Chance(1, 3) {
		b.WriteString(g.conditions("post", d))
	}
	b.WriteString(g.stmts(d, 3))
	b.WriteString("}")
	return b.String()
}

func (g *ProgGen) block(d int) string {
	return "{\n" + g.stmts(d, 3) + "}"
}

func (g *ProgGen) stmts(d int, max int) string {
	n := g.R.Intn(max + 1)
	var b strings.Builder
	for i := 0; i < n; i++ {
		b.WriteString("    ")
		b.WriteString(g.Stmt(d))
		if g.R.Chance(1, 8) {
			b.WriteString(";")
		}
		b.WriteString(g.trivia())
		b.WriteString("\n")
	}
	return b.String()
}

func (g *ProgGen) trivia() string {
	if !g.Comments || !g.R.Chance(1, 5) {
		return ""
	}
	g.form("trivia:comment")
	extra := ""
	if g.NonASCII && g.R.Chance(1, 2) {
		extra = Pick(g.R, nonASCIIChars)
	}
	switch g.R.Intn(3) {
	case 0:
		return " // note " + extra
	case 1:
		return " /* block " + extra + " */"
	default:
		return " /* outer /* nested" + extra + " */ still */"
	}
}

func (g *ProgGen) transfer() string {
	return Pick(g.R, []string{"=", "=", "=", "<-", "<-!"})
}

func (g *ProgGen) varDecl(d int, access bool) string {
	g.form("decl:variable")
	s := ""
	if access && g.R.Chance(1, 2) {
		s = g.access() + " "
	}
	s += Pick(g.R, []string{"let", "var"}) + " " + g.ident()
	if g.R.Chance(1, 2) {
		s += ": " + g.TypeAnn(2)
	}
	s += " " + g.transfer() + " " + g.Expr(d)
	if g.R.Chance(1, 10) {
		g.form("decl:variable-second-transfer")
		s += " <- " + g.Postfix(d-1)
	}
	return s
}

func (g *ProgGen) optionalBinding(d int) string {
	g.form("stmt:optional-binding")
	s := Pick(g.R, []string{"let", "var"}) + " " + g.ident()
	if g.R.Chance(1, 4) {
		s += ": " + g.TypeAnn(1)
	}
	return s + " " + Pick(g.R, []string{"=", "<-"}) + " " + g.Expr(d)
}

// target is the leading expression of an expression / assignment / swap statement. In Clean mode it
// starts with an identifier (a statement starting with `-`, `*`, `/`, `&`, `(`, `[` would be glued to the
// previous statement by the printer, see the C38 known findings).
func (g *ProgGen) target(d int) string {
	if !g.Clean {
		return g.Postfix(d)
	}
	e := g.ident()
	n := g.R.Intn(3)
	for i := 0; i < n; i++ {
		switch g.R.Intn(4) {
		case 0, 1:
			e += "." + g.ident()
		case 2:
			e += "[" + g.Expr(d-1) + "]"
		default:
			e += "?." + g.ident()
		}
	}
	return e
}

func (g *ProgGen) Stmt(d int) string {
	k := g.R.Intn(24)
	if d <= 0 && k >= 12 {
		k = g.R.Intn(12)
	}
	switch k {
	case 0, 1:
		return g.varDecl(d, false)
	case 2, 3:
		g.form("stmt:expression")
		return g.target(d) + g.args(d-1)
	case 4:
		g.form("stmt:assignment")
		return g.target(d) + " " + g.transfer() + " " + g.Expr(d)
	case 5:
		g.form("stmt:swap")
		return g.target(d) + " <-> " + g.Postfix(d)
	case 6:
		g.form("stmt:return")
		if g.R.Chance(1, 3) {
			return "return"
		}
		return "return " + g.Expr(d)
	case 7:
		g.form("stmt:break")
		return "break"
	case 8:
		g.form("stmt:continue")
		return "continue"
	case 9:
		g.form("stmt:emit")
		return "emit " + g.nominal() + g.args(d)
	case 10:
		g.form("stmt:remove")
		return "remove " + g.nominal() + " from " + g.Postfix(d)
	case 11:
		g.form("stmt:destroy")
		return "destroy " + g.Postfix(d)
	case 12, 13:
		g.form("stmt:if")
		s := "if "
		if g.R.Chance(1, 3) {
			s += g.optionalBinding(d - 1)
		} else {
			s += g.Expr(d - 1)
		}
		s += " " + g.block(d-1)
		for g.R.Chance(1, 4) {
			g.form("stmt:else-if")
			s += " else if " + g.Expr(d-1) + " " + g.block(d-1)
		}
		if g.R.Chance(1, 2) {
			g.form("stmt:else")
			if g.Clean {
				s += " else {\n    " + g.ident() + "()\n" + g.stmts(d-1, 2) + "}"
			} else {
				s += " else " + g.block(d-1)
			}
		}
		return s
	case 14:
		g.form("stmt:while")
		return "while " + g.Expr(d-1) + " " + g.block(d-1)
	case 15:
		g.form("stmt:for")
		if g.R.Chance(1, 3) {
			g.form("stmt:for-index")
			return "for " + g.ident() + ", " + g.ident() + " in " + g.Expr(d-1) + " " + g.block(d-1)
		}
		return "for " + g.ident() + " in " + g.Expr(d-1) + " " + g.block(d-1)
	case 16:
		g.form("stmt:switch")
		var b strings.Builder
		b.WriteString("switch " + g.Expr(d-1) + " {\n")
		n := g.R.Intn(3)
		for i := 0; i < n; i++ {
			b.WriteString("    case " + g.Expr(d-1) + ":\n" + g.stmts(d-1, 2))
		}
		if g.R.Chance(1, 2) {
			g.form("stmt:switch-default")
			b.WriteString("    default:\n" + g.stmts(d-1, 2))
		}
		b.WriteString("    }")
		return b.String()
	case 17:
		g.form("stmt:nested-function")
		return g.funDecl(d-1, false, true)
	case 18:
		g.form("stmt:guard")
		if g.R.Bool() {
			return "guard " + g.optionalBinding(d-1) + " else " + g.block(d-1)
		}
		return "guard " + g.Expr(d-1) + " else " + g.block(d-1)
	case 19:
		g.form("stmt:function-expression-statement")
		return "let " + g.ident() + " = fun " + g.params(1, false) + g.retType(1) + " " + g.funcBlock(d-1, true)
	case 20:
		g.form("stmt:nested-composite-in-block") // rejected by the checker, accepted by the parser
		return g.composite(d-1, true)
	case 21:
		g.form("stmt:conditional-expression")
		return "let " + g.ident() + " = " + g.Expr(d-1) + " ? " + g.Expr(d-1) + " : " + g.Expr(d-1)
	case 22:
		g.form("stmt:nil-coalescing-chain")
		return "let " + g.ident() + " = " + g.Postfix(d-1) + " ?? " + g.Postfix(d-1) + " ?? " + g.Postfix(d-1)
	case 23:
		if g.Clean {
			g.form("stmt:top-level-move-attach-create")
			switch g.R.Intn(3) {
			case 0:
				return "let " + g.ident() + " <- " + g.target(d) + "(<-" + g.ident() + ")"
			case 1:
				return "let " + g.ident() + " <- attach " + g.nominal() + g.args(0) + " to " + g.ident()
			default:
				return "return <-create " + g.nominal() + g.args(d-1)
			}
		}
		fallthrough
	default:
		g.form("stmt:casting-chain")
		return "let " + g.ident() + " = (" + g.Postfix(d-1) + " as! " + g.Type(1) + ")?." + g.ident() + " as? " + g.Type(1)
	}
}

// ------------------------------------------------------------------ declarations

func (g *ProgGen) access() string {
	switch g.R.Intn(9) {
	case 0, 1, 2:
		g.form("access:all")
		return "access(all)"
	case 3:
		g.form("access:self")
		return "access(self)"
	case 4:
		g.form("access:contract")
		return "access(contract)"
	case 5:
		g.form("access:account")
		return "access(account)"
	case 6:
		g.form("access:mapping")
		return "access(mapping " + Pick(g.R, []string{"M", "Map", "Identity"}) + ")"
	default:
		g.form("access:entitlements")
		return "access(" + g.entitlementList() + ")"
	}
}

func (g *ProgGen) optAccess() string {
	if g.R.Chance(2, 3) {
		return g.access() + " "
	}
	return ""
}

func (g *ProgGen) funDecl(d int, withAccess bool, body bool) string {
	g.form("decl:function")
	s := ""
	if withAccess {
		s = g.optAccess()
	}
	if g.R.Chance(1, 4) {
		g.form("decl:view-function")
		s += "view "
	}
	s += "fun " + g.ident() + g.params(2, false) + g.retType(2)
	if body {
		s += " " + g.funcBlock(d, true)
	}
	return s
}

func (g *ProgGen) conformances() string {
	if !g.R.Chance(1, 3) {
		return ""
	}
	g.form("decl:conformances")
	n := 1 + g.R.Intn(2)
	var xs []string
	for i := 0; i < n; i++ {
		x := Pick(g.R, ifacePool)
		if g.R.Chance(1, 5) {
			x = g.typeName() + "." + x
		}
		xs = append(xs, x)
	}
	return ": " + strings.Join(xs, ", ")
}

func (g *ProgGen) field() string {
	g.form("decl:field")
	return g.optAccess() + Pick(g.R, []string{"let", "var"}) + " " + g.ident() + ": " + g.TypeAnn(2)
}

func (g *ProgGen) members(d int, kind string, iface bool) string {
	var b strings.Builder
	n := g.R.Intn(5)
	for i := 0; i < n; i++ {
		b.WriteString("    ")
		switch g.R.Intn(9) {
		case 0, 1, 2:
			b.WriteString(g.field())
		case 3:
			g.form("decl:initializer")
			b.WriteString(Pick(g.R, []string{"", "", "access(all) ", "view "}) + "init" + g.params(1, false))
			if !iface || g.R.Bool() {
				b.WriteString(" " + g.funcBlock(d, true))
			}
		case 4, 5:
			if iface && g.R.Bool() {
				g.form("decl:interface-function-without-body")
				b.WriteString(g.funDecl(d, true, false))
			} else {
				b.WriteString(g.funDecl(d, true, true))
			}
		case 6:
			if d > 0 {
				g.form("decl:nested-composite")
				b.WriteString(g.composite(d-1, true))
			} else {
				b.WriteString(g.field())
			}
		case 7:
			g.form("decl:nested-event")
			b.WriteString(g.event())
		default:
			if kind == "resource" {
				g.form("decl:resource-destroyed-event")
				b.WriteString("access(all) event ResourceDestroyed" + g.params(0, true))
			} else if d > 0 {
				g.form("decl:nested-enum")
				b.WriteString(g.enum())
			} else {
				b.WriteString(g.field())
			}
		}
		b.WriteString(g.trivia())
		b.WriteString("\n")
	}
	return b.String()
}

func (g *ProgGen) event() string {
	g.form("decl:event")
	return g.optAccess() + "event " + g.typeName() + g.params(1, false)
}

func (g *ProgGen) enum() string {
	g.form("decl:enum")
	var b strings.Builder
	b.WriteString(g.optAccess() + "enum " + g.typeName() + ": " + Pick(g.R, []string{"UInt8", "Int", "UInt64"}) + " {\n")
	n := g.R.Intn(4)
	for i := 0; i < n; i++ {
		g.form("decl:enum-case")
		b.WriteString("        " + g.optAccess() + "case " + g.ident() + fmt.Sprint(i) + "\n")
	}
	b.WriteString("    }")
	return b.String()
}

func (g *ProgGen) composite(d int, nested bool) string {
	kind := Pick(g.R, []string{"struct", "resource", "contract", "struct", "resource"})
	iface := g.R.Chance(1, 3)
	g.form("decl:composite " + kind)
	s := g.optAccess() + kind
	if iface {
		g.form("decl:interface " + kind)
		s += " interface"
	}
	s += " " + g.typeName() + g.conformances() + " {\n" + g.members(d, kind, iface) + "}"
	return s
}

func (g *ProgGen) attachment(d int) string {
	g.form("decl:attachment")
	return g.optAccess() + "attachment " + g.typeName() + " for " + g.nominal() + g.conformances() + " {\n" + g.members(d, "attachment", false) + "}"
}

func (g *ProgGen) entitlement() string {
	if g.R.Chance(1, 2) {
		g.form("decl:entitlement")
		return g.optAccess() + "entitlement " + Pick(g.R, entPool)
	}
	g.form("decl:entitlement-mapping")
	var b strings.Builder
	b.WriteString(g.optAccess() + "entitlement mapping " + Pick(g.R, []string{"M", "Map"}) + " {\n")
	n := g.R.Intn(4)
	if g.Clean && n == 0 {
		n = 1
	}
	for i := 0; i < n; i++ {
		if g.R.Chance(1, 4) {
			g.form("decl:entitlement-mapping-include")
			b.WriteString("    include " + Pick(g.R, []string{"Identity", "N", "Other"}) + "\n")
		} else {
			b.WriteString("    " + Pick(g.R, entPool) + " -> " + Pick(g.R, entPool) + "\n")
		}
	}
	b.WriteString("}")
	return b.String()
}

func (g *ProgGen) importDecl() string {
	g.form("decl:import")
	loc := Pick(g.R, []string{"0x1", "0x01", "0xf8d6e0586b0a20c7", `"Foo"`, `"./foo.cdc"`, "Crypto"})
	switch g.R.Intn(5) {
	case 0:
		return "import " + loc
	case 1:
		return "import " + g.typeName() + " from " + loc
	case 2:
		return "import " + g.typeName() + ", " + g.typeName() + " from " + loc
	case 3:
		g.form("decl:import-alias")
		return "import " + g.typeName() + " as " + g.typeName() + "2 from " + loc
	default:
		g.form("decl:import-alias")
		return "import " + g.typeName() + " as A1, " + g.typeName() + " from " + loc
	}
}

func (g *ProgGen) pragma() string {
	g.form("decl:pragma")
	switch g.R.Intn(4) {
	case 0:
		return "#" + g.ident()
	case 1:
		return "#" + g.ident() + "(" + g.StringLit(0) + ")"
	case 2:
		return "#removedType(" + g.typeName() + ")"
	default:
		return "#" + g.ident() + "(" + g.ident() + ": " + g.StringLit(0) + ")"
	}
}

func (g *ProgGen) transaction(d int) string {
	g.form("decl:transaction")
	var b strings.Builder
	b.WriteString("transaction")
	if g.R.Bool() {
		ps := g.params(1, false)
		if g.Clean && ps == "()" {
			ps = "(a: Int)"
		}
		b.WriteString(ps)
	}
	b.WriteString(" {\n")
	n := g.R.Intn(3)
	for i := 0; i < n; i++ {
		g.form("decl:transaction-field")
		b.WriteString("    " + Pick(g.R, []string{"let", "var"}) + " " + g.ident() + fmt.Sprint(i) + ": " + g.TypeAnn(2) + "\n")
	}
	if g.R.Chance(2, 3) {
		g.form("decl:transaction-prepare")
		b.WriteString("    prepare" + g.params(1, false) + " " + g.funcBlock(d, false) + "\n")
	}
	if g.R.Chance(1, 3) {
		b.WriteString(g.conditions("pre", d))
	}
	if g.R.Chance(2, 3) {
		g.form("decl:transaction-execute")
		b.WriteString("    execute " + g.block(d) + "\n")
	}
	if g.R.Chance(1, 3) {
		b.WriteString(g.conditions("post", d))
	}
	b.WriteString("}")
	return b.String()
}

func (g *ProgGen) Decl(d int) string {
	switch g.R.Intn(16) {
	case 0:
		return g.importDecl()
	case 1:
		return g.pragma()
	case 2, 3:
		return g.varDecl(d, true)
	case 4, 5, 6:
		return g.funDecl(d, true, true)
	case 7, 8, 9:
		return g.composite(d, false)
	case 10:
		return g.attachment(d)
	case 11:
		return g.entitlement()
	case 12:
		return g.transaction(d)
	case 13:
		return g.event()
	case 14:
		return g.enum()
	default:
		return g.funDecl(d, true, true)
	}
}

// Program generates a whole program with up to maxDecls top-level declarations.
func (g *ProgGen) Program(maxDecls, depth int) string {
	var b strings.Builder
	n := 1 + g.R.Intn(maxDecls)
	for i := 0; i < n; i++ {
		if g.Comments && g.R.Chance(1, 6) {
			g.form("trivia:doc-comment")
			b.WriteString(Pick(g.R, []string{"/// doc line\n", "/** doc block */\n", "// plain\n"}))
		}
		b.WriteString(g.Decl(depth))
		b.WriteString(g.trivia())
		b.WriteString("\n\n")
	}
	return b.String()
}
