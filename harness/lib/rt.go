package lib

import (
	"fmt"
	"sort"
	"strings"

	"github.com/onflow/cadence"
	"github.com/onflow/cadence/common"
	"github.com/onflow/cadence/encoding/json"
	"github.com/onflow/cadence/interpreter"
	"github.com/onflow/cadence/runtime"
	"github.com/onflow/cadence/sema"
	"github.com/onflow/cadence/stdlib"
	ru "github.com/onflow/cadence/test_utils/runtime_utils"
)

// Host is an in-memory embedding of the Cadence runtime: a ledger, deployed contract code,
// collected logs and events. One Host = one chain state; scripts and transactions run on it
// with either engine (tree-walking interpreter or bytecode VM).
type Host struct {
	Ledger    ru.TestLedger
	Writes    []string // "owner|key" of every SetValue, in order (cleared by caller)
	Reads     int
	Codes     map[common.AddressLocation][]byte
	Logs      []string
	Events    []cadence.Event
	Signers   []common.Address
	UUID      uint64
	Iface     *ru.TestRuntimeInterface
	RT        runtime.Runtime
	nextTx    func() common.TransactionLocation
	nextScr   func() common.ScriptLocation
	MemGauge  common.MemoryGauge
	CompGauge common.ComputationGauge
}

func NewHost() *Host {
	h := &Host{Codes: map[common.AddressLocation][]byte{}}
	h.Ledger = ru.NewTestLedger(
		func(owner, key, value []byte) { h.Reads++ },
		func(owner, key, value []byte) { h.Writes = append(h.Writes, fmt.Sprintf("%x|%x", owner, key)) },
	)
	h.nextTx = ru.NewTransactionLocationGenerator()
	h.nextScr = ru.NewScriptLocationGenerator()
	h.RT = runtime.NewRuntime(runtime.Config{AtreeValidationEnabled: true})
	h.Iface = &ru.TestRuntimeInterface{
		Storage: h.Ledger,
		OnGetSigningAccounts: func() ([]runtime.Address, error) {
			return h.Signers, nil
		},
		OnResolveLocation: func(identifiers []runtime.Identifier, location runtime.Location) ([]runtime.ResolvedLocation, error) {
			// one location per identifier for address locations
			addr, ok := location.(common.AddressLocation)
			if !ok || len(identifiers) == 0 {
				return []runtime.ResolvedLocation{{Location: location, Identifiers: identifiers}}, nil
			}
			var res []runtime.ResolvedLocation
			for _, id := range identifiers {
				res = append(res, runtime.ResolvedLocation{
					Location:    common.AddressLocation{Address: addr.Address, Name: id.Identifier},
					Identifiers: []runtime.Identifier{id},
				})
			}
			return res, nil
		},
		OnGetAccountContractCode: func(location common.AddressLocation) ([]byte, error) {
			return h.Codes[location], nil
		},
		OnUpdateAccountContractCode: func(location common.AddressLocation, code []byte) error {
			h.Codes[location] = code
			return nil
		},
		OnRemoveAccountContractCode: func(location common.AddressLocation) error {
			delete(h.Codes, location)
			return nil
		},
		OnGetAccountContractNames: func(address runtime.Address) ([]string, error) {
			var names []string
			for l := range h.Codes {
				if l.Address == address {
					names = append(names, l.Name)
				}
			}
			sort.Strings(names)
			return names, nil
		},
		OnProgramLog: func(s string) { h.Logs = append(h.Logs, s) },
		OnEmitEvent: func(e cadence.Event) error {
			h.Events = append(h.Events, e)
			return nil
		},
		OnGenerateUUID: func() (uint64, error) {
			h.UUID++
			return h.UUID, nil
		},
		OnDecodeArgument: func(b []byte, t cadence.Type) (cadence.Value, error) {
			return json.Decode(nil, b)
		},
	}
	return h
}

func (h *Host) ctx(loc common.Location, vm bool) runtime.Context {
	return runtime.Context{
		Interface:        h.Iface,
		Location:         loc,
		UseVM:            vm,
		MemoryGauge:      h.MemGauge,
		ComputationGauge: h.CompGauge,
	}
}

// Outcome of running a program.
type Outcome struct {
	Value  cadence.Value
	Err    error
	Class  string // "" on success, else model error class
	Panic  any    // Go panic that escaped the runtime (should never happen)
	Logs   []string
	Events []cadence.Event
}

func encodeArgs(args []cadence.Value) [][]byte {
	var out [][]byte
	for _, a := range args {
		out = append(out, json.MustEncode(a))
	}
	return out
}

// RunScript executes a script with the chosen engine.
func (h *Host) RunScript(src string, args []cadence.Value, vm bool) (o Outcome) {
	l0, e0 := len(h.Logs), len(h.Events)
	func() {
		defer func() {
			if r := recover(); r != nil {
				o.Panic = r
				o.Class = ECrash
			}
		}()
		v, err := h.RT.ExecuteScript(runtime.Script{Source: []byte(src), Arguments: encodeArgs(args)}, h.ctx(h.nextScr(), vm))
		o.Value, o.Err = v, err
		if err != nil {
			o.Class = ClassifyRuntimeError(err)
		}
	}()
	o.Logs = append([]string{}, h.Logs[l0:]...)
	o.Events = append([]cadence.Event{}, h.Events[e0:]...)
	return
}

// RunTx executes a transaction signed by the given accounts.
func (h *Host) RunTx(src string, args []cadence.Value, signers []common.Address, vm bool) (o Outcome) {
	l0, e0 := len(h.Logs), len(h.Events)
	h.Signers = signers
	func() {
		defer func() {
			if r := recover(); r != nil {
				o.Panic = r
				o.Class = ECrash
			}
		}()
		// programs cached by the interface must not survive contract updates
		err := h.RT.ExecuteTransaction(runtime.Script{Source: []byte(src), Arguments: encodeArgs(args)}, h.ctx(h.nextTx(), vm))
		o.Err = err
		if err != nil {
			o.Class = ClassifyRuntimeError(err)
		}
	}()
	o.Logs = append([]string{}, h.Logs[l0:]...)
	o.Events = append([]cadence.Event{}, h.Events[e0:]...)
	return
}

// Deploy adds a contract to an account through a transaction.
func (h *Host) Deploy(addr common.Address, name, code string, vm bool) Outcome {
	tx := ru.DeploymentTransaction(name, []byte(code))
	o := h.RunTx(string(tx), nil, []common.Address{addr}, vm)
	h.Iface.Programs = nil
	return o
}

// ClassifyRuntimeError maps an error returned by the runtime to a model error class,
// distinguishing checker/parser rejections ("CheckerError", "ParseError") from run-time classes.
func ClassifyRuntimeError(err error) string {
	if err == nil {
		return ""
	}
	found := ""
	unwrapAll(err, func(e error) bool {
		switch x := e.(type) {
		case *sema.CheckerError:
			found = "CheckerError"
		case *runtime.ParsingCheckingError:
			_ = x
			// look deeper
		case *interpreter.ConditionError:
			found = ECondFail
		case *interpreter.InvalidatedResourceReferenceError:
			found = EInvalid
		case *interpreter.ForceCastTypeMismatchError, *interpreter.ForceNilError:
			found = ETypeMism
		case *stdlib.PanicError:
			found = "Panic"
		case *interpreter.CallStackLimitExceededError:
			found = ELimitDepth
		}
		return found != ""
	})
	if found != "" {
		return found
	}
	s := fmt.Sprintf("%T", err)
	_ = s
	if strings.Contains(err.Error(), "Parsing failed") {
		return "ParseError"
	}
	return Classify(err)
}

// ValueString renders an exported value canonically (Cadence literal syntax).
func ValueString(v cadence.Value) string {
	if v == nil {
		return "<nil>"
	}
	return v.String()
}

var _ = stdlib.AccountKey{}
