package lib

import (
	"fmt"
	"runtime"
	"strings"

	"github.com/onflow/cadence/errors"
	"github.com/onflow/cadence/interpreter"
)

// Error classes, named exactly as the constructors of `err` in coq/theories/Base/Prelude.v.
const (
	EOverflow   = "Overflow"
	EUnderflow  = "Underflow"
	EDivZero    = "DivZero"
	ENegShift   = "NegShift"
	EIndexOOB   = "IndexOOB"
	ETypeMism   = "TypeMismatch"
	ECondFail   = "CondFail"
	EInvalid    = "Invalidated"
	ELimitComp  = "LimitComputation"
	ELimitMem   = "LimitMemory"
	ELimitDepth = "LimitDepth"
	EUserOther  = "UserOther"
	EHostFail   = "HostFail"
	EInternal   = "Internal"
	ECrash      = "Crash"
)

// unwrapAll walks an error chain calling f on each element.
func unwrapAll(err error, f func(error) bool) bool {
	for i := 0; err != nil && i < 50; i++ {
		if f(err) {
			return true
		}
		u, ok := err.(interface{ Unwrap() error })
		if !ok {
			return false
		}
		err = u.Unwrap()
	}
	return false
}

// Classify maps a recovered panic value or returned error to a model error class.
func Classify(r any) string {
	if r == nil {
		return ""
	}
	if _, ok := r.(runtime.Error); ok {
		return ECrash
	}
	err, ok := r.(error)
	if !ok {
		return ECrash // non-error panic value (string, etc.)
	}
	cls := ""
	unwrapAll(err, func(e error) bool {
		switch e.(type) {
		case *interpreter.OverflowError:
			cls = EOverflow
		case *interpreter.UnderflowError:
			cls = EUnderflow
		case *interpreter.DivisionByZeroError:
			cls = EDivZero
		case *interpreter.NegativeShiftError:
			cls = ENegShift
		case runtime.Error:
			cls = ECrash
		case errors.MemoryMeteringError:
			cls = ELimitMem
		default:
			// error types of package values (values.DivisionByZeroError, ...) by name
			switch name := fmt.Sprintf("%T", e); {
			case strings.HasSuffix(name, ".DivisionByZeroError"):
				cls = EDivZero
			case strings.HasSuffix(name, ".OverflowError"):
				cls = EOverflow
			case strings.HasSuffix(name, ".UnderflowError"):
				cls = EUnderflow
			case strings.HasSuffix(name, ".NegativeShiftError"):
				cls = ENegShift
			}
		}
		return cls != ""
	})
	if cls != "" {
		return cls
	}
	if errors.IsInternalError(err) {
		return EInternal
	}
	if errors.IsUserError(err) {
		name := fmt.Sprintf("%T", err)
		switch {
		case strings.Contains(name, "ArrayIndexOutOfBounds"), strings.Contains(name, "StringIndexOutOfBounds"),
			strings.Contains(name, "SliceOutOfBounds"), strings.Contains(name, "StringSliceIndices"):
			return EIndexOOB
		}
		return EUserOther
	}
	if _, ok := err.(errors.ExternalError); ok {
		return EHostFail
	}
	return ECrash
}

// Catch runs f and returns the error class of any panic ("" when f returned normally)
// together with the recovered value.
func Catch(f func()) (cls string, rec any) {
	defer func() {
		if r := recover(); r != nil {
			rec = r
			cls = Classify(r)
		}
	}()
	f()
	return "", nil
}
