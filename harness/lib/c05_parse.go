package lib

// Parser for the text log() prints for Cadence values (integers, strings without escapes,
// booleans, nil, arrays, dictionaries, composites).  Used by the C05 harness to read back whole
// nested values.

import (
	"fmt"
	"math/big"
	"strings"
)

// LogNode is a parsed value.
type LogNode struct {
	Tag    byte // 'i' int, 's' string, 'a' array, 'd' dictionary, 'c' composite, 'n' nil, 'b' bool, 'u' unit
	Int    *big.Int
	Str    string // string contents / composite type id
	Elems  []*LogNode
	Keys   []*LogNode // dictionary keys, aligned with Elems
	Fields map[string]*LogNode
	Bool   bool
}

type logParser struct {
	s   string
	pos int
}

func (p *logParser) ws() {
	for p.pos < len(p.s) && p.s[p.pos] == ' ' {
		p.pos++
	}
}

func (p *logParser) fail(msg string) error {
	s := p.s
	if len(s) > 100 {
		s = s[:100] + "..."
	}
	return fmt.Errorf("parse %q at %d: %s", s, p.pos, msg)
}

func (p *logParser) peek(c byte) bool {
	p.ws()
	return p.pos < len(p.s) && p.s[p.pos] == c
}

func (p *logParser) value() (*LogNode, error) {
	p.ws()
	if p.pos >= len(p.s) {
		return nil, p.fail("eof")
	}
	c := p.s[p.pos]
	switch {
	case c == '[':
		p.pos++
		n := &LogNode{Tag: 'a'}
		if p.peek(']') {
			p.pos++
			return n, nil
		}
		for {
			e, err := p.value()
			if err != nil {
				return nil, err
			}
			n.Elems = append(n.Elems, e)
			if p.peek(',') {
				p.pos++
				continue
			}
			if p.peek(']') {
				p.pos++
				return n, nil
			}
			return nil, p.fail("expected , or ]")
		}
	case c == '{':
		p.pos++
		n := &LogNode{Tag: 'd'}
		if p.peek('}') {
			p.pos++
			return n, nil
		}
		for {
			k, err := p.value()
			if err != nil {
				return nil, err
			}
			if !p.peek(':') {
				return nil, p.fail("expected :")
			}
			p.pos++
			v, err := p.value()
			if err != nil {
				return nil, err
			}
			n.Keys = append(n.Keys, k)
			n.Elems = append(n.Elems, v)
			if p.peek(',') {
				p.pos++
				continue
			}
			if p.peek('}') {
				p.pos++
				return n, nil
			}
			return nil, p.fail("expected , or }")
		}
	case c == '"':
		end := p.pos + 1
		for end < len(p.s) && p.s[end] != '"' {
			if p.s[end] == '\\' {
				return nil, p.fail("escape in string")
			}
			end++
		}
		if end >= len(p.s) {
			return nil, p.fail("unterminated string")
		}
		n := &LogNode{Tag: 's', Str: p.s[p.pos+1 : end]}
		p.pos = end + 1
		return n, nil
	case c == '-' || (c >= '0' && c <= '9'):
		end := p.pos + 1
		for end < len(p.s) && p.s[end] >= '0' && p.s[end] <= '9' {
			end++
		}
		z, ok := new(big.Int).SetString(p.s[p.pos:end], 10)
		if !ok {
			return nil, p.fail("bad int")
		}
		p.pos = end
		return &LogNode{Tag: 'i', Int: z}, nil
	case strings.HasPrefix(p.s[p.pos:], "()"):
		p.pos += 2
		return &LogNode{Tag: 'u'}, nil
	case strings.HasPrefix(p.s[p.pos:], "nil"):
		p.pos += 3
		return &LogNode{Tag: 'n'}, nil
	case strings.HasPrefix(p.s[p.pos:], "true"):
		p.pos += 4
		return &LogNode{Tag: 'b', Bool: true}, nil
	case strings.HasPrefix(p.s[p.pos:], "false"):
		p.pos += 5
		return &LogNode{Tag: 'b', Bool: false}, nil
	case c >= 'A' && c <= 'Z':
		end := p.pos
		for end < len(p.s) && p.s[end] != '(' {
			end++
		}
		if end >= len(p.s) {
			return nil, p.fail("composite without (")
		}
		n := &LogNode{Tag: 'c', Str: p.s[p.pos:end], Fields: map[string]*LogNode{}}
		p.pos = end + 1
		if p.peek(')') {
			p.pos++
			return n, nil
		}
		for {
			p.ws()
			fe := p.pos
			for fe < len(p.s) && p.s[fe] != ':' {
				fe++
			}
			if fe >= len(p.s) {
				return nil, p.fail("field name")
			}
			name := p.s[p.pos:fe]
			p.pos = fe + 1
			v, err := p.value()
			if err != nil {
				return nil, err
			}
			if _, dup := n.Fields[name]; dup {
				return nil, p.fail("duplicate field")
			}
			n.Fields[name] = v
			if p.peek(',') {
				p.pos++
				continue
			}
			if p.peek(')') {
				p.pos++
				return n, nil
			}
			return nil, p.fail("expected , or )")
		}
	}
	return nil, p.fail("unexpected character")
}

// ParseLogValue parses one logged value.
func ParseLogValue(s string) (*LogNode, error) {
	p := &logParser{s: s}
	n, err := p.value()
	if err != nil {
		return nil, err
	}
	p.ws()
	if p.pos != len(p.s) {
		return nil, p.fail("trailing input")
	}
	return n, nil
}
