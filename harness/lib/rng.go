// Package lib: shared helpers for the correspondence harness binaries.
package lib

import "math/big"

// Rng is a splitmix64 generator: every random choice of a harness run derives from one seed.
type Rng struct{ s uint64 }

// NewRng hashes the seed, so that consecutive seeds give unrelated streams
// (with a plain splitmix64 state, seed k+1 would be seed k advanced by one step).
func NewRng(seed uint64) *Rng {
	z := seed + 0x632BE59BD9B4E019
	z = (z ^ (z >> 30)) * 0xBF58476D1CE4E5B9
	z = (z ^ (z >> 27)) * 0x94D049BB133111EB
	z ^= z >> 31
	return &Rng{s: z ^ 0x1234567}
}

func (r *Rng) U64() uint64 {
	r.s += 0x9E3779B97F4A7C15
	z := r.s
	z = (z ^ (z >> 30)) * 0xBF58476D1CE4E5B9
	z = (z ^ (z >> 27)) * 0x94D049BB133111EB
	return z ^ (z >> 31)
}

// Intn returns a value in [0,n).
func (r *Rng) Intn(n int) int {
	if n <= 0 {
		return 0
	}
	return int(r.U64() % uint64(n))
}

func (r *Rng) Bool() bool { return r.U64()&1 == 1 }

// Chance returns true with probability num/den.
func (r *Rng) Chance(num, den int) bool { return r.Intn(den) < num }

// BigBits returns a uniformly random non-negative integer of at most `bits` bits.
func (r *Rng) BigBits(bits int) *big.Int {
	z := new(big.Int)
	for i := 0; i < (bits+63)/64; i++ {
		z.Lsh(z, 64)
		z.Or(z, new(big.Int).SetUint64(r.U64()))
	}
	if bits <= 0 {
		return new(big.Int)
	}
	mask := new(big.Int).Sub(new(big.Int).Lsh(big.NewInt(1), uint(bits)), big.NewInt(1))
	return z.And(z, mask)
}

// BigBetween returns a random integer in [lo,hi], biased towards varied bit lengths.
func (r *Rng) BigBetween(lo, hi *big.Int) *big.Int {
	span := new(big.Int).Sub(hi, lo)
	if span.Sign() <= 0 {
		return new(big.Int).Set(lo)
	}
	bl := span.BitLen()
	// choose a bit length uniformly, then a value of that length, offset from lo or hi
	b := r.Intn(bl + 1)
	off := r.BigBits(b)
	if off.Cmp(span) > 0 {
		off.Mod(off, new(big.Int).Add(span, big.NewInt(1)))
	}
	if r.Bool() {
		return off.Add(lo, off)
	}
	return off.Sub(hi, off)
}

func Pick[T any](r *Rng, xs []T) T { return xs[r.Intn(len(xs))] }
