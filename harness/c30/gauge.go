package main

import (
	stderrors "errors"
	"fmt"
	"strings"
	"time"

	"cvh/lib"

	"github.com/onflow/cadence"
	"github.com/onflow/cadence/common"
	"github.com/onflow/cadence/errors"
	"github.com/onflow/cadence/interpreter"
	"github.com/onflow/cadence/runtime"
)

// recGauge implements common.ComputationGauge and common.MemoryGauge: it records the totals per computation
// kind and fails once more than the limit has been used (0 = no limit).
type recGauge struct {
	comp    map[common.ComputationKind]uint64
	compTot uint64
	mem     uint64
	memKind map[common.MemoryKind]uint64
	compLim uint64
	memLim  uint64
}

type limitErr struct{ what string }

func (e limitErr) Error() string { return e.what + " limit exceeded" }

func (g *recGauge) MeterComputation(u common.ComputationUsage) error {
	g.comp[u.Kind] += u.Intensity
	g.compTot += u.Intensity
	if g.compLim > 0 && g.compTot > g.compLim {
		return limitErr{"computation"}
	}
	return nil
}

func (g *recGauge) MeterMemory(u common.MemoryUsage) error {
	g.mem += u.Amount
	g.memKind[u.Kind] += u.Amount
	if g.memLim > 0 && g.mem > g.memLim {
		return limitErr{"memory"}
	}
	return nil
}

// execCase is one real execution request (parent -> child).
type execCase struct {
	ID       int    `json:"id"`
	Src      string `json:"src"`
	Tx       bool   `json:"tx,omitempty"`
	VM       bool   `json:"vm"`
	CompLim  uint64 `json:"comp_limit"`
	MemLim   uint64 `json:"mem_limit"`   // 0 = none
	DepthLim uint64 `json:"depth_limit"` // configured runtime.Config.StackDepthLimit (0 = default)
}

// execResult is what the child reports.
type execResult struct {
	ID      int    `json:"id"`
	Class   string `json:"class"` // "" = success
	User    bool   `json:"user_error"`
	Value   string `json:"value,omitempty"` // Int results only
	Stmt    uint64 `json:"n_statement"`
	Loop    uint64 `json:"n_loop"`
	Inv     uint64 `json:"n_invocation"`
	Elem    uint64 `json:"mem_array_element_overhead"`
	Comp    uint64 `json:"computation_used"`
	Mem     uint64 `json:"memory_used"`
	ErrType string `json:"error_type,omitempty"`
	Sig     string `json:"error_signature,omitempty"` // recognised internal-error site
	Escaped string `json:"escaped_panic,omitempty"`
	Millis  int64  `json:"ms"`
}

func classify(err error) (cls string, user bool, typ string) {
	if err == nil {
		return "", false, ""
	}
	user = errors.IsUserError(err)
	var ce errors.ComputationMeteringError
	var me errors.MemoryMeteringError
	var de *interpreter.CallStackLimitExceededError
	switch {
	case stderrors.As(err, &ce):
		cls = lib.ELimitComp
	case stderrors.As(err, &me):
		cls = lib.ELimitMem
	case stderrors.As(err, &de):
		cls = lib.ELimitDepth
	default:
		cls = lib.ClassifyRuntimeError(err)
	}
	// innermost error type
	e := err
	for i := 0; i < 40; i++ {
		u, ok := e.(interface{ Unwrap() error })
		if !ok || u.Unwrap() == nil {
			break
		}
		e = u.Unwrap()
	}
	typ = fmt.Sprintf("%T", e)
	return
}

func execute(c execCase) (res execResult) {
	res.ID = c.ID
	h := lib.NewHost()
	h.RT = runtime.NewRuntime(runtime.Config{StackDepthLimit: c.DepthLim})
	g := &recGauge{comp: map[common.ComputationKind]uint64{}, memKind: map[common.MemoryKind]uint64{}, compLim: c.CompLim, memLim: c.MemLim}
	h.CompGauge = g
	h.MemGauge = g
	t0 := time.Now()
	var o lib.Outcome
	if c.Tx {
		o = h.RunTx(c.Src, nil, []common.Address{common.MustBytesToAddress([]byte{1})}, c.VM)
	} else {
		o = h.RunScript(c.Src, nil, c.VM)
	}
	res.Millis = time.Since(t0).Milliseconds()
	if o.Panic != nil {
		res.Escaped = fmt.Sprintf("%T: %.300v", o.Panic, o.Panic)
		res.Class = lib.ECrash
	} else {
		res.Class, res.User, res.ErrType = classify(o.Err)
		if res.Class == lib.EInternal || res.Class == lib.ECrash {
			// bbq/compiler: the deferred popControlFlow of a loop/switch runs while a panic (e.g. the memory-limit
			// error) unwinds and panics itself with "unreachable" (patchJump with target 0), masking the first panic
			if msg := o.Err.Error(); strings.Contains(msg, "popControlFlow") && strings.Contains(msg, "patchJump") {
				res.Sig = "vm-compiler-popControlFlow-masks-panic"
			}
		}
	}
	if iv, ok := o.Value.(cadence.Int); ok {
		res.Value = iv.Big().String()
	}
	res.Stmt = g.comp[common.ComputationKindStatement]
	res.Loop = g.comp[common.ComputationKindLoop]
	res.Inv = g.comp[common.ComputationKindFunctionInvocation]
	res.Elem = g.memKind[common.MemoryKindAtreeArrayElementOverhead]
	res.Comp = g.compTot
	res.Mem = g.mem
	return
}
