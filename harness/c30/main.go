// Command c30: correspondence + direct harness for C30 "every execution is bounded by the metering and depth
// limits".  The parent process generates the cases and runs every real execution in a child process
// (`-mode exec`, JSON lines on stdin/stdout) so that a run that does not stop can be killed (wall-clock cap) and a
// fatal Go stack overflow cannot take the harness down.
package main

import (
	"bufio"
	"encoding/json"
	"flag"
	"fmt"
	"os"
	"os/exec"
	"strings"
	"time"

	"cvh/lib"
)

var (
	prop   = flag.String("prop", "C30", "property id")
	seed   = flag.Uint64("seed", 1, "seed")
	tier   = flag.String("tier", "quick", "quick|thorough")
	dir    = flag.String("dir", ".", "output directory")
	mode   = flag.String("mode", "run", "run|exec")
	capSec = flag.Int("cap", 120, "cap per real execution: seconds of CPU time of the executing process (wall clock: 10x)")
)

func main() {
	flag.Parse()
	switch *mode {
	case "exec":
		child()
	case "run":
		sum := &lib.Summary{}
		runMode(sum)
		sum.Write(*dir)
	default:
		fmt.Fprintln(os.Stderr, "unknown mode", *mode)
		os.Exit(2)
	}
}

func child() {
	in := bufio.NewReaderSize(os.Stdin, 1<<20)
	out := bufio.NewWriter(os.Stdout)
	for {
		line, err := in.ReadBytes('\n')
		if len(line) > 0 {
			var c execCase
			if json.Unmarshal(line, &c) == nil {
				res := execute(c)
				b, _ := json.Marshal(res)
				out.Write(b)
				out.WriteByte('\n')
				out.Flush()
			}
		}
		if err != nil {
			return
		}
	}
}

// runner keeps one child process and feeds it cases; a child that exceeds the cap or dies is replaced.
type runner struct {
	cmd *exec.Cmd
	in  *bufio.Writer
	out chan []byte
}

func (r *runner) start() error {
	self, err := os.Executable()
	if err != nil {
		return err
	}
	r.cmd = exec.Command(self, "-mode", "exec")
	r.cmd.Stderr = nil
	stdin, err := r.cmd.StdinPipe()
	if err != nil {
		return err
	}
	stdout, err := r.cmd.StdoutPipe()
	if err != nil {
		return err
	}
	if err := r.cmd.Start(); err != nil {
		return err
	}
	r.in = bufio.NewWriter(stdin)
	r.out = make(chan []byte, 4)
	go func(ch chan []byte) {
		rd := bufio.NewReaderSize(stdout, 1<<20)
		for {
			line, err := rd.ReadBytes('\n')
			if len(line) > 0 {
				ch <- line
			}
			if err != nil {
				close(ch)
				return
			}
		}
	}(r.out)
	return nil
}

func (r *runner) stop() {
	if r.cmd != nil && r.cmd.Process != nil {
		_ = r.cmd.Process.Kill()
		_, _ = r.cmd.Process.Wait()
	}
	r.cmd = nil
}

// run executes one case; status: "ok", "timeout" (killed after the cap), "died" (the child process ended)
func (r *runner) run(c execCase) (res execResult, status string) {
	if r.cmd == nil {
		if err := r.start(); err != nil {
			panic(err)
		}
	}
	b, _ := json.Marshal(c)
	r.in.Write(b)
	r.in.WriteByte('\n')
	if err := r.in.Flush(); err != nil {
		r.stop()
		return res, "died"
	}
	// the cap is on the CPU time the child spends on this case (the machine may be heavily loaded); a hard
	// wall-clock limit of 10 x cap backs it up
	cpu0 := cpuSeconds(r.cmd.Process.Pid)
	start := time.Now()
	tick := time.NewTicker(500 * time.Millisecond)
	defer tick.Stop()
	for {
		select {
		case line, ok := <-r.out:
			if !ok {
				r.stop()
				return res, "died"
			}
			if err := json.Unmarshal(line, &res); err != nil {
				r.stop()
				return res, "died"
			}
			return res, "ok"
		case <-tick.C:
			used := cpuSeconds(r.cmd.Process.Pid) - cpu0
			if used > float64(*capSec) || time.Since(start) > time.Duration(10**capSec)*time.Second {
				r.stop()
				return res, "timeout"
			}
		}
	}
}

// cpuSeconds returns user+system CPU time of a process (Linux /proc), 0 if unavailable.
func cpuSeconds(pid int) float64 {
	b, err := os.ReadFile(fmt.Sprintf("/proc/%d/stat", pid))
	if err != nil {
		return 0
	}
	s := string(b)
	i := strings.LastIndexByte(s, ')')
	if i < 0 {
		return 0
	}
	f := strings.Fields(s[i+1:])
	if len(f) < 14 {
		return 0
	}
	var ut, st float64
	fmt.Sscan(f[11], &ut)
	fmt.Sscan(f[12], &st)
	return (ut + st) / 100
}

type fragCase struct {
	P       program
	VM      bool
	Comp    uint64
	Mem     uint64 // 0 none
	Depth   uint64 // configured limit
	Cat     string
	Compare bool // evaluate the Coq model on it
}

func engineName(vm bool) string {
	if vm {
		return "vm"
	}
	return "interp"
}

const defaultDepth = 2000 // runtime/stackdepth.go defaultStackDepthLimit: used by both engines when no limit is configured

func runMode(sum *lib.Summary) {
	rng := lib.NewRng(*seed)
	g := &gen{rng: rng}
	nTerm, nSpin, nGrow, nRec := 40, 12, 12, 8
	if *tier == "thorough" {
		nTerm, nSpin, nGrow, nRec = 600, 120, 120, 60
	}
	var cases []fragCase
	add := func(p program, cat string, comp, mem, depth uint64, compare bool) {
		for _, vm := range []bool{false, true} {
			cases = append(cases, fragCase{P: p, VM: vm, Comp: comp, Mem: mem, Depth: depth, Cat: cat, Compare: compare})
		}
	}
	// corpus: hand-picked programs first
	for _, p := range corpusFragments() {
		add(p.P, p.Cat, p.Comp, p.Mem, p.Depth, true)
	}
	// depth-limit boundary: recursion of n nested calls around the limit, with and without a built-in call at the bottom
	for _, d := range []uint64{12, 40} {
		for _, dn := range []int{-2, -1, 0, 1, 2, 7} {
			for _, native := range []bool{false, true} {
				n := int(d) + dn
				p := depthProgram(n, native)
				cases = append(cases, fragCase{P: p, VM: false, Comp: 10_000_000, Depth: d, Cat: "depth-boundary", Compare: true})
				cases = append(cases, fragCase{P: p, VM: true, Comp: 10_000_000, Depth: d, Cat: "depth-boundary", Compare: true})
			}
		}
	}
	dns := []int{-1, 0, 1}
	if *tier == "thorough" {
		dns = []int{-3, -2, -1, 0, 1, 2}
	}
	for _, dn := range dns {
		for _, native := range []bool{false, true} {
			p := depthProgram(defaultDepth+dn, native)
			cases = append(cases, fragCase{P: p, VM: true, Comp: 10_000_000, Depth: 0, Cat: "depth-boundary", Compare: true})
			// the call-depth error at depth 2000 costs the interpreter several seconds (every frame re-panics):
			// the quick tier runs one such case
			if *tier == "thorough" || (!native && dn <= 0) {
				cases = append(cases, fragCase{P: p, VM: false, Comp: 10_000_000, Depth: 0, Cat: "depth-boundary", Compare: true})
			}
		}
	}
	for i := 0; i < nTerm; i++ {
		add(g.program(catTerminating), "terminating", 10_000_000, 0, 0, true)
	}
	for i := 0; i < nSpin; i++ {
		lim := []uint64{50, 300, 2000, 20000}[rng.Intn(4)]
		add(g.program(catSpin), "unbounded-loop", lim, 0, 0, lim <= 2000 || i%4 == 0)
	}
	for i := 0; i < nGrow; i++ {
		add(g.program(catGrow), "growth", 400_000, 8000, 0, i%3 == 0 || *tier == "thorough")
	}
	for i := 0; i < nRec; i++ {
		d := uint64(10 + rng.Intn(120))
		add(g.program(catRecurse), "unbounded-recursion", 10_000_000, 0, d, true)
	}

	// recursion with a mix of other call forms at every level (balanced depth accounting)
	addMix := func(pre, post, base []int, n int, unbounded bool, comp, depth uint64, cat string) {
		cad, coq, descr := mixProgram(pre, post, base, n, unbounded)
		for _, vm := range []bool{false, true} {
			funs, main := coq(vm)
			cases = append(cases, fragCase{P: program{Cad: cad, Funs: funs, Main: main, Descr: descr},
				VM: vm, Comp: comp, Depth: depth, Cat: cat, Compare: true})
		}
	}
	for i := range callForms {
		// every form alone: terminating, exact charges; and under a small limit around the boundary
		addMix([]int{i}, nil, nil, 3, false, 10_000_000, 0, "call-form")
		addMix(nil, []int{i}, []int{i}, 2, false, 10_000_000, 0, "call-form")
		for _, n := range []int{7, 8, 9, 10, 11} {
			if *tier == "thorough" || n == 8+i%3 {
				addMix([]int{i}, nil, []int{i}, n, false, 10_000_000, 10, "call-mix-boundary")
			}
		}
	}
	// the shape of a depth counter that is decremented without having been incremented: one (two) invocations on
	// nil per level, recursion far beyond the limit
	addMix([]int{0}, nil, nil, 1000, false, 10_000_000, 50, "call-mix-boundary")
	addMix([]int{0, 1}, []int{0}, nil, 400, false, 10_000_000, 10, "call-mix-boundary")
	nMix, nMixUnb := 45, 8
	if *tier == "thorough" {
		nMix, nMixUnb = 500, 60
	}
	for i := 0; i < nMix; i++ {
		d := []uint64{10, 50}[rng.Intn(2)]
		n := int(d) - 4 + rng.Intn(8)
		if rng.Chance(1, 6) {
			n = int(d) * (2 + rng.Intn(4))
		}
		addMix(pickForms(rng, 3), pickForms(rng, 2), pickForms(rng, 2), n, false, 10_000_000, d, "call-mix-boundary")
	}
	for i := 0; i < nMixUnb; i++ {
		d := []uint64{10, 50}[rng.Intn(2)]
		addMix(pickForms(rng, 3), pickForms(rng, 2), nil, 1, true, 300_000, d, "call-mix-unbounded")
	}

	cw := &lib.CaseWriter{
		Dir: *dir, Prefix: "cases_C30", Header: "From CV Require Import C30.Cases.",
		ElemType: "bool * Z * Z * Z * list (list stmt) * list stmt * obs", CheckFn: "check_case", PerFile: 40,
	}
	r := &runner{}
	defer r.stop()
	distinct := map[string]bool{}
	timeouts := map[string]int{}
	id := 0
	report := func(key, what string, replay any) { sum.Fail(key, what, replay) }

	for _, fc := range cases {
		id++
		ec := execCase{ID: id, Src: fc.P.Cad, VM: fc.VM, CompLim: fc.Comp, MemLim: fc.Mem, DepthLim: fc.Depth}
		if only := os.Getenv("C30_ONLY"); only != "" && only != fc.Cat {
			continue
		}
		if timeouts[fc.Cat+engineName(fc.VM)] >= 2 {
			sum.Count("skipped-after-two-timeouts:" + fc.Cat)
			continue
		}
		res, status := r.run(ec)
		if status == "timeout" {
			timeouts[fc.Cat+engineName(fc.VM)]++
		}
		sum.Evaluations++
		sum.Count("category:" + fc.Cat)
		desc := map[string]any{"category": fc.Cat, "engine": engineName(fc.VM), "comp_limit": fc.Comp, "mem_limit": fc.Mem,
			"depth_limit": fc.Depth, "program": fc.P.Cad, "observed": res, "status": status, "what": fc.P.Descr}
		if !directJudge(sum, report, fc.Cat, engineName(fc.VM), status, res, desc) {
			continue
		}
		if res.Class == "CheckerError" || res.Class == "ParseError" {
			report("generator:rejected-program", "generated fragment program rejected by the checker: "+fc.P.Cad, desc)
			continue
		}
		distinct[fc.P.Cad+engineName(fc.VM)] = true
		sum.Count("outcome:" + orOK(res.Class))
		if len(sum.Samples) < 6 && id%17 == 0 {
			sum.Sample(desc)
		}
		if !fc.Compare {
			continue
		}
		// observed outcome as a Coq term
		var ob string
		switch res.Class {
		case "":
			ob = fmt.Sprintf("(ODone %s %d %d %d %d)", zstr(res.Value), res.Stmt, res.Loop, res.Inv, res.Elem)
		case lib.ELimitComp, lib.ELimitMem, lib.ELimitDepth:
			ob = "(OLimit " + res.Class + ")"
		default:
			ob = "OOther"
		}
		ld := fc.Depth
		if ld == 0 {
			ld = defaultDepth
		}
		lm := "(-1)"
		if fc.Mem > 0 {
			lm = fmt.Sprint(fc.Mem)
		}
		vmb := "false"
		if fc.VM {
			vmb = "true"
		}
		cw.Add(fmt.Sprintf("(%s, %d, %s, %d, %s, %s, %s)", vmb, fc.Comp, lm, ld, fc.P.Funs, fc.P.Main, ob), desc)
	}

	// programs outside the model's fragment: judged directly (bounded, user error or normal end, no crash)
	for _, dp := range directPrograms(*tier == "thorough") {
		for _, vm := range []bool{false, true} {
			id++
			ec := execCase{ID: id, Src: dp.Src, Tx: dp.Tx, VM: vm, CompLim: dp.Comp, MemLim: dp.Mem, DepthLim: dp.Depth}
			res, status := r.run(ec)
			sum.Evaluations++
			sum.Count("category:direct:" + dp.Name)
			desc := map[string]any{"category": "direct:" + dp.Name, "engine": engineName(vm), "comp_limit": dp.Comp, "mem_limit": dp.Mem,
				"depth_limit": dp.Depth, "program": dp.Src, "observed": res, "status": status}
			if directJudge(sum, report, "direct:"+dp.Name, engineName(vm), status, res, desc) {
				distinct[dp.Src+engineName(vm)] = true
				sum.Count("outcome:" + orOK(res.Class))
				if dp.Expect != "" && res.Class != dp.Expect && !(dp.Expect == "limit" && strings.HasPrefix(res.Class, "Limit")) {
					key := fmt.Sprintf("unexpected-outcome:%s:%s", dp.Name, engineName(vm))
					report(key, fmt.Sprintf("%s [%s]: expected %s, observed %q (%s)", dp.Name, engineName(vm), dp.Expect, res.Class, res.ErrType), desc)
				}
			}
		}
	}
	// memory-limit sweep: the same program under many memory limits between nothing and what it needs; the limit
	// then strikes in every phase (parsing, checking, VM compilation, execution) and every outcome must be the
	// memory-limit user error (or success)
	nSweep := 24
	if *tier == "thorough" {
		nSweep = 160
	}
	for _, sp := range sweepPrograms() {
		for _, vm := range []bool{false, true} {
			id++
			full, status := r.run(execCase{ID: id, Src: sp.Src, VM: vm, CompLim: 10_000_000})
			sum.Evaluations++
			if status != "ok" || full.Class != "" {
				report("sweep-baseline:"+sp.Name, "memory sweep: the program does not run without a memory limit: "+full.Class,
					map[string]any{"program": sp.Src, "observed": full, "status": status})
				continue
			}
			for j := 1; j <= nSweep; j++ {
				id++
				lim := full.Mem * uint64(j) / uint64(nSweep+1)
				if lim == 0 {
					continue
				}
				res, status := r.run(execCase{ID: id, Src: sp.Src, VM: vm, CompLim: 10_000_000, MemLim: lim})
				sum.Evaluations++
				sum.Count("category:memory-sweep")
				desc := map[string]any{"category": "memory-sweep:" + sp.Name, "engine": engineName(vm), "mem_limit": lim,
					"memory_needed": full.Mem, "program": sp.Src, "observed": res, "status": status}
				if !directJudge(sum, report, "memory-sweep:"+sp.Name, engineName(vm), status, res, desc) {
					continue
				}
				distinct[fmt.Sprintf("%s|%v|%d", sp.Name, vm, lim)] = true
				if res.Class != lib.ELimitMem {
					report(fmt.Sprintf("memory-sweep-outcome:%s:%s", sp.Name, engineName(vm)),
						fmt.Sprintf("memory sweep %s [%s]: limit %d of %d needed: expected LimitMemory, observed %q (%s)",
							sp.Name, engineName(vm), lim, full.Mem, res.Class, res.ErrType), desc)
				}
			}
		}
	}
	cw.Close()
	sum.CaseFiles = cw.Files
	sum.DistinctNontrivial = len(distinct)
	sum.Rule = "distinct (program, engine) pairs that were accepted by the checker and executed on the real runtime under finite limits"
}

func orOK(s string) string {
	if s == "" {
		return "ok"
	}
	return s
}

func zstr(s string) string {
	if s == "" {
		return "0"
	}
	if strings.HasPrefix(s, "-") {
		return "(" + s + ")"
	}
	return s
}

// directJudge applies the property itself to one real run. Returns false when the run is unusable for the
// model comparison.
func directJudge(sum *lib.Summary, report func(string, string, any), cat, eng, status string, res execResult, desc map[string]any) bool {
	switch status {
	case "timeout":
		report(fmt.Sprintf("not-bounded:%s:%s", cat, eng),
			fmt.Sprintf("%s [%s]: the run did not stop within %d s of CPU time although the computation limit is finite", cat, eng, *capSec), desc)
		return false
	case "died":
		report(fmt.Sprintf("process-died:%s:%s", cat, eng),
			fmt.Sprintf("%s [%s]: the executing process died (fatal Go error such as a stack overflow)", cat, eng), desc)
		return false
	}
	if res.Escaped != "" {
		report(fmt.Sprintf("go-panic:%s:%s", cat, eng), fmt.Sprintf("%s [%s]: a Go panic escaped the runtime: %s", cat, eng, res.Escaped), desc)
		return false
	}
	switch res.Class {
	case lib.ELimitComp, lib.ELimitMem, lib.ELimitDepth:
		if !res.User {
			report(fmt.Sprintf("limit-error-not-user:%s:%s", res.Class, eng),
				fmt.Sprintf("%s [%s]: %s is not reported as a user error (%s)", cat, eng, res.Class, res.ErrType), desc)
		}
	case lib.EInternal, lib.ECrash:
		if res.Sig != "" {
			report("internal-error:"+res.Sig,
				fmt.Sprintf("%s [%s]: the run ended with an internal error instead of the limit error (%s)", cat, eng, res.Sig), desc)
			return false
		}
		report(fmt.Sprintf("internal-error:%s:%s", cat, eng),
			fmt.Sprintf("%s [%s]: the run ended with an internal error / crash (%s)", cat, eng, res.ErrType), desc)
		return false
	}
	return true
}
