package main

import (
	"fmt"
	"strings"

	"cvh/lib"
)

// Recursion programs whose every level makes, besides the recursive call, a mix of other call forms whose depth
// accounting must be balanced.  Each form is ONE Cadence statement and an [aux] term of C30/Model.v (per engine:
// the interpreter enters a callee before its arguments are evaluated, the VM after).

type auxNode struct {
	Kind  string // "skip" | "nat" | "user"
	N     int    // user: statements executed by the callee's body
	Inner []auxNode
}

func skip() auxNode                     { return auxNode{Kind: "skip"} }
func nat() auxNode                      { return auxNode{Kind: "nat"} }
func user(n int, in ...auxNode) auxNode { return auxNode{Kind: "user", N: n, Inner: in} }

func renderAux(ns []auxNode) string {
	if len(ns) == 0 {
		return "ANone"
	}
	rest := renderAux(ns[1:])
	switch ns[0].Kind {
	case "skip":
		return "(ASkip " + rest + ")"
	case "nat":
		return "(ANat " + rest + ")"
	default:
		return fmt.Sprintf("(AUser %d %s %s)", ns[0].N, renderAux(ns[0].Inner), rest)
	}
}

type callForm struct {
	Name   string
	Cad    string
	Interp []auxNode
	VM     []auxNode
	Extra  string // Coq statements following the SAux (the form's effect on the variables), "" if none
}

func same(ns ...auxNode) [2][]auxNode { return [2][]auxNode{ns, ns} }

var callForms = func() []callForm {
	mk := func(name, cad string, both [2][]auxNode, extra string) callForm {
		return callForm{Name: name, Cad: cad, Interp: both[0], VM: both[1], Extra: extra}
	}
	return []callForm{
		mk("optional-chaining on nil", "sNil?.touch()", same(skip()), ""),
		mk("optional-chaining on nil, call in the arguments", "sNil?.add(helper(1))", same(skip()), ""),
		mk("optional-chaining on a value", "sSome?.touch()", same(user(1)), ""),
		mk("bound method", "sObj.touch()", same(user(1)), ""),
		mk("method calling a method", "sObj.deep()", same(user(1, user(1))), ""),
		mk("closure", "clo(3)", same(user(1)), ""),
		mk("initializer", "S(3)", same(user(1)), ""),
		mk("built-in function", "l2.toString()", same(nat()), ""),
		mk("function in a condition", "if isPos(l2) { l3 = l3 + 1 }", same(user(1)), "SAssign 3 (EAdd (EVar 3) (EConst 1))"),
		// conditions are charged as statements: interpreter 1 each, VM 2 each (the desugared test and its branch)
		mk("pre- and post-condition calling functions", "sObj.chk(l2)",
			[2][]auxNode{{user(3, user(1), user(1))}, {user(5, user(1), user(1))}}, ""),
		// VM: the conforming type gets a delegating function that calls the interface's default implementation
		mk("interface default function", "sObj.dflt(2)",
			[2][]auxNode{{user(1)}, {user(1, user(1))}}, ""),
		mk("call in the arguments of an optional-chaining call", "sSome?.add(helper(1))",
			[2][]auxNode{{user(1, user(1))}, {user(1), user(1)}}, ""),
		mk("call in the arguments of a call", "helper(helper(1))",
			[2][]auxNode{{user(1, user(1))}, {user(1), user(1)}}, ""),
		mk("method call in the arguments of a method call", "sObj.add(sObj.touch())",
			[2][]auxNode{{user(1, user(1))}, {user(1), user(1)}}, ""),
		mk("built-in on the result of a call", "helper(1).toString()", same(user(1), nat()), ""),
	}
}()

const mixHelpers = `access(all) struct interface I {
    access(all) fun dflt(_ x: Int): Int { return x }
}
access(all) struct S: I {
    access(all) var v: Int
    init(_ v: Int) { self.v = v }
    access(all) fun touch(): Int { return self.v }
    access(all) fun deep(): Int { return self.touch() + 1 }
    access(all) fun add(_ x: Int): Int { return self.v + x }
    access(all) view fun ok(_ x: Int): Bool { return x == x }
    access(all) fun chk(_ x: Int): Int {
        pre { self.ok(x): "pre" }
        post { self.ok(result): "post" }
        return x
    }
}
access(all) fun helper(_ x: Int): Int { return x + 1 }
access(all) view fun isPos(_ x: Int): Bool { return x == x }
`

// mixProgram builds the recursion program: n = argument of the first call, unbounded = the recursion never ends.
// The Coq side depends on the engine.
func mixProgram(pre, post, base []int, n int, unbounded bool) (cad string, coq func(vm bool) (funs, main string), descr string) {
	stmts := func(ix []int) string {
		var out []string
		for _, i := range ix {
			out = append(out, callForms[i].Cad)
		}
		return strings.Join(out, "\n")
	}
	step := "p0 - 1"
	if unbounded {
		step = "p0 + 1"
	}
	cad = mixHelpers + "access(all) fun rec(_ p0: Int, _ sNil: S?, _ sSome: S?, _ sObj: S, _ clo: fun(Int): Int): Int {\n" +
		"var l2 = 0\nvar l3 = 0\nif p0 < 1 {\n" + stmts(base) + "\nreturn 0\n}\n" + stmts(pre) +
		"\nl2 = rec(" + step + ", sNil, sSome, sObj, clo)\n" + stmts(post) + "\nreturn (l2 + 1)\n}\n" +
		"access(all) fun main(): Int {\nlet sNil: S? = nil\nlet sSome: S? = S(1)\nlet sObj = S(2)\n" +
		"let clo = fun (x: Int): Int { return x + 1 }\nvar l2 = 0\n" +
		fmt.Sprintf("l2 = rec(%d, sNil, sSome, sObj, clo)\nreturn l2\n}\n", n)
	coq = func(vm bool) (string, string) {
		forms := func(ix []int) []string {
			var out []string
			for _, i := range ix {
				f := callForms[i]
				a := f.Interp
				if vm {
					a = f.VM
				}
				out = append(out, "SAux "+renderAux(a))
				if f.Extra != "" {
					out = append(out, f.Extra)
				}
			}
			return out
		}
		stepCoq := "(ESub (EVar 0) (EConst 1))"
		if unbounded {
			stepCoq = "(EAdd (EVar 0) (EConst 1))"
		}
		baseS := append(forms(base), "SReturn (EConst 0)")
		body := []string{"SAssign 2 (EConst 0)", "SAssign 3 (EConst 0)",
			"SIf (BLt (EVar 0) (EConst 1)) [" + strings.Join(baseS, "; ") + "] []"}
		body = append(body, forms(pre)...)
		body = append(body, "SCall 2 0 ["+stepCoq+"]")
		body = append(body, forms(post)...)
		body = append(body, "SReturn (EAdd (EVar 2) (EConst 1))")
		funs := "[[" + strings.Join(body, "; ") + "]]"
		main := fmt.Sprintf("[SAux ANone; SAux %s; SAux %s; SAux ANone; SAssign 2 (EConst 0); SCall 2 0 [EConst %d]; SReturn (EVar 2)]",
			renderAux([]auxNode{user(1)}), renderAux([]auxNode{user(1)}), n)
		return funs, main
	}
	names := func(ix []int) string {
		var out []string
		for _, i := range ix {
			out = append(out, callForms[i].Name)
		}
		return strings.Join(out, ", ")
	}
	descr = fmt.Sprintf("recursion from %d (unbounded: %v); per level before the recursive call: [%s]; after: [%s]; at the bottom: [%s]",
		n, unbounded, names(pre), names(post), names(base))
	return
}

func pickForms(rng *lib.Rng, max int) []int {
	n := rng.Intn(max + 1)
	var out []int
	for i := 0; i < n; i++ {
		// the nil optional-chaining forms are drawn more often: they are the ones that invoke nothing
		if rng.Chance(1, 4) {
			out = append(out, rng.Intn(2))
		} else {
			out = append(out, rng.Intn(len(callForms)))
		}
	}
	return out
}
