package main

import (
	"fmt"
	"strings"

	"cvh/lib"
)

// A fragment program is generated twice: as Cadence source and as a Coq term of C30/Model.v.
// Frame variables: 0,1 = parameters p0,p1 (main: locals), 2,3 = locals l2,l3, 4 = array a4, 5 = string s5.

type gen struct {
	rng    *lib.Rng
	nfuns  int
	inLoop int
}

func varName(x int) string {
	switch x {
	case 0, 1:
		return fmt.Sprintf("p%d", x)
	case 2, 3:
		return fmt.Sprintf("l%d", x)
	case 4:
		return "a4.length"
	default:
		return "s5.length"
	}
}

type code struct{ cad, coq string }

func zlit(n int) string {
	if n < 0 {
		return fmt.Sprintf("(%d)", n)
	}
	return fmt.Sprint(n)
}

func (g *gen) expr(depth int) code {
	switch {
	case depth <= 0 || g.rng.Chance(2, 5):
		if g.rng.Bool() {
			n := g.rng.Intn(7) - 1
			return code{fmt.Sprintf("(%d)", n), "(EConst " + zlit(n) + ")"}
		}
		x := g.rng.Intn(6)
		return code{varName(x), fmt.Sprintf("(EVar %d)", x)}
	case g.rng.Bool():
		a, b := g.expr(depth-1), g.expr(depth-1)
		return code{"(" + a.cad + " + " + b.cad + ")", "(EAdd " + a.coq + " " + b.coq + ")"}
	default:
		a, b := g.expr(depth-1), g.expr(depth-1)
		return code{"(" + a.cad + " - " + b.cad + ")", "(ESub " + a.coq + " " + b.coq + ")"}
	}
}

func (g *gen) cond(depth int) code {
	switch g.rng.Intn(6) {
	case 0:
		if depth > 0 {
			c := g.cond(depth - 1)
			return code{"!(" + c.cad + ")", "(BNot " + c.coq + ")"}
		}
		fallthrough
	case 1, 2:
		a, b := g.expr(1), g.expr(1)
		return code{"(" + a.cad + " < " + b.cad + ")", "(BLt " + a.coq + " " + b.coq + ")"}
	default:
		a, b := g.expr(1), g.expr(1)
		return code{"(" + a.cad + " == " + b.cad + ")", "(BEq " + a.coq + " " + b.coq + ")"}
	}
}

func block(ss []code) code {
	var cad, coq []string
	for _, s := range ss {
		cad = append(cad, s.cad)
		coq = append(coq, s.coq)
	}
	return code{strings.Join(cad, "\n"), "[" + strings.Join(coq, "; ") + "]"}
}

// simple statements that always terminate and do not touch the loop counter `keep`
func (g *gen) simple(keep int, budget *int) code {
	for {
		switch g.rng.Intn(9) {
		case 0, 1, 2:
			x := 2 + g.rng.Intn(2)
			if x == keep {
				continue
			}
			e := g.expr(2)
			return code{fmt.Sprintf("l%d = %s", x, e.cad), fmt.Sprintf("(SAssign %d %s)", x, e.coq)}
		case 3:
			e := g.expr(1)
			return code{"a4.append(" + e.cad + ")", "(SAppend 4 " + e.coq + ")"}
		case 4:
			if *budget < 4 {
				continue
			}
			*budget -= 4
			// the string at most doubles a few times in a terminating program
			return code{"if s5.length < 64 { s5 = s5.concat(s5) }", "(SIf (BLt (EVar 5) (EConst 64)) [SConcat 5] [])"}
		case 5, 6:
			if *budget < 2 {
				continue
			}
			*budget -= 2
			c := g.cond(1)
			a := g.stmts(keep, 1+g.rng.Intn(2), budget)
			var b code
			if g.rng.Bool() {
				b = g.stmts(keep, 1, budget)
				return code{"if " + c.cad + " {\n" + a.cad + "\n} else {\n" + b.cad + "\n}",
					"(SIf " + c.coq + " " + a.coq + " " + b.coq + ")"}
			}
			return code{"if " + c.cad + " {\n" + a.cad + "\n}", "(SIf " + c.coq + " " + a.coq + " [])"}
		case 7:
			if g.inLoop > 0 && g.rng.Chance(1, 3) {
				c := g.cond(0)
				return code{"if " + c.cad + " { break }", "(SIf " + c.coq + " [SBreak] [])"}
			}
			continue
		default:
			if g.nfuns == 0 || *budget < 6 {
				continue
			}
			*budget -= 6
			x := 2 + g.rng.Intn(2)
			if x == keep {
				continue
			}
			f := g.rng.Intn(g.nfuns)
			a0 := g.rng.Intn(6)
			a1 := g.expr(1)
			return code{fmt.Sprintf("l%d = f%d(%d, %s)", x, f, a0, a1.cad),
				fmt.Sprintf("(SCall %d %d [EConst %d; %s])", x, f, a0, a1.coq)}
		}
	}
}

// a bounded loop over counter variable ctr (2 or 3): while ctr < K { body; ctr = ctr + 1 [; if c { continue }] }
func (g *gen) boundedLoop(ctr int, budget *int) code {
	k := 1 + g.rng.Intn(5)
	*budget -= 3 * k
	g.inLoop++
	body := []code{}
	n := 1 + g.rng.Intn(3)
	for i := 0; i < n; i++ {
		body = append(body, g.simple(ctr, budget))
	}
	g.inLoop--
	body = append(body, code{fmt.Sprintf("l%d = l%d + 1", ctr, ctr), fmt.Sprintf("(SAssign %d (EAdd (EVar %d) (EConst 1)))", ctr, ctr)})
	if g.rng.Chance(1, 3) {
		c := g.cond(0)
		body = append(body, code{"if " + c.cad + " { continue }", "(SIf " + c.coq + " [SContinue] [])"})
		body = append(body, g.simple(ctr, budget))
	}
	b := block(body)
	return code{fmt.Sprintf("l%d = 0\nwhile l%d < %d {\n%s\n}", ctr, ctr, k, b.cad),
		fmt.Sprintf("(SAssign %d (EConst 0)); (SWhile (BLt (EVar %d) (EConst %d)) %s)", ctr, ctr, k, b.coq)}
}

func (g *gen) stmts(keep int, n int, budget *int) code {
	var ss []code
	for i := 0; i < n; i++ {
		if keep < 0 && *budget > 20 && g.rng.Chance(1, 3) {
			ss = append(ss, g.boundedLoop(2+g.rng.Intn(2), budget))
			continue
		}
		ss = append(ss, g.simple(keep, budget))
	}
	return block(ss)
}

const prologueCad = "var l2 = 0\nvar l3 = 0\nvar a4: [Int] = []\nvar s5 = \"ab\""
const prologueCoq = "SAssign 2 (EConst 0); SAssign 3 (EConst 0); SDeclArr 4; SDeclStr 5"

type program struct {
	Cad   string
	Funs  string // Coq: list (list stmt)
	Main  string // Coq: list stmt
	Descr string
}

func stripBrackets(s string) string { return strings.TrimSuffix(strings.TrimPrefix(s, "["), "]") }

// function i: recursion on p0 towards 0 (terminating) or away from it (unbounded)
func (g *gen) function(i int, unbounded bool) (cad, coq string) {
	budget := 12
	pre := g.stmts(-2, g.rng.Intn(2), &budget) // -2: no nested loops in functions' preambles
	callee := i
	if g.nfuns > 1 && g.rng.Bool() {
		callee = g.rng.Intn(g.nfuns) // mutual recursion
	}
	step := "p0 - 1"
	stepCoq := "(ESub (EVar 0) (EConst 1))"
	if unbounded {
		step, stepCoq = "p0 + 1", "(EAdd (EVar 0) (EConst 1))"
	}
	base := g.rng.Intn(4)
	a1 := g.expr(1)
	ret := g.expr(1)
	cad = fmt.Sprintf("access(all) fun f%d(_ p0: Int, _ p1: Int): Int {\n%s\nif p0 < 1 { return %d }\n%s\nl2 = f%d(%s, %s)\nreturn (l2 + %s)\n}\n",
		i, prologueCad, base, pre.cad, callee, step, a1.cad, ret.cad)
	body := []string{prologueCoq,
		fmt.Sprintf("SIf (BLt (EVar 0) (EConst 1)) [SReturn (EConst %d)] []", base)}
	if p := stripBrackets(pre.coq); p != "" {
		body = append(body, p)
	}
	body = append(body, fmt.Sprintf("SCall 2 %d [%s; %s]", callee, stepCoq, a1.coq),
		fmt.Sprintf("SReturn (EAdd (EVar 2) %s)", ret.coq))
	coq = "[" + strings.Join(body, "; ") + "]"
	return
}

// kinds of generated programs
const (
	catTerminating = iota
	catSpin
	catGrow
	catRecurse
)

func (g *gen) program(cat int) program {
	g.nfuns = g.rng.Intn(3)
	if cat == catRecurse && g.nfuns == 0 {
		g.nfuns = 1
	}
	var fcad, fcoq []string
	unboundedFn := -1
	if cat == catRecurse {
		unboundedFn = g.rng.Intn(g.nfuns)
	}
	// mutual recursion must keep the decreasing argument: every function decreases p0 (or, for the unbounded one,
	// increases it; then every chain through it is unbounded or ends, both are fine for that category)
	for i := 0; i < g.nfuns; i++ {
		c, q := g.function(i, i == unboundedFn)
		fcad = append(fcad, c)
		fcoq = append(fcoq, q)
	}
	budget := 60
	body := g.stmts(-1, 2+g.rng.Intn(3), &budget)
	main := []string{"SAssign 0 (EConst 0); SAssign 1 (EConst 0)", prologueCoq}
	cadMain := "var p0 = 0\nvar p1 = 0\n" + prologueCad + "\n" + body.cad + "\n"
	if p := stripBrackets(body.coq); p != "" {
		main = append(main, p)
	}
	descr := "terminating"
	switch cat {
	case catSpin:
		descr = "unbounded loop"
		g.inLoop++
		b := 10
		inner := g.stmts(-2, g.rng.Intn(3), &b)
		g.inLoop--
		// no break inside: strip by construction (break only generated with probability; filter)
		if strings.Contains(inner.coq, "SBreak") {
			inner = code{"", "[]"}
		}
		cadMain += "while true {\n" + inner.cad + "\n}\n"
		main = append(main, "SWhile BTrue "+inner.coq)
	case catGrow:
		descr = "ever-growing container"
		which := g.rng.Intn(3)
		var inner []code
		if which != 1 {
			e := g.expr(1)
			inner = append(inner, code{"a4.append(" + e.cad + ")", "(SAppend 4 " + e.coq + ")"})
		}
		if which != 0 {
			inner = append(inner, code{"s5 = s5.concat(s5)", "(SConcat 5)"})
		}
		if g.rng.Bool() {
			inner = append(inner, code{"l3 = l3 + 1", "(SAssign 3 (EAdd (EVar 3) (EConst 1)))"})
		}
		b := block(inner)
		cadMain += "while true {\n" + b.cad + "\n}\n"
		main = append(main, "SWhile BTrue "+b.coq)
	case catRecurse:
		descr = "unbounded recursion"
		cadMain += fmt.Sprintf("l2 = f%d(1, 0)\n", unboundedFn)
		main = append(main, fmt.Sprintf("SCall 2 %d [EConst 1; EConst 0]", unboundedFn))
	}
	ret := g.expr(2)
	cadMain += "return " + ret.cad + "\n"
	main = append(main, "SReturn "+ret.coq)
	return program{
		Cad:   strings.Join(fcad, "") + "access(all) fun main(): Int {\n" + cadMain + "}\n",
		Funs:  "[" + strings.Join(fcoq, "; ") + "]",
		Main:  "[" + strings.Join(main, "; ") + "]",
		Descr: descr,
	}
}

// recursion of exactly n nested calls of f0 (boundary tests of the depth limit)
func depthProgram(n int, native bool) program {
	nat, natCoq := "", ""
	if native {
		nat, natCoq = "a4.append(1)\n", "SAppend 4 (EConst 1); "
	}
	cad := "access(all) fun f0(_ p0: Int, _ p1: Int): Int {\n" + prologueCad + "\nif p0 < 2 {\n" + nat + "return 0\n}\nl2 = f0(p0 - 1, 0)\nreturn (l2 + 1)\n}\n" +
		fmt.Sprintf("access(all) fun main(): Int {\nvar l2 = 0\nl2 = f0(%d, 0)\nreturn l2\n}\n", n)
	funs := "[[" + prologueCoq + "; SIf (BLt (EVar 0) (EConst 2)) [" + natCoq + "SReturn (EConst 0)] []; SCall 2 0 [ESub (EVar 0) (EConst 1); EConst 0]; SReturn (EAdd (EVar 2) (EConst 1))]]"
	main := fmt.Sprintf("[SAssign 2 (EConst 0); SCall 2 0 [EConst %d; EConst 0]; SReturn (EVar 2)]", n)
	return program{Cad: cad, Funs: funs, Main: main, Descr: fmt.Sprintf("recursion of %d nested calls (native call at the bottom: %v)", n, native)}
}
