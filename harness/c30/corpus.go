package main

import (
	"fmt"
	"strings"
)

type corpusFrag struct {
	P     program
	Cat   string
	Comp  uint64
	Mem   uint64
	Depth uint64
}

// hand-picked fragment programs (run first, always compared with the model)
func corpusFragments() []corpusFrag {
	mk := func(descr, cadBody, coqMain string) program {
		return program{
			Cad:   "access(all) fun main(): Int {\nvar p0 = 0\nvar p1 = 0\n" + prologueCad + "\n" + cadBody + "\n}\n",
			Funs:  "[]",
			Main:  "[SAssign 0 (EConst 0); SAssign 1 (EConst 0); " + prologueCoq + "; " + coqMain + "]",
			Descr: descr,
		}
	}
	return []corpusFrag{
		{mk("empty unbounded loop", "while true {\n}\nreturn 0", "SWhile BTrue []; SReturn (EConst 0)"), "unbounded-loop", 1000, 0, 0},
		{mk("unbounded loop with continue", "while true {\ncontinue\n}\nreturn 0", "SWhile BTrue [SContinue]; SReturn (EConst 0)"), "unbounded-loop", 1000, 0, 0},
		{mk("unbounded loop, condition never false", "while l2 < 1 {\nl3 = l3 + 1\n}\nreturn l3",
			"SWhile (BLt (EVar 2) (EConst 1)) [SAssign 3 (EAdd (EVar 3) (EConst 1))]; SReturn (EVar 3)"), "unbounded-loop", 5000, 0, 0},
		{mk("nested unbounded loops", "while true {\nwhile true {\nl2 = l2 + 1\n}\n}\nreturn 0",
			"SWhile BTrue [SWhile BTrue [SAssign 2 (EAdd (EVar 2) (EConst 1))]]; SReturn (EConst 0)"), "unbounded-loop", 3000, 0, 0},
		{mk("array grows for ever", "while true {\na4.append(1)\n}\nreturn 0", "SWhile BTrue [SAppend 4 (EConst 1)]; SReturn (EConst 0)"), "growth", 400000, 8000, 0},
		{mk("string doubles for ever (memory limit)", "while true {\ns5 = s5.concat(s5)\n}\nreturn 0", "SWhile BTrue [SConcat 5]; SReturn (EConst 0)"), "growth", 400000, 8000, 0},
		{mk("string doubles for ever (computation limit only)", "while true {\ns5 = s5.concat(s5)\n}\nreturn 0", "SWhile BTrue [SConcat 5]; SReturn (EConst 0)"), "growth", 200000, 0, 0},
		{mk("counted loop with break and continue",
			"while true {\nl2 = l2 + 1\nif (l2 < 4) { continue }\nl3 = l3 + l2\nif (9 < l2) { break }\n}\nreturn l3",
			"SWhile BTrue [SAssign 2 (EAdd (EVar 2) (EConst 1)); SIf (BLt (EVar 2) (EConst 4)) [SContinue] []; SAssign 3 (EAdd (EVar 3) (EVar 2)); SIf (BLt (EConst 9) (EVar 2)) [SBreak] []]; SReturn (EVar 3)"),
			"terminating", 10000000, 0, 0},
	}
}

type directProgram struct {
	Name   string
	Src    string
	Tx     bool
	Comp   uint64
	Mem    uint64
	Depth  uint64
	Expect string // "" = any bounded outcome that is not an internal error; "limit" = some limit error; else the class
}

func script(body string) string {
	return "access(all) fun main(): AnyStruct {\n" + body + "\n}\n"
}

// programs outside the model's fragment
func directPrograms(thorough bool) []directProgram {
	ps := []directProgram{
		// recursion deeper than a CONFIGURED limit must fail with the call-depth user error in both engines
		// (the VM ignored the configuration before fix 0182225)
		{Name: "configured-depth-limit", Depth: 10, Comp: 10_000_000, Expect: "LimitDepth",
			Src: "access(all) fun f(_ n: Int): Int { if n == 0 { return 0 }\n return f(n - 1) + 1 }\naccess(all) fun main(): Int { return f(50) }\n"},
		{Name: "for-range", Comp: 5000, Expect: "LimitComputation",
			Src: script("var x = 0\nfor i in InclusiveRange(0, 1000000000) { x = x + 1 }\nreturn x")},
		{Name: "for-array-nested", Comp: 20000, Expect: "LimitComputation",
			Src: script("var x = 0\nlet a = [1, 2, 3, 4, 5, 6, 7, 8]\nwhile true { for i in a { for j in a { x = x + i * j } } }\nreturn x")},
		{Name: "dictionary-growth", Comp: 1_000_000, Mem: 60000, Expect: "LimitMemory",
			Src: script("var d: {Int: Int} = {}\nvar i = 0\nwhile true { d[i] = i\n i = i + 1 }\nreturn 0")},
		{Name: "dictionary-growth-comp", Comp: 30000, Expect: "LimitComputation",
			Src: script("var d: {String: [Int]} = {}\nvar i = 0\nwhile true { d[i.toString()] = [i, i]\n i = i + 1 }\nreturn 0")},
		{Name: "nested-arrays", Comp: 20000, Expect: "limit",
			Src: script("var a: AnyStruct = 0\nwhile true { a = [a] }\nreturn 0")},
		{Name: "nested-arrays-export", Comp: 400_000,
			Src: script("var a: AnyStruct = 0\nvar i = 0\nwhile i < 150 { a = [a]\n i = i + 1 }\nreturn a")},
		{Name: "nested-dictionaries-export", Comp: 400_000,
			Src: script("var a: AnyStruct = 0\nvar i = 0\nwhile i < 100 { a = {\"k\": a}\n i = i + 1 }\nreturn a")},
		{Name: "nested-optionals", Comp: 20000, Expect: "limit",
			Src: script("var a: AnyStruct? = 1\nwhile true { let b: AnyStruct? = a\n a = b as AnyStruct }\nreturn 0")},
		{Name: "nested-arrays-save", Tx: true, Comp: 400_000,
			Src: "transaction { prepare(signer: auth(Storage) &Account) {\nvar a: AnyStruct = 0\nvar i = 0\nwhile i < 120 { a = [a]\n i = i + 1 }\nsigner.storage.save(a, to: /storage/deep) } }\n"},
		{Name: "nested-arrays-save-unbounded", Tx: true, Comp: 30000, Expect: "limit",
			Src: "transaction { prepare(signer: auth(Storage) &Account) {\nvar a: AnyStruct = 0\nvar i = 0\nwhile true { a = [a]\n i = i + 1\n if i == 60 { signer.storage.save(a, to: /storage/deep) } } } }\n"},
		{Name: "method-mutual-recursion", Comp: 10_000_000, Expect: "LimitDepth",
			Src: "access(all) struct S {\n access(all) fun f(_ n: Int): Int { return self.g(n + 1) }\n access(all) fun g(_ n: Int): Int { return self.f(n + 1) }\n}\naccess(all) fun main(): Int { return S().f(0) }\n"},
		{Name: "closure-recursion", Comp: 10_000_000, Expect: "LimitDepth",
			Src: "access(all) fun apply(_ f: fun(Int): Int, _ n: Int): Int { return f(n) }\naccess(all) fun g(_ n: Int): Int { return apply(g, n + 1) }\naccess(all) fun main(): Int { return g(0) }\n"},
		{Name: "recursion-small-comp", Comp: 3000, Expect: "LimitComputation",
			Src: "access(all) fun f(_ n: Int): Int { return f(n + 1) }\naccess(all) fun main(): Int { return f(0) }\n"},
		{Name: "string-tolower-growth", Comp: 50000, Expect: "LimitComputation",
			Src: script("var s = \"A\"\nvar t = \"\"\nwhile true { s = s.concat(\"B\")\n t = s.toLower() }\nreturn 0")},
		{Name: "string-split-join", Comp: 50000, Expect: "LimitComputation",
			Src: script("var s = \"a,b\"\nwhile true { s = s.concat(s)\n let p = s.split(separator: \",\")\n s = String.join(p, separator: \",\") }\nreturn 0")},
		{Name: "array-concat-doubling", Comp: 60000, Mem: 0, Expect: "limit",
			Src: script("var a = [1]\nwhile true { a = a.concat(a) }\nreturn 0")},
		{Name: "array-appendall", Comp: 60000, Expect: "limit",
			Src: script("var a = [1]\nwhile true { a.appendAll(a) }\nreturn 0")},
		{Name: "array-insert-front", Comp: 40000, Expect: "limit",
			Src: script("var a: [Int] = []\nwhile true { a.insert(at: 0, 1) }\nreturn 0")},
		{Name: "array-contains-growing", Comp: 40000, Expect: "limit",
			Src: script("var a: [Int] = []\nvar i = 0\nwhile true { a.append(i)\n if a.contains(-1) { break }\n i = i + 1 }\nreturn 0")},
		{Name: "array-map-filter-reverse", Comp: 40000, Expect: "limit",
			Src: script("var a = [1, 2, 3]\nwhile true { a = a.concat(a).map(fun (x: Int): Int { return x + 1 }).filter(view fun (x: Int): Bool { return true }).reverse() }\nreturn 0")},
		{Name: "bigint-squaring", Comp: 100000, Mem: 30_000_000, Expect: "limit",
			Src: script("var x: Int = 3\nwhile true { x = x * x }\nreturn 0")},
		// the shift is metered for memory only (no computation proportional to the operand size): give it a memory limit
		{Name: "bigint-shift", Comp: 100000, Mem: 30_000_000, Expect: "LimitMemory",
			Src: script("var x: Int = 1\nwhile true { x = x << 100000 }\nreturn 0")},
		// Int multiplication by a small factor and toString are metered for memory, not for computation
		{Name: "bigint-tostring", Comp: 50000, Mem: 30_000_000, Expect: "limit",
			Src: script("var x: Int = 7\nvar s = \"\"\nwhile true { x = x * 1000000007\n s = x.toString() }\nreturn 0")},
		{Name: "equality-nested-static", Comp: 1_000_000,
			Src: script("var a: [[[[[[Int]]]]]] = [[[[[[1]]]]]]\nvar i = 0\nwhile i < 200 { a.append(a[0])\n i = i + 1 }\nlet b = a\nreturn a == b")},
		{Name: "deep-expression", Comp: 1_000_000,
			Src: script("return " + strings.Repeat("(", 3000) + "1" + strings.Repeat(")", 3000))},
		{Name: "long-sum-expression", Comp: 1_000_000,
			Src: script("return 1" + strings.Repeat(" + 1", 5000))},
		{Name: "deep-array-literal", Comp: 1_000_000,
			Src: script("return " + strings.Repeat("[", 1500) + "1" + strings.Repeat("]", 1500))},
		{Name: "deep-type-annotation", Comp: 1_000_000,
			Src: script("let a: " + strings.Repeat("[", 1500) + "Int" + strings.Repeat("]", 1500) + " = " + strings.Repeat("[", 1500) + strings.Repeat("]", 1500) + "\nreturn 0")},
	}
	if thorough {
		for _, n := range []int{50, 300, 500} {
			ps = append(ps, directProgram{Name: fmt.Sprintf("nested-arrays-export-%d", n), Comp: 2_000_000,
				Src: script(fmt.Sprintf("var a: AnyStruct = 0\nvar i = 0\nwhile i < %d { a = [a]\n i = i + 1 }\nreturn a", n))})
		}
	}
	return ps
}

type sweepProgram struct{ Name, Src string }

// programs for the memory-limit sweep
func sweepPrograms() []sweepProgram {
	long := strings.Repeat("x = (x + 1) - 1\n", 120)
	return []sweepProgram{
		// a loop whose `break` is compiled before a long rest of the body (pinned: VM compiler defect)
		{"loop-with-break", "access(all) fun main(): Int {\nvar x = 0\nwhile x < 10 {\nif x > 5 { break }\nx = x + 1\n" + long + "}\nreturn x\n}\n"},
		{"for-switch-functions", "access(all) fun f(_ n: Int): Int {\nvar a: [Int] = []\nvar i = 0\nwhile i < n { a.append(i)\n i = i + 1 }\nvar s = 0\nfor v in a { s = s + v }\nreturn s\n}\n" +
			"access(all) fun main(): Int {\nvar t = 0\nvar k = 0\nwhile k < 20 {\nswitch k {\ncase 3: t = t + f(k)\ndefault: t = t + 1\n}\nk = k + 1\n}\nlet d: {Int: String} = {1: \"a\", 2: \"b\"}\nreturn t + d.length\n}\n"},
		{"recursion-strings", "access(all) fun g(_ n: Int, _ s: String): String {\nif n == 0 { return s }\nreturn g(n - 1, s.concat(n.toString()))\n}\naccess(all) fun main(): Int {\nreturn g(40, \"\").length\n}\n"},
	}
}
