// Command c51: correspondence + direct-oracle harness for C51 (internal ordered collections).
// It drives the real packages common/orderedmap, common/persistent, common/intervalst,
// common/bimap and common/list with generated operation histories, compares every observation
// with a plain slice model written here (independent oracle), and writes Coq case files holding
// the histories and the observed results for evaluation by the Coq models of coq/theories/C51.
//
//go:debug randseednop=0
package main

import (
	"encoding/json"
	"flag"
	"fmt"
	"hash/fnv"
	"math/rand"
	"os"
	"path/filepath"
	"sort"
	"strings"

	"cvh/lib"
)

var (
	prop = flag.String("prop", "C51", "property id")
	seed = flag.Uint64("seed", 1, "seed")
	tier = flag.String("tier", "quick", "quick|thorough")
	dir  = flag.String("dir", ".", "output directory")
)

// op is one operation of a history, for every structure (generated or read from the corpus).
type op struct {
	Name string     `json:"op"`
	A    []int64    `json:"a,omitempty"`
	L    [][2]int64 `json:"l,omitempty"`
}

func (o op) String() string {
	s := o.Name
	for _, a := range o.A {
		s += fmt.Sprintf(" %d", a)
	}
	if o.L != nil {
		s += fmt.Sprintf(" %v", o.L)
	}
	return s
}

// history is a named sequence of operations on one structure.
type history struct {
	Struct string `json:"struct"` // omap | bimap | pset | itree | list
	Init   string `json:"init,omitempty"`
	Ops    []op   `json:"ops"`
	Source string `json:"source,omitempty"`
}

func z(i int64) string { return lib.ZI(i) }

// nest renders a Coq list through a builder function without implicit arguments:
// (cons a1 (cons a2 ... nil)) with items "a_i" already rendered as the builder's leading arguments.
func nest(cons string, items []string, nilTerm string) string {
	if len(items) == 0 {
		return nilTerm
	}
	var sb strings.Builder
	for _, it := range items {
		sb.WriteString("(")
		sb.WriteString(cons)
		sb.WriteString(" ")
		sb.WriteString(it)
		sb.WriteString("\n ")
	}
	sb.WriteString(nilTerm)
	sb.WriteString(strings.Repeat(")", len(items)))
	return sb.String()
}

func pairsTerm(l [][2]int64) string {
	parts := make([]string, len(l))
	for i, p := range l {
		parts[i] = z(p[0]) + " " + z(p[1])
	}
	return nest("LP", parts, "LPN")
}

// run context shared by the structure runners
type runner struct {
	sum      *lib.Summary
	distinct map[uint64]bool
	stepDesc []string // interval tree: what each step of the Coq case is
}

func (r *runner) fail(key, what string, h history, step int, extra map[string]any) {
	rep := map[string]any{"struct": h.Struct, "init": h.Init, "failing_step": step, "history_prefix": h.Ops[:min(step+1, len(h.Ops))]}
	for k, v := range extra {
		rep[k] = v
	}
	r.sum.Fail(key, strings.Join(strings.Fields(what), " "), rep)
}

func (r *runner) noteDistinct(h history, nontrivial bool) {
	if !nontrivial {
		return
	}
	b, _ := json.Marshal(h.Ops)
	f := fnv.New64a()
	f.Write([]byte(h.Struct + h.Init))
	f.Write(b)
	k := f.Sum64()
	if !r.distinct[k] {
		r.distinct[k] = true
		r.sum.DistinctNontrivial++
	}
}

func sizeClass(n int) string {
	switch {
	case n <= 50:
		return "<=50"
	case n <= 500:
		return "<=500"
	default:
		return "<=2000"
	}
}

func main() {
	flag.Parse()
	rand.Seed(int64(*seed)) // math/rand drives IntervalST's insertion choices; fixed per seed
	sum := &lib.Summary{}
	r := &runner{sum: sum, distinct: map[uint64]bool{}}
	if *prop != "C51" {
		fmt.Fprintln(os.Stderr, "unknown prop", *prop)
		os.Exit(2)
	}
	sum.Rule = "operation histories (5..2000 operations, keys drawn from small ranges so that re-insertion, deletion and overlap are frequent) " +
		"on the real orderedmap / persistent.OrderedSet / IntervalST / BiMap / list packages; every observation is compared with a plain slice model in Go " +
		"and (all structures except list) with the code-shaped Coq model via vm_compute; for IntervalST the real tree is read back by reflection and compared " +
		"node by node (shape, max, size) with the model tree driven by the observed random choices. " +
		"non-trivial history = omap: re-inserts a present key and deletes a present key; bimap: an insert displaces an existing key or value; " +
		"pset: a set with a parent is added to and a lookup is answered by an ancestor; itree: a duplicate interval is put and some SearchAll returns >= 2 entries; " +
		"list: an element is moved and one is removed; distinct = distinct histories"

	var hs []history
	hs = append(hs, readCorpus()...)
	hs = append(hs, builtinCorpus()...)
	// lib.NewRng(k+1) is lib.NewRng(k) advanced by one step; re-seed from a hashed value so that
	// consecutive seeds give unrelated histories
	rng := lib.NewRng(lib.NewRng(*seed).U64() ^ 0xC51C51C51)
	hs = append(hs, generate(rng, *tier)...)

	cws := map[string]*lib.CaseWriter{
		"omap":  {Dir: *dir, Prefix: "cases_C51_omap", Header: "From CV Require Import C51.Cases.", ElemType: "bool * list (om_op * obs)", CheckFn: "check_omap", PerFile: 40},
		"bimap": {Dir: *dir, Prefix: "cases_C51_bimap", Header: "From CV Require Import C51.Cases.", ElemType: "list (bm_op * obs)", CheckFn: "check_bimap", PerFile: 40},
		"pset":  {Dir: *dir, Prefix: "cases_C51_pset", Header: "From CV Require Import C51.Cases.", ElemType: "list (ps_op * obs)", CheckFn: "check_pset", PerFile: 40},
		"itree": {Dir: *dir, Prefix: "cases_C51_itree", Header: "From CV Require Import C51.Cases.", ElemType: "list it_case", CheckFn: "check_itree", PerFile: 40},
	}
	opsInFile := map[string]int{}
	for i, h := range hs {
		var term string
		var nontrivial bool
		switch h.Struct {
		case "omap":
			term, nontrivial = r.runOMap(h)
		case "bimap":
			term, nontrivial = r.runBiMap(h)
		case "pset":
			term, nontrivial = r.runPSet(h)
		case "itree":
			term, nontrivial = r.runITree(h)
		case "list":
			nontrivial = r.runList(h)
		default:
			fmt.Fprintln(os.Stderr, "unknown struct", h.Struct)
			os.Exit(2)
		}
		sum.Count(h.Struct + " histories " + sizeClass(len(h.Ops)))
		r.noteDistinct(h, nontrivial)
		if cw := cws[h.Struct]; cw != nil {
			desc := map[string]any{"struct": h.Struct, "init": h.Init, "source": h.Source, "n_ops": len(h.Ops), "history": h.Ops, "index": i}
			if h.Struct == "itree" {
				desc["steps"] = r.stepDesc
			}
			cw.Add(term, desc)
			// shard by volume: start a new case file after ~100 KB of terms
			opsInFile[h.Struct] += len(term)
			if opsInFile[h.Struct] > 100_000 {
				cw.Close()
				opsInFile[h.Struct] = 0
			}
		}
		if nontrivial && len(h.Ops) <= 12 {
			var ss []string
			for _, o := range h.Ops {
				ss = append(ss, o.String())
			}
			sum.Sample(map[string]any{"struct": h.Struct, "init": h.Init, "ops": strings.Join(ss, "; ")})
		}
	}
	for _, name := range []string{"omap", "bimap", "pset", "itree"} {
		cws[name].Close()
		sum.CaseFiles = append(sum.CaseFiles, cws[name].Files...)
	}
	sum.Write(*dir)
}

// readCorpus loads hand-picked / minimized histories from corpus/C51 (next to the harness module).
func readCorpus() []history {
	var out []history
	bases := []string{"/verif/corpus/C51"}
	if exe, err := os.Executable(); err == nil {
		bases = append([]string{filepath.Join(filepath.Dir(exe), "..", "..", "corpus", "C51")}, bases...)
	}
	for _, base := range bases {
		files, _ := filepath.Glob(filepath.Join(base, "*.json"))
		if len(files) == 0 {
			continue
		}
		sort.Strings(files)
		for _, f := range files {
			b, err := os.ReadFile(f)
			if err != nil {
				continue
			}
			var hs []history
			if err := json.Unmarshal(b, &hs); err != nil {
				fmt.Fprintln(os.Stderr, "bad corpus file", f, err)
				os.Exit(2)
			}
			for i := range hs {
				hs[i].Source = "corpus:" + filepath.Base(f)
			}
			out = append(out, hs...)
		}
		break
	}
	return out
}

// builtinCorpus: fixed histories run first on every invocation (they do not depend on the seed).
func builtinCorpus() []history {
	return []history{
		// the zero-value map and ForAnyKey / ForAllKeys before the first write
		{Struct: "omap", Init: "zero", Source: "builtin", Ops: []op{{Name: "ForAny", A: []int64{5}}, {Name: "ForAll", A: []int64{5}}, {Name: "Len"}, {Name: "Foreach"}, {Name: "Set", A: []int64{1, 10}}, {Name: "ForAny", A: []int64{5}}, {Name: "ForAny", A: []int64{1}}}},
		{Struct: "omap", Init: "new", Source: "builtin", Ops: []op{{Name: "ForAny", A: []int64{5}}, {Name: "Set", A: []int64{1, 10}}, {Name: "Set", A: []int64{2, 20}}, {Name: "Set", A: []int64{1, 11}}, {Name: "Foreach"}, {Name: "Delete", A: []int64{1}}, {Name: "Set", A: []int64{1, 12}}, {Name: "Foreach"}, {Name: "Clear"}, {Name: "ForAny", A: []int64{5}}, {Name: "Oldest"}}},
		// persistent set: parent written after the clone already holds the item
		{Struct: "pset", Source: "builtin", Ops: []op{{Name: "New", A: []int64{-1}}, {Name: "Clone", A: []int64{0}}, {Name: "Add", A: []int64{1, 7}}, {Name: "Add", A: []int64{0, 7}}, {Name: "ForEach", A: []int64{1}}, {Name: "ForEach", A: []int64{0}}, {Name: "Contains", A: []int64{0, 7}}}},
		// interval tree: duplicate interval, nested and overlapping intervals
		{Struct: "itree", Source: "builtin", Init: "dump-each", Ops: []op{{Name: "Put", A: []int64{3, 5, 100}}, {Name: "Put", A: []int64{3, 5, 101}}, {Name: "Get", A: []int64{3, 5}}, {Name: "Put", A: []int64{0, 9, 102}}, {Name: "Put", A: []int64{4, 4, 103}}, {Name: "SearchAll", A: []int64{4}}, {Name: "Search", A: []int64{4}}, {Name: "Search", A: []int64{10}}, {Name: "SearchInterval", A: []int64{6, 8}}, {Name: "Values"}}},
		// bimap: value displacement
		{Struct: "bimap", Source: "builtin", Ops: []op{{Name: "Insert", A: []int64{1, 10}}, {Name: "Insert", A: []int64{2, 10}}, {Name: "Get", A: []int64{1}}, {Name: "GetInv", A: []int64{10}}, {Name: "Insert", A: []int64{2, 20}}, {Name: "GetInv", A: []int64{10}}, {Name: "Size"}}},
	}
}
