package main

import "cvh/lib"

// lengths of the generated histories: many short, some medium, a few of 2000 operations
func histLens(tier string, scale int) []int {
	var out []int
	add := func(n, count int) {
		for i := 0; i < count; i++ {
			out = append(out, n)
		}
	}
	k := 1
	if tier == "thorough" {
		k = 8
	}
	add(-1, 10*scale*k) // 5..40, chosen per history
	add(-2, 4*scale*k)  // 100..400
	add(2000, 1*scale*k)
	return out
}

func pickLen(rng *lib.Rng, n int) int {
	switch n {
	case -1:
		return 5 + rng.Intn(36)
	case -2:
		return 100 + rng.Intn(301)
	}
	return n
}

// keyRange picks how many distinct keys a history draws from (small = many collisions)
func keyRange(rng *lib.Rng, n int) int64 {
	c := []int64{3, 5, 8, 16, 64}
	if n > 500 {
		c = []int64{16, 64, 300, 700}
	}
	return lib.Pick(rng, c)
}

type weighted struct {
	name string
	w    int
}

func pickW(rng *lib.Rng, ws []weighted) string {
	tot := 0
	for _, w := range ws {
		tot += w.w
	}
	x := rng.Intn(tot)
	for _, w := range ws {
		if x < w.w {
			return w.name
		}
		x -= w.w
	}
	return ws[0].name
}

func randPairs(rng *lib.Rng, kr int64) [][2]int64 {
	n := rng.Intn(6)
	l := make([][2]int64, 0, n)
	for i := 0; i < n; i++ {
		l = append(l, [2]int64{int64(rng.Intn(int(kr) + 2)), int64(rng.Intn(1000))})
	}
	return l
}

func generate(rng *lib.Rng, tier string) []history {
	var out []history
	// ---- ordered map
	for _, n0 := range histLens(tier, 2) {
		n := pickLen(rng, n0)
		kr := keyRange(rng, n)
		h := history{Struct: "omap", Init: "new", Source: "generated"}
		if rng.Chance(1, 3) {
			h.Init = "zero"
		}
		iter := 6
		if n > 500 {
			iter = 1 // whole-map outputs are long: ask less often in long histories
		}
		ws := []weighted{{"Set", 34}, {"Delete", 14}, {"Get", 8}, {"Contains", 5}, {"Len", 4}, {"Clear", 1},
			{"Foreach", iter}, {"Oldest", 3}, {"Newest", 3}, {"Next", 5}, {"Prev", 5}, {"ForAll", 3}, {"ForAny", 3},
			{"SetAll", 2}, {"Disjoint", 2}, {"Intersect", iter / 2}, {"Union", iter / 2}}
		if n > 500 {
			ws[5].w = 0 // no Clear in the long histories, so that they grow
		}
		for i := 0; i < n; i++ {
			name := pickW(rng, ws)
			k := int64(rng.Intn(int(kr)))
			if rng.Chance(1, 40) {
				k = -k - 1
			}
			o := op{Name: name}
			switch name {
			case "Set":
				o.A = []int64{k, int64(rng.Intn(1000))}
			case "Get", "Contains", "Delete", "Next", "Prev":
				o.A = []int64{k}
			case "ForAll", "ForAny":
				o.A = []int64{int64(rng.Intn(int(kr) + 2))}
			case "Foreach":
				o.A = []int64{int64(rng.Intn(1000))}
			case "SetAll", "Disjoint", "Intersect", "Union":
				o.L = randPairs(rng, kr)
			}
			h.Ops = append(h.Ops, o)
		}
		out = append(out, h)
	}
	// ---- bimap
	for _, n0 := range histLens(tier, 1) {
		n := pickLen(rng, n0)
		kr := keyRange(rng, n)
		h := history{Struct: "bimap", Source: "generated"}
		ws := []weighted{{"Insert", 40}, {"Exists", 6}, {"ExistsInv", 6}, {"Get", 10}, {"GetInv", 10}, {"Delete", 10}, {"DeleteInv", 10}, {"Size", 8}}
		for i := 0; i < n; i++ {
			name := pickW(rng, ws)
			o := op{Name: name}
			switch name {
			case "Insert":
				o.A = []int64{int64(rng.Intn(int(kr))), int64(rng.Intn(int(kr)))}
			case "Size":
			default:
				o.A = []int64{int64(rng.Intn(int(kr)))}
			}
			h.Ops = append(h.Ops, o)
		}
		out = append(out, h)
	}
	// ---- persistent ordered set
	for _, n0 := range histLens(tier, 1) {
		n := pickLen(rng, n0)
		kr := keyRange(rng, n)
		h := history{Struct: "pset", Source: "generated"}
		h.Ops = append(h.Ops, op{Name: "New", A: []int64{-1}})
		nsets := int64(1)
		maxSets := int64(4 + rng.Intn(20))
		iter := 8
		if n > 500 {
			iter = 2
		}
		ws := []weighted{{"New", 3}, {"Clone", 8}, {"Add", 40}, {"Contains", 20}, {"ForEach", iter}, {"ForEachStop", iter / 2}, {"IsEmpty", 5}, {"AddIntersection", 5}}
		for i := 1; i < n; i++ {
			name := pickW(rng, ws)
			if (name == "New" || name == "Clone") && nsets >= maxSets {
				name = "Add"
			}
			hd := func() int64 {
				// prefer recent sets (deep chains), sometimes any
				if rng.Bool() {
					return nsets - 1 - int64(rng.Intn(int(min(nsets, 3))))
				}
				return int64(rng.Intn(int(nsets)))
			}
			o := op{Name: name}
			switch name {
			case "New":
				p := int64(-1)
				if rng.Bool() {
					p = hd()
				}
				o.A = []int64{p}
				nsets++
			case "Clone":
				o.A = []int64{hd()}
				nsets++
			case "Add", "Contains", "ForEachStop":
				o.A = []int64{hd(), int64(rng.Intn(int(kr)))}
			case "ForEach", "IsEmpty":
				o.A = []int64{hd()}
			case "AddIntersection":
				o.A = []int64{hd(), hd(), hd()}
			}
			h.Ops = append(h.Ops, o)
		}
		out = append(out, h)
	}
	// ---- interval tree
	for _, n0 := range histLens(tier, 1) {
		n := pickLen(rng, n0)
		span := int64(lib.Pick(rng, []int{6, 12, 30, 100, 1000}))
		h := history{Struct: "itree", Source: "generated"}
		if n <= 40 {
			h.Init = "dump-each"
		}
		all := 12
		if n > 500 {
			all = 4
		}
		ws := []weighted{{"Put", 45}, {"Get", 8}, {"Contains", 4}, {"Search", 14}, {"SearchInterval", 8}, {"SearchAll", all}, {"Values", 1}}
		var put [][2]int64
		val := int64(0)
		interval := func() (int64, int64) {
			lo := int64(rng.Intn(int(span)))
			var ln int64
			switch rng.Intn(4) {
			case 0:
				ln = 0
			case 1:
				ln = int64(rng.Intn(3))
			case 2:
				ln = int64(rng.Intn(int(span)/3 + 1))
			default:
				ln = int64(rng.Intn(int(span)))
			}
			return lo, lo + ln
		}
		for i := 0; i < n; i++ {
			name := pickW(rng, ws)
			o := op{Name: name}
			switch name {
			case "Put":
				lo, hi := interval()
				if len(put) > 0 && rng.Chance(1, 6) {
					e := lib.Pick(rng, put) // duplicate interval
					lo, hi = e[0], e[1]
				}
				val++
				o.A = []int64{lo, hi, val}
				put = append(put, [2]int64{lo, hi})
			case "Get", "Contains":
				lo, hi := interval()
				if len(put) > 0 && rng.Chance(2, 3) {
					e := lib.Pick(rng, put)
					lo, hi = e[0], e[1]
					if rng.Chance(1, 5) {
						hi++ // same minimum, other maximum
					}
				}
				o.A = []int64{lo, hi}
			case "Search", "SearchAll":
				p := int64(rng.Intn(int(span)*2+2)) - 1
				if len(put) > 0 && rng.Bool() {
					e := lib.Pick(rng, put) // an endpoint or its neighbour
					p = lib.Pick(rng, []int64{e[0], e[1], e[0] - 1, e[1] + 1})
				}
				o.A = []int64{p}
			case "SearchInterval":
				lo, hi := interval()
				if rng.Chance(1, 3) {
					lo, hi = lo-2, lo-2+(hi-lo)/4
				}
				o.A = []int64{lo, hi}
			}
			h.Ops = append(h.Ops, o)
		}
		out = append(out, h)
	}
	// ---- list (plain slice oracle only)
	for _, n0 := range histLens(tier, 1) {
		n := pickLen(rng, n0)
		if n > 400 {
			n = 400
		}
		h := history{Struct: "list", Init: "new", Source: "generated"}
		if rng.Chance(1, 3) {
			h.Init = "zero"
		}
		ws := []weighted{{"PushFront", 10}, {"PushBack", 14}, {"InsertBefore", 8}, {"InsertAfter", 8}, {"MoveToFront", 6}, {"MoveToBack", 6},
			{"MoveBefore", 8}, {"MoveAfter", 8}, {"Remove", 14}}
		if n <= 60 {
			ws = append(ws, weighted{"PushBackSelf", 1}, weighted{"PushFrontSelf", 1}, weighted{"Init", 1})
		}
		nel := 0
		for i := 0; i < n; i++ {
			name := pickW(rng, ws)
			if nel == 0 && name != "PushFront" && name != "PushBack" {
				name = "PushBack"
			}
			if h.Init == "zero" && i == 0 {
				name = "PushBack" // a zero List must first be written to (lazyInit) before marks are used
			}
			o := op{Name: name}
			switch name {
			case "PushFront", "PushBack":
				nel++
			case "InsertBefore", "InsertAfter":
				o.A = []int64{int64(rng.Intn(nel))}
				nel++ // may not create an element (stale mark); the runner registers only real ones
			case "MoveToFront", "MoveToBack", "Remove":
				o.A = []int64{int64(rng.Intn(nel))}
			case "MoveBefore", "MoveAfter":
				o.A = []int64{int64(rng.Intn(nel)), int64(rng.Intn(nel))}
			}
			h.Ops = append(h.Ops, o)
		}
		out = append(out, h)
	}
	return out
}
