package main

import (
	"errors"
	"fmt"

	"cvh/lib"

	"github.com/onflow/cadence/common/orderedmap"
)

type kv struct{ k, v int64 }

// obsv is an observation in the vocabulary of the Coq type `obs`.
type obsv struct{ term string }

func vUnit() obsv       { return obsv{"VUnit"} }
func vCrash() obsv      { return obsv{"VCrash"} }
func vBool(b bool) obsv { return obsv{fmt.Sprintf("(VBool %v)", b)} }
func vInt(i int64) obsv { return obsv{"(VInt " + z(i) + ")"} }
func vOpt(v int64, ok bool) obsv {
	if !ok {
		return obsv{"(VOpt None)"}
	}
	return obsv{"(VOpt (Some " + z(v) + "))"}
}
func vPair(p *kv) obsv {
	if p == nil {
		return obsv{"(VPair None)"}
	}
	return obsv{"(VPair (Some (" + z(p.k) + "," + z(p.v) + ")))"}
}
func vList(l []kv) obsv {
	parts := make([]string, len(l))
	for i, p := range l {
		parts[i] = z(p.k) + " " + z(p.v)
	}
	return obsv{"(VList " + nest("LP", parts, "LPN") + ")"}
}
func vKeys(l []int64) obsv {
	ps := make([]kv, len(l))
	for i, k := range l {
		ps[i] = kv{k, 0}
	}
	return vList(ps)
}

type omapT = orderedmap.OrderedMap[int64, int64]

// ---- plain model (oracle): association slice in insertion order ----
type omModel struct{ ps []kv }

func (m *omModel) idx(k int64) int {
	for i, p := range m.ps {
		if p.k == k {
			return i
		}
	}
	return -1
}
func (m *omModel) set(k, v int64) (int64, bool) {
	if i := m.idx(k); i >= 0 {
		old := m.ps[i].v
		m.ps[i].v = v
		return old, true
	}
	m.ps = append(m.ps, kv{k, v})
	return 0, false
}
func (m *omModel) del(k int64) (int64, bool) {
	i := m.idx(k)
	if i < 0 {
		return 0, false
	}
	old := m.ps[i].v
	m.ps = append(append([]kv{}, m.ps[:i]...), m.ps[i+1:]...)
	return old, true
}
func (m *omModel) get(k int64) (int64, bool) {
	if i := m.idx(k); i >= 0 {
		return m.ps[i].v, true
	}
	return 0, false
}
func modelOf(l [][2]int64) *omModel {
	m := &omModel{}
	for _, p := range l {
		m.set(p[0], p[1])
	}
	return m
}

func buildOM(l [][2]int64) *omapT {
	o := orderedmap.New[omapT](len(l))
	for _, p := range l {
		o.Set(p[0], p[1])
	}
	return o
}

func collect(o *omapT) []kv {
	var out []kv
	o.Foreach(func(k, v int64) { out = append(out, kv{k, v}) })
	return out
}

func pairOf(p *orderedmap.Pair[int64, int64]) *kv {
	if p == nil {
		return nil
	}
	return &kv{p.Key, p.Value}
}

// runOMap executes a history on the real ordered map and on the plain model.
func (r *runner) runOMap(h history) (term string, nontrivial bool) {
	var om *omapT
	newed := h.Init != "zero"
	if newed {
		om = orderedmap.New[omapT](0)
	} else {
		om = &omapT{}
	}
	written := newed // has `pairs` been allocated (New, or a Set happened)
	m := &omModel{}
	var steps []string
	reins, delp := false, false
	for i, o := range h.Ops {
		var got, want obsv
		var coq string
		a := func(j int) int64 { return o.A[j] }
		key := "omap:" + o.Name
		cls, _ := lib.Catch(func() {
			switch o.Name {
			case "Set":
				coq = fmt.Sprintf("OSet %s %s", z(a(0)), z(a(1)))
				if _, p := m.get(a(0)); p {
					reins = true
				}
				old, ok := om.Set(a(0), a(1))
				got = vOpt(old, ok)
				wold, wok := m.set(a(0), a(1))
				want = vOpt(wold, wok)
				written = true
			case "Get":
				coq = "OGet " + z(a(0))
				v, ok := om.Get(a(0))
				got = vOpt(v, ok)
				wv, wok := m.get(a(0))
				want = vOpt(wv, wok)
			case "Contains":
				coq = "OContains " + z(a(0))
				got = vBool(om.Contains(a(0)))
				_, wok := m.get(a(0))
				want = vBool(wok)
			case "Delete":
				coq = "ODelete " + z(a(0))
				if _, p := m.get(a(0)); p {
					delp = true
				}
				old, ok := om.Delete(a(0))
				got = vOpt(old, ok)
				wold, wok := m.del(a(0))
				want = vOpt(wold, wok)
			case "Len":
				coq = "OLen"
				got = vInt(int64(om.Len()))
				want = vInt(int64(len(m.ps)))
			case "Clear":
				coq = "OClear"
				om.Clear()
				m.ps = nil
				got, want = vUnit(), vUnit()
			case "Foreach":
				coq = "OForeach"
				l := collect(om)
				got = vList(l)
				want = vList(m.ps)
				// the other iteration entry points must agree with Foreach
				var wi []kv
				idxOK := true
				om.ForeachWithIndex(func(ix int, k, v int64) {
					if ix != len(wi) {
						idxOK = false
					}
					wi = append(wi, kv{k, v})
				})
				stop := 0
				if len(l) > 0 {
					stop = int(a0or(o, 0)) % (len(l) + 1)
				}
				var we []kv
				sentinel := errors.New("stop")
				err := om.ForeachWithError(func(k, v int64) error {
					if len(we) == stop {
						return sentinel
					}
					we = append(we, kv{k, v})
					return nil
				})
				wantErr := stop < len(l)
				if !idxOK || vList(wi) != got || vList(we) != vList(l[:stop]) || (err != nil) != wantErr {
					r.fail("omap:ForeachVariants", fmt.Sprintf("ForeachWithIndex/ForeachWithError disagree with Foreach: %v / %v (stop %d, err %v) vs %v", wi, we, stop, err, l), h, i, nil)
				}
			case "Oldest":
				coq = "OOldest"
				got = vPair(pairOf(om.Oldest()))
				if len(m.ps) > 0 {
					want = vPair(&m.ps[0])
				} else {
					want = vPair(nil)
				}
			case "Newest":
				coq = "ONewest"
				got = vPair(pairOf(om.Newest()))
				if len(m.ps) > 0 {
					want = vPair(&m.ps[len(m.ps)-1])
				} else {
					want = vPair(nil)
				}
			case "Next", "Prev":
				coq = map[string]string{"Next": "ONext ", "Prev": "OPrev "}[o.Name] + z(a(0))
				p := om.GetPair(a(0))
				ix := m.idx(a(0))
				if p == nil {
					got = vUnit()
				} else if o.Name == "Next" {
					got = vPair(pairOf(p.Next()))
				} else {
					got = vPair(pairOf(p.Prev()))
				}
				switch {
				case ix < 0:
					want = vUnit()
				case o.Name == "Next" && ix+1 < len(m.ps):
					want = vPair(&m.ps[ix+1])
				case o.Name == "Prev" && ix > 0:
					want = vPair(&m.ps[ix-1])
				default:
					want = vPair(nil)
				}
			case "ForAll", "ForAny":
				c := a(0)
				pred := func(k int64) bool { return k < c }
				all, any := true, false
				for _, p := range m.ps {
					all = all && pred(p.k)
					any = any || pred(p.k)
				}
				if o.Name == "ForAll" {
					coq = "OForAll " + z(c)
					got, want = vBool(om.ForAllKeys(pred)), vBool(all)
				} else {
					coq = "OForAny " + z(c)
					got, want = vBool(om.ForAnyKey(pred)), vBool(any)
					if !written {
						key = "omap:ForAnyKey:zero-value-map"
					}
				}
			case "SetAll":
				coq = "OSetAll " + "(" + pairsTerm(o.L) + ")"
				om.SetAll(buildOM(o.L))
				for _, p := range modelOf(o.L).ps {
					m.set(p.k, p.v)
					written = true
				}
				got, want = vUnit(), vUnit()
			case "Disjoint":
				coq = "ODisjoint " + "(" + pairsTerm(o.L) + ")"
				got = vBool(om.KeySetIsDisjointFrom(buildOM(o.L)))
				other := modelOf(o.L)
				d := true
				for _, p := range m.ps {
					if other.idx(p.k) >= 0 {
						d = false
					}
				}
				want = vBool(d)
			case "Intersect":
				coq = "OIntersect " + "(" + pairsTerm(o.L) + ")"
				got = vList(collect(orderedmap.KeySetIntersection(om, buildOM(o.L))))
				other := modelOf(o.L)
				var res []kv
				for _, p := range m.ps {
					if other.idx(p.k) >= 0 {
						res = append(res, p)
					}
				}
				want = vList(res)
			case "Union":
				coq = "OUnion " + "(" + pairsTerm(o.L) + ")"
				got = vList(collect(orderedmap.KeySetUnion(om, buildOM(o.L))))
				u := &omModel{}
				for _, p := range m.ps {
					u.set(p.k, p.v)
				}
				for _, p := range modelOf(o.L).ps {
					u.set(p.k, p.v)
				}
				want = vList(u.ps)
			default:
				panic("unknown omap op " + o.Name)
			}
		})
		if cls != "" {
			if coq == "" {
				panic(fmt.Sprintf("bad omap op %v", o))
			}
			got = vCrash()
		}
		r.sum.Evaluations++
		r.sum.Count("omap " + o.Name)
		if got != want {
			r.fail(key, fmt.Sprintf("orderedmap (%s) step %d `%s`: real %s, list model %s", h.Init, i, o, got.term, want.term), h, i,
				map[string]any{"observed": got.term, "required": want.term})
			steps = append(steps, "("+coq+") "+got.term)
			if got == vCrash() || omMutates[o.Name] {
				break // the plain model can no longer follow: end this history here
			}
			continue
		}
		steps = append(steps, "("+coq+") "+got.term)
	}
	return fmt.Sprintf("(%v, %s)", newed, nest("OS", steps, "ON")), reins && delp
}

var omMutates = map[string]bool{"Set": true, "Delete": true, "Clear": true, "SetAll": true}

func a0or(o op, d int64) int64 {
	if len(o.A) > 0 {
		return o.A[0]
	}
	return d
}
