package main

import (
	"fmt"

	"cvh/lib"

	"github.com/onflow/cadence/common/list"
)

// runList drives common/list (the linked list under the ordered map) against a slice of element ids.
// Elements are addressed by creation index; removed elements stay addressable (operations on them
// must leave the list unchanged).
func (r *runner) runList(h history) (nontrivial bool) {
	l := list.New[int64]()
	if h.Init == "zero" {
		l = &list.List[int64]{}
	}
	var elems []*list.Element[int64] // by id
	var order []int                  // ids, front to back
	pos := func(id int) int {
		for i, x := range order {
			if x == id {
				return i
			}
		}
		return -1
	}
	insertAt := func(i int, id int) {
		order = append(order, 0)
		copy(order[i+1:], order[i:])
		order[i] = id
	}
	removeAt := func(i int) { order = append(order[:i:i], order[i+1:]...) }
	newElem := func(e *list.Element[int64]) int {
		elems = append(elems, e)
		return len(elems) - 1
	}
	moved, removed := false, false
	for i, o := range h.Ops {
		// element ids are taken modulo the number of elements created so far
		a := func(j int) int64 { return o.A[j] % int64(len(elems)) }
		if len(elems) == 0 && o.Name != "PushFront" && o.Name != "PushBack" && o.Name != "Init" {
			o.Name = "PushBack"
		}
		bad := ""
		cls, rec := lib.Catch(func() {
			switch o.Name {
			case "PushFront":
				id := newElem(l.PushFront(int64(len(elems))))
				insertAt(0, id)
			case "PushBack":
				id := newElem(l.PushBack(int64(len(elems))))
				insertAt(len(order), id)
			case "InsertBefore", "InsertAfter":
				mark := int(a(0))
				var e *list.Element[int64]
				if o.Name == "InsertBefore" {
					e = l.InsertBefore(int64(len(elems)), elems[mark])
				} else {
					e = l.InsertAfter(int64(len(elems)), elems[mark])
				}
				p := pos(mark)
				if (e == nil) != (p < 0) {
					bad = fmt.Sprintf("%s returned nil=%v but mark in list=%v", o.Name, e == nil, p >= 0)
				}
				if e != nil {
					id := newElem(e)
					if p >= 0 {
						if o.Name == "InsertBefore" {
							insertAt(p, id)
						} else {
							insertAt(p+1, id)
						}
					}
				}
			case "MoveToFront", "MoveToBack":
				id := int(a(0))
				if o.Name == "MoveToFront" {
					l.MoveToFront(elems[id])
				} else {
					l.MoveToBack(elems[id])
				}
				if p := pos(id); p >= 0 {
					moved = true
					removeAt(p)
					if o.Name == "MoveToFront" {
						insertAt(0, id)
					} else {
						insertAt(len(order), id)
					}
				}
			case "MoveBefore", "MoveAfter":
				id, mark := int(a(0)), int(a(1))
				if o.Name == "MoveBefore" {
					l.MoveBefore(elems[id], elems[mark])
				} else {
					l.MoveAfter(elems[id], elems[mark])
				}
				if pos(id) >= 0 && pos(mark) >= 0 && id != mark {
					moved = true
					removeAt(pos(id))
					p := pos(mark)
					if o.Name == "MoveBefore" {
						insertAt(p, id)
					} else {
						insertAt(p+1, id)
					}
				}
			case "Remove":
				id := int(a(0))
				v := l.Remove(elems[id])
				if v != int64(id) {
					bad = fmt.Sprintf("Remove returned %d for element %d", v, id)
				}
				if p := pos(id); p >= 0 {
					removed = true
					removeAt(p)
				}
			case "PushBackSelf", "PushFrontSelf":
				n := len(order)
				cp := append([]int{}, order...)
				if o.Name == "PushBackSelf" {
					l.PushBackList(l)
					// copies carry the same values; register the new elements
					e := l.Front()
					for k := 0; k < n; k++ {
						e = e.Next()
					}
					for k := 0; k < n; k++ {
						id := newElem(e)
						if e.Value != int64(cp[k]) {
							bad = "PushBackList copied a wrong value"
						}
						e.Value = int64(id)
						order = append(order, id)
						e = e.Next()
					}
				} else {
					l.PushFrontList(l)
					e := l.Front()
					var ids []int
					for k := 0; k < n; k++ {
						id := newElem(e)
						if e.Value != int64(cp[k]) {
							bad = "PushFrontList copied a wrong value"
						}
						e.Value = int64(id)
						ids = append(ids, id)
						e = e.Next()
					}
					order = append(ids, order...)
				}
			case "Init":
				l.Init()
				order = nil
				elems = nil // elements of the old list still point at l: they must not be used again
			default:
				panic("unknown list op " + o.Name)
			}
		})
		r.sum.Evaluations++
		r.sum.Count("list " + o.Name)
		if cls != "" {
			r.fail("list:"+o.Name, fmt.Sprintf("list step %d `%s` panicked (%s: %v)", i, o, cls, rec), h, i, nil)
			break
		}
		// observe: length, forward walk, backward walk
		var fw, bw []int
		for e := l.Front(); e != nil && len(fw) <= len(order)+2; e = e.Next() {
			fw = append(fw, int(e.Value))
		}
		for e := l.Back(); e != nil && len(bw) <= len(order)+2; e = e.Prev() {
			bw = append([]int{int(e.Value)}, bw...)
		}
		if bad == "" && (l.Len() != len(order) || fmt.Sprint(fw) != fmt.Sprint(order) || fmt.Sprint(bw) != fmt.Sprint(order)) {
			bad = fmt.Sprintf("Len=%d forward=%v backward=%v, slice model %v", l.Len(), fw, bw, order)
		}
		if bad != "" {
			r.fail("list:"+o.Name, fmt.Sprintf("list step %d `%s`: %s", i, o, bad), h, i, nil)
			break
		}
	}
	return moved && removed
}
