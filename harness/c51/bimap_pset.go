package main

import (
	"errors"
	"fmt"

	"cvh/lib"

	"github.com/onflow/cadence/common/bimap"
	"github.com/onflow/cadence/common/persistent"
)

// ---------------------------------------------------------------- bimap
func (r *runner) runBiMap(h history) (term string, nontrivial bool) {
	b := bimap.NewBiMap[int64, int64]()
	var ps []kv // plain model: list of pairs
	byKey := func(k int64) int {
		for i, p := range ps {
			if p.k == k {
				return i
			}
		}
		return -1
	}
	byVal := func(v int64) int {
		for i, p := range ps {
			if p.v == v {
				return i
			}
		}
		return -1
	}
	remove := func(f func(kv) bool) {
		var out []kv
		for _, p := range ps {
			if !f(p) {
				out = append(out, p)
			}
		}
		ps = out
	}
	var steps []string
	mut := map[string]bool{"Insert": true, "Delete": true, "DeleteInv": true}
	for i, o := range h.Ops {
		var got, want obsv
		var coq string
		a := func(j int) int64 { return o.A[j] }
		cls, _ := lib.Catch(func() {
			switch o.Name {
			case "Insert":
				coq = fmt.Sprintf("BInsert %s %s", z(a(0)), z(a(1)))
				ik, iv := byKey(a(0)), byVal(a(1))
				if (ik >= 0 || iv >= 0) && ik != iv {
					nontrivial = true
				}
				b.Insert(a(0), a(1))
				remove(func(p kv) bool { return p.k == a(0) || p.v == a(1) })
				ps = append(ps, kv{a(0), a(1)})
				got, want = vUnit(), vUnit()
			case "Exists":
				coq = "BExists " + z(a(0))
				got, want = vBool(b.Exists(a(0))), vBool(byKey(a(0)) >= 0)
			case "ExistsInv":
				coq = "BExistsInv " + z(a(0))
				got, want = vBool(b.ExistsInverse(a(0))), vBool(byVal(a(0)) >= 0)
			case "Get":
				coq = "BGet " + z(a(0))
				v, ok := b.Get(a(0))
				got = vOpt(v, ok)
				if ix := byKey(a(0)); ix >= 0 {
					want = vOpt(ps[ix].v, true)
				} else {
					want = vOpt(0, false)
				}
			case "GetInv":
				coq = "BGetInv " + z(a(0))
				k, ok := b.GetInverse(a(0))
				got = vOpt(k, ok)
				if ix := byVal(a(0)); ix >= 0 {
					want = vOpt(ps[ix].k, true)
				} else {
					want = vOpt(0, false)
				}
			case "Delete":
				coq = "BDelete " + z(a(0))
				b.Delete(a(0))
				remove(func(p kv) bool { return p.k == a(0) })
				got, want = vUnit(), vUnit()
			case "DeleteInv":
				coq = "BDeleteInv " + z(a(0))
				b.DeleteInverse(a(0))
				remove(func(p kv) bool { return p.v == a(0) })
				got, want = vUnit(), vUnit()
			case "Size":
				coq = "BSize"
				got, want = vInt(int64(b.Size())), vInt(int64(len(ps)))
			default:
				panic("unknown bimap op " + o.Name)
			}
		})
		if cls != "" {
			if coq == "" {
				panic(fmt.Sprintf("bad bimap op %v", o))
			}
			got = vCrash()
		}
		r.sum.Evaluations++
		r.sum.Count("bimap " + o.Name)
		steps = append(steps, "("+coq+") "+got.term)
		if got != want {
			r.fail("bimap:"+o.Name, fmt.Sprintf("bimap step %d `%s`: real %s, pair-list model %s", i, o, got.term, want.term), h, i,
				map[string]any{"observed": got.term, "required": want.term})
			if got == vCrash() || mut[o.Name] {
				break
			}
		}
		// after every mutation: the two directions must be mutually inverse on all keys/values seen
		if mut[o.Name] {
			for _, p := range ps {
				v, ok := b.Get(p.k)
				k, ok2 := b.GetInverse(p.v)
				if !ok || !ok2 || v != p.v || k != p.k {
					r.fail("bimap:inverse", fmt.Sprintf("bimap step %d `%s`: pair (%d,%d) of the model: Get=%d,%v GetInverse=%d,%v", i, o, p.k, p.v, v, ok, k, ok2), h, i, nil)
					break
				}
			}
		}
	}
	return nest("BS", steps, "BN"), nontrivial
}

// ---------------------------------------------------------------- persistent ordered set
type psetT = persistent.OrderedSet[int64]

type psModel struct {
	own    [][]int64
	parent []int
}

func (m *psModel) view(h int) []int64 {
	var out []int64
	for g := h; g >= 0; g = m.parent[g] {
		out = append(out, m.own[g]...)
	}
	return out
}
func (m *psModel) contains(h int, x int64) bool {
	for _, y := range m.view(h) {
		if y == x {
			return true
		}
	}
	return false
}
func (m *psModel) add(h int, x int64) {
	if !m.contains(h, x) {
		m.own[h] = append(m.own[h], x)
	}
}

func (r *runner) runPSet(h history) (term string, nontrivial bool) {
	var sets []*psetT
	m := &psModel{}
	var steps []string
	childAdd, viaAncestor := false, false
	mut := map[string]bool{"New": true, "Clone": true, "Add": true, "AddIntersection": true}
	for i, o := range h.Ops {
		var got, want obsv
		var coq string
		a := func(j int) int64 { return o.A[j] }
		cls, _ := lib.Catch(func() {
			switch o.Name {
			case "New":
				if a(0) < 0 {
					coq = "PNew None"
					sets = append(sets, persistent.NewOrderedSet[int64](nil))
				} else {
					coq = fmt.Sprintf("PNew (Some %d%%nat)", a(0))
					sets = append(sets, persistent.NewOrderedSet[int64](sets[a(0)]))
				}
				m.own = append(m.own, nil)
				m.parent = append(m.parent, int(a(0)))
				got, want = vUnit(), vUnit()
			case "Clone":
				coq = fmt.Sprintf("PClone %d%%nat", a(0))
				sets = append(sets, sets[a(0)].Clone())
				m.own = append(m.own, nil)
				m.parent = append(m.parent, int(a(0)))
				got, want = vUnit(), vUnit()
			case "Add":
				coq = fmt.Sprintf("PAdd %d%%nat %s", a(0), z(a(1)))
				if m.parent[a(0)] >= 0 {
					childAdd = true
				}
				sets[a(0)].Add(a(1))
				m.add(int(a(0)), a(1))
				got, want = vUnit(), vUnit()
			case "Contains":
				coq = fmt.Sprintf("PContains %d%%nat %s", a(0), z(a(1)))
				got = vBool(sets[a(0)].Contains(a(1)))
				w := m.contains(int(a(0)), a(1))
				want = vBool(w)
				if w {
					own := false
					for _, y := range m.own[a(0)] {
						own = own || y == a(1)
					}
					if !own {
						viaAncestor = true
					}
				}
			case "ForEach":
				coq = fmt.Sprintf("PForEach %d%%nat", a(0))
				var l []int64
				err := sets[a(0)].ForEach(func(x int64) error { l = append(l, x); return nil })
				if err != nil {
					panic("ForEach returned an error without the callback failing")
				}
				got, want = vKeys(l), vKeys(m.view(int(a(0))))
			case "ForEachStop":
				coq = fmt.Sprintf("PForEachStop %d%%nat %s", a(0), z(a(1)))
				var l []int64
				sentinel := errors.New("stop")
				err := sets[a(0)].ForEach(func(x int64) error {
					l = append(l, x)
					if x >= a(1) {
						return sentinel
					}
					return nil
				})
				var w []int64
				stopped := false
				for _, x := range m.view(int(a(0))) {
					w = append(w, x)
					if x >= a(1) {
						stopped = true
						break
					}
				}
				got, want = vKeys(l), vKeys(w)
				if (err != nil) != stopped {
					got = obsv{"(VBool false)"} // error propagation differs
				}
			case "IsEmpty":
				coq = fmt.Sprintf("PIsEmpty %d%%nat", a(0))
				got, want = vBool(sets[a(0)].IsEmpty()), vBool(len(m.view(int(a(0)))) == 0)
			case "AddIntersection":
				coq = fmt.Sprintf("PAddIntersection %d%%nat %d%%nat %d%%nat", a(0), a(1), a(2))
				sets[a(0)].AddIntersection(sets[a(1)], sets[a(2)])
				for _, x := range m.view(int(a(1))) {
					if m.contains(int(a(2)), x) {
						m.add(int(a(0)), x)
					}
				}
				got, want = vUnit(), vUnit()
			default:
				panic("unknown pset op " + o.Name)
			}
		})
		if cls != "" {
			if coq == "" {
				panic(fmt.Sprintf("bad pset op %v", o))
			}
			got = vCrash()
		}
		r.sum.Evaluations++
		r.sum.Count("pset " + o.Name)
		steps = append(steps, "("+coq+") "+got.term)
		if got != want {
			r.fail("pset:"+o.Name, fmt.Sprintf("persistent.OrderedSet step %d `%s`: real %s, chain-of-lists model %s", i, o, got.term, want.term), h, i,
				map[string]any{"observed": got.term, "required": want.term})
			if got == vCrash() || mut[o.Name] {
				break
			}
		}
		// after a write to set s: no proper ancestor of s (and no unrelated set) may change
		if o.Name == "Add" || o.Name == "AddIntersection" {
			for g := range sets {
				var l []int64
				_ = sets[g].ForEach(func(x int64) error { l = append(l, x); return nil })
				if vKeys(l) != vKeys(m.view(g)) {
					r.fail("pset:frame", fmt.Sprintf("persistent.OrderedSet step %d `%s`: set #%d now iterates as %v, model %v", i, o, g, l, m.view(g)), h, i, nil)
					break
				}
			}
		}
	}
	return nest("SS", steps, "SN"), childAdd && viaAncestor
}
