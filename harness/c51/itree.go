package main

import (
	"fmt"
	"reflect"
	"sort"
	"strings"

	"cvh/lib"

	"github.com/onflow/cadence/common/intervalst"
)

// pos is the position type used for the interval tree (line numbers, say).
type pos int64

func (p pos) Compare(o intervalst.Position) int {
	if _, ok := o.(intervalst.MinPosition); ok {
		return 1
	}
	q := o.(pos)
	switch {
	case p < q:
		return -1
	case p > q:
		return 1
	}
	return 0
}

type ent struct{ lo, hi, v int64 }

func entTerm(e ent) string { return "(" + z(e.lo) + "," + z(e.hi) + "," + z(e.v) + ")" }
func entsTerm(es []ent) string {
	parts := make([]string, len(es))
	for i, e := range es {
		parts[i] = z(e.lo) + " " + z(e.hi) + " " + z(e.v)
	}
	return "(" + nest("LE", parts, "LEN") + ")"
}
func sortEnts(es []ent) []ent {
	out := append([]ent{}, es...)
	sort.Slice(out, func(i, j int) bool {
		a, b := out[i], out[j]
		if a.lo != b.lo {
			return a.lo < b.lo
		}
		if a.hi != b.hi {
			return a.hi < b.hi
		}
		return a.v < b.v
	})
	return out
}

// ---- reading the real tree back (unexported fields, read-only, via reflect) ----
type rnode struct {
	lo, hi, v int64
	max       string // Coq term of type pos
	n         int64
	l, r      *rnode
}

func posTerm(v reflect.Value) string {
	if v.IsNil() {
		return "PMin"
	}
	e := v.Elem()
	if e.Kind() == reflect.Int64 {
		return "(P " + z(e.Int()) + ")"
	}
	return "PMin" // intervalst.MinPosition
}

func readNode(v reflect.Value) *rnode {
	if v.IsNil() {
		return nil
	}
	n := v.Elem()
	iv := n.FieldByName("interval")
	return &rnode{
		lo:  iv.FieldByName("Min").Elem().Int(),
		hi:  iv.FieldByName("Max").Elem().Int(),
		v:   n.FieldByName("value").Int(),
		max: posTerm(n.FieldByName("max")),
		n:   n.FieldByName("n").Int(),
		l:   readNode(n.FieldByName("left")),
		r:   readNode(n.FieldByName("right")),
	}
}

func readTree(t *intervalst.IntervalST[int64]) *rnode {
	return readNode(reflect.ValueOf(t).Elem().FieldByName("root"))
}

func (n *rnode) term(sb *strings.Builder) {
	if n == nil {
		sb.WriteString("Leaf")
		return
	}
	sb.WriteString("(Node ")
	n.l.term(sb)
	fmt.Fprintf(sb, " %s %s %s %s %s ", z(n.lo), z(n.hi), z(n.v), n.max, z(n.n))
	n.r.term(sb)
	sb.WriteString(")")
}

func (n *rnode) depthOf(v int64, d int) int {
	if n == nil {
		return -1
	}
	if n.v == v {
		return d
	}
	if x := n.l.depthOf(v, d+1); x >= 0 {
		return x
	}
	return n.r.depthOf(v, d+1)
}

// findDepth locates the node carrying value val (unique) and interval [lo,hi] in the real tree,
// descending by the key order (both sides when the keys are equal); -1 when absent.
func findDepth(v reflect.Value, lo, hi, val int64, d int) int {
	if v.IsNil() {
		return -1
	}
	n := v.Elem()
	iv := n.FieldByName("interval")
	nlo, nhi := iv.FieldByName("Min").Elem().Int(), iv.FieldByName("Max").Elem().Int()
	if nlo == lo && nhi == hi && n.FieldByName("value").Int() == val {
		return d
	}
	less := lo < nlo || (lo == nlo && hi < nhi)
	greater := lo > nlo || (lo == nlo && hi > nhi)
	if !greater {
		if x := findDepth(n.FieldByName("left"), lo, hi, val, d+1); x >= 0 {
			return x
		}
	}
	if !less {
		return findDepth(n.FieldByName("right"), lo, hi, val, d+1)
	}
	return -1
}

func (n *rnode) height() int {
	if n == nil {
		return 0
	}
	return 1 + max(n.l.height(), n.r.height())
}

// runITree executes a history on the real interval tree and on a plain slice of entries.
// Values must be unique per Put (the generator and the corpus use a running number).
func (r *runner) runITree(h history) (term string, nontrivial bool) {
	t := &intervalst.IntervalST[int64]{}
	var es []ent // plain model
	var steps []string
	dumpEach := h.Init == "dump-each"
	dup, multi := false, false
	contains := func(e ent, p int64) bool { return e.lo <= p && p <= e.hi }
	r.stepDesc = nil
	dump := func() {
		var sb strings.Builder
		readTree(t).term(&sb)
		steps = append(steps, "(CDump "+sb.String()+")")
		r.stepDesc = append(r.stepDesc, "compare the real tree (read back by reflection) with the model tree, check its invariant")
	}
	for i, o := range h.Ops {
		a := func(j int) int64 { return o.A[j] }
		bad := ""
		step := ""
		cls, _ := lib.Catch(func() {
			switch o.Name {
			case "Put":
				lo, hi, v := a(0), a(1), a(2)
				for _, e := range es {
					if e.lo == lo && e.hi == hi {
						dup = true
					}
				}
				t.Put(intervalst.NewInterval(pos(lo), pos(hi)), v)
				es = append(es, ent{lo, hi, v})
				d := findDepth(reflect.ValueOf(t).Elem().FieldByName("root"), lo, hi, v, 0)
				if d < 0 {
					bad = "the entry just put is not in the tree"
				}
				step = fmt.Sprintf("CPut %s %s %s %d", z(lo), z(hi), z(v), d)
			case "Get", "Contains":
				lo, hi := a(0), a(1)
				var vals []int64
				for _, e := range es {
					if e.lo == lo && e.hi == hi {
						vals = append(vals, e.v)
					}
				}
				iv := intervalst.NewInterval(pos(lo), pos(hi))
				if o.Name == "Contains" {
					got := t.Contains(iv)
					if got != (len(vals) > 0) {
						bad = fmt.Sprintf("Contains = %v, but %d entries have that interval", got, len(vals))
					}
					step = fmt.Sprintf("CQuery (IContains %s %s) (IBool %v)", z(lo), z(hi), got)
				} else {
					v, ok := t.Get(iv)
					okv := false
					for _, w := range vals {
						okv = okv || w == v
					}
					if ok != (len(vals) > 0) || (ok && !okv) {
						bad = fmt.Sprintf("Get = %d,%v, values put for that interval: %v", v, ok, vals)
					}
					if ok {
						step = fmt.Sprintf("CQuery (IGet %s %s) (IOptV (Some %s))", z(lo), z(hi), z(v))
					} else {
						step = fmt.Sprintf("CQuery (IGet %s %s) (IOptV None)", z(lo), z(hi))
					}
				}
			case "Search":
				p := a(0)
				var m []ent
				for _, e := range es {
					if contains(e, p) {
						m = append(m, e)
					}
				}
				iv, v, ok := t.Search(pos(p))
				if !ok {
					if len(m) > 0 {
						bad = fmt.Sprintf("Search(%d) found nothing, matching entries: %v", p, m)
					}
					if iv != nil {
						bad = "Search returned an interval together with present=false"
					}
					step = fmt.Sprintf("CQuery (ISearch %s) (IEntry None)", z(p))
				} else {
					g := ent{int64(iv.Min.(pos)), int64(iv.Max.(pos)), v}
					in := false
					for _, e := range m {
						in = in || e == g
					}
					if !in {
						bad = fmt.Sprintf("Search(%d) returned %v, entries containing the position: %v", p, g, m)
					}
					step = fmt.Sprintf("CQuery (ISearch %s) (IEntry (Some %s))", z(p), entTerm(g))
				}
			case "SearchInterval":
				qlo, qhi := a(0), a(1)
				var m []ent
				for _, e := range es {
					if e.lo <= qhi && qlo <= e.hi {
						m = append(m, e)
					}
				}
				iv, v, ok := t.SearchInterval(intervalst.NewInterval(pos(qlo), pos(qhi)))
				if !ok {
					if len(m) > 0 {
						bad = fmt.Sprintf("SearchInterval found nothing, intersecting entries: %v", m)
					}
					step = fmt.Sprintf("CQuery (ISearchInterval %s %s) (IEntry None)", z(qlo), z(qhi))
				} else {
					g := ent{int64(iv.Min.(pos)), int64(iv.Max.(pos)), v}
					in := false
					for _, e := range m {
						in = in || e == g
					}
					if !in {
						bad = fmt.Sprintf("SearchInterval returned %v, intersecting entries: %v", g, m)
					}
					step = fmt.Sprintf("CQuery (ISearchInterval %s %s) (IEntry (Some %s))", z(qlo), z(qhi), entTerm(g))
				}
			case "SearchAll":
				p := a(0)
				var m []ent
				for _, e := range es {
					if contains(e, p) {
						m = append(m, e)
					}
				}
				if len(m) >= 2 {
					multi = true
				}
				var g []ent
				for _, e := range t.SearchAll(pos(p)) {
					g = append(g, ent{int64(e.Interval.Min.(pos)), int64(e.Interval.Max.(pos)), e.Value})
				}
				if fmt.Sprint(sortEnts(g)) != fmt.Sprint(sortEnts(m)) {
					bad = fmt.Sprintf("SearchAll(%d) = %v (sorted), entries containing the position: %v", p, sortEnts(g), sortEnts(m))
				}
				step = fmt.Sprintf("CQuery (ISearchAll %s) (IEntries %s)", z(p), entsTerm(g))
			case "Values":
				g := t.Values()
				gs := append([]int64{}, g...)
				sort.Slice(gs, func(i, j int) bool { return gs[i] < gs[j] })
				var ws []int64
				for _, e := range es {
					ws = append(ws, e.v)
				}
				sort.Slice(ws, func(i, j int) bool { return ws[i] < ws[j] })
				if fmt.Sprint(gs) != fmt.Sprint(ws) {
					bad = fmt.Sprintf("Values (sorted) = %v, values put: %v", gs, ws)
				}
				parts := make([]string, len(g))
				for k, x := range g {
					parts[k] = z(x)
				}
				step = "CQuery IValues (IVals (" + nest("LZ", parts, "LZN") + "))"
			default:
				panic("unknown itree op " + o.Name)
			}
		})
		r.sum.Evaluations++
		r.sum.Count("itree " + o.Name)
		if cls != "" {
			r.fail("itree:"+o.Name, fmt.Sprintf("IntervalST step %d `%s` panicked (%s)", i, o, cls), h, i, nil)
			break
		}
		steps = append(steps, "("+step+")")
		r.stepDesc = append(r.stepDesc, fmt.Sprintf("op #%d: %s  [%s]", i, o, step))
		if bad != "" {
			r.fail("itree:"+o.Name, fmt.Sprintf("IntervalST step %d `%s`: %s", i, o, bad), h, i, map[string]any{"entries_put": fmt.Sprint(es)})
		}
		if o.Name == "Put" && (dumpEach || i == len(h.Ops)-1) {
			dump()
		}
	}
	dump()
	if rt := readTree(t); rt != nil {
		r.sum.Count(fmt.Sprintf("itree final height in [%d,%d)", rt.height()/8*8, rt.height()/8*8+8))
	}
	return nest("IC", steps, "IN"), dup && multi
}
