package main

import (
	"fmt"
	"math/big"
	"strings"
	"sync"

	"cvh/lib"

	"github.com/onflow/cadence/encoding/ccf"
	"github.com/onflow/cadence/encoding/json"
)

// key of the known finding: an array argument whose element type has to be inferred and cannot be
// (no elements, or resource and struct elements) makes ImportValue fail with an *internal* error
const keyArrayInternal = "untyped-array-without-common-element-type-internal-error"

// key of the known finding: an array with a fixed-size simple static element type ([Int8], [Word16], [Bool],
// [Address], [UFix64], ...) that wrongly contains a container element, nested in another container or in a
// composite field, fails to be imported with atree's "can't copy container" CopyError
const keyCopyError = "ill-typed-simple-array-with-container-element-atree-copy-error"

// key of the known finding: dictionary keys are hashed while the dictionary is assembled, before validation;
// an enum key without rawValue / with a non-enum kind tag / with a container raw value is an internal error
const keyHashInternal = "composite-dictionary-key-hashed-before-validation-internal-error"

type kase struct {
	T      *Ty
	X      *X
	Mut    string
	Origin string
}

type observed struct {
	Script   [2]result // interpreter, vm
	Tx       [2]result
	CCF      *result // script, interpreter, CCF-encoded argument (nil if the argument cannot be CCF-encoded)
	CCFBytes int
}

func (k *kase) describe() map[string]any {
	return map[string]any{"param_type": paramAnnot(k.T), "argument_json": k.X.json(), "argument_kind": k.Mut}
}

func num(p string, n int64) *X { return &X{K: "num", P: p, N: big.NewInt(n)} }

func corpusCases() []*kase {
	s0 := func(id int64) *X { return &X{K: "comp", Kind: "Struct", C: 0, Fields: []int{0}, Elems: []*X{num("Int", id)}} }
	anyS := prim("AnyStruct")
	enDict := dict(comp(6), prim("Int"))
	enumRaw := func(raw *X) *X { return &X{K: "comp", Kind: "Enum", C: 6, Fields: []int{8}, Elems: []*X{raw}} }
	enKey := func(k *X) *X { return &X{K: "dict", Keys: []*X{k}, Elems: []*X{num("Int", 1)}} }
	mk := func(t *Ty, x *X, what string) *kase { return &kase{T: t, X: x, Mut: what, Origin: "corpus"} }
	return []*kase{
		// the finding: element type inference fails -> internal error
		mk(anyS, &X{K: "array"}, "empty-array-for-AnyStruct"),
		mk(varr(anyS), &X{K: "array", Elems: []*X{{K: "array"}}}, "nested-empty-array-for-[AnyStruct]"),
		mk(anyS, &X{K: "array", Elems: []*X{{K: "comp", Kind: "Resource", C: 4, Fields: []int{0}, Elems: []*X{num("Int", 1)}}, num("Int", 1)}}, "resource-and-struct-elements"),
		// the second finding: a struct inside an inner [Word16] / inside the [Int8] field of S2
		mk(varr(varr(prim("Word16"))), &X{K: "array", Elems: []*X{{K: "array", Elems: []*X{s0(1)}}}}, "struct-in-nested-word16-array"),
		mk(comp(2), &X{K: "comp", Kind: "Struct", C: 2, Fields: []int{2, 3, 4}, Elems: []*X{
			{K: "array", Elems: []*X{{K: "array", Elems: []*X{num("Int8", 1)}}}}, num("Int", 1), s0(1)}}, "array-in-int8-array-field"),
		mk(varr(varr(prim("Int"))), &X{K: "array", Elems: []*X{{K: "array", Elems: []*X{s0(1)}}}}, "struct-in-nested-int-array"),
		mk(anyS, &X{K: "some", In: &X{K: "array", Elems: []*X{{K: "address", Addr: 3}, {K: "none"}, {K: "string", S: ""}}}}, "optional-mix-untyped"),
		// enum dictionary keys: well formed, malformed inside (right type id), at the top and nested
		mk(enDict, enKey(enumValue(1)), "enum-key"),
		mk(enDict, enKey(enumRaw(&X{K: "string", S: "a"})), "enum-key-raw-string"),
		mk(enDict, enKey(enumRaw(num("UInt16", 1))), "enum-key-raw-uint16"),
		mk(enDict, enKey(&X{K: "comp", Kind: "Enum", C: 6, Fields: []int{8, 7}, Elems: []*X{num("UInt8", 1), num("Int", 1)}}), "enum-key-extra-field"),
		mk(enDict, enKey(&X{K: "comp", Kind: "Enum", C: 6}), "enum-key-missing-raw"),
		mk(enDict, enKey(&X{K: "comp", Kind: "Struct", C: 6, Fields: []int{8}, Elems: []*X{num("UInt8", 0)}}), "enum-key-struct-tag"),
		mk(enDict, enKey(enumRaw(&X{K: "array", Elems: []*X{num("UInt8", 1)}})), "enum-key-raw-array"),
		mk(varr(enDict), &X{K: "array", Elems: []*X{enKey(enumRaw(&X{K: "string", S: "a"}))}}, "enum-key-raw-string-in-array"),
		mk(opt(enDict), &X{K: "some", In: enKey(enumRaw(num("Int", 1)))}, "enum-key-raw-int-in-optional"),
		mk(comp(7), &X{K: "comp", Kind: "Struct", C: 7, Fields: []int{9, 10}, Elems: []*X{enKey(enumRaw(&X{K: "bool", B: true})), enumValue(0)}}, "enum-key-raw-bool-in-field"),
		mk(comp(7), &X{K: "comp", Kind: "Struct", C: 7, Fields: []int{9, 10}, Elems: []*X{enKey(enumValue(1)), enumRaw(&X{K: "string", S: "a"})}}, "enum-field-raw-string"),
		mk(anyS, enKey(enumRaw(&X{K: "string", S: "a"})), "enum-key-raw-string-untyped"),
		mk(dict(prim("HashableStruct"), prim("Int")), enKey(enumRaw(&X{K: "string", S: "a"})), "enum-key-raw-string-hashable"),
		mk(varr(comp(6)), &X{K: "array", Elems: []*X{enumRaw(num("UInt16", 1))}}, "enum-element-raw-uint16"),
		// accepted shapes
		mk(anyS, &X{K: "array", Elems: []*X{num("Int", 1), {K: "string", S: "a"}}}, "hashable-mix"),
		mk(anyS, &X{K: "array", Elems: []*X{num("Int8", 1), num("Int16", 2)}}, "signed-integer-mix"),
		mk(anyS, s0(1), "struct-for-AnyStruct"),
		mk(inter(0), s0(1), "struct-for-interface"),
		mk(comp(0), s0(1), "struct"),
		mk(opt(prim("Int8")), &X{K: "some", In: num("Int8", -128)}, "optional"),
		mk(carr(prim("Int8"), 2), &X{K: "array", Elems: []*X{num("Int8", 1), num("Int8", 2)}}, "constant-array"),
		// rejected shapes
		mk(opt(prim("Int8")), &X{K: "some", In: num("Int16", 1)}, "optional-wrong-inner"),
		mk(prim("Int8"), num("Int8", 128), "out-of-range"),
		mk(carr(prim("Int8"), 2), &X{K: "array", Elems: []*X{num("Int8", 1)}}, "constant-array-length"),
		mk(dict(prim("String"), prim("UInt8")), &X{K: "dict", Keys: []*X{{K: "string", S: "a"}}, Elems: []*X{num("UInt16", 1)}}, "dictionary-value-type"),
		mk(comp(0), &X{K: "comp", Kind: "Struct", C: 0}, "missing-field"),
		mk(comp(0), &X{K: "comp", Kind: "Struct", C: 0, Fields: []int{0, 7}, Elems: []*X{num("Int", 1), num("Int", 2)}}, "extra-field"),
		mk(comp(0), &X{K: "comp", Kind: "Struct", C: 0, Fields: []int{0, 0}, Elems: []*X{num("Int", 1), num("Int", 2)}}, "duplicate-field"),
		mk(comp(0), &X{K: "comp", Kind: "Struct", C: 0, Fields: []int{0}, Elems: []*X{{K: "string", S: "a"}}}, "wrong-field-type"),
		mk(comp(0), &X{K: "comp", Kind: "Struct", C: 1, Fields: []int{0, 1}, Elems: []*X{num("Int", 1), {K: "none"}}}, "other-type-id"),
		mk(comp(0), &X{K: "comp", Kind: "Struct", C: 9, Fields: []int{0}, Elems: []*X{num("Int", 1)}}, "undeclared-type-id"),
		mk(comp(0), &X{K: "comp", Kind: "Struct", C: 8, Fields: []int{0}, Elems: []*X{num("Int", 1)}}, "wrong-location"),
		mk(comp(0), &X{K: "comp", Kind: "Resource", C: 0, Fields: []int{0}, Elems: []*X{num("Int", 1)}}, "wrong-kind-tag"),
		mk(anyS, &X{K: "comp", Kind: "Resource", C: 4, Fields: []int{0}, Elems: []*X{num("Int", 1)}}, "resource-for-AnyStruct"),
		mk(anyS, &X{K: "cap", T: ref(unauth(), prim("Int")), Addr: 1, ID: 1}, "capability-for-AnyStruct"),
		mk(capOf(ref(unauth(), prim("Int"))), &X{K: "cap", T: ref(unauth(), prim("Int")), Addr: 1, ID: 1}, "capability-for-capability"),
		mk(anyS, &X{K: "cap", T: prim("Int"), Addr: 1, ID: 1}, "capability-non-reference"),
		mk(anyS, &X{K: "function"}, "function"),
		mk(anyS, &X{K: "void"}, "void"),
		mk(comp(2), &X{K: "comp", Kind: "Struct", C: 2, Fields: []int{2, 3, 4}, Elems: []*X{
			{K: "array", Elems: []*X{num("Int8", 1)}}, {K: "cap", T: ref(unauth(), prim("Int")), Addr: 1, ID: 1}, s0(1)}}, "capability-in-AnyStruct-field"),
		mk(comp(2), &X{K: "comp", Kind: "Struct", C: 2, Fields: []int{2, 3, 4}, Elems: []*X{
			{K: "array", Elems: []*X{num("Int16", 1)}}, num("Int", 1), s0(1)}}, "nested-array-element-in-field"),
	}
}

func equalResults(a, b result) bool {
	return a.Class == b.Class && a.TypeID == b.TypeID
}

func run(sum *lib.Summary) {
	rng := lib.NewRng(*seed)
	g := &gen{rng: rng}
	n := 1500
	if *tier == "thorough" {
		n = 12000
	}
	sum.Rule = "parameter types from a type generator (26 primitive types incl. the numeric and path supertypes, AnyStruct, HashableStruct; " +
		"optionals, variable/constant arrays, dictionaries, 4 struct types with nested fields, interface intersections, capability types; " +
		"a few non-importable parameter types) x arguments: well typed (40%), or a well-typed argument with one defect: other type at the top, " +
		"nested element of another type, missing/extra/duplicate composite field, wrong field type, undeclared / other / wrong-location type id, " +
		"wrong kind tag, non-importable value (capability, function, contract, void, resource) at any depth, number out of range, " +
		"extra optional / nil, array length, unknown type value, empty untyped container, sibling numeric type. JSON-Cadence for every case " +
		"(script and transaction, interpreter and VM), CCF for the arguments it can express. " +
		"non-trivial = the argument is not a plain well-typed scalar; distinct = distinct (parameter type, argument JSON)"
	cases := corpusCases()
	for i := 0; i < n; i++ {
		t := g.paramType(2)
		x := g.wellTyped(t, 2)
		k := &kase{T: t, X: x, Mut: "well-typed", Origin: "generated"}
		if rng.Chance(3, 5) {
			k.X, k.Mut = g.mutate(t, x)
		}
		cases = append(cases, k)
	}
	obs := make([]observed, len(cases))
	const workers = 4
	var wg sync.WaitGroup
	for w := 0; w < workers; w++ {
		wg.Add(1)
		go func(w int) {
			defer wg.Done()
			h := newHost()
			for i := w; i < len(cases); i += workers {
				k := cases[i]
				arg := []byte(k.X.json())
				o := &obs[i]
				for e, vm := range []bool{false, true} {
					o.Script[e] = h.runScript(k.T, arg, vm)
					o.Tx[e] = h.runTx(k.T, arg, vm)
				}
				// CCF: encode what the JSON decodes to, if CCF can express it
				if v, err := json.Decode(nil, arg); err == nil {
					var b []byte
					func() {
						defer func() {
							if recover() != nil {
								b = nil
							}
						}()
						var err error
						if b, err = ccf.Encode(v); err != nil {
							b = nil
						}
					}()
					if b != nil {
						r := h.runScript(k.T, b, false)
						o.CCF = &r
						o.CCFBytes = len(b)
					}
				}
			}
		}(w)
	}
	wg.Wait()

	cw := &lib.CaseWriter{
		Dir: *dir, Prefix: "cases_C29",
		Header:   "From CV Require Import C29.Cases.",
		ElemType: "ty * xval * obs",
		CheckFn:  "check_case",
		PerFile:  150,
	}
	distinct := map[string]bool{}
	for i, k := range cases {
		o := obs[i]
		sum.Evaluations++
		r0 := o.Script[0]
		replay := k.describe()
		replay["script_interpreter"] = o.Script[0]
		replay["script_vm"] = o.Script[1]
		replay["tx_interpreter"] = o.Tx[0]
		replay["tx_vm"] = o.Tx[1]
		if o.CCF != nil {
			replay["script_ccf"] = *o.CCF
		}
		if r0.Class == "static" {
			sum.Count("parameter-type-rejected-by-checker")
			for _, r := range []result{o.Script[1], o.Tx[0], o.Tx[1]} {
				if r.Class != "static" {
					sum.Fail("checker-diff", "parameter type rejected by the checker only in some of script/transaction/engines", replay)
				}
			}
			continue
		}
		sum.Count("arg:" + k.Mut)
		sum.Count("outcome:" + r0.Class)
		sum.Count("param:" + k.T.K)
		key := paramAnnot(k.T) + " <- " + k.X.json()
		if !(k.Mut == "well-typed" && k.X.K != "array" && k.X.K != "dict" && k.X.K != "comp" && k.X.K != "some") && !distinct[key] {
			distinct[key] = true
			sum.DistinctNontrivial++
		}
		if i%131 == 0 {
			sum.Sample(map[string]any{"param": paramAnnot(k.T), "arg": k.X.json(), "kind": k.Mut, "outcome": r0.Class, "received_type": r0.TypeID})
		}
		// ---- all four executions agree
		for _, r := range []result{o.Script[1], o.Tx[0], o.Tx[1]} {
			if !equalResults(r0, r) {
				sum.Fail("execution-diff", fmt.Sprintf("script/transaction or interpreter/VM disagree: %+v vs %+v", r0, r), replay)
				break
			}
		}
		if o.CCF != nil {
			sum.Count("ccf-encoded")
			// CCF rejects some arguments already in its decoder (duplicate field names, function values), which
			// is a user-level rejection too; what must not happen is that one encoding is accepted with another type
			if !equalResults(r0, *o.CCF) {
				sum.Count("json-ccf-different-outcome")
				if r0.Class == "Accept" && o.CCF.Class == "Accept" {
					sum.Fail("json-ccf-diff", fmt.Sprintf("JSON-Cadence and CCF encodings of the same argument are received with different types: %+v vs %+v", r0, *o.CCF), replay)
				}
			}
		}
		// ---- direct property: user-level rejection or a conforming value, never internal / crash
		for _, r := range []result{r0, o.Script[1], o.Tx[0], o.Tx[1]} {
			switch {
			case r.Class == "RInternal" && strings.Contains(r.Err, "cannot import array: elements do not belong to the same type"):
				sum.Fail(keyArrayInternal, "argument rejected with an internal error instead of a user error: "+r.Err[:200], replay)
			case r.Class == "RInternal" && (strings.Contains(r.Err, "unexpected: unreachable") || strings.Contains(r.Err, "is not interpreter.HashableValue")) && hasCompositeKey(k.X):
				sum.Fail(keyHashInternal, "argument with a malformed composite dictionary key rejected with an internal error: "+r.Err[:120], replay)
			case r.Class == "RCopy":
				sum.Fail(keyCopyError, "argument rejected with a storage-layer copy error instead of an invalid-argument error: "+r.Err[:160], replay)
			case r.Class == "RInternal" || r.Class == "Crash" || strings.HasPrefix(r.Class, "Other:"):
				sum.Fail("argument-internal-error", fmt.Sprintf("argument handling failed with %s: %s", r.Class, r.Err), replay)
			}
		}
		if r0.Class == "Accept" {
			if !r0.Inst || !o.Script[1].Inst {
				sum.Fail("accepted-not-instance", "accepted argument is not an instance of the parameter type: received "+r0.TypeID, replay)
			}
			// the value received is the value sent
			if v, err := json.Decode(nil, []byte(k.X.json())); err == nil && comparable(k.X) {
				if v.String() != r0.Value {
					sum.Fail("accepted-value-differs", fmt.Sprintf("sent %s, script received %s", v.String(), r0.Value), replay)
				}
			}
		}
		// ---- Coq case
		var oc string
		if r0.Class == "Accept" {
			t, err := parseTypeID(r0.TypeID)
			if err != nil {
				sum.Fail("type-id-outside-fragment", err.Error(), replay)
				continue
			}
			oc = "(OAccept " + t.coq() + ")"
		} else if strings.HasPrefix(r0.Class, "R") {
			oc = "(OReject " + r0.Class + ")"
		} else {
			continue
		}
		desc := k.describe()
		desc["outcome"] = r0.Class
		desc["received_type"] = r0.TypeID
		cw.Add(fmt.Sprintf("(%s, %s, %s)", k.T.coq(), k.X.coq(), oc), desc)
	}
	cw.Close()
	sum.CaseFiles = cw.Files
}

// comparable: the textual form of the argument is canonical (no dictionary with several entries, whose
// order is not preserved, and no duplicate field names, of which the last wins)
func comparable(x *X) bool {
	if x == nil {
		return true
	}
	if x.K == "dict" && len(x.Elems) > 1 {
		return false
	}
	if x.K == "comp" {
		seen := map[int]bool{}
		for _, f := range x.Fields {
			if seen[f] {
				return false
			}
			seen[f] = true
		}
	}
	if !comparable(x.In) {
		return false
	}
	for _, e := range x.Elems {
		if !comparable(e) {
			return false
		}
	}
	for _, e := range x.Keys {
		if !comparable(e) {
			return false
		}
	}
	return true
}

func hasCompositeKey(x *X) bool {
	if x == nil {
		return false
	}
	for _, k := range x.Keys {
		if k.K == "comp" || hasCompositeKey(k) {
			return true
		}
	}
	if hasCompositeKey(x.In) {
		return true
	}
	for _, e := range x.Elems {
		if hasCompositeKey(e) {
			return true
		}
	}
	return false
}
