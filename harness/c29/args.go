package main

import (
	"fmt"
	"math/big"
	"strings"

	"cvh/lib"
)

// X mirrors `xval` of coq/theories/C29/Model.v: an argument as it is written in JSON-Cadence.
type X struct {
	K      string // void none some bool string char address num path type array dict comp cap function contract
	B      bool
	S      string
	Addr   int64
	P      string   // num: type
	N      *big.Int // num: value (fixed point: scaled)
	Dom    string   // path
	T      *Ty      // type value (nil = unknown type) / capability borrow type
	In     *X       // some
	Elems  []*X     // array elements / dict values / composite field values
	Keys   []*X     // dict keys
	Kind   string   // comp: Struct Resource Event Enum Contract
	C      int      // comp: type id number (see compTypeIDs)
	Fields []int    // comp: field name numbers
	ID     int64
}

var fieldNames = []string{"id", "tag", "a", "b", "s", "d", "o", "x", "rawValue", "m", "e"}

// composite type ids by number; 8 and 9 do not resolve
var compTypeIDs = map[int]string{
	0: "A.0000000000000001.C.S0", 1: "A.0000000000000001.C.S1", 2: "A.0000000000000001.C.S2",
	3: "A.0000000000000001.C.S3", 4: "A.0000000000000001.C.R0", 5: "A.0000000000000001.C.Ev",
	6: "A.0000000000000001.C.En", 7: "A.0000000000000001.C.S4",
	8: "A.0000000000000002.C.S0", 9: "A.0000000000000001.C.Nope",
}

// declared fields (name number, type), as in Cases.v E0
type fieldDecl struct {
	Name int
	T    *Ty
}

var compFields = map[int][]fieldDecl{
	0: {{0, prim("Int")}},
	1: {{0, prim("Int")}, {1, opt(prim("String"))}},
	2: {{2, varr(prim("Int8"))}, {3, prim("AnyStruct")}, {4, comp(0)}},
	3: {{5, dict(prim("String"), prim("UInt8"))}, {6, opt(comp(0))}},
	4: {{0, prim("Int")}},
	5: {{0, prim("Int")}},
	6: {{8, prim("UInt8")}},
	7: {{9, dict(comp(6), prim("Int"))}, {10, comp(6)}},
}

const contractC = `
access(all) contract C {
  access(all) struct interface I0 { access(all) let id: Int }
  access(all) struct interface I2 {}
  access(all) struct S0: I0 { access(all) let id: Int; init(id: Int) { self.id = id } }
  access(all) struct S1: I0, I2 { access(all) let id: Int; access(all) let tag: String?; init(id: Int) { self.id = id; self.tag = nil } }
  access(all) struct S2 { access(all) let a: [Int8]; access(all) let b: AnyStruct; access(all) let s: S0
    init() { self.a = []; self.b = 1; self.s = S0(id: 1) } }
  access(all) struct S3 { access(all) let d: {String: UInt8}; access(all) let o: S0?
    init() { self.d = {}; self.o = nil } }
  access(all) resource R0 { access(all) let id: Int; init(id: Int) { self.id = id } }
  access(all) event Ev(id: Int)
  access(all) enum En: UInt8 { access(all) case a; access(all) case b }
  access(all) struct S4 { access(all) let m: {En: Int}; access(all) let e: En
    init() { self.m = {}; self.e = En.a } }
}`

func jstr(s string) string { return fmt.Sprintf("%q", s) }

func fixText(n *big.Int, scale int) string {
	neg := n.Sign() < 0
	a := new(big.Int).Abs(n)
	p := new(big.Int).Exp(big.NewInt(10), big.NewInt(int64(scale)), nil)
	ip, fp := new(big.Int).QuoRem(a, p, new(big.Int))
	s := fmt.Sprintf("%s.%0*s", ip.String(), scale, fp.String())
	if neg {
		s = "-" + s
	}
	return s
}

// typeJSON renders a type inside Type / Capability values (primitive, optional, arrays, references, composites).
func typeJSON(t *Ty) string {
	switch t.K {
	case "prim":
		return `{"kind":` + jstr(primName(t.P)) + `}`
	case "opt":
		return `{"kind":"Optional","type":` + typeJSON(t.A) + `}`
	case "var":
		return `{"kind":"VariableSizedArray","type":` + typeJSON(t.A) + `}`
	case "ref":
		return `{"kind":"Reference","type":` + typeJSON(t.A) + `,"authorization":{"kind":"Unauthorized","entitlements":null}}`
	case "comp":
		return `{"kind":"Struct","type":"","typeID":` + jstr(compTypeIDs[t.C]) + `,"fields":[],"initializers":[]}`
	}
	panic("typeJSON: " + t.K)
}

func (x *X) json() string {
	switch x.K {
	case "void":
		return `{"type":"Void"}`
	case "none":
		return `{"type":"Optional","value":null}`
	case "some":
		return `{"type":"Optional","value":` + x.In.json() + `}`
	case "bool":
		return fmt.Sprintf(`{"type":"Bool","value":%v}`, x.B)
	case "string":
		return `{"type":"String","value":` + jstr(x.S) + `}`
	case "char":
		return `{"type":"Character","value":` + jstr(x.S) + `}`
	case "address":
		return fmt.Sprintf(`{"type":"Address","value":"0x%016x"}`, x.Addr)
	case "num":
		txt := x.N.String()
		switch x.P {
		case "Fix64", "UFix64":
			txt = fixText(x.N, 8)
		case "Fix128", "UFix128":
			txt = fixText(x.N, 24)
		}
		return `{"type":` + jstr(x.P) + `,"value":` + jstr(txt) + `}`
	case "path":
		return `{"type":"Path","value":{"domain":` + jstr(strings.ToLower(x.Dom)) + `,"identifier":` + jstr(x.S) + `}}`
	case "type":
		if x.T == nil {
			return `{"type":"Type","value":{"staticType":{"kind":"Struct","type":"","typeID":"A.0000000000000001.C.Nope","fields":[],"initializers":[]}}}`
		}
		return `{"type":"Type","value":{"staticType":` + typeJSON(x.T) + `}}`
	case "array":
		parts := make([]string, len(x.Elems))
		for i, e := range x.Elems {
			parts[i] = e.json()
		}
		return `{"type":"Array","value":[` + strings.Join(parts, ",") + `]}`
	case "dict":
		parts := make([]string, len(x.Elems))
		for i, e := range x.Elems {
			parts[i] = `{"key":` + x.Keys[i].json() + `,"value":` + e.json() + `}`
		}
		return `{"type":"Dictionary","value":[` + strings.Join(parts, ",") + `]}`
	case "comp":
		parts := make([]string, len(x.Elems))
		for i, e := range x.Elems {
			parts[i] = `{"name":` + jstr(fieldNames[x.Fields[i]]) + `,"value":` + e.json() + `}`
		}
		return `{"type":` + jstr(x.Kind) + `,"value":{"id":` + jstr(compTypeIDs[x.C]) + `,"fields":[` + strings.Join(parts, ",") + `]}}`
	case "cap":
		return fmt.Sprintf(`{"type":"Capability","value":{"id":"%d","address":"0x%016x","borrowType":%s}}`, x.ID, x.Addr, typeJSON(x.T))
	case "function":
		return `{"type":"Function","value":{"functionType":{"kind":"Function","typeID":"fun():Void","parameters":[],"typeParameters":[],"purity":"","return":{"kind":"Void"}}}}`
	case "contract":
		return `{"type":"Contract","value":{"id":"A.0000000000000001.C","fields":[]}}`
	}
	panic("json: " + x.K)
}

func (x *X) coq() string {
	switch x.K {
	case "void":
		return "XVoid"
	case "none":
		return "XNone"
	case "some":
		return "(XSome " + x.In.coq() + ")"
	case "bool":
		return fmt.Sprintf("(XBool %v)", x.B)
	case "string":
		return "(XString " + lib.ZList([]byte(x.S)) + ")"
	case "char":
		return "(XChar " + lib.ZList([]byte(x.S)) + ")"
	case "address":
		return fmt.Sprintf("(XAddress %d)", x.Addr)
	case "num":
		return "(XNum P" + x.P + " " + lib.Z(x.N) + ")"
	case "path":
		return "(XPath D" + x.Dom + " " + lib.ZList([]byte(x.S)) + ")"
	case "type":
		if x.T == nil {
			return "(XType None)"
		}
		return "(XType (Some " + x.T.coq() + "))"
	case "array":
		parts := make([]string, len(x.Elems))
		for i, e := range x.Elems {
			parts[i] = e.coq()
		}
		return "(XArray [" + strings.Join(parts, ";") + "])"
	case "dict":
		parts := make([]string, len(x.Elems))
		for i, e := range x.Elems {
			parts[i] = "(" + x.Keys[i].coq() + "," + e.coq() + ")"
		}
		return "(XDict [" + strings.Join(parts, ";") + "])"
	case "comp":
		parts := make([]string, len(x.Elems))
		for i, e := range x.Elems {
			parts[i] = fmt.Sprintf("(%d%%nat,%s)", x.Fields[i], e.coq())
		}
		return fmt.Sprintf("(XComp K%s %d%%nat [%s])", x.Kind, x.C, strings.Join(parts, ";"))
	case "cap":
		return fmt.Sprintf("(XCap %s %d %d)", x.T.coq(), x.Addr, x.ID)
	case "function":
		return "XFunction"
	case "contract":
		return "XContract"
	}
	panic("coq: " + x.K)
}

func (x *X) clone() *X {
	if x == nil {
		return nil
	}
	y := *x
	y.In = x.In.clone()
	y.Elems = make([]*X, len(x.Elems))
	for i, e := range x.Elems {
		y.Elems[i] = e.clone()
	}
	y.Keys = make([]*X, len(x.Keys))
	for i, e := range x.Keys {
		y.Keys[i] = e.clone()
	}
	y.Fields = append([]int{}, x.Fields...)
	return &y
}

// children returns pointers to all nested argument positions (for mutation).
func (x *X) positions() []**X {
	var out []**X
	if x.In != nil {
		out = append(out, &x.In)
		out = append(out, x.In.positions()...)
	}
	for i := range x.Elems {
		out = append(out, &x.Elems[i])
		out = append(out, x.Elems[i].positions()...)
	}
	for i := range x.Keys {
		out = append(out, &x.Keys[i])
		out = append(out, x.Keys[i].positions()...)
	}
	return out
}
