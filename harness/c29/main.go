// Command c29: correspondence + direct-oracle harness for C29 (entry-point arguments are validated
// against parameter types). Parameter types x JSON-Cadence (and CCF) encoded arguments — well typed,
// wrongly typed, partially wrong, non-importable, out of range — are passed to scripts and
// transactions in both engines; the outcome class and the run-time type of the received argument are
// compared with each other and written as Coq cases for the model of coq/theories/C29.
package main

import (
	stderrors "errors"
	"flag"
	"fmt"
	"math/big"
	"os"
	"strings"

	"cvh/lib"

	"github.com/onflow/cadence"
	"github.com/onflow/cadence/common"
	"github.com/onflow/cadence/encoding/ccf"
	"github.com/onflow/cadence/encoding/json"
	"github.com/onflow/cadence/errors"
	"github.com/onflow/cadence/runtime"
)

var (
	prop = flag.String("prop", "C29", "property id")
	seed = flag.Uint64("seed", 1, "seed")
	tier = flag.String("tier", "quick", "quick|thorough")
	dir  = flag.String("dir", ".", "output directory")
)

type decodeError struct{ err error }

func (e *decodeError) Error() string { return "argument decoding failed: " + e.err.Error() }
func (e *decodeError) Unwrap() error { return e.err }
func (e *decodeError) IsUserError()  {}

type host struct {
	h   *lib.Host
	ctr uint64
}

func newHost() *host {
	h := lib.NewHost()
	h.Iface.OnDecodeArgument = func(b []byte, t cadence.Type) (cadence.Value, error) {
		var v cadence.Value
		var err error
		if len(b) > 0 && b[0] == '{' {
			v, err = json.Decode(nil, b)
		} else {
			v, err = ccf.Decode(nil, b)
		}
		if err != nil {
			return nil, &decodeError{err}
		}
		return v, nil
	}
	o := h.Deploy(common.MustBytesToAddress([]byte{1}), "C", contractC, false)
	if o.Class != "" {
		panic(fmt.Sprintf("cannot deploy C: %v", o.Err))
	}
	return &host{h: h}
}

func (h *host) loc() (l [32]byte) {
	h.ctr++
	for i := 0; i < 8; i++ {
		l[i] = byte(h.ctr >> (8 * i))
	}
	l[31] = 0xC2
	return
}

// result of one execution
type result struct {
	Class  string // Accept | RDecode | RImport | RNotImportable | RType | RMalformed | RInternal | static | Other:...
	TypeID string
	Inst   bool
	Value  string
	Err    string
}

func classify(err error) (string, string) {
	msg := err.Error()
	if len(msg) > 400 {
		msg = msg[:400]
	}
	var de *decodeError
	if stderrors.As(err, &de) {
		return "RDecode", msg
	}
	// atree CopyError raised while the imported value is assembled (reported as a generic user error by the
	// interpreter and as an unclassified error by the VM)
	if strings.Contains(err.Error(), "can't copy container") {
		return "RCopy", msg
	}
	cls := lib.ClassifyRuntimeError(err)
	if cls == "CheckerError" || cls == "ParseError" {
		return "static", msg
	}
	// scripts report a non-importable parameter type at run time, transactions in the checker
	var pn *runtime.ScriptParameterTypeNotImportableError
	if stderrors.As(err, &pn) {
		return "static", msg
	}
	if errors.IsInternalError(err) {
		return "RInternal", msg
	}
	var ni *runtime.ArgumentNotImportableError
	if stderrors.As(err, &ni) {
		return "RNotImportable", msg
	}
	var vt *runtime.InvalidValueTypeError
	if stderrors.As(err, &vt) {
		return "RType", msg
	}
	var mv *runtime.MalformedValueError
	if stderrors.As(err, &mv) {
		return "RMalformed", msg
	}
	var ia *runtime.InvalidEntryPointArgumentError
	if stderrors.As(err, &ia) {
		return "RImport", msg
	}
	return "Other:" + cls, msg
}

func (h *host) runScript(t *Ty, arg []byte, vm bool) (r result) {
	src := fmt.Sprintf("import C from 0x1\naccess(all) fun main(x: %s): [AnyStruct] {\n  return [x.getType().identifier, x.isInstance(Type<%s>()), x]\n}", paramAnnot(t), paramAnnot(t))
	defer func() {
		if p := recover(); p != nil {
			r = result{Class: "Crash", Err: fmt.Sprint(p)}
		}
	}()
	v, err := h.h.RT.ExecuteScript(
		runtime.Script{Source: []byte(src), Arguments: [][]byte{arg}},
		runtime.Context{Interface: h.h.Iface, Location: common.ScriptLocation(h.loc()), UseVM: vm},
	)
	if err != nil {
		r.Class, r.Err = classify(err)
		return
	}
	arr := v.(cadence.Array)
	r.Class = "Accept"
	r.TypeID = locRe.ReplaceAllString(string(arr.Values[0].(cadence.String)), "")
	r.Inst = bool(arr.Values[1].(cadence.Bool))
	r.Value = arr.Values[2].String()
	return
}

func (h *host) runTx(t *Ty, arg []byte, vm bool) (r result) {
	src := fmt.Sprintf("import C from 0x1\ntransaction(x: %s) {\n  prepare() { log(x.getType().identifier) }\n}", paramAnnot(t))
	defer func() {
		if p := recover(); p != nil {
			r = result{Class: "Crash", Err: fmt.Sprint(p)}
		}
	}()
	h.h.Signers = nil
	l0 := len(h.h.Logs)
	err := h.h.RT.ExecuteTransaction(
		runtime.Script{Source: []byte(src), Arguments: [][]byte{arg}},
		runtime.Context{Interface: h.h.Iface, Location: common.TransactionLocation(h.loc()), UseVM: vm},
	)
	if err != nil {
		r.Class, r.Err = classify(err)
		return
	}
	r.Class = "Accept"
	if len(h.h.Logs) > l0 {
		s := h.h.Logs[len(h.h.Logs)-1]
		s = strings.Trim(s, `"`)
		r.TypeID = locRe.ReplaceAllString(s, "")
	}
	return
}

// paramAnnot: type annotation with contract-qualified names
func paramAnnot(t *Ty) string {
	s := t.annot()
	for _, n := range []string{"S0", "S1", "S2", "S3", "S4", "R0", "Ev", "En", "I0", "I2"} {
		s = replaceWord(s, n, "C."+n)
	}
	return s
}

func replaceWord(s, w, by string) string {
	var b strings.Builder
	for i := 0; i < len(s); {
		if strings.HasPrefix(s[i:], w) && (i == 0 || !isWord(s[i-1])) && (i+len(w) == len(s) || !isWord(s[i+len(w)])) {
			b.WriteString(by)
			i += len(w)
		} else {
			b.WriteByte(s[i])
			i++
		}
	}
	return b.String()
}

func isWord(c byte) bool {
	return c == '_' || c == '.' || c >= '0' && c <= '9' || c >= 'a' && c <= 'z' || c >= 'A' && c <= 'Z'
}

// ------------------------------------------------------------------ generation

type gen struct {
	rng *lib.Rng
	nid int64
}

var paramPrims = []string{"Int", "Int8", "Int16", "Int64", "Int256", "UInt", "UInt8", "UInt64", "UInt256", "Word16", "Word64",
	"Fix64", "UFix64", "String", "Bool", "Character", "Address", "MetaType", "StoragePath", "PublicPath", "Path", "CapabilityPath",
	"Integer", "SignedInteger", "FixedSizeUnsignedInteger", "Number", "SignedNumber", "FixedPoint", "HashableStruct", "AnyStruct", "AnyStruct"}

var numPrims = []string{"Int", "Int8", "Int16", "Int32", "Int64", "Int128", "Int256", "UInt", "UInt8", "UInt16", "UInt32", "UInt64",
	"UInt128", "UInt256", "Word8", "Word16", "Word32", "Word64", "Word128", "Word256", "Fix64", "UFix64"}

var below = map[string][]string{
	"Number":                   numPrims,
	"SignedNumber":             {"Int", "Int8", "Int16", "Int32", "Int64", "Int128", "Int256", "Fix64"},
	"Integer":                  numPrims[:20],
	"SignedInteger":            numPrims[:7],
	"FixedSizeUnsignedInteger": numPrims[8:20],
	"FixedPoint":               {"Fix64", "UFix64"},
	"SignedFixedPoint":         {"Fix64"},
	"Path":                     {"StoragePath", "PublicPath"},
	"CapabilityPath":           {"PublicPath"},
	"HashableStruct":           {"Int", "UInt8", "Fix64", "String", "Bool", "Character", "Address", "MetaType", "StoragePath"},
}

func (g *gen) paramType(depth int) *Ty {
	r := g.rng
	if depth <= 0 || r.Chance(2, 5) {
		switch r.Intn(12) {
		case 0, 1:
			return comp(lib.Pick(r, []int{0, 1, 2, 3, 6, 7}))
		case 2:
			return inter(lib.Pick(r, [][]int{{0}, {1}, {0, 1}})...)
		case 3:
			if r.Chance(1, 3) {
				return lib.Pick(r, []*Ty{capAny(), capOf(ref(unauth(), prim("Int"))), ref(unauth(), prim("Int")), comp(4), prim("AnyResource"), prim("Void")})
			}
		}
		return prim(lib.Pick(r, paramPrims))
	}
	switch r.Intn(6) {
	case 0, 1:
		return opt(g.paramType(depth - 1))
	case 2, 3:
		return varr(g.paramType(depth - 1))
	case 4:
		return carr(g.paramType(depth-1), r.Intn(3))
	}
	if r.Chance(1, 4) {
		return dict(comp(6), g.paramType(depth-1)) // enum keys
	}
	return dict(prim(lib.Pick(r, []string{"String", "Int", "UInt8", "Address", "HashableStruct", "Character"})), g.paramType(depth-1))
}

func pow2(n uint) *big.Int { return new(big.Int).Lsh(big.NewInt(1), n) }

// numeric bounds (nil = unbounded)
func bounds(p string) (lo, hi *big.Int) {
	bits := map[string]uint{"8": 8, "16": 16, "32": 32, "64": 64, "128": 128, "256": 256}
	switch {
	case p == "Int":
		return nil, nil
	case p == "UInt":
		return big.NewInt(0), nil
	case p == "Fix64":
		return new(big.Int).Neg(pow2(63)), new(big.Int).Sub(pow2(63), big.NewInt(1))
	case p == "UFix64":
		return big.NewInt(0), new(big.Int).Sub(pow2(64), big.NewInt(1))
	case strings.HasPrefix(p, "Int"):
		n := bits[p[3:]]
		return new(big.Int).Neg(pow2(n - 1)), new(big.Int).Sub(pow2(n-1), big.NewInt(1))
	case strings.HasPrefix(p, "UInt"):
		return big.NewInt(0), new(big.Int).Sub(pow2(bits[p[4:]]), big.NewInt(1))
	case strings.HasPrefix(p, "Word"):
		return big.NewInt(0), new(big.Int).Sub(pow2(bits[p[4:]]), big.NewInt(1))
	}
	panic(p)
}

func (g *gen) num(p string) *X {
	lo, hi := bounds(p)
	r := g.rng
	var n *big.Int
	switch r.Intn(6) {
	case 0:
		if lo != nil {
			n = new(big.Int).Set(lo)
		}
	case 1:
		if hi != nil {
			n = new(big.Int).Set(hi)
		}
	case 2:
		n = big.NewInt(0)
	}
	if n == nil {
		n = big.NewInt(int64(r.Intn(200)))
		if lo == nil || lo.Sign() < 0 {
			if r.Bool() {
				n.Neg(n)
			}
		}
		if (p == "Fix64" || p == "UFix64") && r.Bool() {
			n.Mul(n, big.NewInt(1000000))
		}
		if lo != nil && n.Cmp(lo) < 0 {
			n.Set(lo)
		}
		if hi != nil && n.Cmp(hi) > 0 {
			n.Set(hi)
		}
	}
	return &X{K: "num", P: p, N: n}
}

func enumValue(raw int64) *X {
	return &X{K: "comp", Kind: "Enum", C: 6, Fields: []int{8}, Elems: []*X{{K: "num", P: "UInt8", N: big.NewInt(raw)}}}
}

func (g *gen) key(p string, i int) *X {
	switch p {
	case "En":
		return enumValue(int64(i))
	case "String":
		return &X{K: "string", S: fmt.Sprintf("k%d", i)}
	case "Character":
		return &X{K: "char", S: string(rune('a' + i))}
	case "Address":
		return &X{K: "address", Addr: int64(i + 1)}
	case "HashableStruct":
		if i%2 == 0 {
			return &X{K: "string", S: fmt.Sprintf("h%d", i)}
		}
		return &X{K: "num", P: "Int", N: big.NewInt(int64(i))}
	}
	return &X{K: "num", P: p, N: big.NewInt(int64(i))}
}

func (g *gen) scalarOf(p string) *X {
	r := g.rng
	switch p {
	case "Bool":
		return &X{K: "bool", B: r.Bool()}
	case "String":
		return &X{K: "string", S: lib.Pick(r, []string{"", "a", "hello"})}
	case "Character":
		return &X{K: "char", S: lib.Pick(r, []string{"a", "z"})}
	case "Address":
		return &X{K: "address", Addr: int64(1 + r.Intn(4))}
	case "MetaType":
		return &X{K: "type", T: lib.Pick(r, []*Ty{prim("Int"), prim("String"), varr(prim("Int8")), comp(0), opt(prim("Bool"))})}
	case "StoragePath":
		return &X{K: "path", Dom: "Storage", S: "a"}
	case "PublicPath":
		return &X{K: "path", Dom: "Public", S: "b"}
	}
	return g.num(p)
}

var scalarPrims = []string{"Int", "Int8", "Int16", "UInt8", "UInt64", "Word16", "Fix64", "UFix64", "String", "Bool", "Character", "Address", "MetaType", "StoragePath", "PublicPath"}

// untyped: a value for an AnyStruct position, restricted to shapes whose inferred container types
// the model's lcs0 covers (homogeneous or scalar-heterogeneous containers, at most one composite type).
func (g *gen) untyped(depth int) *X {
	r := g.rng
	switch r.Intn(10) {
	case 0, 1:
		return g.wellTyped(comp(lib.Pick(r, []int{0, 1, 2, 3, 7})), depth-1)
	case 2:
		if depth > 0 {
			return g.wellTyped(opt(prim(lib.Pick(r, scalarPrims))), depth-1)
		}
	case 3, 4:
		if depth > 0 {
			// array: homogeneous, numeric mix, or scalar mix; at least one element
			n := 1 + r.Intn(3)
			x := &X{K: "array"}
			var ps []string
			switch r.Intn(4) {
			case 0:
				ps = []string{lib.Pick(r, scalarPrims)}
			case 1:
				ps = lib.Pick(r, [][]string{{"Int8", "Int16", "Int"}, {"UInt8", "Word16"}, {"UInt", "UInt8", "Int8"}, {"Fix64", "UFix64"}, {"Int8", "Fix64"}, {"UInt8", "UFix64"}})
			case 2:
				ps = scalarPrims
			case 3:
				c := r.Intn(4)
				for i := 0; i < n; i++ {
					x.Elems = append(x.Elems, g.wellTyped(comp(c), depth-1))
				}
				return x
			}
			for i := 0; i < n; i++ {
				x.Elems = append(x.Elems, g.scalarOf(lib.Pick(r, ps)))
			}
			return x
		}
	case 5:
		if depth > 0 {
			n := 1 + r.Intn(2)
			x := &X{K: "dict"}
			kp := lib.Pick(r, []string{"String", "Int", "UInt8", "HashableStruct"})
			vp := lib.Pick(r, scalarPrims)
			for i := 0; i < n; i++ {
				x.Keys = append(x.Keys, g.key(kp, i))
				x.Elems = append(x.Elems, g.scalarOf(vp))
			}
			return x
		}
	case 6:
		return &X{K: "none"}
	case 7:
		if depth > 0 && r.Bool() {
			x := &X{K: "dict"}
			for i := 0; i < 1+r.Intn(2); i++ {
				x.Keys = append(x.Keys, enumValue(int64(i)))
				x.Elems = append(x.Elems, g.scalarOf("Int"))
			}
			return x
		}
		return enumValue(int64(r.Intn(3)))
	}
	return g.scalarOf(lib.Pick(r, scalarPrims))
}

// wellTyped returns an argument that the runtime must accept for parameter type t
// (for types without importable values: a value of the type).
func (g *gen) wellTyped(t *Ty, depth int) *X {
	r := g.rng
	switch t.K {
	case "prim":
		if subs, ok := below[t.P]; ok {
			return g.scalarOf(lib.Pick(r, subs))
		}
		switch t.P {
		case "AnyStruct":
			return g.untyped(depth)
		case "AnyResource":
			return g.compValue(4, "Resource", depth)
		case "Void":
			return &X{K: "void"}
		case "Never", "Any", "PrivatePath":
			return &X{K: "none"}
		}
		return g.scalarOf(t.P)
	case "opt":
		if r.Chance(1, 3) {
			return &X{K: "none"}
		}
		return &X{K: "some", In: g.wellTyped(t.A, depth)}
	case "var", "const":
		n := r.Intn(3)
		if t.K == "const" {
			n = t.N
		}
		x := &X{K: "array"}
		for i := 0; i < n; i++ {
			x.Elems = append(x.Elems, g.wellTyped(t.A, depth-1))
		}
		return x
	case "dict":
		n := r.Intn(3)
		x := &X{K: "dict"}
		kp := t.A.P
		if t.A.K == "comp" {
			kp = "En"
		}
		for i := 0; i < n; i++ {
			x.Keys = append(x.Keys, g.key(kp, i))
			x.Elems = append(x.Elems, g.wellTyped(t.B, depth-1))
		}
		return x
	case "comp":
		kind := "Struct"
		if t.C == 4 {
			kind = "Resource"
		}
		if t.C == 5 {
			kind = "Event"
		}
		if t.C == 6 {
			return enumValue(int64(r.Intn(4)))
		}
		return g.compValue(t.C, kind, depth)
	case "inter":
		c := 0
		for _, i := range t.Is {
			if i == 1 {
				c = 1
			}
		}
		return g.compValue(c, "Struct", depth)
	case "ref":
		return g.scalarOf("Int")
	case "cap", "capany":
		return &X{K: "cap", T: ref(unauth(), prim("Int")), Addr: 1, ID: int64(1 + r.Intn(5))}
	}
	panic("wellTyped " + t.K)
}

func (g *gen) compValue(c int, kind string, depth int) *X {
	x := &X{K: "comp", Kind: kind, C: c}
	for _, f := range compFields[c] {
		x.Fields = append(x.Fields, f.Name)
		x.Elems = append(x.Elems, g.wellTyped(f.T, depth-1))
	}
	return x
}

// ------------------------------------------------------------------ mutations of a well-typed argument

func (g *gen) mutate(t *Ty, x *X) (*X, string) {
	r := g.rng
	y := x.clone()
	pos := y.positions()
	pickPos := func(pred func(*X) bool) **X {
		var c []**X
		if pred(y) {
			c = append(c, &y)
		}
		for _, p := range pos {
			if pred(*p) {
				c = append(c, p)
			}
		}
		if len(c) == 0 {
			return nil
		}
		return lib.Pick(r, c)
	}
	anyPos := func(*X) bool { return true }
	isComp := func(v *X) bool { return v.K == "comp" }
	switch r.Intn(14) {
	case 12, 13: // more weight on composites that are malformed inside
		if p := pickPos(isComp); p != nil && len((*p).Elems) > 0 {
			c := *p
			i := r.Intn(len(c.Elems))
			c.Elems[i] = g.scalarOf(lib.Pick(r, scalarPrims))
			return y, "malformed-field-one-level-deeper"
		}
	case 0: // wrong at the top level
		return g.wellTyped(g.paramType(1), 1), "top-level-other-type"
	case 1, 2: // nested element of another type
		p := pickPos(anyPos)
		*p = g.scalarOf(lib.Pick(r, scalarPrims))
		return y, "nested-other-scalar"
	case 3: // composite: missing / extra / duplicate field
		if p := pickPos(isComp); p != nil {
			c := *p
			switch r.Intn(3) {
			case 0:
				if len(c.Elems) > 0 {
					i := r.Intn(len(c.Elems))
					c.Elems = append(c.Elems[:i], c.Elems[i+1:]...)
					c.Fields = append(c.Fields[:i], c.Fields[i+1:]...)
					return y, "missing-field"
				}
			case 1:
				c.Fields = append(c.Fields, lib.Pick(r, []int{7, 1, 4}))
				c.Elems = append(c.Elems, g.scalarOf(lib.Pick(r, scalarPrims)))
				return y, "extra-field"
			case 2:
				if len(c.Elems) > 0 {
					i := r.Intn(len(c.Elems))
					dup := c.Elems[i].clone()
					if r.Bool() {
						dup = g.scalarOf(lib.Pick(r, scalarPrims))
					}
					c.Fields = append(c.Fields, c.Fields[i])
					c.Elems = append(c.Elems, dup)
					return y, "duplicate-field"
				}
			}
		}
	case 4: // composite: wrong field type
		if p := pickPos(isComp); p != nil && len((*p).Elems) > 0 {
			c := *p
			i := r.Intn(len(c.Elems))
			c.Elems[i] = g.wellTyped(g.paramType(1), 1)
			return y, "wrong-field-type"
		}
	case 5: // composite: wrong type id / location / kind tag
		if p := pickPos(isComp); p != nil {
			c := *p
			switch r.Intn(4) {
			case 0:
				c.C = 9
				return y, "undeclared-type-id"
			case 1:
				c.C = 8
				return y, "wrong-location"
			case 2:
				c.C = lib.Pick(r, []int{0, 1, 2, 3, 6, 7})
				return y, "other-declared-type-id"
			case 3:
				c.Kind = lib.Pick(r, []string{"Resource", "Event", "Enum", "Struct"})
				return y, "wrong-kind-tag"
			}
		}
	case 6: // non-importable value somewhere
		p := pickPos(anyPos)
		switch r.Intn(6) {
		case 0:
			*p = &X{K: "cap", T: ref(unauth(), prim("Int")), Addr: 1, ID: 2}
		case 1:
			*p = &X{K: "cap", T: prim("Int"), Addr: 1, ID: 2}
		case 2:
			*p = &X{K: "function"}
		case 3:
			*p = &X{K: "contract"}
		case 4:
			*p = &X{K: "void"}
		case 5:
			*p = g.compValue(4, "Resource", 1)
		}
		return y, "non-importable"
	case 7: // number out of range
		if p := pickPos(func(v *X) bool {
			if v.K != "num" {
				return false
			}
			lo, hi := bounds(v.P)
			return lo != nil || hi != nil
		}); p != nil {
			lo, hi := bounds((*p).P)
			if hi != nil && (lo == nil || r.Bool()) {
				(*p).N = new(big.Int).Add(hi, big.NewInt(1))
			} else {
				(*p).N = new(big.Int).Sub(lo, big.NewInt(1))
			}
			return y, "number-out-of-range"
		}
	case 8: // optional structure
		p := pickPos(anyPos)
		if r.Bool() {
			*p = &X{K: "some", In: *p}
			return y, "extra-optional"
		}
		*p = &X{K: "none"}
		return y, "nil-instead"
	case 9: // array length / unknown type value / empty untyped containers
		switch r.Intn(3) {
		case 0:
			if p := pickPos(func(v *X) bool { return v.K == "array" }); p != nil {
				a := *p
				if len(a.Elems) > 0 && r.Bool() {
					a.Elems = a.Elems[:len(a.Elems)-1]
				} else {
					a.Elems = append(a.Elems, g.scalarOf(lib.Pick(r, scalarPrims)))
				}
				return y, "array-length"
			}
		case 1:
			p := pickPos(anyPos)
			*p = &X{K: "type", T: nil}
			return y, "unknown-type-value"
		case 2:
			p := pickPos(anyPos)
			if r.Bool() {
				*p = &X{K: "array"}
			} else {
				*p = &X{K: "dict"}
			}
			return y, "empty-container"
		}
	case 11: // right outer type id, malformed one level deeper: a field of some composite (incl. enum keys)
		if p := pickPos(isComp); p != nil && len((*p).Elems) > 0 {
			c := *p
			i := r.Intn(len(c.Elems))
			switch r.Intn(4) {
			case 0:
				c.Elems[i] = &X{K: "string", S: "a"}
			case 1:
				c.Elems[i] = g.num(lib.Pick(r, []string{"UInt16", "Int", "Int8", "UInt8", "Word8"}))
			case 2:
				c.Elems[i] = &X{K: "array", Elems: []*X{g.num("UInt8")}}
			case 3:
				c.Elems[i] = &X{K: "bool", B: true}
			}
			return y, "malformed-field-one-level-deeper"
		}
	case 10: // number of a sibling numeric type
		if p := pickPos(func(v *X) bool { return v.K == "num" }); p != nil {
			*p = g.num(lib.Pick(r, numPrims))
			return y, "sibling-numeric-type"
		}
	}
	return y, "unchanged"
}

func main() {
	flag.Parse()
	if *prop != "C29" {
		fmt.Fprintln(os.Stderr, "unknown prop", *prop)
		os.Exit(2)
	}
	sum := &lib.Summary{}
	run(sum)
	sum.Write(*dir)
}
