package main

import "strings"

// Systematic numeric-literal stream: literals of every base with 0..17 digits and `_` separators in every
// position and count (none, one at each position incl. right after the prefix and trailing, doubled, every pair of
// positions, every 1/2/4 digits), upper and lower case, placed in every context where a literal is read:
// import locations in all import forms, pragmas, expressions, array sizes, paths, arguments.
// Only the parse / check monitor runs on them: a program or positioned syntax errors, never an internal error.

func insertAt(d string, pos []int, sep string) string {
	var b strings.Builder
	k := 0
	for i := 0; i <= len(d); i++ {
		for k < len(pos) && pos[k] == i {
			b.WriteString(sep)
			k++
		}
		if i < len(d) {
			b.WriteByte(d[i])
		}
	}
	return b.String()
}

func every(d string, n int) string {
	var b strings.Builder
	for i := 0; i < len(d); i++ {
		if i > 0 && i%n == 0 {
			b.WriteByte('_')
		}
		b.WriteByte(d[i])
	}
	return b.String()
}

func literalFamily() []string {
	var out []string
	bases := []struct {
		prefix, digits string
		maxLen         int
	}{
		{"0x", "f8d6e0586b0a20c71", 17}, {"0x", "00000000000000001", 17}, {"0x", "F8D6E0586B0A20C7A", 17},
		{"0b", "10110100101", 9}, {"0o", "17017325", 8}, {"", "9081726354", 10},
	}
	for _, b := range bases {
		for n := 0; n <= b.maxLen; n++ {
			d := b.digits[:n]
			if b.prefix == "" && n == 0 {
				continue
			}
			add := func(body string) { out = append(out, b.prefix+body) }
			add(d)
			for p := 0; p <= n; p++ {
				add(insertAt(d, []int{p}, "_"))
				add(insertAt(d, []int{p}, "__"))
				for q := p + 1; q <= n; q++ {
					add(insertAt(d, []int{p, q}, "_"))
				}
			}
			if n >= 3 {
				add(insertAt(d, []int{1, 2, n}, "_"))
				add(insertAt(d, []int{0, 1, n - 1}, "_"))
			}
			for _, k := range []int{1, 2, 4} {
				add(every(d, k))
			}
		}
	}
	// fixed-point literals with separators
	for _, f := range []string{"1_0.5", "1.0_5", "1_.5", "1._5", "1.5_", "_1.5", "1__0.0__1", "0_0.0_0", "1_000_000.000_001", "1.", "1._", "1_."} {
		out = append(out, f)
	}
	return out
}

func (st *state) literalStream() {
	contexts := []string{
		"import %", "import A from %", "import A, B from %", "import A as B from %", "import A as B, C as D from %",
		"import %\nimport A from %", "#p(%)", "#p(a: %)", "let x = %", "let x = -%", "let x: Address = %",
		"let x: [Int; %] = []", "let x = f(%, a: %)", "let x = [%, %]", "let x = {%: %}", "let x = a[%]",
		"fun f() { return % }", "let x = /storage/a%", "let x = % as Int", "let x = %.foo", "access(all) fun f(a: Int = %) {}",
		"resource R { event ResourceDestroyed(a: Int = %) }", "transaction(a: Int) { prepare() { let x = % } }",
		"import A from % import B from %",
	}
	seen := map[string]bool{}
	for _, lit := range literalFamily() {
		for _, c := range contexts {
			s := strings.ReplaceAll(c, "%", lit)
			if seen[s] {
				continue
			}
			seen[s] = true
			st.sum.Count("input literal-stream")
			st.parseAndCheck([]byte(s), "literal")
		}
	}
}
