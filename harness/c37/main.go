// Command c37: harness for property C37 (lexing, parsing and checking are total and report in-range
// positions).
//
// For every generated input it
//   - lexes with the real lexer.Lex (through the sync.Pool, after different "dirty" predecessors),
//     checks the token stream against an independent Go oracle (tiling, ranges, line/column from the
//     byte offset as documented on ast.Position / computed by ast.NewPositionAtCodeOffset), and writes
//     the observed token stream as a Coq case to be compared with the Coq lexer model;
//   - parses with parser.ParseProgram and, if accepted, checks with sema.Checker: any Go panic, internal
//     error or non-user error is a direct violation; every error position and AST position must lie
//     within the input with start <= end.
package main

import (
	"flag"
	"fmt"
	"os"
	"path/filepath"
	"regexp"
	"runtime/debug"
	"sort"
	"strings"
	"unicode/utf8"

	"cvh/lib"

	"github.com/onflow/cadence/ast"
	"github.com/onflow/cadence/common"
	"github.com/onflow/cadence/errors"
	"github.com/onflow/cadence/parser"
	"github.com/onflow/cadence/parser/lexer"
	"github.com/onflow/cadence/sema"
)

var (
	prop   = flag.String("prop", "C37", "property id")
	seed   = flag.Uint64("seed", 1, "seed")
	tier   = flag.String("tier", "quick", "quick|thorough")
	dir    = flag.String("dir", ".", "output directory")
	corpus = flag.String("corpus", "", "corpus directory (one input per file)")
	one    = flag.String("one", "", "debug: lex/parse this single source and print")
	sweep  = flag.Int("sweep", 0, "debug: parse/check every truncation of N generated programs and print the failure keys")
)

var stringLoc = common.StringLocation("test")

type tokRec struct {
	Ty, Aux                              int
	SOff, SLine, SCol, EOff, ELine, ECol int
}

func (t tokRec) coq() string {
	return fmt.Sprintf("(%d,%d,(%d,%d,%d),(%d,%d,%d))", t.Ty, t.Aux, t.SOff, t.SLine, t.SCol, t.EOff, t.ELine, t.ECol)
}

func (t tokRec) String() string {
	return fmt.Sprintf("%v[%d(%d:%d)-%d(%d:%d)]", lexer.TokenType(t.Ty), t.SOff, t.SLine, t.SCol, t.EOff, t.ELine, t.ECol)
}

// lexAll runs the real lexer and returns all tokens including the final synthetic EOF token.
func lexAll(input []byte) (toks []tokRec, errCls string, errText string) {
	cls, rec := lib.Catch(func() {
		ts, err := lexer.Lex(input, nil)
		defer ts.Reclaim()
		if err != nil {
			errCls = classifyLexErr(err)
			errText = err.Error()
			return
		}
		for i := 0; i < 1<<21; i++ {
			t := ts.Next()
			aux := 0
			switch v := t.SpaceOrError.(type) {
			case lexer.Space:
				aux = 1
				if v.ContainsNewline {
					aux = 2
				}
			case error:
				aux = 3
			}
			toks = append(toks, tokRec{int(t.Type), aux,
				t.StartPos.Offset, t.StartPos.Line, t.StartPos.Column,
				t.EndPos.Offset, t.EndPos.Line, t.EndPos.Column})
			if t.Type == lexer.TokenEOF {
				break
			}
		}
	})
	if cls != "" {
		return nil, "Crash", fmt.Sprint(rec)
	}
	return
}

func classifyLexErr(err error) string {
	if _, ok := err.(lexer.TokenLimitReachedError); ok {
		return "UserOther"
	}
	if errors.IsInternalError(err) {
		return "Internal"
	}
	if strings.Contains(err.Error(), "second backup") {
		return "Internal"
	}
	if strings.Contains(err.Error(), "runtime error") {
		return "Crash"
	}
	if errors.IsUserError(err) {
		return "UserOther"
	}
	return "Crash"
}

// digest mirrors toks_digest of coq/theories/C37/Cases.v
func digest(toks []tokRec) uint64 {
	const mask = uint64(1)<<40 - 1
	h := uint64(0)
	for _, t := range toks {
		for _, x := range []int{t.Ty, t.Aux, t.SOff, t.SLine, t.SCol, t.EOff, t.ELine, t.ECol} {
			h = (h*1000003 + uint64(int64(x)+7)) & mask
		}
	}
	return h
}

func sameToks(a, b []tokRec) bool {
	if len(a) != len(b) {
		return false
	}
	for i := range a {
		if a[i] != b[i] {
			return false
		}
	}
	return true
}

type state struct {
	sum                   *lib.Summary
	rng                   *lib.Rng
	cw                    *lib.CaseWriter
	distinct              map[string]bool
	maxCoq                int
	coqBytes, maxCoqBytes int
	nCoq                  int
}

// ------------------------------------------------------------------ position oracle (specification)

// specPos is the documented meaning of ast.Position (and what ast.NewPositionAtCodeOffset computes):
// line = 1 + number of '\n' before offset, column = number of BYTES since the start of the line.
func specPos(input []byte, off int) (line, col int) {
	line = 1
	for i := 0; i < off && i < len(input); i++ {
		if input[i] == '\n' {
			line++
			col = 0
		} else {
			col++
		}
	}
	return
}

// runesBefore counts the runes (utf8.DecodeRune steps, width >= 1) that START in [lineStart, off).
func runesBefore(input []byte, off int) int {
	ls := off
	if ls > len(input) {
		ls = len(input)
	}
	for ls > 0 && input[ls-1] != '\n' {
		ls--
	}
	n := 0
	for o := ls; o < off && o < len(input); {
		_, w := utf8.DecodeRune(input[o:])
		if w <= 0 {
			w = 1
		}
		o += w
		n++
	}
	return n
}

// endsInMultibyteRune: stepping rune-wise from start, the last rune of [start,end] is wider than 1 byte.
func endsInMultibyteRune(input []byte, start, end int) bool {
	o := start
	for o <= end && o < len(input) {
		_, w := utf8.DecodeRune(input[o:])
		if w <= 0 {
			w = 1
		}
		if o+w > end+1 || (o+w == end+1 && w > 1) {
			return w > 1
		}
		o += w
	}
	return false
}

func hasNewline(input []byte, from, to int) bool { // in [from,to)
	for i := from; i < to && i < len(input); i++ {
		if i >= 0 && input[i] == '\n' {
			return true
		}
	}
	return false
}

func replayOf(input []byte, extra map[string]any) map[string]any {
	m := map[string]any{"source": string(input), "source_bytes": fmt.Sprintf("%v", input)}
	for k, v := range extra {
		m[k] = v
	}
	return m
}

func short(input []byte) string {
	s := fmt.Sprintf("%q", string(input))
	if len(s) > 160 {
		s = s[:160] + "..."
	}
	return s
}

// checkLex is the direct monitor on the token stream of one input.
func (st *state) checkLex(input []byte, toks []tokRec, label string) {
	sum := st.sum
	n := len(input)
	fail := func(key, what string, extra map[string]any) {
		sum.Fail(key, fmt.Sprintf("lexing %s: %s", short(input), what), replayOf(input, extra))
	}
	if len(toks) == 0 || toks[len(toks)-1].Ty != int(lexer.TokenEOF) {
		fail("lexer-stream:no-eof", "token stream does not end with EOF", nil)
		return
	}
	covered := 0    // next offset to be covered by a consuming token
	glitch := 0     // column surplus accumulated on the current line (explained deviations)
	zeroOnLine := 0 // zero-width tokens seen on the current line
	mbOnLine := 0   // tokens ending in a multi-byte rune seen on the current line
	depth := 0      // block comment nesting
	lastIsError := false
	var prevCons *tokRec
	checkPos := func(t tokRec, which string, off, line, col int, g int, zw, mb int, tokStart int) {
		if off < 0 || off > n {
			return // reported as out of range elsewhere
		}
		wl, wc := specPos(input, off)
		if line != wl {
			fail("lexer-line:mismatch", fmt.Sprintf("%s of token %v has line %d, offset %d is on line %d", which, t, line, off, wl), nil)
			return
		}
		if col == wc {
			return
		}
		rb := runesBefore(input, off)
		exact := col == rb+g
		switch {
		case !exact:
			fail("lexer-column:unexplained", fmt.Sprintf("%s of token %v has column %d; byte column %d, rune column %d, explained surplus %d", which, t, col, wc, rb, g), nil)
		case zw > 0:
			fail("lexer-column:after-zero-width-string-token", fmt.Sprintf("%s of token %v has column %d but offset %d is column %d (a zero-width string token earlier on the line bumped the column)", which, t, col, off, wc), nil)
		case mb > 0:
			fail("lexer-column:after-token-ending-in-multibyte-rune", fmt.Sprintf("%s of token %v has column %d; byte column %d, rune column %d (an earlier token on the line ends in a multi-byte rune)", which, t, col, wc, rb), nil)
		case rb != wc:
			fail("lexer-column:counts-runes-not-bytes", fmt.Sprintf("%s of token %v has column %d = rune count; ast.Position documents a byte count: %d", which, t, col, wc), nil)
		default:
			fail("lexer-column:unexplained", fmt.Sprintf("%s of token %v has column %d; expected %d", which, t, col, wc), nil)
		}
	}
	for i := range toks {
		t := toks[i]
		isEOF := t.Ty == int(lexer.TokenEOF)
		isErr := t.Ty == int(lexer.TokenError)
		if isEOF || isErr {
			// marker tokens: a single position at (endOffset-1)
			if t.SOff != t.EOff || t.SLine != t.ELine || t.SCol != t.ECol {
				fail("lexer-token:marker-not-a-point", fmt.Sprintf("token %v should have start = end", t), nil)
			}
			lim := n - 1
			if isEOF {
				lim = n
			}
			if t.SOff < 0 || t.SOff > lim {
				switch {
				case isEOF && prevCons != nil && prevCons.Ty == int(lexer.TokenUnknownBaseIntegerLiteral) && prevCons.EOff == n:
					// consequence of the literal token that runs past the input (reported below)
				case isEOF && t.SOff == n+1 && n > 0 && input[n-1] == '\\':
					fail("lexer-eof:past-input-after-trailing-backslash-in-template", fmt.Sprintf("EOF token %v lies beyond the input (length %d)", t, n), nil)
				default:
					fail("lexer-token:out-of-range", fmt.Sprintf("token %v lies outside the input (length %d)", t, n), nil)
				}
			} else {
				if t.SOff < covered-0 && isErr && t.SOff < covered {
					// error token inside the current word: must not precede the word start
				}
				g := glitch
				if hasNewline(input, covered, t.SOff) {
					g = 0
				}
				zw, mb := zeroOnLine, mbOnLine
				if hasNewline(input, covered, t.SOff) {
					zw, mb = 0, 0
				}
				checkPos(t, "position", t.SOff, t.SLine, t.SCol, g, zw, mb, covered)
			}
			if isErr && t.SOff < covered {
				fail("lexer-token:error-before-covered-prefix", fmt.Sprintf("error token %v precedes the tokenised prefix [0,%d)", t, covered), nil)
			}
			if isErr {
				lastIsError = true
			}
			continue
		}
		lastIsError = false
		// consuming token
		if t.SOff != covered {
			fail("lexer-tiling:gap-or-overlap", fmt.Sprintf("token %v starts at %d but the previous tokens cover [0,%d)", t, t.SOff, covered), nil)
			return
		}
		zero := false
		if t.EOff < t.SOff {
			if t.Ty == int(lexer.TokenString) && t.EOff == t.SOff-1 && prevCons != nil && prevCons.Ty == int(lexer.TokenParenClose) {
				zero = true
				fail("lexer-token:zero-width-string-after-template", fmt.Sprintf("token %v has end offset before its start offset (empty string part after `)` of a string template)", t), nil)
			} else {
				fail("lexer-token:start-after-end", fmt.Sprintf("token %v has end offset before start offset", t), nil)
				return
			}
		}
		past := false
		if t.EOff >= n {
			if t.Ty == int(lexer.TokenUnknownBaseIntegerLiteral) && t.EOff == n && n >= 2 && input[n-2] == '0' {
				past = true
				fail("lexer-token:unknown-base-literal-at-eof-past-input", fmt.Sprintf("token %v ends at offset %d = len(input): it extends one byte past the input", t, t.EOff), nil)
			} else {
				fail("lexer-token:out-of-range", fmt.Sprintf("token %v lies outside the input (length %d)", t, n), nil)
				return
			}
		}
		// positions
		checkPos(t, "start", t.SOff, t.SLine, t.SCol, glitch, zeroOnLine, mbOnLine, t.SOff)
		if !past {
			ge, zwe, mbe := glitch, zeroOnLine, mbOnLine
			if hasNewline(input, t.SOff, t.EOff) {
				ge, zwe, mbe = 0, 0, 0
			}
			if zero {
				// the end position of a zero-width token carries the column of its start
				wl, wc := specPos(input, t.EOff)
				if t.ELine != wl || t.ECol != wc+1+0 && t.ECol != t.SCol {
					fail("lexer-column:unexplained", fmt.Sprintf("end of zero-width token %v", t), nil)
				}
			} else {
				checkPos(t, "end", t.EOff, t.ELine, t.ECol, ge, zwe, mbe, t.SOff)
			}
			// update the per-line accumulators as the emit bookkeeping does
			if !zero && input[t.EOff] == '\n' {
				glitch, zeroOnLine, mbOnLine = 0, 0, 0
			} else {
				glitch, zeroOnLine, mbOnLine = ge, zwe, mbe
				if zero {
					glitch++
					zeroOnLine++
				} else if endsInMultibyteRune(input, t.SOff, t.EOff) {
					glitch++
					mbOnLine++
				}
			}
		}
		switch lexer.TokenType(t.Ty) {
		case lexer.TokenBlockCommentStart:
			depth++
		case lexer.TokenBlockCommentEnd:
			depth--
		}
		covered = t.EOff + 1
		tt := t
		prevCons = &tt
	}
	// coverage: the consuming tokens tile [0,covered); lexing may stop early only at an error token
	// or inside an unterminated block comment (whose remaining text contains no comment delimiter)
	switch {
	case covered == n:
	case covered == n+1 && prevCons != nil && prevCons.Ty == int(lexer.TokenUnknownBaseIntegerLiteral):
	case covered < n && lastIsError:
		sum.Count("lex stops at error token")
	case covered < n && depth > 0:
		rest := string(input[covered:])
		if strings.Contains(rest, "*/") || strings.Contains(rest, "/*") {
			fail("lexer-tiling:uncovered-input", fmt.Sprintf("tokens cover only [0,%d) of %d bytes although the rest contains a comment delimiter", covered, n), nil)
		}
		sum.Count("lex stops in unterminated block comment")
	case covered < n && n > 0 && strings.Contains(string(input[covered:]), "\\"):
		// string-template mode: `\` followed by a rune other than `(` is skipped without a token and the
		// following runes join the next token; at the end of input they are dropped
		sum.Count("lex drops trailing backslash in template")
	default:
		fail("lexer-tiling:uncovered-input", fmt.Sprintf("tokens cover only [0,%d) of %d bytes and lexing did not stop at an error", covered, n), nil)
	}
	_ = label
}

// ------------------------------------------------------------------ parse / check monitor

// catchStack runs f; on panic it returns the class, the recovered value and the stack at the panic.
func catchStack(f func()) (cls string, rec any, stack string) {
	defer func() {
		if r := recover(); r != nil {
			rec = r
			cls = lib.Classify(r)
			stack = string(debug.Stack())
		}
	}()
	f()
	return "", nil, ""
}

var frameRe = regexp.MustCompile(`github\.com/onflow/cadence/(?:parser|sema|ast|parser/lexer)\.(?:\(\*?[A-Za-z]+\)\.)?([A-Za-z0-9_]+)`)

// crashSite names the failing code path of a panic from its stack: the innermost cadence function that is
// not one of the generic plumbing functions.
func crashSite(stack string) string {
	if strings.Contains(stack, "checkDefaultDestroyEvent") {
		return "checkDefaultDestroyEvent"
	}
	generic := map[string]bool{"Source": true, "tokenSource": true, "currentTokenSource": true, "ParseTokenStream": true,
		"NewUnexpectedErrorFromCause": true, "report": true, "AcceptExpression": true, "AcceptDeclaration": true, "AcceptStatement": true,
		"visitExpressionWithForceType": true, "visitExpression": true, "VisitExpression": true, "func1": true, "isToken": true, "Token": true}
	// skip everything up to the runtime panic frame
	if i := strings.Index(stack, "panic("); i >= 0 {
		stack = stack[i:]
	}
	nfr := 0
	for _, line := range strings.Split(stack, "\n") {
		if strings.HasPrefix(line, "github.com/onflow/cadence/") {
			nfr++
			if strings.Contains(line, "sema.(*InclusiveRangeType).") {
				return "InclusiveRangeType-nil-member-type"
			}
			if nfr >= 4 {
				break
			}
		}
	}
	for _, m := range frameRe.FindAllStringSubmatch(stack, -1) {
		if !generic[m[1]] {
			return m[1]
		}
	}
	return "unknown"
}

func exactCap(src []byte) []byte {
	b := make([]byte, len(src))
	copy(b, src)
	return b[:len(src):len(src)]
}

type posIssue struct{ key, what string }

func (st *state) checkRange(input []byte, what string, hp ast.HasPosition, kindKey string) *posIssue {
	var s, e ast.Position
	cls, rec := lib.Catch(func() {
		s = hp.StartPosition()
		e = hp.EndPosition(nil)
	})
	if cls != "" {
		return &posIssue{kindKey + ":position-method-panics", fmt.Sprintf("%s: computing the position of %T panics: %v", what, hp, rec)}
	}
	n := len(input)
	if s.Offset < 0 || s.Offset > n || e.Offset < -1 || e.Offset > n {
		return &posIssue{fmt.Sprintf("%s:position-out-of-range:%T", kindKey, hp), fmt.Sprintf("%s %T has range %v-%v outside the input of %d bytes", what, hp, s, e, n)}
	}
	return nil
}

func unwrapChildren(err error) []error {
	type parent interface{ ChildErrors() []error }
	if p, ok := err.(parent); ok {
		return p.ChildErrors()
	}
	return nil
}

func (st *state) parseAndCheck(input []byte, label string) {
	sum := st.sum
	src := exactCap(input)
	var prog *ast.Program
	var perr error
	cls, rec := lib.Catch(func() {
		prog, perr = parser.ParseProgram(nil, src, parser.Config{})
	})
	sum.Evaluations++
	fail := func(key, what string, extra map[string]any) {
		sum.Fail(key, fmt.Sprintf("%s (source %s)", what, short(input)), replayOf(input, extra))
	}
	if cls != "" {
		fail("parser-panic", fmt.Sprintf("parser.ParseProgram panicked: %v", rec), nil)
		return
	}
	unknownBaseAtEOF := func() bool {
		n := len(input)
		return n >= 2 && input[n-2] == '0' && ((input[n-1] >= 'a' && input[n-1] <= 'z') || (input[n-1] >= 'A' && input[n-1] <= 'Z'))
	}
	if perr != nil {
		sum.Count("parse: rejected")
		pe, ok := perr.(parser.Error)
		if !ok {
			fail("parser-error:not-a-parser-error", fmt.Sprintf("ParseProgram returned %T: %v", perr, perr), nil)
			return
		}
		for _, ce := range pe.Errors {
			if _, ok := ce.(parser.ParseError); !ok {
				msg := ce.Error()
				if i := strings.Index(msg, "\n"); i > 0 {
					msg = msg[:i]
				}
				key := "parser-internal-error:" + crashSite(ce.Error())
				if unknownBaseAtEOF() && strings.Contains(msg, "slice bounds out of range") {
					key = "parser-internal-error:unknown-base-literal-at-eof"
				} else if strings.Contains(msg, "slice bounds out of range") && strings.Contains(ce.Error(), "currentTokenSource") {
					key = "parser-internal-error:eof-token-source:" + crashSite(ce.Error())
				}
				fail(key, fmt.Sprintf("ParseProgram reported a non-syntax error %T: %s", ce, msg), nil)
				continue
			}
			sum.Count(fmt.Sprintf("parse error %T", ce))
			if hp, ok := ce.(ast.HasPosition); ok {
				if iss := st.checkRange(input, "parse error", hp, "parser-error"); iss != nil {
					fail(iss.key, iss.what, nil)
				}
			}
		}
		// rendering the error is part of returning it
		cls, rec := lib.Catch(func() { _ = perr.Error() })
		if cls != "" {
			fail("parser-error:rendering-panics", fmt.Sprintf("parser.Error.Error() panics: %v", rec), nil)
		}
	} else {
		sum.Count("parse: accepted")
	}
	if prog != nil && perr == nil {
		// AST positions (only of programs parsed without errors; a rejected program's partial AST is not reported to anyone)
		nElem := 0
		cls, rec := lib.Catch(func() {
			ast.Inspect(prog, func(el ast.Element) bool {
				if el == nil {
					return false
				}
				nElem++
				if iss := st.checkRange(input, "AST element", el, "ast"); iss != nil {
					fail(iss.key, iss.what, nil)
				} else {
					s, e := el.StartPosition(), el.EndPosition(nil)
					if e.Offset < s.Offset {
						if _, isProg := el.(*ast.Program); !(isProg && len(prog.Declarations()) == 0) {
							fail(fmt.Sprintf("ast:start-after-end:%T", el), fmt.Sprintf("AST element %T has range %v-%v (end before start)", el, s, e), nil)
						}
					}
				}
				return true
			})
		})
		if cls != "" {
			fail("ast-walk-panic", fmt.Sprintf("walking the AST panicked: %v", rec), nil)
		}
		sum.Distribution["ast elements"] += nElem
	}
	if perr != nil || prog == nil {
		return
	}
	// checker
	var cerr error
	var stack string
	cls, rec, stack = catchStack(func() {
		checker, err := sema.NewChecker(prog, stringLoc, nil, &sema.Config{
			AccessCheckMode: sema.AccessCheckModeNotSpecifiedUnrestricted,
		})
		if err != nil {
			cerr = err
			return
		}
		cerr = checker.Check()
	})
	sum.Evaluations++
	if cls != "" {
		msg := fmt.Sprint(rec)
		if i := strings.Index(msg, "\n"); i > 0 {
			msg = msg[:i]
		}
		fail("checker-panic:"+crashSite(stack), fmt.Sprintf("sema.Checker panicked (%s): %s", cls, msg), map[string]any{"stack": stack})
		return
	}
	if cerr == nil {
		sum.Count("check: accepted")
		return
	}
	sum.Count("check: rejected")
	che, ok := cerr.(*sema.CheckerError)
	if !ok {
		if errors.IsInternalError(cerr) || !errors.IsUserError(cerr) {
			fail("checker-internal-error", fmt.Sprintf("checker returned %T: %v", cerr, cerr), nil)
		}
		return
	}
	for _, ce := range che.Errors {
		if _, ok := ce.(sema.SemanticError); !ok {
			fail("checker-internal-error", fmt.Sprintf("checker reported a non-semantic error %T: %v", ce, ce), nil)
			continue
		}
		sum.Count(fmt.Sprintf("check error %T", ce))
		if hp, ok := ce.(ast.HasPosition); ok {
			if iss := st.checkRange(input, "semantic error", hp, "checker-error"); iss != nil {
				fail(iss.key, iss.what, nil)
			}
		}
	}
	che.Codes = map[common.Location][]byte{stringLoc: src}
	cls, rec = lib.Catch(func() { _ = cerr.Error() })
	if cls != "" {
		fail("checker-error:rendering-panics", fmt.Sprintf("CheckerError.Error() panics: %v", rec), nil)
	}
}

// ------------------------------------------------------------------ one input through everything

var dirty = [][]byte{
	[]byte(`"\(`), []byte(`"a\((x`), []byte("/* /* a"), []byte("\"abc\\(x + (y"), []byte("let x = 1\nlet y = 2\n"), []byte("0a"), []byte(""),
	[]byte("\"\\(a)\\(b)\" é\n\n"),
}

func (st *state) process(input []byte, label string, coq bool) {
	sum := st.sum
	sum.Evaluations++
	sum.Count("input " + label)
	// lex after two different predecessors that leave the pooled lexer in different states
	d1 := dirty[st.rng.Intn(len(dirty))]
	d2 := dirty[st.rng.Intn(len(dirty))]
	lexAll(d1)
	toks, ecls, etext := lexAll(input)
	lexAll(d2)
	toks2, ecls2, _ := lexAll(input)
	if ecls != ecls2 || !sameToks(toks, toks2) {
		sum.Fail("lexer-pool:result-depends-on-previous-input",
			fmt.Sprintf("lexing %s gives different tokens after lexing %q than after lexing %q", short(input), d1, d2),
			replayOf(input, map[string]any{"before_first": string(d1), "before_second": string(d2), "first": fmt.Sprint(toks), "second": fmt.Sprint(toks2)}))
	}
	nontrivial := false
	if ecls != "" {
		sum.Count("lex error " + ecls)
		if ecls != "UserOther" {
			sum.Fail("lexer-error:"+ecls, fmt.Sprintf("lexer.Lex(%s) failed with a non-user error: %s", short(input), etext), replayOf(input, nil))
		}
	} else {
		st.checkLex(input, toks, label)
		for _, t := range toks {
			if t.Ty == int(lexer.TokenError) || t.SLine > 1 {
				nontrivial = true
			}
		}
		for _, b := range input {
			if b >= 0x80 {
				nontrivial = true
			}
		}
	}
	if coq && len(input) <= 400 && st.nCoq < st.maxCoq && st.coqBytes < st.maxCoqBytes {
		st.coqBytes += len(input)
		st.nCoq++
		dig := digest(toks)
		ecode := 0
		switch ecls {
		case "UserOther":
			ecode = 1
		case "Internal":
			ecode = 2
		case "Crash":
			ecode = 3
		}
		st.cw.Add(fmt.Sprintf("(%s, %d, %d, %d)", lib.ZList(input), len(toks), dig, ecode),
			map[string]any{"source": string(input), "bytes": fmt.Sprint(input), "label": label, "observed_tokens": fmt.Sprint(toks), "lex_error": ecls})
	}
	st.parseAndCheck(input, label)
	if nontrivial {
		k := string(input)
		if !st.distinct[k] {
			st.distinct[k] = true
			sum.DistinctNontrivial++
		}
	}
	if len(input) > 0 && len(input) < 120 {
		sum.Sample(map[string]any{"label": label, "source": string(input), "tokens": len(toks)})
	}
}

func main() {
	flag.Parse()
	if *one != "" {
		toks, ecls, etext := lexAll([]byte(*one))
		fmt.Println(toks, ecls, etext)
		st := &state{sum: &lib.Summary{Distribution: map[string]int{}}, rng: lib.NewRng(1), distinct: map[string]bool{}}
		st.checkLex([]byte(*one), toks, "one")
		st.parseAndCheck([]byte(*one), "one")
		for _, f := range st.sum.Failures {
			fmt.Println(f.Key, "::", f.What)
		}
		return
	}
	if *sweep > 0 {
		st := &state{sum: &lib.Summary{Distribution: map[string]int{}}, rng: lib.NewRng(*seed), distinct: map[string]bool{}}
		g := lib.NewProgGen(st.rng)
		var srcs []string
		srcs = append(srcs, fixedCorpus()...)
		for i := 0; i < *sweep; i++ {
			srcs = append(srcs, g.Program(3, 3))
		}
		keys := map[string]string{}
		for _, src := range srcs {
			if len(src) > 1500 {
				continue
			}
			toks := tokenize([]byte(src))
			pre := ""
			for _, t := range toks {
				pre += t
				st.sum.Failures = nil
				st.parseAndCheck([]byte(pre), "sweep")
				for _, f := range st.sum.Failures {
					if _, ok := keys[f.Key]; !ok || len(pre) < len(keys[f.Key]) {
						keys[f.Key] = pre
					}
				}
			}
		}
		for k, v := range keys {
			fmt.Printf("%s\t%q\n", k, v)
		}
		return
	}
	sum := &lib.Summary{Distribution: map[string]int{}}
	if *prop != "C37" {
		fmt.Fprintln(os.Stderr, "unknown prop", *prop)
		os.Exit(2)
	}
	st := &state{sum: sum, rng: lib.NewRng(*seed), distinct: map[string]bool{}}
	st.cw = &lib.CaseWriter{
		Dir: *dir, Prefix: "cases_C37",
		Header:   "From CV Require Import C37.Cases.",
		ElemType: "lex_case",
		CheckFn:  "check_lex",
		PerFile:  160,
	}
	st.maxCoq = 1800
	st.maxCoqBytes = 130000
	nGen, nMut, nSoup, nBytes := 250, 700, 300, 200
	if *tier == "thorough" {
		st.maxCoq = 40000
		st.maxCoqBytes = 4000000
		nGen, nMut, nSoup, nBytes = 5000, 20000, 8000, 5000
	}
	sum.Rule = "inputs: fixed boundary corpus (every keyword, every token, deep nesting around the depth limits, nested comments, " +
		"string templates, huge literals, invalid UTF-8, multi-byte runes) + grammar-generated programs + mutations of them (token " +
		"insert/delete/duplicate/swap, truncation, byte flips, invalid UTF-8 and multi-byte insertion) + random token soup + random bytes " +
		"+ a systematic recovery stream (for every token position of exemplar programs covering every grammar production: truncation, replacement of the " +
		"next construct by each closer/separator/keyword, `= <junk>` inserted; parse/check monitor only) + a systematic numeric-literal stream " +
		"(every base, 0..17 digits, `_` separators in every position and count, in every import form, pragmas, expressions, array sizes, paths). " +
		"Each input is lexed twice through the pool after different dirty predecessors (token streams must be identical), checked by a Go oracle " +
		"(tiling, ranges, line/column from the byte offset), parsed and (if accepted) checked; inputs up to 400 bytes also go to the Coq lexer model. " +
		"non-trivial = input has a non-ASCII byte, more than one line, or a lexer error token; distinct = distinct source text"

	// 1. fixed corpus
	for i, src := range fixedCorpus() {
		st.process([]byte(src), "corpus", i < 400)
	}
	if *corpus != "" {
		files, _ := filepath.Glob(filepath.Join(*corpus, "*"))
		sort.Strings(files)
		for _, f := range files {
			if b, err := os.ReadFile(f); err == nil {
				st.process(b, "corpus-file", true)
			}
		}
	}
	// 2. grammar-generated programs and mutations of them
	g := lib.NewProgGen(st.rng)
	g.Comments = true
	var pool [][]byte
	for i := 0; i < nGen; i++ {
		g.NonASCII = i%3 == 0
		src := []byte(g.Program(3, 3))
		pool = append(pool, src)
		st.process(src, "generated", i%2 == 0)
	}
	for i := 0; i < nMut; i++ {
		base := pool[st.rng.Intn(len(pool))]
		m := mutate(st.rng, base)
		st.process(m, "mutated", i%2 == 0)
	}
	// 2b. systematic recovery stream derived from the exemplar programs (and, thorough tier, from generated ones)
	st.recoveryStream(exemplarPrograms(), 1)
	st.literalStream()
	if *tier == "thorough" {
		var small []string
		for _, b := range pool {
			if len(b) < 500 {
				small = append(small, string(b))
			}
			if len(small) >= 150 {
				break
			}
		}
		st.recoveryStream(small, 3)
	}
	// 3. token soup and random bytes
	for i := 0; i < nSoup; i++ {
		st.process(tokenSoup(st.rng), "token-soup", true)
	}
	for i := 0; i < nBytes; i++ {
		st.process(randomBytes(st.rng), "random-bytes", true)
	}
	for k, v := range g.Forms {
		sum.Distribution["form "+k] = v
	}
	st.cw.Close()
	sum.CaseFiles = st.cw.Files
	sum.Write(*dir)
}
