package main

import (
	"fmt"
	"strings"

	"cvh/lib"
)

var keywords = []string{"if", "else", "while", "break", "continue", "return", "true", "false", "nil", "let", "var", "fun", "as",
	"create", "destroy", "for", "in", "emit", "auth", "access", "all", "self", "init", "contract", "account", "import", "from",
	"pre", "post", "event", "struct", "resource", "interface", "entitlement", "mapping", "transaction", "prepare", "execute",
	"case", "switch", "default", "enum", "view", "attachment", "attach", "remove", "to", "require", "static", "native", "pub",
	"priv", "include", "try", "catch", "finally", "goto", "const", "export", "throw", "throws", "requires", "where", "final",
	"internal", "typealias", "type", "repeat", "guard", "is"}

var punct = []string{"+", "-", "*", "/", "%", "??", "(", ")", "{", "}", "[", "]", "?", "?.", ",", ":", ".", ";", "<-", "<-!", "->", "<->",
	"<", "<=", "<<", ">", ">=", ">>", "=", "==", "!", "!=", "/*", "*/", "//", "&", "&&", "^", "|", "||", "@", "as!", "as?", "#", "\\(", "\"", "\\", "_"}

var literals = []string{"0", "1", "42", "0x1F", "0b101", "0o17", "1.0", "1.", "0.5", "1_000", "0a", "0z1", "00", "0_", "0x", "0b", "0o", "0b2", "0o8", "0xg",
	"1e5", "9999999999999999999999999999999999999999", "\"\"", "\"a\"", "\"\\n\"", "\"\\u{1F600}\"", "\"\\(x)\"", "\"a\\(b)c\\(d)e\"", "\"\\(a)\\(b)\"",
	"\"é\"", "\"日本\"", "/storage/a", "/public/b", "true", "nil", "x", "foo_bar", "_", "__x", "é", "€", "😀", "\xff", "\xc3", "\xe2\x82", "\xf0\x9f", "\xc0\x80", "\xed\xa0\x80", "\t", "\r\n", "\n", "  "}

func fixedCorpus() []string {
	var xs []string
	add := func(s ...string) { xs = append(xs, s...) }
	// the documented findings and candidates, plus near misses
	add("/*é*/ x", "\"é\" x", "/*€*/ x", "/*😀*/ x y", "a é b", "a $ b", "/* abc", "/* a /* b */ c", "\"\\(a)\\(b)\" z", "\"\\(x)", "\"\\(x)\ny",
		"0a", "0a ", "let x = 0a", "let x = 0z", "let x = 0a\n", "0A", "x 0q", "1.", "1.x", "0.", "\"\\(\\", "\"\\(\\\\", "\"a\\", "\"\\", "\"",
		"", " ", "\n", "\n\n\n", "\r\n", "\t", "é", "\xff", "\xc3", "a\xffb", "\"\xff\" x", "// é\nx", "// é x", "/* é */\nx y", "\"日本語\" + x", "let s = \"é\"; let t = s",
		"\"\\(\"\\(x)\")\"", "\"\\((a))\" b", "\"\\(a\" b", ") x", ")) \" x", "\\(", "\\ x", "\"\\(a \\ b)\"", "\"\\(a)\\", "\"\\(a)\n\"", "as", "as?", "as!", "as ?", "has?", "x as? T", "x as! T", "a as", "asx?")
	// inputs of the known parser / checker crashes
	add("resource interface R { event ResourceDestroyed(a: Int = 1)\n event Other(x: Int) }",
		"resource interface R { event ResourceDestroyed(a: Int = 1)\n struct S {} }",
		"resource interface R { event ResourceDestroyed(a: Int = 1) }",
		"transaction(x: InclusiveRange<Int, Int>) {}", "fun f(x: InclusiveRange<Int,Int>) { x.start }", "fun f(x: InclusiveRange<Int>) { x.start }",
		"let x: auth(", "let x: auth(E", "let x: auth", "let x: auth(mapping", "access(", "access(all", "access(mapping",
		"let s = \"\\(\"\\(\"x\")", "let s = \"\\(\"\\(x)\")\"", "let s = \"\\(\"a\")\"")
	// every keyword alone, doubled, and in an expression / declaration position
	for _, k := range keywords {
		add(k, k+" "+k, "let "+k+" = 1", "fun "+k+"() {}", k+" {", "access(all) "+k+" X {}", "x."+k, k+"(", "let x: "+k+" = "+k)
	}
	// every punctuation token alone, doubled, adjacent to identifiers, at EOF
	for _, p := range punct {
		add(p, p+p, "a"+p+"b", "a "+p, p+" b", "("+p+")")
	}
	for _, l := range literals {
		add(l, l+" "+l, "let x = "+l, l+"\n"+l, "["+l+"]")
	}
	// deep nesting around the parser limits (expressionDepthLimit = typeDepthLimit = 16)
	for _, n := range []int{1, 2, 14, 15, 16, 17, 18, 40, 200} {
		add("let x = "+strings.Repeat("(", n)+"1"+strings.Repeat(")", n),
			"let x = "+strings.Repeat("[", n)+"1"+strings.Repeat("]", n),
			"let x: "+strings.Repeat("[", n)+"Int"+strings.Repeat("]", n)+" = 1",
			"let x: Int"+strings.Repeat("?", n)+" = 1",
			"let x: "+strings.Repeat("&", n)+"Int = 1",
			"let x: "+strings.Repeat("{Int: ", n)+"Int"+strings.Repeat("}", n)+" = 1",
			"let x: "+strings.Repeat("fun(", n)+"Int"+strings.Repeat("): Int", n)+" = 1",
			"let x: "+strings.Repeat("Capability<", n)+"Int"+strings.Repeat(">", n)+" = 1",
			"let x = "+strings.Repeat("-", n)+"1",
			"let x = "+strings.Repeat("!", n)+"true",
			"let x = "+strings.Repeat("<-", n)+"r",
			"let x = "+strings.Repeat("*", n)+"r",
			"let x = "+strings.Repeat("&", n)+"r",
			"let x = a"+strings.Repeat("!", n),
			"let x = a"+strings.Repeat("?.b", n),
			"let x = a"+strings.Repeat(".b", n),
			"let x = a"+strings.Repeat("[0]", n),
			"let x = a"+strings.Repeat("()", n),
			"let x = a"+strings.Repeat(" as! T", n),
			"let x = "+strings.Repeat("a ?? ", n)+"b",
			"let x = "+strings.Repeat("a ? b : ", n)+"c",
			"let x = "+strings.Repeat("a ? ", n)+"b"+strings.Repeat(" : c", n),
			"let x = "+strings.Repeat("1 + ", n)+"1",
			"let x = "+strings.Repeat("f(", n)+"1"+strings.Repeat(")", n),
			"let x = "+strings.Repeat("fun (): Int { return ", n)+"1"+strings.Repeat(" }", n),
			"let x = "+strings.Repeat("{1: ", n)+"1"+strings.Repeat("}", n),
			"fun f() { "+strings.Repeat("if true { ", n)+strings.Repeat("} ", n)+"}",
			"fun f() { "+strings.Repeat("while true { ", n)+strings.Repeat("} ", n)+"}",
			strings.Repeat("struct S { ", n)+strings.Repeat("} ", n),
			strings.Repeat("/* ", n)+"x"+strings.Repeat(" */", n),
			strings.Repeat("/* ", n)+"x"+strings.Repeat(" */", n-1),
			"let s = \""+strings.Repeat("\\(\"", n)+"x"+strings.Repeat("\")", n)+"\"",
			"let s = \""+strings.Repeat("\\((", n)+"x"+strings.Repeat("))", n)+"\"",
			"let x = "+strings.Repeat("a < ", n)+"b",
			"let x = f"+strings.Repeat("<T", n)+strings.Repeat(">", n)+"()",
			"let x = "+strings.Repeat("(a as? T)?.b ?? ", n)+"c",
		)
	}
	// huge literals
	for _, n := range []int{50, 400, 5000} {
		add("let x = "+strings.Repeat("9", n), "let x = 0x"+strings.Repeat("f", n), "let x = 0b"+strings.Repeat("10", n),
			"let x = 1."+strings.Repeat("1", n), "let x = "+strings.Repeat("1", n)+"."+strings.Repeat("0", n),
			"let x = \""+strings.Repeat("a", n)+"\"", "let x = \""+strings.Repeat("\\u{1F600}", n/10)+"\"", "let x = \"\\u{"+strings.Repeat("F", n)+"}\"",
			"let "+strings.Repeat("x", n)+" = 1", "// "+strings.Repeat("c", n), "/* "+strings.Repeat("é", n)+" */ x",
			"let x = \""+strings.Repeat("\\(a)", n/10)+"\" y", "let x = 1"+strings.Repeat("_", n)+"1")
	}
	// small valid programs of each declaration kind (each also gets mutated later through the pool of generated programs)
	add(
		"access(all) fun main(): Int { return 1 }",
		"access(all) contract C { access(all) let x: Int; init() { self.x = 1 } access(all) resource R { access(all) fun f(): @R { return <-create R() } } }",
		"access(all) struct interface I { access(all) fun f(): Int { pre { true: \"é\" } post { result > 0 } } }",
		"transaction(a: Int) { let x: Int; prepare(acct: auth(Storage) &Account) { self.x = a } pre { self.x > 0 } execute { log(self.x) } post { true } }",
		"access(all) entitlement E\naccess(all) entitlement mapping M { E -> F\n include Identity }",
		"access(all) attachment A for R: I { access(all) fun f() { base.g(); self.h() } }",
		"import Foo from 0x1\nimport \"Bar\"\nimport Baz as B, Q from 0x02",
		"#allowAccountLinking\n#foo(\"bar\")",
		"access(all) enum E: UInt8 { access(all) case a; access(all) case b }",
		"access(all) event Ev(x: Int, y: String)",
		"access(all) resource R { access(all) event ResourceDestroyed(id: UInt64 = self.uuid) }",
		"fun f() { let r <- create R(); destroy r; let x = &a as auth(E) &T; let y = x as? &T ?? panic(\"no\"); remove A from r; let z = attach A() to <-r }",
		"fun f(x: Int?) { if let y = x { return } else if var z = x { } else { } ; switch x { case 1: break; default: return } ; for i, e in [1,2] { continue } ; while true { break } ; guard let q = x else { return } }",
		"fun f() { a <-> b; a <- b; a <-! b; a = b; emit Ev(x: 1) }",
		"let f = fun (a: Int): Int { return a + 1 }\nlet g = view fun (): Void {}",
		"let x: {String: [Int; 3]} = {}\nlet y: @{I, J}? <- nil\nlet z: Capability<auth(E | F) &{I}>? = nil\nlet w: fun(Int, @R): view fun(): Int = f",
		"let a = 1 + 2 * 3 - 4 / 5 % 6 << 7 >> 8 & 9 | 10 ^ 11 < 12 && 13 > 14 || a <= b == (c >= d) != e ?? f",
		"let a = -x.y\nlet b = (-x).y\nlet c = -(x + y)\nlet d = !a && !(b || c)\nlet e = (a as! T)?.f\nlet g = a ?? b ?? c\nlet h = (a ?? b) ?? c\nlet i = a ? b : c ? d : e\nlet j = (a ? b : c) ? d : e\nlet k = -1\nlet l = - 1\nlet m = -1.5\nlet n = 1 - -1",
		"let s = \"a\\n\\t\\r\\\\\\\"\\'\\0\\u{41}\\u{1F600}é\"",
		"let s = \"x\\(1 + 2)y\\(\"inner\")z\"",
	)
	return xs
}

// tokenize splits a source into rough lexical chunks for token-level mutation.
func tokenize(src []byte) []string {
	var out []string
	i := 0
	isId := func(b byte) bool {
		return b == '_' || (b >= '0' && b <= '9') || (b >= 'a' && b <= 'z') || (b >= 'A' && b <= 'Z')
	}
	for i < len(src) {
		j := i + 1
		switch {
		case isId(src[i]):
			for j < len(src) && isId(src[j]) {
				j++
			}
		case src[i] == ' ' || src[i] == '\n' || src[i] == '\t':
			for j < len(src) && (src[j] == ' ' || src[j] == '\n' || src[j] == '\t') {
				j++
			}
		case src[i] == '"':
			for j < len(src) && src[j] != '"' && src[j] != '\n' {
				if src[j] == '\\' && j+1 < len(src) {
					j++
				}
				j++
			}
			if j < len(src) {
				j++
			}
		case src[i] >= 0x80:
			for j < len(src) && src[j] >= 0x80 && src[j] < 0xc0 {
				j++
			}
		}
		out = append(out, string(src[i:j]))
		i = j
	}
	return out
}

func randomToken(r *lib.Rng) string {
	switch r.Intn(4) {
	case 0:
		return lib.Pick(r, keywords)
	case 1:
		return lib.Pick(r, punct)
	case 2:
		return lib.Pick(r, literals)
	default:
		return lib.Pick(r, []string{"x", "y", "Int", "R", "f", " ", "\n", "(", ")", "{", "}", "\"", "\\(", "é", "/*", "*/"})
	}
}

func mutate(r *lib.Rng, base []byte) []byte {
	toks := tokenize(base)
	if len(toks) == 0 {
		return []byte(randomToken(r))
	}
	n := 1 + r.Intn(3)
	for k := 0; k < n; k++ {
		i := r.Intn(len(toks))
		switch r.Intn(9) {
		case 0: // insert
			toks = append(toks[:i], append([]string{randomToken(r)}, toks[i:]...)...)
		case 1: // delete
			toks = append(toks[:i], toks[i+1:]...)
		case 2: // duplicate
			toks = append(toks[:i], append([]string{toks[i]}, toks[i:]...)...)
		case 3: // swap
			j := r.Intn(len(toks))
			toks[i], toks[j] = toks[j], toks[i]
		case 4: // replace
			toks[i] = randomToken(r)
		case 5: // truncate at token
			toks = toks[:i+1]
		case 6: // truncate inside token / byte level
			s := strings.Join(toks, "")
			if len(s) > 0 {
				return []byte(s[:r.Intn(len(s)+1)])
			}
		case 7: // byte flip / invalid UTF-8 insertion
			s := []byte(strings.Join(toks, ""))
			if len(s) > 0 {
				p := r.Intn(len(s))
				switch r.Intn(3) {
				case 0:
					s[p] = byte(r.Intn(256))
				case 1:
					s = append(s[:p], append([]byte(lib.Pick(r, []string{"\xff", "\xc3", "\xe2\x82", "\xf0\x9f\x98", "\x80", "\xc0\xaf", "é", "€", "😀"})), s[p:]...)...)
				default:
					s = append(s[:p], s[p+1:]...)
				}
			}
			return s
		default: // wrap a token in nesting
			d := 1 + r.Intn(20)
			toks[i] = strings.Repeat(lib.Pick(r, []string{"(", "[", "-", "!", "{1: "}), d) + toks[i]
		}
		if len(toks) == 0 {
			break
		}
	}
	return []byte(strings.Join(toks, ""))
}

func tokenSoup(r *lib.Rng) []byte {
	n := 1 + r.Intn(14)
	var b strings.Builder
	for i := 0; i < n; i++ {
		b.WriteString(randomToken(r))
		if r.Chance(2, 3) {
			b.WriteString(lib.Pick(r, []string{" ", " ", "\n", ""}))
		}
	}
	return []byte(b.String())
}

func randomBytes(r *lib.Rng) []byte {
	n := r.Intn(40)
	b := make([]byte, n)
	for i := range b {
		switch r.Intn(4) {
		case 0:
			b[i] = byte(r.Intn(256))
		case 1:
			b[i] = byte(0x80 + r.Intn(0x80))
		default:
			b[i] = byte(0x20 + r.Intn(0x5f))
		}
	}
	_ = fmt.Sprint
	return b
}
