package main

import (
	"strings"

	"cvh/lib"
)

// Systematic malformed stream ("recovery stream"): for every token position of every exemplar program
//   (a) truncate right after the token,
//   (b) replace the construct that starts at the token (the token itself, or the balanced bracket group it
//       opens) by each junk item — a closer, a separator, a keyword, nothing — keeping or dropping the rest,
//   (c) insert `= <junk>` after the token (an initializer where none may be: after type annotations in
//       every declaration context, after parameters, conditions, ...).
// Only the parse / check monitor runs on these inputs (no panic, no internal error, positions in range).

var junkItems = []string{"", "}", ")", "]", ";", ",", "fun", "let", "(", "1 +", "<-", "as"}

func isSpaceTok(s string) bool { return strings.TrimSpace(s) == "" }

// groupEnd returns the index after the balanced group opened by toks[i] (i+1 if toks[i] opens nothing).
func groupEnd(toks []string, i int) int {
	open, close := toks[i], ""
	switch open {
	case "(":
		close = ")"
	case "[":
		close = "]"
	case "{":
		close = "}"
	default:
		return i + 1
	}
	depth := 0
	for j := i; j < len(toks); j++ {
		if toks[j] == open {
			depth++
		} else if toks[j] == close {
			depth--
			if depth == 0 {
				return j + 1
			}
		}
	}
	return len(toks)
}

func (st *state) recoveryStream(programs []string, sampleEvery int) {
	seen := map[string]bool{}
	n := 0
	run := func(s string) {
		if seen[s] {
			return
		}
		seen[s] = true
		n++
		if sampleEvery > 1 && n%sampleEvery != 0 {
			return
		}
		st.sum.Count("input recovery-stream")
		st.parseAndCheck([]byte(s), "recovery")
	}
	for _, p := range programs {
		toks := tokenize([]byte(p))
		for i := range toks {
			if isSpaceTok(toks[i]) {
				continue
			}
			prefix := strings.Join(toks[:i], "")
			upto := strings.Join(toks[:i+1], "")
			rest := strings.Join(toks[i+1:], "")
			restAfterGroup := strings.Join(toks[groupEnd(toks, i):], "")
			run(upto) // (a)
			for _, j := range junkItems {
				run(prefix + j + rest)           // (b) token replaced
				run(prefix + j)                  // (b) ... and the rest dropped
				run(prefix + j + restAfterGroup) // (b) whole bracket group replaced
				run(upto + " = " + j + rest)     // (c)
				run(upto + " = " + j)            // (c) at end of input
				run(upto + " =" + j + "\n" + rest)
			}
		}
	}
}

func exemplarPrograms() []string {
	return lib.C37Exemplars()
}
