package main

import (
	"bufio"
	"encoding/json"
	"fmt"
	"math/big"
	"os"
	"path/filepath"
	"strings"

	"cvh/lib"

	fix "github.com/onflow/fixed-point"

	"github.com/onflow/cadence/interpreter"
)

var modeNames = []string{"towardZero", "awayFromZero", "nearestHalfAway", "nearestHalfEven"}
var modeCoq = []string{"RTowardZero", "RAwayFromZero", "RNearestHalfAway", "RNearestHalfEven"}

// ---------------------------------------------------------------- real code
func conv(s, t NKind, z *big.Int) (res outcome) {
	cls, _ := lib.Catch(func() {
		v := t.Convert(nil, s.Make(z))
		res.z = ReadBack(v)
	})
	if cls != "" {
		res = outcome{cls: cls}
	}
	return
}

func convRound(s, t NKind, z *big.Int, mode int) (res outcome) {
	cls, _ := lib.Catch(func() {
		var v interpreter.Value
		switch t.Name {
		case "Fix64":
			v = interpreter.ConvertFix64WithRounding(nil, s.Make(z), fix.RoundingMode(mode))
		case "UFix64":
			v = interpreter.ConvertUFix64WithRounding(nil, s.Make(z), fix.RoundingMode(mode))
		default:
			panic("no rounding conversion for " + t.Name)
		}
		res.z = ReadBack(v)
	})
	if cls != "" {
		res = outcome{cls: cls}
	}
	return
}

// ---------------------------------------------------------------- oracle (big.Rat)

// roundRat rounds an exact rational to an integer by the rule.
func roundRat(q *big.Rat, mode int) *big.Int {
	num, den := q.Num(), q.Denom()  // den > 0
	t := new(big.Int).Quo(num, den) // toward zero
	frac := new(big.Rat).Sub(q, new(big.Rat).SetInt(t))
	frac.Abs(frac)
	if frac.Sign() == 0 {
		return t
	}
	away := new(big.Int).Add(t, big.NewInt(int64(q.Sign())))
	half := big.NewRat(1, 2)
	switch mode {
	case 0:
		return t
	case 1:
		return away
	case 2:
		if frac.Cmp(half) >= 0 {
			return away
		}
		return t
	case 3:
		c := frac.Cmp(half)
		if c > 0 || (c == 0 && t.Bit(0) == 1) {
			return away
		}
		return t
	}
	panic("mode")
}

func fitKind(t NKind, r *big.Int) outcome {
	if t.IsWord() {
		m := two(t.Bits)
		return outcome{z: new(big.Int).Mod(r, m)}
	}
	if m := t.Min(); m != nil && r.Cmp(m) < 0 {
		return outcome{cls: lib.EUnderflow}
	}
	if m := t.Max(); m != nil && r.Cmp(m) > 0 {
		return outcome{cls: lib.EOverflow}
	}
	return outcome{z: r}
}

// oracle: the number z/10^scale(s), expressed in units of t's scale, rounded, fitted.
func oracle(s, t NKind, z *big.Int, mode int) outcome {
	val := new(big.Rat).SetFrac(z, s.Factor())
	val.Mul(val, new(big.Rat).SetInt(t.Factor()))
	return fitKind(t, roundRat(val, mode))
}

// floorRat: rounding toward negative infinity (used to place source values around a bound).
func floorRat(q *big.Rat) *big.Int {
	return new(big.Int).Div(q.Num(), q.Denom()) // Euclidean; den > 0 => floor
}

// classify a disagreement between the real result and the oracle: returns the narrow key of a
// known defect class when the input AND the observed result are exactly those of that defect.
func classifyConv(s, t NKind, z *big.Int, mode int, rounding bool, got outcome) string {
	generic := fmt.Sprintf("conv:%s->%s", s.Name, t.Name)
	if rounding {
		generic = fmt.Sprintf("conv-round:%s->%s:%s", s.Name, t.Name, modeNames[mode])
	}
	from128 := s.Name == "Fix128" || s.Name == "UFix128"
	to64 := t.Name == "Fix64" || t.Name == "UFix64"
	val := new(big.Rat).SetFrac(z, s.Factor())
	val.Mul(val, new(big.Rat).SetInt(t.Factor()))
	if rounding {
		if from128 && to64 && z.Sign() != 0 && roundRat(val, mode).Sign() == 0 && got.cls == lib.EUnderflow {
			return fmt.Sprintf("conv-round-to-zero-underflow:%s->%s", s.Name, t.Name)
		}
		if from128 {
			return generic
		}
		// every other source kind: ConvertFix64WithRounding / ConvertUFix64WithRounding delegate to the plain conversion
	}
	switch {
	case from128 && to64:
		lo := new(big.Int).Mul(t.Min(), pow10(16))
		hi := new(big.Int).Mul(t.Max(), pow10(16))
		if z.Cmp(hi) > 0 && got.cls == lib.EOverflow {
			return fmt.Sprintf("conv-range-before-trunc:%s->%s", s.Name, t.Name)
		}
		if z.Cmp(lo) < 0 && got.cls == lib.EUnderflow {
			if t.Name == "UFix64" {
				return "conv-neg-fraction-underflow:Fix128->UFix64"
			}
			return fmt.Sprintf("conv-range-before-trunc:%s->%s", s.Name, t.Name)
		}
	case t.Name == "Fix64" && !s.IsFixed() && z.Cmp(KindByName("Int64").Min()) < 0 && got.cls == lib.EOverflow:
		return "conv-wrong-error-kind:bigint->Fix64"
	}
	return generic
}

// ---------------------------------------------------------------- source values

type valset struct {
	seen map[string]bool
	vals []*big.Int
	prio []bool // boundary value of the target (goes to Coq first)
	s    NKind
}

func (v *valset) add(z *big.Int, prio bool) {
	if !v.s.InRange(z) {
		return
	}
	k := z.String()
	if v.seen[k] {
		return
	}
	v.seen[k] = true
	v.vals = append(v.vals, new(big.Int).Set(z))
	v.prio = append(v.prio, prio)
}

// around adds q (a rational number) expressed at the scale of s: floor, ceil, +-1 unit of s,
// +-1 unit of scale u, +-1 integer.
func (v *valset) around(q *big.Rat, u NKind, prio bool) {
	sc := new(big.Rat).Mul(q, new(big.Rat).SetInt(v.s.Factor()))
	fl := floorRat(sc)
	ce := new(big.Int).Neg(floorRat(new(big.Rat).Neg(sc)))
	deltas := []*big.Int{big.NewInt(0), big.NewInt(1), big.NewInt(-1), big.NewInt(2), big.NewInt(-2)}
	if v.s.Scale > 0 {
		one := v.s.Factor()
		deltas = append(deltas, one, new(big.Int).Neg(one),
			new(big.Int).Add(one, big.NewInt(1)), new(big.Int).Sub(big.NewInt(-1), one),
			new(big.Int).Quo(one, big.NewInt(2)), new(big.Int).Neg(new(big.Int).Quo(one, big.NewInt(2))))
		if u.Scale > 0 && u.Scale < v.s.Scale {
			unit := pow10(v.s.Scale - u.Scale)
			h := new(big.Int).Quo(unit, big.NewInt(2))
			for _, d := range []*big.Int{unit, h, new(big.Int).Add(h, big.NewInt(1)), new(big.Int).Sub(h, big.NewInt(1)), new(big.Int).Sub(unit, big.NewInt(1))} {
				deltas = append(deltas, d, new(big.Int).Neg(d))
			}
		}
	}
	for _, base := range []*big.Int{fl, ce} {
		for _, d := range deltas {
			v.add(new(big.Int).Add(base, d), prio)
		}
	}
}

func sourceValues(s, t NKind, rng *lib.Rng, nrand int) *valset {
	v := &valset{seen: map[string]bool{}, s: s}
	ratInt := func(z *big.Int) *big.Rat { return new(big.Rat).SetInt(z) }
	// bounds of the target, as numbers
	for _, b := range []*big.Int{t.Min(), t.Max()} {
		if b != nil {
			v.around(new(big.Rat).SetFrac(b, t.Factor()), t, true)
		}
	}
	if t.IsWord() {
		// multiples of the modulus
		m := two(t.Bits)
		for _, k := range []int64{-2, -1, 1, 2, 3} {
			v.around(ratInt(new(big.Int).Mul(m, big.NewInt(k))), t, true)
		}
		v.around(ratInt(two(t.Bits-1)), t, true)
	}
	if t.Name == "Fix64" || t.Name == "UFix64" {
		// integer range of the target (NewFix64ValueWithInteger)
		for _, b := range []*big.Int{t.Min(), t.Max()} {
			v.around(ratInt(new(big.Int).Quo(b, t.Factor())), t, true)
		}
	}
	// bounds of the source, zero, small values
	for _, b := range []*big.Int{s.Min(), s.Max()} {
		if b != nil {
			v.add(b, false)
			v.add(new(big.Int).Add(b, big.NewInt(1)), false)
			v.add(new(big.Int).Sub(b, big.NewInt(1)), false)
		}
	}
	v.around(new(big.Rat), t, false)
	v.around(big.NewRat(3, 2), t, false)
	v.around(big.NewRat(-3, 2), t, false)
	// Go int / int64 / uint64 boundaries (ToInt, IsInt64, Int64(), IsUint64)
	for _, k := range []int{63, 64, 31, 32, 127, 128} {
		p := two(k)
		v.around(ratInt(p), t, false)
		v.around(ratInt(new(big.Int).Neg(p)), t, false)
	}
	// random
	lo, hi := s.Min(), s.Max()
	if hi == nil {
		hi = two(300)
	}
	if lo == nil {
		lo = new(big.Int).Neg(hi)
	}
	for i := 0; i < nrand; i++ {
		v.add(rng.BigBetween(lo, hi), false)
	}
	// random values inside the target's range, expressed at the source's scale, with random fraction
	tlo, thi := t.Min(), t.Max()
	if thi == nil {
		thi = two(300)
	}
	if tlo == nil {
		tlo = new(big.Int).Neg(thi)
	}
	for i := 0; i < nrand; i++ {
		q := new(big.Rat).SetFrac(rng.BigBetween(tlo, thi), t.Factor())
		q.Mul(q, ratInt(s.Factor()))
		z := floorRat(q)
		if s.Scale > 0 && rng.Bool() {
			z.Add(z, rng.BigBits(3*s.Scale))
		}
		v.add(z, false)
	}
	return v
}

// values for the rounding conversions: k * 10^16 + remainder around 0, 1/2, 1 of a unit
func roundingValues(s, t NKind, rng *lib.Rng, nrand int) *valset {
	v := sourceValues(s, t, rng, nrand/2)
	if s.Scale != 24 {
		return v
	}
	unit := pow10(16)
	h := new(big.Int).Quo(unit, big.NewInt(2))
	rems := []*big.Int{big.NewInt(0), big.NewInt(1), new(big.Int).Sub(h, big.NewInt(1)), h, new(big.Int).Add(h, big.NewInt(1)), new(big.Int).Sub(unit, big.NewInt(1))}
	ks := []*big.Int{big.NewInt(0), big.NewInt(1), big.NewInt(2), big.NewInt(3), t.Max(), new(big.Int).Sub(t.Max(), big.NewInt(1)),
		KindByName("Fix64").Max(), new(big.Int).Sub(KindByName("Fix64").Max(), big.NewInt(1)), two(63), KindByName("UFix64").Max()}
	for i := 0; i < nrand/4+4; i++ {
		ks = append(ks, rng.BigBetween(big.NewInt(0), KindByName("UFix64").Max()))
	}
	for _, k := range ks {
		for _, r := range rems {
			z := new(big.Int).Mul(k, unit)
			z.Add(z, r)
			v.add(z, true)
			v.add(new(big.Int).Neg(z), true)
		}
		r := rng.BigBetween(big.NewInt(0), unit)
		z := new(big.Int).Mul(k, unit)
		z.Add(z, r)
		v.add(z, false)
		v.add(new(big.Int).Neg(z), false)
	}
	return v
}

// ---------------------------------------------------------------- main flow

func c16(sum *lib.Summary) {
	rng := lib.NewRng(*seed)
	cw := &lib.CaseWriter{Dir: *dir, Prefix: "cases_C16", Header: "From CV Require Import C16.Cases.",
		ElemType: "nkind * nkind * Z * res Z * res Z", CheckFn: "check_conv", PerFile: 700}
	cwr := &lib.CaseWriter{Dir: *dir, Prefix: "cases_C16round", Header: "From CV Require Import C16.Cases.",
		ElemType: "nkind * nkind * rmode * Z * res Z * res Z", CheckFn: "check_conv_round", PerFile: 700}
	nrand, coqPerPair, nscript := 12, 6, 120
	if *tier == "thorough" {
		nrand, coqPerPair, nscript = 150, 25, 2000
	}
	sum.Rule = "every (source kind, target kind) pair of the 27 numeric kinds x source values at and around every bound of the target " +
		"(expressed at the source's scale: floor/ceil, +-1 unit of either scale, +-1/2, +-1 integer), multiples of 2^n for Word targets, bounds of the source, " +
		"2^31/2^32/2^63/2^64/2^127/2^128 neighbourhoods, negative fractions, random values of varied bit length; Fix64/UFix64 targets also with each of the four " +
		"rounding rules on values k*10^-8 + {0, 1e-24, 1/2 unit -+ 1e-24, 1 unit - 1e-24}. Every case: real Convert* function vs big.Rat oracle of the property; a per-pair " +
		"sample (target-bound cases first) also through the Coq model and Coq spec (vm_compute); a sample as scripts `T(x)` in interpreter and VM. " +
		"non-trivial = the conversion fails, wraps (Word target), or drops fractional digits; distinct = distinct (source kind, target kind, rounding, value)"
	type scriptCase struct {
		s, t NKind
		z    *big.Int
		mode int // -1 = none
		got  outcome
	}
	var scriptPool []scriptCase
	one := func(s, t NKind, z *big.Int, mode int, toCoq bool) {
		rounding := mode >= 0
		var got, want outcome
		if rounding {
			got = convRound(s, t, z, mode)
			want = oracle(s, t, z, mode)
		} else {
			got = conv(s, t, z)
			want = oracle(s, t, z, 0)
		}
		sum.Evaluations++
		sum.Count("pair-family " + family(s) + "->" + family(t))
		if got.cls != "" {
			sum.Count("result " + got.cls)
		} else {
			sum.Count("result ok")
		}
		nontrivial := want.cls != "" || t.IsWord() ||
			new(big.Int).Rem(new(big.Int).Mul(z, t.Factor()), s.Factor()).Sign() != 0
		if nontrivial {
			sum.DistinctNontrivial++ // value sets are de-duplicated per (pair, mode)
			if got.cls != "" || s.IsFixed() {
				sum.Sample(map[string]string{"expr": exprOf(s, t, z, mode), "observed": renderOutcome(t, got)})
			}
		}
		if !got.eq(want) {
			key := classifyConv(s, t, z, mode, rounding, got)
			sum.Fail(key,
				fmt.Sprintf("%s = %s, required %s", exprOf(s, t, z, mode), renderOutcome(t, got), renderOutcome(t, want)),
				map[string]any{"source": s.Name, "target": t.Name, "value": s.Render(z), "carried": z.String(), "rounding": modeName(mode),
					"observed": renderOutcome(t, got), "required": renderOutcome(t, want), "via": "interpreter.Convert" + t.Name})
		}
		if toCoq {
			desc := map[string]any{"source": s.Name, "target": t.Name, "value": s.Render(z), "rounding": modeName(mode),
				"observed": renderOutcome(t, got), "oracle": renderOutcome(t, want)}
			if rounding {
				cwr.Add(fmt.Sprintf("mkr %s %s %s %s %s %s", s.CoqKind(), t.CoqKind(), modeCoq[mode], lib.Z(z), got.coq(), want.coq()), desc)
			} else {
				cw.Add(fmt.Sprintf("mkc %s %s %s %s %s", s.CoqKind(), t.CoqKind(), lib.Z(z), got.coq(), want.coq()), desc)
			}
		}
		if len(scriptPool) < 400000 {
			scriptPool = append(scriptPool, scriptCase{s, t, z, mode, got})
		}
	}
	// deterministic selection of the Coq sample: target-bound cases first, then the rest, evenly
	pick := func(v *valset, n int) map[int]bool {
		sel := map[int]bool{}
		var pr, rest []int
		for i := range v.vals {
			if v.prio[i] {
				pr = append(pr, i)
			} else {
				rest = append(rest, i)
			}
		}
		take := func(xs []int, k int) {
			if k <= 0 || len(xs) == 0 {
				return
			}
			if k >= len(xs) {
				for _, i := range xs {
					sel[i] = true
				}
				return
			}
			start := rng.Intn(len(xs))
			for j := 0; j < k; j++ {
				sel[xs[(start+j*len(xs)/k)%len(xs)]] = true
			}
		}
		take(pr, (n*2+2)/3)
		take(rest, n-len(sel))
		return sel
	}
	checkClassification(sum)
	// corpus and the defect witnesses of the unchanged tree first (always exercised)
	for _, w := range append(corpusCases(), witnesses()...) {
		one(KindByName(w.s), KindByName(w.t), w.z, w.mode, true)
	}
	for _, s := range Kinds {
		for _, t := range Kinds {
			v := sourceValues(s, t, rng, nrand)
			sel := pick(v, coqPerPair)
			for i, z := range v.vals {
				one(s, t, z, -1, sel[i])
			}
		}
	}
	// rounding conversions
	for _, s := range Kinds {
		for _, t := range []NKind{KindByName("Fix64"), KindByName("UFix64")} {
			v := roundingValues(s, t, rng, nrand)
			per := 3
			if s.Scale == 24 {
				per = 30
			}
			if *tier == "thorough" {
				per *= 6
			}
			for mode := 0; mode < 4; mode++ {
				sel := pick(v, per)
				for i, z := range v.vals {
					one(s, t, z, mode, sel[i])
				}
			}
		}
	}
	cw.Close()
	cwr.Close()
	sum.CaseFiles = append(cw.Files, cwr.Files...)

	// scripts through both engines: T(x) and T(x, rounding: r) must behave as the Convert functions do
	h := lib.NewHost()
	var picks []scriptCase
	for _, w := range witnesses() {
		s, t := KindByName(w.s), KindByName(w.t)
		var got outcome
		if w.mode >= 0 {
			got = convRound(s, t, w.z, w.mode)
		} else {
			got = conv(s, t, w.z)
		}
		picks = append(picks, scriptCase{s, t, w.z, w.mode, got})
	}
	for i := 0; i < nscript; i++ {
		picks = append(picks, scriptPool[rng.Intn(len(scriptPool))])
	}
	for _, c := range picks {
		if !literalOK(c.s, c.z) {
			continue
		}
		src := scriptOf(c.s, c.t, c.z, c.mode)
		for _, vm := range []bool{false, true} {
			out := h.RunScript(src, nil, vm)
			sum.Evaluations++
			sum.Count(fmt.Sprintf("script vm=%v", vm))
			var got outcome
			if out.Class != "" {
				got = outcome{cls: out.Class}
			} else {
				got = outcome{z: parseNumber(out.Value.String(), c.t)}
			}
			if !got.eq(c.got) {
				sum.Fail(fmt.Sprintf("conv-script:%s->%s:vm=%v", c.s.Name, c.t.Name, vm),
					fmt.Sprintf("script `%s` (vm=%v) gives %s but interpreter.Convert%s gives %s (err: %v)", src, vm, renderOutcome(c.t, got), c.t.Name, renderOutcome(c.t, c.got), out.Err),
					map[string]any{"script": src, "vm": vm, "observed": renderOutcome(c.t, got), "convert_function": renderOutcome(c.t, c.got)})
			}
		}
	}
}

// expectedBig: the BigNumberValue classification the Coq model (is_big) assumes.
var expectedBig = map[string]bool{"Int": true, "UInt": true, "Int128": true, "Int256": true,
	"UInt64": true, "UInt128": true, "UInt256": true, "Word64": true, "Word128": true, "Word256": true}

func checkClassification(sum *lib.Summary) {
	for _, k := range Kinds {
		_, isBig := k.Make(big.NewInt(1)).(interpreter.BigNumberValue)
		_, isNum := k.Make(big.NewInt(1)).(interpreter.NumberValue)
		sum.Evaluations++
		if isBig != expectedBig[k.Name] || !isNum {
			sum.Fail("bignumber-classification:"+k.Name,
				fmt.Sprintf("%s: implements BigNumberValue=%v NumberValue=%v, the model assumes BigNumberValue=%v", k.Name, isBig, isNum, expectedBig[k.Name]),
				map[string]any{"kind": k.Name, "is_big": isBig})
		}
	}
}

// corpus: hand-picked cases, one JSON object per line: {"source","target","carried","rounding"}
func corpusCases() []witness {
	var out []witness
	if *corp == "" {
		return out
	}
	files, _ := filepath.Glob(filepath.Join(*corp, "*.jsonl"))
	for _, f := range files {
		fh, err := os.Open(f)
		if err != nil {
			continue
		}
		sc := bufio.NewScanner(fh)
		for sc.Scan() {
			line := strings.TrimSpace(sc.Text())
			if line == "" || strings.HasPrefix(line, "#") {
				continue
			}
			var d struct {
				Source, Target, Carried, Rounding string
			}
			if json.Unmarshal([]byte(line), &d) != nil {
				continue
			}
			mode := -1
			for i, n := range modeNames {
				if n == d.Rounding {
					mode = i
				}
			}
			z, ok := new(big.Int).SetString(d.Carried, 10)
			if !ok || !KindByName(d.Source).InRange(z) {
				continue
			}
			out = append(out, witness{d.Source, d.Target, z, mode})
		}
		fh.Close()
	}
	return out
}

func family(k NKind) string {
	if k.Int != nil {
		if k.Int.Bits == 0 {
			return "bigint"
		}
		f := k.Int.Kind
		if k.Int.Bits > 64 || (k.Int.Bits == 64 && f != "signed") {
			return f + "-big"
		}
		return f + "-native"
	}
	return k.Name
}

func modeName(mode int) string {
	if mode < 0 {
		return ""
	}
	return modeNames[mode]
}

func exprOf(s, t NKind, z *big.Int, mode int) string {
	if mode >= 0 {
		return fmt.Sprintf("%s(%s as %s, rounding: %s)", t.Name, s.Render(z), s.Name, modeNames[mode])
	}
	return fmt.Sprintf("%s(%s as %s)", t.Name, s.Render(z), s.Name)
}

func renderOutcome(t NKind, o outcome) string {
	if o.cls != "" {
		return "Err " + o.cls
	}
	return t.Render(o.z)
}

// literalOK: the value can be written as a literal of the type in a script
func literalOK(s NKind, z *big.Int) bool {
	return z.BitLen() < 2000
}

func scriptOf(s, t NKind, z *big.Int, mode int) string {
	arg := "x"
	if mode >= 0 {
		arg = "x, rounding: RoundingRule." + modeNames[mode]
	}
	return fmt.Sprintf("access(all) fun main(): %s { let x: %s = %s; return %s(%s) }", t.Name, s.Name, s.Render(z), t.Name, arg)
}

func parseNumber(str string, t NKind) *big.Int {
	if t.IsFixed() {
		i := strings.IndexByte(str, '.')
		if i < 0 || len(str)-i-1 != t.Scale {
			panic("unexpected fixed-point rendering " + str)
		}
		str = str[:i] + str[i+1:]
	}
	z, ok := new(big.Int).SetString(str, 10)
	if !ok {
		panic("not a number: " + str)
	}
	return z
}

type witness struct {
	s, t string
	z    *big.Int
	mode int
}

func bi(s string) *big.Int {
	z, ok := new(big.Int).SetString(s, 10)
	if !ok {
		panic(s)
	}
	return z
}

// witnesses: the inputs on which the tree violates (known findings) or used to violate (fixed by
// 5739f35: the first eight) the property, exercised deterministically on every run.
func witnesses() []witness {
	e24 := pow10(24)
	m15 := new(big.Int).Neg(new(big.Int).Quo(new(big.Int).Mul(big.NewInt(3), e24), big.NewInt(2)))
	max64 := new(big.Int).Mul(KindByName("Fix64").Max(), pow10(16))
	min64 := new(big.Int).Mul(KindByName("Fix64").Min(), pow10(16))
	umax64 := new(big.Int).Mul(KindByName("UFix64").Max(), pow10(16))
	return []witness{
		{"Fix128", "Int8", m15, -1},
		{"Fix128", "UInt8", big.NewInt(-1), -1},
		{"Fix128", "Int", m15, -1},
		{"Fix128", "UInt", big.NewInt(-1), -1},
		{"Fix128", "Int256", m15, -1},
		{"Fix128", "Word8", m15, -1},
		{"Fix128", "Word256", m15, -1},
		{"Fix128", "Fix64", big.NewInt(-1), -1},
		{"Fix128", "UFix64", big.NewInt(-1), -1},
		{"Fix128", "Fix64", new(big.Int).Add(max64, big.NewInt(1)), -1},
		{"Fix128", "Fix64", new(big.Int).Sub(min64, big.NewInt(1)), -1},
		{"UFix128", "Fix64", new(big.Int).Add(max64, big.NewInt(1)), -1},
		{"Fix128", "UFix64", new(big.Int).Add(umax64, big.NewInt(1)), -1},
		{"UFix128", "UFix64", new(big.Int).Add(umax64, big.NewInt(1)), -1},
		{"Int128", "Fix64", new(big.Int).Neg(two(100)), -1},
		{"Int256", "Fix64", new(big.Int).Neg(two(100)), -1},
		{"Int", "Fix64", new(big.Int).Neg(two(100)), -1},
		{"Fix128", "Fix64", big.NewInt(1), 0},
		{"Fix128", "Fix64", bi("-4000000000000000"), 3},
		{"UFix128", "Fix64", big.NewInt(1), 0},
		{"Fix128", "UFix64", big.NewInt(-1), 0},
		{"Fix128", "UFix64", bi("4000000000000000"), 2},
		{"UFix128", "UFix64", bi("5000000000000000"), 3},
	}
}
