package main

import (
	"fmt"
	"math/big"

	"cvh/lib"

	"github.com/onflow/cadence/common"
	"github.com/onflow/cadence/fixedpoint"
	"github.com/onflow/cadence/interpreter"
)

// NKind is one of the 27 numeric kinds of Cadence. Values are carried as big integers:
// the integer itself for the 20 integer kinds, the scaled integer (value * 10^Scale) for the
// four fixed-point kinds.
type NKind struct {
	Name    string
	Int     *lib.IntType // nil for the fixed-point kinds
	Scale   int          // 0 (integer kinds), 8, 24
	Signed  bool
	Bits    int // fixed-point kinds: 64 / 128
	Make    func(z *big.Int) interpreter.Value
	Convert func(common.MemoryGauge, interpreter.Value) interpreter.Value
}

func pow10(n int) *big.Int { return new(big.Int).Exp(big.NewInt(10), big.NewInt(int64(n)), nil) }
func two(n int) *big.Int   { return new(big.Int).Lsh(big.NewInt(1), uint(n)) }

func (k NKind) IsFixed() bool { return k.Int == nil }
func (k NKind) IsWord() bool  { return k.Int != nil && k.Int.Kind == "word" }

// Min / Max of the carried (scaled) integer; nil when unbounded.
func (k NKind) Min() *big.Int {
	if k.Int != nil {
		return k.Int.Min()
	}
	if k.Signed {
		return new(big.Int).Neg(two(k.Bits - 1))
	}
	return big.NewInt(0)
}

func (k NKind) Max() *big.Int {
	if k.Int != nil {
		return k.Int.Max()
	}
	if k.Signed {
		return new(big.Int).Sub(two(k.Bits-1), big.NewInt(1))
	}
	return new(big.Int).Sub(two(k.Bits), big.NewInt(1))
}

func (k NKind) InRange(z *big.Int) bool {
	if m := k.Min(); m != nil && z.Cmp(m) < 0 {
		return false
	}
	if m := k.Max(); m != nil && z.Cmp(m) > 0 {
		return false
	}
	return true
}

func (k NKind) Factor() *big.Int { return pow10(k.Scale) }

// CoqKind renders the kind as an `nkind` term of C16/Model.v.
func (k NKind) CoqKind() string {
	if k.Int != nil {
		return "(NI " + k.Int.CoqKind() + ")"
	}
	return "N" + k.Name
}

// Render prints the carried integer as a Cadence literal of the kind.
func (k NKind) Render(z *big.Int) string {
	if k.Int != nil {
		return z.String()
	}
	a := new(big.Int).Abs(z)
	q, r := new(big.Int).QuoRem(a, k.Factor(), new(big.Int))
	s := fmt.Sprintf("%s.%0*s", q.String(), k.Scale, r.String())
	if z.Sign() < 0 {
		s = "-" + s
	}
	return s
}

// ReadBack returns the carried integer of a numeric interpreter value.
func ReadBack(v interpreter.Value) *big.Int {
	switch x := v.(type) {
	case interpreter.Fix64Value:
		return big.NewInt(int64(x))
	case interpreter.UFix64Value:
		return new(big.Int).SetUint64(uint64(x.UFix64Value))
	case interpreter.Fix128Value:
		return x.ToBigInt()
	case interpreter.UFix128Value:
		return x.ToBigInt()
	}
	return lib.ValueToBig(v)
}

func intConv(name string) func(common.MemoryGauge, interpreter.Value) interpreter.Value {
	switch name {
	case "Int8":
		return func(g common.MemoryGauge, v interpreter.Value) interpreter.Value {
			return interpreter.ConvertInt8(g, v)
		}
	case "Int16":
		return func(g common.MemoryGauge, v interpreter.Value) interpreter.Value {
			return interpreter.ConvertInt16(g, v)
		}
	case "Int32":
		return func(g common.MemoryGauge, v interpreter.Value) interpreter.Value {
			return interpreter.ConvertInt32(g, v)
		}
	case "Int64":
		return func(g common.MemoryGauge, v interpreter.Value) interpreter.Value {
			return interpreter.ConvertInt64(g, v)
		}
	case "Int128":
		return func(g common.MemoryGauge, v interpreter.Value) interpreter.Value {
			return interpreter.ConvertInt128(g, v)
		}
	case "Int256":
		return func(g common.MemoryGauge, v interpreter.Value) interpreter.Value {
			return interpreter.ConvertInt256(g, v)
		}
	case "UInt8":
		return func(g common.MemoryGauge, v interpreter.Value) interpreter.Value {
			return interpreter.ConvertUInt8(g, v)
		}
	case "UInt16":
		return func(g common.MemoryGauge, v interpreter.Value) interpreter.Value {
			return interpreter.ConvertUInt16(g, v)
		}
	case "UInt32":
		return func(g common.MemoryGauge, v interpreter.Value) interpreter.Value {
			return interpreter.ConvertUInt32(g, v)
		}
	case "UInt64":
		return func(g common.MemoryGauge, v interpreter.Value) interpreter.Value {
			return interpreter.ConvertUInt64(g, v)
		}
	case "UInt128":
		return func(g common.MemoryGauge, v interpreter.Value) interpreter.Value {
			return interpreter.ConvertUInt128(g, v)
		}
	case "UInt256":
		return func(g common.MemoryGauge, v interpreter.Value) interpreter.Value {
			return interpreter.ConvertUInt256(g, v)
		}
	case "Word8":
		return func(g common.MemoryGauge, v interpreter.Value) interpreter.Value {
			return interpreter.ConvertWord8(g, v)
		}
	case "Word16":
		return func(g common.MemoryGauge, v interpreter.Value) interpreter.Value {
			return interpreter.ConvertWord16(g, v)
		}
	case "Word32":
		return func(g common.MemoryGauge, v interpreter.Value) interpreter.Value {
			return interpreter.ConvertWord32(g, v)
		}
	case "Word64":
		return func(g common.MemoryGauge, v interpreter.Value) interpreter.Value {
			return interpreter.ConvertWord64(g, v)
		}
	case "Word128":
		return func(g common.MemoryGauge, v interpreter.Value) interpreter.Value {
			return interpreter.ConvertWord128(g, v)
		}
	case "Word256":
		return func(g common.MemoryGauge, v interpreter.Value) interpreter.Value {
			return interpreter.ConvertWord256(g, v)
		}
	case "Int":
		return func(g common.MemoryGauge, v interpreter.Value) interpreter.Value { return interpreter.ConvertInt(g, v) }
	case "UInt":
		return func(g common.MemoryGauge, v interpreter.Value) interpreter.Value {
			return interpreter.ConvertUInt(g, v)
		}
	}
	panic(name)
}

var Kinds []NKind

func init() {
	for i := range lib.IntTypes {
		t := lib.IntTypes[i]
		Kinds = append(Kinds, NKind{
			Name: t.Name, Int: &lib.IntTypes[i],
			Signed:  t.Kind == "signed" || t.Kind == "int",
			Bits:    t.Bits,
			Make:    func(z *big.Int) interpreter.Value { return t.Make(z) },
			Convert: intConv(t.Name),
		})
	}
	Kinds = append(Kinds,
		NKind{Name: "Fix64", Scale: 8, Signed: true, Bits: 64,
			Make: func(z *big.Int) interpreter.Value { return interpreter.NewUnmeteredFix64Value(z.Int64()) },
			Convert: func(g common.MemoryGauge, v interpreter.Value) interpreter.Value {
				return interpreter.ConvertFix64(g, v)
			}},
		NKind{Name: "UFix64", Scale: 8, Signed: false, Bits: 64,
			Make: func(z *big.Int) interpreter.Value { return interpreter.NewUnmeteredUFix64Value(z.Uint64()) },
			Convert: func(g common.MemoryGauge, v interpreter.Value) interpreter.Value {
				return interpreter.ConvertUFix64(g, v)
			}},
		NKind{Name: "Fix128", Scale: 24, Signed: true, Bits: 128,
			Make: func(z *big.Int) interpreter.Value {
				return interpreter.NewUnmeteredFix128Value(fixedpoint.Fix128FromBigInt(z))
			},
			Convert: func(g common.MemoryGauge, v interpreter.Value) interpreter.Value {
				return interpreter.ConvertFix128(g, v)
			}},
		NKind{Name: "UFix128", Scale: 24, Signed: false, Bits: 128,
			Make: func(z *big.Int) interpreter.Value {
				return interpreter.NewUnmeteredUFix128Value(fixedpoint.UFix128FromBigInt(z))
			},
			Convert: func(g common.MemoryGauge, v interpreter.Value) interpreter.Value {
				return interpreter.ConvertUFix128(g, v)
			}},
	)
}

func KindByName(n string) NKind {
	for _, k := range Kinds {
		if k.Name == n {
			return k
		}
	}
	panic("no kind " + n)
}
