// Command c16: correspondence + direct-oracle harness for
//
//	C16 numeric conversions (all 27x27 kind pairs, with and without rounding rule)
//	C15 fixed-point arithmetic (Fix64, UFix64, Fix128, UFix128)
//
// It drives the real exported Convert* functions / value methods of /repo/interpreter (and
// scripts in both engines), compares with an independent math/big + big.Rat oracle of the
// property, and writes Coq case files (inputs, observed outputs, oracle outputs).
package main

import (
	"flag"
	"fmt"
	"math/big"
	"os"

	"cvh/lib"
)

type outcome struct {
	cls string
	z   *big.Int
}

func (o outcome) String() string {
	if o.cls != "" {
		return "Err " + o.cls
	}
	return o.z.String()
}

func (o outcome) eq(p outcome) bool {
	if o.cls != "" || p.cls != "" {
		return o.cls == p.cls
	}
	return o.z.Cmp(p.z) == 0
}

func (o outcome) coq() string { return lib.ResZ(o.cls, o.z) }

var (
	prop = flag.String("prop", "C16", "property id")
	seed = flag.Uint64("seed", 1, "seed")
	tier = flag.String("tier", "quick", "quick|thorough")
	dir  = flag.String("dir", ".", "output directory")
	corp = flag.String("corpus", "", "corpus directory (hand-picked cases, run first)")
	only = flag.String("only", "", "C15 only: \"sat\" restricts the run to the saturating functions (fixed-point part of C13)")
)

func main() {
	flag.Parse()
	sum := &lib.Summary{}
	switch *prop {
	case "C16":
		c16(sum)
	case "C15":
		c15(sum)
	default:
		fmt.Fprintln(os.Stderr, "unknown prop", *prop)
		os.Exit(2)
	}
	sum.Write(*dir)
}
