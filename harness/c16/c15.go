package main

import (
	"fmt"
	"math/big"

	"cvh/lib"

	fix "github.com/onflow/fixed-point"

	"github.com/onflow/cadence/interpreter"
)

// ---------------------------------------------------------------- C15: fixed-point arithmetic

type fop struct {
	Coq, Sym, Sat string
}

var fops = []fop{
	{"FAdd", "+", "saturatingAdd"},
	{"FSub", "-", "saturatingSubtract"},
	{"FMul", "*", "saturatingMultiply"},
	{"FDiv", "/", "saturatingDivide"},
}

func fixedKinds() []NKind {
	return []NKind{KindByName("Fix64"), KindByName("UFix64"), KindByName("Fix128"), KindByName("UFix128")}
}

func satDeclared(k NKind, op fop) bool { return k.Signed || op.Coq != "FDiv" }

func asNumber(v interpreter.Value) interpreter.NumberValue { return v.(interpreter.NumberValue) }

var c15ctx *interpreter.Interpreter

func catchNum(f func() interpreter.Value) (res outcome) {
	cls, _ := lib.Catch(func() {
		v := f()
		if v == nil {
			res.cls = lib.ECrash
			return
		}
		res.z = ReadBack(v)
	})
	if cls != "" {
		res = outcome{cls: cls}
	}
	return
}

func realArith(k NKind, op fop, a, b *big.Int, sat bool) outcome {
	return catchNum(func() interpreter.Value {
		x, y := asNumber(k.Make(a)), asNumber(k.Make(b))
		switch op.Coq {
		case "FAdd":
			if sat {
				return x.SaturatingPlus(c15ctx, y)
			}
			return x.Plus(c15ctx, y)
		case "FSub":
			if sat {
				return x.SaturatingMinus(c15ctx, y)
			}
			return x.Minus(c15ctx, y)
		case "FMul":
			if sat {
				return x.SaturatingMul(c15ctx, y)
			}
			return x.Mul(c15ctx, y)
		default:
			if sat {
				return x.SaturatingDiv(c15ctx, y)
			}
			return x.Div(c15ctx, y)
		}
	})
}

func realMod(k NKind, a, b *big.Int) outcome {
	return catchNum(func() interpreter.Value { return asNumber(k.Make(a)).Mod(c15ctx, asNumber(k.Make(b))) })
}

func realNeg(k NKind, a *big.Int) outcome {
	return catchNum(func() interpreter.Value { return asNumber(k.Make(a)).Negate(c15ctx) })
}

func realMulDiv(k NKind, a, b, c *big.Int, mode int) outcome {
	return catchNum(func() interpreter.Value {
		x := k.Make(a).(interpreter.FixedPointValue)
		return x.MultiplyDivide(c15ctx, k.Make(b).(interpreter.FixedPointValue), k.Make(c).(interpreter.FixedPointValue), fix.RoundingMode(mode))
	})
}

// oracle
func fitFixed(k NKind, r *big.Int) outcome { return fitKind(k, r) }

func clampFixed(k NKind, r *big.Int) outcome {
	if r.Cmp(k.Min()) < 0 {
		return outcome{z: k.Min()}
	}
	if r.Cmp(k.Max()) > 0 {
		return outcome{z: k.Max()}
	}
	return outcome{z: r}
}

// exactArith: the exact rational result of the operation on the numbers a/S, b/S, expressed in units of 1/S
func exactArith(k NKind, op fop, a, b *big.Int) *big.Rat {
	S := new(big.Rat).SetInt(k.Factor())
	x, y := new(big.Rat).SetInt(a), new(big.Rat).SetInt(b)
	switch op.Coq {
	case "FAdd":
		return x.Add(x, y)
	case "FSub":
		return x.Sub(x, y)
	case "FMul":
		x.Mul(x, y)
		return x.Quo(x, S)
	default:
		x.Mul(x, S)
		return x.Quo(x, y)
	}
}

func oracleArith(k NKind, op fop, a, b *big.Int, sat bool) outcome {
	if op.Coq == "FDiv" && b.Sign() == 0 {
		return outcome{cls: lib.EDivZero}
	}
	r := roundRat(exactArith(k, op, a, b), 0)
	if sat {
		return clampFixed(k, r)
	}
	return fitFixed(k, r)
}

func oracleMulDiv(k NKind, a, b, c *big.Int, mode int) outcome {
	if c.Sign() == 0 {
		return outcome{cls: lib.EDivZero}
	}
	q := new(big.Rat).SetInt(new(big.Int).Mul(a, b))
	q.Quo(q, new(big.Rat).SetInt(c))
	return fitFixed(k, roundRat(q, mode))
}

// modAllowed: a % b must be a - trunc(a/b)*b, or fail with the error of an out-of-range quotient
func modAllowed(k NKind, a, b *big.Int, got outcome) (bool, string) {
	if b.Sign() == 0 {
		return got.cls == lib.EDivZero, "Err DivZero"
	}
	want := new(big.Int).Rem(a, b)
	if got.cls == "" && got.z.Cmp(want) == 0 {
		return true, ""
	}
	q := oracleArith(k, fops[3], a, b, false)
	if got.cls != "" && q.cls == got.cls {
		return true, ""
	}
	req := k.Render(want)
	if q.cls != "" {
		req += " (or Err " + q.cls + ": the quotient is out of range)"
	}
	return false, req
}

// libDivEdge: the input class of the known division defect of github.com/onflow/fixed-point v0.1.1
// (raw128.go div192by128, "edge case" branch): 128-bit kinds, divisor not reducible to 64 bits by stripping
// trailing zero bits, truncated quotient |num|/|den| with low 64-bit word 2^64-2.
func libDivEdge(k NKind, num, den *big.Int) bool {
	if k.Bits != 128 || den.Sign() == 0 {
		return false
	}
	d := new(big.Int).Abs(den)
	d.Rsh(d, d.TrailingZeroBits())
	if d.BitLen() <= 64 {
		return false
	}
	T := new(big.Int).Quo(new(big.Int).Abs(num), new(big.Int).Abs(den))
	low := new(big.Int).And(T, new(big.Int).Sub(two(64), big.NewInt(1)))
	return low.Cmp(new(big.Int).Sub(two(64), big.NewInt(2))) == 0
}

// edgeDeviation: the observed result is what the defect produces: a magnitude one or two units too
// large, or the overflow that follows from it
func edgeDeviation(got, want outcome) bool {
	if got.cls != "" {
		return got.cls == lib.EOverflow || got.cls == lib.EUnderflow
	}
	if want.cls != "" {
		return false
	}
	d := new(big.Int).Sub(new(big.Int).Abs(got.z), new(big.Int).Abs(want.z))
	return d.Sign() > 0 && d.Cmp(big.NewInt(2)) <= 0
}

// fixedLattice: boundary values of a fixed-point kind (carried integers)
func fixedLattice(k NKind) []*big.Int {
	seen := map[string]bool{}
	var out []*big.Int
	add := func(z *big.Int) {
		if !k.InRange(z) || seen[z.String()] {
			return
		}
		seen[z.String()] = true
		out = append(out, new(big.Int).Set(z))
	}
	pm := func(z *big.Int) {
		for _, d := range []int64{-1, 0, 1} {
			w := new(big.Int).Add(z, big.NewInt(d))
			add(w)
			add(new(big.Int).Neg(w))
		}
	}
	S := k.Factor()
	for _, i := range []int64{0, 1, 2, 3, 5, 7, 10} {
		pm(big.NewInt(i))
	}
	pm(S)                                               // 1.0
	pm(new(big.Int).Mul(S, big.NewInt(2)))              // 2.0
	pm(new(big.Int).Quo(S, big.NewInt(2)))              // 0.5
	pm(new(big.Int).Quo(S, big.NewInt(3)))              // 0.333..
	pm(new(big.Int).Mul(S, big.NewInt(10)))             // 10.0
	pm(new(big.Int).Sqrt(S))                            // sqrt of one unit product
	pm(new(big.Int).Sqrt(new(big.Int).Mul(k.Max(), S))) // squares straddle the maximum
	pm(new(big.Int).Quo(k.Max(), big.NewInt(2)))
	pm(new(big.Int).Quo(k.Max(), S))
	pm(new(big.Int).Mul(new(big.Int).Quo(k.Max(), S), S)) // largest integer
	for _, b := range []*big.Int{k.Min(), k.Max()} {
		for _, d := range []int64{-2, -1, 0, 1, 2} {
			add(new(big.Int).Add(b, big.NewInt(d)))
		}
	}
	for _, e := range []int{31, 32, 63, 64, 127} {
		pm(two(e))
	}
	return out
}

func randFixed(k NKind, rng *lib.Rng) *big.Int { return rng.BigBetween(k.Min(), k.Max()) }

func c15(sum *lib.Summary) {
	rng := lib.NewRng(*seed)
	c15ctx = lib.NewInterp(nil)
	satOnly := *only == "sat"
	cw := &lib.CaseWriter{Dir: *dir, Prefix: "cases_C15", Header: "From CV Require Import C15.Cases.",
		ElemType: "c15case", CheckFn: "check_c15", PerFile: 700}
	nrand, nstraddle, ntriple, nscript := 250, 120, 500, 140
	coqEvery := 170
	if *tier == "thorough" {
		nrand, nstraddle, ntriple, nscript = 6000, 2500, 20000, 1500
		coqEvery = 110
	}
	sum.Rule = "Fix64, UFix64, Fix128, UFix128 x {+,-,*,/,%, negate, saturatingAdd/Subtract/Multiply/Divide (as declared by sema), multiplyDivide x 4 rounding rules, < <= > >= ==}: " +
		"all pairs of a boundary lattice (0, +-1..3 units, +-0.5, +-1.0, +-2.0, +-10.0, sqrt(max) and sqrt(unit) neighbours, largest integer, max/2, min, max, +-1, 2^31..2^127 neighbours), " +
		"random pairs of varied bit length, pairs whose product / quotient / sum straddles the range, divisors near zero; multiplyDivide on lattice and random triples, exact-half cases (a = c/2, b odd), " +
		"triples whose result straddles the range. Every case: real value method vs big.Rat oracle of the property; every k-th case also through the Coq model (library = assumed behaviour) and Coq spec " +
		"(vm_compute); a sample as scripts in interpreter and VM. non-trivial = fails, saturates, or drops digits (inexact product/quotient); distinct = distinct (type, op, operands, rule)"
	distinct := map[string]bool{}
	n := 0
	toCoq := func(force bool) bool { n++; return force || n%coqEvery == 0 }
	note := func(key string, nontrivial bool, sample map[string]string) {
		sum.Evaluations++
		if nontrivial && !distinct[key] {
			distinct[key] = true
			sum.DistinctNontrivial++
			sum.Sample(sample)
		}
	}
	type scr struct {
		k    NKind
		src  string
		want outcome
	}
	var scripts []scr
	lit := func(k NKind, z *big.Int) string { return k.Render(z) }

	arith := func(k NKind, op fop, a, b *big.Int, force bool) {
		for _, sat := range []bool{false, true} {
			if sat && !satDeclared(k, op) {
				continue
			}
			if satOnly && !sat {
				continue
			}
			got := realArith(k, op, a, b, sat)
			want := oracleArith(k, op, a, b, sat)
			name := op.Sym
			ctor := "CArith"
			if sat {
				name = op.Sat
				ctor = "CSat"
			}
			sum.Count(k.Name + " " + name)
			inexact := (op.Coq == "FMul" || op.Coq == "FDiv") && b.Sign() != 0 && !exactArith(k, op, a, b).IsInt()
			plain := oracleArith(k, op, a, b, false)
			note(fmt.Sprintf("%s %s %s %s", k.Name, name, a, b), plain.cls != "" || inexact,
				map[string]string{"type": k.Name, "expr": fmt.Sprintf("%s %s %s", lit(k, a), name, lit(k, b)), "observed": renderOutcome(k, got)})
			known := false
			if !got.eq(want) {
				key := fmt.Sprintf("fix-arith:%s:%s", k.Name, name)
				if op.Coq == "FDiv" && libDivEdge(k, new(big.Int).Mul(a, k.Factor()), b) && edgeDeviation(got, want) {
					key = fmt.Sprintf("fix128-division-edge:%s:%s", k.Name, name)
					known = true
				}
				sum.Fail(key,
					fmt.Sprintf("%s: %s %s %s = %s, required %s", k.Name, lit(k, a), name, lit(k, b), renderOutcome(k, got), renderOutcome(k, want)),
					map[string]any{"type": k.Name, "op": name, "a": lit(k, a), "b": lit(k, b), "observed": renderOutcome(k, got), "required": renderOutcome(k, want)})
			}
			if toCoq(force) && !known {
				cw.Add(fmt.Sprintf("%s %s %s %s %s %s %s", ctor, k.CoqKind(), op.Coq, lib.Z(a), lib.Z(b), got.coq(), want.coq()),
					map[string]any{"type": k.Name, "op": name, "a": lit(k, a), "b": lit(k, b), "observed": renderOutcome(k, got), "oracle": renderOutcome(k, want)})
			}
			if len(scripts) < 200000 {
				expr := fmt.Sprintf("a %s b", op.Sym)
				if sat {
					expr = fmt.Sprintf("a.%s(b)", op.Sat)
				}
				scripts = append(scripts, scr{k, fmt.Sprintf("access(all) fun main(): %s { let a: %s = %s; let b: %s = %s; return %s }", k.Name, k.Name, lit(k, a), k.Name, lit(k, b), expr), got})
			}
		}
	}
	mod := func(k NKind, a, b *big.Int, force bool) {
		if satOnly {
			return
		}
		got := realMod(k, a, b)
		ok, req := modAllowed(k, a, b, got)
		sum.Count(k.Name + " %")
		note(fmt.Sprintf("%s %% %s %s", k.Name, a, b), got.cls != "" || (b.Sign() != 0 && new(big.Int).Rem(a, b).Sign() != 0),
			map[string]string{"type": k.Name, "expr": fmt.Sprintf("%s %% %s", lit(k, a), lit(k, b)), "observed": renderOutcome(k, got)})
		if !ok {
			sum.Fail(fmt.Sprintf("fix-arith:%s:%%", k.Name),
				fmt.Sprintf("%s: %s %% %s = %s, required %s", k.Name, lit(k, a), lit(k, b), renderOutcome(k, got), req),
				map[string]any{"type": k.Name, "op": "%", "a": lit(k, a), "b": lit(k, b), "observed": renderOutcome(k, got), "required": req})
		}
		if toCoq(force) {
			cw.Add(fmt.Sprintf("CMod %s %s %s %s", k.CoqKind(), lib.Z(a), lib.Z(b), got.coq()),
				map[string]any{"type": k.Name, "op": "%", "a": lit(k, a), "b": lit(k, b), "observed": renderOutcome(k, got)})
		}
		scripts = append(scripts, scr{k, fmt.Sprintf("access(all) fun main(): %s { let a: %s = %s; let b: %s = %s; return a %% b }", k.Name, k.Name, lit(k, a), k.Name, lit(k, b)), got})
	}
	neg := func(k NKind, a *big.Int, coq bool) {
		if satOnly {
			return
		}
		got := realNeg(k, a)
		want := fitFixed(k, new(big.Int).Neg(a))
		sum.Count(k.Name + " negate")
		note(fmt.Sprintf("%s neg %s", k.Name, a), want.cls != "", map[string]string{"type": k.Name, "expr": "-(" + lit(k, a) + ")", "observed": renderOutcome(k, got)})
		if !got.eq(want) {
			key := fmt.Sprintf("fix-arith:%s:negate", k.Name)
			if k.Name == "Fix128" && a.Cmp(k.Min()) == 0 && got.cls == lib.EUnderflow {
				key = "fix-negate-min-error-kind:Fix128"
			}
			sum.Fail(key, fmt.Sprintf("%s: -(%s) = %s, required %s", k.Name, lit(k, a), renderOutcome(k, got), renderOutcome(k, want)),
				map[string]any{"type": k.Name, "op": "negate", "a": lit(k, a), "observed": renderOutcome(k, got), "required": renderOutcome(k, want)})
		}
		if coq {
			cw.Add(fmt.Sprintf("CNeg %s %s %s %s", k.CoqKind(), lib.Z(a), got.coq(), want.coq()),
				map[string]any{"type": k.Name, "op": "negate", "a": lit(k, a), "observed": renderOutcome(k, got), "oracle": renderOutcome(k, want)})
		}
		scripts = append(scripts, scr{k, fmt.Sprintf("access(all) fun main(): %s { let a: %s = %s; return -a }", k.Name, k.Name, lit(k, a)), got})
	}
	muldiv := func(k NKind, a, b, c *big.Int, force bool) {
		if satOnly {
			return
		}
		for mode := 0; mode < 4; mode++ {
			got := realMulDiv(k, a, b, c, mode)
			want := oracleMulDiv(k, a, b, c, mode)
			sum.Count(k.Name + " multiplyDivide " + modeNames[mode])
			inexact := c.Sign() != 0 && new(big.Int).Rem(new(big.Int).Mul(a, b), c).Sign() != 0
			note(fmt.Sprintf("%s fmd %s %s %s %d", k.Name, a, b, c, mode), want.cls != "" || inexact,
				map[string]string{"type": k.Name, "expr": fmt.Sprintf("%s.multiplyDivide(%s, %s, rounding: %s)", lit(k, a), lit(k, b), lit(k, c), modeNames[mode]), "observed": renderOutcome(k, got)})
			known := false
			if !got.eq(want) {
				key := fmt.Sprintf("fix-muldiv:%s:%s", k.Name, modeNames[mode])
				if libDivEdge(k, new(big.Int).Mul(a, b), c) && edgeDeviation(got, want) {
					key = fmt.Sprintf("fix128-division-edge:%s:multiplyDivide", k.Name)
					known = true
				}
				sum.Fail(key,
					fmt.Sprintf("%s: %s.multiplyDivide(%s, %s, rounding: %s) = %s, required %s", k.Name, lit(k, a), lit(k, b), lit(k, c), modeNames[mode], renderOutcome(k, got), renderOutcome(k, want)),
					map[string]any{"type": k.Name, "op": "multiplyDivide", "a": lit(k, a), "b": lit(k, b), "c": lit(k, c), "rounding": modeNames[mode], "observed": renderOutcome(k, got), "required": renderOutcome(k, want)})
			}
			if toCoq(force) && !known {
				cw.Add(fmt.Sprintf("CMulDiv %s %s %s %s %s %s %s", k.CoqKind(), modeCoq[mode], lib.Z(a), lib.Z(b), lib.Z(c), got.coq(), want.coq()),
					map[string]any{"type": k.Name, "op": "multiplyDivide", "a": lit(k, a), "b": lit(k, b), "c": lit(k, c), "rounding": modeNames[mode], "observed": renderOutcome(k, got), "oracle": renderOutcome(k, want)})
			}
			if len(scripts) < 200000 {
				scripts = append(scripts, scr{k, fmt.Sprintf("access(all) fun main(): %s { let a: %s = %s; let b: %s = %s; let c: %s = %s; return a.multiplyDivide(b, c, rounding: RoundingRule.%s) }",
					k.Name, k.Name, lit(k, a), k.Name, lit(k, b), k.Name, lit(k, c), modeNames[mode]), got})
			}
		}
	}
	compare := func(k NKind, a, b *big.Int) {
		if satOnly {
			return
		}
		x, y := k.Make(a).(interpreter.ComparableValue), k.Make(b).(interpreter.ComparableValue)
		c := a.Cmp(b)
		obs := []bool{bool(x.Less(c15ctx, y)), bool(x.LessEqual(c15ctx, y)), bool(x.Greater(c15ctx, y)), bool(x.GreaterEqual(c15ctx, y)),
			x.(interpreter.EquatableValue).Equal(c15ctx, y)}
		want := []bool{c < 0, c <= 0, c > 0, c >= 0, c == 0}
		sum.Evaluations++
		sum.Count(k.Name + " comparisons")
		for i, nm := range []string{"<", "<=", ">", ">=", "=="} {
			if obs[i] != want[i] {
				sum.Fail(fmt.Sprintf("fix-compare:%s:%s", k.Name, nm), fmt.Sprintf("%s: %s %s %s = %v, required %v", k.Name, lit(k, a), nm, lit(k, b), obs[i], want[i]),
					map[string]any{"type": k.Name, "op": nm, "a": lit(k, a), "b": lit(k, b), "observed": obs[i], "required": want[i]})
			}
		}
	}
	clip := func(k NKind, z *big.Int) (*big.Int, bool) { return z, k.InRange(z) }

	for _, k := range fixedKinds() {
		lat := fixedLattice(k)
		S := k.Factor()
		for i, a := range lat {
			if k.Signed {
				neg(k, a, i%3 == 0 || a.Cmp(k.Min()) == 0)
			}
			for j, b := range lat {
				force := (i*31+j*17)%331 == 0
				for _, op := range fops {
					arith(k, op, a, b, force)
				}
				mod(k, a, b, force)
				compare(k, a, b)
			}
		}
		for i := 0; i < nrand; i++ {
			a, b := randFixed(k, rng), randFixed(k, rng)
			if i%3 == 0 { // small divisor / factor
				b = rng.BigBetween(big.NewInt(-5), big.NewInt(5))
				if !k.InRange(b) {
					b.Abs(b)
				}
			}
			for _, op := range fops {
				arith(k, op, a, b, false)
			}
			mod(k, a, b, false)
			compare(k, a, b)
			if k.Signed {
				neg(k, a, false)
			}
		}
		// operand pairs whose product / quotient / sum / difference lies right at a bound
		for i := 0; i < nstraddle; i++ {
			a := randFixed(k, rng)
			if a.Sign() == 0 {
				continue
			}
			bound := k.Max()
			if k.Signed && rng.Bool() {
				bound = k.Min()
			}
			// a*b/S ~ bound  =>  b ~ bound*S/a
			bq := new(big.Int).Quo(new(big.Int).Mul(bound, S), a)
			// a*S/b ~ bound  =>  b ~ a*S/bound
			bd := new(big.Int).Quo(new(big.Int).Mul(a, S), bound)
			bs := new(big.Int).Sub(bound, a)
			for _, d := range []int64{-1, 0, 1} {
				if b, ok := clip(k, new(big.Int).Add(bq, big.NewInt(d))); ok {
					arith(k, fops[2], a, b, i%9 == 0)
				}
				if b, ok := clip(k, new(big.Int).Add(bd, big.NewInt(d))); ok {
					arith(k, fops[3], a, b, i%9 == 0)
					mod(k, a, b, false)
				}
				if b, ok := clip(k, new(big.Int).Add(bs, big.NewInt(d))); ok {
					arith(k, fops[0], a, b, false)
				}
				if b, ok := clip(k, new(big.Int).Neg(new(big.Int).Add(bs, big.NewInt(d)))); ok {
					arith(k, fops[1], a, b, false)
				}
			}
		}
		// multiplyDivide: lattice triples (sampled), random triples, exact halves, straddling results
		small := []*big.Int{}
		for _, z := range lat {
			if z.BitLen() <= 4 || z.Cmp(k.Max()) == 0 || z.Cmp(k.Min()) == 0 || new(big.Int).Abs(z).Cmp(S) == 0 {
				small = append(small, z)
			}
		}
		for i, a := range small {
			for j, b := range small {
				for l, c := range small {
					muldiv(k, a, b, c, (i+3*j+7*l)%997 == 0)
				}
			}
		}
		for i := 0; i < ntriple; i++ {
			a, b, c := randFixed(k, rng), randFixed(k, rng), randFixed(k, rng)
			switch i % 5 {
			case 0: // exact half: a = c/2, b odd
				c = rng.BigBetween(big.NewInt(2), new(big.Int).Quo(k.Max(), big.NewInt(4)))
				c.SetBit(c, 0, 0)
				if c.Sign() == 0 {
					c = big.NewInt(2)
				}
				a = new(big.Int).Quo(c, big.NewInt(2))
				b = rng.BigBetween(big.NewInt(0), big.NewInt(1<<20))
				b.SetBit(b, 0, 1)
				if k.Signed {
					if rng.Bool() {
						a.Neg(a)
					}
					if rng.Bool() {
						c.Neg(c)
					}
				}
			case 1: // result straddles the bound: a*b/c ~ max  => c ~ a*b/max
				a, b = lib.Pick(rng, lat), randFixed(k, rng)
				p := new(big.Int).Mul(a, b)
				c = new(big.Int).Quo(p, k.Max())
				c.Add(c, big.NewInt(int64(rng.Intn(3)-1)))
			case 2: // small divisor
				c = rng.BigBetween(big.NewInt(-3), big.NewInt(3))
			case 3: // lattice operands
				a, b, c = lib.Pick(rng, lat), lib.Pick(rng, lat), lib.Pick(rng, lat)
			}
			if !k.InRange(a) || !k.InRange(b) || !k.InRange(c) {
				continue
			}
			muldiv(k, a, b, c, false)
		}
	}
	// the known division defect of the external library: fixed witnesses (always exercised) and a directed
	// search (quotients whose low 64-bit word is 2^64-2 / 2^64-1)
	f128k, u128k := KindByName("Fix128"), KindByName("UFix128")
	arith(u128k, fops[3], bi("52572240717353133641610668"), bi("2849946879909258078115628637149"), false)
	arith(f128k, fops[3], bi("3992766660831228925502767"), bi("2254669941615058148048158732"), false)
	arith(f128k, fops[3], bi("-3992766660831228925502767"), bi("2254669941615058148048158732"), false)
	muldiv(u128k, bi("333333333333333333333333"), bi("18446744073709551615"), bi("333333333333333333333334"), false)
	muldiv(f128k, bi("43002460074744656952680993475400"), bi("297265020023478846155763"), bi("-692974711640111925054066961137456971"), false)
	m64 := new(big.Int).Sub(two(64), big.NewInt(1))
	for _, k := range []NKind{f128k, u128k} {
		S := k.Factor()
		for i := 0; i < nstraddle; i++ {
			target := new(big.Int).Add(new(big.Int).Lsh(rng.BigBits(rng.Intn(60)), 64), m64)
			b := rng.BigBits(2 + rng.Intn(k.Bits-3))
			if b.Sign() == 0 {
				continue
			}
			a := new(big.Int).Quo(new(big.Int).Mul(b, target), S)
			if k.Signed && rng.Bool() {
				a.Neg(a)
			}
			if k.InRange(a) && k.InRange(b) {
				arith(k, fops[3], a, b, false)
			}
			c3, a3 := rng.BigBits(2+rng.Intn(k.Bits-3)), rng.BigBits(2+rng.Intn(k.Bits-3))
			if c3.Sign() == 0 || a3.Sign() == 0 {
				continue
			}
			b3 := new(big.Int).Quo(new(big.Int).Mul(c3, target), a3)
			if k.InRange(a3) && k.InRange(b3) && k.InRange(c3) {
				muldiv(k, a3, b3, c3, false)
			}
		}
	}
	cw.Close()
	sum.CaseFiles = cw.Files

	// scripts in both engines
	h := lib.NewHost()
	// the known defect of the unchanged tree through a script as well
	f128 := KindByName("Fix128")
	picks := []scr{{f128, fmt.Sprintf("access(all) fun main(): Fix128 { let a: Fix128 = %s; return -a }", f128.Render(f128.Min())), realNeg(f128, f128.Min())}}
	for i := 0; i < nscript; i++ {
		picks = append(picks, scripts[rng.Intn(len(scripts))])
	}
	for _, c := range picks {
		for _, vm := range []bool{false, true} {
			out := h.RunScript(c.src, nil, vm)
			sum.Evaluations++
			sum.Count(fmt.Sprintf("script vm=%v", vm))
			var got outcome
			if out.Class != "" {
				got = outcome{cls: out.Class}
			} else {
				got = outcome{z: parseNumber(out.Value.String(), c.k)}
			}
			if !got.eq(c.want) {
				sum.Fail(fmt.Sprintf("fix-script:%s:vm=%v", c.k.Name, vm),
					fmt.Sprintf("script `%s` (vm=%v) gives %s but the value method gives %s (err: %v)", c.src, vm, renderOutcome(c.k, got), renderOutcome(c.k, c.want), out.Err),
					map[string]any{"script": c.src, "vm": vm, "observed": renderOutcome(c.k, got), "value_method": renderOutcome(c.k, c.want)})
			}
		}
	}
}
