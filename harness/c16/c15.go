package main

import "cvh/lib"

func c15(sum *lib.Summary) {
	panic("C15 not built yet")
}
