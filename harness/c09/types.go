package main

import (
	"fmt"
	"regexp"
	"sort"
	"strconv"
	"strings"
)

// Ty mirrors `ty` of coq/theories/C09/Types.v.
type Ty struct {
	K    string // prim opt var const dict comp inter ref capany cap  (iface: only inside the ID parser)
	P    string // prim: Coq constructor without the leading P (e.g. "Int8", "AnyStruct", "MetaType")
	A, B *Ty    // element / key,value / referenced / borrow
	N    int    // constant size
	C    int    // composite number
	Is   []int  // interfaces
	Au   Auth
}

type Auth struct {
	Kind int // 0 unauthorized, 1 conjunction, 2 disjunction
	Es   []int
}

// Declarations: the script-local ones (S0..R1, I0..RI1) and two contracts, K and Outer, each deployed with
// identical code at 0x1 and at 0x2: distinct types with identical qualified names in different locations.
// compNames / ifaceNames are the names used in (normalised) type identifiers, compCadence / ifaceCadence the
// spelling in programs (`import K from 0x1`, `import K as K2 from 0x2`, likewise Outer / Outer2).
var compNames = []string{"S0", "S1", "S2", "R0", "R1", "K1_F", "K2_F", "K1_G", "K2_G", "K1_En", "K2_En", "Outer1_Inner", "Outer2_Inner"}
var ifaceNames = []string{"I0", "I1", "I2", "RI0", "RI1", "K1_FI", "K2_FI", "K1_GI", "K2_GI"}
var compCadence = []string{"S0", "S1", "S2", "R0", "R1", "K.F", "K2.F", "K.G", "K2.G", "K.En", "K2.En", "Outer.Inner", "Outer2.Inner"}
var ifaceCadence = []string{"I0", "I1", "I2", "RI0", "RI1", "K.FI", "K2.FI", "K.GI", "K2.GI"}

// twin: the same-named type declared at the other address
var compTwin = map[int]int{5: 6, 6: 5, 7: 8, 8: 7, 9: 10, 10: 9, 11: 12, 12: 11}

var structComps = []int{0, 1, 2, 5, 6, 9, 10, 11, 12}
var resourceComps = []int{3, 4, 7, 8}

func compIsEnum(c int) bool { return c == 9 || c == 10 }
var entNames = []string{"E0", "E1", "E2"}

// effective conformance sets, as in Cases.v D0
var compConf = map[int][]int{0: {0}, 1: {1, 0, 2}, 2: {}, 3: {3}, 4: {4, 3}, 5: {5}, 6: {6}, 7: {7}, 8: {8}}
var ifaceSupers = map[int][]int{1: {0}, 4: {3}}

func compIsResource(c int) bool  { return c == 3 || c == 4 || c == 7 || c == 8 }
func ifaceIsResource(i int) bool { return i == 3 || i == 4 || i == 7 || i == 8 }

// Cadence spelling of primitive types (Coq constructor suffix -> name)
func primName(p string) string {
	switch p {
	case "MetaType":
		return "Type"
	}
	return p
}

var primByName = map[string]string{}

var allPrims = []string{"Any", "AnyStruct", "AnyResource", "Never", "Void", "Bool", "String", "Character", "Address",
	"MetaType", "HashableStruct", "Number", "SignedNumber", "Integer", "SignedInteger", "FixedSizeUnsignedInteger",
	"FixedPoint", "SignedFixedPoint",
	"Int", "Int8", "Int16", "Int32", "Int64", "Int128", "Int256",
	"UInt", "UInt8", "UInt16", "UInt32", "UInt64", "UInt128", "UInt256",
	"Word8", "Word16", "Word32", "Word64", "Word128", "Word256",
	"Fix64", "Fix128", "UFix64", "UFix128",
	"Path", "StoragePath", "CapabilityPath", "PublicPath", "PrivatePath"}

func init() {
	for _, p := range allPrims {
		primByName[primName(p)] = p
	}
}

func prim(p string) *Ty      { return &Ty{K: "prim", P: p} }
func opt(t *Ty) *Ty          { return &Ty{K: "opt", A: t} }
func varr(t *Ty) *Ty         { return &Ty{K: "var", A: t} }
func carr(t *Ty, n int) *Ty  { return &Ty{K: "const", A: t, N: n} }
func dict(k, v *Ty) *Ty      { return &Ty{K: "dict", A: k, B: v} }
func comp(c int) *Ty         { return &Ty{K: "comp", C: c} }
func inter(is ...int) *Ty    { return &Ty{K: "inter", Is: is} }
func ref(a Auth, t *Ty) *Ty  { return &Ty{K: "ref", Au: a, A: t} }
func capAny() *Ty            { return &Ty{K: "capany"} }
func capOf(b *Ty) *Ty        { return &Ty{K: "cap", A: b} }
func unauth() Auth           { return Auth{} }
func conj(es ...int) Auth    { return Auth{1, es} }
func disj(es ...int) Auth    { return Auth{2, es} }
func (t *Ty) isPrim(p string) bool { return t.K == "prim" && t.P == p }

func (a Auth) cadence() string {
	if a.Kind == 0 {
		return ""
	}
	sep := ", "
	if a.Kind == 2 {
		sep = " | "
	}
	parts := make([]string, len(a.Es))
	for i, e := range a.Es {
		parts[i] = entNames[e]
	}
	return "auth(" + strings.Join(parts, sep) + ") "
}

func natList(xs []int) string {
	parts := make([]string, len(xs))
	for i, x := range xs {
		parts[i] = fmt.Sprintf("%d%%nat", x)
	}
	return "[" + strings.Join(parts, ";") + "]"
}

func (a Auth) coq() string {
	switch a.Kind {
	case 1:
		return "(Conj " + natList(a.Es) + ")"
	case 2:
		return "(Disj " + natList(a.Es) + ")"
	}
	return "Unauth"
}

// isResource mirrors Types.is_resource.
func (t *Ty) isResource() bool {
	switch t.K {
	case "prim":
		return t.P == "AnyResource"
	case "opt", "var", "const":
		return t.A.isResource()
	case "dict":
		return t.A.isResource() || t.B.isResource()
	case "comp":
		return compIsResource(t.C)
	case "inter":
		return len(t.Is) > 0 && ifaceIsResource(t.Is[0])
	}
	return false
}

// cadence renders the type as it is written inside a type annotation (without the leading @).
func (t *Ty) cadence() string {
	switch t.K {
	case "prim":
		return primName(t.P)
	case "opt":
		if t.A.K == "ref" {
			return "(" + t.A.cadence() + ")?"
		}
		return t.A.cadence() + "?"
	case "var":
		return "[" + t.A.cadence() + "]"
	case "const":
		return fmt.Sprintf("[%s; %d]", t.A.cadence(), t.N)
	case "dict":
		return "{" + t.A.cadence() + ": " + t.B.cadence() + "}"
	case "comp":
		return compCadence[t.C]
	case "inter":
		parts := make([]string, len(t.Is))
		for i, x := range t.Is {
			parts[i] = ifaceCadence[x]
		}
		return "{" + strings.Join(parts, ", ") + "}"
	case "ref":
		return t.Au.cadence() + "&" + t.A.cadence()
	case "capany":
		return "Capability"
	case "cap":
		return "Capability<" + t.A.cadence() + ">"
	}
	panic("bad type " + t.K)
}

// annot renders a type annotation (with @ for resource types).
func (t *Ty) annot() string {
	if t.isResource() {
		return "@" + t.cadence()
	}
	return t.cadence()
}

func (t *Ty) coq() string {
	switch t.K {
	case "prim":
		return "(TPrim P" + t.P + ")"
	case "opt":
		return "(TOpt " + t.A.coq() + ")"
	case "var":
		return "(TVar " + t.A.coq() + ")"
	case "const":
		return fmt.Sprintf("(TConst %s %d)", t.A.coq(), t.N)
	case "dict":
		return "(TDict " + t.A.coq() + " " + t.B.coq() + ")"
	case "comp":
		return fmt.Sprintf("(TComp %d%%nat)", t.C)
	case "inter":
		return "(TInter " + natList(t.Is) + ")"
	case "ref":
		return "(TRef " + t.Au.coq() + " " + t.A.coq() + ")"
	case "capany":
		return "TCapAny"
	case "cap":
		return "(TCap " + t.A.coq() + ")"
	}
	panic("bad type " + t.K)
}

// key is a canonical rendering (sets sorted) used for distinctness and type comparison in Go.
func (t *Ty) key() string {
	switch t.K {
	case "inter":
		is := append([]int{}, t.Is...)
		sort.Ints(is)
		return fmt.Sprint("{", is, "}")
	case "ref":
		es := append([]int{}, t.Au.Es...)
		sort.Ints(es)
		return fmt.Sprint("auth", t.Au.Kind, es, "&", t.A.key())
	case "opt":
		return "(" + t.A.key() + ")?"
	case "var":
		return "[" + t.A.key() + "]"
	case "const":
		return fmt.Sprintf("[%s;%d]", t.A.key(), t.N)
	case "dict":
		return "{" + t.A.key() + ":" + t.B.key() + "}"
	case "cap":
		return "Cap<" + t.A.key() + ">"
	case "comp":
		return compNames[t.C]
	case "capany":
		return "Cap"
	}
	return t.P
}

func (t *Ty) depth() int {
	d := 0
	for _, s := range []*Ty{t.A, t.B} {
		if s != nil && s.depth() > d {
			d = s.depth()
		}
	}
	return d + 1
}

// containsAuthRef: some reference type inside carries entitlements.
func (t *Ty) containsAuthRef() bool {
	if t == nil {
		return false
	}
	if t.K == "ref" && t.Au.Kind != 0 {
		return true
	}
	return t.A.containsAuthRef() || t.B.containsAuthRef()
}

func (t *Ty) containsRef() bool {
	if t == nil {
		return false
	}
	if t.K == "ref" {
		return true
	}
	return t.A.containsRef() || t.B.containsRef()
}

// ------------------------------------------------------------------ type identifier parser

var locRe = regexp.MustCompile(`s\.[0-9a-f]{64}\.`)
var addrLocRe = regexp.MustCompile(`A\.000000000000000([12])\.(K|Outer)\.`)

// norm removes script locations and turns `A.000000000000000n.K.` into `Kn_` (one identifier per type)
func norm(s string) string {
	return addrLocRe.ReplaceAllString(locRe.ReplaceAllString(s, ""), "${2}${1}_")
}

type idParser struct {
	s string
	i int
}

func (p *idParser) fail(msg string) {
	panic(fmt.Sprintf("type id parse error at %d in %q: %s", p.i, p.s, msg))
}

func (p *idParser) peek(s string) bool { return strings.HasPrefix(p.s[p.i:], s) }
func (p *idParser) eat(s string) {
	if !p.peek(s) {
		p.fail("expected " + s)
	}
	p.i += len(s)
}

func (p *idParser) name() string {
	j := p.i
	for j < len(p.s) && (p.s[j] == '_' || p.s[j] >= '0' && p.s[j] <= '9' || p.s[j] >= 'A' && p.s[j] <= 'Z' || p.s[j] >= 'a' && p.s[j] <= 'z') {
		j++
	}
	n := p.s[p.i:j]
	p.i = j
	return n
}

func indexOf(xs []string, s string) int {
	for i, x := range xs {
		if x == s {
			return i
		}
	}
	return -1
}

func (p *idParser) ty() *Ty {
	switch {
	case p.peek("("):
		p.eat("(")
		t := p.ty()
		p.eat(")?")
		return opt(t)
	case p.peek("["):
		p.eat("[")
		t := p.ty()
		if p.peek(";") {
			p.eat(";")
			j := p.i
			for j < len(p.s) && p.s[j] >= '0' && p.s[j] <= '9' {
				j++
			}
			n, _ := strconv.Atoi(p.s[p.i:j])
			p.i = j
			p.eat("]")
			return carr(t, n)
		}
		p.eat("]")
		return varr(t)
	case p.peek("{"):
		p.eat("{")
		first := p.ty()
		if p.peek(":") {
			p.eat(":")
			v := p.ty()
			p.eat("}")
			return dict(first, v)
		}
		if first.K != "iface" {
			p.fail("intersection of non-interface")
		}
		is := []int{first.C}
		for p.peek(",") {
			p.eat(",")
			n := p.ty()
			if n.K != "iface" {
				p.fail("intersection of non-interface")
			}
			is = append(is, n.C)
		}
		p.eat("}")
		return inter(is...)
	case p.peek("auth("):
		p.eat("auth(")
		a := Auth{Kind: 1}
		for {
			n := p.name()
			e := indexOf(entNames, n)
			if e < 0 {
				p.fail("unknown entitlement " + n)
			}
			a.Es = append(a.Es, e)
			if p.peek(",") {
				p.eat(",")
			} else if p.peek("|") {
				p.eat("|")
				a.Kind = 2
			} else {
				break
			}
		}
		p.eat(")&")
		return ref(a, p.ty())
	case p.peek("&"):
		p.eat("&")
		return ref(unauth(), p.ty())
	}
	n := p.name()
	if n == "Capability" {
		if p.peek("<") {
			p.eat("<")
			b := p.ty()
			p.eat(">")
			return capOf(b)
		}
		return capAny()
	}
	if c := indexOf(compNames, n); c >= 0 {
		return comp(c)
	}
	if c := indexOf(ifaceNames, n); c >= 0 {
		return &Ty{K: "iface", C: c}
	}
	if pn, ok := primByName[n]; ok {
		return prim(pn)
	}
	p.fail("unknown name " + n)
	return nil
}

// parseTypeID parses a run-time type identifier of the fragment (script location prefixes removed).
func parseTypeID(id string) (t *Ty, err error) {
	defer func() {
		if r := recover(); r != nil {
			err = fmt.Errorf("%v", r)
		}
	}()
	p := &idParser{s: norm(id)}
	t = p.ty()
	if p.i != len(p.s) {
		p.fail("trailing input")
	}
	return t, nil
}
