// Command c09: correspondence + direct-oracle harness for C09 (dynamic casts and run-time type
// tests agree). Generated value expressions x target types are evaluated as scripts in both engines:
//   x.isInstance(Type<T>()), x.getType().isSubtype(of: Type<T>()), x.getType(), x as? T, x as! T
// The observations are compared with each other (the property itself), between the engines, and
// written as Coq cases for evaluation by the model of coq/theories/C09.
package main

import (
	"flag"
	"fmt"
	"os"
	"regexp"
	"strings"

	"cvh/lib"

	"github.com/onflow/cadence"
	"github.com/onflow/cadence/common"
)

var (
	prop = flag.String("prop", "C09", "property id")
	seed = flag.Uint64("seed", 1, "seed")
	tier = flag.String("tier", "quick", "quick|thorough")
	dir  = flag.String("dir", ".", "output directory")
)

// contracts deployed with identical code at 0x1 and 0x2
const contractK = `
access(all) contract K {
  access(all) struct interface FI { access(all) let id: Int }
  access(all) struct F: FI { access(all) let id: Int; init(_ id: Int) { self.id = id } }
  access(all) resource interface GI { access(all) let id: Int }
  access(all) resource G: GI { access(all) let id: Int; init(_ id: Int) { self.id = id } }
  access(all) enum En: UInt8 { access(all) case a; access(all) case b }
  access(all) fun mkG(_ id: Int): @G { return <- create G(id) }
}`

const contractOuter = `
access(all) contract Outer {
  access(all) struct Inner { access(all) let id: Int; init(_ id: Int) { self.id = id } }
}`

func newHost() *lib.Host {
	h := lib.NewHost()
	for _, a := range []byte{1, 2} {
		addr := common.MustBytesToAddress([]byte{a})
		for _, c := range [][2]string{{"K", contractK}, {"Outer", contractOuter}} {
			if o := h.Deploy(addr, c[0], c[1], false); o.Class != "" {
				panic(fmt.Sprintf("cannot deploy %s at %v: %v", c[0], addr, o.Err))
			}
		}
	}
	return h
}

const imports = `
import K from 0x1
import K as K2 from 0x2
import Outer from 0x1
import Outer as Outer2 from 0x2
`

var usesContracts = regexp.MustCompile(`\b(K|K2|Outer|Outer2)\.`)

// withImports prepends the contract imports to the programs that mention contract members
func withImports(src string) string {
	if usesContracts.MatchString(src) {
		return imports + src
	}
	return src
}

const decls = `
access(all) entitlement E0
access(all) entitlement E1
access(all) entitlement E2
access(all) struct interface I0 { access(all) let id: Int }
access(all) struct interface I1: I0 {}
access(all) struct interface I2 {}
access(all) struct S0: I0 { access(all) let id: Int; init(_ id: Int) { self.id = id } }
access(all) struct S1: I1, I2 { access(all) let id: Int; init(_ id: Int) { self.id = id } }
access(all) struct S2 { access(all) let id: Int; init(_ id: Int) { self.id = id } }
access(all) resource interface RI0 { access(all) let id: Int }
access(all) resource interface RI1: RI0 {}
access(all) resource R0: RI0 { access(all) let id: Int; init(_ id: Int) { self.id = id } }
access(all) resource R1: RI1 { access(all) let id: Int; init(_ id: Int) { self.id = id } }
`

// one generated case
type kase struct {
	Prelude  []string
	Epilogue []string
	Expr     string // initialiser (struct-kinded) or the variable holding the resource
	S0, S    *Ty    // static type of the initialiser, declared type of x
	V0       *Val
	T        *Ty
	Resource bool
	NoExport bool // do not return x and the cast result from the script (references to resources)
	Origin   string
}

// what one engine reported
type obs struct {
	Status  string // "" ok, "static" = rejected by the checker, else error description
	Inst    bool
	Sub     bool
	TypeID  string
	CastID  string // "" = nil
	XStr    string
	CastStr string
	Force   string // type id, or "!Class"
}

func (k *kase) mainScript() string {
	var b strings.Builder
	b.WriteString(decls)
	b.WriteString("access(all) fun main(): [AnyStruct] {\n")
	for _, p := range k.Prelude {
		b.WriteString("  " + p + "\n")
	}
	tt := "Type<" + k.T.annot() + ">()"
	if k.Resource {
		fmt.Fprintf(&b, "  let x: %s <- %s\n", k.S.annot(), k.Expr)
		b.WriteString("  let res: [AnyStruct] = []\n")
		fmt.Fprintf(&b, "  res.append(x.isInstance(%s))\n", tt)
		fmt.Fprintf(&b, "  res.append(x.getType().isSubtype(of: %s))\n", tt)
		b.WriteString("  res.append(x.getType().identifier)\n")
		fmt.Fprintf(&b, "  if let y <- x as? %s {\n    res.append(y.getType().identifier)\n    destroy y\n  } else {\n    res.append(\"\")\n    destroy x\n  }\n", k.T.annot())
	} else {
		fmt.Fprintf(&b, "  let x: %s = %s\n", k.S.annot(), k.Expr)
		b.WriteString("  let res: [AnyStruct] = []\n")
		fmt.Fprintf(&b, "  res.append(x.isInstance(%s))\n", tt)
		fmt.Fprintf(&b, "  res.append(x.getType().isSubtype(of: %s))\n", tt)
		b.WriteString("  res.append(x.getType().identifier)\n")
		fmt.Fprintf(&b, "  res.append((x as? %s).getType().identifier)\n", k.T.annot())
		if k.NoExport {
			b.WriteString("  res.append(0)\n  res.append(0)\n")
		} else {
			b.WriteString("  res.append(x)\n")
			fmt.Fprintf(&b, "  res.append(x as? %s)\n", k.T.annot())
		}
	}
	for _, p := range k.Epilogue {
		b.WriteString("  " + p + "\n")
	}
	b.WriteString("  return res\n}\n")
	return withImports(b.String())
}

func (k *kase) forceScript() string {
	var b strings.Builder
	b.WriteString(decls)
	b.WriteString("access(all) fun main(): String {\n")
	for _, p := range k.Prelude {
		b.WriteString("  " + p + "\n")
	}
	if k.Resource {
		fmt.Fprintf(&b, "  let x: %s <- %s\n", k.S.annot(), k.Expr)
		fmt.Fprintf(&b, "  let y <- x as! %s\n  let id = y.getType().identifier\n  destroy y\n", k.T.annot())
	} else {
		fmt.Fprintf(&b, "  let x: %s = %s\n", k.S.annot(), k.Expr)
		if k.T.K == "ref" {
			// getType on a reference reports the referenced value's type; look at the reference through an optional
			fmt.Fprintf(&b, "  let o: %s = x as! %s\n  let id = o.getType().identifier\n", opt(k.T).annot(), k.T.annot())
		} else {
			fmt.Fprintf(&b, "  let id = (x as! %s).getType().identifier\n", k.T.annot())
		}
	}
	for _, p := range k.Epilogue {
		b.WriteString("  " + p + "\n")
	}
	b.WriteString("  return id\n}\n")
	return withImports(b.String())
}

func optStr(v cadence.Value) string {
	for {
		o, ok := v.(cadence.Optional)
		if !ok {
			break
		}
		if o.Value == nil {
			return "nil"
		}
		v = o.Value
	}
	// the cast re-types references and capabilities to the target's authorization: compare modulo `auth(...)`
	return authRe.ReplaceAllString(norm(v.String()), "")
}

var authRe = regexp.MustCompile(`auth\([^)]*\)`)

func runCase(h *lib.Host, k *kase, vm bool) (o obs) {
	r := h.RunScript(k.mainScript(), nil, vm)
	if r.Class != "" {
		if r.Class == "CheckerError" || r.Class == "ParseError" {
			o.Status = "static"
			return
		}
		o.Status = fmt.Sprintf("main script failed: %s: %v", r.Class, r.Err)
		if r.Panic != nil {
			o.Status += fmt.Sprintf(" panic=%v", r.Panic)
		}
		return
	}
	arr, ok := r.Value.(cadence.Array)
	if !ok || len(arr.Values) < 4 {
		o.Status = fmt.Sprintf("unexpected result %v", r.Value)
		return
	}
	o.Inst = bool(arr.Values[0].(cadence.Bool))
	o.Sub = bool(arr.Values[1].(cadence.Bool))
	o.TypeID = norm(string(arr.Values[2].(cadence.String)))
	cid := norm(string(arr.Values[3].(cadence.String)))
	if k.Resource {
		o.CastID = cid // type of y (already unwrapped once), "" on failure
	} else {
		if cid == "(Never)?" {
			o.CastID = ""
		} else {
			o.CastID = cid
		}
		o.XStr = optStr(arr.Values[4])
		o.CastStr = optStr(arr.Values[5])
	}
	f := h.RunScript(k.forceScript(), nil, vm)
	switch {
	case f.Class == "":
		o.Force = norm(string(f.Value.(cadence.String)))
	case f.Class == "CheckerError" || f.Class == "ParseError":
		o.Status = "static"
	default:
		o.Force = "!" + f.Class
		if f.Class != lib.ETypeMism {
			o.Force += fmt.Sprintf(" (%v)", f.Err)
		}
	}
	return
}

// ------------------------------------------------------------------ declared and target types

func (g *gen) declaredType(s0 *Ty) *Ty {
	r := g.rng
	any := prim("AnyStruct")
	if s0.isResource() {
		any = prim("AnyResource")
	}
	switch r.Intn(10) {
	case 0, 1, 2, 3:
		return any
	case 4:
		return opt(any)
	case 5:
		return opt(s0)
	case 6:
		if s0.K == "prim" {
			if sup := sortedSupers(s0.P); len(sup) > 0 {
				return prim(lib.Pick(r, sup))
			}
		}
		if s0.K == "comp" {
			if cs := compConf[s0.C]; len(cs) > 0 {
				return inter(lib.Pick(r, cs))
			}
		}
		if s0.K == "ref" && s0.A.K == "comp" {
			if cs := compConf[s0.A.C]; len(cs) > 0 {
				return ref(s0.Au, inter(lib.Pick(r, cs)))
			}
		}
	}
	return s0
}

func subsetsOf(xs []int) [][]int {
	var out [][]int
	for m := 1; m < 1<<len(xs); m++ {
		var s []int
		for i, x := range xs {
			if m&(1<<i) != 0 {
				s = append(s, x)
			}
		}
		out = append(out, s)
	}
	return out
}

func authVariants(a Auth) []Auth {
	return []Auth{a, unauth(), conj(0), conj(1), conj(0, 1), conj(0, 1, 2), conj(2), disj(0, 1), disj(1, 2), disj(0, 2)}
}

// related returns target types near the type d (mostly super- and sibling types), so that casts
// succeed about as often as they fail.
func (g *gen) related(d *Ty, depth int) []*Ty {
	any := prim("AnyStruct")
	if d.isResource() {
		any = prim("AnyResource")
	}
	out := []*Ty{d, opt(d), opt(opt(d)), any, opt(any), opt(opt(any))}
	if !d.isResource() {
		out = append(out, prim("HashableStruct"))
	}
	if depth <= 0 {
		return out
	}
	switch d.K {
	case "prim":
		for _, s := range sortedSupers(d.P) {
			out = append(out, prim(s), opt(prim(s)))
		}
		if isConcreteNum(d.P) {
			out = append(out, prim(lib.Pick(g.rng, concreteNums)), prim("Integer"), prim("SignedNumber"), prim("FixedPoint"))
		}
		if strings.HasSuffix(d.P, "Path") {
			out = append(out, prim("Path"), prim("StoragePath"), prim("CapabilityPath"), prim("PublicPath"), prim("PrivatePath"))
		}
		if d.P == "Never" {
			out = append(out, prim("Int"), prim("String"))
		}
	case "opt":
		out = append(out, d.A)
		for _, x := range g.related(d.A, depth-1) {
			out = append(out, x, opt(x))
		}
	case "var":
		for _, x := range g.related(d.A, depth-1) {
			out = append(out, varr(x))
		}
		out = append(out, carr(d.A, 2))
	case "const":
		for _, x := range g.related(d.A, depth-1) {
			out = append(out, carr(x, d.N))
		}
		out = append(out, carr(d.A, d.N+1), varr(d.A))
	case "dict":
		for _, x := range g.related(d.B, depth-1) {
			out = append(out, dict(d.A, x))
		}
		if !d.isResource() {
			out = append(out, dict(prim("HashableStruct"), d.B), dict(prim("String"), d.B), dict(prim("Int"), d.B))
		}
	case "comp":
		for _, s := range subsetsOf(compConf[d.C]) {
			out = append(out, inter(s...))
		}
		if tw, ok := compTwin[d.C]; ok {
			// the same-named type of the other location, several times: it must never be confused with d
			out = append(out, comp(tw), comp(tw), opt(comp(tw)), comp(d.C))
			for _, s := range subsetsOf(compConf[tw]) {
				out = append(out, inter(s...), inter(append(append([]int{}, s...), compConf[d.C]...)...))
			}
		} else if compIsResource(d.C) {
			out = append(out, comp(3), comp(4), inter(3), inter(4), inter(3, 4), comp(7), inter(7))
		} else {
			out = append(out, comp(0), comp(1), comp(2), inter(0), inter(1), inter(2), inter(0, 2), inter(1, 2), comp(5), inter(5), comp(11))
		}
	case "inter":
		switch {
		case len(d.Is) == 1 && d.Is[0] >= 5:
			i := d.Is[0]
			tw := i ^ 3 // 5<->6, 7<->8
			out = append(out, comp(i), comp(tw), inter(tw), inter(i, tw))
		case d.isResource():
			out = append(out, comp(3), comp(4), inter(3), inter(4), comp(7))
		default:
			out = append(out, comp(0), comp(1), comp(2), inter(0), inter(1), inter(2), inter(0, 1, 2), comp(5))
		}
	case "ref":
		inner := g.related(d.A, depth-1)
		inner = append(inner, prim("AnyStruct"))
		for _, x := range inner {
			if x.K == "opt" {
				continue // references to optionals are not types
			}
			a := lib.Pick(g.rng, authVariants(d.Au))
			out = append(out, ref(a, x), ref(d.Au, x))
		}
		for _, a := range authVariants(d.Au) {
			out = append(out, ref(a, d.A))
		}
	case "cap":
		out = append(out, capAny())
		for _, x := range g.related(d.A, depth-1) {
			if x.K == "ref" {
				out = append(out, capOf(x))
			}
		}
	case "capany":
		out = append(out, capOf(ref(unauth(), comp(0))))
	}
	return out
}

// goDyn: the dynamic type of a generated value (only used to steer target generation).
func goDyn(v *Val) *Ty {
	switch v.K {
	case "num":
		return prim(v.P)
	case "bool":
		return prim("Bool")
	case "string":
		return prim("String")
	case "char":
		return prim("Character")
	case "address":
		return prim("Address")
	case "path":
		return prim(v.Dom + "Path")
	case "type":
		return prim("MetaType")
	case "nil":
		return opt(prim("Never"))
	case "some":
		return opt(goDyn(v.R))
	case "array":
		if v.CS >= 0 {
			return carr(v.T, v.CS)
		}
		return varr(v.T)
	case "dict":
		return dict(v.T, v.T2)
	case "comp":
		return comp(v.C)
	case "ref":
		return ref(v.Au, goDyn(v.R))
	case "cap":
		return capOf(v.T)
	}
	panic(v.K)
}

// validAnnotation filters types the checker rejects in annotations.
func validAnnotation(t *Ty) bool {
	switch t.K {
	case "prim":
		return t.P != "Any"
	case "opt", "var", "const":
		return validAnnotation(t.A)
	case "dict":
		if t.A.K != "prim" || t.A.isResource() {
			return false
		}
		return validAnnotation(t.B)
	case "inter":
		if len(t.Is) == 0 {
			return false
		}
		seen := map[int]bool{}
		for _, i := range t.Is {
			if seen[i] || ifaceIsResource(i) != ifaceIsResource(t.Is[0]) {
				return false
			}
			seen[i] = true
		}
		return true
	case "ref":
		return t.A.K != "opt" && t.A.K != "ref" && validAnnotation(t.A)
	case "cap":
		return t.A.K == "ref" && validAnnotation(t.A)
	}
	return true
}

// randomType: an arbitrary type of the fragment
func (g *gen) randomType(depth int, resource bool) *Ty {
	r := g.rng
	if resource {
		switch r.Intn(8) {
		case 0:
			return prim("AnyResource")
		case 1:
			return comp(lib.Pick(r, resourceComps))
		case 2:
			return inter(lib.Pick(r, [][]int{{3}, {4}, {3, 4}, {7}, {8}})...)
		case 3:
			if depth > 0 {
				return opt(g.randomType(depth-1, true))
			}
		case 4:
			if depth > 0 {
				return varr(g.randomType(depth-1, true))
			}
		case 5:
			if depth > 0 {
				return dict(prim(lib.Pick(r, []string{"String", "Int"})), g.randomType(depth-1, true))
			}
		}
		return comp(lib.Pick(r, resourceComps))
	}
	if depth > 0 && r.Chance(1, 2) {
		return g.valueType(depth)
	}
	if r.Chance(1, 3) {
		return prim(lib.Pick(r, allPrims[1:]))
	}
	return g.simpleType(1)
}

// ------------------------------------------------------------------ case generation

func (g *gen) newCase(depth int) *kase {
	r := g.rng
	g.prelude, g.epilogue, g.resRef = nil, nil, false
	k := &kase{}
	if r.Chance(1, 6) {
		n, st, v := g.genResource()
		k.Resource = true
		k.Expr, k.S0, k.V0 = n, st, v
	} else {
		for {
			st := g.valueType(depth)
			if st.isResource() || !validAnnotation(st) {
				continue
			}
			e, v, ok := g.genOfType(st, depth)
			if !ok {
				g.prelude, g.epilogue, g.resRef = nil, nil, false
				continue
			}
			k.Expr, k.S0, k.V0 = e, st, v
			break
		}
	}
	k.S = g.declaredType(k.S0)
	// the run-time value of x (as far as target generation cares)
	d := goDyn(goBox(k.V0, k.S))
	var t *Ty
	for try := 0; ; try++ {
		if r.Chance(3, 4) {
			t = lib.Pick(r, g.related(d, 2))
			k.Origin = "related"
		} else {
			t = g.randomType(2, k.Resource)
			k.Origin = "random"
		}
		if !validAnnotation(t) {
			continue
		}
		if k.Resource != t.isResource() && try < 50 {
			continue // statically rejected: resource/non-resource casts always fail
		}
		break
	}
	k.T = t
	k.Prelude, k.Epilogue, k.NoExport = g.prelude, g.epilogue, g.resRef
	return k
}

func tyCoqFromID(id string) (string, *Ty, error) {
	t, err := parseTypeID(id)
	if err != nil {
		return "", nil, err
	}
	return t.coq(), t, nil
}

func boolCoq(b bool) string {
	if b {
		return "true"
	}
	return "false"
}

// obsCoq renders an observation record; err != nil if a type identifier is outside the fragment.
func obsCoq(k *kase, o obs) (string, error) {
	tc, _, err := tyCoqFromID(o.TypeID)
	if err != nil {
		return "", err
	}
	cast := "None"
	if o.CastID != "" {
		c, ct, err := tyCoqFromID(o.CastID)
		if err != nil {
			return "", err
		}
		if !k.Resource {
			// type of the whole `x as? T` value: (t)? ; keep t
			if ct.K != "opt" {
				return "", fmt.Errorf("failable cast result type is not optional: %s", o.CastID)
			}
			c = ct.A.coq()
		}
		cast = "(Some " + c + ")"
	}
	force := ""
	if strings.HasPrefix(o.Force, "!") {
		cls := strings.Fields(o.Force[1:])[0]
		switch cls {
		case lib.ETypeMism, lib.EInternal, lib.ECrash, lib.EUserOther:
			force = "(Err " + cls + ")"
		default:
			force = "(Err UserOther)"
		}
	} else {
		c, ft, err := tyCoqFromID(o.Force)
		if err != nil {
			return "", err
		}
		if !k.Resource && k.T.K == "ref" {
			if ft.K != "opt" {
				return "", fmt.Errorf("force cast observation is not optional: %s", o.Force)
			}
			c = ft.A.coq()
		}
		force = "(Ok " + c + ")"
	}
	return fmt.Sprintf("{| o_inst := %s; o_sub := %s; o_type := %s; o_cast := %s; o_force := %s |}",
		boolCoq(o.Inst), boolCoq(o.Sub), tc, cast, force), nil
}

func main() {
	flag.Parse()
	if *prop != "C09" {
		fmt.Fprintln(os.Stderr, "unknown prop", *prop)
		os.Exit(2)
	}
	sum := &lib.Summary{}
	run(sum)
	sum.Write(*dir)
}
