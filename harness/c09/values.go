package main

import (
	"fmt"
	"math/big"
	"strings"

	"cvh/lib"
)

// Val mirrors `value` of coq/theories/C09/Model.v.
type Val struct {
	K     string // num bool string char address path type nil some array dict comp ref cap
	P     string
	N     *big.Int
	B     bool
	S     string
	Dom   string
	T, T2 *Ty
	CS    int // constant size, -1 = variable sized
	Elems []*Val
	Keys  []*Val
	C     int
	ID    int64
	Au    Auth
	R     *Val
	Addr  int64
	CapID int64
}

func zlist(s string) string { return lib.ZList([]byte(s)) }

func (v *Val) coq() string {
	switch v.K {
	case "num":
		return "(VNum P" + v.P + " " + lib.Z(v.N) + ")"
	case "bool":
		if v.B {
			return "(VBool true)"
		}
		return "(VBool false)"
	case "string":
		return "(VString " + zlist(v.S) + ")"
	case "char":
		return "(VChar " + zlist(v.S) + ")"
	case "address":
		return fmt.Sprintf("(VAddress %d)", v.Addr)
	case "path":
		return "(VPath D" + v.Dom + " " + zlist(v.S) + ")"
	case "type":
		return "(VTypeV " + v.T.coq() + ")"
	case "nil":
		return "VNil"
	case "some":
		return "(VSome " + v.R.coq() + ")"
	case "array":
		cs := "None"
		if v.CS >= 0 {
			cs = fmt.Sprintf("(Some %d)", v.CS)
		}
		parts := make([]string, len(v.Elems))
		for i, e := range v.Elems {
			parts[i] = e.coq()
		}
		return "(VArray " + cs + " " + v.T.coq() + " [" + strings.Join(parts, ";") + "])"
	case "dict":
		parts := make([]string, len(v.Elems))
		for i, e := range v.Elems {
			parts[i] = "(" + v.Keys[i].coq() + "," + e.coq() + ")"
		}
		return "(VDict " + v.T.coq() + " " + v.T2.coq() + " [" + strings.Join(parts, ";") + "])"
	case "comp":
		return fmt.Sprintf("(VComp %d%%nat %d)", v.C, v.ID)
	case "ref":
		return "(VRef " + v.Au.coq() + " " + v.T.coq() + " " + v.R.coq() + ")"
	case "cap":
		return fmt.Sprintf("(VCap %s %d %d)", v.T.coq(), v.Addr, v.CapID)
	}
	panic("bad value " + v.K)
}

func (v *Val) isOptional() bool { return v.K == "nil" || v.K == "some" }

// goBox is BoxOptional, needed by the generator to know which value a nested `e as T?` denotes.
func goBox(v *Val, t *Ty) *Val {
	val, inner := v, v
	for t.K == "opt" {
		switch inner.K {
		case "some":
			inner = inner.R
		case "nil":
			return inner
		default:
			val = &Val{K: "some", R: val}
		}
		t = t.A
	}
	return val
}

// ------------------------------------------------------------------ generator

type gen struct {
	rng      *lib.Rng
	prelude  []string
	epilogue []string
	nvar     int
	nid      int64
	resRef   bool // the value contains a reference to a resource (cannot be exported after the resource is destroyed)
}

func (g *gen) fresh(prefix string) string {
	g.nvar++
	return fmt.Sprintf("%s%d", prefix, g.nvar)
}

func (g *gen) freshID() int64 {
	g.nid++
	return g.nid
}

var intRanges = map[string][2]int64{
	"Int": {-1000, 1000}, "Int8": {-128, 127}, "Int16": {-32768, 32767}, "Int32": {-100000, 100000},
	"Int64": {-100000, 100000}, "Int128": {-100000, 100000}, "Int256": {-100000, 100000},
	"UInt": {0, 1000}, "UInt8": {0, 255}, "UInt16": {0, 65535}, "UInt32": {0, 100000}, "UInt64": {0, 100000},
	"UInt128": {0, 100000}, "UInt256": {0, 100000},
	"Word8": {0, 255}, "Word16": {0, 65535}, "Word32": {0, 100000}, "Word64": {0, 100000},
	"Word128": {0, 100000}, "Word256": {0, 100000},
}

var concreteNums = []string{"Int", "Int8", "Int16", "Int32", "Int64", "Int128", "Int256",
	"UInt", "UInt8", "UInt16", "UInt32", "UInt64", "UInt128", "UInt256",
	"Word8", "Word16", "Word32", "Word64", "Word128", "Word256", "Fix64", "UFix64"}

// subtypes (concrete) of the abstract primitive types, for value generation
var concreteBelow = map[string][]string{
	"Number":                   concreteNums,
	"SignedNumber":             {"Int", "Int8", "Int16", "Int32", "Int64", "Int128", "Int256", "Fix64"},
	"Integer":                  concreteNums[:20],
	"SignedInteger":            concreteNums[:7],
	"FixedSizeUnsignedInteger": concreteNums[8:20],
	"FixedPoint":               {"Fix64", "UFix64"},
	"SignedFixedPoint":         {"Fix64"},
	"Path":                     {"StoragePath", "PublicPath"},
	"CapabilityPath":           {"PublicPath"},
	"HashableStruct":           {"Int", "Int8", "UInt64", "Word8", "Fix64", "UFix64", "String", "Bool", "Character", "Address", "MetaType", "StoragePath", "PublicPath"},
}

// primitive supertypes, for generation of declared and target types
var primSupers = map[string][]string{}

func init() {
	for sup, subs := range concreteBelow {
		for _, s := range subs {
			primSupers[s] = append(primSupers[s], sup)
		}
	}
	for _, l := range primSupers {
		_ = l
	}
}

func sortedSupers(p string) []string {
	// deterministic order: follow allPrims
	var out []string
	have := map[string]bool{}
	for _, s := range primSupers[p] {
		have[s] = true
	}
	for _, q := range allPrims {
		if have[q] {
			out = append(out, q)
		}
	}
	return out
}

// simpleTypes: small struct-kinded reference-free types used as referents, AnyStruct contents, type values
func (g *gen) simpleType(depth int) *Ty {
	r := g.rng
	switch r.Intn(12) {
	case 0:
		return prim(lib.Pick(r, concreteNums))
	case 1:
		return prim("Int")
	case 2:
		return prim("String")
	case 3:
		return prim(lib.Pick(r, []string{"Bool", "Character", "Address", "MetaType", "StoragePath", "PublicPath"}))
	case 4, 5:
		return comp(lib.Pick(r, structComps))
	case 6:
		if depth > 0 {
			return varr(g.simpleType(depth - 1))
		}
	case 7:
		if depth > 0 {
			return dict(prim(lib.Pick(r, []string{"Int", "String"})), g.simpleType(depth-1))
		}
	case 8:
		if depth > 0 {
			return carr(g.simpleType(depth-1), 1+r.Intn(2))
		}
	case 9:
		return inter(lib.Pick(r, [][]int{{0}, {1}, {2}, {0, 2}, {1, 2}, {5}, {6}})...)
	case 10:
		return prim(lib.Pick(r, []string{"Integer", "Number", "HashableStruct", "SignedInteger", "FixedPoint"}))
	}
	return prim("Int8")
}

func (g *gen) randAuth() Auth {
	r := g.rng
	switch r.Intn(8) {
	case 0, 1, 2:
		return unauth()
	case 3:
		return conj(r.Intn(3))
	case 4:
		return conj(0, 1)
	case 5:
		return conj(lib.Pick(r, [][]int{{1, 2}, {0, 2}, {0, 1, 2}})...)
	case 6:
		return disj(lib.Pick(r, [][]int{{0, 1}, {1, 2}, {0, 2}, {0, 1, 2}})...)
	}
	return conj(0)
}

// valueType generates the (static) type of a struct-kinded value expression.
func (g *gen) valueType(depth int) *Ty {
	r := g.rng
	if depth <= 0 {
		return g.simpleType(0)
	}
	switch r.Intn(16) {
	case 0, 1:
		return opt(g.valueType(depth - 1))
	case 2, 3:
		return varr(g.valueType(depth - 1))
	case 4:
		return carr(g.valueType(depth-1), r.Intn(3))
	case 5:
		return dict(g.keyType(), g.valueType(depth-1))
	case 6, 7, 8:
		return ref(g.randAuth(), g.referentType())
	case 9:
		return capOf(ref(g.randAuth(), g.referentType()))
	case 10:
		if r.Bool() {
			return capAny()
		}
		return prim("AnyStruct")
	case 11:
		return prim("AnyStruct")
	}
	return g.simpleType(depth)
}

func (g *gen) keyType() *Ty {
	return prim(lib.Pick(g.rng, []string{"Int", "String", "Int8", "UInt64", "Address", "HashableStruct", "Character"}))
}

// referentType: types a reference may point to in the model: reference-free, non-optional
func (g *gen) referentType() *Ty {
	r := g.rng
	switch r.Intn(10) {
	case 0:
		return prim("AnyStruct")
	case 1, 2:
		return comp(lib.Pick(r, structComps))
	case 3, 4:
		return inter(lib.Pick(r, [][]int{{0}, {1}, {2}, {0, 2}, {1, 2}, {0, 1}, {5}, {6}})...)
	case 5:
		return comp(lib.Pick(r, resourceComps)) // reference to a resource
	case 6:
		return inter(lib.Pick(r, [][]int{{3}, {4}, {3, 4}, {7}, {8}})...)
	}
	return g.simpleType(1)
}

func isConcreteNum(p string) bool {
	for _, q := range concreteNums {
		if p == q {
			return true
		}
	}
	return false
}

func (g *gen) numLiteral(p string) (string, *Val) {
	r := g.rng
	if p == "Fix64" || p == "UFix64" {
		ip := int64(r.Intn(100))
		fp := int64(r.Intn(100))
		neg := p == "Fix64" && r.Chance(1, 3)
		n := ip*100000000 + fp*1000000
		lit := fmt.Sprintf("%d.%02d", ip, fp)
		if neg && n != 0 {
			n = -n
			lit = "(-" + lit + ")"
		}
		return fmt.Sprintf("(%s as %s)", lit, p), &Val{K: "num", P: p, N: big.NewInt(n)}
	}
	rg := intRanges[p]
	var n int64
	switch r.Intn(4) {
	case 0:
		n = rg[0]
	case 1:
		n = rg[1]
	case 2:
		n = int64(r.Intn(3))
	default:
		n = rg[0] + int64(r.Intn(int(rg[1]-rg[0]+1)))
	}
	lit := fmt.Sprint(n)
	if n < 0 {
		lit = "(" + lit + ")"
	}
	return fmt.Sprintf("(%s as %s)", lit, p), &Val{K: "num", P: p, N: big.NewInt(n)}
}

// distinctKey produces the i-th distinct key literal of a concrete hashable type.
func (g *gen) distinctKey(p string, i int) (string, *Val) {
	switch p {
	case "String":
		s := fmt.Sprintf("k%d", i)
		return fmt.Sprintf("%q", s), &Val{K: "string", S: s}
	case "Character":
		s := string(rune('a' + i))
		return fmt.Sprintf("(%q as Character)", s), &Val{K: "char", S: s}
	case "Address":
		return fmt.Sprintf("(0x%x as Address)", i+1), &Val{K: "address", Addr: int64(i + 1)}
	}
	return fmt.Sprintf("(%d as %s)", i, p), &Val{K: "num", P: p, N: big.NewInt(int64(i))}
}

// conforming struct composite for an interface set
func structFor(is []int) int {
	need1 := false
	for _, i := range is {
		if i == 5 || i == 6 {
			return i
		}
		if i == 1 || i == 2 {
			need1 = true
		}
	}
	if need1 {
		return 1
	}
	return 0
}

// genOfType returns an expression whose static type is exactly t and the value it denotes.
// ok=false if no value of the type can be produced here.
func (g *gen) genOfType(t *Ty, depth int) (expr string, v *Val, ok bool) {
	r := g.rng
	switch t.K {
	case "prim":
		switch {
		case isConcreteNum(t.P):
			e, v := g.numLiteral(t.P)
			return e, v, true
		case t.P == "Bool":
			b := r.Bool()
			return fmt.Sprint(b), &Val{K: "bool", B: b}, true
		case t.P == "String":
			s := lib.Pick(r, []string{"", "a", "hello", "x y"})
			return fmt.Sprintf("%q", s), &Val{K: "string", S: s}, true
		case t.P == "Character":
			s := lib.Pick(r, []string{"a", "z", "Q"})
			return fmt.Sprintf("(%q as Character)", s), &Val{K: "char", S: s}, true
		case t.P == "Address":
			a := int64(1 + r.Intn(5))
			return fmt.Sprintf("(0x%x as Address)", a), &Val{K: "address", Addr: a}, true
		case t.P == "MetaType":
			tt := g.simpleType(1)
			return "Type<" + tt.annot() + ">()", &Val{K: "type", T: tt}, true
		case t.P == "StoragePath":
			s := lib.Pick(r, []string{"a", "foo"})
			return "/storage/" + s, &Val{K: "path", Dom: "Storage", S: s}, true
		case t.P == "PublicPath":
			s := lib.Pick(r, []string{"a", "bar"})
			return "/public/" + s, &Val{K: "path", Dom: "Public", S: s}, true
		case t.P == "AnyStruct":
			// any struct-kinded value without authorized references (assignment to AnyStruct strips those)
			for try := 0; try < 10; try++ {
				u := g.valueType(depth - 1)
				if u.containsAuthRef() || u.isResource() || u.isPrim("AnyStruct") {
					continue
				}
				if e, v, ok := g.genOfType(u, depth-1); ok {
					return "(" + e + " as AnyStruct)", v, true
				}
			}
			e, v := g.numLiteral("Int")
			return "(" + e + " as AnyStruct)", v, true
		default:
			if subs, have := concreteBelow[t.P]; have {
				u := prim(lib.Pick(r, subs))
				e, v, ok := g.genOfType(u, depth)
				if !ok {
					return "", nil, false
				}
				return "(" + e + " as " + t.cadence() + ")", v, true
			}
		}
		return "", nil, false
	case "opt":
		if r.Chance(1, 4) {
			return "(nil as " + t.cadence() + ")", &Val{K: "nil"}, true
		}
		e, v, ok := g.genOfType(t.A, depth)
		if !ok {
			return "(nil as " + t.cadence() + ")", &Val{K: "nil"}, true
		}
		return "(" + e + " as " + t.cadence() + ")", goBox(v, t), true
	case "var", "const":
		n := r.Intn(3)
		cs := -1
		if t.K == "const" {
			n = t.N
			cs = t.N
		}
		var es []string
		var vs []*Val
		for i := 0; i < n; i++ {
			e, v, ok := g.genOfType(t.A, depth-1)
			if !ok {
				if t.K == "const" {
					return "", nil, false
				}
				break
			}
			es = append(es, e)
			vs = append(vs, v)
		}
		return "([" + strings.Join(es, ", ") + "] as " + t.cadence() + ")", &Val{K: "array", CS: cs, T: t.A, Elems: vs}, true
	case "dict":
		if t.A.K != "prim" {
			return "", nil, false
		}
		n := r.Intn(3)
		if t.A.P == "Bool" && n > 1 {
			n = 1
		}
		var es []string
		v := &Val{K: "dict", T: t.A, T2: t.B}
		for i := 0; i < n; i++ {
			kp := t.A.P
			var ke string
			var kv *Val
			if kp == "HashableStruct" {
				ke, kv = g.distinctKey(lib.Pick(r, []string{"Int", "String"}), i)
				ke = "(" + ke + " as HashableStruct)"
			} else {
				ke, kv = g.distinctKey(kp, i)
			}
			e, ev, ok := g.genOfType(t.B, depth-1)
			if !ok {
				break
			}
			es = append(es, ke+": "+e)
			v.Keys = append(v.Keys, kv)
			v.Elems = append(v.Elems, ev)
		}
		body := strings.Join(es, ", ")
		if len(es) == 0 {
			body = ""
		}
		return "({" + body + "} as " + t.cadence() + ")", v, true
	case "comp":
		if compIsResource(t.C) {
			return "", nil, false
		}
		if t.C == 10 {
			// no values of K2.En: in the VM `K2.En.a` (enum case of a same-named contract imported under an
			// alias) evaluates to the 0x1 enum's case -- a defect of the unchanged tree outside this property;
			// K2.En is used as a target type only
			return "", nil, false
		}
		if compIsEnum(t.C) {
			return compCadence[t.C] + ".a", &Val{K: "comp", C: t.C, ID: 0}, true
		}
		id := g.freshID()
		return fmt.Sprintf("%s(%d)", compCadence[t.C], id), &Val{K: "comp", C: t.C, ID: id}, true
	case "inter":
		if t.isResource() {
			return "", nil, false
		}
		c := structFor(t.Is)
		id := g.freshID()
		return fmt.Sprintf("(%s(%d) as %s)", compCadence[c], id, t.cadence()), &Val{K: "comp", C: c, ID: id}, true
	case "ref":
		u := t.A
		if u.containsRef() || u.K == "opt" {
			return "", nil, false
		}
		name := g.fresh("r")
		var rv *Val
		if u.isResource() {
			// referent is a resource held in a variable that is destroyed at the end
			c := 3
			switch u.K {
			case "comp":
				c = u.C
			case "inter":
				for _, i := range u.Is {
					if i == 4 || i == 7 || i == 8 {
						c = i
					}
				}
			default:
				return "", nil, false
			}
			id := g.freshID()
			g.prelude = append(g.prelude, fmt.Sprintf("let %s <- %s", name, createExpr(c, id)))
			g.epilogue = append(g.epilogue, "destroy "+name)
			g.resRef = true
			rv = &Val{K: "comp", C: c, ID: id}
		} else {
			gu := u
			if u.isPrim("AnyStruct") {
				// a referent typed AnyStruct must not itself be a reference or nil
				gu = g.simpleType(1)
			}
			e, v, ok := g.genOfType(gu, depth-1)
			if !ok {
				return "", nil, false
			}
			if gu != u {
				e = "(" + e + " as AnyStruct)"
			}
			g.prelude = append(g.prelude, fmt.Sprintf("let %s = %s", name, e))
			rv = v
		}
		return "(&" + name + " as " + t.cadence() + ")", &Val{K: "ref", Au: t.Au, T: u, R: rv}, true
	case "cap":
		if t.A.K != "ref" {
			return "", nil, false
		}
		p := g.fresh("p")
		return fmt.Sprintf("getAccount(0x1).capabilities.get<%s>(/public/%s)", t.A.cadence(), p),
			&Val{K: "cap", T: t.A, Addr: 1, CapID: 0}, true
	case "capany":
		b := ref(g.randAuth(), comp(lib.Pick(r, structComps)))
		e, v, _ := g.genOfType(capOf(b), depth)
		return "(" + e + " as Capability)", v, true
	}
	return "", nil, false
}

// ------------------------------------------------------------------ resource-kinded values

// resShape enumerates the resource values used: each is built by a sequence of moves through
// typed variables; the last variable holds the value.
func (g *gen) genResource() (final string, st *Ty, v *Val) {
	r := g.rng
	mk := func(c int) (string, *Ty, *Val) {
		id := g.freshID()
		n := g.fresh("q")
		g.prelude = append(g.prelude, fmt.Sprintf("let %s <- %s", n, createExpr(c, id)))
		return n, comp(c), &Val{K: "comp", C: c, ID: id}
	}
	move := func(from string, t *Ty, v *Val) (string, *Val) {
		n := g.fresh("q")
		g.prelude = append(g.prelude, fmt.Sprintf("let %s: %s <- %s", n, t.annot(), from))
		return n, goBox(v, t)
	}
	c := lib.Pick(r, resourceComps)
	own := compConf[c][0] // the interface of the same declaration
	n, t, v := mk(c)
	switch r.Intn(8) {
	case 0, 1:
		// plain composite
	case 2:
		// viewed through an interface
		t = inter(own)
		if c == 4 && r.Bool() {
			t = inter(3)
		}
		n, v = move(n, t, v)
	case 3:
		t = opt(t)
		n, v = move(n, t, v)
	case 4:
		t = opt(opt(t))
		n, v = move(n, t, v)
	case 5:
		// array of resources
		n2, _, v2 := mk(c)
		et := lib.Pick(r, []*Ty{comp(c), prim("AnyResource"), inter(own)})
		an := g.fresh("q")
		g.prelude = append(g.prelude, fmt.Sprintf("let %s: @[%s] <- [<- %s, <- %s]", an, et.cadence(), n, n2))
		n, t, v = an, varr(et), &Val{K: "array", CS: -1, T: et, Elems: []*Val{v, v2}}
	case 6:
		et := lib.Pick(r, []*Ty{comp(c), prim("AnyResource"), inter(own)})
		dn := g.fresh("q")
		g.prelude = append(g.prelude, fmt.Sprintf("let %s: @{String: %s} <- {\"a\": <- %s}", dn, et.cadence(), n))
		n, t, v = dn, dict(prim("String"), et), &Val{K: "dict", T: prim("String"), T2: et, Keys: []*Val{{K: "string", S: "a"}}, Elems: []*Val{v}}
	case 7:
		// nil resource optional
		g.prelude = append(g.prelude, "destroy "+n)
		nn := g.fresh("q")
		t = opt(comp(c))
		g.prelude = append(g.prelude, fmt.Sprintf("let %s: %s <- nil", nn, t.annot()))
		n, v = nn, &Val{K: "nil"}
	}
	return n, t, v
}

func bigInt(n int64) *big.Int { return big.NewInt(n) }

// createExpr: resources of the contracts can only be created by the contract
func createExpr(c int, id int64) string {
	switch c {
	case 7:
		return fmt.Sprintf("K.mkG(%d)", id)
	case 8:
		return fmt.Sprintf("K2.mkG(%d)", id)
	}
	return fmt.Sprintf("create %s(%d)", compCadence[c], id)
}
