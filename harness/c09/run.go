package main

import (
	"fmt"
	"strings"
	"sync"

	"cvh/lib"
)

// key of the known finding: isInstance / getType on an ephemeral reference are evaluated on the
// referenced value
const keyRefForward = "isInstance-getType-forwarded-through-ephemeral-reference"

// key of the known finding: a nil resource optional cast to AnyResource fails in the interpreter
// (sema.IsSubType(Never?, AnyResource) = false) and succeeds in the VM (interpreter.IsSubType on
// static types unwraps the optional first: Never <: AnyResource)
const keyNilAnyResource = "nil-cast-to-AnyResource-interpreter-fails-vm-succeeds"

func (k *kase) describe() map[string]any {
	return map[string]any{
		"prelude": k.Prelude, "x_declared": k.S.annot(), "x_init": k.Expr, "x_init_type": k.S0.annot(),
		"target": k.T.annot(), "resource": k.Resource,
	}
}

func (k *kase) replay(oi, ov obs) map[string]any {
	m := k.describe()
	m["contracts_deployed_at_0x1_and_0x2"] = []string{contractK, contractOuter}
	m["script"] = k.mainScript()
	m["force_script"] = k.forceScript()
	m["interpreter"] = oi
	m["vm"] = ov
	return m
}

// fixed cases run first on every seed: the finding's witness and boundary shapes of the property
func corpusCases() []*kase {
	r0 := &Val{K: "comp", C: 0, ID: 1}
	s1 := &Val{K: "comp", C: 1, ID: 1}
	mk := func(prelude []string, expr string, s0, s *Ty, v *Val, t *Ty) *kase {
		return &kase{Prelude: prelude, Expr: expr, S0: s0, S: s, V0: v, T: t, Origin: "corpus"}
	}
	five := &Val{K: "num", P: "Int", N: bigInt(5)}
	kf := &Val{K: "comp", C: 5, ID: 1}
	some := func(v *Val) *Val { return &Val{K: "some", R: v} }
	refS0 := func(a Auth, b *Ty) *Val { return &Val{K: "ref", Au: a, T: b, R: r0} }
	return []*kase{
		// the finding: reference typed AnyStruct, cast to &{I0} succeeds, isInstance false
		mk([]string{"let r1 = S0(1)"}, "(&r1 as &S0)", ref(unauth(), comp(0)), prim("AnyStruct"), refS0(unauth(), comp(0)), ref(unauth(), inter(0))),
		mk([]string{"let r1 = S0(1)"}, "(&r1 as &S0)", ref(unauth(), comp(0)), ref(unauth(), comp(0)), refS0(unauth(), comp(0)), ref(unauth(), comp(0))),
		mk([]string{"let r1 = S0(1)"}, "(&r1 as auth(E0) &S0)", ref(conj(0), comp(0)), ref(conj(0), comp(0)), refS0(conj(0), comp(0)), comp(0)),
		// authorizations in casts
		mk([]string{"let r1 = S0(1)"}, "(&r1 as auth(E0) &{I0})", ref(conj(0), inter(0)), ref(conj(0), inter(0)), refS0(conj(0), inter(0)), ref(conj(0), comp(0))),
		mk([]string{"let r1 = S0(1)"}, "(&r1 as auth(E0) &{I0})", ref(conj(0), inter(0)), ref(conj(0), inter(0)), refS0(conj(0), inter(0)), ref(conj(0, 1), comp(0))),
		mk([]string{"let r1 = S0(1)"}, "(&r1 as auth(E0) &{I0})", ref(conj(0), inter(0)), ref(conj(0), inter(0)), refS0(conj(0), inter(0)), ref(disj(0, 1), comp(0))),
		mk([]string{"let r1 = S0(1)"}, "(&r1 as auth(E0, E1) &{I0})", ref(conj(0, 1), inter(0)), ref(conj(0, 1), inter(0)), refS0(conj(0, 1), inter(0)), ref(conj(1), comp(0))),
		// entitlement sets of the same kind and size that overlap only partially, inside containers
		mk([]string{"let r1 = S0(1)"}, "([(&r1 as auth(E0, E1) &S0)] as [auth(E0, E1) &S0])", varr(ref(conj(0, 1), comp(0))), varr(ref(conj(0, 1), comp(0))),
			&Val{K: "array", CS: -1, T: ref(conj(0, 1), comp(0)), Elems: []*Val{refS0(conj(0, 1), comp(0))}}, varr(ref(conj(0, 2), comp(0)))),
		mk([]string{"let r1 = S0(1)"}, "([(&r1 as auth(E0 | E1) &S0)] as [auth(E0 | E1) &S0])", varr(ref(disj(0, 1), comp(0))), varr(ref(disj(0, 1), comp(0))),
			&Val{K: "array", CS: -1, T: ref(disj(0, 1), comp(0)), Elems: []*Val{refS0(disj(0, 1), comp(0))}}, varr(ref(disj(0, 2), comp(0)))),
		mk(nil, "getAccount(0x1).capabilities.get<auth(E0, E1) &S0>(/public/pc)", capOf(ref(conj(0, 1), comp(0))), prim("AnyStruct"),
			&Val{K: "cap", T: ref(conj(0, 1), comp(0)), Addr: 1, CapID: 0}, capOf(ref(conj(1, 2), comp(0)))),
		mk(nil, "({\"a\": getAccount(0x1).capabilities.get<auth(E0, E1) &S0>(/public/pc)} as {String: Capability<auth(E0, E1) &S0>})",
			dict(prim("String"), capOf(ref(conj(0, 1), comp(0)))), dict(prim("String"), capOf(ref(conj(0, 1), comp(0)))),
			&Val{K: "dict", T: prim("String"), T2: capOf(ref(conj(0, 1), comp(0))), Keys: []*Val{{K: "string", S: "a"}}, Elems: []*Val{{K: "cap", T: ref(conj(0, 1), comp(0)), Addr: 1, CapID: 0}}},
			dict(prim("String"), capOf(ref(conj(0, 2), comp(0))))),
		// same qualified name, different location: K.F (0x1) against K2.F (0x2), directly and through
		// containers, optionals, references, intersections; resources and enums; nested contract members
		mk(nil, "K.F(1)", comp(5), prim("AnyStruct"), kf, comp(6)),
		mk(nil, "K.F(1)", comp(5), comp(5), kf, comp(6)),
		mk(nil, "K.F(1)", comp(5), prim("AnyStruct"), kf, comp(5)),
		mk(nil, "K.F(1)", comp(5), prim("AnyStruct"), kf, opt(comp(6))),
		mk(nil, "K.F(1)", comp(5), prim("AnyStruct"), kf, inter(6)),
		mk(nil, "K.F(1)", comp(5), inter(5), kf, comp(6)),
		mk(nil, "K.F(1)", comp(5), opt(comp(5)), kf, comp(6)),
		mk(nil, "([K.F(1)] as [K.F])", varr(comp(5)), prim("AnyStruct"), &Val{K: "array", CS: -1, T: comp(5), Elems: []*Val{kf}}, varr(comp(6))),
		mk(nil, "({\"a\": K.F(1)} as {String: K.F})", dict(prim("String"), comp(5)), prim("AnyStruct"),
			&Val{K: "dict", T: prim("String"), T2: comp(5), Keys: []*Val{{K: "string", S: "a"}}, Elems: []*Val{kf}}, dict(prim("String"), comp(6))),
		mk([]string{"let r1 = K.F(1)"}, "(&r1 as &K.F)", ref(unauth(), comp(5)), ref(unauth(), comp(5)), &Val{K: "ref", Au: unauth(), T: comp(5), R: kf}, ref(unauth(), comp(6))),
		mk([]string{"let r1 = K.F(1)"}, "(&r1 as &{K.FI})", ref(unauth(), inter(5)), ref(unauth(), inter(5)), &Val{K: "ref", Au: unauth(), T: inter(5), R: kf}, ref(unauth(), comp(6))),
		mk(nil, "K2.F(1)", comp(6), prim("AnyStruct"), &Val{K: "comp", C: 6, ID: 1}, comp(5)),
		mk(nil, "K.En.a", comp(9), prim("AnyStruct"), &Val{K: "comp", C: 9, ID: 0}, comp(10)),
		mk(nil, "K.En.a", comp(9), prim("HashableStruct"), &Val{K: "comp", C: 9, ID: 0}, comp(10)),
		mk(nil, "Outer.Inner(1)", comp(11), prim("AnyStruct"), &Val{K: "comp", C: 11, ID: 1}, comp(12)),
		mk(nil, "([Outer.Inner(1)] as [Outer.Inner])", varr(comp(11)), prim("AnyStruct"), &Val{K: "array", CS: -1, T: comp(11), Elems: []*Val{{K: "comp", C: 11, ID: 1}}}, varr(comp(12))),
		{Prelude: []string{"let q1 <- K.mkG(1)"}, Expr: "q1", S0: comp(7), S: prim("AnyResource"), V0: &Val{K: "comp", C: 7, ID: 1}, T: comp(8), Resource: true, Origin: "corpus"},
		{Prelude: []string{"let q1 <- K.mkG(1)"}, Expr: "q1", S0: comp(7), S: comp(7), V0: &Val{K: "comp", C: 7, ID: 1}, T: comp(8), Resource: true, Origin: "corpus"},
		{Prelude: []string{"let q1 <- K.mkG(1)", "let q2: @{K.GI} <- q1"}, Expr: "q2", S0: inter(7), S: inter(7), V0: &Val{K: "comp", C: 7, ID: 1}, T: comp(8), Resource: true, Origin: "corpus"},
		{Prelude: []string{"let q1 <- K.mkG(1)", "let q2: @[K.G] <- [<- q1]"}, Expr: "q2", S0: varr(comp(7)), S: prim("AnyResource"), V0: &Val{K: "array", CS: -1, T: comp(7), Elems: []*Val{{K: "comp", C: 7, ID: 1}}}, T: varr(comp(8)), Resource: true, Origin: "corpus"},
		{Prelude: []string{"let q1 <- K.mkG(1)", "let q2: @K.G? <- q1"}, Expr: "q2", S0: opt(comp(7)), S: opt(comp(7)), V0: &Val{K: "some", R: &Val{K: "comp", C: 7, ID: 1}}, T: comp(8), Resource: true, Origin: "corpus"},
		// optionals: unwrapping, the AnyStruct exception, boxing
		mk(nil, "((5 as Int) as Int??)", opt(opt(prim("Int"))), prim("AnyStruct"), some(some(five)), prim("Int")),
		mk(nil, "((5 as Int) as Int??)", opt(opt(prim("Int"))), prim("AnyStruct"), some(some(five)), opt(prim("Int"))),
		mk(nil, "((5 as Int) as Int??)", opt(opt(prim("Int"))), prim("AnyStruct"), some(some(five)), opt(opt(opt(prim("Int"))))),
		mk(nil, "((5 as Int) as Int??)", opt(opt(prim("Int"))), prim("AnyStruct"), some(some(five)), prim("AnyStruct")),
		mk(nil, "((5 as Int) as Int??)", opt(opt(prim("Int"))), prim("AnyStruct"), some(some(five)), opt(prim("AnyStruct"))),
		mk(nil, "((5 as Int) as Int??)", opt(opt(prim("Int"))), prim("AnyStruct"), some(some(five)), opt(prim("String"))),
		mk(nil, "(nil as Int??)", opt(opt(prim("Int"))), prim("AnyStruct"), &Val{K: "nil"}, opt(prim("String"))),
		mk(nil, "(nil as Int??)", opt(opt(prim("Int"))), prim("AnyStruct"), &Val{K: "nil"}, prim("String")),
		mk(nil, "(nil as Int??)", opt(opt(prim("Int"))), prim("AnyStruct"), &Val{K: "nil"}, prim("AnyStruct")),
		mk(nil, "(5 as Int)", prim("Int"), prim("AnyStruct"), five, opt(opt(prim("Integer")))),
		// arrays: dynamic vs static element type
		mk(nil, "([(5 as Int)] as [Int])", varr(prim("Int")), varr(prim("AnyStruct")), &Val{K: "array", CS: -1, T: prim("Int"), Elems: []*Val{five}}, varr(prim("Int"))),
		mk(nil, "([(5 as Int)] as [AnyStruct])", varr(prim("AnyStruct")), prim("AnyStruct"), &Val{K: "array", CS: -1, T: prim("AnyStruct"), Elems: []*Val{five}}, varr(prim("Int"))),
		mk(nil, "([(5 as Int)] as [Int])", varr(prim("Int")), prim("AnyStruct"), &Val{K: "array", CS: -1, T: prim("Int"), Elems: []*Val{five}}, varr(prim("Integer"))),
		// composites and intersections
		mk(nil, "S1(1)", comp(1), prim("AnyStruct"), s1, inter(0)),
		mk(nil, "S1(1)", comp(1), prim("AnyStruct"), s1, inter(0, 2)),
		mk(nil, "S1(1)", comp(1), inter(0), s1, comp(1)),
		mk(nil, "S1(1)", comp(1), inter(0), s1, comp(0)),
		// nil resource optional against AnyResource (finding) and against an optional target
		{Prelude: []string{"let q1: @R0? <- nil"}, Expr: "q1", S0: opt(comp(3)), S: opt(comp(3)), V0: &Val{K: "nil"}, T: prim("AnyResource"), Resource: true, Origin: "corpus"},
		{Prelude: []string{"let q1: @R0? <- nil"}, Expr: "q1", S0: opt(comp(3)), S: opt(comp(3)), V0: &Val{K: "nil"}, T: opt(prim("AnyResource")), Resource: true, Origin: "corpus"},
		{Prelude: []string{"let q1: @R0? <- nil"}, Expr: "q1", S0: opt(comp(3)), S: opt(comp(3)), V0: &Val{K: "nil"}, T: opt(comp(4)), Resource: true, Origin: "corpus"},
		{Prelude: []string{"let q1 <- create R1(1)", "let q2: @R1? <- q1"}, Expr: "q2", S0: opt(comp(4)), S: prim("AnyResource"), V0: &Val{K: "some", R: &Val{K: "comp", C: 4, ID: 1}}, T: inter(3), Resource: true, Origin: "corpus"},
	}
}

func run(sum *lib.Summary) {
	rng := lib.NewRng(*seed)
	g := &gen{rng: rng}
	cw := &lib.CaseWriter{
		Dir: *dir, Prefix: "cases_C09",
		Header:   "From CV Require Import C09.Cases.",
		ElemType: "bool * ty * ty * value * ty * obs * obs",
		CheckFn:  "check_case",
		PerFile:  120,
	}
	n := 1000
	if *tier == "thorough" {
		n = 8000
	}
	sum.Rule = "generated value expressions (numbers of all integer kinds and fixed point, strings, characters, bools, addresses, paths, " +
		"type values, nil / nested optionals, variable- and constant-sized arrays and dictionaries with static element types, struct and " +
		"resource composites conforming to interfaces (script-local ones, and the members struct / resource / interfaces / enum of two contracts deployed with identical code at two addresses, i.e. distinct types with identical qualified names), ephemeral references with authorizations (incl. references to resources, arrays), " +
		"capabilities) bound to a variable of a declared type (exact, AnyStruct/AnyResource, optional, interface / numeric supertype), " +
		"x a target type (3/4 derived from the value's run-time type: itself, optionals of it, super/sibling types, changed element types, " +
		"changed authorizations, intersections; 1/4 arbitrary). Each case runs two scripts in both engines. " +
		"non-trivial = the target is neither the value's run-time type nor AnyStruct/AnyResource; distinct = distinct (declared type, value shape, target)"
	distinct := map[string]bool{}
	cases := corpusCases()
	ncorpus := len(cases)
	for i := 0; i < n; i++ {
		cases = append(cases, g.newCase(2+rng.Intn(2)))
	}
	// the scripts are independent: run them on 4 hosts, results are consumed in case order
	const workers = 4
	ois := make([]obs, len(cases))
	ovs := make([]obs, len(cases))
	var wg sync.WaitGroup
	for w := 0; w < workers; w++ {
		wg.Add(1)
		go func(w int) {
			defer wg.Done()
			h := newHost()
			for i := w; i < len(cases); i += workers {
				ois[i] = runCase(h, cases[i], false)
				ovs[i] = runCase(h, cases[i], true)
			}
		}(w)
	}
	wg.Wait()
	for idx, k := range cases {
		oi, ov := ois[idx], ovs[idx]
		sum.Evaluations++
		if oi.Status == "static" || ov.Status == "static" {
			if oi.Status != ov.Status {
				sum.Fail("engine-diff:static", "checker accepts the program in one engine only", k.replay(oi, ov))
			}
			sum.Count("rejected-by-checker")
			if idx < ncorpus {
				sum.Fail("corpus-case-rejected", "a fixed corpus case no longer type-checks", k.replay(oi, ov))
			}
			continue
		}
		if oi.Status != "" || ov.Status != "" {
			sum.Fail("script-failed", "script failed: "+oi.Status+" / "+ov.Status, k.replay(oi, ov))
			sum.Count("script-failed")
			continue
		}
		x := goBox(k.V0, k.S)
		d := goDyn(x)
		kind := x.K
		if k.Resource {
			kind = "resource-" + kind
		}
		sum.Count("value:" + kind)
		sum.Count("target:" + k.T.K)
		sum.Count("origin:" + k.Origin)
		castOK := oi.CastID != ""
		if castOK {
			sum.Count("cast-succeeds")
		} else {
			sum.Count("cast-fails")
		}
		dk := k.S.key() + " | " + goDyn(k.V0).key() + " | " + k.T.key()
		if !(k.T.key() == d.key() || k.T.isPrim("AnyStruct") || k.T.isPrim("AnyResource")) && !distinct[dk] {
			distinct[dk] = true
			sum.DistinctNontrivial++
		}
		if idx%97 == 0 {
			sum.Sample(map[string]any{"x": k.S.annot() + " = " + k.Expr, "target": k.T.annot(), "as?": oi.CastID, "isInstance": oi.Inst, "isSubtype": oi.Sub, "as!": oi.Force})
		}

		// ---- engines agree on every observation
		// (the exported text of a dictionary lists the entries in an engine-dependent order: not compared)
		ci2, cv2 := oi, ov
		ci2.XStr, ci2.CastStr, cv2.XStr, cv2.CastStr = "", "", "", ""
		if ci2 != cv2 {
			key := "engine-diff"
			if x.K == "nil" && k.T.isPrim("AnyResource") && oi.CastID == "" && ov.CastID != "" &&
				oi.Inst == ov.Inst && oi.Sub == ov.Sub && oi.TypeID == ov.TypeID {
				key = keyNilAnyResource
			}
			sum.Fail(key, fmt.Sprintf("interpreter and VM disagree on x: %s = %s, target %s: interpreter %+v, VM %+v",
				k.S.annot(), k.Expr, k.T.annot(), oi, ov), k.replay(oi, ov))
		}
		for ei, o := range []obs{oi, ov} {
			eng := []string{"interpreter", "vm"}[ei]
			ok := o.CastID != ""
			// ---- as! fails (with a type mismatch) exactly when as? yields nil
			forceFailed := strings.HasPrefix(o.Force, "!")
			if forceFailed && !strings.HasPrefix(o.Force, "!"+lib.ETypeMism) {
				sum.Fail("force-cast-error-class", eng+": `as!` failed with "+o.Force, k.replay(oi, ov))
			}
			nilObservedAsFailure := k.Resource && x.K == "nil" // `if let` cannot tell Some(nil) from nil
			if forceFailed == ok && !nilObservedAsFailure {
				sum.Fail("force-vs-failable", fmt.Sprintf("%s: as? gives %q but as! gives %q", eng, o.CastID, o.Force), k.replay(oi, ov))
			}
			// ---- a successful cast yields the original value
			if ok && !k.Resource && o.XStr != o.CastStr {
				sum.Fail("cast-changes-value", fmt.Sprintf("%s: x = %s but (x as? T) = %s", eng, o.XStr, o.CastStr), k.replay(oi, ov))
			}
			// ---- first sentence of the property: non-optional values that are not storage references
			if !x.isOptional() {
				if o.Inst != o.Sub {
					sum.Fail("isInstance-vs-getType", fmt.Sprintf("%s: isInstance=%v but getType().isSubtype=%v", eng, o.Inst, o.Sub), k.replay(oi, ov))
				}
				if ok != o.Inst {
					key := "cast-vs-isInstance"
					if x.K == "ref" {
						key = keyRefForward
					}
					sum.Fail(key, fmt.Sprintf("%s: `x as? %s` succeeds=%v but x.isInstance(Type<%s>())=%v, x.getType()=%s (x: %s = %s)",
						eng, k.T.annot(), ok, k.T.annot(), o.Inst, o.TypeID, k.S.annot(), k.Expr), k.replay(oi, ov))
				}
			}
		}

		// ---- Coq case
		ci, err1 := obsCoq(k, oi)
		cv, err2 := obsCoq(k, ov)
		if err1 != nil || err2 != nil {
			sum.Fail("type-id-outside-fragment", fmt.Sprintf("cannot parse an observed type identifier: %v %v", err1, err2), k.replay(oi, ov))
			continue
		}
		desc := k.describe()
		desc["interpreter"] = oi
		desc["vm"] = ov
		cw.Add(fmt.Sprintf("(%s, %s, %s, %s, %s,\n  %s,\n  %s)", boolCoq(k.Resource), k.S0.coq(), k.S.coq(), k.V0.coq(), k.T.coq(), ci, cv), desc)
	}
	cw.Close()
	sum.CaseFiles = cw.Files
}
