package main

import (
	"fmt"
	"strings"

	"cvh/lib"

	"github.com/onflow/cadence"
	"github.com/onflow/cadence/common"
	"github.com/onflow/cadence/interpreter"
	"github.com/onflow/cadence/runtime"
	"github.com/onflow/cadence/sema"
)

// ---------------------------------------------------------------------------------------------
// nominal types

const (
	NStruct = iota
	NResource
	NContract
	NEnum
	NEvent
	NAttachment
	NStructIface
	NResourceIface
	NContractIface
	NEnt
	NMap
)

var nomKindNames = []string{"struct", "resource", "contract", "enum", "event", "attachment",
	"struct interface", "resource interface", "contract interface", "entitlement", "entitlement mapping"}
var coqKinds = []string{"KStruct", "KResource", "KContract", "KEnum", "KEvent", "KAttachment", "KStruct", "KResource", "KContract"}

var compositeKinds = []common.CompositeKind{common.CompositeKindStructure, common.CompositeKindResource, common.CompositeKindContract,
	common.CompositeKindEnum, common.CompositeKindEvent, common.CompositeKindAttachment,
	common.CompositeKindStructure, common.CompositeKindResource, common.CompositeKindContract}

type Nom struct {
	Loc  Loc
	QID  string
	Kind int
	sema sema.Type // *CompositeType / *InterfaceType / *EntitlementType / *EntitlementMapType
}

func (n *Nom) CoqNominal() string {
	return fmt.Sprintf("{| n_loc := %s; n_qid := %s |}", n.Loc.Coq(), zstr(n.QID))
}

func (n *Nom) String() string {
	return fmt.Sprintf("%s %s@%s", nomKindNames[n.Kind], n.QID, n.Loc)
}

type World struct {
	Noms   []*Nom
	ByKind map[int][]*Nom
	Elab   *sema.Elaboration
	Inter  *interpreter.Interpreter
	Prims  []sema.Type
}

// container builds the chain of container types for a qualified identifier "A.B.C": C contained
// in B contained in contract A.
func (w *World) build(n *Nom) {
	parts := strings.Split(n.QID, ".")
	var container sema.Type
	for i, p := range parts[:len(parts)-1] {
		_ = i
		c := &sema.CompositeType{Location: n.Loc.Real(), Identifier: p, Kind: common.CompositeKindContract, Members: &sema.StringMemberOrderedMap{}}
		if container != nil {
			c.SetContainerType(container)
		}
		container = c
	}
	id := parts[len(parts)-1]
	loc := n.Loc.Real()
	switch {
	case n.Kind <= NAttachment:
		t := &sema.CompositeType{Location: loc, Identifier: id, Kind: compositeKinds[n.Kind], Members: &sema.StringMemberOrderedMap{}}
		if container != nil {
			t.SetContainerType(container)
		}
		n.sema = t
		w.Elab.SetCompositeType(t.ID(), t)
	case n.Kind <= NContractIface:
		t := &sema.InterfaceType{Location: loc, Identifier: id, CompositeKind: compositeKinds[n.Kind], Members: &sema.StringMemberOrderedMap{}}
		if container != nil {
			t.SetContainerType(container)
		}
		n.sema = t
		w.Elab.SetInterfaceType(t.ID(), t)
	case n.Kind == NEnt:
		t := sema.NewEntitlementType(nil, loc, id)
		if container != nil {
			t.SetContainerType(container)
		}
		n.sema = t
		w.Elab.SetEntitlementType(t.ID(), t)
	default:
		t := sema.NewEntitlementMapType(nil, loc, id)
		if container != nil {
			t.SetContainerType(container)
		}
		n.sema = t
		w.Elab.SetEntitlementMapType(t.ID(), t)
	}
}

func NewWorld(rng *lib.Rng) *World {
	w := &World{ByKind: map[int][]*Nom{}, Elab: sema.NewElaboration(nil)}
	seen := map[string]bool{}
	// nominal types of every kind at every location kind (no nil location: built-in composites only)
	for kind := 0; kind <= NMap; kind++ {
		for lk := LAddress; lk <= LREPL; lk++ {
			for rep := 0; rep < 2; rep++ {
				qid := randQID(rng)
				l := randLoc(rng, lk, firstPiece(qid))
				if (lk == LString || lk == LIdentifier) && l.S == "" {
					l.S = "x"
				}
				n := &Nom{Loc: l, QID: qid, Kind: kind}
				key := string(common.NewTypeIDFromQualifiedName(nil, l.Real(), qid))
				if seen[key] {
					continue
				}
				seen[key] = true
				w.build(n)
				w.Noms = append(w.Noms, n)
				w.ByKind[kind] = append(w.ByKind[kind], n)
			}
		}
	}
	inter, err := interpreter.NewInterpreter(nil, common.AddressLocation{}, &interpreter.Config{
		CompositeTypeHandler: func(location common.Location, typeID interpreter.TypeID) *sema.CompositeType {
			return w.Elab.CompositeType(typeID)
		},
		ImportLocationHandler: func(inter *interpreter.Interpreter, location common.Location) interpreter.Import {
			return interpreter.VirtualImport{Elaboration: w.Elab}
		},
	})
	if err != nil {
		panic(err)
	}
	w.Inter = inter
	for ty := interpreter.PrimitiveStaticType(1); ty < interpreter.PrimitiveStaticType_Count; ty++ {
		if !ty.IsDefined() || ty.IsDeprecated() { //nolint:staticcheck
			continue
		}
		var st sema.Type
		func() {
			defer func() { _ = recover() }()
			st = ty.SemaType()
		}()
		if st == nil || st == sema.InvalidType || st == sema.StorableType {
			continue
		}
		w.Prims = append(w.Prims, st)
	}
	return w
}

// ---------------------------------------------------------------------------------------------
// types

const (
	TPrim = iota
	TOpt
	TVar
	TConst
	TDict
	TRef
	TInter
	TComp
	TIface
	TCap
	TFun
	TRange
)

var tyKindNames = []string{"primitive", "optional", "variable array", "constant array", "dictionary", "reference", "intersection",
	"composite", "interface", "capability", "function", "range"}

type Auth struct {
	K    int // 0 unauth, 1 conj, 2 disj, 3 map
	Ents []*Nom
	Map  *Nom
}

type TParam struct {
	Name  string
	Bound *Ty
}

type Ty struct {
	K       int
	Prim    sema.Type
	A, B    *Ty
	N       int64
	Auth    Auth
	Noms    []*Nom
	Nom     *Nom
	View    bool
	TParams []TParam
	Params  []*Ty
}

func (w *World) gen(r *lib.Rng, depth int) *Ty {
	if depth <= 0 || r.Chance(1, 4) {
		switch r.Intn(4) {
		case 0:
			return &Ty{K: TComp, Nom: lib.Pick(r, w.ByKind[r.Intn(NAttachment+1)])}
		case 1:
			return &Ty{K: TIface, Nom: lib.Pick(r, w.ByKind[NStructIface+r.Intn(3)])}
		default:
			return &Ty{K: TPrim, Prim: lib.Pick(r, w.Prims)}
		}
	}
	switch r.Intn(11) {
	case 0:
		return &Ty{K: TOpt, A: w.gen(r, depth-1)}
	case 1:
		return &Ty{K: TVar, A: w.gen(r, depth-1)}
	case 2:
		return &Ty{K: TConst, A: w.gen(r, depth-1), N: lib.Pick(r, []int64{0, 1, 2, 9, 10, 255, 1 << 31, 1<<62 + 12345, 9223372036854775807})}
	case 3:
		return &Ty{K: TDict, A: w.gen(r, depth-1), B: w.gen(r, depth-1)}
	case 4, 5:
		a := Auth{K: r.Intn(4)}
		switch a.K {
		case 1, 2:
			n := 1 + r.Intn(3)
			seen := map[*Nom]bool{}
			for len(a.Ents) < n {
				e := lib.Pick(r, w.ByKind[NEnt])
				if !seen[e] {
					seen[e] = true
					a.Ents = append(a.Ents, e)
				}
			}
		case 3:
			a.Map = lib.Pick(r, w.ByKind[NMap])
		}
		return &Ty{K: TRef, Auth: a, A: w.gen(r, depth-1)}
	case 6:
		n := 1 + r.Intn(3)
		t := &Ty{K: TInter}
		seen := map[*Nom]bool{}
		for len(t.Noms) < n {
			e := lib.Pick(r, w.ByKind[NStructIface+r.Intn(3)])
			if !seen[e] {
				seen[e] = true
				t.Noms = append(t.Noms, e)
			}
		}
		return t
	case 7:
		if r.Chance(1, 5) {
			return &Ty{K: TCap}
		}
		return &Ty{K: TCap, A: w.gen(r, depth-1)}
	case 8, 9:
		t := &Ty{K: TFun, View: r.Bool(), A: w.gen(r, depth-1)}
		for i, n := 0, r.Intn(4); i < n; i++ {
			t.Params = append(t.Params, w.gen(r, depth-1))
		}
		if r.Chance(1, 4) {
			for i, n := 0, 1+r.Intn(2); i < n; i++ {
				tp := TParam{Name: randIdent(r)}
				if r.Bool() {
					tp.Bound = w.gen(r, depth-2)
				}
				t.TParams = append(t.TParams, tp)
			}
		}
		return t
	default:
		return &Ty{K: TRange, A: &Ty{K: TPrim, Prim: lib.Pick(r, []sema.Type{sema.IntType, sema.Int8Type, sema.UInt64Type, sema.Word256Type, sema.UInt8Type})}}
	}
}

func (t *Ty) Sema() sema.Type {
	switch t.K {
	case TPrim:
		return t.Prim
	case TOpt:
		return &sema.OptionalType{Type: t.A.Sema()}
	case TVar:
		return &sema.VariableSizedType{Type: t.A.Sema()}
	case TConst:
		return &sema.ConstantSizedType{Type: t.A.Sema(), Size: t.N}
	case TDict:
		return &sema.DictionaryType{KeyType: t.A.Sema(), ValueType: t.B.Sema()}
	case TRef:
		var a sema.Access = sema.UnauthorizedAccess
		switch t.Auth.K {
		case 1, 2:
			var es []*sema.EntitlementType
			for _, e := range t.Auth.Ents {
				es = append(es, e.sema.(*sema.EntitlementType))
			}
			k := sema.Conjunction
			if t.Auth.K == 2 {
				k = sema.Disjunction
			}
			a = sema.NewEntitlementSetAccess(es, k)
		case 3:
			a = sema.NewEntitlementMapAccess(t.Auth.Map.sema.(*sema.EntitlementMapType))
		}
		return &sema.ReferenceType{Type: t.A.Sema(), Authorization: a}
	case TInter:
		var is []*sema.InterfaceType
		for _, n := range t.Noms {
			is = append(is, n.sema.(*sema.InterfaceType))
		}
		return &sema.IntersectionType{Types: is}
	case TComp, TIface:
		return t.Nom.sema
	case TCap:
		if t.A == nil {
			return &sema.CapabilityType{}
		}
		return &sema.CapabilityType{BorrowType: t.A.Sema()}
	case TFun:
		f := &sema.FunctionType{ReturnTypeAnnotation: sema.TypeAnnotation{Type: t.A.Sema()}}
		if t.View {
			f.Purity = sema.FunctionPurityView
		}
		for _, tp := range t.TParams {
			p := &sema.TypeParameter{Name: tp.Name}
			if tp.Bound != nil {
				p.TypeBound = tp.Bound.Sema()
			}
			f.TypeParameters = append(f.TypeParameters, p)
		}
		for i, p := range t.Params {
			f.Parameters = append(f.Parameters, sema.Parameter{Identifier: fmt.Sprintf("p%d", i), TypeAnnotation: sema.TypeAnnotation{Type: p.Sema()}})
		}
		return f
	}
	return &sema.InclusiveRangeType{MemberType: t.A.Sema()}
}

func coqOpt(t *Ty) string {
	if t == nil {
		return "None"
	}
	return "(Some " + t.Coq() + ")"
}

func (t *Ty) Coq() string {
	switch t.K {
	case TPrim:
		return "(SPrim " + zstr(string(t.Prim.ID())) + ")"
	case TOpt:
		return "(SOpt " + t.A.Coq() + ")"
	case TVar:
		return "(SVar " + t.A.Coq() + ")"
	case TConst:
		return fmt.Sprintf("(SConst %s %d)", t.A.Coq(), t.N)
	case TDict:
		return "(SDict " + t.A.Coq() + " " + t.B.Coq() + ")"
	case TRef:
		a := "SUnauth"
		switch t.Auth.K {
		case 1, 2:
			var es []string
			for _, e := range t.Auth.Ents {
				es = append(es, e.CoqNominal())
			}
			a = fmt.Sprintf("(SSet %v [%s])", t.Auth.K == 1, strings.Join(es, "; "))
		case 3:
			a = "(SMap " + t.Auth.Map.CoqNominal() + ")"
		}
		return "(SRef " + a + " " + t.A.Coq() + ")"
	case TInter:
		var is []string
		for _, n := range t.Noms {
			is = append(is, fmt.Sprintf("(%s, %s)", coqKinds[n.Kind], n.CoqNominal()))
		}
		return "(SInter [" + strings.Join(is, "; ") + "])"
	case TComp:
		return fmt.Sprintf("(SComp %s %s)", coqKinds[t.Nom.Kind], t.Nom.CoqNominal())
	case TIface:
		return fmt.Sprintf("(SIface %s %s)", coqKinds[t.Nom.Kind], t.Nom.CoqNominal())
	case TCap:
		return "(SCap " + coqOpt(t.A) + ")"
	case TFun:
		var tps, ps []string
		for _, tp := range t.TParams {
			tps = append(tps, fmt.Sprintf("(%s, %s)", zstr(tp.Name), coqOpt(tp.Bound)))
		}
		for _, p := range t.Params {
			ps = append(ps, p.Coq())
		}
		return fmt.Sprintf("(SFun %v [%s] [%s] %s)", t.View, strings.Join(tps, "; "), strings.Join(ps, "; "), t.A.Coq())
	}
	return "(SRange " + t.A.Coq() + ")"
}

func (t *Ty) hasKind(f func(*Ty) bool) bool {
	if t == nil {
		return false
	}
	if f(t) {
		return true
	}
	if t.A.hasKind(f) || t.B.hasKind(f) {
		return true
	}
	for _, p := range t.Params {
		if p.hasKind(f) {
			return true
		}
	}
	for _, p := range t.TParams {
		if p.Bound.hasKind(f) {
			return true
		}
	}
	return false
}

// importable mirrors the Coq predicate: no attachment and no function type anywhere
func (t *Ty) importable() bool {
	return !t.hasKind(func(x *Ty) bool { return x.K == TFun || (x.K == TComp && x.Nom.Kind == NAttachment) })
}

func typeCases(sum *lib.Summary, rng *lib.Rng) {
	w := NewWorld(rng)
	cw := &lib.CaseWriter{Dir: *dir, Prefix: "cases_C45_types", Header: "From CV Require Import C45.Cases.",
		ElemType: "type_case", CheckFn: "check_type", PerFile: 250}
	n := 500
	if *tier == "thorough" {
		n = 8000
	}
	var types []*Ty
	// every primitive type and every nominal type once, then generated types
	for _, p := range w.Prims {
		types = append(types, &Ty{K: TPrim, Prim: p})
	}
	for _, nm := range w.Noms {
		switch {
		case nm.Kind <= NAttachment:
			types = append(types, &Ty{K: TComp, Nom: nm})
		case nm.Kind <= NContractIface:
			types = append(types, &Ty{K: TIface, Nom: nm}, &Ty{K: TInter, Noms: []*Nom{nm}})
		case nm.Kind == NEnt:
			types = append(types, &Ty{K: TRef, Auth: Auth{K: 1, Ents: []*Nom{nm}}, A: &Ty{K: TPrim, Prim: sema.IntType}})
		default:
			types = append(types, &Ty{K: TRef, Auth: Auth{K: 3, Map: nm}, A: &Ty{K: TPrim, Prim: sema.IntType}})
		}
	}
	for i := 0; i < n; i++ {
		types = append(types, w.gen(rng, 1+i%4))
	}
	for _, t := range types {
		st := t.Sema()
		var semaID, staticID, cadenceID string
		var static interpreter.StaticType
		var exported cadence.Type
		desc := map[string]any{"type": st.String()}
		cls, rec := lib.Catch(func() {
			semaID = string(st.ID())
			static = interpreter.ConvertSemaToStaticType(nil, st)
			staticID = string(static.ID())
			exported = runtime.ExportType(st, map[sema.TypeID]cadence.Type{})
			cadenceID = exported.ID()
		})
		sum.Evaluations += 3
		kind := tyKindNames[t.K]
		sum.Count("type " + kind)
		if t.K != TPrim {
			sum.DistinctNontrivial++
		}
		if cls != "" {
			sum.Fail("id-panic:"+kind, fmt.Sprintf("computing the IDs of %s panics: %v", st, rec), desc)
			continue
		}
		desc["sema_id"], desc["static_id"], desc["cadence_id"] = semaID, staticID, cadenceID
		if semaID != staticID {
			sum.Fail("id:sema-vs-static:"+kind, fmt.Sprintf("%s: checker ID %q, static type ID %q", st, semaID, staticID), desc)
		}
		if semaID != cadenceID {
			sum.Fail("id:sema-vs-exported:"+kind, fmt.Sprintf("%s: checker ID %q, exported type ID %q", st, semaID, cadenceID), desc)
		}
		// checker -> run-time -> checker
		sum.Evaluations++
		cls, rec = lib.Catch(func() {
			back, err := interpreter.ConvertStaticToSemaType(w.Inter, static)
			if err != nil {
				sum.Fail("roundtrip-error:"+kind, fmt.Sprintf("%s: converting the static type back fails: %v", st, err), desc)
				return
			}
			if !back.Equal(st) || !st.Equal(back) || back.ID() != st.ID() {
				sum.Fail("roundtrip:"+kind, fmt.Sprintf("%s converted to a static type and back is %s (not equal)", st, back), desc)
			}
		})
		if cls != "" {
			sum.Fail("roundtrip-panic:"+kind, fmt.Sprintf("%s: converting the static type back panics: %v", st, rec), desc)
		}
		// export -> import
		sum.Evaluations++
		importCls := ""
		cls, rec = lib.Catch(func() {
			imp := runtime.ImportType(nil, exported)
			if !imp.Equal(static) || imp.ID() != static.ID() {
				sum.Fail("import:"+kind, fmt.Sprintf("%s: ImportType(ExportType(t)) = %s differs from the static type %s", st, imp, static), desc)
			}
		})
		if cls != "" {
			importCls = lib.ECrash
			switch {
			case t.hasKind(func(x *Ty) bool { return x.K == TComp && x.Nom.Kind == NAttachment }):
				sum.Count("import panics: attachment type")
				sum.Fail("import-panic:attachment", fmt.Sprintf("runtime.ImportType(runtime.ExportType(%s)) panics: %v", st, rec), desc)
			case t.hasKind(func(x *Ty) bool { return x.K == TFun }):
				// function types are not importable (values of function type cannot be passed in): expected
				sum.Count("import panics: function type (not importable by design)")
			default:
				sum.Fail("import-panic:"+kind, fmt.Sprintf("runtime.ImportType(runtime.ExportType(%s)) panics: %v", st, rec), desc)
			}
		}
		if (importCls == "") != t.importable() {
			sum.Fail("import-domain:"+kind, fmt.Sprintf("%s: import panics=%v but the model predicts importable=%v", st, importCls != "", t.importable()), desc)
		}
		cw.Add(fmt.Sprintf("(%s, %s, %s, %s, %v)", t.Coq(), zstr(semaID), zstr(staticID), zstr(cadenceID), importCls == ""), desc)
		if len(sum.Samples) < 8 && t.K != TPrim {
			sum.Sample(map[string]string{"type": st.String(), "id": semaID})
		}
	}
	cw.Close()
	sum.CaseFiles = append(sum.CaseFiles, cw.Files...)
}
