package main

import (
	"fmt"
	"sort"
	"strings"

	"cvh/lib"

	"github.com/onflow/cadence"
	"github.com/onflow/cadence/common"
)

// Run-time type constructors (OptionalType, VariableSizedArrayType, ..., ReferenceType,
// IntersectionType, CapabilityType, InclusiveRangeType, CompositeType, FunctionType) against the
// type written directly: scripts in both engines.

const ctorContract = `
access(all) contract C {
    access(all) entitlement E
    access(all) entitlement F
    access(all) entitlement G
    access(all) struct interface SI {}
    access(all) struct interface SJ {}
    access(all) resource interface RI {}
    access(all) resource interface RJ {}
    access(all) struct S: SI, SJ {}
    access(all) resource R: RI, RJ {}
    access(all) enum En: UInt8 { access(all) case a }
}
`

const cPrefix = "A.0000000000000001.C."

// CT: a type of the script-level fragment
type CT struct {
	K      int // TPrim TOpt TVar TConst TDict TRef TInter TComp TCap TFun TRange
	Name   string
	A, B   *CT
	N      int64
	Ents   []string // entitlement names (conjunction)
	Ifaces []string
	Res    bool
	Params []*CT
}

func (t *CT) isRes() bool {
	switch t.K {
	case TPrim:
		return t.Name == "AnyResource"
	case TOpt, TVar, TConst:
		return t.A.isRes()
	case TDict:
		return t.B.isRes()
	case TComp, TInter:
		return t.Res
	}
	return false
}

// src: Cadence syntax of the type (without the leading @)
func (t *CT) src() string {
	switch t.K {
	case TPrim:
		return t.Name
	case TOpt:
		if t.A.K == TFun || t.A.K == TRef {
			return "(" + t.A.src() + ")?"
		}
		return t.A.src() + "?"
	case TVar:
		return "[" + t.A.src() + "]"
	case TConst:
		return fmt.Sprintf("[%s; %d]", t.A.src(), t.N)
	case TDict:
		return "{" + t.A.src() + ": " + t.B.src() + "}"
	case TRef:
		inner := t.A.src()
		if t.A.K == TOpt || t.A.K == TFun || t.A.K == TRef {
			inner = "(" + inner + ")"
		}
		if len(t.Ents) == 0 {
			return "&" + inner
		}
		var es []string
		for _, e := range t.Ents {
			es = append(es, "C."+e)
		}
		return "auth(" + strings.Join(es, ", ") + ") &" + inner
	case TInter:
		var is []string
		for _, i := range t.Ifaces {
			is = append(is, "C."+i)
		}
		return "{" + strings.Join(is, ", ") + "}"
	case TComp:
		return "C." + t.Name
	case TCap:
		return "Capability<" + t.A.src() + ">"
	case TFun:
		var ps []string
		for _, p := range t.Params {
			ps = append(ps, p.annot())
		}
		return "fun(" + strings.Join(ps, ", ") + "): " + t.A.annot()
	}
	return "InclusiveRange<" + t.A.src() + ">"
}

func (t *CT) annot() string {
	if t.isRes() {
		return "@" + t.src()
	}
	return t.src()
}

func strLits(prefix string, names []string) string {
	var out []string
	for _, n := range names {
		out = append(out, fmt.Sprintf("%q", prefix+n))
	}
	return "[" + strings.Join(out, ", ") + "]"
}

// ctor: expression building the same type through the run-time type constructors
func (t *CT) ctor() string {
	switch t.K {
	case TPrim:
		return "Type<" + t.annot() + ">()"
	case TOpt:
		return "OptionalType(" + t.A.ctor() + ")"
	case TVar:
		return "VariableSizedArrayType(" + t.A.ctor() + ")"
	case TConst:
		return fmt.Sprintf("ConstantSizedArrayType(type: %s, size: %d)", t.A.ctor(), t.N)
	case TDict:
		return "DictionaryType(key: " + t.A.ctor() + ", value: " + t.B.ctor() + ")!"
	case TRef:
		return "ReferenceType(entitlements: " + strLits(cPrefix, t.Ents) + ", type: " + t.A.ctor() + ")!"
	case TInter:
		return "IntersectionType(types: " + strLits(cPrefix, t.Ifaces) + ")!"
	case TComp:
		return fmt.Sprintf("CompositeType(%q)!", cPrefix+t.Name)
	case TCap:
		return "CapabilityType(" + t.A.ctor() + ")!"
	case TFun:
		var ps []string
		for _, p := range t.Params {
			ps = append(ps, p.ctor())
		}
		return "FunctionType(parameters: [" + strings.Join(ps, ", ") + "], return: " + t.A.ctor() + ")"
	}
	return "InclusiveRangeType(" + t.A.ctor() + ")!"
}

// id: the expected type ID, written out independently of the implementation under test
func (t *CT) id() string {
	switch t.K {
	case TPrim:
		return t.Name
	case TOpt:
		return "(" + t.A.id() + ")?"
	case TVar:
		return "[" + t.A.id() + "]"
	case TConst:
		return fmt.Sprintf("[%s;%d]", t.A.id(), t.N)
	case TDict:
		return "{" + t.A.id() + ":" + t.B.id() + "}"
	case TRef:
		if len(t.Ents) == 0 {
			return "&" + t.A.id()
		}
		var es []string
		for _, e := range t.Ents {
			es = append(es, cPrefix+e)
		}
		sort.Strings(es)
		return "auth(" + strings.Join(es, ",") + ")&" + t.A.id()
	case TInter:
		var is []string
		for _, i := range t.Ifaces {
			is = append(is, cPrefix+i)
		}
		sort.Strings(is)
		return "{" + strings.Join(is, ",") + "}"
	case TComp:
		return cPrefix + t.Name
	case TCap:
		return "Capability<" + t.A.id() + ">"
	case TFun:
		var ps []string
		for _, p := range t.Params {
			ps = append(ps, p.id())
		}
		return "fun(" + strings.Join(ps, ",") + "):" + t.A.id()
	}
	return "InclusiveRange<" + t.A.id() + ">"
}

func pickSubset(r *lib.Rng, names []string, n int) []string {
	perm := append([]string{}, names...)
	for i := len(perm) - 1; i > 0; i-- {
		j := r.Intn(i + 1)
		perm[i], perm[j] = perm[j], perm[i]
	}
	return perm[:n]
}

// noOpt: the referenced type of a reference must not be an optional
func noOpt(t *CT) *CT {
	for t.K == TOpt {
		t = t.A
	}
	return t
}

// noFun: function types are not nested inside function types here
func noFun(t *CT) *CT {
	if t.K == TFun {
		return &CT{K: TPrim, Name: "Int"}
	}
	switch t.K {
	case TOpt, TVar, TConst, TRef, TCap:
		return &CT{K: t.K, A: noFun(t.A), N: t.N, Ents: t.Ents}
	case TDict:
		return &CT{K: TDict, A: t.A, B: noFun(t.B)}
	}
	return t
}

func genCT(r *lib.Rng, depth int, wantStruct bool) *CT {
	if depth <= 0 || r.Chance(1, 4) {
		switch r.Intn(5) {
		case 0:
			return &CT{K: TComp, Name: "S"}
		case 1:
			if !wantStruct {
				return &CT{K: TComp, Name: "R", Res: true}
			}
			return &CT{K: TComp, Name: "En"}
		case 2:
			if !wantStruct && r.Bool() {
				return &CT{K: TInter, Ifaces: pickSubset(r, []string{"RI", "RJ"}, 1+r.Intn(2)), Res: true}
			}
			return &CT{K: TInter, Ifaces: pickSubset(r, []string{"SI", "SJ"}, 1+r.Intn(2))}
		default:
			return &CT{K: TPrim, Name: lib.Pick(r, []string{"Int", "String", "Bool", "UInt8", "Address", "AnyStruct", "Int256", "UFix64", "Path", "Character", "Void"})}
		}
	}
	switch r.Intn(9) {
	case 0:
		return &CT{K: TOpt, A: genCT(r, depth-1, wantStruct)}
	case 1:
		return &CT{K: TVar, A: genCT(r, depth-1, wantStruct)}
	case 2:
		return &CT{K: TConst, A: genCT(r, depth-1, wantStruct), N: lib.Pick(r, []int64{0, 1, 3, 256})}
	case 3:
		return &CT{K: TDict, A: &CT{K: TPrim, Name: lib.Pick(r, []string{"String", "Int", "Address", "UInt8", "Bool"})}, B: genCT(r, depth-1, wantStruct)}
	case 4, 5:
		return &CT{K: TRef, Ents: pickSubset(r, []string{"E", "F", "G"}, r.Intn(4)), A: noOpt(genCT(r, depth-1, false))}
	case 6:
		return &CT{K: TCap, A: &CT{K: TRef, Ents: pickSubset(r, []string{"E", "F", "G"}, r.Intn(3)), A: noOpt(genCT(r, depth-2, false))}}
	case 7:
		t := &CT{K: TFun, A: noFun(genCT(r, depth-1, true))}
		for i, n := 0, r.Intn(3); i < n; i++ {
			t.Params = append(t.Params, noFun(genCT(r, depth-1, true)))
		}
		return t
	default:
		return &CT{K: TRange, A: &CT{K: TPrim, Name: lib.Pick(r, []string{"Int", "UInt8", "Int256", "Word64"})}}
	}
}

func constructorCases(sum *lib.Summary, rng *lib.Rng) {
	h := lib.NewHost()
	addr := common.MustBytesToAddress([]byte{1})
	if o := h.Deploy(addr, "C", ctorContract, false); o.Err != nil {
		sum.Fail("constructors-deploy", fmt.Sprintf("cannot deploy the declaration contract: %v", o.Err), map[string]any{"contract": ctorContract})
		return
	}
	n := 40
	if *tier == "thorough" {
		n = 600
	}
	var types []*CT
	// one of every constructor deterministically, then generated
	s := &CT{K: TComp, Name: "S"}
	types = append(types,
		&CT{K: TOpt, A: s}, &CT{K: TVar, A: s}, &CT{K: TConst, A: s, N: 3}, &CT{K: TDict, A: &CT{K: TPrim, Name: "String"}, B: s},
		&CT{K: TRef, A: s}, &CT{K: TRef, Ents: []string{"F", "E"}, A: s}, &CT{K: TRef, Ents: []string{"G", "E", "F"}, A: &CT{K: TComp, Name: "R", Res: true}},
		&CT{K: TInter, Ifaces: []string{"SJ", "SI"}}, &CT{K: TInter, Ifaces: []string{"SI"}}, &CT{K: TInter, Ifaces: []string{"RJ", "RI"}, Res: true},
		&CT{K: TCap, A: &CT{K: TRef, Ents: []string{"E"}, A: s}}, &CT{K: TRange, A: &CT{K: TPrim, Name: "Int"}},
		s, &CT{K: TComp, Name: "R", Res: true}, &CT{K: TComp, Name: "En"},
		&CT{K: TFun, A: &CT{K: TPrim, Name: "Void"}}, &CT{K: TFun, A: &CT{K: TPrim, Name: "Int"}, Params: []*CT{s, &CT{K: TOpt, A: &CT{K: TPrim, Name: "String"}}}},
	)
	for i := 0; i < n; i++ {
		types = append(types, genCT(rng, 1+i%3, rng.Bool()))
	}
	for _, t := range types {
		src := fmt.Sprintf("import C from 0x01\naccess(all) fun main(): [String] {\n  let a = %s;\n  let b = Type<%s>();\n  return [a == b ? \"eq\" : \"ne\", a.identifier, b.identifier]\n}",
			t.ctor(), t.annot())
		want := t.id()
		for _, vm := range []bool{false, true} {
			sum.Evaluations++
			sum.Count(fmt.Sprintf("constructor %s vm=%v", tyKindNames[t.K], vm))
			o := h.RunScript(src, nil, vm)
			desc := map[string]any{"script": src, "vm": vm, "expected_id": want}
			if o.Err != nil || o.Panic != nil {
				sum.Fail("constructor-run:"+tyKindNames[t.K], fmt.Sprintf("script fails (vm=%v): %v %v", vm, o.Err, o.Panic), desc)
				continue
			}
			arr, ok := o.Value.(cadence.Array)
			if !ok || len(arr.Values) != 3 {
				sum.Fail("constructor-run:"+tyKindNames[t.K], fmt.Sprintf("unexpected result %v", o.Value), desc)
				continue
			}
			eq, ida, idb := string(arr.Values[0].(cadence.String)), string(arr.Values[1].(cadence.String)), string(arr.Values[2].(cadence.String))
			desc["constructed_id"], desc["written_id"], desc["equal"] = ida, idb, eq
			if eq != "eq" || ida != idb || ida != want {
				sum.Fail("constructor:"+tyKindNames[t.K],
					fmt.Sprintf("%s (vm=%v): constructed type %q, written type %q, == gives %s, expected ID %q", t.annot(), vm, ida, idb, eq, want), desc)
			}
		}
		sum.DistinctNontrivial++
	}
}
