// Command c45: C45 "type identity is preserved across representations".
// Generates locations, qualified identifiers and types; runs the real type-ID printers of the
// three representations, the conversions between them, the type-ID decoder and the run-time type
// constructors; compares them with each other and writes Coq case files for the model.
package main

import (
	"flag"
	"fmt"
	"os"
	"strings"

	"cvh/lib"

	"github.com/onflow/cadence"
	"github.com/onflow/cadence/common"
	"github.com/onflow/cadence/interpreter"
	"github.com/onflow/cadence/runtime"
	"github.com/onflow/cadence/sema"
)

var (
	prop = flag.String("prop", "C45", "property id")
	seed = flag.Uint64("seed", 1, "seed")
	tier = flag.String("tier", "quick", "quick|thorough")
	dir  = flag.String("dir", ".", "output directory")
)

// ---------------------------------------------------------------------------------------------
// locations

const (
	LNone = iota
	LAddress
	LString
	LIdentifier
	LTransaction
	LScript
	LREPL
)

var locKindNames = []string{"none", "address", "string", "identifier", "transaction", "script", "repl"}

type Loc struct {
	K    int
	Addr [8]byte
	Name string
	S    string
	ID   [32]byte
}

func (l Loc) Real() common.Location {
	switch l.K {
	case LNone:
		return nil
	case LAddress:
		return common.AddressLocation{Address: common.Address(l.Addr), Name: l.Name}
	case LString:
		return common.StringLocation(l.S)
	case LIdentifier:
		return common.IdentifierLocation(l.S)
	case LTransaction:
		return common.TransactionLocation(l.ID)
	case LScript:
		return common.ScriptLocation(l.ID)
	}
	return common.REPLLocation{}
}

func zbytes(b []byte) string {
	parts := make([]string, len(b))
	for i, x := range b {
		parts[i] = fmt.Sprint(x)
	}
	return "[" + strings.Join(parts, ";") + "]"
}

func zstr(s string) string { return zbytes([]byte(s)) }

func (l Loc) Coq() string {
	switch l.K {
	case LNone:
		return "LNone"
	case LAddress:
		return fmt.Sprintf("(LAddress %s %s)", zbytes(l.Addr[:]), zstr(l.Name))
	case LString:
		return fmt.Sprintf("(LString %s)", zstr(l.S))
	case LIdentifier:
		return fmt.Sprintf("(LIdentifier %s)", zstr(l.S))
	case LTransaction:
		return fmt.Sprintf("(LTransaction %s)", zbytes(l.ID[:]))
	case LScript:
		return fmt.Sprintf("(LScript %s)", zbytes(l.ID[:]))
	}
	return "LREPL"
}

func (l Loc) String() string {
	switch l.K {
	case LNone:
		return "<nil>"
	case LAddress:
		return fmt.Sprintf("AddressLocation{%x,%q}", l.Addr, l.Name)
	case LString:
		return fmt.Sprintf("StringLocation(%q)", l.S)
	case LIdentifier:
		return fmt.Sprintf("IdentifierLocation(%q)", l.S)
	case LTransaction:
		return fmt.Sprintf("TransactionLocation(%x)", l.ID)
	case LScript:
		return fmt.Sprintf("ScriptLocation(%x)", l.ID)
	}
	return "REPLLocation"
}

// observed real location -> Loc
func fromReal(l common.Location) (Loc, bool) {
	switch l := l.(type) {
	case nil:
		return Loc{K: LNone}, true
	case common.AddressLocation:
		return Loc{K: LAddress, Addr: [8]byte(l.Address), Name: l.Name}, true
	case common.StringLocation:
		return Loc{K: LString, S: string(l)}, true
	case common.IdentifierLocation:
		return Loc{K: LIdentifier, S: string(l)}, true
	case common.TransactionLocation:
		return Loc{K: LTransaction, ID: [32]byte(l)}, true
	case common.ScriptLocation:
		return Loc{K: LScript, ID: [32]byte(l)}, true
	case common.REPLLocation:
		return Loc{K: LREPL}, true
	}
	return Loc{}, false
}

const identStart = "ABCDEFGHIJKLMNOPQRSTUVWXYZabcdefghijklmnopqrstuvwxyz_"
const identRest = identStart + "0123456789"

var trickyIdents = []string{"A", "S", "I", "t", "s", "REPL", "a", "T", "_", "A0", "Crypto", "FungibleToken", "x1"}

func randIdent(r *lib.Rng) string {
	if r.Chance(1, 5) {
		return lib.Pick(r, trickyIdents)
	}
	n := 1 + r.Intn(8)
	b := make([]byte, n)
	b[0] = identStart[r.Intn(len(identStart))]
	for i := 1; i < n; i++ {
		b[i] = identRest[r.Intn(len(identRest))]
	}
	return string(b)
}

func randBytes(r *lib.Rng, b []byte) {
	switch r.Intn(6) {
	case 0: // all zero
	case 1:
		for i := range b {
			b[i] = 0xff
		}
	case 2:
		b[len(b)-1] = byte(1 + r.Intn(255))
	default:
		for i := range b {
			b[i] = byte(r.Intn(256))
		}
	}
}

// randLoc: valid locations (wf_loc holds when the qualified identifier starts with Name)
func randLoc(r *lib.Rng, kind int, firstIdent string) Loc {
	l := Loc{K: kind}
	switch kind {
	case LAddress:
		randBytes(r, l.Addr[:])
		l.Name = firstIdent
	case LString, LIdentifier:
		l.S = randIdent(r)
		if r.Chance(1, 6) {
			l.S = lib.Pick(r, []string{"", "test", "Crypto", "foo-bar", "a b", "ünï"})
		}
	case LTransaction, LScript:
		randBytes(r, l.ID[:])
	}
	return l
}

func randQID(r *lib.Rng) string {
	n := 1 + r.Intn(3)
	parts := make([]string, n)
	for i := range parts {
		parts[i] = randIdent(r)
	}
	return strings.Join(parts, ".")
}

func firstPiece(s string) string {
	if i := strings.IndexByte(s, '.'); i >= 0 {
		return s[:i]
	}
	return s
}

var registered = map[string]bool{"A": true, "S": true, "I": true, "t": true, "s": true, "REPL": true}

// wfLoc mirrors the Coq predicate wf_loc
func wfLoc(l Loc, qid string) bool {
	switch l.K {
	case LNone:
		return !registered[firstPiece(qid)]
	case LAddress:
		return l.Name == firstPiece(qid)
	case LString, LIdentifier:
		return !strings.Contains(l.S, ".")
	}
	return true
}

func coqResLocQid(cls string, l Loc, qid string) string {
	if cls != "" {
		return "(Err " + cls + ")"
	}
	return fmt.Sprintf("(Ok (%s, %s))", l.Coq(), zstr(qid))
}

func decodeReal(id string) (cls string, l Loc, qid string) {
	c, _ := lib.Catch(func() {
		loc, q, err := common.DecodeTypeID(nil, id)
		if err != nil {
			cls = lib.EUserOther
			return
		}
		var ok bool
		l, ok = fromReal(loc)
		if !ok {
			cls = lib.EInternal
			return
		}
		qid = q
	})
	if c != "" {
		cls = c
	}
	return
}

// ---------------------------------------------------------------------------------------------

func main() {
	flag.Parse()
	sum := &lib.Summary{}
	rng := lib.NewRng(*seed)
	sum.Rule = "decode: (location, qualified identifier) pairs over all 7 location kinds with random identifiers/addresses (valid and adversarial: dotted string/identifier " +
		"locations, contract name differing from the first identifier, identifiers colliding with location prefixes) plus malformed type IDs; " +
		"types: generated checker types (depth <= 4) over nominal types at all location kinds: all primitive types, optionals, arrays, dictionaries, references with " +
		"unauthorized / conjunction / disjunction (1-3 entitlements, any order) / mapping authorizations, intersections of 1-3 interfaces in any order, composites of every kind, " +
		"interfaces, capabilities, functions (view, type parameters with bounds), inclusive ranges; constructors: scripts in both engines. " +
		"non-trivial = type cases with at least one type constructor or nominal type, decode cases with a location"
	decodeCases(sum, rng)
	typeCases(sum, rng)
	constructorCases(sum, rng)
	sum.Write(*dir)
}

func decodeCases(sum *lib.Summary, rng *lib.Rng) {
	cw := &lib.CaseWriter{Dir: *dir, Prefix: "cases_C45_decode", Header: "From CV Require Import C45.Cases.",
		ElemType: "decode_case", CheckFn: "check_decode", PerFile: 600}
	n := 400
	if *tier == "thorough" {
		n = 6000
	}
	add := func(l Loc, qid string, adversarial bool) {
		sum.Evaluations++
		var id string
		cls, _ := lib.Catch(func() { id = string(common.NewTypeIDFromQualifiedName(nil, l.Real(), qid)) })
		if cls != "" {
			sum.Fail("encode-panic:"+locKindNames[l.K], fmt.Sprintf("TypeID panics for %s %q", l, qid), map[string]any{"location": l.String(), "qid": qid})
			return
		}
		dcls, dl, dq := decodeReal(id)
		sum.Count("decode " + locKindNames[l.K])
		if l.K != LNone {
			sum.DistinctNontrivial++
		}
		same := dcls == "" && dl == l && dq == qid
		if wfLoc(l, qid) {
			if !same {
				sum.Fail("decode:"+locKindNames[l.K], fmt.Sprintf("type ID %q built from %s and %q decodes to %s %q (err class %q)", id, l, qid, dl, dq, dcls),
					map[string]any{"location": l.String(), "qid": qid, "type_id": id, "decoded_location": dl.String(), "decoded_qid": dq, "error": dcls})
			}
		} else if !same {
			switch {
			case (l.K == LString || l.K == LIdentifier) && strings.Contains(l.S, "."):
				sum.Count("decode not inverted: dotted " + locKindNames[l.K] + " location")
				sum.Fail("decode:dotted-"+locKindNames[l.K]+"-location",
					fmt.Sprintf("type ID %q built from %s and %q decodes to %s and %q", id, l, qid, dl, dq),
					map[string]any{"location": l.String(), "qid": qid, "type_id": id, "decoded_location": dl.String(), "decoded_qid": dq, "error": dcls})
			default:
				// contract name not derivable from the ID / identifier colliding with a location prefix:
				// outside the property's reach (the ID does not carry the information); only the model is compared
				sum.Count("decode not inverted (by construction): " + locKindNames[l.K])
			}
		}
		cw.Add(fmt.Sprintf("DEnc %s %s %s %s", l.Coq(), zstr(qid), zstr(id), coqResLocQid(dcls, dl, dq)),
			map[string]any{"kind": "encode+decode", "location": l.String(), "qid": qid, "type_id": id, "decoded": fmt.Sprintf("%s %q %s", dl, dq, dcls)})
		if len(sum.Samples) < 4 {
			sum.Sample(map[string]string{"location": l.String(), "qid": qid, "type_id": id})
		}
	}
	for i := 0; i < n; i++ {
		qid := randQID(rng)
		if rng.Chance(1, 25) {
			qid = ""
		}
		k := i % 7
		add(randLoc(rng, k, firstPiece(qid)), qid, false)
	}
	// adversarial, deterministic
	for _, s := range []string{"foo.cdc", "a.b", ".", "x.", ".y", "A.B.C"} {
		for _, q := range []string{"C", "C.T", ""} {
			add(Loc{K: LString, S: s}, q, true)
			add(Loc{K: LIdentifier, S: s}, q, true)
		}
	}
	for _, q := range []string{"C", "C.T", "", "Other.C"} {
		add(Loc{K: LAddress, Addr: [8]byte{0, 0, 0, 0, 0, 0, 1, 2}, Name: "Other"}, q, true)
	}
	for _, q := range []string{"S", "A.B", "I.x.y", "t", "s.00", "REPL", "REPL.x", "PublicKey", "Account.Storage"} {
		add(Loc{K: LNone}, q, true)
	}
	// malformed / arbitrary type IDs: only the decoder
	raw := []string{"", "A", "A.", "A.zz.C", "A.0102", "A.0102.C", "A.0102.C.D.E", "A.000000000000000001.C", "A.00000000000000000102.C",
		"A.1.C", "A.0000000000000001", "A.0000000000000001.", "A.ABCDEF.C", "S", "S.", "S.x", "S..y", "I", "I.a", "I.a.b.c", "t", "t.zz.C", "t.0102.C",
		"t." + strings.Repeat("ab", 32) + ".C", "t." + strings.Repeat("ab", 40) + ".C.D", "s.0", "s.00", "s.00.X.Y", "REPL", "REPL.", "REPL.a.b", "X.Y.Z", ".", "..", ".A", "Int", "a b.c"}
	for i := 0; i < n/4; i++ {
		// random mutations of valid IDs
		qid := randQID(rng)
		l := randLoc(rng, 1+rng.Intn(6), firstPiece(qid))
		id := []byte(common.NewTypeIDFromQualifiedName(nil, l.Real(), qid))
		if len(id) > 0 {
			switch rng.Intn(4) {
			case 0:
				id[rng.Intn(len(id))] = '.'
			case 1:
				p := rng.Intn(len(id))
				id = append(id[:p], id[p+1:]...)
			case 2:
				id[rng.Intn(len(id))] = "gZ.0"[rng.Intn(4)]
			default:
				id = id[:rng.Intn(len(id)+1)]
			}
		}
		raw = append(raw, string(id))
	}
	for _, id := range raw {
		sum.Evaluations++
		dcls, dl, dq := decodeReal(id)
		if dcls == lib.ECrash || dcls == lib.EInternal {
			sum.Fail("decode-crash", fmt.Sprintf("DecodeTypeID(%q) fails with class %s", id, dcls), map[string]any{"type_id": id, "class": dcls})
		}
		sum.Count("decode raw")
		cw.Add(fmt.Sprintf("DRaw %s %s", zstr(id), coqResLocQid(dcls, dl, dq)),
			map[string]any{"kind": "decode", "type_id": id, "decoded": fmt.Sprintf("%s %q %s", dl, dq, dcls)})
	}
	cw.Close()
	sum.CaseFiles = append(sum.CaseFiles, cw.Files...)
}

var _ = cadence.String("")
var _ = interpreter.PrimitiveStaticTypeInt
var _ = runtime.ExportType
var _ = sema.IntType
var _ = os.Exit
