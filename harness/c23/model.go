package main

import (
	"fmt"
	"sort"
	"strings"
)

// ---- histories: JSON-serialisable so that corpus files and replays are self-contained ----

type Key struct {
	A int `json:"a"` // account 1..
	P int `json:"p"` // storage path /storage/p<P>
}

func (k Key) String() string { return fmt.Sprintf("%d/p%d", k.A, k.P) }

// Node is a composite value (id, pad, arr, dict) of type C.R (resource) or C.S (struct).
type Node struct {
	ID   int     `json:"id"`
	Pad  int     `json:"pad"`
	Arr  []*Node `json:"arr,omitempty"`
	Dict []KV    `json:"dict,omitempty"`
}

type KV struct {
	K int   `json:"k"`
	V *Node `json:"v"`
}

// Hop descends from a composite to a nested composite: an element of its arr or an entry of its dict.
type Hop struct {
	Arr bool `json:"arr"`
	I   int  `json:"i"` // array position or dictionary key
}

const (
	FPad      = 0  // the pad leaf (large strings live in slabs of their own)
	FArr      = 1  // an element of arr
	FDict     = 2  // an entry of dict
	FWholeArr = 11 // the whole arr field
	FWholeDic = 12 // the whole dict field
)

type Disp struct {
	Kind  string `json:"kind"` // destroy | save | insert
	K     Key    `json:"k"`
	Hops  []Hop  `json:"hops,omitempty"`
	Field int    `json:"field,omitempty"` // FArr | FDict
	I     int    `json:"i,omitempty"`     // position / key
}

type Op struct {
	Kind  string `json:"kind"` // save | remove | copy | put | del | fail | cdeploy | cremove (contract D<I> of account K.A, size V.Pad)
	K     Key    `json:"k"`
	K2    Key    `json:"k2"`
	Res   bool   `json:"res"` // static kind of the value at K (and of V): resource C.R or struct C.S
	Hops  []Hop  `json:"hops,omitempty"`
	Field int    `json:"field,omitempty"`
	Ins   bool   `json:"ins,omitempty"`
	I     int    `json:"i,omitempty"` // position / key
	V     *Node  `json:"v,omitempty"`
	D     Disp   `json:"d"`
}

type Tx struct {
	Ops []Op `json:"ops"`
}

type History struct {
	Name string `json:"name"`
	VM   bool   `json:"vm"`
	// Validate: run with runtime.Config{AtreeValidationEnabled: true} (the runtime then checks health itself
	// after commit); false = production configuration
	Validate bool `json:"validate"`
	Txs      []Tx `json:"txs"`
}

func (n *Node) clone() *Node {
	if n == nil {
		return nil
	}
	c := &Node{ID: n.ID, Pad: n.Pad}
	for _, e := range n.Arr {
		c.Arr = append(c.Arr, e.clone())
	}
	for _, kv := range n.Dict {
		c.Dict = append(c.Dict, KV{kv.K, kv.V.clone()})
	}
	return c
}

func (n *Node) count() int {
	c := 1
	for _, e := range n.Arr {
		c += e.count()
	}
	for _, kv := range n.Dict {
		c += kv.V.count()
	}
	return c
}

func (n *Node) maxPad() int {
	m := n.Pad
	for _, e := range n.Arr {
		if p := e.maxPad(); p > m {
			m = p
		}
	}
	for _, kv := range n.Dict {
		if p := kv.V.maxPad(); p > m {
			m = p
		}
	}
	return m
}

func (n *Node) dictIndex(k int) int {
	for i, kv := range n.Dict {
		if kv.K == k {
			return i
		}
	}
	return -1
}

// Dump: same canonical rendering as the contract's dump() and health.go's dumpValue.
func (n *Node) Dump() string {
	var sb strings.Builder
	n.dump(&sb)
	return sb.String()
}

func (n *Node) dump(sb *strings.Builder) {
	fmt.Fprintf(sb, "(%d %d [", n.ID, n.Pad)
	for i, e := range n.Arr {
		if i > 0 {
			sb.WriteByte(' ')
		}
		e.dump(sb)
	}
	sb.WriteString("] {")
	kvs := append([]KV{}, n.Dict...)
	sort.SliceStable(kvs, func(i, j int) bool { return kvs[i].K < kvs[j].K })
	for i, kv := range kvs {
		if i > 0 {
			sb.WriteByte(' ')
		}
		fmt.Fprintf(sb, "%d:", kv.K)
		kv.V.dump(sb)
	}
	sb.WriteString("})")
}

// ---- the mirror: an independent Go oracle of what the stored values must be ----

type Root struct {
	Res bool
	N   *Node
}

type State map[Key]*Root

// deployed contracts D<i> of an account are tracked under hidden keys (they are not storage paths)
func contractKey(a, i int) Key { return Key{a, 1000 + i} }

// touchedKey: a contract update (add or removal) of D<i> was recorded earlier in the current transaction;
// contracts.add then fails ("no contract deploy or update was recorded before"). Cleared by beginTx.
func touchedKey(a, i int) Key { return Key{a, 2000 + i} }

func (s State) beginTx() {
	for k := range s {
		if k.P >= 2000 {
			delete(s, k)
		}
	}
}
func isContractKey(k Key) bool { return k.P >= 1000 }

func (s State) clone() State {
	c := State{}
	for k, r := range s {
		c[k] = &Root{r.Res, r.N.clone()}
	}
	return c
}

func (s State) keys() []Key {
	var ks []Key
	for k := range s {
		if !isContractKey(k) {
			ks = append(ks, k)
		}
	}
	sort.Slice(ks, func(i, j int) bool {
		if ks[i].A != ks[j].A {
			return ks[i].A < ks[j].A
		}
		return ks[i].P < ks[j].P
	})
	return ks
}

func (s State) dump() map[string]string {
	m := map[string]string{}
	for k, r := range s {
		if !isContractKey(k) {
			m[k.String()] = r.N.Dump()
		}
	}
	return m
}

func (s State) nodes() int {
	c := 0
	for k, r := range s {
		if !isContractKey(k) {
			c += r.N.count()
		}
	}
	return c
}

func resolve(n *Node, hops []Hop) *Node {
	for _, h := range hops {
		if n == nil {
			return nil
		}
		if h.Arr {
			if h.I < 0 || h.I >= len(n.Arr) {
				return nil
			}
			n = n.Arr[h.I]
		} else {
			i := n.dictIndex(h.I)
			if i < 0 {
				return nil
			}
			n = n.Dict[i].V
		}
	}
	return n
}

func insertAt(a []*Node, i int, v *Node) []*Node {
	a = append(a, nil)
	copy(a[i+1:], a[i:])
	a[i] = v
	return a
}

// dispose: what happens to a value detached from storage. false = the transaction aborts.
func (s State) dispose(d Disp, v *Node, res bool) bool {
	switch d.Kind {
	case "destroy":
		return true
	case "save":
		if _, ok := s[d.K]; ok {
			return false
		}
		s[d.K] = &Root{res, v}
		return true
	case "insert":
		r, ok := s[d.K]
		if !ok {
			return false
		}
		t := resolve(r.N, d.Hops)
		if t == nil {
			return false
		}
		if d.Field == FArr {
			if d.I < 0 || d.I > len(t.Arr) {
				return false
			}
			t.Arr = insertAt(t.Arr, d.I, v)
			return true
		}
		if i := t.dictIndex(d.I); i >= 0 {
			t.Dict[i].V = v // the old entry is destroyed
		} else {
			t.Dict = append(t.Dict, KV{d.I, v})
		}
		return true
	}
	panic("bad disp " + d.Kind)
}

// apply executes one operation on the mirror; false = the transaction aborts.
func (s State) apply(op Op) bool {
	switch op.Kind {
	case "fail":
		return false
	case "cdeploy": // contracts.add of an existing name fails
		ck, tk := contractKey(op.K.A, op.I), touchedKey(op.K.A, op.I)
		if _, ok := s[ck]; ok {
			return false
		}
		if _, ok := s[tk]; ok {
			return false
		}
		s[ck] = &Root{false, &Node{}}
		s[tk] = &Root{false, &Node{}}
		return true
	case "cremove": // contracts.remove of a missing name returns nil
		ck := contractKey(op.K.A, op.I)
		if _, ok := s[ck]; ok {
			delete(s, ck)
			s[touchedKey(op.K.A, op.I)] = &Root{false, &Node{}}
		}
		return true
	case "save":
		if _, ok := s[op.K]; ok {
			return false
		}
		s[op.K] = &Root{op.Res, op.V.clone()}
		return true
	case "remove":
		r, ok := s[op.K]
		if !ok {
			return false
		}
		delete(s, op.K)
		return s.dispose(op.D, r.N, r.Res)
	case "copy":
		r, ok := s[op.K]
		if !ok {
			return false
		}
		if _, ok := s[op.K2]; ok {
			return false
		}
		s[op.K2] = &Root{r.Res, r.N.clone()}
		return true
	case "put":
		r, ok := s[op.K]
		if !ok {
			return false
		}
		t := resolve(r.N, op.Hops)
		if t == nil {
			return false
		}
		switch op.Field {
		case FPad:
			t.Pad = op.V.Pad
			return true
		case FWholeArr:
			t.Arr = op.V.clone().Arr
			return true
		case FWholeDic:
			t.Dict = op.V.clone().Dict
			return true
		case FArr:
			if op.Ins {
				if op.I < 0 || op.I > len(t.Arr) {
					return false
				}
				t.Arr = insertAt(t.Arr, op.I, op.V.clone())
				return true
			}
			if op.I < 0 || op.I >= len(t.Arr) {
				return false
			}
			old := t.Arr[op.I]
			t.Arr[op.I] = op.V.clone()
			return s.dispose(op.D, old, r.Res)
		case FDict:
			if i := t.dictIndex(op.I); i >= 0 {
				old := t.Dict[i].V
				t.Dict[i].V = op.V.clone()
				return s.dispose(op.D, old, r.Res)
			}
			t.Dict = append(t.Dict, KV{op.I, op.V.clone()})
			return true
		}
	case "del":
		r, ok := s[op.K]
		if !ok {
			return false
		}
		t := resolve(r.N, op.Hops)
		if t == nil {
			return false
		}
		if op.Field == FArr {
			if op.I < 0 || op.I >= len(t.Arr) {
				return false
			}
			old := t.Arr[op.I]
			t.Arr = append(t.Arr[:op.I:op.I], t.Arr[op.I+1:]...)
			return s.dispose(op.D, old, r.Res)
		}
		i := t.dictIndex(op.I)
		if i < 0 {
			return true // remove(key:) of an absent key returns nil
		}
		old := t.Dict[i].V
		t.Dict = append(t.Dict[:i:i], t.Dict[i+1:]...)
		return s.dispose(op.D, old, r.Res)
	}
	panic("bad op " + op.Kind)
}

// ---- Coq rendering: flat token lists decoded by coq/theories/C23/Cases.v (dec_*) ----
//   shape ::= payload n (label shape)^n        composite (id,pad,arr,dict) = id 3 (0 pad 0) (1 0 |arr| (0 e)*) (2 0 |dict| (k v)*)
//   step ::= 0 n | 1 z      sel ::= n step^n      disp ::= 0 | 1 a p | 2 a p sel step
//   op ::= 0 a p shape | 1 a p disp | 2 a p a2 p2 | 3 ins a p sel step shape disp | 4 a p sel step disp | 5 | 6 a p shape | 7 a p

func tokShape(n *Node, out []int64) []int64 {
	out = append(out, int64(n.ID), 3, 0, int64(n.Pad), 0, 1)
	out = tokArr(n.Arr, out)
	out = append(out, 2)
	out = tokDict(n.Dict, out)
	return out
}

func tokArr(arr []*Node, out []int64) []int64 {
	out = append(out, 0, int64(len(arr)))
	for _, e := range arr {
		out = append(out, 0)
		out = tokShape(e, out)
	}
	return out
}

func tokDict(d []KV, out []int64) []int64 {
	out = append(out, 0, int64(len(d)))
	for _, kv := range d {
		out = append(out, int64(kv.K))
		out = tokShape(kv.V, out)
	}
	return out
}

func selSteps(hops []Hop, field int) [][2]int64 {
	var st [][2]int64
	for _, h := range hops {
		if h.Arr {
			st = append(st, [2]int64{0, 1}, [2]int64{0, int64(h.I)})
		} else {
			st = append(st, [2]int64{0, 2}, [2]int64{1, int64(h.I)})
		}
	}
	switch field {
	case FArr:
		st = append(st, [2]int64{0, 1})
	case FDict:
		st = append(st, [2]int64{0, 2})
	}
	return st
}

func tokSel(hops []Hop, field int, out []int64) []int64 {
	st := selSteps(hops, field)
	out = append(out, int64(len(st)))
	for _, s := range st {
		out = append(out, s[0], s[1])
	}
	return out
}

func tokStep(field, i int, out []int64) []int64 {
	if field == FDict {
		return append(out, 1, int64(i))
	}
	return append(out, 0, int64(i))
}

func tokDisp(d Disp, out []int64) []int64 {
	switch d.Kind {
	case "save":
		return append(out, 1, int64(d.K.A), int64(d.K.P))
	case "insert":
		out = append(out, 2, int64(d.K.A), int64(d.K.P))
		out = tokSel(d.Hops, d.Field, out)
		return tokStep(d.Field, d.I, out)
	}
	return append(out, 0)
}

func tokOp(op Op, out []int64) []int64 {
	switch op.Kind {
	case "fail":
		return append(out, 5)
	case "cdeploy": // CAdd (a, 1000+i) (Sh n [])
		return append(out, 6, int64(op.K.A), int64(1000+op.I), int64(op.V.Pad), 0)
	case "cremove": // CRemove (a, 1000+i)
		return append(out, 7, int64(op.K.A), int64(1000+op.I))
	case "save":
		out = append(out, 0, int64(op.K.A), int64(op.K.P))
		return tokShape(op.V, out)
	case "remove":
		out = append(out, 1, int64(op.K.A), int64(op.K.P))
		return tokDisp(op.D, out)
	case "copy":
		return append(out, 2, int64(op.K.A), int64(op.K.P), int64(op.K2.A), int64(op.K2.P))
	case "put":
		ins := int64(0)
		if op.Ins {
			ins = 1
		}
		switch op.Field {
		case FPad: // OPut false k sel (Pos 0) (Sh pad []) DDestroy
			out = append(out, 3, 0, int64(op.K.A), int64(op.K.P))
			out = tokSel(op.Hops, -1, out)
			return append(out, 0, 0, int64(op.V.Pad), 0, 0)
		case FWholeArr: // OPut false k sel (Pos 1) (Sh 0 arr) DDestroy
			out = append(out, 3, 0, int64(op.K.A), int64(op.K.P))
			out = tokSel(op.Hops, -1, out)
			out = append(out, 0, 1)
			out = tokArr(op.V.Arr, out)
			return append(out, 0)
		case FWholeDic:
			out = append(out, 3, 0, int64(op.K.A), int64(op.K.P))
			out = tokSel(op.Hops, -1, out)
			out = append(out, 0, 2)
			out = tokDict(op.V.Dict, out)
			return append(out, 0)
		}
		out = append(out, 3, ins, int64(op.K.A), int64(op.K.P))
		out = tokSel(op.Hops, op.Field, out)
		out = tokStep(op.Field, op.I, out)
		out = tokShape(op.V, out)
		return tokDisp(op.D, out)
	case "del":
		out = append(out, 4, int64(op.K.A), int64(op.K.P))
		out = tokSel(op.Hops, op.Field, out)
		out = tokStep(op.Field, op.I, out)
		return tokDisp(op.D, out)
	}
	panic("bad op")
}

func tokTx(tx Tx, out []int64) []int64 {
	out = append(out, int64(len(tx.Ops)))
	for _, op := range tx.Ops {
		out = tokOp(op, out)
	}
	return out
}
