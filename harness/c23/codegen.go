package main

import (
	"fmt"
	"strconv"
	"strings"
)

const nAccounts = 3

// exprNew renders the construction of a new value.
func exprNew(n *Node, res bool) string {
	var sb strings.Builder
	writeNew(&sb, n, res)
	return sb.String()
}

func writeArr(sb *strings.Builder, arr []*Node, res bool) {
	if res {
		sb.WriteString("<-")
	}
	sb.WriteString("[")
	for i, e := range arr {
		if i > 0 {
			sb.WriteString(", ")
		}
		if res {
			sb.WriteString("<-")
		}
		writeNew(sb, e, res)
	}
	sb.WriteString("]")
}

func writeDict(sb *strings.Builder, d []KV, res bool) {
	if res {
		sb.WriteString("<-")
	}
	sb.WriteString("{")
	for i, kv := range d {
		if i > 0 {
			sb.WriteString(", ")
		}
		fmt.Fprintf(sb, "%d: ", kv.K)
		if res {
			sb.WriteString("<-")
		}
		writeNew(sb, kv.V, res)
	}
	sb.WriteString("}")
}

func writeNew(sb *strings.Builder, n *Node, res bool) {
	if res {
		fmt.Fprintf(sb, "C.mkR(%d, %d, ", n.ID, n.Pad)
		writeArr(sb, n.Arr, true)
		sb.WriteString(", ")
		writeDict(sb, n.Dict, true)
		sb.WriteString(")")
		return
	}
	fmt.Fprintf(sb, "C.S(id: %d, pad: %d, arr: ", n.ID, n.Pad)
	writeArr(sb, n.Arr, false)
	sb.WriteString(", dict: ")
	writeDict(sb, n.Dict, false)
	sb.WriteString(")")
}

func typeName(res bool) string {
	if res {
		return "C.R"
	}
	return "C.S"
}

func pathExpr(k Key) string { return fmt.Sprintf("/storage/p%d", k.P) }
func acct(k Key) string     { return fmt.Sprintf("a%d", k.A) }

// borrowChain: statement binding `name` to a reference to the composite selected by (k, hops),
// always freshly borrowed from the account (removal through references).
func borrowChain(name string, k Key, res bool, hops []Hop) string {
	var sb strings.Builder
	fmt.Fprintf(&sb, "    let %sr = %s.storage.borrow<&%s>(from: %s) ?? panic(\"missing\")\n", name, acct(k), typeName(res), pathExpr(k))
	fmt.Fprintf(&sb, "    let %s = %sr", name, name)
	for _, h := range hops {
		if h.Arr {
			fmt.Fprintf(&sb, ".arrRef(%d)", h.I)
		} else {
			fmt.Fprintf(&sb, ".dictRef(%d)", h.I)
		}
	}
	sb.WriteString("\n")
	return sb.String()
}

func mv(res bool) string {
	if res {
		return "<-"
	}
	return ""
}

func asg(res bool) string {
	if res {
		return "<-"
	}
	return "="
}

// dispCode: code consuming the detached value held in local variable v.
func dispCode(d Disp, v string, res bool, tag string) string {
	switch d.Kind {
	case "destroy":
		if res {
			return fmt.Sprintf("    destroy %s\n", v)
		}
		return ""
	case "save":
		return fmt.Sprintf("    %s.storage.save(%s%s, to: %s)\n", acct(d.K), mv(res), v, pathExpr(d.K))
	case "insert":
		t := "u" + tag
		s := borrowChain(t, d.K, res, d.Hops)
		if d.Field == FArr {
			return s + fmt.Sprintf("    %s.insertAt(%d, %s%s)\n", t, d.I, mv(res), v)
		}
		if res {
			return s + fmt.Sprintf("    destroy %s.put(%d, <-%s)\n", t, d.I, v)
		}
		return s + fmt.Sprintf("    %s.put(%d, %s)\n", t, d.I, v)
	}
	panic("bad disp")
}

// opCode renders one operation. present: does the mirror have the dictionary key (put / del on a dict entry).
func opCode(op Op, idx int, present bool) string {
	tag := strconv.Itoa(idx)
	res := op.Res
	switch op.Kind {
	case "fail":
		// conditional so that the following operations are not statically unreachable
		return "    if a1.address == 0x1 { panic(\"abort\") }\n"
	case "cdeploy":
		return fmt.Sprintf("    %s.contracts.add(name: \"D%d\", code: \"%s\".utf8, %d)\n", acct(op.K), op.I, contractD(op.I), op.V.Pad)
	case "cremove":
		return fmt.Sprintf("    %s.contracts.remove(name: \"D%d\")\n", acct(op.K), op.I)
	case "save":
		return fmt.Sprintf("    %s.storage.save(%s%s, to: %s)\n", acct(op.K), mv(res), exprNew(op.V, res), pathExpr(op.K))
	case "remove":
		v := "v" + tag
		var s string
		if res {
			s = fmt.Sprintf("    let %s <- %s.storage.load<@C.R>(from: %s) ?? panic(\"missing\")\n", v, acct(op.K), pathExpr(op.K))
		} else {
			s = fmt.Sprintf("    let %s = %s.storage.load<C.S>(from: %s) ?? panic(\"missing\")\n", v, acct(op.K), pathExpr(op.K))
		}
		return s + dispCode(op.D, v, res, tag)
	case "copy":
		v := "v" + tag
		return fmt.Sprintf("    let %s = %s.storage.copy<C.S>(from: %s) ?? panic(\"missing\")\n    %s.storage.save(%s, to: %s)\n",
			v, acct(op.K), pathExpr(op.K), acct(op.K2), v, pathExpr(op.K2))
	case "put":
		t := "t" + tag
		s := borrowChain(t, op.K, res, op.Hops)
		switch op.Field {
		case FPad:
			return s + fmt.Sprintf("    %s.setPad(%d)\n", t, op.V.Pad)
		case FWholeArr:
			var sb strings.Builder
			writeArr(&sb, op.V.Arr, res)
			if res {
				return s + fmt.Sprintf("    destroy %s.swapArr(%s)\n", t, sb.String())
			}
			return s + fmt.Sprintf("    %s.swapArr(%s)\n", t, sb.String())
		case FWholeDic:
			var sb strings.Builder
			writeDict(&sb, op.V.Dict, res)
			if res {
				return s + fmt.Sprintf("    destroy %s.swapDict(%s)\n", t, sb.String())
			}
			return s + fmt.Sprintf("    %s.swapDict(%s)\n", t, sb.String())
		case FArr:
			if op.Ins {
				return s + fmt.Sprintf("    %s.insertAt(%d, %s%s)\n", t, op.I, mv(res), exprNew(op.V, res))
			}
			o := "o" + tag
			s += fmt.Sprintf("    let %s %s %s.setAt(%d, %s%s)\n", o, asg(res), t, op.I, mv(res), exprNew(op.V, res))
			return s + dispCode(op.D, o, res, tag)
		case FDict:
			if !present {
				if res {
					return s + fmt.Sprintf("    destroy %s.put(%d, <-%s)\n", t, op.I, exprNew(op.V, true))
				}
				return s + fmt.Sprintf("    %s.put(%d, %s)\n", t, op.I, exprNew(op.V, false))
			}
			o := "o" + tag
			s += fmt.Sprintf("    let %s %s %s.put(%d, %s%s) ?? panic(\"absent\")\n", o, asg(res), t, op.I, mv(res), exprNew(op.V, res))
			return s + dispCode(op.D, o, res, tag)
		}
	case "del":
		t := "t" + tag
		s := borrowChain(t, op.K, res, op.Hops)
		o := "o" + tag
		if op.Field == FArr {
			s += fmt.Sprintf("    let %s %s %s.removeAt(%d)\n", o, asg(res), t, op.I)
			return s + dispCode(op.D, o, res, tag)
		}
		if !present {
			if res {
				return s + fmt.Sprintf("    destroy %s.take(%d)\n", t, op.I)
			}
			return s + fmt.Sprintf("    %s.take(%d)\n", t, op.I)
		}
		s += fmt.Sprintf("    let %s %s %s.take(%d) ?? panic(\"absent\")\n", o, asg(res), t, op.I)
		return s + dispCode(op.D, o, res, tag)
	}
	panic("bad op " + op.Kind)
}

// contractD: a contract whose value holds n rows of 40+i integers (rows beyond ~55 elements and the
// dictionary of rows live in slabs of their own); deploying stores it in the contract domain, removing
// it must free all of it.
func contractD(i int) string {
	return fmt.Sprintf("access(all) contract D%d { access(all) var rows: [[UInt64]]; access(all) var names: {Int: [UInt64]}; "+
		"init(_ n: Int) { self.rows = []; self.names = {}; var i = 0; while i < n { var r: [UInt64] = []; var j = 0; "+
		"while j < 40 + i * 12 { r.append(UInt64(j)); j = j + 1 }; self.rows.append(r); self.names[i] = r; i = i + 1 } } }", i)
}

func txHeader() string {
	var ps []string
	for i := 1; i <= nAccounts; i++ {
		ps = append(ps, fmt.Sprintf("a%d: auth(Storage, Contracts) &Account", i))
	}
	return "import C from 0x1\ntransaction {\n  prepare(" + strings.Join(ps, ", ") + ") {\n"
}

// dumpScript lists every stored path of every account with the dump of its value, through the
// runtime (scripts read the committed ledger).
func dumpScript() string {
	var sb strings.Builder
	sb.WriteString("import C from 0x1\naccess(all) fun main(): [String] {\n  var out: [String] = []\n")
	for i := 1; i <= nAccounts; i++ {
		fmt.Fprintf(&sb, `  let a%[1]d = getAuthAccount<auth(Storage) &Account>(0x%[1]d)
  a%[1]d.storage.forEachStored(fun (path: StoragePath, type: Type): Bool {
    var d = "?"
    if type == Type<@C.R>() { d = a%[1]d.storage.borrow<&C.R>(from: path)!.dump() }
    if type == Type<C.S>() { d = a%[1]d.storage.borrow<&C.S>(from: path)!.dump() }
    out.append("%[1]d".concat(path.toString().slice(from: 8, upTo: path.toString().length)).concat("=").concat(d))
    return true
  })
`, i)
	}
	sb.WriteString("  return out\n}\n")
	return sb.String()
}

// parseDump parses the canonical rendering "(id pad [e e] {k:v k:v})" back into a Node.
func parseDump(s string) (*Node, error) {
	p := &dparser{s: s}
	n, err := p.node()
	if err != nil {
		return nil, err
	}
	if p.i != len(s) {
		return nil, fmt.Errorf("trailing input at %d", p.i)
	}
	return n, nil
}

type dparser struct {
	s string
	i int
}

func (p *dparser) eat(c byte) error {
	if p.i >= len(p.s) || p.s[p.i] != c {
		return fmt.Errorf("expected %q at %d", c, p.i)
	}
	p.i++
	return nil
}

func (p *dparser) int() (int, error) {
	j := p.i
	if j < len(p.s) && p.s[j] == '-' {
		j++
	}
	for j < len(p.s) && p.s[j] >= '0' && p.s[j] <= '9' {
		j++
	}
	v, err := strconv.Atoi(p.s[p.i:j])
	if err != nil {
		return 0, fmt.Errorf("expected integer at %d", p.i)
	}
	p.i = j
	return v, nil
}

func (p *dparser) node() (*Node, error) {
	n := &Node{}
	var err error
	if err = p.eat('('); err != nil {
		return nil, err
	}
	if n.ID, err = p.int(); err != nil {
		return nil, err
	}
	if err = p.eat(' '); err != nil {
		return nil, err
	}
	if n.Pad, err = p.int(); err != nil {
		return nil, err
	}
	if err = p.eat(' '); err != nil {
		return nil, err
	}
	if err = p.eat('['); err != nil {
		return nil, err
	}
	for p.i < len(p.s) && p.s[p.i] != ']' {
		if len(n.Arr) > 0 {
			if err = p.eat(' '); err != nil {
				return nil, err
			}
		}
		e, err := p.node()
		if err != nil {
			return nil, err
		}
		n.Arr = append(n.Arr, e)
	}
	if err = p.eat(']'); err != nil {
		return nil, err
	}
	if err = p.eat(' '); err != nil {
		return nil, err
	}
	if err = p.eat('{'); err != nil {
		return nil, err
	}
	for p.i < len(p.s) && p.s[p.i] != '}' {
		if len(n.Dict) > 0 {
			if err = p.eat(' '); err != nil {
				return nil, err
			}
		}
		k, err := p.int()
		if err != nil {
			return nil, err
		}
		if err = p.eat(':'); err != nil {
			return nil, err
		}
		v, err := p.node()
		if err != nil {
			return nil, err
		}
		n.Dict = append(n.Dict, KV{k, v})
	}
	if err = p.eat('}'); err != nil {
		return nil, err
	}
	if err = p.eat(')'); err != nil {
		return nil, err
	}
	return n, nil
}
