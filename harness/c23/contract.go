package main

// contractSrc: a resource type R and a struct type S of the same layout
//
//	(id: Int, pad: String, arr: [T], dict: {Int: T})
//
// with mutators that are reached through (nested) references into account storage.
// Every Cadence-level way of detaching a stored child value is present:
// overwrite (swap / assignment), removal, whole-field replacement, destruction.
const contractSrc = `
access(all) contract C {

    access(all) let chunk: String

    access(all) fun mkPad(_ n: Int): String {
        var s = ""
        var i = 0
        while i + 50 <= n { s = s.concat(self.chunk); i = i + 50 }
        while i < n { s = s.concat("y"); i = i + 1 }
        return s
    }

    access(all) resource R {
        access(all) var id: Int
        access(all) var pad: String
        access(all) var arr: @[R]
        access(all) var dict: @{Int: R}

        init(id: Int, pad: Int, arr: @[R], dict: @{Int: R}) {
            self.id = id
            self.pad = C.mkPad(pad)
            self.arr <- arr
            self.dict <- dict
        }

        access(all) fun arrRef(_ i: Int): &R { return &self.arr[i] as &R }
        access(all) fun dictRef(_ k: Int): &R { return (&self.dict[k] as &R?) ?? panic("nokey") }

        access(all) fun insertAt(_ i: Int, _ r: @R) { self.arr.insert(at: i, <-r) }
        access(all) fun setAt(_ i: Int, _ r: @R): @R { let old <- self.arr[i] <- r; return <- old }
        access(all) fun removeAt(_ i: Int): @R { return <- self.arr.remove(at: i) }
        access(all) fun put(_ k: Int, _ r: @R): @R? { let old <- self.dict[k] <- r; return <- old }
        access(all) fun take(_ k: Int): @R? { return <- self.dict.remove(key: k) }
        access(all) fun swapArr(_ a: @[R]): @[R] { let old <- self.arr <- a; return <- old }
        access(all) fun swapDict(_ d: @{Int: R}): @{Int: R} { let old <- self.dict <- d; return <- old }
        access(all) fun setPad(_ n: Int) { self.pad = C.mkPad(n) }

        access(all) fun dump(): String {
            var s = "(".concat(self.id.toString()).concat(" ").concat(self.pad.length.toString()).concat(" [")
            var i = 0
            while i < self.arr.length {
                if i > 0 { s = s.concat(" ") }
                s = s.concat(self.arrRef(i).dump())
                i = i + 1
            }
            s = s.concat("] {")
            let keys = C.sorted(self.dict.keys)
            i = 0
            while i < keys.length {
                if i > 0 { s = s.concat(" ") }
                s = s.concat(keys[i].toString()).concat(":").concat(self.dictRef(keys[i]).dump())
                i = i + 1
            }
            return s.concat("})")
        }
    }

    access(all) struct S {
        access(all) var id: Int
        access(all) var pad: String
        access(all) var arr: [S]
        access(all) var dict: {Int: S}

        init(id: Int, pad: Int, arr: [S], dict: {Int: S}) {
            self.id = id
            self.pad = C.mkPad(pad)
            self.arr = arr
            self.dict = dict
        }

        access(all) fun arrRef(_ i: Int): &S { return &self.arr[i] as &S }
        access(all) fun dictRef(_ k: Int): &S { return (&self.dict[k] as &S?) ?? panic("nokey") }

        access(all) fun insertAt(_ i: Int, _ r: S) { self.arr.insert(at: i, r) }
        access(all) fun setAt(_ i: Int, _ r: S): S { let old = self.arr[i]; self.arr[i] = r; return old }
        access(all) fun removeAt(_ i: Int): S { return self.arr.remove(at: i) }
        access(all) fun put(_ k: Int, _ r: S): S? { let old = self.dict[k]; self.dict[k] = r; return old }
        access(all) fun take(_ k: Int): S? { return self.dict.remove(key: k) }
        access(all) fun swapArr(_ a: [S]): [S] { let old = self.arr; self.arr = a; return old }
        access(all) fun swapDict(_ d: {Int: S}): {Int: S} { let old = self.dict; self.dict = d; return old }
        access(all) fun setPad(_ n: Int) { self.pad = C.mkPad(n) }

        access(all) fun dump(): String {
            var s = "(".concat(self.id.toString()).concat(" ").concat(self.pad.length.toString()).concat(" [")
            var i = 0
            while i < self.arr.length {
                if i > 0 { s = s.concat(" ") }
                s = s.concat(self.arrRef(i).dump())
                i = i + 1
            }
            s = s.concat("] {")
            let keys = C.sorted(self.dict.keys)
            i = 0
            while i < keys.length {
                if i > 0 { s = s.concat(" ") }
                s = s.concat(keys[i].toString()).concat(":").concat(self.dictRef(keys[i]).dump())
                i = i + 1
            }
            return s.concat("})")
        }
    }

    access(all) fun mkR(_ id: Int, _ pad: Int, _ arr: @[R], _ dict: @{Int: R}): @R {
        return <- create R(id: id, pad: pad, arr: <-arr, dict: <-dict)
    }

    access(all) fun sorted(_ ks: [Int]): [Int] {
        var a = ks
        var i = 1
        while i < a.length {
            var j = i
            while j > 0 && a[j - 1] > a[j] {
                let t = a[j]; a[j] = a[j - 1]; a[j - 1] = t
                j = j - 1
            }
            i = i + 1
        }
        return a
    }

    init() {
        self.chunk = "xxxxxxxxxxxxxxxxxxxxxxxxxxxxxxxxxxxxxxxxxxxxxxxxxx"
    }
}
`
