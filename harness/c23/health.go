package main

import (
	"bytes"
	"errors"
	"fmt"
	"sort"
	"strings"

	"github.com/onflow/atree"

	"github.com/onflow/cadence/common"
	"github.com/onflow/cadence/interpreter"
	"github.com/onflow/cadence/runtime"
	ru "github.com/onflow/cadence/test_utils/runtime_utils"
)

// LedgerReport is everything observed about one committed ledger state, using a FRESH
// runtime.Storage over the ledger (nothing cached from the execution that produced it).
type LedgerReport struct {
	Errors  []string          // every entry is a direct violation of "committed storage is healthy"
	Roots   map[string]string // "<account>/<path>" -> canonical dump of the stored value (storage domain only)
	Slabs   int               // number of non-empty slab registers
	Multi   int               // number of slab registers that are not account roots (values crossed the inlining threshold)
	Values  int               // number of values (all domains) walked / decoded
	Orphans []string          // ids of slab registers with no referrer at all (including tolerated ones)
}

func splitLedgerKey(k string) (owner, key string) {
	i := strings.Index(k, "|")
	return k[:i], k[i+1:]
}

// childRefs lists all SlabIDStorable references of a slab, looking through inlined containers.
func childRefs(s atree.Slab) []atree.SlabID {
	var out []atree.SlabID
	next := s.ChildStorables()
	for len(next) > 0 {
		var nn []atree.Storable
		for _, c := range next {
			if sid, ok := c.(atree.SlabIDStorable); ok {
				out = append(out, atree.SlabID(sid))
				continue
			}
			nn = append(nn, c.ChildStorables()...)
		}
		next = nn
	}
	return out
}

// CheckLedger is the observation point named by the property: a fresh runtime.Storage over
// the ledger, every slab register loaded, (1) runtime Storage.CheckHealth (atree.CheckStorageHealth +
// account roots), (2) an independent reference count over the slab graph (every slab register
// referenced exactly once, by one parent slab or by one account register; no dangling reference;
// everything reachable from an account register), (3) every stored value of every domain decoded and
// walked to the leaves.
//
// known: slab ids already reported as leaked earlier in the same history (a leaked slab stays in the ledger
// for good); they and whatever hangs below them are not reported again.
func CheckLedger(ledger ru.TestLedger, known map[string]bool) (rep LedgerReport) {
	rep.Roots = map[string]string{}
	fail := func(f string, a ...any) { rep.Errors = append(rep.Errors, fmt.Sprintf(f, a...)) }

	storage := runtime.NewStorage(ledger, nil, nil, runtime.StorageConfig{})
	inter, err := interpreter.NewInterpreter(nil, common.StringLocation("c23-health"), &interpreter.Config{Storage: storage})
	if err != nil {
		fail("cannot create interpreter: %v", err)
		return
	}

	// registers
	var keys []string
	for k, v := range ledger.StoredValues {
		if len(v) > 0 {
			keys = append(keys, k)
		}
	}
	sort.Strings(keys)

	slabs := map[atree.SlabID]atree.Slab{}
	var slabIDs []atree.SlabID
	accountRoot := map[atree.SlabID]string{} // root slab id -> owner
	var accounts []common.Address
	for _, k := range keys {
		owner, key := splitLedgerKey(k)
		var addr atree.Address
		copy(addr[:], owner)
		switch {
		case key == runtime.AccountStorageKey:
			v := ledger.StoredValues[k]
			if len(v) != 8 {
				fail("account register %x/stored has length %d", owner, len(v))
				continue
			}
			var idx atree.SlabIndex
			copy(idx[:], v)
			id := atree.NewSlabID(addr, idx)
			if prev, dup := accountRoot[id]; dup {
				fail("account root slab %s referenced by two account registers (%x, %x)", id, prev, owner)
			}
			accountRoot[id] = owner
			accounts = append(accounts, common.Address(addr))
		case atree.LedgerKeyIsSlabKey(key):
			var idx atree.SlabIndex
			copy(idx[:], key[1:])
			id := atree.NewSlabID(addr, idx)
			var slab atree.Slab
			func() {
				defer func() {
					if r := recover(); r != nil {
						fail("slab %s does not decode: panic %v", id, r)
					}
				}()
				s, ok, err := storage.Retrieve(id)
				if err != nil {
					fail("slab %s does not decode: %v", id, err)
					return
				}
				if !ok {
					fail("slab register %s present in the ledger but not retrievable", id)
					return
				}
				slab = s
			}()
			if slab != nil {
				slabs[id] = slab
				slabIDs = append(slabIDs, id)
			}
		default:
			fail("unexpected register %x/%q", owner, key)
		}
	}
	rep.Slabs = len(slabIDs)

	// (2) independent reference count
	refCount := map[atree.SlabID]int{}
	for id := range accountRoot {
		refCount[id]++
		if _, ok := slabs[id]; !ok {
			fail("account register points to missing slab %s", id)
		}
	}
	for _, id := range slabIDs {
		for _, c := range childRefs(slabs[id]) {
			refCount[c]++
			if _, ok := slabs[c]; !ok {
				fail("slab %s references missing slab %s (dangling reference)", id, c)
			}
			if c.AddressAsUint64() != id.AddressAsUint64() {
				fail("slab %s references slab %s of another account", id, c)
			}
		}
	}
	for _, id := range slabIDs {
		switch n := refCount[id]; {
		case n == 0:
			rep.Orphans = append(rep.Orphans, id.String())
			if known[id.String()] {
				break
			}
			fail("slab %s is not referenced by any slab or account register (orphaned / leaked)", id)
		case n > 1:
			fail("slab %s is referenced %d times", id, n)
		}
		if _, isRoot := accountRoot[id]; !isRoot {
			rep.Multi++
		}
	}
	// reachability from account registers
	seen := map[atree.SlabID]bool{}
	var work []atree.SlabID
	for id := range accountRoot {
		work = append(work, id)
	}
	knownPresent := 0
	for _, id := range slabIDs {
		if refCount[id] == 0 && known[id.String()] {
			work = append(work, id)
			knownPresent++
		}
	}
	for len(work) > 0 {
		id := work[len(work)-1]
		work = work[:len(work)-1]
		if seen[id] {
			continue
		}
		seen[id] = true
		if s, ok := slabs[id]; ok {
			work = append(work, childRefs(s)...)
		}
	}
	for _, id := range slabIDs {
		if !seen[id] {
			fail("slab %s is not reachable from any account storage root", id)
		}
	}

	// (3) decode and walk every stored value of every account and domain
	sort.Slice(accounts, func(i, j int) bool { return bytes.Compare(accounts[i][:], accounts[j][:]) < 0 })
	for _, addr := range accounts {
		func() {
			defer func() {
				if r := recover(); r != nil {
					fail("account %s: stored values do not decode: panic %v", addr, r)
				}
			}()
			for _, domain := range common.AllStorageDomains {
				dm := storage.GetDomainStorageMap(inter, addr, domain, false)
				if dm == nil {
					continue
				}
				it := dm.Iterator()
				for {
					k, v := it.Next(nil)
					if k == nil {
						break
					}
					rep.Values++
					d := dumpValue(inter, v)
					if domain == common.StorageDomainPathStorage {
						ks := string(k.(interpreter.StringAtreeValue))
						rep.Roots[fmt.Sprintf("%d/%s", addr[len(addr)-1], ks)] = d
					}
				}
			}
		}()
	}

	// (1) runtime health check (loads nothing by itself: all slabs and account maps are loaded above)
	func() {
		defer func() {
			if r := recover(); r != nil {
				fail("Storage.CheckHealth panicked: %v", r)
			}
		}()
		if err := storage.CheckHealth(); err != nil {
			var u runtime.UnreferencedRootSlabsError
			if errors.As(err, &u) {
				all := true
				for _, id := range u.UnreferencedRootSlabIDs {
					all = all && known[id.String()]
				}
				if all {
					return
				}
			}
			fail("Storage.CheckHealth: %v", err)
		}
	}()
	// atree's own check with the expected number of roots = number of account registers
	func() {
		defer func() {
			if r := recover(); r != nil {
				fail("atree.CheckStorageHealth panicked: %v", r)
			}
		}()
		if _, err := atree.CheckStorageHealth(storage.PersistentSlabStorage, len(accountRoot)+knownPresent); err != nil {
			fail("atree.CheckStorageHealth: %v", err)
		}
	}()
	return
}

// dumpValue renders a stored value canonically (same format as the contract's dump()):
// composite "(id padlen [elems] {k:v ...})" with dictionary entries sorted by key.
// Walking it forces every nested slab to be decoded.
func dumpValue(inter *interpreter.Interpreter, v interpreter.Value) string {
	switch x := v.(type) {
	case *interpreter.CompositeValue:
		id := x.GetField(inter, "id")
		pad := x.GetField(inter, "pad")
		arr := x.GetField(inter, "arr")
		dict := x.GetField(inter, "dict")
		if id == nil || pad == nil || arr == nil || dict == nil {
			// some other composite (e.g. a contract value): walk all fields
			var parts []string
			x.ForEachField(inter, func(name string, fv interpreter.Value) bool {
				parts = append(parts, name+"="+dumpValue(inter, fv))
				return true
			})
			sort.Strings(parts)
			return "<" + strings.Join(parts, ",") + ">"
		}
		ps, _ := pad.(*interpreter.StringValue)
		n := -1
		if ps != nil {
			n = len(ps.Str)
		}
		return fmt.Sprintf("(%s %d %s %s)", id.String(), n, dumpValue(inter, arr), dumpValue(inter, dict))
	case *interpreter.ArrayValue:
		var parts []string
		x.Iterate(inter, func(e interpreter.Value) bool {
			parts = append(parts, dumpValue(inter, e))
			return true
		}, false)
		return "[" + strings.Join(parts, " ") + "]"
	case *interpreter.DictionaryValue:
		type kv struct {
			k int
			s string
		}
		var kvs []kv
		x.Iterate(inter, func(k, e interpreter.Value) bool {
			ki := 0
			if iv, ok := k.(interpreter.IntValue); ok {
				ki = int(iv.BigInt.Int64())
			}
			kvs = append(kvs, kv{ki, dumpValue(inter, e)})
			return true
		})
		sort.Slice(kvs, func(i, j int) bool { return kvs[i].k < kvs[j].k })
		var parts []string
		for _, e := range kvs {
			parts = append(parts, fmt.Sprintf("%d:%s", e.k, e.s))
		}
		return "{" + strings.Join(parts, " ") + "}"
	case *interpreter.SomeValue:
		return "some " + dumpValue(inter, x.InnerValue())
	default:
		return v.String()
	}
}
