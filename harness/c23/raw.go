package main

import (
	"encoding/json"
	"fmt"
	"os"
	"path/filepath"
	"sort"
	"strings"

	"cvh/lib"

	"github.com/onflow/cadence/common"
	"github.com/onflow/cadence/runtime"
)

// RawScenario is a hand-written history of Cadence transactions (corpus/C23/raw/*.json) for storage paths that
// the operation language of the generated histories cannot express (references kept across an overwrite,
// out-of-line scalar elements such as large Type values, huge integers and long strings removed individually
// from stored containers, ...). There is no model prediction for these: the observation is the whole-ledger
// health check after every transaction, in both engines, with and without atree validation.
type RawScenario struct {
	Name      string        `json:"name"`
	Contracts []RawContract `json:"contracts"`
	Txs       []string      `json:"txs"`
	// A known finding is declared by the transaction at which the leak appears and the key under which it
	// is listed in known_findings/C23.json; only slabs that become unreferenced at exactly that transaction are
	// attributed to it, everything else is reported as an ordinary violation.
	LeakAt  int    `json:"leak_at"`
	LeakKey string `json:"leak_key"`
	Expect  string `json:"expect"` // human-readable description of what must happen
}

type RawContract struct {
	Account int    `json:"account"`
	Name    string `json:"name"`
	Code    string `json:"code"`
}

func loadRaw(dir string) []RawScenario {
	if dir == "" {
		return nil
	}
	files, _ := filepath.Glob(filepath.Join(dir, "raw", "*.json"))
	sort.Strings(files)
	var out []RawScenario
	for _, f := range files {
		b, err := os.ReadFile(f)
		if err != nil {
			continue
		}
		var ss []RawScenario
		if err := json.Unmarshal(b, &ss); err != nil {
			fmt.Fprintf(os.Stderr, "corpus file %s: %v\n", f, err)
			os.Exit(3)
		}
		out = append(out, ss...)
	}
	return out
}

func (r *runner) runRaw(s RawScenario, vm, validate bool) {
	sum := r.sum
	name := fmt.Sprintf("%s/vm=%v/validate=%v", s.Name, vm, validate)
	host := lib.NewHost()
	if !validate {
		host.RT = runtime.NewRuntime(runtime.Config{})
	}
	replay := func(i int, extra map[string]any) map[string]any {
		m := map[string]any{"scenario": s, "failing_tx_index": i, "engine_vm": vm, "atree_validation": validate,
			"how": "deploy the contracts, run the transactions in order signed by accounts 0x1,0x2,0x3; after each, harness/c23/health.go CheckLedger on the ledger"}
		for k, v := range extra {
			m[k] = v
		}
		return m
	}
	for _, c := range s.Contracts {
		if o := host.Deploy(addrOf(c.Account), c.Name, c.Code, vm); o.Err != nil || o.Panic != nil {
			sum.Fail("harness-codegen", fmt.Sprintf("scenario %s: cannot deploy %s: %.500v %v", name, c.Name, o.Err, o.Panic), replay(-1, nil))
			return
		}
	}
	signers := []common.Address{addrOf(1), addrOf(2), addrOf(3)}
	known := map[string]bool{}
	multi := false
	for i, src := range s.Txs {
		out := host.RunTx(src, nil, signers, vm)
		sum.Evaluations++
		sum.Count("raw scenario tx")
		isLeakTx := s.LeakKey != "" && i == s.LeakAt
		if r.verbose {
			fmt.Printf("--- %s tx %d class=%q err=%.300v\n", name, i, out.Class, out.Err)
		}
		switch out.Class {
		case "":
		case "CheckerError", "ParseError":
			sum.Fail("harness-codegen", fmt.Sprintf("scenario %s: transaction %d rejected (%s): %.600v", name, i, out.Class, out.Err), replay(i, nil))
			return
		default:
			if isLeakTx && validate && out.Class == lib.EInternal && strings.Contains(fmt.Sprint(out.Err), "slabs not referenced") {
				// the runtime's own post-commit check reports the known leak; the registers have been written
				break
			}
			sum.Fail("raw-tx-failed:"+out.Class, fmt.Sprintf("scenario %s: transaction %d failed (%s): %.700v %v", name, i, out.Class, out.Err, out.Panic),
				replay(i, map[string]any{"error": fmt.Sprint(out.Err)}))
		}
		rep := CheckLedger(host.Ledger, known)
		if rep.Multi > 0 {
			multi = true
		}
		if isLeakTx {
			var fresh []string
			for _, id := range rep.Orphans {
				if !known[id] {
					fresh = append(fresh, id)
					known[id] = true
				}
			}
			if len(fresh) > 0 {
				sum.Fail(s.LeakKey, fmt.Sprintf("scenario %s: transaction %d commits and leaves slab(s) %v in the ledger referenced by nothing", name, i, fresh),
					replay(i, map[string]any{"leaked_slabs": fresh}))
				rep = CheckLedger(host.Ledger, known)
			}
		}
		for _, e := range rep.Errors {
			sum.Fail(healthKey(e), fmt.Sprintf("scenario %s, after transaction %d: %s", name, i, e),
				replay(i, map[string]any{"health_errors": rep.Errors}))
			break
		}
	}
	if multi {
		b, _ := json.Marshal(s.Txs)
		if k := string(b); !r.distinct[k] {
			r.distinct[k] = true
			sum.DistinctNontrivial++
		}
	}
}
