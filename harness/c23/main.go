// Command c23: correspondence + direct-observation harness for C23 "Committed storage is always healthy".
//
// Generated histories of transactions (save / load+destroy / move to other paths and accounts / copy /
// overwrite, insert and remove nested children through references, with the displaced value destroyed,
// saved elsewhere or inserted into another stored container; aborted transactions in between) run on the
// real runtime (interpreter and VM). After EVERY transaction a fresh runtime.Storage over the ledger is
// health-checked (health.go); the set of stored paths and values is compared with an independent Go mirror
// and, through the Coq case files, with the Coq model whose health invariant is proved.
package main

import (
	"encoding/json"
	"flag"
	"fmt"
	"math/bits"
	"os"
	"path/filepath"
	"sort"
	"strconv"
	"strings"

	"cvh/lib"

	"github.com/onflow/cadence"
	"github.com/onflow/cadence/common"
	"github.com/onflow/cadence/runtime"
)

var (
	prop   = flag.String("prop", "C23", "property id")
	seed   = flag.Uint64("seed", 1, "seed")
	tier   = flag.String("tier", "quick", "quick|thorough")
	dir    = flag.String("dir", ".", "output directory")
	corpus = flag.String("corpus", "", "corpus directory (histories as JSON)")
	one    = flag.String("history", "", "run a single history JSON file verbosely")
)

type txObs struct {
	Committed bool
	Dump      map[string]string
}

type runner struct {
	sum      *lib.Summary
	cw       *lib.CaseWriter
	distinct map[string]bool
	verbose  bool
}

func addrOf(i int) common.Address { return common.MustBytesToAddress([]byte{byte(i)}) }

func healthKey(e string) string {
	switch {
	case strings.Contains(e, "orphaned") || strings.Contains(e, "not reachable") || strings.Contains(e, "slabs not referenced") || strings.Contains(e, "number of root slabs"):
		return "health:leaked-slab"
	case strings.Contains(e, "dangling") || strings.Contains(e, "missing slab") || strings.Contains(e, "not found"):
		return "health:dangling-reference"
	case strings.Contains(e, "referenced") && strings.Contains(e, "times") || strings.Contains(e, "two parents") || strings.Contains(e, "two account registers"):
		return "health:double-reference"
	case strings.Contains(e, "decode"):
		return "health:undecodable"
	}
	return "health:other"
}

func sortedDump(m map[string]string) []string {
	var out []string
	for k, v := range m {
		out = append(out, k+"="+v)
	}
	sort.Strings(out)
	return out
}

func sameDump(a, b map[string]string) bool {
	if len(a) != len(b) {
		return false
	}
	for k, v := range a {
		if b[k] != v {
			return false
		}
	}
	return true
}

// digest of all stored paths and values, computed from what the REAL ledger holds; the same function
// is defined in coq/theories/C23/Cases.v over the model's state.
const digestMod = (1 << 61) - 1

func digestStep(h uint64, t int64) uint64 {
	hi, lo := bits.Mul64(h, 1000003)
	var c uint64
	lo, c = bits.Add64(lo, uint64(t+1), 0)
	hi += c
	_, rem := bits.Div64(hi, lo, digestMod)
	return rem
}

func nodeToks(n *Node, out []int64) []int64 {
	// Sh id [(0, Sh pad []); (1, Sh 0 arr); (2, Sh 0 dict)]
	out = append(out, int64(n.ID), 3, 0, int64(n.Pad), 0, 1, 0, int64(len(n.Arr)))
	for _, e := range n.Arr {
		out = append(out, 0)
		out = nodeToks(e, out)
	}
	out = append(out, 2, 0, int64(len(n.Dict)))
	kvs := append([]KV{}, n.Dict...)
	sort.SliceStable(kvs, func(i, j int) bool { return kvs[i].K < kvs[j].K })
	for _, kv := range kvs {
		out = append(out, int64(kv.K))
		out = nodeToks(kv.V, out)
	}
	return out
}

func ledgerDigest(m map[string]string) (uint64, error) {
	type ent struct {
		a, p int
		n    *Node
	}
	var es []ent
	for k, v := range m {
		var a, p int
		if _, err := fmt.Sscanf(k, "%d/p%d", &a, &p); err != nil {
			return 0, fmt.Errorf("unexpected stored path %q", k)
		}
		n, err := parseDump(v)
		if err != nil {
			return 0, fmt.Errorf("stored value at %s has unexpected form %q: %v", k, v, err)
		}
		es = append(es, ent{a, p, n})
	}
	sort.Slice(es, func(i, j int) bool {
		if es[i].a != es[j].a {
			return es[i].a < es[j].a
		}
		return es[i].p < es[j].p
	})
	h := uint64(7)
	for _, e := range es {
		h = digestStep(h, int64(e.a))
		h = digestStep(h, int64(e.p))
		for _, t := range nodeToks(e.n, nil) {
			h = digestStep(h, t)
		}
	}
	return h, nil
}

// runHistory executes a history on a fresh host and checks everything after every transaction.
func (r *runner) runHistory(h History) {
	sum := r.sum
	host := lib.NewHost()
	if !h.Validate {
		host.RT = runtime.NewRuntime(runtime.Config{}) // production configuration: no atree validation
	}
	if o := host.Deploy(addrOf(1), "C", contractSrc, h.VM); o.Err != nil || o.Panic != nil {
		sum.Fail("harness-deploy", fmt.Sprintf("cannot deploy the test contract (vm=%v): %v %v", h.VM, o.Err, o.Panic),
			map[string]any{"history": h.Name})
		return
	}
	signers := []common.Address{addrOf(1), addrOf(2), addrOf(3)}
	mirror := State{}
	var sources []string
	var toks []int64 // the history as tokens: per transaction its operations, committed flag, digest of the real ledger
	ntoks := 0
	replay := func(i int, extra map[string]any) map[string]any {
		m := map[string]any{"history": h, "failing_tx_index": i, "transactions": sources,
			"engine_vm": h.VM, "atree_validation": h.Validate,
			"how": "deploy harness/c23/contract.go as C at 0x1, run the transactions in order signed by accounts 0x1,0x2,0x3; after each, harness/c23/health.go CheckLedger on the ledger"}
		for k, v := range extra {
			m[k] = v
		}
		return m
	}
	nontrivial := false
	knownLeaks := map[string]bool{}
	for i, tx := range h.Txs {
		pattern := addsThenRemovesSameContract(tx)
		// mirror + codegen (codegen needs the mirror's knowledge of dictionary keys)
		work := mirror.clone()
		work.beginTx()
		ok := true
		var sb strings.Builder
		sb.WriteString(txHeader())
		contracts := false
		for j, op := range tx.Ops {
			present := false
			if op.Kind == "put" || op.Kind == "del" {
				if rt, has := work[op.K]; has && op.Field == FDict {
					if t := resolve(rt.N, op.Hops); t != nil {
						present = t.dictIndex(op.I) >= 0
					}
				}
			}
			sb.WriteString(opCode(op, j, present))
			isC := op.Kind == "cdeploy" || op.Kind == "cremove"
			contracts = contracts || isC
			if ok && !work.apply(op) {
				ok = false
			}
			sum.Count("op " + op.Kind)
			if op.Kind == "put" || op.Kind == "del" || op.Kind == "remove" {
				sum.Count("disp " + op.Kind + "/" + dispName(op))
			}
		}
		sb.WriteString("  }\n}\n")
		src := sb.String()
		sources = append(sources, src)
		if ok {
			mirror = work
		}

		// the embedding must be transactional for contract code too: a failed transaction leaves no code behind
		codes := make(map[common.AddressLocation][]byte, len(host.Codes))
		for k, v := range host.Codes {
			codes[k] = v
		}
		out := host.RunTx(src, nil, signers, h.VM)
		if out.Err != nil || out.Panic != nil {
			for k := range host.Codes {
				delete(host.Codes, k)
			}
			for k, v := range codes {
				host.Codes[k] = v
			}
		}
		if contracts {
			host.Iface.Programs = nil // cached programs must not survive contract changes
		}
		sum.Evaluations++
		committed := out.Err == nil && out.Panic == nil
		if pattern && h.Validate && out.Class == lib.EInternal && strings.Contains(fmt.Sprint(out.Err), "slabs not referenced") {
			// with atree validation enabled the runtime's own post-commit health check reports the known leak:
			// the ledger has been written, the transaction did commit
			committed = true
			out.Class = ""
		}
		if committed {
			sum.Count("tx committed")
		} else {
			sum.Count("tx aborted")
		}
		if r.verbose {
			fmt.Printf("--- tx %d (mirror ok=%v) class=%q\n%s", i, ok, out.Class, src)
			if out.Err != nil {
				fmt.Printf("    err: %.400s\n", out.Err.Error())
			}
		}
		switch out.Class {
		case "", "Panic", lib.EUserOther, lib.EIndexOOB:
		case "CheckerError", "ParseError":
			sum.Fail("harness-codegen", fmt.Sprintf("generated transaction rejected (%s): %.600v", out.Class, out.Err), replay(i, nil))
			return
		default:
			// internal error / Go panic / failed atree validation inside or at the end of the transaction
			sum.Fail("tx-internal-error:"+out.Class, fmt.Sprintf("transaction %d of %s failed with a non-user error (%s): %.700v %v", i, h.Name, out.Class, out.Err, out.Panic),
				replay(i, map[string]any{"error": fmt.Sprint(out.Err), "panic": fmt.Sprint(out.Panic)}))
		}

		// observation point: fresh storage over the ledger
		rep := CheckLedger(host.Ledger, knownLeaks)
		if r.verbose {
			fmt.Printf("    committed=%v pattern=%v orphans=%v errors=%v slabs=%d\n", committed, pattern, rep.Orphans, rep.Errors, rep.Slabs)
		}
		if pattern && committed {
			var fresh []string
			for _, id := range rep.Orphans {
				if !knownLeaks[id] {
					fresh = append(fresh, id)
					knownLeaks[id] = true
				}
			}
			if len(fresh) > 0 {
				sum.Fail("contract-add-remove-same-tx-leak",
					fmt.Sprintf("transaction %d of %s adds and removes the same contract; it commits and leaves slab(s) %v in the ledger referenced by nothing", i, h.Name, fresh),
					replay(i, map[string]any{"leaked_slabs": fresh}))
				rep = CheckLedger(host.Ledger, knownLeaks) // anything else wrong is still reported
			}
		}
		sum.Count(fmt.Sprintf("slab registers %s", bucket(rep.Slabs)))
		if rep.Multi > 0 {
			nontrivial = true
		}
		for _, e := range rep.Errors {
			sum.Fail(healthKey(e), fmt.Sprintf("after transaction %d of %s (vm=%v): %s", i, h.Name, h.VM, e),
				replay(i, map[string]any{"health_errors": rep.Errors, "stored": sortedDump(rep.Roots)}))
			break
		}
		if committed != ok {
			sum.Fail("tx-status", fmt.Sprintf("transaction %d of %s: committed=%v but the reference model says %v (error: %.300v)", i, h.Name, committed, ok, out.Err),
				replay(i, map[string]any{"observed_committed": committed, "required_committed": ok}))
		}
		want := mirror.dump()
		if !sameDump(rep.Roots, want) {
			sum.Fail("stored-values", fmt.Sprintf("after transaction %d of %s the stored values differ from the reference model", i, h.Name),
				replay(i, map[string]any{"observed": sortedDump(rep.Roots), "required": sortedDump(want)}))
			// keep following the real state is impossible; stop this history
			if d, err := ledgerDigest(rep.Roots); err == nil {
				toks = appendTx(toks, tx, committed, d)
				ntoks++
				r.emit(h, toks, ntoks, sources, true)
			}
			return
		}
		d, err := ledgerDigest(rep.Roots)
		if err != nil {
			sum.Fail("stored-values", err.Error(), replay(i, nil))
			return
		}
		toks = appendTx(toks, tx, committed, d)
		ntoks++
	}

	// read everything back through the runtime with a script (same engine)
	so := host.RunScript(dumpScript(), nil, h.VM)
	sum.Evaluations++
	if so.Err != nil || so.Panic != nil {
		key := "script-read:" + so.Class
		sum.Fail(key, fmt.Sprintf("reading all stored values back with a script failed after %s: %.600v %v", h.Name, so.Err, so.Panic), replay(len(h.Txs)-1, nil))
	} else {
		got := map[string]string{}
		if arr, ok := so.Value.(cadence.Array); ok {
			for _, v := range arr.Values {
				s := string(v.(cadence.String))
				if j := strings.Index(s, "="); j > 0 {
					got[s[:j]] = s[j+1:]
				}
			}
		}
		if !sameDump(got, mirror.dump()) {
			sum.Fail("script-read-values", fmt.Sprintf("values read back by a script after %s differ from the reference model", h.Name),
				replay(len(h.Txs)-1, map[string]any{"observed": sortedDump(got), "required": sortedDump(mirror.dump())}))
		}
	}

	r.emit(h, toks, ntoks, sources, false)
	if nontrivial {
		b, _ := json.Marshal(h.Txs)
		k := string(b)
		if !r.distinct[k] {
			r.distinct[k] = true
			sum.DistinctNontrivial++
		}
	}
	sum.Sample(map[string]any{"history": h.Name, "vm": h.VM, "txs": len(h.Txs), "first_tx": sources[0], "final_stored": sortedDump(mirror.dump())})
}

func appendTx(toks []int64, tx Tx, committed bool, digest uint64) []int64 {
	toks = tokTx(tx, toks)
	c := int64(0)
	if committed {
		c = 1
	}
	return append(toks, c, int64(digest))
}

// emit writes the history (possibly truncated at a disagreeing transaction) as a Coq case.
func (r *runner) emit(h History, toks []int64, ntx int, sources []string, truncated bool) {
	if r.cw == nil {
		return
	}
	var sb strings.Builder
	sb.WriteString("[")
	sb.WriteString(strconv.Itoa(ntx))
	for _, t := range toks {
		sb.WriteString(";")
		sb.WriteString(lib.ZI(t))
	}
	sb.WriteString("]")
	r.cw.Add(sb.String(), map[string]any{"history": h.Name, "vm": h.VM, "validate": h.Validate, "txs": ntx,
		"truncated_at_disagreement": truncated, "transactions": sources})
}

// addsThenRemovesSameContract: the input class of the known finding.
func addsThenRemovesSameContract(tx Tx) bool {
	added := map[[2]int]bool{}
	for _, op := range tx.Ops {
		switch op.Kind {
		case "cdeploy":
			added[[2]int{op.K.A, op.I}] = true
		case "cremove":
			if added[[2]int{op.K.A, op.I}] {
				return true
			}
		}
	}
	return false
}

func dispName(op Op) string {
	if op.D.Kind == "" {
		return "destroy"
	}
	return op.D.Kind
}

func bucket(n int) string {
	switch {
	case n <= 3:
		return "<=3"
	case n <= 10:
		return "4-10"
	case n <= 30:
		return "11-30"
	}
	return ">30"
}

func loadHistories(dir string) []History {
	var out []History
	if dir == "" {
		return nil
	}
	files, _ := filepath.Glob(filepath.Join(dir, "*.json"))
	sort.Strings(files)
	for _, f := range files {
		b, err := os.ReadFile(f)
		if err != nil {
			continue
		}
		var hs []History
		if err := json.Unmarshal(b, &hs); err != nil {
			var h History
			if err2 := json.Unmarshal(b, &h); err2 != nil {
				fmt.Fprintf(os.Stderr, "corpus file %s: %v\n", f, err)
				os.Exit(3)
			}
			hs = []History{h}
		}
		for i := range hs {
			if hs[i].Name == "" {
				hs[i].Name = fmt.Sprintf("%s#%d", filepath.Base(f), i)
			}
		}
		out = append(out, hs...)
	}
	return out
}

func main() {
	flag.Parse()
	sum := &lib.Summary{}
	if *prop != "C23" {
		fmt.Fprintln(os.Stderr, "unknown prop", *prop)
		os.Exit(2)
	}
	r := &runner{sum: sum, distinct: map[string]bool{}}
	if *one == "raw" {
		r.verbose = true
		for _, s := range loadRaw(*corpus) {
			for _, vm := range []bool{false, true} {
				r.runRaw(s, vm, false)
				r.runRaw(s, vm, true)
			}
		}
		for _, f := range sum.Failures {
			fmt.Println(f.Key, "::", f.What)
		}
		return
	}
	if *one != "" {
		r.verbose = true
		for _, h := range loadHistories(filepath.Dir(*one)) {
			if strings.HasPrefix(h.Name, filepath.Base(*one)) || true {
				r.runHistory(h)
			}
		}
		b, _ := json.MarshalIndent(sum.Failures, "", " ")
		fmt.Println(string(b))
		return
	}
	r.cw = &lib.CaseWriter{
		Dir: *dir, Prefix: "cases_C23",
		Header:   "From CV Require Import C23.Cases.",
		ElemType: "list Z",
		CheckFn:  "check_tokens",
		PerFile:  12,
	}
	sum.Rule = "one evaluation = one transaction executed on the real runtime followed by a fresh-storage health check of the whole ledger " +
		"(plus one read-back script per history). Histories: 3 accounts x 5 paths, resources C.R and structs C.S with nested arrays and " +
		"dictionaries (depth <= 3, pads 0..2600 bytes, wide arrays/dictionaries of 10..50 elements), 1-4 operations per transaction, " +
		"~10% deliberately invalid operations and panics (aborted transactions). A history is non-trivial when at least one committed " +
		"ledger state held slab registers besides the account roots (values crossed the atree inlining threshold, so a missed removal is " +
		"observable); distinct = distinct operation sequences."

	// corpus first (hand-picked histories), alternating engines
	for _, h := range loadHistories(*corpus) {
		for _, vm := range []bool{false, true} {
			hh := h
			hh.VM = vm
			hh.Name = fmt.Sprintf("%s/vm=%v", h.Name, vm)
			sum.Count("history corpus")
			r.runHistory(hh)
		}
	}

	// hand-written Cadence scenarios (no model prediction; health after every transaction)
	for _, s := range loadRaw(*corpus) {
		for _, vm := range []bool{false, true} {
			for _, validate := range []bool{false, true} {
				sum.Count("raw scenario run")
				r.runRaw(s, vm, validate)
			}
		}
	}

	rng := lib.NewRng(*seed)
	g := &Gen{r: rng}
	nh, ntx := 44, 9
	if *tier == "thorough" {
		nh, ntx = 450, 14
	}
	for i := 0; i < nh; i++ {
		vm := i%2 == 1
		validate := (i/2)%2 == 1
		n := ntx/2 + rng.Intn(ntx)
		h := g.history(fmt.Sprintf("gen-%d-%d", *seed, i), vm, validate, n)
		sum.Count(fmt.Sprintf("history vm=%v validate=%v", vm, validate))
		r.runHistory(h)
	}
	r.cw.Close()
	sum.CaseFiles = r.cw.Files
	sum.Write(*dir)
}
