package main

import (
	"cvh/lib"
)

// Gen generates histories: every random choice comes from the seeded Rng; the evolving mirror
// keeps the operations mostly valid (a stream of deliberately invalid ones exercises aborts).
type Gen struct {
	r      *lib.Rng
	nextID int
	st     State
}

var padChoices = []int{0, 0, 7, 40, 150, 300, 480, 520, 600, 900, 1500, 2600}

func (g *Gen) id() int { g.nextID++; return g.nextID }

// newNode builds a random composite. budget bounds the number of composites.
func (g *Gen) newNode(depth int, budget *int) *Node {
	*budget--
	n := &Node{ID: g.id(), Pad: lib.Pick(g.r, padChoices)}
	if depth <= 0 || *budget <= 0 {
		return n
	}
	switch {
	case g.r.Chance(1, 14):
		// wide array of small values: crosses the slab split threshold (several data slabs + metadata slab)
		w := 12 + g.r.Intn(40)
		for i := 0; i < w && *budget > 0; i++ {
			*budget--
			n.Arr = append(n.Arr, &Node{ID: g.id(), Pad: lib.Pick(g.r, []int{0, 0, 3, 30})})
		}
	default:
		for i, k := 0, g.r.Intn(4); i < k && *budget > 0; i++ {
			n.Arr = append(n.Arr, g.newNode(depth-1, budget))
		}
	}
	switch {
	case g.r.Chance(1, 16):
		w := 10 + g.r.Intn(30)
		for i := 0; i < w && *budget > 0; i++ {
			*budget--
			n.Dict = append(n.Dict, KV{i * 3, &Node{ID: g.id(), Pad: lib.Pick(g.r, []int{0, 0, 3, 30})}})
		}
	default:
		for i, k := 0, g.r.Intn(4); i < k && *budget > 0; i++ {
			key := g.r.Intn(8)
			if n.dictIndex(key) >= 0 {
				continue
			}
			n.Dict = append(n.Dict, KV{key, g.newNode(depth-1, budget)})
		}
	}
	return n
}

func (g *Gen) value() *Node {
	b := 2 + g.r.Intn(14)
	if g.r.Chance(1, 6) {
		b = 60
	}
	return g.newNode(g.r.Intn(3), &b)
}

func (g *Gen) smallValue() *Node {
	b := 1 + g.r.Intn(5)
	return g.newNode(g.r.Intn(2), &b)
}

func (g *Gen) anyKey() Key { return Key{1 + g.r.Intn(nAccounts), g.r.Intn(5)} }

func (g *Gen) freeKey() (Key, bool) {
	for i := 0; i < 12; i++ {
		k := g.anyKey()
		if _, ok := g.st[k]; !ok {
			return k, true
		}
	}
	return Key{}, false
}

func (g *Gen) usedKey(res *bool) (Key, bool) {
	ks := g.st.keys()
	var cand []Key
	for _, k := range ks {
		if res == nil || g.st[k].Res == *res {
			cand = append(cand, k)
		}
	}
	if len(cand) == 0 {
		return Key{}, false
	}
	return lib.Pick(g.r, cand), true
}

// walk picks a composite inside the value at k by a random descent.
func (g *Gen) walk(n *Node) ([]Hop, *Node) {
	var hops []Hop
	for g.r.Chance(3, 5) {
		na, nd := len(n.Arr), len(n.Dict)
		if na+nd == 0 {
			break
		}
		j := g.r.Intn(na + nd)
		if j < na {
			hops = append(hops, Hop{true, j})
			n = n.Arr[j]
		} else {
			kv := n.Dict[j-na]
			hops = append(hops, Hop{false, kv.K})
			n = kv.V
		}
	}
	return hops, n
}

// disp chooses what happens with a detached value of the given kind.
func (g *Gen) disp(res bool) Disp {
	switch x := g.r.Intn(10); {
	case x < 4:
		return Disp{Kind: "destroy"}
	case x < 7:
		if k, ok := g.freeKey(); ok && !g.r.Chance(1, 12) {
			return Disp{Kind: "save", K: k}
		}
		return Disp{Kind: "save", K: g.anyKey()} // maybe occupied: abort
	default:
		k, ok := g.usedKey(&res)
		if !ok {
			return Disp{Kind: "destroy"}
		}
		hops, t := g.walk(g.st[k].N)
		if g.r.Bool() {
			pos := g.r.Intn(len(t.Arr) + 1)
			if g.r.Chance(1, 15) {
				pos = len(t.Arr) + 1 + g.r.Intn(2)
			}
			return Disp{Kind: "insert", K: k, Hops: hops, Field: FArr, I: pos}
		}
		return Disp{Kind: "insert", K: k, Hops: hops, Field: FDict, I: g.r.Intn(10)}
	}
}

func (g *Gen) op() Op {
	nroots := len(g.st)
	big := g.st.nodes() > 160
	x := g.r.Intn(100)
	switch {
	case x < 3:
		return Op{Kind: "fail"}
	case x >= 97:
		a, i := 1+g.r.Intn(nAccounts), g.r.Intn(2)
		_, deployed := g.st[contractKey(a, i)]
		_, touched := g.st[touchedKey(a, i)]
		if touched {
			// adding and removing the same contract in one transaction is the known finding (exercised by the corpus); not generated
			return Op{Kind: "fail"}
		}
		if deployed && !g.r.Chance(1, 6) {
			return Op{Kind: "cremove", K: Key{A: a}, I: i}
		}
		return Op{Kind: "cdeploy", K: Key{A: a}, I: i, V: &Node{Pad: g.r.Intn(7)}}
	case (x < 25 && !big) || nroots == 0:
		res := g.r.Bool()
		k, ok := g.freeKey()
		if !ok || g.r.Chance(1, 12) {
			k = g.anyKey()
		}
		return Op{Kind: "save", K: k, Res: res, V: g.value()}
	case x < 37 || (big && x < 55):
		k, ok := g.usedKey(nil)
		if !ok || g.r.Chance(1, 12) {
			k = g.anyKey()
		}
		res := true
		if r, ok := g.st[k]; ok {
			res = r.Res
		}
		return Op{Kind: "remove", K: k, Res: res, D: g.disp(res)}
	case x < 43 && !big:
		f := false
		k, ok := g.usedKey(&f)
		if !ok {
			return Op{Kind: "fail"}
		}
		k2, ok2 := g.freeKey()
		if !ok2 || g.r.Chance(1, 10) {
			k2 = g.anyKey()
		}
		return Op{Kind: "copy", K: k, K2: k2, Res: false}
	}
	// operations through references into a stored value
	k, ok := g.usedKey(nil)
	if !ok {
		return Op{Kind: "fail"}
	}
	res := g.st[k].Res
	hops, t := g.walk(g.st[k].N)
	if g.r.Chance(1, 25) { // a hop that does not exist
		hops = append(hops, Hop{g.r.Bool(), 90 + g.r.Intn(5)})
		t = &Node{}
	}
	switch y := g.r.Intn(100); {
	case y < 8:
		return Op{Kind: "put", K: k, Res: res, Hops: hops, Field: FPad, V: &Node{Pad: lib.Pick(g.r, padChoices)}}
	case y < 14:
		return Op{Kind: "put", K: k, Res: res, Hops: hops, Field: FWholeArr, V: g.smallValue()}
	case y < 20:
		return Op{Kind: "put", K: k, Res: res, Hops: hops, Field: FWholeDic, V: g.smallValue()}
	case y < 34:
		pos := g.r.Intn(len(t.Arr) + 1)
		if g.r.Chance(1, 15) {
			pos = len(t.Arr) + 1
		}
		return Op{Kind: "put", K: k, Res: res, Hops: hops, Field: FArr, Ins: true, I: pos, V: g.smallValue()}
	case y < 50:
		pos := 0
		if len(t.Arr) > 0 && !g.r.Chance(1, 15) {
			pos = g.r.Intn(len(t.Arr))
		} else {
			pos = len(t.Arr)
		}
		return Op{Kind: "put", K: k, Res: res, Hops: hops, Field: FArr, I: pos, V: g.smallValue(), D: g.disp(res)}
	case y < 68:
		key := g.r.Intn(10)
		if len(t.Dict) > 0 && g.r.Chance(2, 3) {
			key = lib.Pick(g.r, t.Dict).K // overwrite an existing entry
		}
		return Op{Kind: "put", K: k, Res: res, Hops: hops, Field: FDict, I: key, V: g.smallValue(), D: g.disp(res)}
	case y < 84:
		pos := 0
		if len(t.Arr) > 0 && !g.r.Chance(1, 15) {
			pos = g.r.Intn(len(t.Arr))
		} else {
			pos = len(t.Arr)
		}
		return Op{Kind: "del", K: k, Res: res, Hops: hops, Field: FArr, I: pos, D: g.disp(res)}
	default:
		key := g.r.Intn(10)
		if len(t.Dict) > 0 && g.r.Chance(4, 5) {
			key = lib.Pick(g.r, t.Dict).K
		}
		return Op{Kind: "del", K: k, Res: res, Hops: hops, Field: FDict, I: key, D: g.disp(res)}
	}
}

// history generates one history; the generator's mirror follows committed transactions only.
func (g *Gen) history(name string, vm, validate bool, ntx int) History {
	h := History{Name: name, VM: vm, Validate: validate}
	g.st = State{}
	for i := 0; i < ntx; i++ {
		var tx Tx
		work := g.st.clone()
		work.beginTx()
		saved := g.st
		g.st = work
		ok := true
		nops := 1 + g.r.Intn(4)
		for j := 0; j < nops; j++ {
			op := g.op()
			tx.Ops = append(tx.Ops, op)
			if ok && !g.st.apply(op) {
				ok = false
			}
		}
		if !ok {
			g.st = saved
		}
		h.Txs = append(h.Txs, tx)
	}
	return h
}
