// Command c50: correspondence + direct-oracle harness for C50
// (access modifiers and constant fields are enforced by the checker).
//
// Worlds of contracts (one or two accounts), a script and a transaction are generated with one access
// expression per line: every member access kind x every site scope x read / call / assign (directly,
// through references, through optionals).  The real checker (through the runtime, both engines) reports
// errors per line; they are compared with an independent scope oracle written here and written out as
// Coq case files evaluated by the model C50/Model.v.  A second fragment generates initializer bodies.
package main

import (
	"encoding/json"
	"flag"
	"fmt"
	"os"
	"path/filepath"
	"sort"
	"strings"

	"cvh/lib"

	"github.com/onflow/cadence/ast"
	"github.com/onflow/cadence/common"
	"github.com/onflow/cadence/sema"
	"github.com/onflow/cadence/stdlib"
)

var (
	prop      = flag.String("prop", "C50", "property id")
	seed      = flag.Uint64("seed", 1, "seed")
	tier      = flag.String("tier", "quick", "quick|thorough")
	dir       = flag.String("dir", ".", "output directory")
	corpusDir = flag.String("corpus", "", "directory with hand-picked cases (run first)")
)

const header = "From CV Require Import C50.Cases."

// ---------------------------------------------------------------- access kinds and members

type akind struct {
	Tag     string // suffix of member names
	Keyword func(inC1 bool) string
	Coq     string
}

var (
	kAll      = akind{"All", func(bool) string { return "access(all)" }, "(APrim PAll)"}
	kSelf     = akind{"Self", func(bool) string { return "access(self)" }, "(APrim PSelf)"}
	kContract = akind{"Contract", func(bool) string { return "access(contract)" }, "(APrim PContract)"}
	kAccount  = akind{"Account", func(bool) string { return "access(account)" }, "(APrim PAccount)"}
	kEnt      = akind{"Ent", func(bool) string { return "access(E)" }, "(ASet Conj [7])"} // entitlement C1.E is number 7
)

// the built-in array function `append` has access(Insert | Mutate): entitlements 8 and 9 in the model
var kMutate = akind{"Mutate", func(bool) string { return "access(Insert | Mutate)" }, "(ASet Disj [8;9])"}

var contractKinds = []akind{kAll, kSelf, kContract, kAccount}
var structKinds = []akind{kAll, kSelf, kContract, kAccount, kEnt}

// numeric names of the declarations in the Coq model
const (
	nC1 = 1
	nS  = 2
	nS2 = 3
	nC2 = 4
	nT  = 5
	nC3 = 6
)

type query struct {
	Line      int
	Container string // "C1" | "S"
	Kind      akind
	MKind     string // let var fun
	Via       string // owned ref refE opt
	Op        string // read call assign
	Site      string // site label
	Text      string
}

func (q query) coq() string {
	cont := "(T (LAddr 1 1) [(1,true)])"
	if q.Container == "S" {
		cont = "(T (LAddr 1 1) [(1,true);(2,false)])"
	}
	if q.Container == "builtin" {
		cont = "(T (LOther 0) [])" // [Int]: not a declared composite
	}
	if q.Container == "L" {
		cont = "(T (LOther 101) [(7,false)])" // struct declared at the top level of a script: no enclosing contract
	}
	mk := map[string]string{"let": "VLet", "var": "VVar", "fun": "VFun"}[q.MKind]
	via := map[string]string{
		"owned": "ViaOwned",
		"ref":   "(ViaRef Unauthorized)",
		"refE":  "(ViaRef (ASet Conj [7]))",
		"opt":   "(ViaOpt ViaOwned)",
		"optRef":  "(ViaOpt (ViaRef Unauthorized))",
		"optRefE": "(ViaOpt (ViaRef (ASet Conj [7])))",
		// a non-mapped field reached through any reference is an unauthorized reference
		"fieldOfRef": "(ViaRef Unauthorized)",
	}[q.Via]
	op := map[string]string{"read": "OpRead", "call": "OpCall", "assign": "OpAssign"}[q.Op]
	return fmt.Sprintf("Q %d %s %s %s %s %s", q.Line, cont, q.Kind.Coq, mk, via, op)
}

// ---------------------------------------------------------------- source builder

type builder struct {
	lines   []string
	queries []query
}

func (b *builder) add(format string, a ...any) {
	for _, l := range strings.Split(fmt.Sprintf(format, a...), "\n") {
		b.lines = append(b.lines, l)
	}
}

func (b *builder) source() string { return strings.Join(b.lines, "\n") + "\n" }

// memberQueries emits one access per line for every kind and operation on the given handle.
func (b *builder) memberQueries(site, handle, container, via string, kinds []akind, readOnly bool) []query {
	var qs []query
	emit := func(k akind, mkind, op, text string) {
		b.lines = append(b.lines, "            "+text)
		q := query{Line: len(b.lines), Container: container, Kind: k, MKind: mkind, Via: via, Op: op, Site: site, Text: text}
		qs = append(qs, q)
		b.queries = append(b.queries, q)
	}
	dot := "."
	if strings.HasPrefix(via, "opt") {
		dot = "?."
	}
	for _, k := range kinds {
		n := len(b.lines)
		emit(k, "let", "read", fmt.Sprintf("let t%da = %s%sf%s", n, handle, dot, k.Tag))
		emit(k, "var", "read", fmt.Sprintf("let t%db = %s%sv%s", n, handle, dot, k.Tag))
		emit(k, "fun", "call", fmt.Sprintf("let t%dc = %s%sg%s()", n, handle, dot, k.Tag))
		if readOnly {
			continue
		}
		emit(k, "var", "assign", fmt.Sprintf("%s.v%s = 2", handle, k.Tag))
		emit(k, "let", "assign", fmt.Sprintf("%s.f%s = 2", handle, k.Tag))
	}
	return qs
}

// structHandles: a value of C1.S and the ways of reaching it
func (b *builder) structHandles(site, owned string, sName, eName string) []query {
	b.add("            let r = &%s as &%s", owned, sName)
	b.add("            let ra = &%s as auth(%s) &%s", owned, eName, sName)
	b.add("            let so: %s? = %s", sName, owned)
	var qs []query
	qs = append(qs, b.memberQueries(site, owned, "S", "owned", structKinds, false)...)
	qs = append(qs, b.memberQueries(site, "r", "S", "ref", structKinds, false)...)
	qs = append(qs, b.memberQueries(site, "ra", "S", "refE", structKinds, false)...)
	qs = append(qs, b.memberQueries(site, "so", "S", "opt", structKinds, true)...)
	b.add("            let ro: (&%s)? = r", sName)
	b.add("            let rao: (auth(%s) &%s)? = ra", eName, sName)
	qs = append(qs, b.memberQueries(site, "ro", "S", "optRef", structKinds, true)...)
	qs = append(qs, b.memberQueries(site, "rao", "S", "optRefE", structKinds, true)...)
	// mutation of a container-typed field: directly, and through references (also one holding Mutate)
	b.add("            let rm = &%s as auth(Mutate) &%s", owned, sName)
	for _, h := range [][2]string{{owned, "owned"}, {"r", "fieldOfRef"}, {"ra", "fieldOfRef"}, {"rm", "fieldOfRef"}} {
		text := h[0] + ".arr.append(1)"
		b.lines = append(b.lines, "            "+text)
		q := query{Line: len(b.lines), Container: "builtin", Kind: kMutate, MKind: "fun", Via: h[1], Op: "call", Site: site, Text: text}
		qs = append(qs, q)
		b.queries = append(b.queries, q)
	}
	return qs
}

// contractHandles: members of contract C1 reached by name.  Inside C1 the name (or self) denotes the contract
// value; in an importing program the imported contract is typed as an unauthorized reference &C1
// (a reference to a contract cannot be created explicitly: "cannot move contract").
func (b *builder) contractHandles(site, name string) []query {
	via := "owned"
	if !strings.HasPrefix(site, "C1") {
		via = "ref"
	}
	return b.memberQueries(site, name, "C1", via, contractKinds, false)
}

func coqSite(qs []query) string {
	parts := make([]string, len(qs))
	for i, q := range qs {
		parts[i] = q.coq()
	}
	return "[" + strings.Join(parts, ";\n ") + "]"
}

func memberDecls(b *builder, kinds []akind, indent string) {
	for _, k := range kinds {
		b.add("%s%s let f%s: Int", indent, k.Keyword(true), k.Tag)
		b.add("%s%s var v%s: Int", indent, k.Keyword(true), k.Tag)
		b.add("%s%s fun g%s(): Int { return 1 }", indent, k.Keyword(true), k.Tag)
	}
}

func memberInits(b *builder, kinds []akind, indent string) {
	for _, k := range kinds {
		b.add("%sself.f%s = 1", indent, k.Tag)
		b.add("%sself.v%s = 1", indent, k.Tag)
	}
}

type programCase struct {
	Name    string
	Source  string
	Coq     string // Coq term of the program
	Queries []query
	Kind    string // contract script tx
	Addr    int
	CName   string
}

// contract C1: full = with access sites in its functions
func buildC1(full bool) programCase {
	b := &builder{}
	b.add("access(all) contract C1 {")
	b.add("    access(all) entitlement E")
	memberDecls(b, contractKinds, "    ")
	b.add("    access(all) struct S {")
	memberDecls(b, structKinds, "        ")
	b.add("        access(all) let arr: [Int]")
	b.add("        init() {")
	memberInits(b, structKinds, "            ")
	b.add("            self.arr = []")
	b.add("        }")
	var qSelf, qOther, qS2, qC1 []query
	b.add("        access(all) fun siteSelf() {")
	if full {
		qSelf = append(qSelf, b.memberQueries("C1.S", "self", "S", "owned", structKinds, false)...)
		qSelf = append(qSelf, b.contractHandles("C1.S", "C1")...)
	}
	b.add("        }")
	b.add("        access(all) fun siteOther(_ o: S) {")
	if full {
		qOther = b.structHandles("C1.S", "o", "S", "E")
	}
	b.add("        }")
	b.add("    }")
	b.add("    access(all) struct S2 {")
	b.add("        init() {}")
	b.add("        access(all) fun site(_ o: S) {")
	if full {
		qS2 = b.structHandles("C1.S2", "o", "S", "E")
		qS2 = append(qS2, b.contractHandles("C1.S2", "C1")...)
	}
	b.add("        }")
	b.add("    }")
	b.add("    access(all) fun makeS(): S { return S() }")
	b.add("    access(all) fun site() {")
	if full {
		b.add("            let s = S()")
		qC1 = b.structHandles("C1", "s", "S", "E")
		qC1 = append(qC1, b.contractHandles("C1", "self")...)
	}
	b.add("    }")
	b.add("    init() {")
	memberInits(b, contractKinds, "        ")
	b.add("    }")
	b.add("}")
	coq := fmt.Sprintf("P (LAddr 1 %d) (DCons (Decl %d true [%s] (DCons (Decl %d false [%s; %s] DNil) (DCons (Decl %d false [%s] DNil) DNil))) DNil) []",
		nC1, nC1, coqSite(qC1), nS, coqSite(qSelf), coqSite(qOther), nS2, coqSite(qS2))
	return programCase{Name: "C1", Source: b.source(), Coq: coq, Queries: b.queries, Kind: "contract", Addr: 1, CName: "C1"}
}

// another contract importing C1, with a nested struct
func buildOther(name string, num, addr int, withNested bool) programCase {
	b := &builder{}
	b.add("import C1 from 0x1")
	b.add("access(all) contract %s {", name)
	var qT, qC []query
	if withNested {
		b.add("    access(all) struct T {")
		b.add("        init() {}")
		b.add("        access(all) fun site() {")
		b.add("            let s = C1.makeS()")
		qT = b.structHandles(name+".T", "s", "C1.S", "C1.E")
		qT = append(qT, b.contractHandles(name+".T", "C1")...)
		b.add("        }")
		b.add("    }")
	}
	b.add("    access(all) fun site() {")
	b.add("            let s = C1.makeS()")
	qC = b.structHandles(name, "s", "C1.S", "C1.E")
	qC = append(qC, b.contractHandles(name, "C1")...)
	b.add("    }")
	b.add("    init() {}")
	b.add("}")
	nested := "DNil"
	if withNested {
		nested = fmt.Sprintf("(DCons (Decl %d false [%s] DNil) DNil)", nT, coqSite(qT))
	}
	coq := fmt.Sprintf("P (LAddr %d %d) (DCons (Decl %d true [%s] %s) DNil) []", addr, num, num, coqSite(qC), nested)
	return programCase{Name: name, Source: b.source(), Coq: coq, Queries: b.queries, Kind: "contract", Addr: addr, CName: name}
}

func buildScript() programCase {
	b := &builder{}
	b.add("import C1 from 0x1")
	b.add("access(all) fun main() {")
	b.add("            let s = C1.makeS()")
	qs := b.structHandles("script", "s", "C1.S", "C1.E")
	qs = append(qs, b.contractHandles("script", "C1")...)
	b.add("}")
	return programCase{Name: "script", Source: b.source(), Coq: fmt.Sprintf("P (LOther 100) DNil [%s]", coqSite(qs)), Queries: b.queries, Kind: "script"}
}

// a script with its own top-level struct declarations (no contract, no account)
func buildScriptLocal() programCase {
	b := &builder{}
	kinds := []akind{kAll, kSelf, kContract, kAccount}
	b.add("access(all) struct L {")
	memberDecls(b, kinds, "    ")
	b.add("    init() {")
	memberInits(b, kinds, "        ")
	b.add("    }")
	b.add("    access(all) fun siteSelf(_ o: L) {")
	qSelf := b.memberQueries("L", "self", "L", "owned", kinds, false)
	qSelf = append(qSelf, b.memberQueries("L", "o", "L", "owned", kinds, false)...)
	b.add("    }")
	b.add("}")
	b.add("access(all) struct L2 {")
	b.add("    init() {}")
	b.add("    access(all) fun site(_ o: L) {")
	qL2 := b.memberQueries("L2", "o", "L", "owned", kinds, false)
	b.add("    }")
	b.add("}")
	b.add("access(all) fun main() {")
	b.add("            let o = L()")
	qMain := b.memberQueries("scriptMain", "o", "L", "owned", kinds, false)
	b.add("}")
	coq := fmt.Sprintf("P (LOther 101) (DCons (Decl 7 false [%s] DNil) (DCons (Decl 8 false [%s] DNil) DNil)) [%s]",
		coqSite(qSelf), coqSite(qL2), coqSite(qMain))
	return programCase{Name: "scriptLocal", Source: b.source(), Coq: coq, Queries: b.queries, Kind: "script"}
}

func buildTx() programCase {
	b := &builder{}
	b.add("import C1 from 0x1")
	b.add("transaction {")
	b.add("    prepare(acct: &Account) {")
	b.add("            let s = C1.makeS()")
	qs := b.structHandles("tx", "s", "C1.S", "C1.E")
	qs = append(qs, b.contractHandles("tx", "C1")...)
	b.add("    }")
	b.add("}")
	return programCase{Name: "tx", Source: b.source(), Coq: fmt.Sprintf("P (LOther 200) DNil [%s]", coqSite(qs)), Queries: b.queries, Kind: "tx"}
}

// ---------------------------------------------------------------- observing the checker

type lineErrs struct{ Access, Assign, Const bool }

// walkErrors visits every leaf error below err (ChildErrors / Unwrap).
func walkErrors(err error, f func(error), depth int) {
	if err == nil || depth > 30 {
		return
	}
	if p, ok := err.(interface{ ChildErrors() []error }); ok {
		children := p.ChildErrors()
		if len(children) > 0 {
			for _, c := range children {
				walkErrors(c, f, depth+1)
			}
			return
		}
	}
	if u, ok := err.(interface{ Unwrap() error }); ok && u.Unwrap() != nil {
		walkErrors(u.Unwrap(), f, depth+1)
		return
	}
	f(err)
}

// observe maps line -> reported access errors; anything else is returned in `other`.
func observe(err error) (map[int]*lineErrs, []string) {
	res := map[int]*lineErrs{}
	var other []string
	get := func(line int) *lineErrs {
		if res[line] == nil {
			res[line] = &lineErrs{}
		}
		return res[line]
	}
	walkErrors(err, func(e error) {
		line := -1
		if p, ok := e.(ast.HasPosition); ok {
			line = p.StartPosition().Line
		}
		switch e.(type) {
		case *stdlib.InvalidContractDeploymentOriginError:
			// wrapper added by the deployment function next to the checker errors of the contract
		case *sema.InvalidAccessError:
			get(line).Access = true
		case *sema.InvalidAssignmentAccessError:
			get(line).Assign = true
		case *sema.AssignmentToConstantMemberError:
			get(line).Const = true
		default:
			other = append(other, fmt.Sprintf("line %d: %T: %v", line, e, firstLine(e.Error())))
		}
	}, 0)
	return res, other
}

func firstLine(s string) string {
	if i := strings.IndexByte(s, '\n'); i >= 0 {
		return s[:i]
	}
	return s
}

func addr(n int) common.Address { return common.MustBytesToAddress([]byte{byte(n)}) }

// ---------------------------------------------------------------- independent scope oracle

// relation of a site to a member's container, by construction of the world
func relation(site, container string, acct map[string]int) string {
	if container == "builtin" {
		return "builtin"
	}
	top := strings.Split(site, ".")[0] // C1, C2, C3, script, tx
	if container == "L" {
		if site == "L" {
			return "insideContainer"
		}
		return "sameLocationNoContract" // same script, outside the declaring struct, no contract anywhere
	}
	switch {
	case top == "C1":
		if container == "C1" {
			return "insideContainer" // every site of C1, nested or not, is inside contract C1
		}
		if site == "C1.S" {
			return "insideContainer"
		}
		return "insideContract"
	case top == "script" || top == "tx":
		return "noAccount"
	default:
		if acct[top] == 1 {
			return "sameAccount"
		}
		return "otherAccount"
	}
}

func oracle(q query, acct map[string]int) lineErrs {
	rel := relation(q.Site, q.Container, acct)
	readable := false
	switch q.Kind.Tag {
	case "All":
		readable = true
	case "Self":
		readable = rel == "insideContainer"
	case "Contract":
		readable = rel == "insideContainer" || rel == "insideContract"
	case "Account":
		// code of the same location is trivially code of the same account
		readable = rel == "insideContainer" || rel == "insideContract" || rel == "sameAccount" || rel == "sameLocationNoContract"
	case "Ent":
		readable = q.Via != "ref" && q.Via != "optRef" // owned values are fully authorized; ra holds E; r holds nothing
	case "Mutate":
		readable = q.Via == "owned" // through a reference the field is an unauthorized reference: no mutation
	}
	e := lineErrs{Access: !readable}
	if q.Op == "assign" {
		e.Assign = rel != "insideContainer"
		e.Const = q.MKind != "var"
	}
	return e
}

// ---------------------------------------------------------------- worlds

type hctx struct {
	sum      *lib.Summary
	count    map[string]int
	files    []string
	distinct map[string]bool
	rng      *lib.Rng
}

func (c *hctx) fail(key, what string, replay any) {
	if c.count[key] == 0 {
		c.sum.Fail(key, what, replay)
	}
	c.count[key]++
}

func b2c(b bool) string {
	if b {
		return "true"
	}
	return "false"
}

func (c *hctx) runWorld(w *lib.CaseWriter, acctC2, acctC3 int, nested bool) {
	acct := map[string]int{"C1": 1, "C2": acctC2, "C3": acctC3}
	progs := []programCase{
		buildC1(true),
		buildOther("C2", nC2, acctC2, nested),
		buildOther("C3", nC3, acctC3, false),
		buildScript(),
		buildTx(),
		buildScriptLocal(),
	}
	clean := buildC1(false)
	obsByEngine := map[bool]map[string]map[int]*lineErrs{}
	for _, vm := range []bool{false, true} {
		h := lib.NewHost()
		obsByEngine[vm] = map[string]map[int]*lineErrs{}
		run := func(p programCase) (map[int]*lineErrs, []string, error) {
			var out lib.Outcome
			switch p.Kind {
			case "contract":
				out = h.Deploy(addr(p.Addr), p.CName, p.Source, vm)
			case "script":
				out = h.RunScript(p.Source, nil, vm)
			case "tx":
				out = h.RunTx(p.Source, nil, []common.Address{addr(1)}, vm)
			}
			o, other := observe(out.Err)
			return o, other, out.Err
		}
		// the full C1 is expected to be rejected (it contains forbidden accesses): its errors are the observation
		for i, p := range progs {
			if i == 1 {
				// deploy the clean C1 so that the other programs can import it
				_, other, err := run(clean)
				if err != nil {
					c.fail("world-setup", fmt.Sprintf("clean C1 does not deploy: %v %v", other, firstLine(err.Error())), map[string]any{"program": clean.Source})
					return
				}
			}
			o, other, _ := run(p)
			c.sum.Evaluations += len(p.Queries)
			if len(other) > 0 {
				c.fail("unexpected-error:"+p.Name, fmt.Sprintf("program %s (vm=%v): errors other than access errors: %v", p.Name, vm, other[:min(3, len(other))]),
					map[string]any{"program": p.Source, "errors": other, "vm": vm})
			}
			obsByEngine[vm][p.Name] = o
		}
	}
	for _, p := range progs {
		o := obsByEngine[false][p.Name]
		ov := obsByEngine[true][p.Name]
		lines := map[int]query{}
		var obsParts []string
		for _, q := range p.Queries {
			lines[q.Line] = q
			got := lineErrs{}
			if o[q.Line] != nil {
				got = *o[q.Line]
			}
			gotVM := lineErrs{}
			if ov[q.Line] != nil {
				gotVM = *ov[q.Line]
			}
			replay := map[string]any{"program": p.Name, "location_account": acct, "line": q.Line, "access": q.Text, "site": q.Site,
				"member_access": q.Kind.Tag, "member_container": q.Container, "member_kind": q.MKind, "via": q.Via, "op": q.Op,
				"observed": fmt.Sprintf("%+v", got), "source": p.Source}
			if got != gotVM {
				c.fail("engine-divergence", fmt.Sprintf("%s line %d `%s`: interpreter run reports %+v, VM run %+v", p.Name, q.Line, q.Text, got, gotVM), replay)
			}
			want := oracle(q, acct)
			rel := relation(q.Site, q.Container, acct)
			c.sum.Count(fmt.Sprintf("%s %s %s", q.Kind.Tag, rel, q.Op))
			k := fmt.Sprintf("%s|%s|%s|%s|%s|%s|%s", q.Kind.Tag, q.Container, q.MKind, q.Via, q.Op, q.Site, rel)
			if !c.distinct[k] {
				c.distinct[k] = true
				if q.Kind.Tag != "All" {
					c.sum.DistinctNontrivial++
				}
			}
			if got != want {
				replay["required"] = fmt.Sprintf("%+v", want)
				c.fail(fmt.Sprintf("scope-oracle:%s:%s:%s:%s", q.Kind.Tag, rel, q.Op, q.Via),
					fmt.Sprintf("%s line %d `%s` (member %s of %s with access %s, site %s: %s): checker reports %+v, the scope rules require %+v",
						p.Name, q.Line, q.Text, q.MKind, q.Container, q.Kind.Tag, q.Site, rel, got, want), replay)
			}
			if got.Access || got.Assign {
				c.sum.Sample(map[string]string{"program": p.Name, "access": q.Text, "site": q.Site, "observed": fmt.Sprintf("%+v", got)})
			}
			obsParts = append(obsParts, fmt.Sprintf("(%d, (%s, %s, %s))", q.Line, b2c(got.Access), b2c(got.Assign), b2c(got.Const)))
		}
		for line := range o {
			if _, ok := lines[line]; !ok {
				c.fail("unexpected-error-line:"+p.Name, fmt.Sprintf("program %s: access error on line %d, which is not an access site", p.Name, line), map[string]any{"program": p.Source, "line": line})
			}
		}
		w.Add(fmt.Sprintf("(%s,\n [%s])", p.Coq, strings.Join(obsParts, "; ")),
			map[string]any{"fn": "checker access errors", "program": p.Name, "accounts": acct, "source": p.Source})
	}
}

// ---------------------------------------------------------------- initializers

type stmt struct {
	Field      int // > 0: assignment
	Then, Else []*stmt
	HasElse    bool
}

func stmtsCoq(l []*stmt) string {
	if len(l) == 0 {
		return "SNil"
	}
	s := l[0]
	var h string
	if s.Field > 0 {
		h = fmt.Sprintf("(SAssign %d)", s.Field)
	} else {
		h = fmt.Sprintf("(SIf %s %s)", stmtsCoq(s.Then), stmtsCoq(s.Else))
	}
	return "(SCons " + h + " " + stmtsCoq(l[1:]) + ")"
}

// emit writes the statements and records line -> pre-order position
func emitStmts(b *builder, l []*stmt, indent string, pos *int, lineOf map[int]int) {
	for _, s := range l {
		if s.Field > 0 {
			b.add("%sself.f%d = %d", indent, s.Field, *pos)
			lineOf[len(b.lines)] = *pos
			*pos++
			continue
		}
		b.add("%sif c {", indent)
		*pos++
		emitStmts(b, s.Then, indent+"    ", pos, lineOf)
		if s.HasElse {
			b.add("%s} else {", indent)
			emitStmts(b, s.Else, indent+"    ", pos, lineOf)
		}
		b.add("%s}", indent)
	}
}

func (c *hctx) randStmts(depth, nf int) []*stmt {
	n := c.rng.Intn(4)
	if depth == 0 {
		n = 1 + c.rng.Intn(3)
	}
	var l []*stmt
	for i := 0; i < n; i++ {
		if depth < 2 && c.rng.Chance(1, 3) {
			s := &stmt{Then: c.randStmts(depth+1, nf)}
			if c.rng.Chance(2, 3) {
				s.HasElse = true
				s.Else = c.randStmts(depth+1, nf)
				if c.rng.Chance(1, 2) { // often the same fields in both branches
					s.Else = nil
					for _, t := range s.Then {
						if t.Field > 0 {
							s.Else = append([]*stmt{{Field: t.Field}}, s.Else...)
						}
					}
				}
			}
			l = append(l, s)
		} else {
			l = append(l, &stmt{Field: 1 + c.rng.Intn(nf)})
		}
	}
	return l
}

// all execution paths: sequences of assigned fields
func paths(l []*stmt) [][]int {
	res := [][]int{{}}
	for _, s := range l {
		var next [][]int
		var alts [][]int
		if s.Field > 0 {
			alts = [][]int{{s.Field}}
		} else {
			alts = append(paths(s.Then), paths(s.Else)...)
		}
		for _, r := range res {
			for _, a := range alts {
				next = append(next, append(append([]int{}, r...), a...))
			}
		}
		res = next
	}
	return res
}

func maySet(l []*stmt) map[int]bool {
	m := map[int]bool{}
	for _, s := range l {
		if s.Field > 0 {
			m[s.Field] = true
		} else {
			for k := range maySet(s.Then) {
				m[k] = true
			}
			for k := range maySet(s.Else) {
				m[k] = true
			}
		}
	}
	return m
}

func balanced(l []*stmt) bool {
	for _, s := range l {
		if s.Field > 0 {
			continue
		}
		a, b := maySet(s.Then), maySet(s.Else)
		if len(a) != len(b) {
			return false
		}
		for k := range a {
			if !b[k] {
				return false
			}
		}
		if !balanced(s.Then) || !balanced(s.Else) {
			return false
		}
	}
	return true
}

type initCase struct {
	NF   int     `json:"fields"`
	Lets []int   `json:"lets"`
	Body []*stmt `json:"body"`
	Note string  `json:"note"`
}

func (c *hctx) runInit(h *lib.Host, w *lib.CaseWriter, ic initCase) {
	isLet := map[int]bool{}
	for _, f := range ic.Lets {
		isLet[f] = true
	}
	b := &builder{}
	b.add("access(all) struct S {")
	for f := 1; f <= ic.NF; f++ {
		kw := "var"
		if isLet[f] {
			kw = "let"
		}
		b.add("    access(all) %s f%d: Int", kw, f)
	}
	b.add("    init(_ c: Bool) {")
	lineOf := map[int]int{}
	pos := 0
	emitStmts(b, ic.Body, "        ", &pos, lineOf)
	b.add("    }")
	b.add("}")
	b.add("access(all) fun main(): Int { let a = S(true); let b = S(false); return 0 }")
	src := b.source()
	var errPos, uninit []int
	accepted := true
	var obsStr [2]string
	for i, vm := range []bool{false, true} {
		out := h.RunScript(src, nil, vm)
		var ep, un []int
		var other []string
		walkErrors(out.Err, func(e error) {
			switch x := e.(type) {
			case *sema.FieldReinitializationError:
				ep = append(ep, lineOf[x.StartPosition().Line])
			case *sema.FieldUninitializedError:
				var f int
				fmt.Sscanf(x.Name, "f%d", &f)
				un = append(un, f)
			default:
				other = append(other, fmt.Sprintf("%T: %s", e, firstLine(e.Error())))
			}
		}, 0)
		sort.Ints(ep)
		sort.Ints(un)
		obsStr[i] = fmt.Sprint(ep, un, other)
		if len(other) > 0 {
			c.fail("init-unexpected-error", fmt.Sprintf("initializer program: unexpected errors %v", other), map[string]any{"program": src, "vm": vm})
		}
		if i == 0 {
			errPos, uninit = ep, un
			accepted = out.Err == nil
		}
	}
	c.sum.Evaluations += 2
	replay := map[string]any{"program": src, "observed_reinitialization_positions": errPos, "observed_uninitialized": uninit, "accepted": accepted}
	if obsStr[0] != obsStr[1] {
		c.fail("engine-divergence", "initializer program: interpreter and VM runs report different errors: "+obsStr[0]+" vs "+obsStr[1], replay)
	}
	if accepted {
		c.sum.Count("initializer accepted")
	} else {
		c.sum.Count("initializer rejected")
	}
	zl := func(xs []int) string {
		parts := make([]string, len(xs))
		for i, x := range xs {
			parts[i] = fmt.Sprint(x)
		}
		return "[" + strings.Join(parts, ";") + "]"
	}
	var fields []int
	for f := 1; f <= ic.NF; f++ {
		fields = append(fields, f)
	}
	w.Add(fmt.Sprintf("(%s, %s, %s, (%s, %s))", zl(fields), zl(ic.Lets), stmtsCoq(ic.Body), zl(errPos), zl(uninit)),
		map[string]any{"fn": "initializer", "program": src, "observed_reinitialization_positions": errPos, "observed_uninitialized": uninit})
	k := "init " + stmtsCoq(ic.Body) + zl(ic.Lets)
	if !c.distinct[k] {
		c.distinct[k] = true
		c.sum.DistinctNontrivial++
	}
	if !accepted {
		return
	}
	// independent oracle: on every execution path every field is assigned, and a `let` field exactly once
	for _, p := range paths(ic.Body) {
		cnt := map[int]int{}
		for _, f := range p {
			cnt[f]++
		}
		for f := 1; f <= ic.NF; f++ {
			if cnt[f] == 0 {
				c.fail("init-field-unassigned", fmt.Sprintf("accepted initializer leaves f%d unassigned on path %v", f, p), replay)
			}
			if isLet[f] && cnt[f] > 1 {
				key := "let-reassigned:other"
				if !balanced(ic.Body) {
					key = "let-reassigned:after-partial-branch"
				}
				replay["path_assignments"] = p
				c.fail(key, fmt.Sprintf("accepted initializer assigns the `let` field f%d %d times on the execution path that assigns %v (both engines run it)", f, cnt[f], p), replay)
			}
		}
	}
}

func (c *hctx) sectionInit() {
	h := lib.NewHost()
	w := &lib.CaseWriter{Dir: *dir, Prefix: "cases_C50_init", Header: header,
		ElemType: "list Z * list Z * stmts * (list Z * list Z)", CheckFn: "check_init_case", PerFile: 130}
	if *corpusDir != "" {
		files, _ := filepath.Glob(filepath.Join(*corpusDir, "init*.json"))
		sort.Strings(files)
		for _, f := range files {
			data, err := os.ReadFile(f)
			if err != nil {
				continue
			}
			var cases []initCase
			if err := json.Unmarshal(data, &cases); err != nil {
				c.fail("corpus-unreadable", fmt.Sprintf("%s: %v", f, err), map[string]any{"file": f})
				continue
			}
			for _, ic := range cases {
				c.sum.Count("corpus initializer")
				c.runInit(h, w, ic)
			}
		}
	}
	n := 250
	if *tier == "thorough" {
		n = 5000
	}
	for i := 0; i < n; i++ {
		nf := 1 + c.rng.Intn(3)
		var lets []int
		for f := 1; f <= nf; f++ {
			if c.rng.Chance(2, 3) {
				lets = append(lets, f)
			}
		}
		c.runInit(h, w, initCase{NF: nf, Lets: lets, Body: c.randStmts(0, nf)})
	}
	w.Close()
	c.files = append(c.files, w.Files...)
}

func main() {
	flag.Parse()
	sum := &lib.Summary{}
	if *prop != "C50" {
		fmt.Fprintln(os.Stderr, "unknown prop", *prop)
		os.Exit(2)
	}
	c := &hctx{sum: sum, count: map[string]int{}, distinct: map[string]bool{}, rng: lib.NewRng(*seed)}
	sum.Rule = "worlds of three contracts over one or two accounts (C1 with nested structs S and S2 and members of every access kind: " +
		"access(all|self|contract|account) on the contract, plus access(E) on the struct; let/var fields and functions), a script and a transaction; " +
		"sites: inside S through self and through another instance, sibling struct, enclosing contract, other contract (same / other account) and its nested struct, script, transaction; " +
		"operations: read, call, assignment to var and let fields, on owned values, unauthorized and E-authorized references and optionals; one access per line. " +
		"The real checker (runtime, interpreter and VM runs) reports errors per line (InvalidAccessError, InvalidAssignmentAccessError, AssignmentToConstantMemberError); " +
		"they are compared with an independent scope oracle and evaluated by the Coq model's traversal. Initializers: generated bodies of assignments and if/else, errors compared with the model, " +
		"accepted ones checked path by path. non-trivial = member is not access(all) (sites) / every initializer; distinct = distinct (kind, container, member kind, via, op, site, relation)"
	w := &lib.CaseWriter{Dir: *dir, Prefix: "cases_C50_prog", Header: header,
		ElemType: "program * list (Z * (bool * bool * bool))", CheckFn: "check_prog50", PerFile: 6}
	// account assignments: (C2, C3) in {1,2}^2 ; one-account world = (1,1)
	for _, cfg := range [][2]int{{1, 2}, {1, 1}, {2, 2}, {2, 1}} {
		c.runWorld(w, cfg[0], cfg[1], true)
	}
	w.Close()
	c.files = append(c.files, w.Files...)
	c.sectionInit()
	sum.CaseFiles = c.files
	sum.Extra = map[string]any{"failure_counts": c.count}
	sum.Write(*dir)
}
