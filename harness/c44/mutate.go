package main

// Mutations of CBOR data items for the decoder correspondence (mostly ill-formed encodings).
// Kept inside what the stream decoder's item validation accepts: no tag numbers 0/1, tags 2/3 only
// around byte strings, no atree tag numbers (>= 240), nesting levels small.

import (
	"math"

	"cvh/lib"

	"github.com/onflow/cadence/values"
)

type mutator struct{ r *lib.Rng }

var uintEdges = []uint64{0, 1, 2, 23, 24, 127, 128, 255, 256, 32767, 32768, 65535, 65536, 1<<31 - 1, 1 << 31,
	1<<32 - 1, 1 << 32, 1<<63 - 1, 1 << 63, math.MaxUint64}

func (m *mutator) someText() []byte { return []byte(lib.Pick(m.r, textPool)) }

func (m *mutator) randomTag() uint64 { return uint64(128 + m.r.Intn(103)) }

// mutate applies one mutation and keeps nested-optional level counts small (the decoder builds
// that many wrappers)
func (m *mutator) mutate(root *Item) string {
	l := m.mutate1(root)
	var nodes []*Item
	root.nodes(&nodes)
	for _, n := range nodes {
		if n.K == 'g' && n.N == uint64(values.CBORTagSomeValueWithNestedLevels) && n.C != nil && n.C.K == 'a' &&
			len(n.C.L) > 0 && n.C.L[0].K == 'u' && n.C.L[0].N > 40 {
			n.C.L[0].N = 2 + n.C.L[0].N%30
		}
	}
	return l
}

func (m *mutator) mutate1(root *Item) string {
	var nodes []*Item
	root.nodes(&nodes)
	// do not descend into bignum contents blindly: handled by the 'g' case
	n := lib.Pick(m.r, nodes)
	switch n.K {
	case 'a':
		switch m.r.Intn(6) {
		case 0:
			if len(n.L) > 0 {
				n.L = n.L[:len(n.L)-1]
				return "array-drop-last"
			}
			n.L = append(n.L, &Item{K: 'z'})
			return "array-append-nil"
		case 1:
			n.L = append(n.L, &Item{K: 'u', N: 0})
			return "array-append-uint"
		case 2:
			if len(n.L) > 0 {
				n.L = append(n.L, n.L[len(n.L)-1].clone())
				return "array-duplicate-last"
			}
			n.L = append(n.L, &Item{K: 't', B: m.someText()})
			return "array-append-text"
		case 3:
			if len(n.L) > 1 {
				i := m.r.Intn(len(n.L) - 1)
				n.L[i], n.L[i+1] = n.L[i+1], n.L[i]
				return "array-swap"
			}
			n.L = nil
			return "array-empty"
		case 4:
			if len(n.L) > 0 {
				n.L = n.L[1:]
				return "array-drop-first"
			}
			return "none"
		default:
			*n = Item{K: 'u', N: uint64(len(n.L))}
			return "array-to-uint"
		}
	case 'u':
		switch m.r.Intn(5) {
		case 0, 1, 2:
			n.N = lib.Pick(m.r, uintEdges)
			return "uint-edge"
		case 3:
			n.K = 'n'
			return "uint-to-nint"
		default:
			*n = Item{K: 't', B: m.someText()}
			return "uint-to-text"
		}
	case 'n':
		if m.r.Chance(3, 4) {
			n.N = lib.Pick(m.r, uintEdges)
			return "nint-edge"
		}
		n.K = 'u'
		return "nint-to-uint"
	case 'b':
		switch m.r.Intn(5) {
		case 0:
			n.B = append(n.B, byte(m.r.Intn(256)))
			return "bytes-longer"
		case 1:
			if len(n.B) > 0 {
				n.B = n.B[1:]
				return "bytes-shorter"
			}
			n.B = []byte{0}
			return "bytes-zero"
		case 2:
			n.B = append([]byte{0}, n.B...)
			return "bytes-leading-zero"
		case 3:
			l := lib.Pick(m.r, []int{8, 9, 16, 17, 32, 33})
			n.B = make([]byte, l)
			for i := range n.B {
				n.B[i] = byte(m.r.Intn(256))
			}
			n.B[0] |= 0x80
			return "bytes-fixed-length"
		default:
			n.B = nil
			return "bytes-empty"
		}
	case 't':
		switch m.r.Intn(3) {
		case 0, 1:
			n.B = m.someText()
			return "text-other"
		default:
			n.K = 'b'
			return "text-to-bytes"
		}
	case 'o':
		if m.r.Bool() {
			n.O = !n.O
			return "bool-flip"
		}
		*n = Item{K: 'z'}
		return "bool-to-nil"
	case 'z':
		switch m.r.Intn(3) {
		case 0:
			*n = Item{K: 'o', O: m.r.Bool()}
			return "nil-to-bool"
		case 1:
			*n = Item{K: 'u', N: 0}
			return "nil-to-uint"
		default:
			*n = Item{K: 't', B: m.someText()}
			return "nil-to-text"
		}
	case 'g':
		if n.N == 2 || n.N == 3 {
			// a bignum: keep the content a byte string
			switch m.r.Intn(3) {
			case 0:
				n.N = 5 - n.N
				return "bignum-sign-flip"
			case 1:
				l := lib.Pick(m.r, []int{16, 17, 32, 33})
				n.C = &Item{K: 'b', B: make([]byte, l)}
				for i := range n.C.B {
					n.C.B[i] = 0xff
				}
				return "bignum-wide"
			default:
				n.C = &Item{K: 'b'}
				return "bignum-zero"
			}
		}
		switch m.r.Intn(6) {
		case 0, 1:
			n.N = m.randomTag()
			return "tag-renumber"
		case 2:
			// take the tag number of another tag in the item
			var tags []uint64
			for _, x := range nodes {
				if x.K == 'g' && x.N >= 128 {
					tags = append(tags, x.N)
				}
			}
			n.N = lib.Pick(m.r, tags)
			return "tag-from-elsewhere"
		case 3:
			*n = *n.C
			return "tag-unwrap"
		case 4:
			c := n.clone()
			*n = Item{K: 'g', N: m.randomTag(), C: c}
			return "tag-wrap"
		default:
			n.C = &Item{K: 'z'}
			return "tag-content-nil"
		}
	}
	return "none"
}
