// Command c44: correspondence harness for C44 (stored-value encodings round-trip and stay stable).
//
//   - generated storable values and static types are encoded by the real encoders; the bytes must
//     equal the Coq model's serialize(enc ...) (case files), the real decoder must give the value
//     back and re-encoding must reproduce the bytes (checked here);
//   - mutated (mostly ill-formed) data items are given to the real decoders; accept/reject and the
//     decoded value must equal the Coq model decoder's (case files);
//   - the pinned corpus corpus/C44/pinned.json (bytes written once by the pinned tree) must decode
//     to the recorded values and re-encode to the recorded bytes.
package main

import (
	"bytes"
	"encoding/hex"
	"encoding/json"
	"flag"
	"fmt"
	"os"
	"path/filepath"
	"strings"

	"cvh/lib"

	"github.com/onflow/atree"

	cerrors "github.com/onflow/cadence/errors"
	"github.com/onflow/cadence/interpreter"
	"github.com/onflow/cadence/sema"
)

var (
	prop        = flag.String("prop", "C44", "property id")
	seed        = flag.Uint64("seed", 1, "seed")
	tier        = flag.String("tier", "quick", "quick|thorough")
	dir         = flag.String("dir", ".", "output directory")
	writeCorpus = flag.String("writecorpus", "", "write the pinned corpus to this file (done once, from the pinned tree)")
)

func encodeStorable(s atree.Storable) (b []byte, err error) {
	defer func() {
		if r := recover(); r != nil {
			err = fmt.Errorf("panic: %v", r)
		}
	}()
	var buf bytes.Buffer
	enc := atree.NewEncoder(&buf, interpreter.CBOREncMode)
	if err := s.Encode(enc); err != nil {
		return nil, err
	}
	if err := enc.CBOR.Flush(); err != nil {
		return nil, err
	}
	return buf.Bytes(), nil
}

func decodeStorable(b []byte) (s atree.Storable, err error) {
	defer func() {
		if r := recover(); r != nil {
			err = recovered(r)
		}
	}()
	dec := interpreter.CBORDecMode.NewByteStreamDecoder(b)
	return interpreter.DecodeStorable(dec, atree.SlabIDUndefined, nil, nil)
}

func encodeType(t interpreter.StaticType) (b []byte, err error) {
	defer func() {
		if r := recover(); r != nil {
			err = fmt.Errorf("panic: %v", r)
		}
	}()
	return interpreter.StaticTypeToBytes(t)
}

func decodeType(b []byte) (t interpreter.StaticType, err error) {
	defer func() {
		if r := recover(); r != nil {
			err = recovered(r)
		}
	}()
	return interpreter.StaticTypeFromBytes(b)
}

// recovered: a panic carrying a Cadence internal error (errors.NewUnreachableError in a
// constructor called by the decoder) is a rejection; anything else is a crash of the decoder
func recovered(r any) error {
	if e, ok := r.(error); ok && cerrors.IsInternalError(e) {
		return fmt.Errorf("internal error (panic): %v", firstLine(e.Error()))
	}
	return fmt.Errorf("PANIC: %v", r)
}

func firstLine(s string) string {
	if i := strings.Index(s, "\n"); i >= 0 {
		return s[:i]
	}
	return s
}

type corpusEntry struct {
	Kind string `json:"kind"` // value | type
	Hex  string `json:"hex"`
	Coq  string `json:"coq"` // the value, as a term of the Coq model (canonical rendering)
}

func main() {
	flag.Parse()
	if *writeCorpus != "" {
		doWriteCorpus(*writeCorpus)
		return
	}
	sum := &lib.Summary{}
	rng := lib.NewRng(*seed)
	sum.Rule = "storable values of every kind (numbers at the boundary lattice and random, strings, characters, addresses, paths, " +
		"optionals nested 1-4 levels, capabilities, published values, type values, capability controllers, deprecated link values) and static " +
		"types of every kind (depth <= 3, every location and authorization kind): real bytes vs model bytes, real decode(encode v) = v, " +
		"re-encode = bytes; mutated data items (array length, tags, integer bounds, byte lengths, item kinds): real decoder vs model decoder; " +
		"pinned corpus decode + re-encode. non-trivial = encoding longer than 3 bytes or a rejected mutated item; distinct = distinct byte strings"
	distinct := map[string]bool{}
	g := &vgen{r: rng, storage: interpreter.NewInMemoryStorage(nil, nil)}

	nv, nt, nm := 900, 500, 1200
	if *tier == "thorough" {
		nv, nt, nm = 20000, 10000, 30000
	}
	cwV := &lib.CaseWriter{Dir: *dir, Prefix: "cases_C44_encv", Header: "From CV Require Import C44.Cases.",
		ElemType: "storable * list Z", CheckFn: "check_encode_value", PerFile: 400}
	cwT := &lib.CaseWriter{Dir: *dir, Prefix: "cases_C44_enct", Header: "From CV Require Import C44.Cases.",
		ElemType: "sty * list Z", CheckFn: "check_encode_type", PerFile: 400}
	cwDV := &lib.CaseWriter{Dir: *dir, Prefix: "cases_C44_decv", Header: "From CV Require Import C44.Cases.",
		ElemType: "list str * cbor * option storable", CheckFn: "check_decode_value", PerFile: 400}
	cwDT := &lib.CaseWriter{Dir: *dir, Prefix: "cases_C44_dect", Header: "From CV Require Import C44.Cases.",
		ElemType: "cbor * option sty", CheckFn: "check_decode_type", PerFile: 400}

	// pinned corpus first
	runCorpus(sum, cwV, cwT)

	var valueBytes, typeBytes [][]byte
	for i := 0; i < nv; i++ {
		s := g.storable(2)
		b := checkValue(sum, cwV, distinct, s, "generated")
		if b != nil {
			valueBytes = append(valueBytes, b)
		}
	}
	for i := 0; i < nt; i++ {
		t := g.ty(3)
		b := checkType(sum, cwT, distinct, t, "generated")
		if b != nil {
			typeBytes = append(typeBytes, b)
		}
	}
	m := &mutator{r: rng}
	for i := 0; i < nm; i++ {
		if i%3 == 2 {
			checkMalformedType(sum, cwDT, distinct, m, lib.Pick(rng, typeBytes))
		} else {
			checkMalformedValue(sum, cwDV, distinct, m, lib.Pick(rng, valueBytes))
		}
	}
	for _, cw := range []*lib.CaseWriter{cwV, cwT, cwDV, cwDT} {
		cw.Close()
		sum.CaseFiles = append(sum.CaseFiles, cw.Files...)
	}
	sum.DistinctNontrivial = len(distinct)
	sum.Write(*dir)
}

func kindOf(coq string) string {
	s := strings.TrimPrefix(coq, "(")
	if i := strings.IndexAny(s, " )"); i >= 0 {
		s = s[:i]
	}
	return s
}

func checkValue(sum *lib.Summary, cw *lib.CaseWriter, distinct map[string]bool, s atree.Storable, origin string) []byte {
	coq := coqStorable(s)
	kind := kindOf(coq)
	b, err := encodeStorable(s)
	sum.Evaluations++
	sum.Count("value " + kind)
	if err != nil {
		sum.Fail("encode-error:"+kind, fmt.Sprintf("encoding %s failed: %v", coq, err), map[string]any{"value": coq, "error": err.Error()})
		return nil
	}
	if len(b) > 3 {
		distinct[string(b)] = true
	}
	desc := map[string]any{"leg": "encode-value", "origin": origin, "value": coq, "bytes": hex.EncodeToString(b)}
	cw.Add("("+coq+", "+lib.ZList(b)+")", desc)
	// real round trip
	d, err := decodeStorable(b)
	if err != nil {
		sum.Fail("roundtrip-decode-error:"+kind, fmt.Sprintf("decoding the encoding of %s failed: %v", coq, err), desc)
		return b
	}
	if got := coqStorable(d); got != coq {
		desc["decoded"] = got
		sum.Fail("roundtrip-value:"+kind, fmt.Sprintf("decode(encode v) <> v: v = %s, decoded %s", coq, got), desc)
		return b
	}
	b2, err := encodeStorable(d)
	if err != nil || !bytes.Equal(b, b2) {
		desc["reencoded"] = hex.EncodeToString(b2)
		sum.Fail("roundtrip-bytes:"+kind, fmt.Sprintf("re-encoding the decoded value gives different bytes for %s", coq), desc)
	}
	sum.Sample(map[string]string{"value": coq, "bytes": hex.EncodeToString(b)})
	return b
}

func checkType(sum *lib.Summary, cw *lib.CaseWriter, distinct map[string]bool, t interpreter.StaticType, origin string) []byte {
	coq := coqType(t)
	kind := kindOf(coq)
	b, err := encodeType(t)
	sum.Evaluations++
	sum.Count("type " + kind)
	if err != nil {
		sum.Fail("encode-error:"+kind, fmt.Sprintf("encoding %s failed: %v", coq, err), map[string]any{"type": coq, "error": err.Error()})
		return nil
	}
	if len(b) > 3 {
		distinct[string(b)] = true
	}
	desc := map[string]any{"leg": "encode-type", "origin": origin, "type": coq, "bytes": hex.EncodeToString(b)}
	cw.Add("("+coq+", "+lib.ZList(b)+")", desc)
	d, err := decodeType(b)
	if err != nil {
		sum.Fail("roundtrip-decode-error:"+kind, fmt.Sprintf("decoding the encoding of %s failed: %v", coq, err), desc)
		return b
	}
	if got := coqType(d); got != coq {
		desc["decoded"] = got
		sum.Fail("roundtrip-value:"+kind, fmt.Sprintf("decode(encode t) <> t: t = %s, decoded %s", coq, got), desc)
		return b
	}
	if !d.Equal(t) {
		sum.Fail("roundtrip-equal:"+kind, fmt.Sprintf("decoded static type is not Equal to the original %s", coq), desc)
	}
	b2, err := encodeType(d)
	if err != nil || !bytes.Equal(b, b2) {
		desc["reencoded"] = hex.EncodeToString(b2)
		sum.Fail("roundtrip-bytes:"+kind, fmt.Sprintf("re-encoding the decoded type gives different bytes for %s", coq), desc)
	}
	return b
}

func coqChars(it *Item) string {
	var ts []string
	it.texts(&ts)
	seen := map[string]bool{}
	var out []string
	for _, t := range ts {
		if !seen[t] && sema.IsValidCharacter(t) {
			seen[t] = true
			out = append(out, coqStr(t))
		}
	}
	return "[" + strings.Join(out, ";") + "]"
}

func checkMalformedValue(sum *lib.Summary, cw *lib.CaseWriter, distinct map[string]bool, m *mutator, b []byte) {
	it, err := parseAll(b)
	if err != nil {
		panic(fmt.Sprintf("harness CBOR parser cannot parse real encoding %x: %v", b, err))
	}
	label := m.mutate(it)
	mb := it.serialize()
	sum.Evaluations++
	d, derr := decodeStorable(mb)
	desc := map[string]any{"leg": "decode-value", "mutation": label, "bytes": hex.EncodeToString(mb), "item": it.coq()}
	obs := "None"
	if derr != nil {
		if strings.HasPrefix(derr.Error(), "PANIC") {
			sum.Fail("decoder-panic", fmt.Sprintf("DecodeStorable panicked on %x: %v", mb, derr), desc)
			return
		}
		desc["observed"] = "rejected: " + derr.Error()
		sum.Count("mutated value rejected")
		distinct[string(mb)] = true
	} else {
		obs = "(Some " + coqStorable(d) + ")"
		desc["observed"] = obs
		sum.Count("mutated value accepted")
	}
	sum.Count("mutation " + label)
	cw.Add("("+coqChars(it)+", "+it.coq()+", "+obs+")", desc)
}

func checkMalformedType(sum *lib.Summary, cw *lib.CaseWriter, distinct map[string]bool, m *mutator, b []byte) {
	it, err := parseAll(b)
	if err != nil {
		panic(fmt.Sprintf("harness CBOR parser cannot parse real encoding %x: %v", b, err))
	}
	label := m.mutate(it)
	mb := it.serialize()
	sum.Evaluations++
	d, derr := decodeType(mb)
	desc := map[string]any{"leg": "decode-type", "mutation": label, "bytes": hex.EncodeToString(mb), "item": it.coq()}
	obs := "None"
	if derr != nil {
		if strings.HasPrefix(derr.Error(), "PANIC") {
			sum.Fail("decoder-panic", fmt.Sprintf("StaticTypeFromBytes panicked on %x: %v", mb, derr), desc)
			return
		}
		desc["observed"] = "rejected: " + derr.Error()
		sum.Count("mutated type rejected")
		distinct[string(mb)] = true
	} else {
		obs = "(Some " + coqType(d) + ")"
		desc["observed"] = obs
		sum.Count("mutated type accepted")
	}
	sum.Count("mutation " + label)
	cw.Add("("+it.coq()+", "+obs+")", desc)
}

// ---------------------------------------------------------------- pinned corpus

func corpusPath() string {
	d := os.Getenv("C44_CORPUS")
	if d == "" {
		d = "/verif/corpus/C44"
	}
	return filepath.Join(d, "pinned.json")
}

func runCorpus(sum *lib.Summary, cwV, cwT *lib.CaseWriter) {
	raw, err := os.ReadFile(corpusPath())
	if err != nil {
		sum.Fail("pinned-corpus-missing", "cannot read the pinned corpus: "+err.Error(), map[string]any{"path": corpusPath()})
		return
	}
	var entries []corpusEntry
	if err := json.Unmarshal(raw, &entries); err != nil {
		panic(err)
	}
	for i, e := range entries {
		b, _ := hex.DecodeString(e.Hex)
		kind := kindOf(e.Coq)
		desc := map[string]any{"leg": "pinned-corpus", "index": i, "kind": e.Kind, "pinned_bytes": e.Hex, "pinned_value": e.Coq}
		sum.Evaluations++
		sum.Count("pinned " + e.Kind)
		var got string
		var b2 []byte
		if e.Kind == "value" {
			d, err := decodeStorable(b)
			if err != nil {
				sum.Fail("pinned-decode-error:"+kind, fmt.Sprintf("bytes written by the pinned version no longer decode: %s (%s): %v", e.Hex, e.Coq, err), desc)
				continue
			}
			got = coqStorable(d)
			b2, _ = encodeStorable(d)
			cwV.Add("("+e.Coq+", "+lib.ZList(b)+")", desc)
		} else {
			d, err := decodeType(b)
			if err != nil {
				sum.Fail("pinned-decode-error:"+kind, fmt.Sprintf("bytes written by the pinned version no longer decode: %s (%s): %v", e.Hex, e.Coq, err), desc)
				continue
			}
			got = coqType(d)
			b2, _ = encodeType(d)
			cwT.Add("("+e.Coq+", "+lib.ZList(b)+")", desc)
		}
		if got != e.Coq {
			desc["decoded"] = got
			sum.Fail("pinned-decode-value:"+kind, fmt.Sprintf("bytes written by the pinned version decode to a different value: %s was %s, is now %s", e.Hex, e.Coq, got), desc)
			continue
		}
		if !bytes.Equal(b, b2) {
			desc["reencoded"] = hex.EncodeToString(b2)
			sum.Fail("pinned-reencode:"+kind, fmt.Sprintf("the current encoder writes different bytes for the pinned value %s: %x instead of %s", e.Coq, b2, e.Hex), desc)
		}
	}
}

func doWriteCorpus(path string) {
	if _, err := os.Stat(path); err == nil {
		fmt.Fprintln(os.Stderr, "refusing to overwrite existing corpus", path)
		os.Exit(1)
	}
	g := &vgen{r: lib.NewRng(4242), storage: interpreter.NewInMemoryStorage(nil, nil)}
	var entries []corpusEntry
	seen := map[string]bool{}
	addV := func(s atree.Storable) {
		b, err := encodeStorable(s)
		if err != nil {
			panic(err)
		}
		if seen["v"+string(b)] {
			return
		}
		seen["v"+string(b)] = true
		entries = append(entries, corpusEntry{"value", hex.EncodeToString(b), coqStorable(s)})
	}
	addT := func(t interpreter.StaticType) {
		b, err := encodeType(t)
		if err != nil {
			panic(err)
		}
		if seen["t"+string(b)] {
			return
		}
		seen["t"+string(b)] = true
		entries = append(entries, corpusEntry{"type", hex.EncodeToString(b), coqType(t)})
	}
	// every number kind at its bounds
	for _, t := range lib.IntTypes {
		for _, z := range t.Lattice() {
			s, err := t.Make(z).Storable(g.storage, atree.Address{}, 1<<31)
			if err != nil {
				panic(err)
			}
			addV(s)
		}
	}
	// every primitive static type
	for p := interpreter.PrimitiveStaticType(1); p < interpreter.PrimitiveStaticType_Count; p++ {
		if p == interpreter.PrimitiveStaticTypeCapability || strings.HasPrefix(p.String(), "PrimitiveStaticType(") { //nolint:staticcheck
			continue
		}
		addT(p)
	}
	for i := 0; i < 700; i++ {
		addV(g.storable(2))
	}
	for i := 0; i < 400; i++ {
		addT(g.ty(3))
	}
	out, _ := json.MarshalIndent(entries, "", " ")
	if err := os.WriteFile(path, out, 0o644); err != nil {
		panic(err)
	}
	fmt.Println("wrote", len(entries), "entries to", path)
}
