package main

// A minimal CBOR data-item tree (the subset used by the storage encoding), with a parser and a
// canonical serializer, and its rendering as a Coq `cbor` term (C44/Model.v).

import (
	"encoding/binary"
	"fmt"
	"strings"
)

type Item struct {
	K byte // 'u' uint, 'n' negative int, 'b' bytes, 't' text, 'a' array, 'g' tag, 'o' bool, 'z' nil
	N uint64
	B []byte
	L []*Item
	C *Item
	O bool
}

func (it *Item) clone() *Item {
	if it == nil {
		return nil
	}
	c := *it
	c.B = append([]byte{}, it.B...)
	c.L = nil
	for _, x := range it.L {
		c.L = append(c.L, x.clone())
	}
	c.C = it.C.clone()
	return &c
}

func parseHead(b []byte) (mt byte, ai byte, val uint64, rest []byte, err error) {
	if len(b) == 0 {
		return 0, 0, 0, nil, fmt.Errorf("unexpected end")
	}
	mt, ai = b[0]>>5, b[0]&0x1f
	b = b[1:]
	switch {
	case ai < 24:
		return mt, ai, uint64(ai), b, nil
	case ai == 24:
		if len(b) < 1 {
			return 0, 0, 0, nil, fmt.Errorf("short")
		}
		return mt, ai, uint64(b[0]), b[1:], nil
	case ai == 25:
		if len(b) < 2 {
			return 0, 0, 0, nil, fmt.Errorf("short")
		}
		return mt, ai, uint64(binary.BigEndian.Uint16(b)), b[2:], nil
	case ai == 26:
		if len(b) < 4 {
			return 0, 0, 0, nil, fmt.Errorf("short")
		}
		return mt, ai, uint64(binary.BigEndian.Uint32(b)), b[4:], nil
	case ai == 27:
		if len(b) < 8 {
			return 0, 0, 0, nil, fmt.Errorf("short")
		}
		return mt, ai, binary.BigEndian.Uint64(b), b[8:], nil
	}
	return 0, 0, 0, nil, fmt.Errorf("unsupported additional information %d", ai)
}

func parseItem(b []byte) (*Item, []byte, error) {
	if len(b) == 0 {
		return nil, nil, fmt.Errorf("unexpected end")
	}
	switch b[0] {
	case 0xf4, 0xf5:
		return &Item{K: 'o', O: b[0] == 0xf5}, b[1:], nil
	case 0xf6:
		return &Item{K: 'z'}, b[1:], nil
	}
	mt, _, val, rest, err := parseHead(b)
	if err != nil {
		return nil, nil, err
	}
	switch mt {
	case 0:
		return &Item{K: 'u', N: val}, rest, nil
	case 1:
		return &Item{K: 'n', N: val}, rest, nil
	case 2, 3:
		if uint64(len(rest)) < val {
			return nil, nil, fmt.Errorf("short string")
		}
		k := byte('b')
		if mt == 3 {
			k = 't'
		}
		return &Item{K: k, B: append([]byte{}, rest[:val]...)}, rest[val:], nil
	case 4:
		it := &Item{K: 'a'}
		for i := uint64(0); i < val; i++ {
			var x *Item
			x, rest, err = parseItem(rest)
			if err != nil {
				return nil, nil, err
			}
			it.L = append(it.L, x)
		}
		return it, rest, nil
	case 6:
		c, rest2, err := parseItem(rest)
		if err != nil {
			return nil, nil, err
		}
		return &Item{K: 'g', N: val, C: c}, rest2, nil
	}
	return nil, nil, fmt.Errorf("unsupported major type %d", mt)
}

func parseAll(b []byte) (*Item, error) {
	it, rest, err := parseItem(b)
	if err != nil {
		return nil, err
	}
	if len(rest) != 0 {
		return nil, fmt.Errorf("%d trailing bytes", len(rest))
	}
	return it, nil
}

func head(mt byte, n uint64) []byte {
	switch {
	case n < 24:
		return []byte{mt<<5 | byte(n)}
	case n < 1<<8:
		return []byte{mt<<5 | 24, byte(n)}
	case n < 1<<16:
		return binary.BigEndian.AppendUint16([]byte{mt<<5 | 25}, uint16(n))
	case n < 1<<32:
		return binary.BigEndian.AppendUint32([]byte{mt<<5 | 26}, uint32(n))
	}
	return binary.BigEndian.AppendUint64([]byte{mt<<5 | 27}, n)
}

func (it *Item) serialize() []byte {
	switch it.K {
	case 'u':
		return head(0, it.N)
	case 'n':
		return head(1, it.N)
	case 'b':
		return append(head(2, uint64(len(it.B))), it.B...)
	case 't':
		return append(head(3, uint64(len(it.B))), it.B...)
	case 'a':
		out := head(4, uint64(len(it.L)))
		for _, x := range it.L {
			out = append(out, x.serialize()...)
		}
		return out
	case 'g':
		return append(head(6, it.N), it.C.serialize()...)
	case 'o':
		if it.O {
			return []byte{0xf5}
		}
		return []byte{0xf4}
	}
	return []byte{0xf6}
}

func zbytes(b []byte) string {
	parts := make([]string, len(b))
	for i, x := range b {
		parts[i] = fmt.Sprint(x)
	}
	return "[" + strings.Join(parts, ";") + "]"
}

func (it *Item) coq() string {
	switch it.K {
	case 'u':
		return fmt.Sprintf("(CUint %d)", it.N)
	case 'n':
		return fmt.Sprintf("(CNint %d)", it.N)
	case 'b':
		return "(CBytes " + zbytes(it.B) + ")"
	case 't':
		return "(CText " + zbytes(it.B) + ")"
	case 'a':
		var p []string
		for _, x := range it.L {
			p = append(p, x.coq())
		}
		return "(CArr [" + strings.Join(p, ";") + "])"
	case 'g':
		return fmt.Sprintf("(CTag %d %s)", it.N, it.C.coq())
	case 'o':
		return fmt.Sprintf("(CBool %v)", it.O)
	}
	return "CNil"
}

// texts collects the contents of all text strings of the item
func (it *Item) texts(out *[]string) {
	if it == nil {
		return
	}
	if it.K == 't' {
		*out = append(*out, string(it.B))
	}
	for _, x := range it.L {
		x.texts(out)
	}
	it.C.texts(out)
}

// nodes lists all nodes (pre-order)
func (it *Item) nodes(out *[]*Item) {
	if it == nil {
		return
	}
	*out = append(*out, it)
	for _, x := range it.L {
		x.nodes(out)
	}
	it.C.nodes(out)
}
