package main

// Generation of storable values / static types and their rendering as Coq terms of C44/Model.v.

import (
	"fmt"
	"math"
	"math/big"
	"strings"

	"cvh/lib"

	"github.com/onflow/atree"
	fix "github.com/onflow/fixed-point"
	"golang.org/x/text/unicode/norm"

	"github.com/onflow/cadence/common"
	"github.com/onflow/cadence/interpreter"
	"github.com/onflow/cadence/sema"
	"github.com/onflow/cadence/values"
)

// every text the harness feeds is valid UTF-8 and NFC-stable (the Coq cases instantiate the
// UTF-8 and NFC oracles with "valid" and the identity); checked at start-up
var textPool = []string{"", "a", "foo", "R", "héllo", "日本", "👍", "e", "A.0000000000000001.Foo.Bar",
	"A.0000000000000002.C.E", "S.test.X", "Foo.Bar", "storagePath_1", "ab", "é", "x y"}

func init() {
	for _, s := range textPool {
		if norm.NFC.String(s) != s {
			panic("text pool entry is not NFC-stable: " + s)
		}
	}
}

func coqStr(s string) string { return zbytes([]byte(s)) }

func addrToZ(a common.Address) string {
	return new(big.Int).SetBytes(a[:]).String()
}

func coqLocation(l common.Location) string {
	switch x := l.(type) {
	case nil:
		return "LNone"
	case common.AddressLocation:
		return fmt.Sprintf("(LAddress %s %s)", addrToZ(x.Address), coqStr(x.Name))
	case common.StringLocation:
		return "(LString " + coqStr(string(x)) + ")"
	case common.IdentifierLocation:
		return "(LIdentifier " + coqStr(string(x)) + ")"
	case common.TransactionLocation:
		return "(LTransaction " + zbytes(x[:]) + ")"
	case common.ScriptLocation:
		return "(LScript " + zbytes(x[:]) + ")"
	}
	panic(fmt.Sprintf("unsupported location %T", l))
}

func coqAuth(a interpreter.Authorization) string {
	switch x := a.(type) {
	case interpreter.Unauthorized:
		return "AUnauthorized"
	case interpreter.Inaccessible:
		return "AInaccessible"
	case interpreter.EntitlementMapAuthorization:
		return "(AEntMap " + coqStr(string(x.TypeID)) + ")"
	case interpreter.EntitlementSetAuthorization:
		var es []string
		if x.Entitlements != nil {
			x.Entitlements.Foreach(func(id common.TypeID, _ struct{}) {
				es = append(es, coqStr(string(id)))
			})
		}
		return fmt.Sprintf("(AEntSet %d [%s])", uint8(x.SetKind), strings.Join(es, ";"))
	}
	panic(fmt.Sprintf("unsupported authorization %T", a))
}

func coqOptType(t interpreter.StaticType) string {
	if t == nil {
		return "None"
	}
	return "(Some " + coqType(t) + ")"
}

func coqType(t interpreter.StaticType) string {
	switch x := t.(type) {
	case interpreter.PrimitiveStaticType:
		return fmt.Sprintf("(TPrimitive %d)", uint64(x))
	case *interpreter.OptionalStaticType:
		return "(TOptional " + coqType(x.Type) + ")"
	case *interpreter.CompositeStaticType:
		return "(TComposite " + coqLocation(x.Location) + " " + coqStr(x.QualifiedIdentifier) + ")"
	case *interpreter.InterfaceStaticType:
		return "(TInterface " + coqLocation(x.Location) + " " + coqStr(x.QualifiedIdentifier) + ")"
	case *interpreter.VariableSizedStaticType:
		return "(TVarSized " + coqType(x.Type) + ")"
	case *interpreter.ConstantSizedStaticType:
		return fmt.Sprintf("(TConstSized %s %s)", lib.ZI(x.Size), coqType(x.Type))
	case *interpreter.DictionaryStaticType:
		return "(TDictionary " + coqType(x.KeyType) + " " + coqType(x.ValueType) + ")"
	case *interpreter.ReferenceStaticType:
		leg := "None"
		if x.HasLegacyIsAuthorized {
			leg = fmt.Sprintf("(Some %v)", x.LegacyIsAuthorized)
		}
		return "(TReference " + leg + " " + coqAuth(x.Authorization) + " " + coqType(x.ReferencedType) + ")"
	case *interpreter.IntersectionStaticType:
		var is []string
		for _, i := range x.Types {
			is = append(is, "("+coqLocation(i.Location)+","+coqStr(i.QualifiedIdentifier)+")")
		}
		return "(TIntersection " + coqOptType(x.LegacyType) + " [" + strings.Join(is, ";") + "])"
	case *interpreter.CapabilityStaticType:
		return "(TCapability " + coqOptType(x.BorrowType) + ")"
	case interpreter.InclusiveRangeStaticType:
		return "(TInclusiveRange " + coqType(x.ElementType) + ")"
	}
	panic(fmt.Sprintf("unsupported static type %T", t))
}

var numKinds = map[string]string{
	"Int": "KInt", "Int8": "KInt8", "Int16": "KInt16", "Int32": "KInt32", "Int64": "KInt64", "Int128": "KInt128", "Int256": "KInt256",
	"UInt": "KUInt", "UInt8": "KUInt8", "UInt16": "KUInt16", "UInt32": "KUInt32", "UInt64": "KUInt64", "UInt128": "KUInt128", "UInt256": "KUInt256",
	"Word8": "KWord8", "Word16": "KWord16", "Word32": "KWord32", "Word64": "KWord64", "Word128": "KWord128", "Word256": "KWord256",
}

func coqPath(p interpreter.PathValue) string {
	return fmt.Sprintf("%d %s", uint64(p.Domain), coqStr(p.Identifier))
}

func coqAddrVal(a interpreter.AddressValue) string { return addrToZ(common.Address(a)) }

// coqStorable renders a storable (as produced by Value.Storable or by the decoder)
func coqStorable(s atree.Storable) string {
	switch x := s.(type) {
	case values.BoolValue:
		return fmt.Sprintf("(VBool %v)", bool(x))
	case interpreter.NilValue:
		return "VNil"
	case interpreter.VoidValue:
		return "VVoid"
	case *interpreter.StringValue:
		return "(VString " + coqStr(x.Str) + ")"
	case interpreter.CharacterValue:
		return "(VCharacter " + coqStr(x.Str) + ")"
	case interpreter.StringAtreeValue:
		return "(VAtreeString " + coqStr(string(x)) + ")"
	case interpreter.Uint64AtreeValue:
		return fmt.Sprintf("(VAtreeUint %d)", uint64(x))
	case interpreter.AddressValue:
		return "(VAddress " + coqAddrVal(x) + ")"
	case interpreter.PathValue:
		return "(VPath " + coqPath(x) + ")"
	case values.IntValue:
		return "(VNum KInt " + lib.Z(x.BigInt) + ")"
	case values.UFix64Value:
		return fmt.Sprintf("(VNum KUFix64 %d)", uint64(x))
	case interpreter.Fix64Value:
		return "(VNum KFix64 " + lib.ZI(int64(x)) + ")"
	case interpreter.UFix64Value:
		return fmt.Sprintf("(VNum KUFix64 %d)", uint64(x.UFix64Value))
	case interpreter.Fix128Value:
		return fmt.Sprintf("(VFix128 %d %d)", uint64(x.Hi), uint64(x.Lo))
	case interpreter.UFix128Value:
		return fmt.Sprintf("(VUFix128 %d %d)", uint64(x.Hi), uint64(x.Lo))
	case interpreter.SomeStorable:
		return "(VSome " + coqStorable(x.Storable) + ")"
	case *interpreter.IDCapabilityValue:
		return fmt.Sprintf("(VCapability %s %d %s)", coqAddrVal(x.Address()), uint64(x.ID), coqType(x.BorrowType))
	case *interpreter.PublishedValue:
		return "(VPublished " + coqAddrVal(x.Recipient) + " " + coqStorable(x.Value.(atree.Storable)) + ")"
	case interpreter.TypeValue:
		return "(VType " + coqOptType(x.Type) + ")"
	case *interpreter.StorageCapabilityControllerValue:
		return fmt.Sprintf("(VStorageCapCon %s %d %s)", coqType(x.BorrowType), uint64(x.CapabilityID), coqPath(x.TargetPath))
	case *interpreter.AccountCapabilityControllerValue:
		return fmt.Sprintf("(VAccountCapCon %s %d)", coqType(x.BorrowType), uint64(x.CapabilityID))
	case *interpreter.PathCapabilityValue:
		return fmt.Sprintf("(VPathCapability %s %s %s)", coqAddrVal(x.Address()), coqPath(x.Path), coqOptType(x.BorrowType))
	case interpreter.PathLinkValue:
		return "(VPathLink " + coqPath(x.TargetPath) + " " + coqType(x.Type) + ")"
	case interpreter.AccountLinkValue:
		return "VAccountLink"
	}
	if v, ok := s.(interpreter.IntegerValue); ok {
		name := v.StaticType(nil).String()
		if k, ok := numKinds[name]; ok {
			return "(VNum " + k + " " + lib.Z(lib.ValueToBig(v)) + ")"
		}
	}
	panic(fmt.Sprintf("unsupported storable %T", s))
}

// ---------------------------------------------------------------- generation

type vgen struct {
	r       *lib.Rng
	storage interpreter.Storage
}

func (g *vgen) text() string { return lib.Pick(g.r, textPool) }

func (g *vgen) address() common.Address {
	var a common.Address
	switch g.r.Intn(5) {
	case 0: // zero
	case 1:
		a[7] = byte(1 + g.r.Intn(255))
	case 2:
		for i := range a {
			a[i] = 0xff
		}
	case 3:
		a[0] = byte(1 + g.r.Intn(255)) // no leading zero byte
		a[7] = byte(g.r.Intn(256))
	default:
		n := 1 + g.r.Intn(8)
		for i := 8 - n; i < 8; i++ {
			a[i] = byte(g.r.Intn(256))
		}
	}
	return a
}

func (g *vgen) location() common.Location {
	switch g.r.Intn(7) {
	case 0:
		return nil
	case 1, 2:
		return common.AddressLocation{Address: g.address(), Name: g.text()}
	case 3:
		return common.StringLocation(g.text())
	case 4:
		return common.IdentifierLocation(g.text())
	case 5:
		var l common.TransactionLocation
		for i := range l {
			l[i] = byte(g.r.Intn(256))
		}
		return l
	default:
		var l common.ScriptLocation
		for i := range l {
			l[i] = byte(g.r.Intn(256))
		}
		return l
	}
}

// a location and qualified identifier with a non-empty type ID (the constructors refuse the
// nil location with the empty identifier)
func (g *vgen) locQid() (common.Location, string) {
	l, q := g.location(), g.text()
	if l == nil && q == "" {
		q = "Q"
	}
	return l, q
}

func (g *vgen) auth() interpreter.Authorization {
	switch g.r.Intn(6) {
	case 0, 1:
		return interpreter.UnauthorizedAccess
	case 2:
		return interpreter.InaccessibleAccess
	case 3:
		return interpreter.NewEntitlementMapAuthorization(nil, common.TypeID(g.text()))
	default:
		n := g.r.Intn(4)
		seen := map[string]bool{}
		var ids []common.TypeID
		for i := 0; i < n; i++ {
			s := g.text()
			if !seen[s] {
				seen[s] = true
				ids = append(ids, common.TypeID(s))
			}
		}
		kind := sema.Conjunction
		if g.r.Bool() {
			kind = sema.Disjunction
		}
		return interpreter.NewEntitlementSetAuthorization(nil, func() []common.TypeID { return ids }, len(ids), kind)
	}
}

func (g *vgen) primitive() interpreter.PrimitiveStaticType {
	for {
		p := interpreter.PrimitiveStaticType(1 + g.r.Intn(int(interpreter.PrimitiveStaticType_Count)-1))
		if p == interpreter.PrimitiveStaticTypeCapability { //nolint:staticcheck
			continue // deprecated code: decodes to the capability static type (migration), see Properties/C44.v
		}
		return p
	}
}

func (g *vgen) reference(depth int) *interpreter.ReferenceStaticType {
	return interpreter.NewReferenceStaticType(nil, g.auth(), g.ty(depth-1))
}

func (g *vgen) ty(depth int) interpreter.StaticType {
	k := g.r.Intn(14)
	if depth <= 0 && k > 4 {
		k = g.r.Intn(5)
	}
	switch k {
	case 0, 1, 2:
		return g.primitive()
	case 3:
		l, q := g.locQid()
		return interpreter.NewCompositeStaticTypeComputeTypeID(nil, l, q)
	case 4:
		l, q := g.locQid()
		return interpreter.NewInterfaceStaticTypeComputeTypeID(nil, l, q)
	case 5:
		return interpreter.NewOptionalStaticType(nil, g.ty(depth-1))
	case 6:
		return interpreter.NewVariableSizedStaticType(nil, g.ty(depth-1))
	case 7:
		sizes := []int64{0, 1, 23, 24, 255, 256, 65536, math.MaxInt64}
		return interpreter.NewConstantSizedStaticType(nil, g.ty(depth-1), lib.Pick(g.r, sizes))
	case 8:
		return interpreter.NewDictionaryStaticType(nil, g.ty(depth-1), g.ty(depth-1))
	case 9, 10:
		return g.reference(depth)
	case 11:
		n := g.r.Intn(3)
		var is []*interpreter.InterfaceStaticType
		for i := 0; i < n; i++ {
			l, q := g.locQid()
			is = append(is, interpreter.NewInterfaceStaticTypeComputeTypeID(nil, l, q))
		}
		t := interpreter.NewIntersectionStaticType(nil, is)
		if g.r.Chance(1, 3) {
			t.LegacyType = g.ty(depth - 1)
		}
		return t
	case 12:
		if g.r.Chance(1, 4) {
			return interpreter.NewCapabilityStaticType(nil, nil)
		}
		return interpreter.NewCapabilityStaticType(nil, g.ty(depth-1))
	default:
		return interpreter.NewInclusiveRangeStaticType(nil, g.ty(depth-1))
	}
}

func (g *vgen) path() interpreter.PathValue {
	return interpreter.NewUnmeteredPathValue(common.PathDomain(g.r.Intn(4)), g.text())
}

func (g *vgen) u64() uint64 {
	edges := []uint64{0, 1, 23, 24, 255, 256, 65535, 65536, 1<<32 - 1, 1 << 32, 1<<63 - 1, 1 << 63, math.MaxUint64}
	if g.r.Bool() {
		return lib.Pick(g.r, edges)
	}
	return g.r.U64() >> uint(g.r.Intn(64))
}

func (g *vgen) capability() *interpreter.IDCapabilityValue {
	return interpreter.NewUnmeteredCapabilityValue(interpreter.UInt64Value(g.u64()),
		interpreter.AddressValue(g.address()), g.ty(2))
}

// value produces an interpreter value (or a bare storable for the atree key kinds)
func (g *vgen) storable(depth int) atree.Storable {
	k := g.r.Intn(26)
	if depth <= 0 && k == 12 {
		k = 0
	}
	toStorable := func(v interpreter.Value) atree.Storable {
		s, err := v.Storable(g.storage, atree.Address{}, math.MaxUint32)
		if err != nil {
			panic(err)
		}
		return s
	}
	switch k {
	case 0, 1, 2, 3, 4, 5:
		t := lib.Pick(g.r, lib.IntTypes)
		var z *big.Int
		if g.r.Bool() {
			z = lib.Pick(g.r, t.Lattice())
		} else {
			z = t.Random(g.r)
		}
		return toStorable(t.Make(z))
	case 6:
		return interpreter.NewUnmeteredFix64Value(int64(g.u64()))
	case 7:
		return interpreter.NewUnmeteredUFix64Value(g.u64())
	case 8:
		return interpreter.NewUnmeteredFix128Value(fix.NewFix128(g.u64(), g.u64()))
	case 9:
		return interpreter.NewUnmeteredUFix128Value(fix.NewUFix128(g.u64(), g.u64()))
	case 10:
		return values.BoolValue(g.r.Bool())
	case 11:
		if g.r.Bool() {
			return interpreter.NilStorable
		}
		return interpreter.VoidStorable
	case 12:
		n := 1 + g.r.Intn(4)
		var v interpreter.Value
		inner := g.storable(0)
		iv, ok := inner.(interpreter.Value)
		if !ok {
			iv = interpreter.NewUnmeteredIntValueFromInt64(7)
		}
		v = iv
		for i := 0; i < n; i++ {
			v = interpreter.NewUnmeteredSomeValueNonCopying(v)
		}
		return toStorable(v)
	case 13:
		return toStorable(interpreter.NewUnmeteredStringValue(g.text()))
	case 14:
		chars := []string{"a", "é", "日", "👍", " "}
		return interpreter.NewUnmeteredCharacterValue(lib.Pick(g.r, chars))
	case 15:
		return interpreter.AddressValue(g.address())
	case 16:
		return g.path()
	case 17, 18:
		return g.capability()
	case 19:
		return interpreter.NewPublishedValue(nil, interpreter.AddressValue(g.address()), g.capability())
	case 20:
		if g.r.Chance(1, 6) {
			return interpreter.NewUnmeteredTypeValue(nil)
		}
		return interpreter.NewUnmeteredTypeValue(g.ty(3))
	case 21:
		return interpreter.NewUnmeteredStorageCapabilityControllerValue(g.reference(2), interpreter.UInt64Value(g.u64()), g.path())
	case 22:
		return interpreter.NewUnmeteredAccountCapabilityControllerValue(g.reference(2), interpreter.UInt64Value(g.u64()))
	case 23:
		var bt interpreter.StaticType
		if g.r.Bool() {
			bt = g.ty(2)
		}
		return interpreter.NewUnmeteredPathCapabilityValue(bt, interpreter.AddressValue(g.address()), g.path()) //nolint:staticcheck
	case 24:
		if g.r.Bool() {
			return interpreter.PathLinkValue{Type: g.ty(2), TargetPath: g.path()} //nolint:staticcheck
		}
		return interpreter.AccountLinkValue{} //nolint:staticcheck
	default:
		if g.r.Bool() {
			return interpreter.StringAtreeValue(g.text())
		}
		return interpreter.Uint64AtreeValue(g.u64())
	}
}
