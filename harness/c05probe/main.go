package main

import (
	"fmt"

	"cvh/lib"

	"github.com/onflow/cadence/common"
)

const contract = `
access(all) contract C05 {
    access(all) struct Inner {
        access(all) var v: Int
        access(all) var ys: [Int]
        init(v: Int, ys: [Int]) { self.v = v; self.ys = ys }
        access(all) fun appendYs(_ x: Int) { self.ys.append(x) }
    }
    access(all) fun idArrInt(_ x: [Int]): [Int] { return x }
    access(all) fun idGrid(_ x: [[Int]]): [[Int]] { return x }
    access(all) fun idInner(_ x: Inner): Inner { return x }
}
`

func main() {
	addr := common.MustBytesToAddress([]byte{1})
	for _, vm := range []bool{false, true} {
		h := lib.NewHost()
		o := h.Deploy(addr, "C05", contract, vm)
		fmt.Println("deploy", o.Class, o.Err)
		run := func(src string) {
			o := h.RunTx(src, nil, []common.Address{addr}, vm)
			fmt.Printf("vm=%v class=%q logs=%q\n", vm, o.Class, o.Logs)
			if o.Err != nil {
				fmt.Printf("   err=%.900s\n", o.Err.Error())
			}
		}
		run(`import C05 from 0x1
transaction { prepare(acct: auth(Storage) &Account) {
  var a: [Int] = [1]
  var g: [[Int]] = [[1],[2]]
  var i = C05.Inner(v: 1, ys: [1])
  var d: {Int: [Int]} = {1: [1]}
  acct.storage.save(a, to: /storage/a)
  acct.storage.save(g, to: /storage/g)
  acct.storage.save(i, to: /storage/i)
  acct.storage.copy<[Int]>(from: /storage/a)!.append(2)
  acct.storage.copy<[[Int]]>(from: /storage/g)![1].append(2)
  acct.storage.copy<C05.Inner>(from: /storage/i)!.appendYs(2)
  let r0 = &acct.storage.copy<[Int]>(from: /storage/a)! as auth(Mutate) &[Int]
  r0.append(3)
  log(acct.storage.copy<[Int]>(from: /storage/a)!); log(acct.storage.copy<[[Int]]>(from: /storage/g)!); log(acct.storage.copy<C05.Inner>(from: /storage/i)!)
  C05.idArrInt(a).append(4)
  C05.idGrid(g)[0].append(4)
  C05.idInner(i).appendYs(4)
  let r1 = &C05.idArrInt(a) as auth(Mutate) &[Int]
  r1.append(5)
  log(a); log(g); log(i)
  [a, a][0].append(6)
  {1: a}[1]!.append(6)
  C05.Inner(v: 2, ys: a).ys.append(6)
  C05.Inner(v: 2, ys: a).appendYs(6)
  let r2 = &[a, a] as auth(Mutate) &[[Int]]
  r2[0].append(7)
  r2.append([8])
  log(a)
  (a as [Int]).append(10)
  log(a)
  let x: AnyStruct = a
  (x as! [Int]).append(11)
  log(x); log(a)
  (x as? [Int])!.append(12)
  log(x)
  (true ? a : [0]).append(13)
  log(a)
  let o: [Int]? = a
  o!.append(14)
  (o ?? [0]).append(15)
  log(o); log(a)
  if let b = o { b.append(16); log(b) }
  log(o)
  (d[1] ?? [0]).append(17)
  log(d)
  (g[0] as [Int]).append(18)
  (false ? [0] : g[1]).append(19)
  log(g)
  let r3 = &(a as [Int]) as auth(Mutate) &[Int]
  r3.append(20)
  log(a)
  (i as C05.Inner).appendYs(21)
  (true ? i : i).appendYs(22)
  log(i)
} }`)
	}
}
