package main

import (
	"fmt"
	"sort"
	"strings"

	"github.com/onflow/cadence/ast"
)

// candidate is a sub-construct of a failing program, re-wrapped so that it parses on its own.
type candidate struct {
	src  string // wrapped source
	kind string // "expression" | "statement" | "declaration" | "member"
	text string // the construct's own text
}

func wrap(kind, s string) string {
	switch kind {
	case "expression":
		return "let x = " + s
	case "statement":
		return "fun f() {\n" + s + "\n}"
	case "member":
		return "resource R {\n" + s + "\n}"
	default:
		return s
	}
}

// minimize finds the smallest sub-construct of src (an accepted program whose round trip fails) that still
// fails the round trip when printed on its own; returns the wrapped source and its result.
func minimize(src string) (string, rtResult) {
	best := src
	bestRes := roundTrip(src)
	for iter := 0; iter < 6; iter++ {
		p, err := parseProg(best)
		if err != nil || p == nil {
			break
		}
		var cands []candidate
		topLevel := map[ast.Element]bool{}
		for _, d := range p.Declarations() {
			topLevel[d] = true
		}
		ast.Inspect(p, func(el ast.Element) bool {
			if el == nil {
				return false
			}
			if _, isProg := el.(*ast.Program); isProg {
				return true
			}
			s, e := el.StartPosition().Offset, el.EndPosition(nil).Offset
			if s < 0 || e >= len(best) || e < s {
				return true
			}
			text := best[s : e+1]
			switch el.(type) {
			case ast.Expression:
				cands = append(cands, candidate{wrap("expression", text), "expression", text})
			case ast.Statement:
				if _, isDecl := el.(ast.Declaration); isDecl {
					cands = append(cands, candidate{wrap("declaration", text), "declaration", text})
					cands = append(cands, candidate{wrap("member", text), "member", text})
				}
				cands = append(cands, candidate{wrap("statement", text), "statement", text})
			case ast.Declaration:
				cands = append(cands, candidate{wrap("declaration", text), "declaration", text})
				cands = append(cands, candidate{wrap("member", text), "member", text})
			}
			return true
		})
		sort.SliceStable(cands, func(i, j int) bool { return len(cands[i].src) < len(cands[j].src) })
		improved := false
		if len(cands) > 600 {
			cands = cands[:600]
		}
		for _, c := range cands {
			if len(c.src) >= len(best) {
				break
			}
			r := roundTrip(c.src)
			if r.accepted && r.key != "" {
				best, bestRes = c.src, r
				improved = true
				break
			}
		}
		if !improved {
			break
		}
	}
	return best, bestRes
}

func desc(el ast.Element) string {
	if el == nil {
		return "nil"
	}
	t := el.ElementType().String()
	switch x := el.(type) {
	case *ast.UnaryExpression:
		return fmt.Sprintf("%s(%s)", t, x.Operation)
	case *ast.BinaryExpression:
		return fmt.Sprintf("%s(%s)", t, x.Operation)
	case *ast.CastingExpression:
		return fmt.Sprintf("%s(%s)", t, x.Operation)
	}
	return t
}

// shape describes the root construct of a minimized source: its node kind and the kinds of its direct children.
func shape(src string) string {
	p, err := parseProg(src)
	if err != nil || p == nil || len(p.Declarations()) == 0 {
		return "unparsable"
	}
	var root ast.Element = p.Declarations()[0]
	// unwrap the wrappers of wrap()
	if vd, ok := root.(*ast.VariableDeclaration); ok && vd.Identifier.Identifier == "x" && strings.HasPrefix(src, "let x = ") && vd.Value != nil {
		root = vd.Value
	} else if fd, ok := root.(*ast.FunctionDeclaration); ok && fd.Identifier.Identifier == "f" && strings.HasPrefix(src, "fun f() {\n") &&
		fd.FunctionBlock != nil && fd.FunctionBlock.Block != nil && len(fd.FunctionBlock.Block.Statements) == 1 {
		root = fd.FunctionBlock.Block.Statements[0]
	} else if cd, ok := root.(*ast.CompositeDeclaration); ok && cd.Identifier.Identifier == "R" && strings.HasPrefix(src, "resource R {\n") &&
		len(cd.Members.Declarations()) == 1 {
		root = cd.Members.Declarations()[0]
	}
	var kids []string
	root.Walk(func(child ast.Element) {
		if child != nil {
			kids = append(kids, desc(child))
		}
	})
	return desc(root) + "[" + strings.Join(kids, ",") + "]"
}
