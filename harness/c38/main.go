// Command c38: harness for property C38 (printing a parsed program and re-parsing it yields the same AST).
package main

import (
	"encoding/json"
	"flag"
	"fmt"
	"os"
	"reflect"
	"sort"
	"strings"

	"cvh/lib"

	"github.com/onflow/cadence/ast"
	"github.com/onflow/cadence/parser"
)

var (
	prop   = flag.String("prop", "C38", "property id")
	seed   = flag.Uint64("seed", 1, "seed")
	tier   = flag.String("tier", "quick", "quick|thorough")
	dir    = flag.String("dir", ".", "output directory")
	corpus = flag.String("corpus", "", "corpus directory")
	one    = flag.String("one", "", "debug: round-trip this source and print")
)

// stripPositions removes everything position- and comment-related from a decoded AST JSON value.
func stripPositions(v any) any {
	switch x := v.(type) {
	case map[string]any:
		if _, a := x["Offset"]; a {
			if _, b := x["Line"]; b {
				if _, c := x["Column"]; c && len(x) == 3 {
					return nil
				}
			}
		}
		out := map[string]any{}
		for k, val := range x {
			if k == "StartPos" || k == "EndPos" || k == "DocString" || strings.HasSuffix(k, "Pos") || k == "Range" || k == "Comments" {
				continue
			}
			out[k] = stripPositions(val)
		}
		return out
	case []any:
		out := make([]any, len(x))
		for i, e := range x {
			out[i] = stripPositions(e)
		}
		return out
	default:
		return v
	}
}

func astJSON(el any) (any, string, error) {
	b, err := json.Marshal(el)
	if err != nil {
		return nil, "", err
	}
	var v any
	dec := json.NewDecoder(strings.NewReader(string(b)))
	dec.UseNumber()
	if err := dec.Decode(&v); err != nil {
		return nil, "", err
	}
	s := stripPositions(v)
	out, _ := json.Marshal(s) // map keys are sorted by encoding/json
	return s, string(out), nil
}

// firstDiff describes the first difference of two stripped JSON values.
func firstDiff(a, b any, path string) string {
	if reflect.DeepEqual(a, b) {
		return ""
	}
	ma, oka := a.(map[string]any)
	mb, okb := b.(map[string]any)
	if oka && okb {
		keys := map[string]bool{}
		for k := range ma {
			keys[k] = true
		}
		for k := range mb {
			keys[k] = true
		}
		var ks []string
		for k := range keys {
			ks = append(ks, k)
		}
		sort.Strings(ks)
		for _, k := range ks {
			if d := firstDiff(ma[k], mb[k], path+"."+k); d != "" {
				return d
			}
		}
	}
	la, oka := a.([]any)
	lb, okb := b.([]any)
	if oka && okb {
		if len(la) != len(lb) {
			return fmt.Sprintf("%s: %d elements before, %d after", path, len(la), len(lb))
		}
		for i := range la {
			if d := firstDiff(la[i], lb[i], fmt.Sprintf("%s[%d]", path, i)); d != "" {
				return d
			}
		}
	}
	ja, _ := json.Marshal(a)
	jb, _ := json.Marshal(b)
	sa, sb := string(ja), string(jb)
	if len(sa) > 160 {
		sa = sa[:160] + "..."
	}
	if len(sb) > 160 {
		sb = sb[:160] + "..."
	}
	return fmt.Sprintf("%s: before %s, after %s", path, sa, sb)
}

func typeAt(v any, path string) string {
	// the "Type" field of the innermost node on the path (used for failure keys)
	cur := v
	last := ""
	for _, seg := range strings.Split(strings.TrimPrefix(path, "."), ".") {
		name := seg
		idx := -1
		if i := strings.Index(seg, "["); i >= 0 {
			name = seg[:i]
			fmt.Sscanf(seg[i:], "[%d]", &idx)
		}
		m, ok := cur.(map[string]any)
		if !ok {
			break
		}
		if t, ok := m["Type"].(string); ok {
			last = t
		}
		cur = m[name]
		if idx >= 0 {
			if l, ok := cur.([]any); ok && idx < len(l) {
				cur = l[idx]
			}
		}
	}
	if m, ok := cur.(map[string]any); ok {
		if t, ok := m["Type"].(string); ok {
			last = t
		}
	}
	return last
}

type rtResult struct {
	accepted bool
	printed  string
	key      string // "" = round trip ok
	what     string
	errTypes string // types of ALL parse errors of the printed text (when it is rejected)
}

func parseProg(src string) (*ast.Program, error) {
	b := []byte(src)
	var prog *ast.Program
	var err error
	cls, rec := lib.Catch(func() { prog, err = parser.ParseProgram(nil, b, parser.Config{}) })
	if cls != "" {
		return nil, fmt.Errorf("panic: %v", rec)
	}
	return prog, err
}

func shortErr(err error) string {
	if pe, ok := err.(parser.Error); ok && len(pe.Errors) > 0 {
		return fmt.Sprintf("%T: %v", pe.Errors[0], firstLine(pe.Errors[0].Error()))
	}
	return firstLine(err.Error())
}

func firstLine(s string) string {
	if i := strings.Index(s, "\n"); i >= 0 {
		return s[:i]
	}
	return s
}

func roundTrip(src string) rtResult {
	p1, err := parseProg(src)
	if err != nil || p1 == nil {
		return rtResult{}
	}
	r := rtResult{accepted: true}
	var text string
	cls, rec := lib.Catch(func() { text = ast.Prettier(p1) })
	if cls != "" {
		r.key, r.what = "print-panics", fmt.Sprintf("ast.Prettier panics: %v", rec)
		return r
	}
	r.printed = text
	v1, j1, err := astJSON(p1)
	if err != nil {
		r.key, r.what = "json", "cannot marshal AST: "+err.Error()
		return r
	}
	p2, err := parseProg(text)
	if err != nil || p2 == nil {
		r.key = "reparse-rejected"
		r.what = "the pretty-printed program does not parse: " + shortErr(err)
		// name the construct: the first parse error type
		if pe, ok := err.(parser.Error); ok && len(pe.Errors) > 0 {
			r.key = fmt.Sprintf("reparse-rejected:%T", pe.Errors[0])
			for _, e := range pe.Errors {
				r.errTypes += fmt.Sprintf("%T;", e)
			}
		}
		return r
	}
	v2, j2, _ := astJSON(p2)
	if j1 != j2 {
		d := firstDiff(v1, v2, "")
		path := d
		if i := strings.Index(d, ":"); i >= 0 {
			path = d[:i]
		}
		r.key = "ast-differs:" + typeAt(v1, path)
		r.what = "AST differs after print + parse at " + d
		return r
	}
	var text2 string
	cls, _ = lib.Catch(func() { text2 = ast.Prettier(p2) })
	if cls != "" || text2 != text {
		r.key, r.what = "print-not-idempotent", "printing the re-parsed program gives different text"
	}
	return r
}

func main() {
	flag.Parse()
	if *one != "" {
		r := roundTrip(*one)
		fmt.Printf("accepted=%v\nprinted:\n%s\nkey=%s\nwhat=%s\n", r.accepted, r.printed, r.key, r.what)
		return
	}
	if *prop != "C38" {
		fmt.Fprintln(os.Stderr, "unknown prop", *prop)
		os.Exit(2)
	}
	sum := &lib.Summary{Distribution: map[string]int{}}
	run(sum)
	sum.Write(*dir)
}
