package main

import (
	"regexp"
	"strings"

	"github.com/onflow/cadence/ast"
)

// knownPattern names the known cause of a failing round trip, judged on the MINIMAL failing construct
// (see minimize): "" if the construct shows none of the known causes.
func knownPattern(minSrc string, res rtResult) string {
	p, err := parseProg(minSrc)
	if err != nil || p == nil {
		return ""
	}
	found := map[string]bool{}
	var stack []ast.Element
	var visit func(el ast.Element)
	visit = func(el ast.Element) {
		if el == nil {
			return
		}
		var parent ast.Element
		if len(stack) > 0 {
			parent = stack[len(stack)-1]
		}
		_, parentIsExpr := parent.(ast.Expression)
		switch x := el.(type) {
		case *ast.EntitlementMappingDeclaration:
			if len(x.Elements) == 0 {
				found["empty-entitlement-mapping"] = true
			}
		case *ast.TransactionDeclaration:
			if x.ParameterList != nil && len(x.ParameterList.Parameters) == 0 {
				found["transaction-empty-parameter-list"] = true
			}
		case *ast.IfStatement:
			if x.Else != nil && len(x.Else.Statements) == 0 {
				found["empty-else-block"] = true
			}
		case *ast.DestroyExpression:
			if parentIsExpr {
				found["nested-destroy-operand"] = true
			}
		case *ast.AttachExpression:
			if parentIsExpr {
				found["nested-attach-operand"] = true
			}
		case *ast.UnaryExpression:
			if x.Operation == ast.OperationMove && parentIsExpr {
				found["nested-move-operand"] = true
			}
		case *ast.BinaryExpression:
			if l, ok := x.Left.(*ast.BinaryExpression); ok && x.Operation == ast.OperationGreater && l.Operation == ast.OperationLess {
				found["less-greater-chain-reads-as-type-arguments"] = true
			}
		case *ast.MemberExpression:
			if _, ok := x.Expression.(*ast.IntegerExpression); ok && !negativeLiteral(x.Expression) {
				found["member-of-integer-literal"] = true
			}
			if negativeLiteral(x.Expression) {
				found["postfix-on-negative-literal"] = true
			}
		case *ast.IndexExpression:
			if negativeLiteral(x.TargetExpression) {
				found["postfix-on-negative-literal"] = true
			}
		case *ast.InvocationExpression:
			if negativeLiteral(x.InvokedExpression) {
				found["postfix-on-negative-literal"] = true
			}
		case *ast.ForceExpression:
			if negativeLiteral(x.Expression) {
				found["postfix-on-negative-literal"] = true
			}
		}
		stack = append(stack, el)
		el.Walk(visit)
		stack = stack[:len(stack)-1]
	}
	visit(p)
	// adjacent statements / conditions merged: the later one starts with a token that is also an infix operator
	if strings.Contains(res.what, "elements before") &&
		(strings.Contains(res.what, ".Statements:") || strings.Contains(res.what, ".Conditions:")) {
		if boundaryProne(p) {
			return "statement-boundary-lost"
		}
	}
	if strings.Contains(res.key, "ExpressionDepthLimitReachedError") {
		return "depth-limit-after-added-parentheses"
	}
	// the `<` look-ahead reads `fun(..)..{}` as a restricted type; with a parenthesised function expression the
	// first reported error is MissingEndOfParenthesizedTypeError, the RestrictedTypeError follows
	if (strings.Contains(res.key, "RestrictedTypeError") || strings.Contains(res.errTypes, "RestrictedTypeError")) &&
		lessThanEmptyFun.MatchString(res.printed) {
		return "less-than-before-empty-function-expression"
	}
	for _, k := range []string{"less-greater-chain-reads-as-type-arguments", "postfix-on-negative-literal", "empty-entitlement-mapping", "transaction-empty-parameter-list", "empty-else-block",
		"member-of-integer-literal", "nested-destroy-operand", "nested-attach-operand", "nested-move-operand"} {
		if found[k] {
			return k
		}
	}
	return ""
}

var lessThanEmptyFun = regexp.MustCompile(`<[^\n<]{0,12}fun\s*\([^)]*\)[^{\n]*\{\}`)

func negativeLiteral(e ast.Expression) bool {
	switch x := e.(type) {
	case *ast.IntegerExpression:
		return x.Value != nil && x.Value.Sign() < 0
	case *ast.FixedPointExpression:
		return x.Negative
	}
	return false
}

// boundaryProne: some statement or condition that follows another one prints with a leading token that
// the parser would also accept as an infix / postfix continuation of the previous line.
func boundaryProne(p *ast.Program) bool {
	prone := false
	startsAmbiguous := func(el ast.Element) bool {
		pr, ok := el.(ast.Pretty)
		if !ok {
			return false
		}
		s := strings.TrimSpace(ast.Prettier(pr))
		return s != "" && strings.ContainsRune("-*/&(<[?!|^%+>=", rune(s[0]))
	}
	ast.Inspect(p, func(el ast.Element) bool {
		switch x := el.(type) {
		case *ast.Block:
			for i := 1; i < len(x.Statements); i++ {
				if startsAmbiguous(x.Statements[i]) {
					prone = true
				}
			}
		case *ast.FunctionBlock:
			for _, cs := range []*ast.Conditions{x.PreConditions, x.PostConditions} {
				if cs == nil {
					continue
				}
				for i := 1; i < len(cs.Conditions); i++ {
					if c, ok := cs.Conditions[i].(ast.Element); ok && startsAmbiguous(c) {
						prone = true
					}
				}
			}
		}
		return true
	})
	return prone
}
