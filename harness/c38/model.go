package main

// Correspondence between the Coq model of the expression printer / Pratt parser (coq/theories/C38) and
// the real ast.Prettier / parser.ParseExpression: random expression trees of the modelled forms are
// rendered fully parenthesised, parsed by the real parser (giving the AST under test), pretty-printed by
// the real printer, tokenised by the real lexer and re-parsed; the Coq side checks
// model print = real print (as tokens) and model parse = real re-parse.

import (
	"fmt"
	"math/big"
	"strings"

	"cvh/lib"

	"github.com/onflow/cadence/ast"
	"github.com/onflow/cadence/parser"
	"github.com/onflow/cadence/parser/lexer"
)

type mty struct {
	Name []int
	Opts int
}

type mexpr struct {
	Kind   string // id int bool nil str bin un cond cast force member index invoke
	N      int
	Z      *big.Int
	B      bool
	S      []rune
	Op     string
	Opt    bool
	Ty     mty
	Kids   []*mexpr
	Labels []int // for invoke: label id per argument, -1 = none
}

var idNames = []string{"a", "b", "c", "d", "e", "f", "g", "h", "x", "y", "z", "foo", "bar", "self", "result"}
var tyNames = []string{"T", "U", "V", "Int", "R", "String"}

const tyBase = 100

var binOpsM = []struct{ coq, src string }{
	{"OOr", "||"}, {"OAnd", "&&"}, {"OLt", "<"}, {"OLe", "<="}, {"OGt", ">"}, {"OGe", ">="}, {"OEq", "=="}, {"ONe", "!="},
	{"ONilC", "??"}, {"OBitOr", "|"}, {"OBitXor", "^"}, {"OBitAnd", "&"}, {"OShl", "<<"}, {"OShr", ">>"},
	{"OAdd", "+"}, {"OSub", "-"}, {"OMul", "*"}, {"ODiv", "/"}, {"OMod", "%"}}
var unOpsM = []struct{ coq, src string }{{"UMinus", "-"}, {"UNot", "!"}, {"UMove", "<-"}, {"UDeref", "*"}}
var castsM = []struct{ coq, src string }{{"CAs", "as"}, {"CAsQ", "as?"}, {"CAsBang", "as!"}}

var astBin = map[ast.Operation]string{
	ast.OperationOr: "OOr", ast.OperationAnd: "OAnd", ast.OperationLess: "OLt", ast.OperationLessEqual: "OLe",
	ast.OperationGreater: "OGt", ast.OperationGreaterEqual: "OGe", ast.OperationEqual: "OEq", ast.OperationNotEqual: "ONe",
	ast.OperationNilCoalesce: "ONilC", ast.OperationBitwiseOr: "OBitOr", ast.OperationBitwiseXor: "OBitXor",
	ast.OperationBitwiseAnd: "OBitAnd", ast.OperationBitwiseLeftShift: "OShl", ast.OperationBitwiseRightShift: "OShr",
	ast.OperationPlus: "OAdd", ast.OperationMinus: "OSub", ast.OperationMul: "OMul", ast.OperationDiv: "ODiv", ast.OperationMod: "OMod"}

func genTy(r *lib.Rng) mty {
	t := mty{Name: []int{tyBase + r.Intn(len(tyNames))}}
	if r.Chance(1, 4) {
		t.Name = append(t.Name, tyBase+r.Intn(len(tyNames)))
	}
	if r.Chance(1, 3) {
		t.Opts = 1 + r.Intn(2)
	}
	return t
}

var strRunes = []rune{'a', 'b', ' ', '"', '\\', '\n', '\t', '\r', 0, '\'', 'é', '€', 0x1F600, 0x7f, 0x80, 0x10FFFF, '(', '{', '/'}

func genExpr(r *lib.Rng, d int) *mexpr {
	k := r.Intn(22)
	if d <= 0 {
		k = r.Intn(6)
	}
	switch k {
	case 0, 1, 2:
		return &mexpr{Kind: "id", N: r.Intn(len(idNames))}
	case 3:
		z := big.NewInt(int64(r.Intn(1000)))
		if r.Chance(1, 3) {
			z.Neg(z)
		}
		if r.Chance(1, 8) {
			z = new(big.Int).Lsh(big.NewInt(1), uint(60+r.Intn(100)))
		}
		return &mexpr{Kind: "int", Z: z}
	case 4:
		if r.Bool() {
			return &mexpr{Kind: "bool", B: r.Bool()}
		}
		return &mexpr{Kind: "nil"}
	case 5:
		n := r.Intn(5)
		s := make([]rune, n)
		for i := range s {
			s[i] = lib.Pick(r, strRunes)
		}
		return &mexpr{Kind: "str", S: s}
	case 6, 7, 8, 9, 10, 11:
		o := lib.Pick(r, binOpsM)
		return &mexpr{Kind: "bin", Op: o.coq, Kids: []*mexpr{genExpr(r, d-1), genExpr(r, d-1)}}
	case 12, 13:
		o := lib.Pick(r, unOpsM)
		return &mexpr{Kind: "un", Op: o.coq, Kids: []*mexpr{genExpr(r, d-1)}}
	case 14:
		return &mexpr{Kind: "cond", Kids: []*mexpr{genExpr(r, d-1), genExpr(r, d-1), genExpr(r, d-1)}}
	case 15, 16:
		o := lib.Pick(r, castsM)
		return &mexpr{Kind: "cast", Op: o.coq, Ty: genTy(r), Kids: []*mexpr{genExpr(r, d-1)}}
	case 17:
		return &mexpr{Kind: "force", Kids: []*mexpr{genExpr(r, d-1)}}
	case 18, 19:
		return &mexpr{Kind: "member", Opt: r.Chance(1, 3), N: r.Intn(len(idNames)), Kids: []*mexpr{genExpr(r, d-1)}}
	case 20:
		return &mexpr{Kind: "index", Kids: []*mexpr{genExpr(r, d-1), genExpr(r, d-1)}}
	default:
		n := r.Intn(4)
		e := &mexpr{Kind: "invoke", Kids: []*mexpr{genExpr(r, d-1)}}
		for i := 0; i < n; i++ {
			e.Kids = append(e.Kids, genExpr(r, d-1))
			if r.Chance(1, 3) {
				e.Labels = append(e.Labels, r.Intn(len(idNames)))
			} else {
				e.Labels = append(e.Labels, -1)
			}
		}
		return e
	}
}

func quoteRunes(s []rune) string { return ast.QuoteString(string(s)) }

func tySrc(t mty) string {
	var parts []string
	for _, n := range t.Name {
		parts = append(parts, tyNames[n-tyBase])
	}
	return strings.Join(parts, ".") + strings.Repeat("?", t.Opts)
}

// src renders the tree with every sub-expression parenthesised.
func (e *mexpr) src() string {
	p := func(x *mexpr) string { return "(" + x.src() + ")" }
	switch e.Kind {
	case "id":
		return idNames[e.N]
	case "int":
		return e.Z.String()
	case "bool":
		return fmt.Sprint(e.B)
	case "nil":
		return "nil"
	case "str":
		return quoteRunes(e.S)
	case "bin":
		for _, o := range binOpsM {
			if o.coq == e.Op {
				return p(e.Kids[0]) + " " + o.src + " " + p(e.Kids[1])
			}
		}
	case "un":
		for _, o := range unOpsM {
			if o.coq == e.Op {
				return o.src + p(e.Kids[0])
			}
		}
	case "cond":
		return p(e.Kids[0]) + " ? " + p(e.Kids[1]) + " : " + p(e.Kids[2])
	case "cast":
		for _, o := range castsM {
			if o.coq == e.Op {
				return p(e.Kids[0]) + " " + o.src + " " + tySrc(e.Ty)
			}
		}
	case "force":
		return p(e.Kids[0]) + "!"
	case "member":
		if e.Opt {
			return p(e.Kids[0]) + "?." + idNames[e.N]
		}
		return p(e.Kids[0]) + "." + idNames[e.N]
	case "index":
		return p(e.Kids[0]) + "[" + e.Kids[1].src() + "]"
	case "invoke":
		var as []string
		for i, a := range e.Kids[1:] {
			s := a.src()
			if e.Labels[i] >= 0 {
				s = idNames[e.Labels[i]] + ": " + s
			}
			as = append(as, s)
		}
		return p(e.Kids[0]) + "(" + strings.Join(as, ", ") + ")"
	}
	panic("src: " + e.Kind)
}

func zlist(xs []int) string {
	var s []string
	for _, x := range xs {
		s = append(s, fmt.Sprint(x))
	}
	return "[" + strings.Join(s, ";") + "]"
}

func runesCoq(s []rune) string {
	var xs []string
	for _, r := range s {
		xs = append(xs, fmt.Sprint(int(r)))
	}
	return "[" + strings.Join(xs, ";") + "]"
}

func tyCoq(t mty) string { return fmt.Sprintf("(mkTy %s %d)", zlist(t.Name), t.Opts) }

func (e *mexpr) coq() string {
	switch e.Kind {
	case "id":
		return fmt.Sprintf("(EId %d)", e.N)
	case "int":
		return "(EInt " + lib.Z(e.Z) + ")"
	case "bool":
		return fmt.Sprintf("(EBool %v)", e.B)
	case "nil":
		return "ENil"
	case "str":
		return "(EStr " + runesCoq(e.S) + ")"
	case "bin":
		return fmt.Sprintf("(EBin %s %s %s)", e.Op, e.Kids[0].coq(), e.Kids[1].coq())
	case "un":
		return fmt.Sprintf("(EUn %s %s)", e.Op, e.Kids[0].coq())
	case "cond":
		return fmt.Sprintf("(ECond %s %s %s)", e.Kids[0].coq(), e.Kids[1].coq(), e.Kids[2].coq())
	case "cast":
		return fmt.Sprintf("(ECast %s %s %s)", e.Op, e.Kids[0].coq(), tyCoq(e.Ty))
	case "force":
		return fmt.Sprintf("(EForce %s)", e.Kids[0].coq())
	case "member":
		return fmt.Sprintf("(EMember %v %s %d)", e.Opt, e.Kids[0].coq(), e.N)
	case "index":
		return fmt.Sprintf("(EIndex %s %s)", e.Kids[0].coq(), e.Kids[1].coq())
	case "invoke":
		var as []string
		for i, a := range e.Kids[1:] {
			lab := "None"
			if e.Labels[i] >= 0 {
				lab = fmt.Sprintf("(Some %d)", e.Labels[i])
			}
			as = append(as, fmt.Sprintf("(%s, %s)", lab, a.coq()))
		}
		return fmt.Sprintf("(EInvoke %s [%s])", e.Kids[0].coq(), strings.Join(as, "; "))
	}
	panic("coq: " + e.Kind)
}

func idIndex(name string) int {
	for i, n := range idNames {
		if n == name {
			return i
		}
	}
	return -1
}

func tyFromAST(t ast.Type) (mty, bool) {
	opts := 0
	for {
		o, ok := t.(*ast.OptionalType)
		if !ok {
			break
		}
		opts++
		t = o.Type
	}
	n, ok := t.(*ast.NominalType)
	if !ok {
		return mty{}, false
	}
	var res mty
	res.Opts = opts
	names := []string{n.Identifier.Identifier}
	for _, id := range n.NestedIdentifiers {
		names = append(names, id.Identifier)
	}
	for _, nm := range names {
		found := -1
		for i, x := range tyNames {
			if x == nm {
				found = i
			}
		}
		if found < 0 {
			return mty{}, false
		}
		res.Name = append(res.Name, tyBase+found)
	}
	return res, true
}

// fromAST converts a real expression to the model; ok=false if it uses a form outside the model.
func fromAST(e ast.Expression) (*mexpr, bool) {
	switch x := e.(type) {
	case *ast.IdentifierExpression:
		i := idIndex(x.Identifier.Identifier)
		return &mexpr{Kind: "id", N: i}, i >= 0
	case *ast.IntegerExpression:
		if x.Base != 10 {
			return nil, false
		}
		return &mexpr{Kind: "int", Z: new(big.Int).Set(x.Value)}, true
	case *ast.BoolExpression:
		return &mexpr{Kind: "bool", B: x.Value}, true
	case *ast.NilExpression:
		return &mexpr{Kind: "nil"}, true
	case *ast.StringExpression:
		return &mexpr{Kind: "str", S: []rune(x.Value)}, true
	case *ast.BinaryExpression:
		op, ok := astBin[x.Operation]
		l, ok1 := fromAST(x.Left)
		r, ok2 := fromAST(x.Right)
		return &mexpr{Kind: "bin", Op: op, Kids: []*mexpr{l, r}}, ok && ok1 && ok2
	case *ast.UnaryExpression:
		op := ""
		switch x.Operation {
		case ast.OperationMinus:
			op = "UMinus"
		case ast.OperationNegate:
			op = "UNot"
		case ast.OperationMove:
			op = "UMove"
		case ast.OperationMul:
			op = "UDeref"
		}
		k, ok := fromAST(x.Expression)
		return &mexpr{Kind: "un", Op: op, Kids: []*mexpr{k}}, ok && op != ""
	case *ast.ConditionalExpression:
		a, ok1 := fromAST(x.Test)
		b, ok2 := fromAST(x.Then)
		c, ok3 := fromAST(x.Else)
		return &mexpr{Kind: "cond", Kids: []*mexpr{a, b, c}}, ok1 && ok2 && ok3
	case *ast.CastingExpression:
		op := ""
		switch x.Operation {
		case ast.OperationCast:
			op = "CAs"
		case ast.OperationFailableCast:
			op = "CAsQ"
		case ast.OperationForceCast:
			op = "CAsBang"
		}
		if x.TypeAnnotation == nil || x.TypeAnnotation.IsResource {
			return nil, false
		}
		t, okt := tyFromAST(x.TypeAnnotation.Type)
		k, ok := fromAST(x.Expression)
		return &mexpr{Kind: "cast", Op: op, Ty: t, Kids: []*mexpr{k}}, ok && okt && op != ""
	case *ast.ForceExpression:
		k, ok := fromAST(x.Expression)
		return &mexpr{Kind: "force", Kids: []*mexpr{k}}, ok
	case *ast.MemberExpression:
		k, ok := fromAST(x.Expression)
		i := idIndex(x.Identifier.Identifier)
		return &mexpr{Kind: "member", Opt: x.Optional, N: i, Kids: []*mexpr{k}}, ok && i >= 0
	case *ast.IndexExpression:
		a, ok1 := fromAST(x.TargetExpression)
		b, ok2 := fromAST(x.IndexingExpression)
		return &mexpr{Kind: "index", Kids: []*mexpr{a, b}}, ok1 && ok2
	case *ast.InvocationExpression:
		if len(x.TypeArguments) > 0 {
			return nil, false
		}
		f, ok := fromAST(x.InvokedExpression)
		res := &mexpr{Kind: "invoke", Kids: []*mexpr{f}}
		for _, a := range x.Arguments {
			k, ok1 := fromAST(a.Expression)
			ok = ok && ok1
			lab := -1
			if a.Label != "" {
				lab = idIndex(a.Label)
				if lab < 0 {
					ok = false
				}
			}
			res.Kids = append(res.Kids, k)
			res.Labels = append(res.Labels, lab)
		}
		return res, ok
	}
	return nil, false
}

// toModelTokens lexes printed text with the real lexer and maps the tokens to the model's token language.
func toModelTokens(text string) (string, bool) {
	input := []byte(text)
	ts, err := lexer.Lex(input, nil)
	defer ts.Reclaim()
	if err != nil {
		return "", false
	}
	var toks []lexer.Token
	for {
		t := ts.Next()
		if t.Type == lexer.TokenEOF {
			break
		}
		if t.Type == lexer.TokenSpace {
			continue
		}
		toks = append(toks, t)
	}
	var out []string
	adj := func(i int) bool { return i > 0 && toks[i].StartPos.Offset == toks[i-1].EndPos.Offset+1 }
	for i := 0; i < len(toks); i++ {
		t := toks[i]
		txt := string(t.Source(input))
		bin := func(s string) { out = append(out, "TBin "+s) }
		switch t.Type {
		case lexer.TokenIdentifier:
			switch txt {
			case "true":
				out = append(out, "TTrue")
			case "false":
				out = append(out, "TFalse")
			case "nil":
				out = append(out, "TNil")
			case "as":
				out = append(out, "TCast CAs")
			default:
				j := idIndex(txt)
				if j < 0 {
					return "", false
				}
				out = append(out, fmt.Sprintf("TId %d", j))
			}
		case lexer.TokenAsQuestionMark:
			out = append(out, "TCast CAsQ")
		case lexer.TokenAsExclamationMark:
			out = append(out, "TCast CAsBang")
		case lexer.TokenDecimalIntegerLiteral:
			z, ok := new(big.Int).SetString(strings.ReplaceAll(txt, "_", ""), 10)
			if !ok {
				return "", false
			}
			out = append(out, "TInt "+lib.Z(z))
		case lexer.TokenString:
			ex, errs := parser.ParseExpression(nil, []byte(txt), parser.Config{})
			se, ok := ex.(*ast.StringExpression)
			if len(errs) > 0 || !ok {
				return "", false
			}
			out = append(out, "TStr "+runesCoq([]rune(se.Value)))
		case lexer.TokenVerticalBarVerticalBar:
			bin("OOr")
		case lexer.TokenAmpersandAmpersand:
			bin("OAnd")
		case lexer.TokenLess:
			bin("OLt")
		case lexer.TokenLessEqual:
			bin("OLe")
		case lexer.TokenGreater:
			if i+1 < len(toks) && toks[i+1].Type == lexer.TokenGreater && adj(i+1) {
				bin("OShr")
				i++
			} else {
				bin("OGt")
			}
		case lexer.TokenGreaterEqual:
			bin("OGe")
		case lexer.TokenEqualEqual:
			bin("OEq")
		case lexer.TokenNotEqual:
			bin("ONe")
		case lexer.TokenDoubleQuestionMark:
			bin("ONilC")
		case lexer.TokenVerticalBar:
			bin("OBitOr")
		case lexer.TokenCaret:
			bin("OBitXor")
		case lexer.TokenAmpersand:
			bin("OBitAnd")
		case lexer.TokenLessLess:
			bin("OShl")
		case lexer.TokenPlus:
			bin("OAdd")
		case lexer.TokenMinus:
			bin("OSub")
		case lexer.TokenStar:
			bin("OMul")
		case lexer.TokenSlash:
			bin("ODiv")
		case lexer.TokenPercent:
			bin("OMod")
		case lexer.TokenExclamationMark:
			out = append(out, "TBang")
		case lexer.TokenLeftArrow:
			out = append(out, "TMove")
		case lexer.TokenQuestionMark:
			out = append(out, "TQuestion")
		case lexer.TokenColon:
			out = append(out, "TColon")
		case lexer.TokenParenOpen:
			out = append(out, "TLParen")
		case lexer.TokenParenClose:
			out = append(out, "TRParen")
		case lexer.TokenBracketOpen:
			out = append(out, "TLBrack")
		case lexer.TokenBracketClose:
			out = append(out, "TRBrack")
		case lexer.TokenComma:
			out = append(out, "TComma")
		case lexer.TokenDot:
			out = append(out, "TDot")
		case lexer.TokenQuestionMarkDot:
			out = append(out, "TQDot")
		default:
			return "", false
		}
		// the type after a cast operator is one model token
		last := out[len(out)-1]
		if strings.HasPrefix(last, "TCast") {
			var t mty
			j := i + 1
			for j < len(toks) && toks[j].Type == lexer.TokenIdentifier {
				found := -1
				for k, x := range tyNames {
					if x == string(toks[j].Source(input)) {
						found = k
					}
				}
				if found < 0 {
					return "", false
				}
				t.Name = append(t.Name, tyBase+found)
				j++
				if j < len(toks) && toks[j].Type == lexer.TokenDot {
					j++
					continue
				}
				break
			}
			for j < len(toks) && j > 0 && toks[j].StartPos.Offset == toks[j-1].EndPos.Offset+1 {
				if toks[j].Type == lexer.TokenQuestionMark {
					t.Opts++
				} else if toks[j].Type == lexer.TokenDoubleQuestionMark {
					t.Opts += 2
				} else {
					break
				}
				j++
			}
			if len(t.Name) == 0 {
				return "", false
			}
			out = append(out, "TType "+tyCoq(t))
			i = j - 1
		}
	}
	return "[" + strings.Join(out, "; ") + "]", true
}

func equalM(a, b *mexpr) bool { return a != nil && b != nil && a.coq() == b.coq() }

func runModel(sum *lib.Summary, rng *lib.Rng) {
	cw := &lib.CaseWriter{Dir: *dir, Prefix: "cases_C38_expr", Header: "From CV Require Import C38.Cases.",
		ElemType: "expr_case", CheckFn: "check_expr", PerFile: 300}
	n := 1800
	if *tier == "thorough" {
		n = 30000
	}
	for i := 0; i < n; i++ {
		tree := genExpr(rng, 1+rng.Intn(4))
		src := tree.src()
		sum.Evaluations++
		ex, errs := parser.ParseExpression(nil, []byte(src), parser.Config{})
		if len(errs) > 0 || ex == nil {
			sum.Count("model: fully parenthesised source rejected")
			continue
		}
		e, ok := fromAST(ex)
		if !ok {
			sum.Count("model: outside the modelled forms")
			continue
		}
		printed := ex.String()
		toks, ok := toModelTokens(printed)
		if !ok {
			sum.Count("model: printed text has unmodelled tokens")
			if len(sum.Samples) < 8 {
				sum.Samples = append(sum.Samples, map[string]string{"unmodelled_printed": printed})
			}
			continue
		}
		re := "None"
		ex2, errs2 := parser.ParseExpression(nil, []byte(printed), parser.Config{})
		var e2 *mexpr
		typeArgs := false
		if len(errs2) == 0 && ex2 != nil {
			ast.Inspect(ex2, func(el ast.Element) bool {
				if inv, ok := el.(*ast.InvocationExpression); ok && len(inv.TypeArguments) > 0 {
					typeArgs = true
				}
				return true
			})
			if m, ok := fromAST(ex2); ok {
				e2 = m
				re = "(Some " + m.coq() + ")"
			}
		}
		if typeArgs {
			// the parser's `<` type-argument look-ahead is outside the model (reported by the real round trip)
			sum.Count("model: skipped, re-parse used type arguments")
			continue
		}
		sum.Count("model: expression cases")
		if equalM(e, e2) {
			sum.Count("model: real round trip closes")
		} else {
			sum.Count("model: real round trip differs (must be predicted by the model)")
		}
		cw.Add(fmt.Sprintf("(%s, %s, %s)", e.coq(), toks, re),
			map[string]any{"kind": "expression", "source": src, "printed": printed, "reparsed_equal": equalM(e, e2)})
	}
	cw.Close()
	sum.CaseFiles = append(sum.CaseFiles, cw.Files...)

	// string literals: real QuoteString / real parse, and the Coq escape / unescape model
	sw := &lib.CaseWriter{Dir: *dir, Prefix: "cases_C38_str", Header: "From CV Require Import C38.Cases.",
		ElemType: "str_case", CheckFn: "check_str", PerFile: 400}
	ns := 400
	if *tier == "thorough" {
		ns = 6000
	}
	boundary := []rune{0, 1, 9, 10, 13, 0x1f, 0x20, 0x21, '"', '\'', '\\', 0x7e, 0x7f, 0x80, 0xff, 0x100, 0x7ff, 0x800, 0xd7ff, 0xe000, 0xfffd, 0xffff, 0x10000, 0x10ffff, 'u', '{', '}', '(', 'n', '0'}
	for i := 0; i < ns; i++ {
		l := rng.Intn(8)
		s := make([]rune, l)
		for j := range s {
			switch rng.Intn(3) {
			case 0:
				s[j] = lib.Pick(rng, boundary)
			case 1:
				s[j] = rune(0x20 + rng.Intn(0x5f))
			default:
				r := rune(rng.Intn(0x110000))
				if r >= 0xd800 && r <= 0xdfff {
					r = 0xe000
				}
				s[j] = r
			}
		}
		sum.Evaluations++
		q := ast.QuoteString(string(s))
		ex, errs := parser.ParseExpression(nil, []byte(q), parser.Config{})
		se, ok := ex.(*ast.StringExpression)
		if len(errs) > 0 || !ok || se.Value != string(s) {
			sum.Fail("string-escape:roundtrip", fmt.Sprintf("string %q quoted as %s parses back as %v (errors %v)", string(s), q, ex, errs),
				map[string]any{"value": runesCoq(s), "quoted": q})
		}
		inner := []rune(q)
		inner = inner[1 : len(inner)-1]
		sw.Add(fmt.Sprintf("(%s, %s)", runesCoq(s), runesCoq(inner)), map[string]any{"kind": "string", "value": string(s), "quoted": q})
		sum.Count("model: string cases")
	}
	sw.Close()
	sum.CaseFiles = append(sum.CaseFiles, sw.Files...)
}
