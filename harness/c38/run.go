package main

import (
	"fmt"
	"os"
	"path/filepath"
	"sort"

	"cvh/lib"
)

func fixedPrograms() []string {
	return []string{
		"let a = -x.y\nlet b = (-x).y\nlet c = -(x + y)\nlet d = !a && !(b || c)\nlet e = (a as! T)?.f\nlet g = a ?? b ?? c\nlet h = (a ?? b) ?? c",
		"let i = a ? b : c ? d : e\nlet j = (a ? b : c) ? d : e\nlet k = -1\nlet l = - 1\nlet m = -1.5\nlet n = 1 - -1\nlet o = a ? (b ? c : d) : e",
		"let a = 1 + 2 * 3 - 4 / 5 % 6 << 7 >> 8 & 9 | 10 ^ 11 < 12 && 13 > 14 || a <= b == (c >= d) != e ?? f",
		"let a = (1 + 2) * 3\nlet b = 1 - (2 - 3)\nlet c = (1 - 2) - 3\nlet d = 2 * (3 / 4)\nlet e = (a < b) == (c > d)\nlet f = a < b == c",
		"let a = (<-x) as T\nlet b = <-x as T\nlet c = <-(x as T)",
		"fun f() { let a = (destroy x) + y\n let b = destroy x + y\n let c = (destroy x).z }",
		"let a = --x\nlet b = -(-x)\nlet c = - -1\nlet d = -(-1)\nlet e = !(!x)\nlet f = -(x!)\nlet g = (-x)!\nlet h = -x!",
		"let a = (x as T) as U\nlet b = x as T as U\nlet c = (x as? T)!\nlet d = x as? T?\nlet e = (a as! T).f()\nlet f = (a as! T)[0]\nlet g = a.b as! T",
		"let a = (&x as &T).f\nlet b = &x as &T\nlet c = &(x as T)\nlet d = (&x)!\nlet e = &x.y\nlet f = (&x).y\nlet g = &x[0]",
		"let a = (a ?? b)!\nlet b = a ?? b!\nlet c = (a + b).c\nlet d = (a + b)(c)\nlet e = (a + b)[c]\nlet f = (a ? b : c).d\nlet g = (fun (): Int { return 1 })()",
		"let a = a ? b : c ?? d\nlet b = (a ? b : c) ?? d\nlet c = a ?? (b ? c : d)\nlet d = a ?? b ? c : d",
		"let a = f<T>(x)\nlet b = a < b\nlet c = a < b > (c)\nlet d = (a < b) > c\nlet e = a >> b\nlet g = f<T<U>>()",
		"let s = \"a\\n\\t\\r\\\\\\\"\\'\\0\\u{41}\\u{1F600}é\"\nlet t = \"\"\nlet u = \"\\u{0}\\u{7F}\\u{80}\\u{10FFFF}\"",
		"let s = \"x\\(1 + 2)y\\(\"inner\")z\"\nlet t = \"\\(a)\\(b)\"\nlet u = \"\\(a)\"\nlet v = \"pre\\(a)\"\nlet w = \"\\(a)post\"",
		"let a = 0x1F\nlet b = 0b101\nlet c = 0o17\nlet d = 1_000\nlet e = 0.5\nlet f = 1.50\nlet g = 001\nlet h = 0x0\nlet i = -0x1F\nlet j = -0\nlet k = -0.0\nlet l = 00.100",
		"let a = [1, 2, 3]\nlet b = {1: 2, 3: 4}\nlet c = []\nlet d = {}\nlet e = [[1], [2, [3]]]\nlet f = {\"a\": {1: [2]}}",
		"let a = /storage/foo\nlet b = /public/bar\nlet c = x.y.z\nlet d = x?.y?.z\nlet e = x[0][1]\nlet f = x()()\nlet g = x!!\nlet h = x(a: 1, 2, b: 3)",
		"let a = create R()\nlet b = create R(a: 1)\nlet c <- create A.B(1)\nfun f() { destroy r\n destroy r.x\n let z = attach A() to <-r\n remove A from r }",
		"let a: Int? = nil\nlet b: [Int] = []\nlet c: [Int; 3] = [1,2,3]\nlet d: {String: Int} = {}\nlet e: &Int = &x\nlet f: auth(E) &Int = &x\nlet g: auth(E, F) &Int = &x\nlet h: auth(E | F) &Int = &x\nlet i: auth(mapping M) &Int = &x",
		"let a: {I} = x\nlet b: {I, J} = x\nlet c: @R? <- nil\nlet d: @[R] <- []\nlet e: Capability<&T> = x\nlet f: fun(Int, String): Bool = g\nlet g: view fun(): Void = h\nlet h: (&Int)? = nil\nlet i: &Int? = nil\nlet j: Int?? = nil\nlet k: [Int?]? = nil\nlet l: fun(): fun(): Int = x\nlet m: (fun(): Int)? = nil\nlet n: A.B.C = x",
		"access(all) fun f() {}\naccess(self) fun g() {}\naccess(contract) fun h() {}\naccess(account) fun i() {}\naccess(E) fun j() {}\naccess(E, F) fun k() {}\naccess(E | F) fun l() {}\nview fun m() {}\naccess(all) view fun n(): Int { return 1 }",
		"access(all) contract C {\n access(all) let x: Int\n access(self) var y: @[R]\n init(x: Int) { self.x = x\n self.y <- [] }\n access(all) resource R {\n  access(all) fun f(): @R { return <-create R() }\n  access(all) event ResourceDestroyed(id: UInt64 = self.uuid)\n }\n access(all) struct S: I, J {}\n access(all) enum E: UInt8 { access(all) case a\n access(all) case b }\n access(all) event Ev(x: Int, y: String)\n}",
		"access(all) struct interface I: J, K {\n access(all) fun f(): Int\n access(all) fun g(x: Int): Int { pre { x > 0: \"msg\" }\n post { result > 0 } }\n access(all) let x: Int\n access(mapping M) let y: auth(mapping M) &Int\n}",
		"access(all) resource interface RI { access(all) event ResourceDestroyed(a: Int = 1) }",
		"transaction(a: Int, b: String) {\n let x: Int\n var y: @R\n prepare(acct: auth(Storage) &Account, other: &Account) { self.x = a }\n pre { self.x > 0: \"m\" }\n execute { log(self.x) }\n post { true }\n}",
		"transaction { execute {} }\ntransaction { prepare() {} }\ntransaction {}",
		"access(all) entitlement E\naccess(all) entitlement mapping M {\n E -> F\n G -> H\n include Identity\n}\nentitlement mapping N {}",
		"access(all) attachment A for R: I {\n access(all) fun f() { base.g()\n self.h() }\n init() {}\n}",
		"import Foo from 0x1\nimport \"Bar\"\nimport Baz as B, Q from 0x02\nimport Crypto\nimport A, B from \"x\"\nimport 0x1",
		"#allowAccountLinking\n#foo(\"bar\")\n#removedType(T)\n#a(b: \"c\")",
		"fun f(x: Int?) {\n if let y = x { return } else if var z = x { } else { }\n switch x { case 1: break\n case 2: return\n default: return }\n for i, e in [1,2] { continue }\n for e in xs {}\n while true { break }\n guard let q = x else { return }\n guard x != nil else { return }\n}",
		"fun f() {\n a <-> b\n a <- b\n a <-! b\n a = b\n a.b[c] = d\n emit Ev(x: 1)\n let x <- a <- b\n var y = 1\n return\n}",
		"let f = fun (a: Int): Int { return a + 1 }\nlet g = view fun (): Void {}\nlet h = fun (_ a: Int, b c: Int) {}",
		"fun f(_ a: Int, b c: Int, d: Int): Int { pre { a > 0\n emit E() }\n post { result == before(a): \"x\" }\n return a }",
		"fun f() { if x { } else { if y { } } }\nfun g() { if x { } else if y { } }",
		"fun f() { let x = a ? b : c\n let y = a == b ? c + 1 : d * 2\n let z = (a ? b : c) + 1 }",
		"fun f() { fun g() {}\n view fun h() {}\n let k = fun () {} }",
		"fun f(): Int { return -1 }\nfun g(): Int { return - x }\nfun h() { return }\nfun i() { x.y()\n -x\n !x }",
		"access(all) resource R { access(E) fun f() {}\n access(E | F) var x: Int\n access(self) let y: Int\n init() { self.x = 1\n self.y = 2 } }",
		// --- constructs whose round trip is known to fail on the pinned tree (one per known finding) ---
		"let a = (<-x) as T",
		"let a = (destroy x) + y",
		"let a = (attach A() to x as! T)?.c",
		"fun f() {\nif x { } else { }\n}",
		"transaction() {\n}",
		"entitlement mapping N {}",
		"let a = (5).x",
		"let a = (-1.5).x\nlet b = (-5)!",
		"fun f() {\n    a();\n    -b()\n}",
		"fun f() {\n    let x = a;\n    /public/p.y = 1\n}",
		"fun f(): Int {\n    pre {\n        a: \"m\"\n        (*b).c\n    }\n    return 1\n}",
		"let x = a < fun () {\n}",
		"let x = a < (fun (): Int {\n} < b)",
		"let x = (a < b) > (c ? d : e)",
		"let x = a ? a ? a ? a ? a ? a ? a ? a ? a ? a ? a : b : b : b : b : b : b : b : b : b : b",
		"struct S { struct T { struct U {} } }\ncontract C { resource interface RI {}\n struct interface SI {}\n contract interface CI {} }",
	}
}

func run(sum *lib.Summary) {
	rng := lib.NewRng(*seed)
	nGen := 600
	maxMin := 30
	if *tier == "thorough" {
		nGen = 20000
		maxMin = 150
	}
	sum.Rule = "programs: fixed corpus of precedence / associativity / literal / template / declaration corner cases + grammar-generated programs " +
		"(every declaration, statement, expression and type form); each accepted program p: AST JSON with positions and doc strings removed of " +
		"parse(print(parse p)) must equal that of parse p, print(parse p) must parse, and printing must be a fixed point. " +
		"non-trivial = accepted program whose printed text differs from the source; distinct = distinct source text"
	distinct := map[string]bool{}
	nFail := 0
	handle := func(src, label string) {
		sum.Evaluations++
		r := roundTrip(src)
		if !r.accepted {
			sum.Count(label + ": rejected by parser")
			return
		}
		sum.Count(label + ": accepted")
		if r.printed != src && !distinct[src] {
			distinct[src] = true
			sum.DistinctNontrivial++
		}
		if r.key != "" {
			nFail++
			if nFail > maxMin {
				// enough failing programs were minimised and reported; count the rest
				sum.Count("further failing programs (not minimised)")
				return
			}
			msrc, mr := minimize(src)
			sh := shape(msrc)
			key := "roundtrip:" + mr.key + ":" + sh
			if kp := knownPattern(msrc, mr); kp != "" {
				key = "roundtrip:" + kp
			}
			sum.Count("failure " + key)
			sum.Fail(key, fmt.Sprintf("%s; minimal construct %q prints as %q", mr.what, clip(msrc, 300), clip(mr.printed, 300)),
				map[string]any{"source": src, "printed": r.printed, "minimal_source": msrc, "minimal_printed": mr.printed, "shape": sh})
		}
		if len(src) < 100 {
			sum.Sample(map[string]string{"source": src, "printed": r.printed})
		}
	}
	for _, p := range fixedPrograms() {
		handle(p, "corpus")
	}
	if *corpus != "" {
		files, _ := filepath.Glob(filepath.Join(*corpus, "*"))
		sort.Strings(files)
		for _, f := range files {
			if b, err := os.ReadFile(f); err == nil {
				handle(string(b), "corpus-file")
			}
		}
	}
	g := lib.NewProgGen(rng)
	g.Clean = true
	for i := 0; i < nGen; i++ {
		g.Comments = i%4 == 0
		g.NonASCII = i%3 == 0
		handle(g.Program(3, 3), "generated")
	}
	for k, v := range g.Forms {
		sum.Distribution["form "+k] = v
	}
	runModel(sum, rng)
}

func clip(s string, n int) string {
	if len(s) > n {
		return s[:n] + "..."
	}
	return s
}
