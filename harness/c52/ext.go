package main

// Programs beyond the modelled fragment, for the engine-vs-engine comparison of C34: templates
// with randomly chosen constants, operators, types and probe placement.

import (
	"fmt"
	"strings"

	"cvh/lib"
)

const extPrelude = `
access(all) fun pI(_ k: Int, _ v: Int): Int { log(k); return v }
access(all) fun pB(_ k: Int, _ v: Bool): Bool { log(k); return v }
access(all) fun pS(_ k: Int, _ v: String): String { log(k); return v }
`

type tmpl struct {
	name string
	gen  func(r *lib.Rng) string
}

func ri(r *lib.Rng, n int) int { return r.Intn(n) }

var intTypes = []struct {
	name     string
	lo, hi   string
	unsigned bool
}{
	{"Int8", "-128", "127", false}, {"Int16", "-32768", "32767", false}, {"Int64", "-9223372036854775808", "9223372036854775807", false},
	{"UInt8", "0", "255", true}, {"UInt16", "0", "65535", true}, {"UInt64", "0", "18446744073709551615", true},
	{"Word8", "0", "255", true}, {"Word16", "0", "65535", true}, {"Word64", "0", "18446744073709551615", true},
	{"Int", "-170141183460469231731687303715884105728", "170141183460469231731687303715884105727", false},
	{"UInt", "0", "340282366920938463463374607431768211455", true},
	{"Int128", "-170141183460469231731687303715884105728", "170141183460469231731687303715884105727", false},
	{"UInt128", "0", "340282366920938463463374607431768211455", true},
	{"Int256", "-57896044618658097711785492504343953926634992332820282019728792003956564819968", "57896044618658097711785492504343953926634992332820282019728792003956564819967", false},
	{"UInt256", "0", "115792089237316195423570985008687907853269984665640564039457584007913129639935", true},
}

func intOperand(r *lib.Rng, ti int) string {
	t := intTypes[ti]
	small := []string{"0", "1", "2", "3", "7", "100"}
	switch ri(r, 6) {
	case 0:
		return t.lo
	case 1:
		return t.hi
	case 2:
		if !t.unsigned {
			return "-1"
		}
		return "1"
	default:
		return lib.Pick(r, small)
	}
}

var extScripts = []tmpl{
	{"int-arith", func(r *lib.Rng) string {
		ti := ri(r, len(intTypes))
		t := intTypes[ti].name
		op := lib.Pick(r, []string{"+", "-", "*", "/", "%", "&", "|", "^", "<<", ">>"})
		a, b := intOperand(r, ti), intOperand(r, ti)
		if (op == "<<" || op == ">>") && (strings.HasPrefix(b, "-") || len(b) > 3) {
			b = "3"
		}
		return fmt.Sprintf(`access(all) fun main(): %s {
    let a: %s = %s
    let b: %s = %s
    log(a)
    log(b)
    let c = a %s b
    log(c)
    return c
}`, t, t, a, t, b, op)
	}},
	{"int-saturating-convert", func(r *lib.Rng) string {
		ti := ri(r, 6)
		t := intTypes[ti].name
		tj := ri(r, len(intTypes))
		u := intTypes[tj].name
		m := lib.Pick(r, []string{"saturatingAdd", "saturatingSubtract", "saturatingMultiply"})
		if intTypes[ti].unsigned && m == "saturatingSubtract" {
			m = "saturatingAdd"
		}
		return fmt.Sprintf(`access(all) fun main(): %s {
    let a: %s = %s
    let b: %s = %s
    log(a.%s(b))
    log(a.toString())
    log(%s.fromString(a.toString()))
    let c = %s(a)
    log(c)
    return c
}`, u, t, intOperand(r, ti), t, intOperand(r, ti), m, t, u)
	}},
	{"fixed-point", func(r *lib.Rng) string {
		t := lib.Pick(r, []string{"Fix64", "UFix64"})
		a := lib.Pick(r, []string{"0.0", "1.5", "92233720368.54775807", "0.00000001", "3.14159265", "100.0"})
		b := lib.Pick(r, []string{"0.0", "2.0", "92233720368.54775807", "0.00000001", "0.5", "1000000.0"})
		op := lib.Pick(r, []string{"+", "-", "*", "/", "%"})
		return fmt.Sprintf(`access(all) fun main(): %s {
    let a: %s = %s
    let b: %s = %s
    log(a < b)
    let c = a %s b
    log(c)
    return c
}`, t, t, a, t, b, op)
	}},
	{"strings", func(r *lib.Rng) string {
		s1 := lib.Pick(r, []string{"hello", "", "a", "Cadence VM", "\\u{1F600}x", "caf\\u{E9}"})
		s2 := lib.Pick(r, []string{"world", "", "b", " "})
		from, to := ri(r, 4), ri(r, 7)
		return fmt.Sprintf(`access(all) fun main(): String {
    let a = "%s"
    let b = "%s"
    let c = pS(1, a).concat(pS(2, b))
    log(c.length)
    log(c.utf8.length)
    log(c.toLower())
    log(c == a)
    log(c.contains(b))
    log(c.split(separator: " ").length)
    for ch in c { log(ch) }
    let d = c.slice(from: pI(3, %d), upTo: pI(4, %d))
    log(d)
    return d.concat(%d.toString())
}`, s1, s2, from, to, ri(r, 100))
	}},
	{"array-builtins", func(r *lib.Rng) string {
		n := 1 + ri(r, 4)
		idx := ri(r, 6) - 1
		return fmt.Sprintf(`access(all) fun main(): [Int] {
    var a: [Int] = [%d, %d, %d]
    a.append(pI(1, %d))
    a.appendAll([pI(2, 7), pI(3, 8)])
    a.insert(at: pI(4, %d), pI(5, 99))
    log(a.length)
    log(a.contains(%d))
    log(a.firstIndex(of: 7))
    let removed = a.remove(at: pI(6, %d))
    log(removed)
    log(a.removeFirst())
    log(a.removeLast())
    let b = a.concat([1, 2]).slice(from: 1, upTo: 3)
    log(b)
    let m = a.map(fun (x: Int): Int { log(x); return x * %d })
    let f = m.filter(view fun (x: Int): Bool { return x %% 2 == 0 })
    log(f)
    log(a.reverse())
    var total = 0
    for i, x in m { total = total + i * x }
    log(total)
    return m
}`, ri(r, 10), ri(r, 10), ri(r, 10), ri(r, 10), n, ri(r, 10), idx, 1+ri(r, 3))
	}},
	{"dictionary-builtins", func(r *lib.Rng) string {
		k1, k2 := lib.Pick(r, []string{"a", "b", "c"}), lib.Pick(r, []string{"a", "b", "d"})
		return fmt.Sprintf(`access(all) fun main(): Int {
    var d: {String: Int} = {"a": 1, "b": 2}
    log(d.insert(key: pS(1, "%s"), pI(2, 10)))
    log(d.remove(key: pS(3, "%s")))
    d[pS(4, "z")] = pI(5, 26)
    d[pS(6, "%s")] = nil
    log(d.length)
    log(d.containsKey("a"))
    var sum = 0
    for k in d.keys { sum = sum + d[k]! }
    log(sum)
    var nested: {Int: [Int]} = {1: [1], 2: []}
    nested[pI(7, %d)]!.append(pI(8, 5))
    log(nested[1]!.length + nested[2]!.length)
    return d[pS(9, "%s")] ?? pI(10, -1)
}`, k1, k2, k1, 1+ri(r, 3), k2)
	}},
	{"closures", func(r *lib.Rng) string {
		n := 1 + ri(r, 4)
		return fmt.Sprintf(`access(all) fun makeCounter(_ start: Int): fun(): Int {
    var c = start
    return fun (): Int { c = c + 1; log(c); return c }
}
access(all) fun apply(_ f: fun(Int): Int, _ x: Int): Int { return f(f(x)) }
access(all) fun main(): Int {
    let c1 = makeCounter(%d)
    let c2 = makeCounter(100)
    c1()
    c2()
    c1()
    var fs: [fun(): Int] = []
    var i = 0
    while i < %d {
        let j = i * 10
        fs.append(fun (): Int { return j + i })
        i = i + 1
    }
    var acc = 0
    for f in fs { acc = acc + f() }
    log(acc)
    for x in [1, 2, 3] {
        fs.append(fun (): Int { return x })
    }
    log(fs[fs.length - 1]())
    let add = fun (a: Int): fun(Int): Int { return fun (b: Int): Int { return a + b } }
    return apply(add(%d), c1()) + acc
}`, ri(r, 10), n, ri(r, 10))
	}},
	{"struct-methods", func(r *lib.Rng) string {
		return fmt.Sprintf(`access(all) struct Point {
    access(all) var x: Int
    access(all) var ys: [Int]
    init(x: Int) { self.x = x; self.ys = [] }
    access(all) fun move(_ dx: Int): Int { self.x = self.x + pI(1, dx); self.ys.append(self.x); return self.x }
    access(all) fun norm(): Int { return self.x * self.x }
}
access(all) struct Box { access(all) var p: Point; access(all) var q: Point?
    init(p: Point) { self.p = p; self.q = nil }
    access(all) fun setQ(_ p: Point?) { self.q = p }
    access(all) fun shift(): Int { return self.p.move(%d) }
}
access(all) fun main(): Int {
    var a = Point(x: %d)
    var b = a
    log(a.move(pI(2, %d)))
    log(b.x)
    var box = Box(p: a)
    log(box.shift())
    log(a.x)
    log(box.p.ys)
    box.setQ(b)
    log(box.q?.norm())
    log(box.q?.move(pI(3, 1)))
    log(box.q?.x)
    let ps = [a, b, box.p]
    let xs = ps.map(fun (p: Point): Int {
        let none: Int? = nil
        let five: Int = 5
        let q = p
        return q.x + p.ys.length + (none ?? five)
    })
    log(xs)
    ps[pI(4, %d)].move(5)
    log(ps[0].x + ps[1].x + ps[2].x)
    return a.norm() + (box.q?.x ?? pI(5, 0))
}`, ri(r, 5), ri(r, 10), ri(r, 10), ri(r, 3))
	}},
	{"resources", func(r *lib.Rng) string {
		i, j := ri(r, 3), ri(r, 3)
		return fmt.Sprintf(`access(all) resource R {
    access(all) var n: Int
    init(_ n: Int) { self.n = n; log(n) }
    access(all) fun inc(): Int { self.n = self.n + 1; return self.n }
}
access(all) resource Holder {
    access(all) var rs: @[R]
    access(all) var opt: @R?
    init() { self.rs <- []; self.opt <- nil }
    access(all) fun put(_ r: @R) { self.rs.append(<- r) }
    access(all) fun setOpt(_ r: @R): @R? { let old <- self.opt <- r; return <- old }
}
access(all) fun make(_ k: Int, _ n: Int): @R { log(k); return <- create R(n) }
access(all) fun main(): Int {
    let h <- create Holder()
    var loc: @[R] <- [<- make(1, %d), <- make(2, %d), <- make(3, %d)]
    loc[pI(4, %d)] <-> loc[pI(5, %d)]
    while loc.length > 0 { h.put(<- loc.removeFirst()) }
    destroy loc
    let first <- h.rs.remove(at: 0)
    log(first.inc())
    let old <- h.setOpt(<- first)
    log(old == nil)
    destroy old
    let old2 <- h.setOpt(<- make(6, 60))
    log(old2?.n)
    destroy old2
    var total = h.opt?.n ?? 0
    for r in (&h.rs as &[R]) { total = total + r.n }
    var d: @{String: R} <- {"x": <- make(7, 70)}
    let prev <- d["x"] <- make(8, 80)
    log(prev?.n)
    destroy prev
    let taken <- d.remove(key: "x")!
    total = total + taken.inc()
    destroy taken
    destroy d
    destroy h
    return total
}`, ri(r, 10), ri(r, 10), ri(r, 10), i, j)
	}},
	{"references", func(r *lib.Rng) string {
		return fmt.Sprintf(`access(all) struct S { access(all) var v: Int; access(all) var arr: [Int]
    init(_ v: Int) { self.v = v; self.arr = [v] }
    access(all) fun bump() { self.v = self.v + 1 }
}
access(all) fun main(): Int {
    var a = [pI(1, %d), pI(2, %d), 3]
    let ra = &a as auth(Mutate) &[Int]
    ra.append(pI(3, 4))
    ra[pI(4, %d)] = pI(5, 50)
    log(a)
    log(ra.length)
    var s = S(%d)
    let rs = &s as &S
    rs.bump()
    log(s.v)
    log(rs.arr[0])
    let copy = *ra
    rs.bump()
    ra.append(1)
    log(copy.length)
    log(s.v)
    let o: S? = s
    let ro = &o as &S?
    log(ro?.v)
    var d: {String: S} = {"k": s}
    let rd = &d["k"] as &S?
    rd!.bump()
    log(d["k"]!.v)
    let anyRef: &AnyStruct = &a as &[Int]
    log((anyRef as? &[Int]) != nil)
    log((anyRef as? &S) != nil)
    return ra[0] + rs.v
}`, ri(r, 10), ri(r, 10), ri(r, 6), ri(r, 10))
	}},
	{"casts", func(r *lib.Rng) string {
		v := lib.Pick(r, []string{"5", "\"str\"", "true", "[1, 2]", "nil", "UInt8(7)", "{\"a\": 1}"})
		return fmt.Sprintf(`access(all) struct interface Shape { access(all) fun area(): Int
    access(all) fun describe(): String { return "shape ".concat(self.area().toString()) } }
access(all) struct Sq: Shape { access(all) let s: Int; init(_ s: Int) { self.s = s }
    access(all) fun area(): Int { return self.s * self.s } }
access(all) struct Rect: Shape { access(all) let w: Int; access(all) let h: Int; init(_ w: Int, _ h: Int) { self.w = w; self.h = h }
    access(all) fun area(): Int { return self.w * self.h }
    access(all) fun describe(): String { return "rect" } }
access(all) fun main(): Int {
    let x: AnyStruct = %s
    log(x as? Int)
    log(x as? String)
    log(x as? [Int])
    log(x as? {String: Int})
    log(x.getType())
    log(x.isInstance(Type<Int>()))
    let shapes: [{Shape}] = [Sq(pI(1, %d)), Rect(pI(2, 2), pI(3, %d))]
    var total = 0
    for sh in shapes {
        log(sh.describe())
        if let sq = sh as? Sq { total = total + sq.s }
        total = total + sh.area()
    }
    let y = x as! Int
    return total + y
}`, v, ri(r, 6), ri(r, 6))
	}},
	{"switch-iflet", func(r *lib.Rng) string {
		return fmt.Sprintf(`access(all) enum Color: UInt8 { access(all) case red; access(all) case green; access(all) case blue }
access(all) fun classify(_ n: Int): String {
    switch pI(100, n) {
    case pI(101, 1): return "one"
    case pI(102, 2): log("two"); return "two"
    case 3: break
    default: return "many"
    }
    return "three"
}
access(all) fun main(): String {
    var out = ""
    var i = 0
    while i < 5 {
        i = i + 1
        switch i {
        case 2: continue
        case 4: break
        default: out = out.concat(classify(i))
        }
        if i == %d { break }
    }
    let c = Color(rawValue: %d)
    if let col = c { log(col.rawValue); out = out.concat(col == Color.green ? "g" : "x") } else { out = out.concat("none") }
    let arr: [Int?] = [1, nil, 3]
    for e in arr {
        guard let v = e else { out = out.concat("_"); continue }
        out = out.concat(v.toString())
    }
    var opt: Int? = pI(1, %d) > 2 ? 7 : nil
    if var w = opt { w = w + 1; log(w) }
    return out
}`, 1+ri(r, 5), ri(r, 5), ri(r, 5))
	}},
	{"conditions", func(r *lib.Rng) string {
		return fmt.Sprintf(`access(all) fun withdraw(_ balance: Int, _ amount: Int): Int {
    pre { amount > 0: "amount must be positive"
          amount <= balance: "insufficient" }
    post { result >= 0: "negative"
           result == before(balance) - amount: "wrong" }
    log(4)
    return balance - amount
}
access(all) struct interface Acc { access(all) var bal: Int
    access(all) fun take(_ n: Int): Int { pre { n < 100: "too much" } post { self.bal >= 0: "overdrawn" } } }
access(all) struct A: Acc { access(all) var bal: Int; init() { self.bal = %d }
    access(all) fun take(_ n: Int): Int { self.bal = self.bal - n; return self.bal } }
access(all) fun main(): Int {
    var a = A()
    log(a.take(pI(6, %d)))
    assert(pB(7, a.bal < 1000), message: "big")
    return withdraw(pI(8, %d), pI(9, %d))
}`, ri(r, 20), ri(r, 30), ri(r, 10), ri(r, 12)-1)
	}},
	{"loops-recursion", func(r *lib.Rng) string {
		return fmt.Sprintf(`access(all) fun fib(_ n: Int): Int { if n < 2 { return n }; return fib(n - 1) + fib(n - 2) }
access(all) fun depth(_ n: Int): Int { log(n); return n == 0 ? 0 : 1 + depth(n - 1) }
access(all) fun main(): Int {
    var total = 0
    var i = 0
    while pB(1, i < %d) {
        i = i + 1
        var j = 0
        while true {
            j = j + 1
            if j == 2 { continue }
            if j > pI(2, 3) { break }
            total = total + i * j
        }
        for k in InclusiveRange(0, i) { if k == 1 { continue }; total = total + k }
    }
    let nested: [[Int]] = [[1, 2], [3], []]
    for idx, x in nested {
        for y in x { if y == 2 { break }; total = total + y * idx }
    }
    log(total)
    return fib(%d) + depth(%d) + total
}`, 1+ri(r, 3), ri(r, 8), ri(r, 4))
	}},
	{"optionals", func(r *lib.Rng) string {
		return fmt.Sprintf(`access(all) struct N { access(all) var next: N?; access(all) var v: Int
    init(_ v: Int, _ next: N?) { self.v = v; self.next = next }
    access(all) fun get(): Int? { return self.v > %d ? self.v : nil } }
access(all) fun main(): Int {
    let c: N? = N(1, N(pI(1, 5), N(9, nil)))
    log(c?.next?.next?.v)
    log(c?.next?.next?.next?.v)
    log(c?.next?.get())
    let dd: Int?? = pB(2, %v) ? (5 as Int?) : nil
    log(dd == nil)
    let x: Int = c!.next!.get() ?? pI(3, -1)
    let y = dd ?? pI(4, 7)
    log(y)
    let z: Int? = nil
    log(z ?? c?.v ?? pI(5, 0))
    var arr: [Int?] = [nil, 2]
    arr[0] = arr[1]
    arr[1] <-> arr[0]
    log(arr)
    return x + (y ?? 0) + c!.next!.v + (arr[pI(6, %d)] ?? 40)
}`, ri(r, 8), r.Bool(), ri(r, 3))
	}},
	{"nested-containers", func(r *lib.Rng) string {
		return fmt.Sprintf(`access(all) struct Inner { access(all) var xs: [Int]; init() { self.xs = [1, 2] }
    access(all) fun push(_ v: Int) { self.xs.append(v) } }
access(all) struct Outer { access(all) var inner: Inner; access(all) var m: {String: [Int]}
    init() { self.inner = Inner(); self.m = {"a": [1]} }
    access(all) fun mutate(_ k: String, _ v: Int) { self.m[k]!.append(v); self.inner.push(v) } }
access(all) fun main(): Int {
    var o = Outer()
    var copy = o
    o.mutate(pS(1, "a"), pI(2, %d))
    log(o.inner.xs)
    log(copy.inner.xs)
    var grid: [[Int]] = [[1, 2], [3, 4]]
    let row = grid[pI(3, %d)]
    grid[pI(4, 0)][pI(5, 1)] = pI(6, 9)
    grid[1] = grid[0]
    grid[1][0] = 100
    log(grid)
    log(row)
    var dd: {String: {String: Int}} = {"x": {"y": 1}}
    dd[pS(7, "x")]!.insert(key: "z", 2)
    let inner = dd["x"]!
    dd["x"] = nil
    log(inner.length)
    log(dd.length)
    o.mutate("zz", 1)
    return grid[1][1] + o.m["a"]!.length
}`, ri(r, 10), ri(r, 3))
	}},
	{"iteration-mutation", func(r *lib.Rng) string {
		body := lib.Pick(r, []string{"a.append(x)", "a.remove(at: 0)", "a[0] = x", "b.append(x)"})
		return fmt.Sprintf(`access(all) fun main(): Int {
    var a = [1, 2, 3]
    var b: [Int] = []
    for x in a { log(x); %s }
    log(a)
    return a.length + b.length
}`, body)
	}},
	{"function-values", func(r *lib.Rng) string {
		return fmt.Sprintf(`access(all) struct Calc { access(all) var base: Int; init(_ b: Int) { self.base = b }
    access(all) fun add(_ n: Int): Int { log(n); return self.base + n } }
access(all) fun twice(_ f: fun(Int): Int, _ x: Int): Int { return f(pI(1, f(x))) }
access(all) fun optArg(_ a: Int?): Int? { return a }
access(all) fun main(): Int {
    var c = Calc(%d)
    let m = c.add
    c = Calc(100)
    log(m(pI(2, 1)))
    log(c.add(1))
    let fs: {String: fun(Int): Int} = {"m": m, "t": fun (n: Int): Int { return n * 2 }}
    let g: fun(Int): Int? = optArg
    log(g(3))
    return twice(fs[pS(3, "%s")]!, %d)
}`, ri(r, 10), lib.Pick(r, []string{"m", "t", "q"}), ri(r, 10))
	}},
}

func extScript(r *lib.Rng) (string, string) {
	t := extScripts[r.Intn(len(extScripts))]
	return t.name, extPrelude + t.gen(r)
}

// ---------------------------------------------------------------- transactions

const extContract = `access(all) contract Vault {
    access(all) event Deposited(amount: Int, total: Int)
    access(all) event Made(n: Int)
    access(all) var total: Int
    access(all) resource R {
        access(all) var n: Int
        access(all) var items: [Int]
        init(n: Int) { self.n = n; self.items = [] }
        access(all) fun add(_ k: Int): Int {
            pre { k != 13: "unlucky" }
            self.n = self.n + k
            self.items.append(k)
            emit Deposited(amount: k, total: self.n)
            return self.n
        }
    }
    access(all) struct S {
        access(all) var a: Int
        access(all) var m: {String: Int}
        init(a: Int) { self.a = a; self.m = {} }
        access(all) fun put(_ k: String, _ v: Int) { self.m[k] = v; self.a = self.a + v }
    }
    access(all) fun make(_ n: Int): @R {
        self.total = self.total + n
        emit Made(n: n)
        return <- create R(n: n)
    }
    init() { self.total = 0 }
}`

var extTxs = []tmpl{
	{"save-resource", func(r *lib.Rng) string {
		return fmt.Sprintf(`import Vault from 0x01
transaction {
    prepare(acct: auth(Storage) &Account) {
        log(Vault.total)
        acct.storage.save(<- Vault.make(%d), to: /storage/r%d)
        log(Vault.total)
    }
}`, ri(r, 20), ri(r, 3))
	}},
	{"load-destroy", func(r *lib.Rng) string {
		return fmt.Sprintf(`import Vault from 0x01
transaction {
    prepare(acct: auth(Storage) &Account) {
        if let r <- acct.storage.load<@Vault.R>(from: /storage/r%d) {
            log(r.n)
            log(r.items)
            destroy r
        } else {
            log("nothing")
        }
    }
}`, ri(r, 3))
	}},
	{"borrow-mutate", func(r *lib.Rng) string {
		return fmt.Sprintf(`import Vault from 0x01
transaction {
    prepare(acct: auth(Storage) &Account) {
        let r = acct.storage.borrow<&Vault.R>(from: /storage/r%d) ?? panic("no resource")
        log(r.add(%d))
        log(r.add(%d))
        log(r.items.length)
    }
}`, ri(r, 3), ri(r, 16), ri(r, 16))
	}},
	{"save-values", func(r *lib.Rng) string {
		k := ri(r, 3)
		return fmt.Sprintf(`import Vault from 0x01
transaction {
    prepare(acct: auth(Storage) &Account) {
        if acct.storage.type(at: /storage/v%d) != nil {
            let old = acct.storage.load<[Int]>(from: /storage/v%d)
            log(old)
        }
        acct.storage.save([%d, %d, %d], to: /storage/v%d)
        var s = Vault.S(a: %d)
        s.put("k%d", %d)
        let prev = acct.storage.load<Vault.S>(from: /storage/s%d)
        log(prev?.a)
        acct.storage.save(s, to: /storage/s%d)
        log(acct.storage.copy<Vault.S>(from: /storage/s%d)!.m)
    }
}`, k, k, ri(r, 9), ri(r, 9), ri(r, 9), k, ri(r, 9), ri(r, 3), ri(r, 9), k, k, k)
	}},
	{"modify-stored-array", func(r *lib.Rng) string {
		k := ri(r, 3)
		return fmt.Sprintf(`transaction {
    prepare(acct: auth(Storage) &Account) {
        if let a = acct.storage.borrow<auth(Mutate) &[Int]>(from: /storage/v%d) {
            a.append(%d)
            a[0] = a[0] + %d
            log(a.length)
            if a.length > 5 { let x = a.remove(at: %d); log(x) }
        } else {
            acct.storage.save<[Int]>([], to: /storage/v%d)
        }
    }
    execute { log("done") }
}`, k, ri(r, 50), ri(r, 5), ri(r, 7), k)
	}},
	{"capabilities", func(r *lib.Rng) string {
		k := ri(r, 3)
		return fmt.Sprintf(`import Vault from 0x01
transaction {
    prepare(acct: auth(Storage, Capabilities) &Account) {
        if acct.capabilities.get<&Vault.R>(/public/r%d).check() {
            let r = acct.capabilities.borrow<&Vault.R>(/public/r%d)!
            log(r.n)
            let c = acct.capabilities.unpublish(/public/r%d)
            log(c != nil)
        } else {
            let cap = acct.capabilities.storage.issue<&Vault.R>(/storage/r%d)
            log(cap.check())
            acct.capabilities.publish(cap, at: /public/r%d)
            log(getAccount(0x01).capabilities.borrow<&Vault.R>(/public/r%d)?.n)
        }
    }
}`, k, k, k, k, k, k)
	}},
	{"fail-after-write", func(r *lib.Rng) string {
		return fmt.Sprintf(`import Vault from 0x01
transaction {
    prepare(acct: auth(Storage) &Account) {
        acct.storage.save(%d, to: /storage/tmp%d)
        let r <- Vault.make(%d)
        log(r.add(%d))
        destroy r
    }
    execute {
        let a: [Int] = []
        log(a[%d])
    }
}`, ri(r, 9), ri(r, 50), ri(r, 9), 10+ri(r, 5), ri(r, 2))
	}},
	{"resource-collection", func(r *lib.Rng) string {
		k := ri(r, 2)
		return fmt.Sprintf(`import Vault from 0x01
transaction {
    prepare(acct: auth(Storage) &Account) {
        if acct.storage.type(at: /storage/col%d) == nil {
            let c: @{String: Vault.R} <- {}
            acct.storage.save(<- c, to: /storage/col%d)
        }
        let col = acct.storage.borrow<auth(Mutate) &{String: Vault.R}>(from: /storage/col%d)!
        let old <- col.insert(key: "k%d", <- Vault.make(%d))
        log(old?.n)
        destroy old
        if col.length > 2 {
            let gone <- col.remove(key: col.keys[0])
            log(gone?.n)
            destroy gone
        }
        log(col.length)
        col["k%d"]?.add(%d)
    }
}`, k, k, k, ri(r, 4), ri(r, 9), ri(r, 4), ri(r, 15))
	}},
}

func extTx(r *lib.Rng) (string, string) {
	t := extTxs[r.Intn(len(extTxs))]
	return t.name, t.gen(r)
}
