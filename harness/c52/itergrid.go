package main

// Exhaustive grid of "mutation during iteration" programs for C34: every combination of outer
// iteration form x inner iteration form x mutation x position of the mutation, for arrays and for
// dictionaries. Both engines must agree on whether (and where) ContainerMutatedDuringIterationError is
// raised, on the result and on the logs.

import (
	"fmt"
	"strings"
)

type gridCase struct {
	Name string
	Src  string
}

func indent(s, ind string) string {
	lines := strings.Split(strings.TrimRight(s, "\n"), "\n")
	for i, l := range lines {
		if l != "" {
			lines[i] = ind + l
		}
	}
	return strings.Join(lines, "\n") + "\n"
}

func iterGrid() []gridCase {
	var out []gridCase
	// ------------------------------------------------------------ arrays
	arrMut := []struct{ name, code string }{
		{"append", "a.append(9)"},
		{"removeFirst", "let gone = a.removeFirst()"},
		{"insert", "a.insert(at: 0, 9)"},
		{"set", "a[0] = 9"},
		{"refAppend", "ra.append(9)"},
		{"other", "b.append(9)"},
		{"viaCall", "grow(ra)"},
	}
	// inner iteration forms; %MUT% = mutation placed inside the inner iteration (or nothing)
	arrInner := []struct{ name, code string }{
		{"none", ""},
		{"forSame", "for y in a {\n    log(y)\n%MUT%    if y > 1 { break }\n}\n"},
		{"forSameFull", "for y in a {\n    log(y)\n%MUT%}\n"},
		{"forRef", "for y in ra {\n    log(y)\n%MUT%}\n"},
		{"forOther", "for y in b {\n    log(y)\n%MUT%}\n"},
		{"callee", "log(scan(ra))\n"},
		{"calleeReturn", "log(first(ra))\n"},
		{"mapSame", "let m2 = a.map(fun (y: Int): Int {\n    log(y)\n%MUT%    return y\n})\n"},
		{"filterSame", "let f2 = a.filter(view fun (y: Int): Bool { return y > 1 })\n"},
	}
	arrOuter := []struct {
		name, open, close string
		closure           bool
	}{
		{"forIn", "for x in a {\n", "}\n", false},
		{"forRef", "for x in ra {\n", "}\n", false},
		{"forIndexed", "for i, x in a {\n", "}\n", false},
		{"map", "let m = a.map(fun (x: Int): Int {\n", "    return x\n})\n", true},
	}
	positions := []string{"before", "inner", "afterInner", "afterBoth"}
	for _, o := range arrOuter {
		for _, in := range arrInner {
			for _, m := range arrMut {
				for _, pos := range positions {
					if pos == "inner" && !strings.Contains(in.code, "%MUT%") {
						continue
					}
					if in.name == "none" && pos == "afterInner" {
						continue
					}
					mut := m.code + "\n"
					innerMut := ""
					if pos == "inner" {
						innerMut = "    " + mut
					}
					inner := strings.ReplaceAll(in.code, "%MUT%", innerMut)
					guard := "steps = steps + 1\nif steps > 4 { break }\nlog(x)\n"
					if o.closure {
						guard = "steps = steps + 1\nif steps > 4 { return x }\nlog(x)\n"
					}
					body := guard
					if pos == "before" {
						body += mut
					}
					body += inner
					if pos == "afterInner" {
						body += mut
					}
					after := ""
					if pos == "afterBoth" {
						after = mut
					}
					src := `access(all) fun scan(_ r: &[Int]): Int { var t = 0; for y in r { t = t + y }; return t }
access(all) fun first(_ r: &[Int]): Int { for y in r { return y }; return -1 }
access(all) fun grow(_ r: auth(Mutate) &[Int]) { r.append(7) }
access(all) fun main(): Int {
    var a: [Int] = [1, 2, 3]
    var b: [Int] = [7, 8]
    let ra = &a as auth(Mutate) &[Int]
    var steps = 0
` + indent(o.open+indent(body, "    ")+o.close+after, "    ") + `    log(a)
    log(b)
    return a.length * 10 + steps
}`
					out = append(out, gridCase{fmt.Sprintf("array/%s/%s/%s/%s", o.name, in.name, m.name, pos), src})
				}
			}
		}
	}
	// ------------------------------------------------------------ dictionaries
	dictMut := []struct{ name, code string }{
		{"insert", "d[\"z\"] = 9"},
		{"remove", "let gone = d.remove(key: \"a\")"},
		{"update", "d[\"a\"] = 5"},
		{"insertFn", "let old = d.insert(key: \"y\", 4)"},
		{"other", "e[\"q\"] = 1"},
	}
	dictInner := []struct{ name, code string }{
		{"none", ""},
		{"forEachKeySame", "d.forEachKey(fun (k2: String): Bool {\n    log(k2.length)\n%MUT%    return true\n})\n"},
		{"forEachKeyStop", "d.forEachKey(fun (k2: String): Bool {\n    log(k2.length)\n%MUT%    return false\n})\n"},
		{"forEachKeyOther", "e.forEachKey(fun (k2: String): Bool {\n    log(k2.length)\n%MUT%    return true\n})\n"},
		{"forKeys", "for k2 in d.keys {\n    log(k2.length)\n%MUT%}\n"},
	}
	dictOuter := []struct{ name, open, close string }{
		{"forEachKey", "d.forEachKey(fun (k: String): Bool {\n", "    return true\n})\n"},
		{"forKeys", "for k in d.keys {\n", "}\n"},
		{"forValues", "for v in d.values {\n", "}\n"},
	}
	for _, o := range dictOuter {
		for _, in := range dictInner {
			for _, m := range dictMut {
				for _, pos := range positions {
					if pos == "inner" && !strings.Contains(in.code, "%MUT%") {
						continue
					}
					if in.name == "none" && pos == "afterInner" {
						continue
					}
					mut := m.code + "\n"
					innerMut := ""
					if pos == "inner" {
						innerMut = "    " + mut
					}
					inner := strings.ReplaceAll(in.code, "%MUT%", innerMut)
					body := "steps = steps + 1\n"
					if pos == "before" {
						body += mut
					}
					body += inner
					if pos == "afterInner" {
						body += mut
					}
					after := ""
					if pos == "afterBoth" {
						after = mut
					}
					src := `access(all) fun main(): Int {
    var d: {String: Int} = {"a": 1, "bb": 2}
    var e: {String: Int} = {"c": 3}
    var steps = 0
` + indent(o.open+indent(body, "    ")+o.close+after, "    ") + `    log(d.length)
    log(e.length)
    return d.length * 10 + steps
}`
					out = append(out, gridCase{fmt.Sprintf("dict/%s/%s/%s/%s", o.name, in.name, m.name, pos), src})
				}
			}
		}
	}
	return out
}
