package main

// Deterministic grid for C52: swap statements with all 3x3 combinations of side kinds
// (identifier / member / index), and assignments to identifier / member / index / compound targets,
// where every sub-expression (left target, left key, right target, right key, value) is a probe call.
// The statements live in a member function of S0 (the only place where Cadence allows field
// targets). Each program is emitted as Cadence source and as a Coq term; the model interpreter's
// left-to-right order is the oracle, both engines are compared.

func swapGrid() []*Prog {
	var out []*Prog
	kinds := []string{"var", "member", "index"}
	build := func(mk func(g *G, v map[string]*Var) *S) *Prog {
		p := &Prog{Probes: map[string]*Ty{}, Tags: map[string]int{}}
		g := &G{p: p, methods: map[int]bool{1: true}}
		id := 0
		nv := func(name string, t *Ty) *Var { id++; return &Var{Name: name, Id: id, T: t, Mut: true} }
		self := nv("_self", StructT(0))
		par := nv("v1", StructT(0))
		v := map[string]*Var{
			"x": nv("x", TInt), "y": nv("y", TInt), "ss": nv("ss", Arr(StructT(0))), "tt": nv("tt", Arr(StructT(0))),
			"a": nv("a", Arr(TInt)), "b": nv("b", Arr(TInt)), "aa": nv("aa", Arr(Arr(TInt))),
		}
		lit := func(z int64) *E { return &E{Op: "int", Z: z} }
		arr := func(zs ...int64) *E {
			e := &E{Op: "arr"}
			for _, z := range zs {
				e.Es = append(e.Es, lit(z))
				e.Convs = append(e.Convs, 0)
			}
			return e
		}
		s0 := func(a int64, b *E) *E {
			return &E{Op: "call", Fn: "ctor", FnIdx: 0, Es: []*E{lit(a), b, {Op: "nil"}}, Convs: []int{0, 0, 1}, Labels: []string{"a", "b", "c"}}
		}
		let := func(x *Var, e *E) *S { return &S{Op: "let", X: x, Conv: 0, Ex: e, IsVar: true} }
		ve := func(x *Var) *E { return &E{Op: "var", X: x} }
		body := []*S{
			let(v["x"], lit(1)), let(v["y"], lit(2)),
			let(v["ss"], &E{Op: "arr", Es: []*E{s0(10, arr(11, 12)), s0(20, arr(21, 22))}, Convs: []int{0, 0}}),
			let(v["tt"], &E{Op: "arr", Es: []*E{s0(30, arr(31, 32)), s0(40, arr(41, 42))}, Convs: []int{0, 0}}),
			let(v["a"], arr(3, 4)), let(v["b"], arr(5, 6)),
			let(v["aa"], &E{Op: "arr", Es: []*E{arr(50, 51), arr(60, 61)}, Convs: []int{0, 0}}),
			mk(g, v),
		}
		idx := func(a *E, i int64) *E { return &E{Op: "index", A: a, Bx: lit(i)} }
		mem := func(a *E, f int) *E { return &E{Op: "member", A: a, Sid: 0, F: f} }
		obs := []*E{ve(v["x"]), ve(v["y"]), idx(ve(v["a"]), 0), idx(ve(v["a"]), 1), idx(ve(v["b"]), 0), idx(ve(v["b"]), 1)}
		for _, arrv := range []string{"ss", "tt"} {
			for i := int64(0); i < 2; i++ {
				obs = append(obs, mem(idx(ve(v[arrv]), i), 0), idx(mem(idx(ve(v[arrv]), i), 1), 0), idx(mem(idx(ve(v[arrv]), i), 1), 1))
			}
		}
		for i := int64(0); i < 2; i++ {
			obs = append(obs, idx(idx(ve(v["aa"]), i), 0), idx(idx(ve(v["aa"]), i), 1))
		}
		res := &E{Op: "arr", Es: obs}
		for range obs {
			res.Convs = append(res.Convs, 0)
		}
		body = append(body, &S{Op: "return", Conv: 0, Ex: res})
		f1 := &Fn{Idx: 1, Method: true, Params: []*Var{self, par}, Ret: Arr(TInt), Body: body}
		recv := s0(0, arr(0))
		call := &E{Op: "call", Fn: "method", FnIdx: 1, Es: []*E{recv, s0(0, arr(0))}, Convs: []int{0, 0}, Labels: []string{"", "v1"}}
		main := &Fn{Idx: 0, Ret: Arr(TInt), Body: []*S{{Op: "return", Conv: 0, Ex: call}}}
		p.Fns = []*Fn{main, f1}
		return p
	}
	// a side of the given kind; which = 0 (left) / 1 (right) selects distinct containers
	side := func(g *G, v map[string]*Var, kind string, which int) *T {
		pr := func(z int64) *E { return g.probe(TInt, &E{Op: "int", Z: z}) }
		ve := func(x *Var) *E { return &E{Op: "var", X: x} }
		structs := []string{"ss", "tt"}[which]
		switch kind {
		case "var":
			return &T{Op: "var", X: v[[]string{"x", "y"}[which]]}
		case "member":
			// target expression with a probe: ss[p()].a
			return &T{Op: "member", A: &E{Op: "index", A: ve(v[structs]), Bx: pr(int64(which))}, Sid: 0, F: 0}
		default:
			// target expression with a probe and a probed key: ss[p()].b[p()]
			return &T{Op: "index", A: &E{Op: "member", A: &E{Op: "index", A: ve(v[structs]), Bx: pr(int64(1 - which))}, Sid: 0, F: 1}, I: pr(int64(which))}
		}
	}
	for _, lk := range kinds {
		for _, rk := range kinds {
			lk, rk := lk, rk
			p := build(func(g *G, v map[string]*Var) *S {
				return &S{Op: "swap", T1: side(g, v, lk, 0), T2: side(g, v, rk, 1), Conv: 0}
			})
			p.Tags["grid:swap-"+lk+"-"+rk] = 1
			out = append(out, p)
		}
	}
	// the same with simple index sides a[p()] / b[p()] and with both sides in the same container
	out = append(out, build(func(g *G, v map[string]*Var) *S {
		pr := func(z int64) *E { return g.probe(TInt, &E{Op: "int", Z: z}) }
		return &S{Op: "swap", T1: &T{Op: "index", A: &E{Op: "var", X: v["a"]}, I: pr(1)},
			T2: &T{Op: "member", A: &E{Op: "index", A: &E{Op: "var", X: v["ss"]}, Bx: pr(0)}, Sid: 0, F: 0}, Conv: 0}
	}))
	out = append(out, build(func(g *G, v map[string]*Var) *S {
		pr := func(z int64) *E { return g.probe(TInt, &E{Op: "int", Z: z}) }
		return &S{Op: "swap", T1: &T{Op: "index", A: &E{Op: "index", A: &E{Op: "var", X: v["aa"]}, Bx: pr(0)}, I: pr(1)},
			T2: &T{Op: "index", A: &E{Op: "index", A: &E{Op: "var", X: v["aa"]}, Bx: pr(1)}, I: pr(0)}, Conv: 0}
	}))
	// assignments: identifier, member, index, compound targets; value is a probe
	for _, k := range kinds {
		k := k
		out = append(out, build(func(g *G, v map[string]*Var) *S {
			return &S{Op: "assign", T1: side(g, v, k, 0), Conv: 0, Ex: g.probe(TInt, &E{Op: "int", Z: 77})}
		}))
	}
	out = append(out, build(func(g *G, v map[string]*Var) *S {
		pr := func(z int64) *E { return g.probe(TInt, &E{Op: "int", Z: z}) }
		return &S{Op: "assign", T1: &T{Op: "index", A: &E{Op: "index", A: &E{Op: "var", X: v["aa"]}, Bx: pr(1)}, I: pr(0)}, Conv: 0, Ex: pr(78)}
	}))
	// out-of-bounds key: the error is raised only after all sub-expressions ran
	out = append(out, build(func(g *G, v map[string]*Var) *S {
		pr := func(z int64) *E { return g.probe(TInt, &E{Op: "int", Z: z}) }
		return &S{Op: "swap", T1: &T{Op: "index", A: &E{Op: "var", X: v["a"]}, I: pr(7)},
			T2: &T{Op: "member", A: &E{Op: "index", A: &E{Op: "var", X: v["ss"]}, Bx: pr(0)}, Sid: 0, F: 0}, Conv: 0}
	}))
	return out
}
