package main

// Random generator of MiniCadence programs (the modelled fragment). Type-directed, so that the
// programs are accepted by the checker; every choice derives from the seed.

import (
	"fmt"

	"cvh/lib"
)

type G struct {
	r       *lib.Rng
	p       *Prog
	scopes  [][]*Var
	nvar    int
	fn      *Fn
	inS0    bool // generating a member function of S0 (field assignment allowed)
	loops   int
	fns     []*Fn // callable functions generated so far (index >= 1)
	methods map[int]bool
	maxD    int
	pendingPre []*S
}

func (g *G) tag(s string) { g.p.Tags[s]++ }

func (g *G) push()     { g.scopes = append(g.scopes, nil) }
func (g *G) pop()      { g.scopes = g.scopes[:len(g.scopes)-1] }
func (g *G) declare(v *Var) {
	g.scopes[len(g.scopes)-1] = append(g.scopes[len(g.scopes)-1], v)
}

func (g *G) newVar(t *Ty, mut bool) *Var {
	// occasionally shadow a variable of an enclosing scope (same name, new binding)
	if len(g.scopes) > 1 && g.r.Chance(1, 8) {
		outer := g.scopes[g.r.Intn(len(g.scopes)-1)]
		if len(outer) > 0 {
			o := outer[g.r.Intn(len(outer))]
			cur := g.scopes[len(g.scopes)-1]
			clash := false
			for _, c := range cur {
				if c.Name == o.Name {
					clash = true
				}
			}
			if !clash && !o.Loop {
				g.tag("shadowing")
				return &Var{Name: o.Name, Id: o.Id, T: t, Mut: mut}
			}
		}
	}
	g.nvar++
	return &Var{Name: fmt.Sprintf("v%d", g.nvar), Id: g.nvar, T: t, Mut: mut}
}

// visible variables (innermost binding of each name wins)
func (g *G) visible() []*Var {
	seen := map[string]bool{}
	var out []*Var
	for i := len(g.scopes) - 1; i >= 0; i-- {
		sc := g.scopes[i]
		for j := len(sc) - 1; j >= 0; j-- {
			if !seen[sc[j].Name] {
				seen[sc[j].Name] = true
				out = append(out, sc[j])
			}
		}
	}
	return out
}

func (g *G) varsOf(t *Ty, mutOnly bool) []*Var {
	var out []*Var
	for _, v := range g.visible() {
		if v.T.Eq(t) && (!mutOnly || v.Mut) {
			out = append(out, v)
		}
	}
	return out
}

var intLattice = []int64{-128, -127, -100, -64, -2, -1, 100, 126, 127, 64, 63}

func (g *G) intLit() int64 {
	switch x := g.r.Intn(20); {
	case x < 11:
		return int64(g.r.Intn(6))
	case x < 15:
		return int64(10 + g.r.Intn(50))
	default:
		return intLattice[g.r.Intn(len(intLattice))]
	}
}

func (g *G) probe(t *Ty, v *E) *E {
	m := t.Mangle()
	if _, ok := g.p.Probes[m]; !ok {
		g.p.Probes[m] = t
		g.p.ProbeOrder = append(g.p.ProbeOrder, m)
	}
	g.p.NProbe++
	k := int64(g.p.NProbe)
	return &E{Op: "call", Fn: "probe", PT: t, Es: []*E{{Op: "int", Z: k}, v}, Convs: []int{0, t.Depth()}}
}

// site generates an expression for a transfer site whose target type is t; for optional targets
// the value may have a smaller optional depth (implicit boxing at the site).
func (g *G) site(t *Ty, d int) *E {
	if t.K == KOpt && g.r.Chance(1, 3) {
		g.tag("implicit-boxing")
		return g.site(t.E, d)
	}
	return g.expr(t, d, true)
}

func (g *G) leaf(t *Ty, exp bool) *E {
	vs := g.varsOf(t, false)
	if len(vs) > 0 && g.r.Chance(3, 5) {
		return &E{Op: "var", X: vs[g.r.Intn(len(vs))]}
	}
	if !exp || g.r.Chance(1, 3) {
		return g.probe(t, g.lit(t))
	}
	return g.lit(t)
}

// lit generates a literal-ish expression of type t in a context where the checker knows t
func (g *G) lit(t *Ty) *E {
	switch t.K {
	case KInt:
		return &E{Op: "int", Z: g.intLit()}
	case KBool:
		return &E{Op: "bool", B: g.r.Bool()}
	case KStr:
		return &E{Op: "str", S: lib.Pick(g.r, []string{"a", "b", "", "xy"})}
	case KOpt:
		if g.r.Chance(1, 6) {
			return &E{Op: "nil"}
		}
		return g.probe(t, g.implicit(t))
	case KArr:
		n := 2 + g.r.Intn(3)
		if g.r.Chance(1, 12) {
			n = g.r.Intn(2)
		}
		e := &E{Op: "arr"}
		for i := 0; i < n; i++ {
			e.Es = append(e.Es, g.implicit(t.E))
			e.Convs = append(e.Convs, t.E.Depth())
		}
		return e
	case KDict:
		n := 1 + g.r.Intn(3)
		e := &E{Op: "dict"}
		for i := 0; i < n; i++ {
			e.Es = append(e.Es, g.keyLit(t.Key), g.implicit(t.E))
			e.Convs = append(e.Convs, t.Key.Depth(), t.E.Depth())
		}
		return e
	case KStruct:
		sd := structs[t.Sid]
		e := &E{Op: "call", Fn: "ctor", FnIdx: t.Sid}
		for _, f := range sd.Fields {
			e.Es = append(e.Es, g.implicit(f.T))
			e.Convs = append(e.Convs, f.T.Depth())
			e.Labels = append(e.Labels, f.Name)
		}
		return e
	}
	panic("lit")
}

// implicit: a literal for a site of type t, possibly of smaller optional depth
func (g *G) implicit(t *Ty) *E {
	if t.K == KOpt {
		if g.r.Chance(1, 5) {
			return &E{Op: "nil"}
		}
		return g.implicit(t.E)
	}
	return g.lit(t)
}

func (g *G) keyLit(t *Ty) *E {
	if t.K == KInt {
		return &E{Op: "int", Z: int64(g.r.Intn(4))}
	}
	return &E{Op: "str", S: lib.Pick(g.r, []string{"a", "b", "c"})}
}

func (g *G) keyExpr(t *Ty, d int) *E {
	if d <= 0 || g.r.Chance(1, 2) {
		if g.r.Chance(1, 2) {
			return g.probe(t, g.keyLit(t))
		}
		return g.keyLit(t)
	}
	return g.expr(t, d-1, true)
}

// indexExpr generates an array index (mostly in range for arrays of length >= 2)
func (g *G) indexExpr(d int) *E {
	x := g.r.Intn(20)
	small := &E{Op: "int", Z: int64(g.r.Intn(2))}
	switch {
	case x < 11:
		return small
	case x < 18:
		return g.probe(TInt, small)
	case x < 19:
		return &E{Op: "int", Z: lib.Pick(g.r, []int64{2, 3, -1, 5})}
	default:
		// the checker gives the index position the expected type `Integer`, which a conditional or a
		// literal operand would adopt; a probe call is typed Int8 by itself
		if d > 0 {
			return g.probe(TInt, g.expr(TInt, d-1, true))
		}
		return g.probe(TInt, &E{Op: "int", Z: 2})
	}
}

var arithOps = []string{"+", "-", "*", "/", "%"}
var cmpOps = []string{"<", "<=", ">", ">="}

// expr generates an expression of type t. exp tells whether the checker has t as the expected
// type here (bare Int8 literals and container literals are only well-typed in such positions).
func (g *G) expr(t *Ty, d int, exp bool) *E {
	if d <= 0 || g.r.Chance(1, 5) {
		return g.leaf(t, exp)
	}
	for try := 0; try < 8; try++ {
		if e := g.composite(t, d, exp); e != nil {
			return e
		}
	}
	return g.leaf(t, exp)
}

func (g *G) condExpr(t *Ty, d int, exp bool) *E {
	g.tag("conditional")
	return &E{Op: "cond", C: g.expr(TBool, d-1, true), A: g.expr(t, d-1, exp), Bx: g.expr(t, d-1, exp)}
}

func (g *G) callUser(t *Ty, d int) *E {
	var cands []*Fn
	for _, f := range g.fns {
		if f.Ret.Eq(t) && f.Idx < g.fnLimit() {
			cands = append(cands, f)
		}
	}
	if len(cands) == 0 {
		return nil
	}
	f := cands[g.r.Intn(len(cands))]
	e := &E{Op: "call", Fn: "user", FnIdx: f.Idx}
	params := f.Params
	if g.methods[f.Idx] {
		// member function of S0: `recv.mK(args)`; the model passes the receiver as first argument
		e.Fn = "method"
		e.Es = append(e.Es, g.expr(StructT(0), d-1, false))
		e.Convs = append(e.Convs, 0)
		e.Labels = append(e.Labels, "")
		params = params[1:]
		g.tag("method-call")
	} else {
		g.tag("call")
	}
	for _, p := range params {
		e.Es = append(e.Es, g.site(p.T, d-1))
		e.Convs = append(e.Convs, p.T.Depth())
		e.Labels = append(e.Labels, p.Name)
	}
	return e
}

// functions may only call functions generated before them (no recursion)
func (g *G) fnLimit() int {
	if g.fn.Idx == 0 {
		return 1 << 30
	}
	return g.fn.Idx
}

func (g *G) composite(t *Ty, d int, exp bool) *E {
	switch t.K {
	case KInt:
		switch g.r.Intn(10) {
		case 0, 1, 2:
			g.tag("arith")
			return &E{Op: "bin", Bop: lib.Pick(g.r, arithOps), A: g.expr(TInt, d-1, exp), Bx: g.expr(TInt, d-1, true)}
		case 3:
			return g.condExpr(t, d, exp)
		case 4:
			g.tag("coalesce")
			return &E{Op: "coal", A: g.expr(Opt(TInt), d-1, false), Bx: g.expr(TInt, d-1, exp), Conv: 0}
		case 5:
			g.tag("force")
			return &E{Op: "force", A: g.expr(Opt(TInt), d-1, false)}
		case 6:
			g.tag("index-array")
			return &E{Op: "index", A: g.expr(Arr(TInt), d-1, false), Bx: g.indexExpr(d - 1)}
		case 7:
			g.tag("member")
			if g.r.Bool() {
				return &E{Op: "member", A: g.expr(StructT(0), d-1, false), Sid: 0, F: 0}
			}
			return &E{Op: "member", A: g.expr(StructT(1), d-1, false), Sid: 1, F: 1}
		case 8:
			return g.callUser(t, d)
		default:
			return g.probe(t, g.expr(t, d-1, true))
		}
	case KBool:
		switch g.r.Intn(10) {
		case 0, 1:
			g.tag("compare")
			return &E{Op: "bin", Bop: lib.Pick(g.r, cmpOps), A: g.expr(TInt, d-1, false), Bx: g.expr(TInt, d-1, true)}
		case 2:
			g.tag("equality")
			ot := lib.Pick(g.r, []*Ty{TInt, TBool, TStr, Opt(TInt)})
			return &E{Op: "bin", Bop: lib.Pick(g.r, []string{"==", "!="}), A: g.expr(ot, d-1, false), Bx: g.expr(ot, d-1, true)}
		case 3, 4:
			g.tag("and")
			return &E{Op: "and", A: g.expr(TBool, d-1, true), Bx: g.expr(TBool, d-1, true)}
		case 5, 6:
			g.tag("or")
			return &E{Op: "or", A: g.expr(TBool, d-1, true), Bx: g.expr(TBool, d-1, true)}
		case 7:
			return g.condExpr(t, d, exp)
		case 8:
			return g.callUser(t, d)
		default:
			return g.probe(t, g.expr(t, d-1, true))
		}
	case KStr:
		if g.r.Bool() {
			return g.condExpr(t, d, exp)
		}
		return g.probe(t, g.expr(t, d-1, true))
	case KOpt:
		inner := t.E
		switch g.r.Intn(8) {
		case 0, 1:
			if inner.K == KInt {
				g.tag("index-dict")
				kt := lib.Pick(g.r, []*Ty{TInt, TStr})
				return &E{Op: "index", A: g.expr(Dict(kt, TInt), d-1, false), Bx: g.keyExpr(kt, d-1)}
			}
		case 2, 3:
			if inner.K == KInt {
				g.tag("optional-chaining")
				// s?.a : Int8?   and   s?.c : Int8? (flattened)
				f := lib.Pick(g.r, []int{0, 2})
				return &E{Op: "optmember", A: g.expr(Opt(StructT(0)), d-1, false), Sid: 0, F: f}
			}
			if inner.K == KStruct && inner.Sid == 0 {
				g.tag("optional-chaining")
				f := lib.Pick(g.r, []int{0, 2})
				return &E{Op: "optmember", A: g.expr(Opt(StructT(1)), d-1, false), Sid: 1, F: f}
			}
		case 4:
			return g.condExpr(t, d, exp)
		case 5:
			if inner.K != KOpt {
				// the checker types the right operand against the left operand's inner type, so only
				// self-typed right operands of the full optional type are accepted
				g.tag("coalesce-optional")
				return &E{Op: "coal", A: g.expr(t, d-1, false), Bx: g.probe(t, g.site(t, d-1)), Conv: t.Depth()}
			}
		case 6:
			if inner.K == KInt {
				g.tag("member")
				return &E{Op: "member", A: g.expr(StructT(0), d-1, false), Sid: 0, F: 2}
			}
			if inner.K == KStruct && inner.Sid == 0 {
				g.tag("member")
				return &E{Op: "member", A: g.expr(StructT(1), d-1, false), Sid: 1, F: 2}
			}
		default:
			return g.probe(t, g.site(t, d-1))
		}
		return nil
	case KArr:
		switch g.r.Intn(6) {
		case 0:
			return g.condExpr(t, d, exp)
		case 1:
			if t.E.K == KInt {
				g.tag("member")
				return &E{Op: "member", A: g.expr(StructT(0), d-1, false), Sid: 0, F: 1}
			}
		case 2:
			if t.E.K == KInt {
				g.tag("index-array")
				return &E{Op: "index", A: g.expr(Arr(Arr(TInt)), d-1, false), Bx: g.indexExpr(d - 1)}
			}
		case 3:
			if exp {
				g.tag("array-literal")
				n := 2 + g.r.Intn(3)
				e := &E{Op: "arr"}
				for i := 0; i < n; i++ {
					e.Es = append(e.Es, g.site(t.E, d-1))
					e.Convs = append(e.Convs, t.E.Depth())
				}
				return e
			}
		case 4:
			return g.callUser(t, d)
		default:
			return g.probe(t, g.expr(t, d-1, true))
		}
		return nil
	case KDict:
		if exp && g.r.Chance(2, 3) {
			g.tag("dict-literal")
			n := 1 + g.r.Intn(3)
			e := &E{Op: "dict"}
			for i := 0; i < n; i++ {
				e.Es = append(e.Es, g.keyExpr(t.Key, d-1), g.site(t.E, d-1))
				e.Convs = append(e.Convs, t.Key.Depth(), t.E.Depth())
			}
			return e
		}
		return g.probe(t, g.expr(t, d-1, true))
	case KStruct:
		switch g.r.Intn(5) {
		case 0, 1:
			g.tag("constructor")
			sd := structs[t.Sid]
			e := &E{Op: "call", Fn: "ctor", FnIdx: t.Sid}
			for _, f := range sd.Fields {
				e.Es = append(e.Es, g.site(f.T, d-1))
				e.Convs = append(e.Convs, f.T.Depth())
				e.Labels = append(e.Labels, f.Name)
			}
			return e
		case 2:
			if t.Sid == 0 {
				g.tag("member")
				return &E{Op: "member", A: g.expr(StructT(1), d-1, false), Sid: 1, F: 0}
			}
		case 3:
			g.tag("force")
			return &E{Op: "force", A: g.expr(Opt(t), d-1, false)}
		default:
			return g.probe(t, g.expr(t, d-1, true))
		}
		return nil
	}
	return nil
}

// ---------------------------------------------------------------- statements

var declTypes = []*Ty{TInt, TInt, TInt, TBool, TStr, Opt(TInt), Opt(TInt), Arr(TInt), Arr(TInt), Arr(Arr(TInt)),
	Dict(TInt, TInt), Dict(TStr, TInt), StructT(0), Opt(StructT(0)), StructT(1), Arr(StructT(0)), Opt(Opt(TInt)), Arr(Opt(TInt))}

// path generates an assignable path of some type rooted in a mutable variable.
// final member steps (field assignment) are only legal inside member functions of S0.
type pathT struct {
	t   *T
	e   *E // the same path as an expression
	ty  *Ty
}

func (g *G) path(d int) *pathT {
	p := g.path0(d)
	// a path ending in a member step is only assignable inside member functions of S0 (and for S0 fields)
	if p != nil && p.t.Op == "member" && !(g.inS0 && p.t.Sid == 0) {
		return nil
	}
	return p
}

func (g *G) path0(d int) *pathT {
	var roots []*Var
	for _, v := range g.visible() {
		if v.Mut {
			roots = append(roots, v)
		}
	}
	if len(roots) == 0 {
		return nil
	}
	v := roots[g.r.Intn(len(roots))]
	cur := &pathT{t: &T{Op: "var", X: v}, e: &E{Op: "var", X: v}, ty: v.T}
	for step := 0; step < 3; step++ {
		switch cur.ty.K {
		case KArr:
			if step > 0 && g.r.Chance(1, 4) {
				return cur
			}
			i := g.indexExpr(d)
			cur = &pathT{t: &T{Op: "index", A: cur.e, I: i}, e: &E{Op: "index", A: cur.e, Bx: i}, ty: cur.ty.E}
		case KDict:
			if step > 0 && g.r.Chance(1, 4) {
				return cur
			}
			k := g.keyExpr(cur.ty.Key, d)
			cur = &pathT{t: &T{Op: "index", A: cur.e, I: k, Dict: true}, e: &E{Op: "index", A: cur.e, Bx: k}, ty: Opt(cur.ty.E)}
			return cur
		case KStruct:
			sid := cur.ty.Sid
			// choose a field; a final field step needs S0 scope and an S0 field
			var fs []int
			for fi, f := range structs[sid].Fields {
				final := f.T.K != KArr && f.T.K != KStruct
				if final && !(g.inS0 && sid == 0) {
					continue
				}
				fs = append(fs, fi)
			}
			if len(fs) == 0 {
				return cur
			}
			fi := fs[g.r.Intn(len(fs))]
			ft := structs[sid].Fields[fi].T
			next := &pathT{t: &T{Op: "member", A: cur.e, Sid: sid, F: fi}, e: &E{Op: "member", A: cur.e, Sid: sid, F: fi}, ty: ft}
			if ft.K == KStruct || ft.K == KArr {
				if g.inS0 && sid == 0 && g.r.Chance(1, 3) {
					return next // assign the whole field
				}
				cur = next
				continue
			}
			return next
		default:
			return cur
		}
	}
	return cur
}

func endsWithJump(b []*S) bool {
	if len(b) == 0 {
		return false
	}
	switch b[len(b)-1].Op {
	case "return", "break", "continue":
		return true
	}
	return false
}

func (g *G) block(d, n int) []*S { return g.blockJ(d, n, false) }

// blockJ optionally ends the block with a jump statement (generated in the block's own scope)
func (g *G) blockJ(d, n int, jump bool) []*S {
	g.push()
	defer g.pop()
	var out []*S
	for i := 0; i < n; i++ {
		out = append(out, g.stmts(d)...)
	}
	if jump {
		out = append(out, g.jump(d))
	}
	return out
}

func (g *G) stmts(d int) []*S {
	s := g.stmt(d)
	pre := g.pendingPre
	g.pendingPre = nil
	if s == nil {
		return pre
	}
	return append(pre, s)
}

func (g *G) boolCond(d int) *E { return g.expr(TBool, d, true) }

func (g *G) stmt(d int) *S {
	x := g.r.Intn(100)
	switch {
	case x < 24:
		t := declTypes[g.r.Intn(len(declTypes))]
		e := g.site(t, d)
		mut := g.r.Chance(3, 4)
		v := g.newVar(t, mut)
		g.declare(v)
		g.tag("let")
		return &S{Op: "let", X: v, Conv: t.Depth(), Ex: e, IsVar: mut}
	case x < 34:
		var ms []*Var
		for _, v := range g.visible() {
			if v.Mut {
				ms = append(ms, v)
			}
		}
		if len(ms) == 0 {
			return nil
		}
		v := ms[g.r.Intn(len(ms))]
		g.tag("assign-var")
		return &S{Op: "assign", T1: &T{Op: "var", X: v}, Conv: v.T.Depth(), Ex: g.site(v.T, d)}
	case x < 50:
		p := g.path(d)
		if p == nil || p.t.Op == "var" {
			return nil
		}
		g.tag("assign-" + p.t.Op)
		return &S{Op: "assign", T1: p.t, Conv: p.ty.Depth(), Ex: g.site(p.ty, d)}
	case x < 60:
		// swap: two paths of equal type (no dictionary slots)
		for try := 0; try < 12; try++ {
			p1, p2 := g.path(d), g.path(d)
			if p1 == nil || p2 == nil || !p1.ty.Eq(p2.ty) {
				continue
			}
			if isDictSlot(p1.t) || isDictSlot(p2.t) {
				continue
			}
			g.tag("swap-" + p1.t.Op + "-" + p2.t.Op)
			return &S{Op: "swap", T1: p1.t, T2: p2.t, Conv: p1.ty.Depth()}
		}
		return nil
	case x < 70:
		if d <= 0 {
			return nil
		}
		s := &S{Op: "if", Ex: g.boolCond(d)}
		s.B1 = g.blockJ(d-1, 1+g.r.Intn(3), g.r.Chance(1, 4))
		if g.r.Bool() {
			s.HasElse = true
			s.B2 = g.block(d-1, 1+g.r.Intn(2))
		}
		g.tag("if")
		return s
	case x < 75:
		if d <= 0 {
			return nil
		}
		return g.whileLoop(d)
	case x < 83:
		if d <= 0 {
			return nil
		}
		return g.forLoop(d)
	case x < 90:
		vs := append(g.varsOf(TInt, false), g.varsOf(TBool, false)...)
		if len(vs) == 0 {
			return nil
		}
		v := vs[g.r.Intn(len(vs))]
		g.tag("log")
		return &S{Op: "expr", Ex: &E{Op: "call", Fn: "log", Es: []*E{{Op: "var", X: v}}, Convs: []int{0}}}
	default:
		t := lib.Pick(g.r, []*Ty{TInt, TBool, Opt(TInt), Arr(TInt)})
		g.tag("expr-stmt")
		return &S{Op: "expr", Ex: g.expr(t, d, false)}
	}
}

func isDictSlot(t *T) bool { return t.Op == "index" && t.Dict }

// jump generates return / break / continue (legal at the end of an if-branch)
func (g *G) jump(d int) *S {
	if g.loops > 0 && g.r.Chance(2, 3) {
		if g.r.Bool() {
			g.tag("break")
			return &S{Op: "break"}
		}
		g.tag("continue")
		return &S{Op: "continue"}
	}
	g.tag("early-return")
	return g.ret(d)
}

func (g *G) ret(d int) *S {
	if g.fn.Ret.K == KVoid {
		return &S{Op: "return"}
	}
	return &S{Op: "return", Conv: g.fn.Ret.Depth(), Ex: g.site(g.fn.Ret, d)}
}

func (g *G) whileLoop(d int) *S {
	// var i = 0; while (i < N) [&& cond] { i = i + 1; body }   -- the counter is not assignable by the body
	g.tag("while")
	g.nvar++
	ctr := &Var{Name: fmt.Sprintf("v%d", g.nvar), Id: g.nvar, T: TInt, Mut: false, Loop: true}
	g.declare(ctr)
	n := int64(1 + g.r.Intn(3))
	cond := &E{Op: "bin", Bop: "<", A: &E{Op: "var", X: ctr}, Bx: &E{Op: "int", Z: n}}
	if g.r.Chance(1, 3) {
		cond = g.probe(TBool, cond)
	}
	if g.r.Chance(1, 3) {
		cond = &E{Op: "and", A: cond, Bx: g.boolCond(d - 1)}
	}
	g.loops++
	inc := &S{Op: "assign", T1: &T{Op: "var", X: ctr}, Conv: 0,
		Ex: &E{Op: "bin", Bop: "+", A: &E{Op: "var", X: ctr}, Bx: &E{Op: "int", Z: 1}}}
	body := append([]*S{inc}, g.block(d-1, 1+g.r.Intn(3))...)
	g.loops--
	g.pendingPre = append(g.pendingPre, &S{Op: "let", X: ctr, Conv: 0, Ex: &E{Op: "int", Z: 0}, IsVar: true})
	return &S{Op: "while", Ex: cond, B1: body}
}

func (g *G) forLoop(d int) *S {
	g.tag("for")
	et := lib.Pick(g.r, []*Ty{TInt, TInt, Arr(TInt), Opt(TInt), StructT(0)})
	it := g.expr(Arr(et), d-1, false)
	// the body must not mutate a container that is being iterated (the real engines raise
	// ContainerMutatedDuringIterationError; the model iterates a snapshot): freeze every variable the
	// iterated expression mentions
	var frozen []*Var
	walkVars(it, func(v *Var) {
		if v.Mut {
			v.Mut = false
			frozen = append(frozen, v)
		}
	})
	defer func() {
		for _, v := range frozen {
			v.Mut = true
		}
	}()
	g.push()
	g.nvar++
	x := &Var{Name: fmt.Sprintf("v%d", g.nvar), Id: g.nvar, T: et, Mut: false, Loop: true}
	g.declare(x)
	g.loops++
	body := g.block(d-1, 1+g.r.Intn(3))
	g.loops--
	g.pop()
	return &S{Op: "for", X: x, Conv: et.Depth(), Ex: it, B1: body}
}

// walkVars calls f on every variable occurrence of an expression.
func walkVars(e *E, f func(*Var)) {
	if e == nil {
		return
	}
	if e.Op == "var" {
		f(e.X)
	}
	walkVars(e.A, f)
	walkVars(e.Bx, f)
	walkVars(e.C, f)
	for _, x := range e.Es {
		walkVars(x, f)
	}
}
