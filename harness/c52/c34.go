package main

// C34: the bytecode VM is observationally equivalent to the interpreter.
//  (a) fragment programs: interpreter, VM (both through runtime.Runtime), VM compiled directly
//      without and with peephole optimisation; all outcomes must agree; the Coq model VM / model
//      compiler / model peephole pass are evaluated on the same programs and the model-compiled code
//      is compared with the real compiler's listing;
//  (b) programs beyond the modelled fragment (resources, struct methods, closures, references,
//      casts, string and collection built-ins, several integer types, conditions, switch, if-let):
//      scripts in both engines; transactions with storage operations on two hosts (one per engine)
//      started from identical ledgers, comparing outcome, logs, events and the committed ledger.

import (
	"bytes"
	"fmt"
	"regexp"
	"sort"
	"strings"

	"github.com/onflow/cadence/common"

	"cvh/lib"
)

func c34(sum *lib.Summary) {
	rng := lib.NewRng(*seed)
	cw := &lib.CaseWriter{
		Dir: *dir, Prefix: "cases_C34",
		Header:   "From CV Require Import MC.CasesVM.",
		ElemType: "program * obs * obs * obs * list (nat * code)",
		CheckFn:  "check_c34_full",
		PerFile:  40,
	}
	nfrag, next, ntx := 240, 700, 120
	if *tier == "thorough" {
		nfrag, next, ntx = 1200, 6000, 1000
	}
	sum.Rule = "every generated program is run by the interpreter and by the VM from identical state; result value, error class and " +
		"error kind (Go type of the Cadence error), ProgramLog sequence, events and (transactions) the committed ledger must be equal. " +
		"Fragment programs additionally run on a directly compiled VM with and without peephole optimisation and through the Coq model " +
		"(model VM on model-compiled code, model peephole pass, model-compiled code vs real instruction listing). " +
		"non-trivial = the program produces at least 2 log lines or an error after at least one log line; distinct = distinct source text"
	distinct := map[string]bool{}
	note := func(src string, o observed) {
		nt := len(o.Logs) >= 2 || (o.Class != "" && len(o.Logs) >= 1)
		if nt && !distinct[src] {
			distinct[src] = true
			sum.DistinctNontrivial++
			sum.Sample(map[string]any{"outcome": o.String(), "source_head": head(src, 500)})
		}
	}
	h := lib.NewHost()
	// ---------------------------------------------------------------- (a) fragment programs
	fragment := func(name, src, coq string, prog *Prog) {
		oi := observe(h.RunScript(src, nil, false))
		ov := observe(h.RunScript(src, nil, true))
		sum.Evaluations += 2
		if oi.Class == "CheckerError" || oi.Class == "ParseError" {
			sum.Count("rejected-by-checker")
			sum.Fail("generator:rejected", fmt.Sprintf("fragment program %s rejected by the checker (%s)", name, oi.Kind),
				map[string]any{"name": name, "source": src, "kind": oi.Kind})
			return
		}
		sum.Count("fragment:" + outcomeTag(oi))
		note(src, oi)
		if !oi.same(ov) {
			sum.Fail("engines-differ:"+name, fmt.Sprintf("interpreter and VM disagree on %s: interpreter %s; VM %s", name, oi, ov),
				map[string]any{"name": name, "source": src, "interpreter": oi.String(), "vm": ov.String()})
		}
		// directly compiled: peephole off / on
		listings := "[]"
		op := ov
		dp0, err0 := compileDirect(src, false)
		dp1, err1 := compileDirect(src, true)
		if err0 != nil || err1 != nil {
			sum.Fail("direct-compile:"+name, fmt.Sprintf("direct compilation of %s failed: %v / %v", name, err0, err1),
				map[string]any{"name": name, "source": src})
		} else {
			o0 := observe(runDirect(dp0))
			o1 := observe(runDirect(dp1))
			sum.Evaluations += 2
			if !o0.same(o1) {
				sum.Fail("peephole-differs:"+name, fmt.Sprintf("peephole optimisation changes the outcome of %s: off %s; on %s", name, o0, o1),
					map[string]any{"name": name, "source": src, "peephole_off": o0.String(), "peephole_on": o1.String()})
			}
			if !o0.same(ov) {
				sum.Fail("direct-vm-differs:"+name, fmt.Sprintf("VM through the runtime and directly compiled VM disagree on %s: runtime %s; direct %s", name, ov, o0),
					map[string]any{"name": name, "source": src, "runtime_vm": ov.String(), "direct_vm": o0.String()})
			}
			op = o1
			if prog != nil {
				if l := fragmentListings(dp0.Program, prog); l != "" {
					listings = l
					sum.Count("listing-compared")
				} else {
					sum.Count("listing-skipped")
				}
			}
		}
		if coq != "" {
			cw.Add("("+coq+",\n "+oi.Coq()+",\n "+ov.Coq()+",\n "+op.Coq()+",\n "+listings+")",
				map[string]any{"key": "model-mismatch:" + name, "name": name, "source": src, "interpreter": oi.String(), "vm": ov.String()})
		}
	}
	for _, c := range loadCorpus("C34") {
		sum.Count("corpus")
		if c.Contract != "" {
			// the contract is deployed at 0x1 and 0x2 on one fresh host per engine, then the script runs
			m := regexp.MustCompile(`contract\s+(\w+)`).FindStringSubmatch(c.Contract)
			var obs [2]observed
			for e, vm := range []bool{false, true} {
				hc := lib.NewHost()
				for _, a := range []byte{1, 2} {
					hc.Deploy(common.MustBytesToAddress([]byte{a}), m[1], c.Contract, vm)
				}
				obs[e] = observe(hc.RunScript(c.Src, nil, vm))
				sum.Evaluations++
			}
			if !obs[0].same(obs[1]) {
				sum.Fail("engines-differ:corpus:"+c.Name, fmt.Sprintf("interpreter and VM disagree on corpus:%s: interpreter %s; VM %s", c.Name, obs[0], obs[1]),
					map[string]any{"name": c.Name, "contract": c.Contract, "source": c.Src, "interpreter": obs[0].String(), "vm": obs[1].String()})
			}
		} else if c.Coq != "" {
			fragment("corpus:"+c.Name, c.Src, c.Coq, nil)
		} else {
			// engine comparison only
			oi := observe(h.RunScript(c.Src, nil, false))
			ov := observe(h.RunScript(c.Src, nil, true))
			sum.Evaluations += 2
			if !oi.same(ov) {
				sum.Fail("engines-differ:corpus:"+c.Name, fmt.Sprintf("interpreter and VM disagree on corpus:%s: interpreter %s; VM %s", c.Name, oi, ov),
					map[string]any{"name": c.Name, "source": c.Src, "interpreter": oi.String(), "vm": ov.String()})
			}
		}
	}
	for i := 0; i < nfrag; i++ {
		if i%40 == 39 {
			h = lib.NewHost()
		}
		p := genProgram(rng, i%10 == 0)
		fragment("random", p.Src(), p.Coq(), p)
	}
	cw.Close()
	sum.CaseFiles = cw.Files

	// ---------------------------------------------------------------- (b) beyond the fragment: scripts
	h = lib.NewHost()
	for i := 0; i < next; i++ {
		if i%60 == 59 {
			h = lib.NewHost()
		}
		name, src := extScript(rng)
		oi := observe(h.RunScript(src, nil, false))
		ov := observe(h.RunScript(src, nil, true))
		sum.Evaluations += 2
		if oi.Class == "CheckerError" || oi.Class == "ParseError" {
			sum.Count("ext-rejected:" + name)
			sum.Fail("generator:rejected:"+name, fmt.Sprintf("template %s rejected by the checker: %v", name, head(fmt.Sprint(h.RunScript(src, nil, false).Err), 600)),
				map[string]any{"template": name, "source": src})
			continue
		}
		sum.Count("ext:" + name)
		sum.Count("ext-outcome:" + outcomeTag(oi))
		note(src, oi)
		if !oi.same(ov) {
			sum.Fail("engines-differ:ext:"+name, fmt.Sprintf("interpreter and VM disagree on a %s program: interpreter %s; VM %s", name, oi, ov),
				map[string]any{"template": name, "source": src, "interpreter": oi.String(), "vm": ov.String()})
		}
		// peephole off / on on a directly constructed compiler + VM (function expressions run the
		// optimised code)
		dp0, err0 := compileDirect(src, false)
		dp1, err1 := compileDirect(src, true)
		if err0 != nil || err1 != nil {
			sum.Count("ext-direct-skipped")
			continue
		}
		o0 := observe(runDirect(dp0))
		o1 := observe(runDirect(dp1))
		sum.Evaluations += 2
		sum.Count("ext-direct-compared")
		if !o0.same(o1) {
			sum.Fail("peephole-differs:ext:"+name, fmt.Sprintf("peephole optimisation changes the outcome of a %s program: off %s; on %s", name, o0, o1),
				map[string]any{"template": name, "source": src, "peephole_off": o0.String(), "peephole_on": o1.String()})
		}
		if !o0.same(ov) {
			sum.Fail("direct-vm-differs:ext:"+name, fmt.Sprintf("VM through the runtime and directly compiled VM disagree on a %s program: runtime %s; direct %s", name, ov, o0),
				map[string]any{"template": name, "source": src, "runtime_vm": ov.String(), "direct_vm": o0.String()})
		}
	}

	// ---------------------------------------------------------------- (b) literal-rich programs (constant pool)
	h = lib.NewHost()
	nlit := 400
	if *tier == "thorough" {
		nlit = 5000
	}
	for i := 0; i < nlit; i++ {
		if i%80 == 79 {
			h = lib.NewHost()
		}
		name, src := litProgram(rng)
		oi := observe(h.RunScript(src, nil, false))
		ov := observe(h.RunScript(src, nil, true))
		sum.Evaluations += 2
		if oi.Class == "CheckerError" || oi.Class == "ParseError" {
			sum.Count("lit-rejected")
			sum.Fail("generator:rejected:"+name, fmt.Sprintf("literal program rejected by the checker: %v", head(fmt.Sprint(h.RunScript(src, nil, false).Err), 600)),
				map[string]any{"source": src})
			continue
		}
		sum.Count(name + ":" + outcomeTag(oi))
		note(src, oi)
		if !oi.same(ov) {
			sum.Fail("engines-differ:"+name, fmt.Sprintf("interpreter and VM disagree on a literal-rich program: interpreter %s; VM %s", oi, ov),
				map[string]any{"source": src, "interpreter": oi.String(), "vm": ov.String()})
		}
	}

	// ---------------------------------------------------------------- (b) mutation during iteration: exhaustive grid
	h = lib.NewHost()
	for i, gc := range iterGrid() {
		if i%80 == 79 {
			h = lib.NewHost()
		}
		oi := observe(h.RunScript(gc.Src, nil, false))
		ov := observe(h.RunScript(gc.Src, nil, true))
		sum.Evaluations += 2
		if oi.Class == "CheckerError" || oi.Class == "ParseError" {
			sum.Count("grid-rejected")
			sum.Fail("generator:rejected:grid", fmt.Sprintf("grid program %s rejected by the checker: %v", gc.Name, head(fmt.Sprint(h.RunScript(gc.Src, nil, false).Err), 600)),
				map[string]any{"name": gc.Name, "source": gc.Src})
			continue
		}
		sum.Count("grid-outcome:" + outcomeTag(oi) + ":" + lastPart(oi.Kind))
		note(gc.Src, oi)
		if !oi.same(ov) {
			parts := strings.Split(gc.Name, "/") // container/outer/inner/mutation/position
			sum.Fail("engines-differ:iteration:"+parts[0]+"/"+parts[2]+"/"+parts[4], fmt.Sprintf("interpreter and VM disagree on mutation-during-iteration program %s: interpreter %s; VM %s", gc.Name, oi, ov),
				map[string]any{"name": gc.Name, "source": gc.Src, "interpreter": oi.String(), "vm": ov.String()})
		}
	}

	// ---------------------------------------------------------------- (b) transactions with storage, two hosts
	runHistory := func(hist int) {
		hi, hv := lib.NewHost(), lib.NewHost()
		addr := common.MustBytesToAddress([]byte{0x1})
		contract := extContract
		di := observe(hi.Deploy(addr, "Vault", contract, false))
		dv := observe(hv.Deploy(addr, "Vault", contract, true))
		sum.Evaluations += 2
		if !di.same(dv) {
			sum.Fail("engines-differ:deploy", fmt.Sprintf("contract deployment differs: interpreter %s; VM %s", di, dv),
				map[string]any{"contract": contract})
			return
		}
		if di.Class != "" {
			sum.Fail("generator:rejected:deploy", "contract of the transaction histories does not deploy: "+di.String()+" "+fmt.Sprint(hi.Deploy(addr, "Vault2", contract, false).Err),
				map[string]any{"contract": contract})
			return
		}
		if d := ledgerDiff(hi, hv); d != "" {
			sum.Fail("ledger-differs:deploy", "committed ledger differs after contract deployment: "+d, map[string]any{"contract": contract})
			return
		}
		var trace []string
		steps := 6 + rng.Intn(6)
		for k := 0; k < steps; k++ {
			name, src := extTx(rng)
			trace = append(trace, src)
			oi := observe(hi.RunTx(src, nil, []common.Address{addr}, false))
			ov := observe(hv.RunTx(src, nil, []common.Address{addr}, true))
			sum.Evaluations += 2
			if oi.Class == "CheckerError" || oi.Class == "ParseError" {
				sum.Count("tx-rejected:" + name)
				sum.Fail("generator:rejected:tx:"+name, fmt.Sprintf("transaction template %s rejected: %v", name,
					head(fmt.Sprint(hi.RunTx(src, nil, []common.Address{addr}, false).Err), 600)), map[string]any{"source": src})
				return
			}
			sum.Count("tx:" + name)
			sum.Count("tx-outcome:" + outcomeTag(oi))
			note(src, oi)
			if !oi.same(ov) {
				sum.Fail("engines-differ:tx:"+name, fmt.Sprintf("interpreter and VM disagree on transaction %d (%s) of a history: interpreter %s; VM %s", k, name, oi, ov),
					map[string]any{"history": trace, "interpreter": oi.String(), "vm": ov.String()})
				return
			}
			if d := ledgerDiff(hi, hv); d != "" {
				sum.Fail("ledger-differs:tx:"+name, fmt.Sprintf("committed ledger differs after transaction %d (%s): %s", k, name, d),
					map[string]any{"history": trace, "difference": d})
				return
			}
		}
	}
	for hist := 0; hist < ntx/8; hist++ {
		runHistory(hist)
	}
}

func lastPart(s string) string {
	if i := strings.LastIndex(s, "."); i >= 0 {
		return s[i+1:]
	}
	return s
}

func outcomeTag(o observed) string {
	if o.Class != "" {
		return o.Class
	}
	return "value"
}

// ledgerDiff compares the committed registers of two hosts.
func ledgerDiff(a, b *lib.Host) string {
	keys := map[string]bool{}
	for k := range a.Ledger.StoredValues {
		keys[k] = true
	}
	for k := range b.Ledger.StoredValues {
		keys[k] = true
	}
	var ks []string
	for k := range keys {
		ks = append(ks, k)
	}
	sort.Strings(ks)
	var diffs []string
	for _, k := range ks {
		va, oka := a.Ledger.StoredValues[k]
		vb, okb := b.Ledger.StoredValues[k]
		if oka != okb || !bytes.Equal(va, vb) {
			diffs = append(diffs, fmt.Sprintf("register %x: interpreter %d bytes (present=%v), VM %d bytes (present=%v)", k, len(va), oka, len(vb), okb))
		}
	}
	if len(diffs) > 4 {
		diffs = append(diffs[:4], fmt.Sprintf("... %d registers differ", len(diffs)))
	}
	return strings.Join(diffs, "; ")
}
