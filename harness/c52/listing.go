package main

// Conversion of the real compiler's instruction listing of a fragment program into the model's
// instruction syntax (coq/theories/MC/Syntax.v `instr`), so that the model compiler's output can be
// compared with it instruction by instruction.

import (
	"fmt"
	"math/big"
	"strings"

	"github.com/onflow/cadence/bbq"
	"github.com/onflow/cadence/bbq/opcode"
	"github.com/onflow/cadence/interpreter"
)

func staticDepth(t interpreter.StaticType) int {
	d := 0
	for {
		o, ok := t.(*interpreter.OptionalStaticType)
		if !ok {
			return d
		}
		d++
		t = o.Type
	}
}

var fieldIndex = map[string]int{"a": 0, "b": 1, "c": 2, "s": 0, "n": 1, "o": 2}

func natList(xs []int) string {
	ps := make([]string, len(xs))
	for i, x := range xs {
		ps[i] = fmt.Sprint(x)
	}
	return "[" + strings.Join(ps, ";") + "]%nat"
}

// modelListing converts the code of one function. ok=false when an instruction has no counterpart
// in the model (the program then is outside the listing comparison).
func modelListing(p *bbq.InstructionProgram, code []opcode.Instruction) (out string, ok bool) {
	// instructions without counterpart that do not change the modelled state are dropped and the
	// jump targets renumbered
	dropped := make([]bool, len(code))
	for i, ins := range code {
		switch ins.(type) {
		case opcode.InstructionUnreachable, opcode.InstructionBoxOptional:
			dropped[i] = true
		}
	}
	newIndex := make([]int, len(code)+1)
	n := 0
	for i := range code {
		newIndex[i] = n
		if !dropped[i] {
			n++
		}
	}
	newIndex[len(code)] = n
	tgt := func(t uint16) int {
		if int(t) <= len(code) {
			return newIndex[t]
		}
		return int(t)
	}
	global := func(g uint16) (string, bool) {
		if int(g) >= len(p.Globals) {
			return "", false
		}
		name := p.Globals[g].GetGlobalInfo().Name
		switch {
		case name == "log":
			return "FnLog", true
		case name == "main":
			return "(FnUser 0)", true
		case name == "S0":
			return "(FnCtor 0)", true
		case name == "S1":
			return "(FnCtor 1)", true
		case strings.HasPrefix(name, "p") && !strings.Contains(name, "."):
			return "FnProbe", true
		case strings.HasPrefix(name, "f") && !strings.Contains(name, "."):
			var k int
			if _, err := fmt.Sscanf(name, "f%d", &k); err == nil {
				return fmt.Sprintf("(FnUser %d)", k), true
			}
		}
		return "", false
	}
	var parts []string
	for i, ins := range code {
		if dropped[i] {
			continue
		}
		var s string
		switch x := ins.(type) {
		case opcode.InstructionStatement:
			s = "IStatement"
		case opcode.InstructionLoop:
			s = "ILoop"
		case opcode.InstructionGetConstant:
			c := p.Constants[x.Constant]
			switch d := c.Data.(type) {
			case *big.Int:
				s = "(IConst (VInt " + lib_Z(d) + "))"
			case interpreter.Int8Value:
				s = "(IConst (VInt " + lib_Z(big.NewInt(int64(d))) + "))"
			case interpreter.IntValue:
				s = "(IConst (VInt " + lib_Z(d.BigInt) + "))"
			case *interpreter.StringValue:
				s = "(IConst (VStr " + zlist(d.Str) + "))"
			case string:
				s = "(IConst (VStr " + zlist(d) + "))"
			default:
				return "", false
			}
		case opcode.InstructionTrue:
			s = "ITrue"
		case opcode.InstructionFalse:
			s = "IFalse"
		case opcode.InstructionNil:
			s = "INil"
		case opcode.InstructionVoid:
			s = "IVoid"
		case opcode.InstructionGetLocal:
			s = fmt.Sprintf("(IGetLocal %d)", x.Local)
		case opcode.InstructionSetLocal:
			s = fmt.Sprintf("(ISetLocal %d)", x.Local)
		case opcode.InstructionGetGlobal:
			g, ok := global(x.Global)
			if !ok {
				return "", false
			}
			s = "(IGetGlobal " + g + ")"
		case opcode.InstructionDup:
			s = "IDup"
		case opcode.InstructionDrop:
			s = "IDrop"
		case opcode.InstructionJump:
			s = fmt.Sprintf("(IJump %d)", tgt(x.Target))
		case opcode.InstructionJumpIfFalse:
			s = fmt.Sprintf("(IJumpIfFalse %d)", tgt(x.Target))
		case opcode.InstructionJumpIfTrue:
			s = fmt.Sprintf("(IJumpIfTrue %d)", tgt(x.Target))
		case opcode.InstructionJumpIfNil:
			s = fmt.Sprintf("(IJumpIfNil %d)", tgt(x.Target))
		case opcode.InstructionAdd:
			s = "(IBin BAdd)"
		case opcode.InstructionSubtract:
			s = "(IBin BSub)"
		case opcode.InstructionMultiply:
			s = "(IBin BMul)"
		case opcode.InstructionDivide:
			s = "(IBin BDiv)"
		case opcode.InstructionMod:
			s = "(IBin BMod)"
		case opcode.InstructionLess:
			s = "(IBin BLt)"
		case opcode.InstructionLessOrEqual:
			s = "(IBin BLe)"
		case opcode.InstructionGreater:
			s = "(IBin BGt)"
		case opcode.InstructionGreaterOrEqual:
			s = "(IBin BGe)"
		case opcode.InstructionEqual:
			s = "(IBin BEq)"
		case opcode.InstructionNotEqual:
			s = "(IBin BNe)"
		case opcode.InstructionUnwrap:
			s = "IUnwrap"
		case opcode.InstructionWrap:
			s = fmt.Sprintf("(IWrap %v)", x.SkipIfOptional)
		case opcode.InstructionTransfer:
			s = "ITransfer"
		case opcode.InstructionTransferAndConvert:
			s = fmt.Sprintf("(ITransferConv %d)", staticDepth(p.Types[x.TargetType]))
		case opcode.InstructionConvert:
			s = fmt.Sprintf("(IConvert %d)", staticDepth(p.Types[x.TargetType]))
		case opcode.InstructionNewArray:
			s = fmt.Sprintf("(INewArray %d)", x.Size)
		case opcode.InstructionNewDictionary:
			s = fmt.Sprintf("(INewDict %d)", x.Size)
		case opcode.InstructionGetIndex:
			s = "IGetIndex"
		case opcode.InstructionSetIndex:
			s = "ISetIndex"
		case opcode.InstructionRemoveIndex:
			s = fmt.Sprintf("(IRemoveIndex %v)", x.PushPlaceholder)
		case opcode.InstructionSame:
			s = "ISame"
		case opcode.InstructionGetField:
			name, _ := p.Constants[x.FieldName].Data.(string)
			fi, ok := fieldIndex[name]
			if !ok {
				return "", false
			}
			s = fmt.Sprintf("(IGetField %d)", fi)
		case opcode.InstructionSetField:
			name, _ := p.Constants[x.FieldName].Data.(string)
			fi, ok := fieldIndex[name]
			if !ok {
				return "", false
			}
			s = fmt.Sprintf("(ISetField %d)", fi)
		case opcode.InstructionInvoke:
			cs := make([]int, len(x.ParamTypes))
			for j, t := range x.ParamTypes {
				cs[j] = staticDepth(p.Types[t])
			}
			if len(x.ArgTypes) != len(x.ParamTypes) || x.HasImplicitArgument {
				return "", false
			}
			s = "(IInvoke " + natList(cs) + ")"
		case opcode.InstructionReturn:
			s = "IReturn"
		case opcode.InstructionReturnValue:
			s = "IReturnValue"
		case opcode.InstructionIterator:
			s = "IIterator"
		case opcode.InstructionIteratorHasNext:
			s = "IIterHasNext"
		case opcode.InstructionIteratorNext:
			s = "IIterNext"
		case opcode.InstructionIteratorEnd:
			s = "IIterEnd"
		default:
			return "", false
		}
		parts = append(parts, s)
	}
	return "[" + strings.Join(parts, "; ") + "]", true
}

func lib_Z(z *big.Int) string {
	if z.Sign() < 0 {
		return "(" + z.String() + ")"
	}
	return z.String()
}

// fragmentListings returns the Coq term `list (nat * code)` with the real listing of main and of
// the non-member helper functions, or "" when some instruction has no model counterpart.
func fragmentListings(p *bbq.InstructionProgram, prog *Prog) string {
	var parts []string
	for _, f := range prog.Fns {
		if f.Method {
			return ""
		}
		name := fmt.Sprintf("f%d", f.Idx)
		if f.Idx == 0 {
			name = "main"
		}
		code := listing(p, name)
		if code == nil {
			return ""
		}
		l, ok := modelListing(p, code)
		if !ok {
			return ""
		}
		parts = append(parts, fmt.Sprintf("(%d%%nat, %s)", f.Idx, l))
	}
	return "[" + strings.Join(parts, ";\n  ") + "]"
}
