package main

import (
	"fmt"
	"reflect"
	"strings"

	"github.com/onflow/cadence"
	"github.com/onflow/cadence/bbq/vm"
	"github.com/onflow/cadence/errors"
	"github.com/onflow/cadence/interpreter"
	"github.com/onflow/cadence/runtime"
	"github.com/onflow/cadence/sema"

	"cvh/lib"
)

// walk visits every error reachable through Unwrap() error / Unwrap() []error.
func walk(err error, f func(error) bool, depth int) bool {
	if err == nil || depth > 60 {
		return false
	}
	if f(err) {
		return true
	}
	switch u := err.(type) {
	case interface{ Unwrap() error }:
		return walk(u.Unwrap(), f, depth+1)
	case interface{ Unwrap() []error }:
		for _, e := range u.Unwrap() {
			if walk(e, f, depth+1) {
				return true
			}
		}
	}
	return false
}

// classify maps an execution error to the model's error class (constructor names of Prelude.err)
// plus a few harness-only classes for rejected programs.
func classify(err error) string {
	if err == nil {
		return ""
	}
	cls := ""
	walk(err, func(e error) bool {
		switch e.(type) {
		case *sema.CheckerError:
			cls = "CheckerError"
		case *interpreter.OverflowError:
			cls = lib.EOverflow
		case *interpreter.UnderflowError:
			cls = lib.EUnderflow
		case *interpreter.DivisionByZeroError:
			cls = lib.EDivZero
		case *interpreter.ArrayIndexOutOfBoundsError:
			cls = lib.EIndexOOB
		case *interpreter.ForceNilError:
			cls = lib.ETypeMism
		case *interpreter.ForceCastTypeMismatchError:
			cls = lib.ETypeMism
		case *interpreter.ConditionError:
			cls = lib.ECondFail
		case *interpreter.InvalidatedResourceReferenceError, *interpreter.InvalidatedResourceError:
			cls = lib.EInvalid
		case *interpreter.CallStackLimitExceededError:
			cls = lib.ELimitDepth
		}
		return cls != ""
	}, 0)
	if cls != "" {
		return cls
	}
	if strings.Contains(err.Error(), "Parsing failed") {
		return "ParseError"
	}
	if errors.IsInternalError(err) {
		return lib.EInternal
	}
	if errors.IsUserError(err) {
		return lib.EUserOther
	}
	if _, ok := err.(errors.ExternalError); ok {
		return lib.EHostFail
	}
	return lib.ECrash
}

// errKind is the "message kind": the Go type of the innermost Cadence error, used for
// engine-vs-engine comparison (finer than the class, but independent of message text/positions).
func errKind(err error) string {
	if err == nil {
		return ""
	}
	kind := ""
	walk(err, func(e error) bool {
		t := reflect.TypeOf(e)
		name := t.String()
		switch e.(type) {
		case runtime.Error, *runtime.Error, interpreter.Error, *interpreter.Error:
			return false
		}
		if strings.HasPrefix(name, "*interpreter.") || strings.HasPrefix(name, "interpreter.") ||
			strings.HasPrefix(name, "*stdlib.") || strings.HasPrefix(name, "stdlib.") ||
			strings.HasPrefix(name, "*sema.") || strings.HasPrefix(name, "*vm.") || strings.HasPrefix(name, "vm.") ||
			strings.HasPrefix(name, "errors.") || strings.HasPrefix(name, "*errors.") {
			kind = strings.TrimPrefix(name, "*")
		}
		return false // innermost wins
	}, 0)
	if kind == "" {
		kind = fmt.Sprintf("%T", err)
	}
	return kind
}

func exportDirect(m *vm.VM, v interpreter.Value) (cadence.Value, error) {
	return runtime.ExportValue(v, m.Context())
}
