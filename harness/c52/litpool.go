package main

// Literal-rich programs for C34: everything that goes through the compiler's constant pool.
// Each program draws its literals from a SMALL pool of spellings, so that the same digits recur with
// different signs and different contextual types (annotation, `as` cast, argument position, optional
// / AnyStruct target, array element, global constant, literal inside another function), and the same
// text recurs as String / Character / path / address literal. Every value is logged; the engines must
// log the same.

import (
	"fmt"
	"strings"

	"cvh/lib"
)

type litType struct {
	name     string
	signed   bool
	max      int64 // largest pool value that fits (pool values are small)
	fixed    bool
}

var litInts = []litType{
	{"Int", true, 1000, false}, {"Int8", true, 127, false}, {"Int16", true, 1000, false}, {"Int64", true, 1000, false},
	{"Int128", true, 1000, false}, {"Int256", true, 1000, false},
	{"UInt", false, 1000, false}, {"UInt8", false, 255, false}, {"UInt16", false, 1000, false}, {"UInt64", false, 1000, false},
	{"UInt128", false, 1000, false}, {"UInt256", false, 1000, false},
	{"Word8", false, 255, false}, {"Word16", false, 1000, false}, {"Word64", false, 1000, false}, {"Word128", false, 1000, false},
}
var litFixed = []litType{
	{"Fix64", true, 0, true}, {"UFix64", false, 0, true}, {"Fix128", true, 0, true}, {"UFix128", false, 0, true},
}
var intPool = []int64{0, 1, 2, 5, 100, 127}
var fixPool = []string{"0.0", "1.0", "2.5", "0.5", "100.25", "2.50", "1.00000001"}
var textPool = []string{"a", "b", "ab", ""}
var pathPool = []string{"a", "b", "ab"}
var addrPool = []string{"0x1", "0x01", "0x2", "0x0000000000000001"}

// one literal occurrence: a type and the literal text valid for it
func (g *litGen) pickNumeric(fixedBias bool) (litType, string) {
	r := g.r
	if fixedBias || r.Chance(1, 3) {
		t := g.fixedTypes[r.Intn(len(g.fixedTypes))]
		s := g.fixVals[r.Intn(len(g.fixVals))]
		if t.signed && r.Bool() {
			s = "-" + s
		}
		return t, s
	}
	t := g.intTypes[r.Intn(len(g.intTypes))]
	v := g.intVals[r.Intn(len(g.intVals))]
	if v > t.max {
		v = 1
	}
	s := fmt.Sprint(v)
	if t.signed && v != 0 && r.Bool() { // `-0` in a cast position is typed Int by the checker
		s = "-" + s
	}
	return t, s
}

type litGen struct {
	r          *lib.Rng
	intTypes   []litType
	fixedTypes []litType
	intVals    []int64
	fixVals    []string
	ids        map[string]bool
	decls      []string // helper functions / globals
	body       []string
	n          int
}

func pickSome[T any](r *lib.Rng, xs []T, n int) []T {
	var out []T
	for i := 0; i < n; i++ {
		out = append(out, xs[r.Intn(len(xs))])
	}
	return out
}

func (g *litGen) idFn(t string) string {
	name := "id" + strings.NewReplacer("?", "O", "[", "A", "]", "").Replace(t)
	if !g.ids[name] {
		g.ids[name] = true
		g.decls = append(g.decls, fmt.Sprintf("access(all) fun %s(_ x: %s): %s { return x }", name, t, t))
	}
	return name
}

// emit one statement that materialises literal `lit` at type `t`
func (g *litGen) emit(t, lit, lit2 string, arith bool) {
	g.n++
	v := fmt.Sprintf("v%d", g.n)
	r := g.r
	switch r.Intn(9) {
	case 0:
		g.body = append(g.body, fmt.Sprintf("let %s: %s = %s", v, t, lit))
	case 1:
		g.body = append(g.body, fmt.Sprintf("let %s = %s as %s", v, lit, t))
	case 2:
		g.body = append(g.body, fmt.Sprintf("let %s = %s(%s)", v, g.idFn(t), lit))
	case 3:
		g.body = append(g.body, fmt.Sprintf("let %s: %s? = %s", v, t, lit))
	case 4:
		g.body = append(g.body, fmt.Sprintf("let %s: [%s] = [%s, %s]", v, t, lit, lit2))
	case 5:
		// literal in another function of the same program
		fn := fmt.Sprintf("k%d", g.n)
		g.decls = append(g.decls, fmt.Sprintf("access(all) fun %s(): %s { return %s }", fn, t, lit))
		g.body = append(g.body, fmt.Sprintf("let %s = %s()", v, fn))
	case 6:
		// global constant (compiled as a getter of the same program)
		gl := fmt.Sprintf("g%d", g.n)
		g.decls = append(g.decls, fmt.Sprintf("access(all) let %s: %s = %s", gl, t, lit))
		g.body = append(g.body, fmt.Sprintf("let %s = %s", v, gl))
	case 7:
		g.body = append(g.body, fmt.Sprintf("let %s: AnyStruct = %s as %s", v, lit, t))
	default:
		if arith {
			g.body = append(g.body, fmt.Sprintf("let %s: %s = %s + %s", v, t, lit, lit2))
		} else {
			g.body = append(g.body, fmt.Sprintf("let %s: {String: %s} = {\"k\": %s}", v, t, lit))
		}
	}
	g.body = append(g.body, fmt.Sprintf("log(%s)", v))
}

func litProgram(r *lib.Rng) (string, string) {
	g := &litGen{r: r, ids: map[string]bool{}}
	kind := lib.Pick(r, []string{"fixed", "fixed", "ints", "mixed", "text"})
	// small per-program pools
	g.intTypes = pickSome(r, litInts, 3)
	g.fixedTypes = pickSome(r, litFixed, 2)
	if kind == "fixed" && r.Bool() {
		g.fixedTypes = []litType{litFixed[0], litFixed[2]}[r.Intn(2) : r.Intn(2)+1]
		g.fixedTypes = append(g.fixedTypes, litFixed[r.Intn(4)])
	}
	g.intVals = pickSome(r, intPool, 2)
	g.fixVals = pickSome(r, fixPool, 2)
	n := 8 + r.Intn(8)
	for i := 0; i < n; i++ {
		switch {
		case kind == "text" || (kind == "mixed" && r.Chance(1, 3)):
			s := lib.Pick(r, textPool)
			switch r.Intn(5) {
			case 0:
				g.emit("String", strLit(s), strLit(lib.Pick(r, textPool)), false)
			case 1:
				if len(s) == 1 {
					g.emit("Character", strLit(s), strLit("b"), false)
				} else {
					g.emit("String", strLit(s), strLit("a"), false)
				}
			case 2:
				p := lib.Pick(r, pathPool)
				dom := lib.Pick(r, []string{"storage", "public"})
				ty := map[string]string{"storage": "StoragePath", "public": "PublicPath"}[dom]
				if r.Bool() {
					ty = "Path"
				}
				g.emit(ty, "/"+dom+"/"+p, "/"+dom+"/"+lib.Pick(r, pathPool), false)
			case 3:
				g.emit("Address", lib.Pick(r, addrPool), lib.Pick(r, addrPool), false)
			default:
				t, l := g.pickNumeric(false)
				_, l2 := g.pickNumericOf(t)
				g.emit(t.name, l, l2, false)
			}
		default:
			t, l := g.pickNumeric(kind == "fixed")
			_, l2 := g.pickNumericOf(t)
			g.emit(t.name, l, l2, true)
		}
	}
	src := strings.Join(g.decls, "\n") + "\naccess(all) fun main(): Int {\n    " + strings.Join(g.body, "\n    ") +
		fmt.Sprintf("\n    return %d\n}", g.n)
	return "literal-pool:" + kind, src
}

// a second literal valid for the given type (for array elements / sums)
func (g *litGen) pickNumericOf(t litType) (litType, string) {
	r := g.r
	if t.fixed {
		s := g.fixVals[r.Intn(len(g.fixVals))]
		if t.signed && r.Bool() {
			s = "-" + s
		}
		return t, s
	}
	v := g.intVals[r.Intn(len(g.intVals))]
	if v > t.max {
		v = 1
	}
	s := fmt.Sprint(v)
	if t.signed && v != 0 && r.Bool() { // `-0` in a cast position is typed Int by the checker
		s = "-" + s
	}
	return t, s
}
