package main

// MiniCadence AST with two printers: Cadence source (run by the real engines) and a Coq term of
// coq/theories/MC/Syntax.v (run by the model).

import (
	"fmt"
	"strings"
)

// ---------------------------------------------------------------- types

type Kind int

const (
	KInt Kind = iota
	KBool
	KStr
	KOpt
	KArr
	KDict
	KStruct
	KVoid
)

type Ty struct {
	K   Kind
	E   *Ty // element / wrapped / dictionary value
	Key *Ty
	Sid int
}

var (
	TInt  = &Ty{K: KInt}
	TBool = &Ty{K: KBool}
	TStr  = &Ty{K: KStr}
	TVoid = &Ty{K: KVoid}
)

func Opt(t *Ty) *Ty      { return &Ty{K: KOpt, E: t} }
func Arr(t *Ty) *Ty      { return &Ty{K: KArr, E: t} }
func Dict(k, v *Ty) *Ty  { return &Ty{K: KDict, Key: k, E: v} }
func StructT(s int) *Ty  { return &Ty{K: KStruct, Sid: s} }
func (t *Ty) Eq(u *Ty) bool { return t.Src() == u.Src() }

func (t *Ty) Src() string {
	switch t.K {
	case KInt:
		return "Int8"
	case KBool:
		return "Bool"
	case KStr:
		return "String"
	case KOpt:
		return t.E.Src() + "?"
	case KArr:
		return "[" + t.E.Src() + "]"
	case KDict:
		return "{" + t.Key.Src() + ": " + t.E.Src() + "}"
	case KStruct:
		return structs[t.Sid].Name
	case KVoid:
		return "Void"
	}
	panic("ty")
}

func (t *Ty) Mangle() string {
	switch t.K {
	case KInt:
		return "I"
	case KBool:
		return "B"
	case KStr:
		return "T"
	case KOpt:
		return "O" + t.E.Mangle()
	case KArr:
		return "A" + t.E.Mangle()
	case KDict:
		return "D" + t.Key.Mangle() + t.E.Mangle()
	case KStruct:
		return structs[t.Sid].Name
	}
	panic("ty")
}

// Depth is the optional depth of the type (the `conv` annotation of the model).
func (t *Ty) Depth() int {
	d := 0
	for t.K == KOpt {
		d++
		t = t.E
	}
	return d
}

type Field struct {
	Name string
	T    *Ty
}

type StructDef struct {
	Name   string
	Fields []Field
}

// the fixed struct declarations available to generated programs
var structs = []StructDef{
	{Name: "S0", Fields: []Field{{"a", TInt}, {"b", Arr(TInt)}, {"c", Opt(TInt)}}},
	{Name: "S1", Fields: nil}, // filled in init (refers to S0)
}

func init() {
	structs[1].Fields = []Field{{"s", StructT(0)}, {"n", TInt}, {"o", Opt(StructT(0))}}
}

func (s StructDef) Src(methods string) string {
	var b strings.Builder
	fmt.Fprintf(&b, "access(all) struct %s {\n", s.Name)
	for _, f := range s.Fields {
		fmt.Fprintf(&b, "    access(all) var %s: %s\n", f.Name, f.T.Src())
	}
	b.WriteString("    init(")
	for i, f := range s.Fields {
		if i > 0 {
			b.WriteString(", ")
		}
		fmt.Fprintf(&b, "%s: %s", f.Name, f.T.Src())
	}
	b.WriteString(") {")
	for _, f := range s.Fields {
		fmt.Fprintf(&b, " self.%s = %s;", f.Name, f.Name)
	}
	b.WriteString(" }\n")
	b.WriteString(methods)
	b.WriteString("}\n")
	return b.String()
}

// ---------------------------------------------------------------- expressions

type E struct {
	Op    string // int bool str nil var bin and or coal cond force arr dict index member optmember call
	Z     int64
	B     bool
	S     string
	X     *Var
	Bop   string // + - * / % < <= > >= == !=
	A, Bx, C *E
	Es    []*E
	Convs []int
	Conv  int
	Sid   int // member: struct id
	F     int // member: field index
	Fn    string // call: "user" "log" "probe" "ctor"
	FnIdx int    // user function index / struct id
	PT    *Ty    // probe value type
	Labels []string
}

type Var struct {
	Name string
	Id   int
	T    *Ty
	Mut  bool // declared with var and assignable by generated code
	Loop bool // loop counter / loop variable (never shadowed, never assigned by generated statements)
}

var bopCoq = map[string]string{"+": "BAdd", "-": "BSub", "*": "BMul", "/": "BDiv", "%": "BMod",
	"<": "BLt", "<=": "BLe", ">": "BGt", ">=": "BGe", "==": "BEq", "!=": "BNe"}

func strLit(s string) string { return "\"" + s + "\"" }

func zlist(s string) string {
	parts := make([]string, 0, len(s))
	for _, r := range s {
		parts = append(parts, fmt.Sprint(int(r)))
	}
	return "[" + strings.Join(parts, ";") + "]"
}

func zlit(z int64) string {
	if z < 0 {
		return fmt.Sprintf("(%d)", z)
	}
	return fmt.Sprint(z)
}

func (e *E) Src() string {
	switch e.Op {
	case "int":
		return fmt.Sprint(e.Z)
	case "bool":
		return fmt.Sprint(e.B)
	case "str":
		return strLit(e.S)
	case "nil":
		return "nil"
	case "var":
		return e.X.Name
	case "bin":
		return "(" + e.A.Src() + " " + e.Bop + " " + e.Bx.Src() + ")"
	case "and":
		return "(" + e.A.Src() + " && " + e.Bx.Src() + ")"
	case "or":
		return "(" + e.A.Src() + " || " + e.Bx.Src() + ")"
	case "coal":
		return "(" + e.A.Src() + " ?? " + e.Bx.Src() + ")"
	case "cond":
		return "(" + e.C.Src() + " ? " + e.A.Src() + " : " + e.Bx.Src() + ")"
	case "force":
		return e.A.Src() + "!"
	case "arr":
		ps := make([]string, len(e.Es))
		for i, x := range e.Es {
			ps[i] = x.Src()
		}
		return "[" + strings.Join(ps, ", ") + "]"
	case "dict":
		ps := make([]string, 0, len(e.Es)/2)
		for i := 0; i+1 < len(e.Es); i += 2 {
			ps = append(ps, e.Es[i].Src()+": "+e.Es[i+1].Src())
		}
		return "{" + strings.Join(ps, ", ") + "}"
	case "index":
		return e.A.Src() + "[" + e.Bx.Src() + "]"
	case "member":
		return e.A.Src() + "." + structs[e.Sid].Fields[e.F].Name
	case "optmember":
		return e.A.Src() + "?." + structs[e.Sid].Fields[e.F].Name
	case "call":
		ps := make([]string, len(e.Es))
		for i, x := range e.Es {
			ps[i] = x.Src()
			if i < len(e.Labels) && e.Labels[i] != "" {
				ps[i] = e.Labels[i] + ": " + ps[i]
			}
		}
		if e.Fn == "method" {
			return fmt.Sprintf("%s.f%d(%s)", ps[0], e.FnIdx, strings.Join(ps[1:], ", "))
		}
		var name string
		switch e.Fn {
		case "user":
			name = fmt.Sprintf("f%d", e.FnIdx)
		case "log":
			name = "log"
		case "probe":
			name = "p" + e.PT.Mangle()
		case "ctor":
			name = structs[e.FnIdx].Name
		}
		return name + "(" + strings.Join(ps, ", ") + ")"
	}
	panic("expr op " + e.Op)
}

func exprsCoq(es []*E, convs []int) string {
	var b strings.Builder
	for i, x := range es {
		c := 0
		if i < len(convs) {
			c = convs[i]
		}
		fmt.Fprintf(&b, "(EMore %s %d ", x.Coq(), c)
	}
	b.WriteString("ENone")
	b.WriteString(strings.Repeat(")", len(es)))
	return b.String()
}

func (e *E) Coq() string {
	switch e.Op {
	case "int":
		return "(EInt " + zlit(e.Z) + ")"
	case "bool":
		return fmt.Sprintf("(EBool %v)", e.B)
	case "str":
		return "(EStr " + zlist(e.S) + ")"
	case "nil":
		return "ENil"
	case "var":
		return fmt.Sprintf("(EVar %d)", e.X.Id)
	case "bin":
		return "(EBin " + bopCoq[e.Bop] + " " + e.A.Coq() + " " + e.Bx.Coq() + ")"
	case "and":
		return "(EAnd " + e.A.Coq() + " " + e.Bx.Coq() + ")"
	case "or":
		return "(EOr " + e.A.Coq() + " " + e.Bx.Coq() + ")"
	case "coal":
		return fmt.Sprintf("(ECoalesce %s %s %d)", e.A.Coq(), e.Bx.Coq(), e.Conv)
	case "cond":
		return "(ECond " + e.C.Coq() + " " + e.A.Coq() + " " + e.Bx.Coq() + ")"
	case "force":
		return "(EForce " + e.A.Coq() + ")"
	case "arr":
		return "(EArr " + exprsCoq(e.Es, e.Convs) + ")"
	case "dict":
		return "(EDict " + exprsCoq(e.Es, e.Convs) + ")"
	case "index":
		return "(EIndex " + e.A.Coq() + " " + e.Bx.Coq() + ")"
	case "member":
		return fmt.Sprintf("(EMember %s %d)", e.A.Coq(), e.F)
	case "optmember":
		return fmt.Sprintf("(EOptMember %s %d)", e.A.Coq(), e.F)
	case "call":
		var f string
		switch e.Fn {
		case "user", "method":
			f = fmt.Sprintf("(FnUser %d)", e.FnIdx)
		case "log":
			f = "FnLog"
		case "probe":
			f = "FnProbe"
		case "ctor":
			f = fmt.Sprintf("(FnCtor %d)", e.FnIdx)
		}
		return "(ECall " + f + " " + exprsCoq(e.Es, e.Convs) + ")"
	}
	panic("expr op " + e.Op)
}

// ---------------------------------------------------------------- statements

type T struct { // assignment target
	Op  string // var index member
	X   *Var
	A, I *E
	Sid, F int
	Dict bool // index step into a dictionary
}

func (t *T) Src() string {
	switch t.Op {
	case "var":
		return t.X.Name
	case "index":
		return t.A.Src() + "[" + t.I.Src() + "]"
	case "member":
		return t.A.Src() + "." + structs[t.Sid].Fields[t.F].Name
	}
	panic("target")
}

func (t *T) Coq() string {
	switch t.Op {
	case "var":
		return fmt.Sprintf("(TVar %d)", t.X.Id)
	case "index":
		return "(TIndex " + t.A.Coq() + " " + t.I.Coq() + ")"
	case "member":
		return fmt.Sprintf("(TMember %s %d)", t.A.Coq(), t.F)
	}
	panic("target")
}

type S struct {
	Op     string // let assign swap if while for break continue return expr
	X      *Var
	Conv   int
	Ex     *E
	T1, T2 *T
	B1, B2 []*S
	HasElse bool
	IsVar  bool // let vs var
}

func blockSrc(b []*S, ind string) string {
	var sb strings.Builder
	for _, s := range b {
		sb.WriteString(s.Src(ind))
	}
	return sb.String()
}

func (s *S) Src(ind string) string {
	in2 := ind + "    "
	switch s.Op {
	case "let":
		kw := "let"
		if s.IsVar {
			kw = "var"
		}
		return fmt.Sprintf("%s%s %s: %s = %s\n", ind, kw, s.X.Name, s.X.T.Src(), s.Ex.Src())
	case "assign":
		return fmt.Sprintf("%s%s = %s\n", ind, s.T1.Src(), s.Ex.Src())
	case "swap":
		return fmt.Sprintf("%s%s <-> %s\n", ind, s.T1.Src(), s.T2.Src())
	case "if":
		r := fmt.Sprintf("%sif %s {\n%s%s}", ind, s.Ex.Src(), blockSrc(s.B1, in2), ind)
		if s.HasElse {
			r += fmt.Sprintf(" else {\n%s%s}", blockSrc(s.B2, in2), ind)
		}
		return r + "\n"
	case "while":
		return fmt.Sprintf("%swhile %s {\n%s%s}\n", ind, s.Ex.Src(), blockSrc(s.B1, in2), ind)
	case "for":
		return fmt.Sprintf("%sfor %s in %s {\n%s%s}\n", ind, s.X.Name, s.Ex.Src(), blockSrc(s.B1, in2), ind)
	case "break":
		return ind + "break\n"
	case "continue":
		return ind + "continue\n"
	case "return":
		if s.Ex == nil {
			return ind + "return\n"
		}
		return ind + "return " + s.Ex.Src() + "\n"
	case "expr":
		return ind + s.Ex.Src() + "\n"
	}
	panic("stmt")
}

func blockCoq(b []*S) string {
	var sb strings.Builder
	for _, s := range b {
		sb.WriteString("(BCons " + s.Coq() + " ")
	}
	sb.WriteString("BNil")
	sb.WriteString(strings.Repeat(")", len(b)))
	return sb.String()
}

func (s *S) Coq() string {
	switch s.Op {
	case "let":
		return fmt.Sprintf("(SLet %d %d %s)", s.X.Id, s.Conv, s.Ex.Coq())
	case "assign":
		return fmt.Sprintf("(SAssign %s %d %s)", s.T1.Coq(), s.Conv, s.Ex.Coq())
	case "swap":
		return fmt.Sprintf("(SSwap %s %s %d)", s.T1.Coq(), s.T2.Coq(), s.Conv)
	case "if":
		el := "None"
		if s.HasElse {
			el = "(Some " + blockCoq(s.B2) + ")"
		}
		return "(SIf " + s.Ex.Coq() + " " + blockCoq(s.B1) + " " + el + ")"
	case "while":
		return "(SWhile " + s.Ex.Coq() + " " + blockCoq(s.B1) + ")"
	case "for":
		return fmt.Sprintf("(SFor %d %d %s %s)", s.X.Id, s.Conv, s.Ex.Coq(), blockCoq(s.B1))
	case "break":
		return "SBreak"
	case "continue":
		return "SContinue"
	case "return":
		if s.Ex == nil {
			return "(SReturn None)"
		}
		return fmt.Sprintf("(SReturn (Some (%d%%nat, %s)))", s.Conv, s.Ex.Coq())
	case "expr":
		return "(SExpr " + s.Ex.Coq() + ")"
	}
	panic("stmt")
}

// ---------------------------------------------------------------- programs

type Fn struct {
	Idx    int
	Params []*Var // for a member function of S0, Params[0] stands for the receiver (unused by the body)
	Ret    *Ty
	Body   []*S
	Method bool
}

type Prog struct {
	Fns    []*Fn            // Fns[0] = main
	Probes map[string]*Ty   // probe value types used
	ProbeOrder []string
	Tags   map[string]int   // syntactic forms used (distribution)
	NProbe int
}

func (f *Fn) Src() string {
	name := fmt.Sprintf("f%d", f.Idx)
	if f.Idx == 0 {
		name = "main"
	}
	params := f.Params
	if f.Method {
		params = params[1:]
	}
	ps := make([]string, len(params))
	for i, p := range params {
		ps[i] = fmt.Sprintf("%s: %s", p.Name, p.T.Src())
	}
	ret := ""
	if f.Ret.K != KVoid {
		ret = ": " + f.Ret.Src()
	}
	return fmt.Sprintf("access(all) fun %s(%s)%s {\n%s}\n", name, strings.Join(ps, ", "), ret, blockSrc(f.Body, "    "))
}

func (p *Prog) Src() string {
	var b strings.Builder
	for i, s := range structs {
		ms := ""
		if i == 0 {
			for _, f := range p.Fns {
				if f.Method {
					ms += f.Src()
				}
			}
		}
		b.WriteString(s.Src(ms))
	}
	for _, m := range p.ProbeOrder {
		t := p.Probes[m]
		fmt.Fprintf(&b, "access(all) fun p%s(_ k: Int, _ v: %s): %s { log(k); return v }\n", m, t.Src(), t.Src())
	}
	// helper functions first, main last (order is irrelevant to Cadence)
	for i := 1; i < len(p.Fns); i++ {
		if !p.Fns[i].Method {
			b.WriteString(p.Fns[i].Src())
		}
	}
	b.WriteString(p.Fns[0].Src())
	return b.String()
}

func (p *Prog) Coq() string {
	var b strings.Builder
	b.WriteString("[")
	for i, f := range p.Fns {
		if i > 0 {
			b.WriteString("; ")
		}
		ids := make([]string, len(f.Params))
		for j, v := range f.Params {
			ids[j] = fmt.Sprint(v.Id)
		}
		fmt.Fprintf(&b, "mkFun [%s]%%nat %s", strings.Join(ids, ";"), blockCoq(f.Body))
	}
	b.WriteString("]")
	return b.String()
}
