package main

// Direct use of the bbq compiler and VM (not through runtime.Runtime): needed because the
// runtime does not expose the compiler's PeepholeOptimizationsEnabled switch, and to obtain the
// instruction listing of compiled functions.

import (
	"fmt"

	"github.com/onflow/cadence/activations"
	"github.com/onflow/cadence/bbq"
	"github.com/onflow/cadence/bbq/compiler"
	"github.com/onflow/cadence/bbq/opcode"
	"github.com/onflow/cadence/bbq/vm"
	"github.com/onflow/cadence/common"
	"github.com/onflow/cadence/interpreter"
	"github.com/onflow/cadence/parser"
	"github.com/onflow/cadence/sema"
	"github.com/onflow/cadence/stdlib"
	ru "github.com/onflow/cadence/test_utils/runtime_utils"

	"cvh/lib"
)

var directLocation = common.ScriptLocation{0x77}

type directProgram struct {
	Program *bbq.InstructionProgram
	Elab    *compiler.DesugaredElaboration
}

// compileDirect parses, checks and compiles a self-contained script (only `log` and `panic` as
// extra builtins).
func compileDirect(src string, peephole bool) (dp *directProgram, err error) {
	defer func() {
		if r := recover(); r != nil {
			err = fmt.Errorf("compile panic: %v", r)
		}
	}()
	program, err := parser.ParseProgram(nil, []byte(src), parser.Config{})
	if err != nil {
		return nil, err
	}
	activation := sema.NewVariableActivation(sema.BaseValueActivation)
	activation.DeclareValue(stdlib.VMPanicFunction)
	activation.DeclareValue(stdlib.VMAssertFunction)
	activation.DeclareValue(stdlib.NewVMLogFunction(nil))
	checker, err := sema.NewChecker(program, directLocation, nil, &sema.Config{
		AccessCheckMode:            sema.AccessCheckModeStrict,
		ExtendedElaborationEnabled: true,
		BaseValueActivationHandler: func(common.Location) *sema.VariableActivation { return activation },
	})
	if err != nil {
		return nil, err
	}
	if err = checker.Check(); err != nil {
		return nil, err
	}
	cfg := &compiler.Config{
		PeepholeOptimizationsEnabled: peephole,
		BuiltinGlobalsProvider: func(common.Location) *activations.Activation[compiler.GlobalImport] {
			a := activations.NewActivation(nil, compiler.DefaultBuiltinGlobals())
			a.Set(stdlib.LogFunctionName, compiler.NewGlobalImport(stdlib.LogFunctionName))
			a.Set(stdlib.PanicFunctionName, compiler.NewGlobalImport(stdlib.PanicFunctionName))
			a.Set(stdlib.AssertFunctionName, compiler.NewGlobalImport(stdlib.AssertFunctionName))
			return a
		},
	}
	comp := compiler.NewInstructionCompilerWithConfig(interpreter.ProgramFromChecker(checker), checker.Location, cfg)
	p := comp.Compile()
	return &directProgram{Program: p, Elab: comp.DesugaredElaboration}, nil
}

// runDirect executes `main` of a compiled script on a fresh VM and in-memory storage.
func runDirect(dp *directProgram) (o lib.Outcome) {
	var logs []string
	storage := interpreter.NewInMemoryStorage(nil, nil)
	cfg := vm.NewConfig(storage)
	var uuid uint64
	cfg.UUIDHandler = func() (uint64, error) { uuid++; return uuid, nil }
	logFn := stdlib.NewVMLogFunction(stdlib.FunctionLogger(func(m string) error { logs = append(logs, m); return nil }))
	cfg.BuiltinGlobalsProvider = func(common.Location) *activations.Activation[vm.Variable] {
		a := activations.NewActivation(nil, vm.DefaultBuiltinGlobals())
		lv := &interpreter.SimpleVariable{}
		lv.InitializeWithValue(logFn.Value)
		a.Set(stdlib.LogFunctionName, lv)
		pv := &interpreter.SimpleVariable{}
		pv.InitializeWithValue(stdlib.VMPanicFunction.Value)
		a.Set(stdlib.PanicFunctionName, pv)
		av := &interpreter.SimpleVariable{}
		av.InitializeWithValue(stdlib.VMAssertFunction.Value)
		a.Set(stdlib.AssertFunctionName, av)
		return a
	}
	cfg.ElaborationResolver = func(common.Location) (*sema.Elaboration, error) {
		return dp.Elab.OriginalElaboration(), nil
	}
	cfg.CompositeTypeHandler = func(location common.Location, typeID interpreter.TypeID) *sema.CompositeType {
		return dp.Elab.OriginalElaboration().CompositeType(typeID)
	}
	cfg.InterfaceTypeHandler = func(location common.Location, typeID interpreter.TypeID) *sema.InterfaceType {
		return dp.Elab.OriginalElaboration().InterfaceType(typeID)
	}
	func() {
		defer func() {
			if r := recover(); r != nil {
				if e, ok := r.(error); ok {
					o.Err = e
					o.Class = classify(e)
				} else {
					o.Panic = r
					o.Class = lib.ECrash
				}
			}
		}()
		m := vm.NewVM(directLocation, dp.Program, cfg)
		v, err := m.InvokeExternally("main")
		if err != nil {
			o.Err = err
			o.Class = classify(err)
			return
		}
		if v != nil {
			ev, err := exportDirect(m, v)
			if err != nil {
				o.Err = err
				o.Class = "ExportError"
				return
			}
			o.Value = ev
		}
	}()
	o.Logs = logs
	return
}

var _ = ru.NewTestLedger

// listing returns the instructions of the named function.
func listing(p *bbq.InstructionProgram, name string) []opcode.Instruction {
	for _, f := range p.Functions {
		if f.QualifiedName == name {
			return f.Code
		}
	}
	return nil
}

func printProgram(p *bbq.InstructionProgram) string {
	return bbq.NewInstructionsProgramPrinter(true, false, false).PrintProgram(p)
}
