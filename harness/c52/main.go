// Command c52: correspondence harness for C52 (evaluation order / short-circuiting) and
// C34 (bytecode VM observationally equivalent to the interpreter).
//
// It generates MiniCadence programs twice (Cadence source + Coq term of coq/theories/MC/Syntax.v),
// runs the source in both real engines (lib.Host.RunScript vm=false/true) and writes Coq case
// files holding the term and the observed outcomes; the Coq model (proved to satisfy the
// property theorems) is evaluated on them by the driver.
package main

import (
	"flag"
	"fmt"
	"os"
	"path/filepath"
	"regexp"
	"sort"
	"strconv"
	"strings"

	"github.com/onflow/cadence"

	"cvh/lib"
)

var (
	prop   = flag.String("prop", "C52", "property id")
	seed   = flag.Uint64("seed", 1, "seed")
	tier   = flag.String("tier", "quick", "quick|thorough")
	dir    = flag.String("dir", ".", "output directory")
	dump   = flag.Int("dump", 0, "print N generated programs and their outcomes, then exit")
	corpus = flag.String("corpus", "", "corpus directory (default: ../corpus/<prop> relative to the harness)")
	runF   = flag.String("run", "", "run one .cdc file in both engines (and directly compiled, with listing), then exit")
)

func main() {
	flag.Parse()
	if *dump > 0 {
		dumpPrograms(*dump)
		return
	}
	if *runF != "" {
		runFile(*runF)
		return
	}
	sum := &lib.Summary{}
	switch *prop {
	case "C52":
		c52(sum)
	case "C34":
		c34(sum)
	default:
		fmt.Fprintln(os.Stderr, "unknown prop", *prop)
		os.Exit(2)
	}
	sum.Write(*dir)
}

// ---------------------------------------------------------------- program generation entry

var paramTypes = []*Ty{TInt, TInt, TBool, Opt(TInt), Arr(TInt), StructT(0), TStr}
var retTypes = []*Ty{TInt, TInt, TInt, TBool, Opt(TInt), Arr(TInt), StructT(0), Dict(TInt, TInt), TStr, Arr(Arr(TInt)), Opt(StructT(0))}

func (g *G) genFn(idx int, method bool, depth, nstmt int) *Fn {
	f := &Fn{Idx: idx, Method: method}
	g.fn = f
	g.inS0 = method
	g.scopes = nil
	g.loops = 0
	g.push()
	if idx != 0 {
		if method {
			g.nvar++
			f.Params = append(f.Params, &Var{Name: "_self", Id: g.nvar, T: StructT(0)})
		}
		np := g.r.Intn(3)
		if method && np == 0 {
			np = 1
		}
		for i := 0; i < np; i++ {
			g.nvar++
			t := paramTypes[g.r.Intn(len(paramTypes))]
			if method && i == 0 {
				t = StructT(0)
			}
			v := &Var{Name: fmt.Sprintf("v%d", g.nvar), Id: g.nvar, T: t}
			f.Params = append(f.Params, v)
			g.declare(v)
		}
	}
	f.Ret = retTypes[g.r.Intn(len(retTypes))]
	if idx != 0 && g.r.Chance(1, 8) {
		f.Ret = TVoid
	}
	g.push()
	var body []*S
	for i := 0; i < nstmt; i++ {
		body = append(body, g.stmts(depth)...)
	}
	if f.Ret.K != KVoid || g.r.Bool() {
		body = append(body, g.ret(depth))
	}
	g.pop()
	g.pop()
	f.Body = body
	return f
}

func genProgram(r *lib.Rng, big bool) *Prog {
	p := &Prog{Probes: map[string]*Ty{}, Tags: map[string]int{}}
	g := &G{r: r, p: p, methods: map[int]bool{}}
	nf := r.Intn(3)
	depth := 2
	if big || r.Chance(1, 3) {
		depth = 3
	}
	p.Fns = make([]*Fn, nf+1)
	for i := 1; i <= nf; i++ {
		method := r.Chance(1, 3)
		g.methods[i] = method
		p.Fns[i] = g.genFn(i, method, depth-1, 1+r.Intn(3))
		g.fns = append(g.fns, p.Fns[i])
	}
	n := 3 + r.Intn(5)
	if big {
		n += 4
	}
	p.Fns[0] = g.genFn(0, false, depth, n)
	return p
}

// ---------------------------------------------------------------- observed outcomes as Coq terms

// script/transaction locations differ from run to run and are not an observable
var locRe = regexp.MustCompile(`\b[st]\.[0-9a-f]{64}\.`)

var coqErr = map[string]bool{"Overflow": true, "Underflow": true, "DivZero": true, "NegShift": true, "IndexOOB": true,
	"TypeMismatch": true, "CondFail": true, "Invalidated": true, "LimitComputation": true, "LimitMemory": true,
	"LimitDepth": true, "UserOther": true, "HostFail": true, "Internal": true, "Crash": true}

func xvalOf(v cadence.Value) string {
	switch x := v.(type) {
	case nil:
		return "XVoid"
	case cadence.Void:
		return "XVoid"
	case cadence.Int8:
		return "(XInt " + zlit(int64(x)) + ")"
	case cadence.Int:
		return "(XInt " + lib.Z(x.Big()) + ")"
	case cadence.Bool:
		return fmt.Sprintf("(XBool %v)", bool(x))
	case cadence.String:
		return "(XStr " + zlist(string(x)) + ")"
	case cadence.Optional:
		if x.Value == nil {
			return "XNil"
		}
		return "(XSome " + xvalOf(x.Value) + ")"
	case cadence.Array:
		ps := make([]string, len(x.Values))
		for i, e := range x.Values {
			ps[i] = xvalOf(e)
		}
		return "(XArr [" + strings.Join(ps, ";") + "])"
	case cadence.Dictionary:
		ps := make([]string, len(x.Pairs))
		for i, kv := range x.Pairs {
			ps[i] = "(" + xvalOf(kv.Key) + "," + xvalOf(kv.Value) + ")"
		}
		sort.Strings(ps)
		return "(XDict [" + strings.Join(ps, ";") + "])"
	case cadence.Struct:
		sid := -1
		for i, s := range structs {
			if x.StructType != nil && x.StructType.QualifiedIdentifier == s.Name {
				sid = i
			}
		}
		if sid < 0 {
			return "XOpaque"
		}
		fields := cadence.FieldsMappedByName(x)
		ps := make([]string, len(structs[sid].Fields))
		for i, f := range structs[sid].Fields {
			ps[i] = xvalOf(fields[f.Name])
		}
		return fmt.Sprintf("(XStruct %d [%s])", sid, strings.Join(ps, ";"))
	}
	return "XOpaque"
}

// canonValue renders an exported value canonically: dictionary entries sorted by key text (entry
// order is not an observable), run-specific script/transaction locations removed.
func canonValue(v cadence.Value) string {
	switch x := v.(type) {
	case nil:
		return "<nil>"
	case cadence.Optional:
		if x.Value == nil {
			return "nil"
		}
		return "some(" + canonValue(x.Value) + ")"
	case cadence.Array:
		ps := make([]string, len(x.Values))
		for i, e := range x.Values {
			ps[i] = canonValue(e)
		}
		return "[" + strings.Join(ps, ", ") + "]"
	case cadence.Dictionary:
		ps := make([]string, len(x.Pairs))
		for i, kv := range x.Pairs {
			ps[i] = canonValue(kv.Key) + ": " + canonValue(kv.Value)
		}
		sort.Strings(ps)
		return "{" + strings.Join(ps, ", ") + "}"
	case cadence.Struct:
		return canonComposite(x.StructType.ID(), cadence.FieldsMappedByName(x))
	case cadence.Resource:
		return canonComposite(x.ResourceType.ID(), cadence.FieldsMappedByName(x))
	case cadence.Event:
		return canonComposite(x.EventType.ID(), cadence.FieldsMappedByName(x))
	}
	return locRe.ReplaceAllString(v.String(), "")
}

func canonComposite(id string, fields map[string]cadence.Value) string {
	names := make([]string, 0, len(fields))
	for n := range fields {
		names = append(names, n)
	}
	sort.Strings(names)
	ps := make([]string, len(names))
	for i, n := range names {
		ps[i] = n + ": " + canonValue(fields[n])
	}
	return locRe.ReplaceAllString(id, "") + "(" + strings.Join(ps, ", ") + ")"
}

func xvalOfLog(s string) string {
	if z, err := strconv.ParseInt(s, 10, 64); err == nil {
		return "(XInt " + zlit(z) + ")"
	}
	switch s {
	case "true":
		return "(XBool true)"
	case "false":
		return "(XBool false)"
	case "nil":
		return "XNil"
	}
	if len(s) >= 2 && s[0] == '"' && s[len(s)-1] == '"' {
		return "(XStr " + zlist(s[1:len(s)-1]) + ")"
	}
	return "XOpaque"
}

type observed struct {
	Class  string
	Kind   string
	Value  string // canonical text of the result value
	Logs   []string
	Events []string
	coqRes string
}

func observe(o lib.Outcome) observed {
	ob := observed{Class: classify(o.Err), Kind: errKind(o.Err), Logs: o.Logs}
	if o.Panic != nil {
		ob.Class = lib.ECrash
		ob.Kind = fmt.Sprintf("go-panic:%T", o.Panic)
	}
	if ob.Class == "" {
		ob.Value = canonValue(o.Value)
		ob.coqRes = "(Ok " + xvalOf(o.Value) + ")"
	} else if coqErr[ob.Class] {
		ob.coqRes = "(Err " + ob.Class + ")"
	} else {
		ob.coqRes = "(Err UserOther)"
	}
	for _, e := range o.Events {
		ob.Events = append(ob.Events, canonValue(e))
	}
	return ob
}

func (o observed) Coq() string {
	ls := make([]string, len(o.Logs))
	for i, l := range o.Logs {
		ls[i] = xvalOfLog(l)
	}
	return "(" + o.coqRes + ", [" + strings.Join(ls, ";") + "])"
}

func (o observed) String() string {
	if o.Class != "" {
		return fmt.Sprintf("error %s (%s) logs=%v", o.Class, o.Kind, o.Logs)
	}
	return fmt.Sprintf("value %s logs=%v", o.Value, o.Logs)
}

// same compares the projected observables of two runs: result value, error class and kind,
// logs, events.
func (o observed) same(p observed) bool {
	if o.Class != p.Class || o.Kind != p.Kind || o.Value != p.Value {
		return false
	}
	if strings.Join(o.Logs, "\x00") != strings.Join(p.Logs, "\x00") {
		return false
	}
	return strings.Join(o.Events, "\x00") == strings.Join(p.Events, "\x00")
}

// ---------------------------------------------------------------- corpus

type corpusCase struct {
	Name     string
	Src      string
	Coq      string // empty: not a fragment program (engine comparison only)
	Contract string // <name>.contract.cdc: deployed at 0x1 and 0x2 before the script runs
}

func corpusDir() string {
	if *corpus != "" {
		return *corpus
	}
	exe, _ := os.Executable()
	// build/bin[_alt]/c52 -> /verif
	root := filepath.Dir(filepath.Dir(filepath.Dir(exe)))
	return filepath.Join(root, "corpus")
}

func loadCorpus(pid string) []corpusCase {
	d := filepath.Join(corpusDir(), pid)
	files, _ := filepath.Glob(filepath.Join(d, "*.cdc"))
	sort.Strings(files)
	var out []corpusCase
	for _, f := range files {
		if strings.HasSuffix(f, ".contract.cdc") {
			continue
		}
		src, err := os.ReadFile(f)
		if err != nil {
			continue
		}
		c := corpusCase{Name: strings.TrimSuffix(filepath.Base(f), ".cdc"), Src: string(src)}
		if coq, err := os.ReadFile(strings.TrimSuffix(f, ".cdc") + ".coq"); err == nil {
			c.Coq = strings.TrimSpace(string(coq))
		}
		if ct, err := os.ReadFile(strings.TrimSuffix(f, ".cdc") + ".contract.cdc"); err == nil {
			c.Contract = string(ct)
		}
		out = append(out, c)
	}
	return out
}

// ---------------------------------------------------------------- C52

func c52(sum *lib.Summary) {
	rng := lib.NewRng(*seed)
	cw := &lib.CaseWriter{
		Dir: *dir, Prefix: "cases_C52",
		Header:   "From CV Require Import MC.Cases.",
		ElemType: "program * obs * obs",
		CheckFn:  "check_c52",
		PerFile:  60,
	}
	nprog := 480
	if *tier == "thorough" {
		nprog = 2400
	}
	sum.Rule = "MiniCadence programs (expressions whose leaves are logging probe calls nested in every operator and statement form of the " +
		"fragment), each run as a script by the interpreter and by the VM; result/error class and ProgramLog sequence of both engines are compared " +
		"with each other (Go) and with the Coq interpreter model (vm_compute). non-trivial = the program logs at least 3 probes/values and " +
		"contains a short-circuit, conditional, optional-chaining, assignment or swap form; distinct = distinct program text"
	distinct := map[string]bool{}
	h := lib.NewHost()
	runBoth := func(name, src, coq string, interpOnly bool, tags map[string]int) {
		oi := observe(h.RunScript(src, nil, false))
		ov := observe(h.RunScript(src, nil, true))
		sum.Evaluations += 2
		if oi.Class == "CheckerError" || oi.Class == "ParseError" {
			sum.Count("rejected-by-checker")
			sum.Fail("generator:rejected", fmt.Sprintf("fragment program %s rejected by the checker (%s)", name, oi.Kind),
				map[string]any{"name": name, "source": src, "kind": oi.Kind})
			return
		}
		if oi.Class != "" {
			sum.Count("outcome:" + oi.Class)
		} else {
			sum.Count("outcome:value")
		}
		if !oi.same(ov) {
			sum.Fail("engines-differ:"+name, fmt.Sprintf("interpreter and VM disagree on %s: interpreter %s; VM %s", name, oi, ov),
				map[string]any{"name": name, "source": src, "interpreter": oi.String(), "vm": ov.String()})
		}
		if coq != "" {
			second := ov
			if interpOnly {
				second = oi
			}
			cw.Add("("+coq+",\n "+oi.Coq()+",\n "+second.Coq()+")",
				map[string]any{"key": "model-mismatch:" + name, "name": name, "source": src, "interpreter": oi.String(), "vm": ov.String()})
		}
		nontrivial := len(oi.Logs) >= 3
		if tags != nil {
			ctl := tags["and"] + tags["or"] + tags["coalesce"] + tags["coalesce-optional"] + tags["conditional"] + tags["optional-chaining"]
			asg := 0
			for k, v := range tags {
				if strings.HasPrefix(k, "assign-") || strings.HasPrefix(k, "swap-") {
					asg += v
				}
			}
			nontrivial = nontrivial && ctl+asg > 0
		}
		if nontrivial && !distinct[src] {
			distinct[src] = true
			sum.DistinctNontrivial++
		}
		if nontrivial {
			sum.Sample(map[string]any{"name": name, "interpreter": oi.String(), "source_head": head(src, 600)})
		}
	}
	for _, c := range loadCorpus("C52") {
		sum.Count("corpus")
		runBoth("corpus:"+c.Name, c.Src, c.Coq, true, nil)
	}
	for i, gp := range swapGrid() {
		sum.Count("grid")
		runBoth(fmt.Sprintf("grid:%d: %s", i, strings.TrimSpace(gp.Fns[1].Body[7].Src(""))), gp.Src(), gp.Coq(), false, nil)
	}
	for i := 0; i < nprog; i++ {
		if i%40 == 39 {
			h = lib.NewHost()
		}
		p := genProgram(rng, i%10 == 0)
		for k, v := range p.Tags {
			sum.Distribution = addTo(sum.Distribution, "form:"+k, v)
		}
		runBoth("random", p.Src(), p.Coq(), false, p.Tags)
	}
	cw.Close()
	sum.CaseFiles = cw.Files
}

func addTo(m map[string]int, k string, v int) map[string]int {
	if m == nil {
		m = map[string]int{}
	}
	m[k] += v
	return m
}

func head(s string, n int) string {
	if len(s) > n {
		return s[:n] + "..."
	}
	return s
}

func dumpPrograms(n int) {
	rng := lib.NewRng(*seed)
	h := lib.NewHost()
	for i := 0; i < n; i++ {
		p := genProgram(rng, i%10 == 0)
		src := p.Src()
		oi := observe(h.RunScript(src, nil, false))
		ov := observe(h.RunScript(src, nil, true))
		fmt.Printf("==== program %d\n%s\n-- coq: %s\n-- interp: %s\n-- vm: %s\n", i, src, p.Coq(), oi, ov)
		if oi.Class == "CheckerError" {
			fmt.Println(h.RunScript(src, nil, false).Err)
		}
	}
}


func runFile(path string) {
	src, err := os.ReadFile(path)
	if err != nil {
		panic(err)
	}
	h := lib.NewHost()
	for _, vm := range []bool{false, true} {
		o := h.RunScript(string(src), nil, vm)
		fmt.Printf("vm=%v %s\n", vm, observe(o))
		if o.Err != nil {
			fmt.Println(head(o.Err.Error(), 1500))
		}
	}
	for _, ph := range []bool{false, true} {
		dp, err := compileDirect(string(src), ph)
		if err != nil {
			fmt.Println("compile error", head(err.Error(), 500))
			continue
		}
		if !ph && os.Getenv("LISTING") != "" {
			fmt.Println(printProgram(dp.Program))
		}
		if ph && os.Getenv("LISTING_PH") != "" {
			fmt.Println(printProgram(dp.Program))
		}
		fmt.Printf("direct peephole=%v %s\n", ph, observe(runDirect(dp)))
	}
}

