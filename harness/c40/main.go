// Command c40: correspondence + direct-oracle harness for C40 (literals denote their written values).
// Every generated literal is embedded in a script (`let x: T = <literal>`), run through the real parser,
// checker and both execution engines of /repo; the verdict class (accepted with value / range error /
// scale error / other checker error / parser error) is compared with an independent oracle of what the
// property demands and, as an observed output, with the code-shaped Coq model.
package main

import (
	"flag"
	"fmt"
	"math/big"
	"os"
	"strings"
	"unicode/utf8"

	"cvh/lib"

	"github.com/onflow/cadence"
	"github.com/onflow/cadence/ast"
	"github.com/onflow/cadence/parser"
	"github.com/onflow/cadence/sema"
	"golang.org/x/text/unicode/norm"
)

var (
	prop = flag.String("prop", "C40", "property id")
	seed = flag.Uint64("seed", 1, "seed")
	tier = flag.String("tier", "quick", "quick|thorough")
	dir  = flag.String("dir", ".", "output directory")
)

type env struct {
	sum      *lib.Summary
	cw       *lib.CaseWriter
	rng      *lib.Rng
	thorough bool
	failed   map[string]int
	distinct map[string]bool
	h        *lib.Host
}

func (e *env) fail(key, what string, replay any) {
	e.failed[key]++
	if e.failed[key] == 1 {
		e.sum.Fail(key, what, replay)
	}
}

func (e *env) nontrivial(k string) {
	if !e.distinct[k] {
		e.distinct[k] = true
		e.sum.DistinctNontrivial++
	}
}

// ---------------------------------------------------------------------------------- verdicts

type verdict struct {
	Cls string   // "Accept" | "Range" | "Scale" | "Type" | "Parse" | other (unexpected)
	Z   *big.Int // value when accepted
}

func (v verdict) String() string {
	if v.Cls == "Accept" {
		return "Accept " + v.Z.String()
	}
	return v.Cls
}

func (v verdict) Coq() string {
	switch v.Cls {
	case "Accept":
		return "(VAccept " + lib.Z(v.Z) + ")"
	case "Range":
		return "VRange"
	case "Scale":
		return "VScale"
	case "Type":
		return "VType"
	case "Parse":
		return "VParse"
	}
	return "(VAccept 777777777777777777777777777777777777777777777777777777777777777777777777777777777777777777777777)" // unexpected outcome: never equal
}

func (v verdict) Eq(w verdict) bool {
	if v.Cls != w.Cls {
		return false
	}
	return v.Cls != "Accept" || v.Z.Cmp(w.Z) == 0
}

func walk(err error, f func(error)) {
	if err == nil {
		return
	}
	f(err)
	if p, ok := err.(interface{ ChildErrors() []error }); ok {
		for _, c := range p.ChildErrors() {
			walk(c, f)
		}
		return
	}
	if u, ok := err.(interface{ Unwrap() error }); ok {
		walk(u.Unwrap(), f)
	}
	if u, ok := err.(interface{ Unwrap() []error }); ok {
		for _, c := range u.Unwrap() {
			walk(c, f)
		}
	}
}

// classifyErr maps the error of a rejected program to the verdict class.
func classifyErr(err error) string {
	parse, rng, scale, checker := false, false, false, false
	walk(err, func(e error) {
		switch e.(type) {
		case parser.Error, *parser.Error:
			parse = true
		case *sema.InvalidIntegerLiteralRangeError, *sema.InvalidFixedPointLiteralRangeError:
			rng = true
		case *sema.InvalidFixedPointLiteralScaleError:
			scale = true
		case *sema.CheckerError:
			checker = true
		}
		if _, ok := e.(parser.ParseError); ok {
			parse = true
		}
	})
	switch {
	case parse:
		return "Parse"
	case rng:
		return "Range"
	case scale:
		return "Scale"
	case checker:
		return "Type"
	}
	return "Other"
}

func rawOfString(s string) *big.Int {
	z, ok := new(big.Int).SetString(strings.Replace(s, ".", "", 1), 10)
	if !ok {
		panic("cannot read back number " + s)
	}
	return z
}

// runLiteral embeds the literal in a script with the expected type and runs it in both engines.
func (e *env) runLiteral(typ, lit string) verdict {
	src := "access(all) fun main(): " + typ + " { let x: " + typ + " = " + lit + "; return x }"
	var res [2]verdict
	for i, vm := range []bool{false, true} {
		o := e.h.RunScript(src, nil, vm)
		e.sum.Evaluations++
		switch {
		case o.Class == "":
			res[i] = verdict{Cls: "Accept", Z: rawOfString(o.Value.String())}
		case o.Class == "CheckerError" || o.Class == "ParseError" || o.Class == lib.EUserOther:
			c := classifyErr(o.Err)
			if c == "Other" {
				c = "Other:" + o.Class
			}
			res[i] = verdict{Cls: c}
		default:
			res[i] = verdict{Cls: "Other:" + o.Class}
		}
	}
	if !res[0].Eq(res[1]) {
		e.fail("engines-differ:literal", fmt.Sprintf("`%s`: interpreter gives %s, VM gives %s", src, res[0], res[1]),
			map[string]any{"op": "literal", "script": src, "interpreter": res[0].String(), "vm": res[1].String()})
	}
	return res[0]
}

// ---------------------------------------------------------------------------------- number types

type numType struct {
	Name   string
	Signed bool
	Fixed  bool
	Bits   int
	Scale  int
	Coq    string
}

func pow2(n int) *big.Int  { return new(big.Int).Lsh(big.NewInt(1), uint(n)) }
func pow10(n int) *big.Int { return new(big.Int).Exp(big.NewInt(10), big.NewInt(int64(n)), nil) }

func (t numType) Min() *big.Int {
	if !t.Signed {
		return big.NewInt(0)
	}
	if t.Bits == 0 {
		return nil
	}
	return new(big.Int).Neg(pow2(t.Bits - 1))
}
func (t numType) Max() *big.Int {
	if t.Bits == 0 {
		return nil
	}
	if t.Signed {
		return new(big.Int).Sub(pow2(t.Bits-1), big.NewInt(1))
	}
	return new(big.Int).Sub(pow2(t.Bits), big.NewInt(1))
}
func (t numType) InRange(z *big.Int) bool {
	if m := t.Min(); m != nil && z.Cmp(m) < 0 {
		return false
	}
	if m := t.Max(); m != nil && z.Cmp(m) > 0 {
		return false
	}
	return true
}

var intTypes, fixTypes []numType

func init() {
	for _, t := range lib.IntTypes {
		intTypes = append(intTypes, numType{Name: t.Name, Signed: t.Kind == "signed" || t.Kind == "int", Bits: t.Bits, Coq: t.CoqKind()})
	}
	fixTypes = []numType{
		{Name: "Fix64", Signed: true, Fixed: true, Bits: 64, Scale: 8, Coq: "FFix64"},
		{Name: "UFix64", Fixed: true, Bits: 64, Scale: 8, Coq: "FUFix64"},
		{Name: "Fix128", Signed: true, Fixed: true, Bits: 128, Scale: 24, Coq: "FFix128"},
		{Name: "UFix128", Fixed: true, Bits: 128, Scale: 24, Coq: "FUFix128"},
	}
}

// ---------------------------------------------------------------------------------- integer literals

type base struct {
	Coq    string
	Prefix string
	B      int
	Digits string
}

var bases = []base{
	{"B2", "0b", 2, "01"},
	{"B8", "0o", 8, "01234567"},
	{"B10", "", 10, "0123456789"},
	{"B16", "0x", 16, "0123456789abcdefABCDEF"},
}

func digitVal(c byte) int {
	switch {
	case c >= '0' && c <= '9':
		return int(c - '0')
	case c >= 'a' && c <= 'f':
		return int(c-'a') + 10
	case c >= 'A' && c <= 'F':
		return int(c-'A') + 10
	}
	return 99
}

// specInt: the oracle. text = literal without base prefix.
func specInt(t numType, neg bool, b base, text string) verdict {
	if text == "" || text[0] == '_' || text[len(text)-1] == '_' {
		return verdict{Cls: "Parse"}
	}
	v := new(big.Int)
	n := 0
	for i := 0; i < len(text); i++ {
		if text[i] == '_' {
			continue
		}
		d := digitVal(text[i])
		if d >= b.B {
			return verdict{Cls: "Parse"}
		}
		v.Mul(v, big.NewInt(int64(b.B)))
		v.Add(v, big.NewInt(int64(d)))
		n++
	}
	if n == 0 {
		return verdict{Cls: "Parse"}
	}
	if neg {
		v.Neg(v)
	}
	if !t.InRange(v) {
		return verdict{Cls: "Range"}
	}
	return verdict{Cls: "Accept", Z: v}
}

func render(z *big.Int, b base, rng *lib.Rng, style int) string {
	s := z.Text(b.B)
	bs := []byte(s)
	if b.B == 16 {
		for i := range bs {
			if rng.Bool() && bs[i] >= 'a' {
				bs[i] -= 32
			}
		}
	}
	s = string(bs)
	switch style {
	case 1: // leading zeros
		s = strings.Repeat("0", 1+rng.Intn(3)) + s
	case 2: // underscores between digits
		var o []byte
		for i := 0; i < len(s); i++ {
			o = append(o, s[i])
			if i+1 < len(s) && rng.Chance(1, 3) {
				o = append(o, '_')
				if rng.Chance(1, 5) {
					o = append(o, '_')
				}
			}
		}
		s = string(o)
	case 3: // both
		s = "0_" + s
	}
	return s
}

func (e *env) intCase(t numType, neg bool, b base, text string, origin string) {
	lit := b.Prefix + text
	if neg {
		lit = "-" + lit
	}
	got := e.runLiteral(t.Name, lit)
	want := specInt(t, neg, b, text)
	e.sum.Count("int literal " + origin)
	e.sum.Count("int literal base " + fmt.Sprint(b.B))
	e.sum.Count("int literal verdict " + got.Cls)
	if len(text) > 1 {
		e.nontrivial("int|" + t.Name + "|" + lit)
	}
	replay := map[string]any{"op": "int-literal", "type": t.Name, "literal": lit, "observed": got.String(), "required": want.String(), "origin": origin}
	if !got.Eq(want) {
		key := "int-literal:" + t.Name
		if neg && want.Cls == "Accept" && want.Z.Sign() == 0 && got.Cls == "Type" && t.Name != "Int" {
			key = "int-literal:minus-zero"
		}
		e.fail(key, fmt.Sprintf("`let x: %s = %s`: %s, required %s", t.Name, lit, got, want), replay)
	}
	negS := "false"
	if neg {
		negS = "true"
	}
	e.cw.Add(fmt.Sprintf("CIntLit %s %s %s %s %s", t.Coq, negS, b.Coq, lib.ZList([]byte(text)), got.Coq()), replay)
	if len(e.sum.Samples) < 3 && got.Cls == "Range" {
		e.sum.Sample(map[string]string{"type": t.Name, "literal": lit, "observed": got.String()})
	}
}

func intLeg(e *env) {
	// deterministic reproducers of the known defect and hand-picked cases
	for _, t := range intTypes {
		if t.Name == "Int8" || t.Name == "UInt8" || t.Name == "Word64" || t.Name == "Int" || t.Name == "UInt" || t.Name == "Int256" {
			e.intCase(t, true, bases[2], "0", "corpus")
			e.intCase(t, true, bases[3], "00", "corpus")
			e.intCase(t, false, bases[2], "0", "corpus")
		}
	}
	t8 := intTypes[0]
	for _, c := range []struct {
		b    int
		text string
	}{{3, "_ff"}, {3, "ff_"}, {3, ""}, {0, ""}, {0, "_1"}, {1, "7_"}, {2, "1_"}, {2, "1__2"}, {2, "007"}, {2, "0_0_7"}, {3, "7F"}, {3, "7f"}, {0, "1111111"}, {0, "10000000"}, {1, "177"}, {1, "200"}} {
		e.intCase(t8, false, bases[c.b], c.text, "corpus")
	}
	nrand := 1
	if e.thorough {
		nrand = 12
	}
	for _, t := range intTypes {
		var vals []*big.Int
		if m := t.Max(); m != nil {
			vals = append(vals, m, new(big.Int).Add(m, big.NewInt(1)), new(big.Int).Sub(m, big.NewInt(1)))
			if e.thorough {
				vals = append(vals, new(big.Int).Add(m, big.NewInt(2)), new(big.Int).Lsh(m, 1), new(big.Int).Rsh(m, 1))
			}
		} else {
			vals = append(vals, pow2(300), new(big.Int).Sub(pow10(90), big.NewInt(1)))
		}
		if m := t.Min(); m != nil {
			vals = append(vals, m, new(big.Int).Sub(m, big.NewInt(1)), new(big.Int).Add(m, big.NewInt(1)))
		} else {
			vals = append(vals, new(big.Int).Neg(pow2(300)))
		}
		vals = append(vals, big.NewInt(0), big.NewInt(1), big.NewInt(-1))
		for i := 0; i < nrand; i++ {
			lo, hi := t.Min(), t.Max()
			if hi == nil {
				hi = pow2(64 + e.rng.Intn(400))
			}
			if lo == nil {
				lo = new(big.Int).Neg(hi)
			}
			vals = append(vals, e.rng.BigBetween(lo, hi))
		}
		seen := map[string]bool{}
		for vi, v := range vals {
			if seen[v.String()] {
				continue
			}
			seen[v.String()] = true
			neg := v.Sign() < 0
			a := new(big.Int).Abs(v)
			for bi, b := range bases {
				styles := []int{0, 2}
				if e.thorough || (vi+bi)%2 == 0 {
					styles = []int{0, 1, 2, 3}
				}
				for _, st := range styles {
					e.intCase(t, neg, b, render(a, b, e.rng, st), "boundary/random")
				}
			}
		}
	}
	// very long literals (hundreds of digits) for the unbounded and the widest types
	nlong := 3
	if e.thorough {
		nlong = 25
	}
	for _, name := range []string{"Int", "UInt", "Int256", "UInt256", "Word256"} {
		var t numType
		for _, x := range intTypes {
			if x.Name == name {
				t = x
			}
		}
		for i := 0; i < nlong; i++ {
			b := bases[e.rng.Intn(4)]
			n := 100 + e.rng.Intn(220)
			var sb strings.Builder
			for j := 0; j < n; j++ {
				if j > 0 && j < n-1 && e.rng.Chance(1, 9) {
					sb.WriteByte('_')
				}
				sb.WriteByte(b.Digits[e.rng.Intn(len(b.Digits))])
			}
			text := sb.String()
			if t.Bits != 0 && e.rng.Bool() {
				text = strings.Repeat("0", n) + "_" + t.Max().Text(b.B) // many leading zeros, value = max
			}
			e.intCase(t, e.rng.Chance(1, 4), b, text, "long")
		}
	}
}

// ---------------------------------------------------------------------------------- fixed-point literals

func stripUS(s string) string { return strings.ReplaceAll(s, "_", "") }

func specFix(t numType, neg bool, ip, fp string) verdict {
	ipd, fpd := stripUS(ip), stripUS(fp)
	k := len(fpd)
	if k == 0 {
		k = 1
	}
	if k > t.Scale {
		return verdict{Cls: "Scale"}
	}
	iv, fv := new(big.Int), new(big.Int)
	if ipd != "" {
		iv.SetString(ipd, 10)
	}
	if fpd != "" {
		fv.SetString(fpd, 10)
	}
	v := new(big.Int).Mul(iv, pow10(t.Scale))
	v.Add(v, new(big.Int).Mul(fv, pow10(t.Scale-k)))
	if neg {
		v.Neg(v)
	}
	if !t.InRange(v) {
		return verdict{Cls: "Range"}
	}
	return verdict{Cls: "Accept", Z: v}
}

func (e *env) fixCase(t numType, neg bool, ip, fp string, origin string) {
	lit := ip + "." + fp
	if neg {
		lit = "-" + lit
	}
	got := e.runLiteral(t.Name, lit)
	want := specFix(t, neg, ip, fp)
	e.sum.Count("fix literal " + origin)
	e.sum.Count("fix literal verdict " + got.Cls)
	e.nontrivial("fix|" + t.Name + "|" + lit)
	replay := map[string]any{"op": "fix-literal", "type": t.Name, "literal": lit, "observed": got.String(), "required": want.String(), "origin": origin}
	if !got.Eq(want) {
		key := "fix-literal:" + t.Name
		ipz, _ := new(big.Int).SetString("0"+stripUS(ip), 10)
		lim := t.Max()
		if neg {
			lim = new(big.Int).Neg(t.Min())
		}
		extreme := new(big.Int).Quo(lim, pow10(t.Scale))
		switch {
		case got.Cls == "Accept" && want.Cls == "Range" && len(stripUS(fp)) < t.Scale && ipz.Cmp(extreme) == 0 && (t.Signed || !neg):
			key = "fix-literal-range-wrap:" + t.Name + ":short-fraction-at-extreme-integer-part"
		case neg && !t.Signed && want.Cls == "Accept" && want.Z.Sign() == 0 && got.Cls == "Range":
			key = "fix-literal:minus-zero:" + t.Name
		}
		e.fail(key, fmt.Sprintf("`let x: %s = %s`: %s, required %s", t.Name, lit, got, want), replay)
	}
	negS := "false"
	if neg {
		negS = "true"
	}
	e.cw.Add(fmt.Sprintf("CFixLit %s %s %s %s %s", t.Coq, negS, lib.ZList([]byte(ip)), lib.ZList([]byte(fp)), got.Coq()), replay)
}

func withUS(s string, rng *lib.Rng) string {
	var o []byte
	for i := 0; i < len(s); i++ {
		o = append(o, s[i])
		if i+1 < len(s) && rng.Chance(1, 3) {
			o = append(o, '_')
		}
	}
	return string(o)
}

func fixLeg(e *env) {
	// deterministic reproducers
	for _, t := range fixTypes {
		e.fixCase(t, true, "0", "0", "corpus")
		e.fixCase(t, false, "0", "0", "corpus")
		e.fixCase(t, true, "0", "5", "corpus")
		e.fixCase(t, false, "1_", "5_", "corpus")
		e.fixCase(t, false, "1", "_", "corpus")
		e.fixCase(t, false, "0_1", "0_5", "corpus")
		e.fixCase(t, false, "1", strings.Repeat("0", t.Scale), "corpus")
		e.fixCase(t, false, "1", strings.Repeat("0", t.Scale+1), "corpus")
		e.fixCase(t, false, "1", strings.Repeat("0", t.Scale)+"_", "corpus")
		e.fixCase(t, false, "1", strings.Repeat("0", t.Scale-1)+"1", "corpus")
	}
	for _, t := range fixTypes {
		f := pow10(t.Scale)
		type side struct {
			neg bool
			lim *big.Int
		}
		sides := []side{{false, t.Max()}}
		if t.Signed {
			sides = append(sides, side{true, new(big.Int).Neg(t.Min())})
		}
		for _, sd := range sides {
			ip, fp := new(big.Int).QuoRem(sd.lim, f, new(big.Int))
			fs := fp.String()
			fs = strings.Repeat("0", t.Scale-len(fs)) + fs
			for _, ipd := range []int64{-1, 0, 1} {
				ips := new(big.Int).Add(ip, big.NewInt(ipd)).String()
				ks := []int{1, 2, t.Scale / 2, t.Scale - 1, t.Scale, t.Scale + 1}
				if e.thorough {
					ks = nil
					for k := 1; k <= t.Scale+1; k++ {
						ks = append(ks, k)
					}
				}
				for _, k := range ks {
					var prefix string
					if k <= t.Scale {
						prefix = fs[:k]
					} else {
						prefix = fs + "0"
					}
					pz, _ := new(big.Int).SetString(prefix, 10)
					for _, d := range []int64{-1, 0, 1} {
						z := new(big.Int).Add(pz, big.NewInt(d))
						if z.Sign() < 0 || len(z.String()) > k {
							continue
						}
						zs := z.String()
						zs = strings.Repeat("0", k-len(zs)) + zs
						e.fixCase(t, sd.neg, ips, zs, "boundary")
					}
					if ipd == 0 {
						e.fixCase(t, sd.neg, ips, strings.Repeat("9", k), "boundary")
						e.fixCase(t, sd.neg, withUS(ips, e.rng), withUS(strings.Repeat("0", k), e.rng), "boundary")
					}
				}
			}
		}
		// random values, printed with varying numbers of fractional digits, underscores, leading zeros
		nr := 12
		if e.thorough {
			nr = 300
		}
		for i := 0; i < nr; i++ {
			z := e.rng.BigBetween(t.Min(), t.Max())
			neg := z.Sign() < 0
			a := new(big.Int).Abs(z)
			ip, fp := new(big.Int).QuoRem(a, f, new(big.Int))
			fs := fp.String()
			fs = strings.Repeat("0", t.Scale-len(fs)) + fs
			k := 1 + e.rng.Intn(t.Scale+2)
			if k <= t.Scale {
				fs = fs[:k]
			} else {
				fs = fs + strings.Repeat("0", k-t.Scale)
			}
			ips := ip.String()
			if e.rng.Chance(1, 4) {
				ips = strings.Repeat("0", 1+e.rng.Intn(3)) + ips
			}
			if e.rng.Chance(1, 3) {
				ips, fs = withUS(ips, e.rng), withUS(fs, e.rng)
			}
			e.fixCase(t, neg, ips, fs, "random")
		}
	}
}

// ---------------------------------------------------------------------------------- string literals

type piece struct {
	src  string // source text inside the quotes
	cps  []rune // intended code points (nil slice with ok=false = must be rejected)
	ok   bool
	kind string
}

func hexOf(r rune, rng *lib.Rng) string {
	s := fmt.Sprintf("%x", r)
	if rng.Bool() {
		s = strings.ToUpper(s)
	}
	if pad := rng.Intn(9 - len(s)); pad > 0 && rng.Chance(1, 3) {
		s = strings.Repeat("0", pad) + s
	}
	return s
}

func randScalar(rng *lib.Rng) rune {
	for {
		var r rune
		switch rng.Intn(6) {
		case 0:
			r = rune(0x20 + rng.Intn(0x5f))
		case 1:
			r = rune(rng.Intn(0x20))
		case 2:
			r = rune(0x80 + rng.Intn(0x780))
		case 3:
			r = rune(0x800 + rng.Intn(0xF800))
		case 4:
			r = rune(0x10000 + rng.Intn(0x100000))
		default:
			r = []rune{0, 0x7f, 0x80, 0x7ff, 0x800, 0xd7ff, 0xe000, 0xfffd, 0xffff, 0x10000, 0x10ffff, 0x1f600, 0xe9, 0x301}[rng.Intn(14)]
		}
		if r < 0xd800 || (r > 0xdfff && r <= 0x10ffff) {
			return r
		}
	}
}

func randPiece(rng *lib.Rng, allowBad bool) piece {
	simple := []struct {
		s string
		r rune
	}{{`\0`, 0}, {`\n`, '\n'}, {`\r`, '\r'}, {`\t`, '\t'}, {`\"`, '"'}, {`\'`, '\''}, {`\\`, '\\'}}
	switch c := rng.Intn(10); {
	case c < 3:
		r := randScalar(rng)
		for r == '"' || r == '\\' || r < 0x20 || r == 0x7f || r == 0x85 || r == 0x2028 || r == 0x2029 {
			r = randScalar(rng)
		}
		return piece{src: string(r), cps: []rune{r}, ok: true, kind: "plain"}
	case c < 5:
		x := simple[rng.Intn(len(simple))]
		return piece{src: x.s, cps: []rune{x.r}, ok: true, kind: "simple-escape"}
	case c < 9 || !allowBad:
		r := randScalar(rng)
		return piece{src: `\u{` + hexOf(r, rng) + `}`, cps: []rune{r}, ok: true, kind: "unicode-escape"}
	}
	bad := []piece{
		{src: `\x41`, kind: "bad-escape-char"},
		{src: `\u41`, kind: "bad-missing-brace"},
		{src: `\u{4G}`, kind: "bad-hex"},
		{src: `\u{000000041}`, kind: "bad-9-digits"},
		{src: `\u{41`, kind: "bad-unclosed"},
		{src: `\a`, kind: "bad-escape-char"},
		{src: `\U{41}`, kind: "bad-escape-char"},
		{src: `\u{ 41}`, kind: "bad-hex"},
	}
	return bad[rng.Intn(len(bad))]
}

func cpsZ(rs []rune) string {
	parts := make([]string, len(rs))
	for i, r := range rs {
		parts[i] = fmt.Sprint(int64(r))
	}
	return "[" + strings.Join(parts, ";") + "]"
}

// parseString runs the real parser on the literal and returns the decoded ast.StringExpression value.
func parseString(src string) (rs []rune, ok bool, cls string) {
	c, _ := lib.Catch(func() {
		expr, errs := parser.ParseExpression(nil, []byte("\""+src+"\""), parser.Config{})
		if len(errs) > 0 {
			return
		}
		se, isStr := expr.(*ast.StringExpression)
		if !isStr {
			cls = fmt.Sprintf("Other:%T", expr)
			return
		}
		rs, ok = []rune(se.Value), true
	})
	if c != "" {
		cls = "Other:" + c
	}
	return
}

func (e *env) strCase(src string, want []rune, wantOK bool, kinds string, origin string) {
	// (1) the parser alone: ast.StringExpression.Value is the decoded literal
	got, gotOK, pcls := parseString(src)
	e.sum.Evaluations++
	e.sum.Count("string literal " + origin)
	e.nontrivial("str|" + src)
	pobs := "ParseError"
	if gotOK {
		pobs = fmt.Sprint(got)
	}
	replay := map[string]any{"op": "string-literal", "type": "String", "literal": "\"" + src + "\"", "observed": pobs, "pieces": kinds, "origin": origin}
	if pcls != "" {
		e.fail("string-literal-fails", fmt.Sprintf("parsing string literal \"%s\" gives %s", src, pcls), replay)
	}
	// (2) end to end in both engines: the String value is the NFC normalisation of the decoded literal
	script := "access(all) fun main(): [UInt8] { let s = \"" + src + "\"; return s.utf8 }"
	for _, vm := range []bool{false, true} {
		o := e.h.RunScript(script, nil, vm)
		e.sum.Evaluations++
		var obs string
		switch {
		case o.Class == "":
			arr := o.Value.(cadence.Array)
			bs := make([]byte, len(arr.Values))
			for j, v := range arr.Values {
				bs[j] = byte(v.(cadence.UInt8))
			}
			obs = fmt.Sprint([]rune(string(bs)))
		case classifyErr(o.Err) == "Parse":
			obs = "ParseError"
		default:
			obs = "Other:" + o.Class
		}
		exp := "ParseError"
		if gotOK {
			exp = fmt.Sprint([]rune(norm.NFC.String(string(got))))
		}
		if obs != exp {
			e.fail("script-vs-parser:string", fmt.Sprintf("script with literal \"%s\" (vm=%v) yields %s but the parser decodes it to %s (NFC %s)", src, vm, obs, pobs, exp),
				map[string]any{"op": "string-literal-script", "literal": "\"" + src + "\"", "vm": vm, "observed": obs, "parser": pobs})
		}
	}
	// oracle
	agree := gotOK == wantOK
	if agree && gotOK {
		agree = string(got) == string(want)
	}
	if !agree {
		key := "string-literal"
		switch {
		case strings.Contains(kinds, "surrogate") && gotOK:
			key = "string-escape:surrogate-code-point"
		case strings.Contains(kinds, "above-max") && gotOK:
			key = "string-escape:code-point-above-10FFFF"
		}
		w := "rejected (parse error)"
		if wantOK {
			w = fmt.Sprint(want)
		}
		replay["required"] = w
		e.fail(key, fmt.Sprintf("string literal \"%s\" decodes to %s, required %s", src, pobs, w), replay)
	}
	// Coq case: the content as code points
	o := "None"
	if gotOK {
		o = "(Some " + cpsZ(got) + ")"
	}
	e.cw.Add(fmt.Sprintf("CStrLit %s %s", cpsZ([]rune(src)), o), replay)
}

func stringLeg(e *env) {
	// deterministic reproducers and the escape table
	e.strCase(`\u{D800}`, nil, false, "surrogate", "corpus")
	e.strCase(`\u{dfff}`, nil, false, "surrogate", "corpus")
	e.strCase(`\u{110000}`, nil, false, "above-max", "corpus")
	e.strCase(`\u{FFFFFFFF}`, nil, false, "above-max", "corpus")
	e.strCase(`\u{7FFFFFFF}`, nil, false, "above-max", "corpus")
	e.strCase(`\u{}`, []rune{}, true, "empty-unicode-escape", "corpus")
	e.strCase(`\0\n\r\t\"\'\\`, []rune{0, '\n', '\r', '\t', '"', '\'', '\\'}, true, "simple-escape", "corpus")
	e.strCase(`\u{41}\u{00000041}\u{e9}\u{1F600}\u{10FFFF}\u{D7FF}\u{E000}\u{0}`, []rune{0x41, 0x41, 0xe9, 0x1f600, 0x10ffff, 0xd7ff, 0xe000, 0}, true, "unicode-escape", "corpus")
	e.strCase(``, []rune{}, true, "empty", "corpus")
	for _, bad := range []string{`\x41`, `\u41`, `\u{4G}`, `\u{000000041}`, `\u{41`, `\u{`, `\u`, `\a`, `a\`} {
		e.strCase(bad, nil, false, "bad", "corpus")
	}
	n := 250
	if e.thorough {
		n = 6000
	}
	for i := 0; i < n; i++ {
		np := 1 + e.rng.Intn(8)
		var src strings.Builder
		var want []rune
		ok := true
		var kinds []string
		allowBad := e.rng.Chance(1, 5)
		for j := 0; j < np; j++ {
			p := randPiece(e.rng, allowBad)
			src.WriteString(p.src)
			want = append(want, p.cps...)
			ok = ok && p.ok
			kinds = append(kinds, p.kind)
		}
		e.strCase(src.String(), want, ok, strings.Join(kinds, ","), "random")
	}
	// ast.QuoteString, then the parser: the identity on strings of scalar values
	nq := 120
	if e.thorough {
		nq = 3000
	}
	for i := 0; i < nq; i++ {
		l := e.rng.Intn(10)
		rs := make([]rune, l)
		for j := range rs {
			rs[j] = randScalar(e.rng)
		}
		if i < 4 {
			rs = [][]rune{{}, {0, '\n', '\r', '\t', '\\', '"'}, {0x7f, 0x80, 0x10ffff, 0x1f}, {' ', '~', '\'', 0xe9}}[i]
		}
		s := string(rs)
		q := ast.QuoteString(s)
		e.sum.Evaluations++
		e.sum.Count("QuoteString")
		e.nontrivial("quote|" + s)
		inner := q[1 : len(q)-1]
		e.cw.Add(fmt.Sprintf("CQuote %s %s", cpsZ(rs), cpsZ([]rune(inner))),
			map[string]any{"op": "QuoteString", "type": "String", "code_points": fmt.Sprint(rs), "observed": q})
		if !utf8.ValidString(inner) {
			e.fail("quote-invalid-utf8", fmt.Sprintf("ast.QuoteString(%v) = %q is not valid UTF-8", rs, q), map[string]any{"op": "QuoteString", "code_points": fmt.Sprint(rs), "observed": q})
		}
		e.strCase(inner, rs, true, "quoted", "quote-roundtrip")
	}
	// Character literals: same decoding
	var chars []rune
	for _, r := range []rune{'a', 0xe9, 0x1f600, 0, '\n', 0x10ffff} {
		chars = append(chars, r)
	}
	for _, r := range chars {
		script := fmt.Sprintf("access(all) fun main(): [UInt8] { let c: Character = \"\\u{%x}\"; return c.utf8 }", r)
		for _, vm := range []bool{false, true} {
			o := e.h.RunScript(script, nil, vm)
			e.sum.Evaluations++
			e.sum.Count("character literal")
			okc := false
			if o.Class == "" {
				arr := o.Value.(cadence.Array)
				bs := make([]byte, len(arr.Values))
				for j, v := range arr.Values {
					bs[j] = byte(v.(cadence.UInt8))
				}
				okc = string(bs) == string(r)
			}
			if !okc {
				e.fail("character-literal", fmt.Sprintf("`%s` (vm=%v): class %q value %v", script, vm, o.Class, o.Value),
					map[string]any{"op": "character-literal", "script": script, "vm": vm, "class": o.Class})
			}
		}
	}
}

// ---------------------------------------------------------------------------------- several literals in one program

// mlit is one literal placed in a multi-literal program, with the value the property demands.
type mlit struct {
	t    numType
	neg  bool
	b    *base // nil for fixed-point
	text string
	ip   string
	fp   string
	src  string
	want *big.Int
}

func (e *env) fixFamily(t numType) []mlit {
	ips := []string{"0", "1", "7", "10", fmt.Sprint(e.rng.Intn(100000))}
	ds := []string{"5", "1", "9", "25", "125", fmt.Sprint(1 + e.rng.Intn(999))}
	ip := ips[e.rng.Intn(len(ips))]
	d := ds[e.rng.Intn(len(ds))]
	fracs := []string{d, "0" + d, "00" + d, d + "0", d + "00", "0" + d + "0", "000" + d, "0_" + d, d + "_0", "0", "00"}
	ipvs := []string{ip, "0" + ip, "00" + ip, withUS(ip, e.rng), "0_" + ip}
	var out []mlit
	for _, f := range fracs {
		if len(stripUS(f)) > t.Scale {
			continue
		}
		for _, iv := range ipvs {
			if strings.HasSuffix(iv, "_") || iv == "" {
				continue
			}
			for _, neg := range []bool{false, true} {
				if neg && !t.Signed {
					continue
				}
				v := specFix(t, neg, iv, f)
				if v.Cls != "Accept" || (neg && v.Z.Sign() == 0) {
					continue
				}
				src := iv + "." + f
				if neg {
					src = "-" + src
				}
				out = append(out, mlit{t: t, neg: neg, ip: iv, fp: f, src: src, want: v.Z})
			}
		}
	}
	return out
}

func (e *env) intFamily(t numType) []mlit {
	v := big.NewInt(int64(1 + e.rng.Intn(100)))
	var vals []*big.Int
	for _, m := range []int64{1, 2, 8, 10, 16, 100, 256} {
		vals = append(vals, new(big.Int).Mul(v, big.NewInt(m)), new(big.Int).Add(new(big.Int).Mul(v, big.NewInt(m)), big.NewInt(1)))
	}
	var out []mlit
	for _, z := range vals {
		for bi := range bases {
			b := bases[bi]
			for st := 0; st < 4; st++ {
				for _, neg := range []bool{false, true} {
					if neg && !t.Signed {
						continue
					}
					text := render(z, b, e.rng, st)
					w := specInt(t, neg, b, text)
					if w.Cls != "Accept" {
						continue
					}
					src := b.Prefix + text
					if neg {
						src = "-" + src
					}
					out = append(out, mlit{t: t, neg: neg, b: &bases[bi], text: text, src: src, want: w.Z})
				}
			}
		}
	}
	return out
}

// runMulti places the literals in one program (annotated lets, an array literal, a global and a nested
// function) and compares every literal's run-time value, in both engines, with the written value.
func (e *env) runMulti(ls []mlit, origin string) {
	var decl, body strings.Builder
	var results []string
	for i, l := range ls {
		switch i % 4 {
		case 0:
			fmt.Fprintf(&body, "  let v%d: %s = %s\n", i, l.t.Name, l.src)
			results = append(results, fmt.Sprintf("v%d.toString()", i))
		case 1:
			// array literal shared with the next literal of the same type, if any
			if i+1 < len(ls) && ls[i+1].t.Name == l.t.Name {
				fmt.Fprintf(&body, "  let a%d: [%s] = [%s, %s]\n", i, l.t.Name, l.src, ls[i+1].src)
			} else {
				fmt.Fprintf(&body, "  let a%d: [%s] = [%s]\n", i, l.t.Name, l.src)
			}
			results = append(results, fmt.Sprintf("a%d[0].toString()", i))
		case 2:
			if ls[i-1].t.Name == l.t.Name {
				results = append(results, fmt.Sprintf("a%d[1].toString()", i-1))
			} else {
				fmt.Fprintf(&decl, "access(all) fun g%d(): %s { return %s }\n", i, l.t.Name, l.src)
				results = append(results, fmt.Sprintf("g%d().toString()", i))
			}
		default:
			fmt.Fprintf(&body, "  fun n%d(): %s { return %s }\n", i, l.t.Name, l.src)
			results = append(results, fmt.Sprintf("n%d().toString()", i))
		}
	}
	script := decl.String() + "access(all) fun main(): [String] {\n" + body.String() + "  return [" + strings.Join(results, ", ") + "]\n}"
	var srcs []string
	for _, l := range ls {
		srcs = append(srcs, l.src+":"+l.t.Name)
	}
	for _, vm := range []bool{false, true} {
		o := e.h.RunScript(script, nil, vm)
		e.sum.Evaluations += len(ls)
		e.sum.Count(fmt.Sprintf("multi-literal program vm=%v", vm))
		replay := map[string]any{"op": "multi-literal", "type": "program", "script": script, "vm": vm, "literals": srcs, "origin": origin}
		if o.Class != "" {
			e.fail("multi-literal-fails", fmt.Sprintf("program with accepted literals %v fails with %s (vm=%v): %v\n%s", srcs, o.Class, vm, o.Err, script), replay)
			continue
		}
		arr := o.Value.(cadence.Array)
		for i, l := range ls {
			got := rawOfString(string(arr.Values[i].(cadence.String)))
			e.nontrivial("multi|" + l.t.Name + "|" + l.src)
			r := map[string]any{"op": "multi-literal", "type": l.t.Name, "literal": l.src, "position": i, "observed": got.String(),
				"required": l.want.String(), "vm": vm, "script": script}
			if got.Cmp(l.want) != 0 {
				e.fail(fmt.Sprintf("multi-literal:%s:vm=%v", l.t.Name, vm),
					fmt.Sprintf("in a program with literals %v the literal `%s` (position %d, type %s) evaluates to %s (vm=%v), required %s\n%s", srcs, l.src, i, l.t.Name, got, vm, l.want, script), r)
			}
			negS := "false"
			if l.neg {
				negS = "true"
			}
			obs := "(VAccept " + lib.Z(got) + ")"
			if l.b == nil {
				e.cw.Add(fmt.Sprintf("CFixLit %s %s %s %s %s", l.t.Coq, negS, lib.ZList([]byte(l.ip)), lib.ZList([]byte(l.fp)), obs), r)
			} else {
				e.cw.Add(fmt.Sprintf("CIntLit %s %s %s %s %s", l.t.Coq, negS, l.b.Coq, lib.ZList([]byte(l.text)), obs), r)
			}
		}
	}
}

func pickLits(rng *lib.Rng, fam []mlit, k int) []mlit {
	var out []mlit
	for i := 0; i < k && len(fam) > 0; i++ {
		out = append(out, fam[rng.Intn(len(fam))])
	}
	return out
}

func multiLeg(e *env) {
	u64, f64, f128, u128 := fixTypes[1], fixTypes[0], fixTypes[2], fixTypes[3]
	mk := func(t numType, neg bool, ip, fp string) mlit {
		src := ip + "." + fp
		if neg {
			src = "-" + src
		}
		return mlit{t: t, neg: neg, ip: ip, fp: fp, src: src, want: specFix(t, neg, ip, fp).Z}
	}
	// hand-picked programs: same digits, different zeros / underscores / signs / types
	e.runMulti([]mlit{mk(u64, false, "1", "5"), mk(u64, false, "1", "05"), mk(u64, false, "1", "005"), mk(u64, false, "1", "50"), mk(u64, false, "01", "5")}, "corpus")
	e.runMulti([]mlit{mk(u64, false, "0", "1"), mk(u64, false, "0", "01"), mk(u64, false, "0", "00000001"), mk(u64, false, "0", "10")}, "corpus")
	e.runMulti([]mlit{mk(f64, false, "1", "5"), mk(f64, true, "1", "5"), mk(f64, true, "1", "05"), mk(f64, false, "1", "0_5"), mk(f64, false, "1_0", "5")}, "corpus")
	e.runMulti([]mlit{mk(f64, false, "1", "5"), mk(u64, false, "1", "5"), mk(f128, false, "1", "5"), mk(u128, false, "1", "5"), mk(f128, false, "1", "05"), mk(u128, false, "1", "005")}, "corpus")
	e.runMulti([]mlit{mk(f128, false, "7", "9"), mk(f128, false, "7", "000000000000000000000009"), mk(f128, true, "7", "09"), mk(u128, false, "7", "90")}, "corpus")
	n := 40
	if e.thorough {
		n = 700
	}
	for i := 0; i < n; i++ {
		k := 3 + e.rng.Intn(6)
		var ls []mlit
		switch e.rng.Intn(4) {
		case 0: // one fixed-point type
			ls = pickLits(e.rng, e.fixFamily(fixTypes[e.rng.Intn(4)]), k)
		case 1: // the same family of texts at several fixed-point types
			for j := 0; j < k; j++ {
				ls = append(ls, pickLits(e.rng, e.fixFamily(fixTypes[e.rng.Intn(4)]), 1)...)
			}
		case 2: // one integer type: equal and neighbouring values in different bases/spellings
			ls = pickLits(e.rng, e.intFamily(intTypes[e.rng.Intn(len(intTypes))]), k)
		default: // several integer types
			for j := 0; j < k; j++ {
				ls = append(ls, pickLits(e.rng, e.intFamily(intTypes[e.rng.Intn(len(intTypes))]), 1)...)
			}
		}
		if len(ls) > 0 {
			e.runMulti(ls, "random")
		}
	}
	// several string literals in one program: equal strings written with different escapes
	groups := [][]string{
		{`A`, `\u{41}`, `\u{0041}`, `\u{00000041}`, `a`, `\u{61}`},
		{`a\nb`, `a\u{a}b`, `a\u{0A}b`, `a\tb`, `a\u{9}b`, `anb`},
		{`\u{e9}`, `é`, `e\u{301}`, `\u{65}\u{301}`, `e`},
		{`\"`, `\u{22}`, `\'`, `'`, `\\`, `\u{5c}`, `\0`, `\u{0}`},
		{``, `\u{}`, ` `, `\u{20}`, `\u{1F600}`, `\u{1f600}`, `😀`},
	}
	for _, g := range groups {
		var elems []string
		for _, s := range g {
			elems = append(elems, "\""+s+"\"")
		}
		script := "access(all) fun main(): [[UInt8]] {\n  let xs: [String] = [" + strings.Join(elems, ", ") + "]\n  let res: [[UInt8]] = []\n  for x in xs { res.append(x.utf8) }\n  return res\n}"
		for _, vm := range []bool{false, true} {
			o := e.h.RunScript(script, nil, vm)
			e.sum.Evaluations += len(g)
			e.sum.Count(fmt.Sprintf("multi-string program vm=%v", vm))
			replay := map[string]any{"op": "multi-string", "script": script, "vm": vm}
			if o.Class != "" {
				e.fail("multi-string-fails", fmt.Sprintf("program fails with %s (vm=%v)\n%s", o.Class, vm, script), replay)
				continue
			}
			outer := o.Value.(cadence.Array)
			for i, s := range g {
				dec, ok, _ := parseString(s)
				inner := outer.Values[i].(cadence.Array)
				bs := make([]byte, len(inner.Values))
				for j, v := range inner.Values {
					bs[j] = byte(v.(cadence.UInt8))
				}
				if !ok || string(bs) != norm.NFC.String(string(dec)) {
					e.fail(fmt.Sprintf("multi-string:vm=%v", vm), fmt.Sprintf("string literal \"%s\" (position %d) evaluates to %v (vm=%v), the parser decodes it to %v\n%s", s, i, []rune(string(bs)), vm, dec, script), replay)
				}
			}
		}
	}
}

func main() {
	flag.Parse()
	if *prop != "C40" {
		fmt.Fprintln(os.Stderr, "unknown prop", *prop)
		os.Exit(2)
	}
	e := &env{
		sum: &lib.Summary{},
		cw: &lib.CaseWriter{
			Dir: *dir, Prefix: "cases_C40",
			Header:   "From CV Require Import C40.Cases.",
			ElemType: "c40case",
			CheckFn:  "check_c40",
			PerFile:  700,
		},
		rng:      lib.NewRng(*seed),
		thorough: *tier == "thorough",
		failed:   map[string]int{},
		distinct: map[string]bool{},
		h:        lib.NewHost(),
	}
	e.sum.Rule = "every generated literal is embedded in `let x: T = <literal>` and run through the real parser, checker and both engines: " +
		"integer literals in bases 2/8/10/16 with underscores, leading zeros, mixed-case hex digits, up to ~320 digits, at min-1/min/min+1/max-1/max/max+1 " +
		"and random values of all 20 integer types, plus malformed ones (leading/trailing underscore, no digits); fixed-point literals around the extreme " +
		"integer part of all 4 fixed-point types with every number of fractional digits 1..scale+1, random values with underscores/leading zeros; " +
		"string literals built from random plain characters, simple escapes, \\u{...} escapes (1-8 digits, both cases, leading zeros) and malformed escapes; " +
		"ast.QuoteString output re-parsed; programs with SEVERAL literals (annotated lets, array literals, global and nested functions) whose texts collide under plausible normalisations " +
		"(same digits with different leading/trailing zeros of the fraction, underscores, leading zeros, signs, equal values in different bases, the same text at different types, equal strings with different escapes): every literal's run-time value in both engines. Verdict class + value are compared with an independent oracle and, as observed outputs, with the Coq model. " +
		"non-trivial = literal with more than one character; distinct = distinct (type, literal)"
	intLeg(e)
	fixLeg(e)
	stringLeg(e)
	multiLeg(e)
	e.cw.Close()
	e.sum.CaseFiles = e.cw.Files
	e.sum.Extra = map[string]any{"failure_counts": e.failed}
	e.sum.Write(*dir)
}
