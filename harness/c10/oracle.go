package main

import (
	"math/big"
)

// Independent oracle: the property's flat reading, written directly in Go.
// One invocation = all inherited and own pre-conditions in the entry state, the implementation's
// body, all own and inherited post-conditions in the exit state with before(e) = e in the entry
// state and result = the returned value. A false test condition = CondFail.

type oworld struct {
	st    []*big.Int
	trace [][2]*big.Int
}

type oerr struct{ cls string }

type oenv struct {
	a, b   *big.Int
	loc    *[2]*big.Int
	result *big.Int
	entry  []*big.Int // state at function entry (for before)
}

func b2z(b bool) *big.Int {
	if b {
		return big.NewInt(1)
	}
	return big.NewInt(0)
}

func (o *oracle) eval(e *Exp, en *oenv, cur []*big.Int) *big.Int {
	switch e.K {
	case "const":
		return big.NewInt(e.Z)
	case "param":
		if e.I == 1 {
			return en.b
		}
		return en.a
	case "field":
		return cur[e.I]
	case "local":
		return en.loc[e.I]
	case "result":
		return en.result
	case "before":
		return o.eval(e.A, &oenv{a: en.a, b: en.b}, en.entry)
	case "not":
		return b2z(o.eval(e.A, en, cur).Sign() == 0)
	case "bin":
		x, y := o.eval(e.A, en, cur), o.eval(e.B, en, cur)
		switch e.Op {
		case "BAdd":
			return new(big.Int).Add(x, y)
		case "BSub":
			return new(big.Int).Sub(x, y)
		case "BMul":
			return new(big.Int).Mul(x, y)
		case "BLt":
			return b2z(x.Cmp(y) < 0)
		case "BLe":
			return b2z(x.Cmp(y) <= 0)
		case "BEq":
			return b2z(x.Cmp(y) == 0)
		case "BAnd":
			return b2z(x.Sign() != 0 && y.Sign() != 0)
		case "BOr":
			return b2z(x.Sign() != 0 || y.Sign() != 0)
		}
	}
	panic("oracle eval " + e.K)
}

type oracle struct {
	p     *Prog
	w     *oworld
	eff   []int
	depth int
}

// linearise: every implemented interface once, parents after their first child, list order kept.
func linearise(p *Prog) []int {
	seen := map[int]bool{}
	var out []int
	var visit func(cs []int)
	visit = func(cs []int) {
		for _, c := range cs {
			if seen[c] {
				continue
			}
			seen[c] = true
			out = append(out, c)
			visit(p.Ifaces[c].Parents)
		}
	}
	visit(p.Confs)
	return out
}

func (o *oracle) checks(cs []*Cond, en *oenv) *oerr {
	for _, c := range cs {
		v := o.eval(c.E, en, o.w.st)
		if c.Test {
			if v.Sign() == 0 {
				return &oerr{"CondFail"}
			}
		} else {
			o.w.trace = append(o.w.trace, [2]*big.Int{big.NewInt(c.K), v})
		}
	}
	return nil
}

// impl returns the declaration whose body runs and whether it is the composite's own.
func (o *oracle) impl(f int) (*FDecl, bool) {
	if d := o.p.find(f); d != nil {
		return d, true
	}
	for _, i := range o.eff {
		if d := o.p.Ifaces[i].find(f); d != nil && d.HasBody {
			return d, false
		}
	}
	return nil, false
}

func (o *oracle) invoke(f int, a, b *big.Int) (*big.Int, *oerr) {
	o.depth++
	defer func() { o.depth-- }()
	if o.depth > 60 {
		return nil, &oerr{"OutOfFuel"}
	}
	d, own := o.impl(f)
	if d == nil {
		return nil, &oerr{"Internal"}
	}
	var inh []*FDecl
	for _, i := range o.eff {
		if x := o.p.Ifaces[i].find(f); x != nil && x.hasConds() {
			inh = append(inh, x)
		}
	}
	entry := append([]*big.Int{}, o.w.st...)
	en := &oenv{a: a, b: b}
	for _, x := range inh {
		if e := o.checks(x.Pre, en); e != nil {
			return nil, e
		}
	}
	if own {
		if e := o.checks(d.Pre, en); e != nil {
			return nil, e
		}
	}
	ben := &oenv{a: a, b: b, loc: &[2]*big.Int{big.NewInt(0), big.NewInt(0)}}
	r, ret, e := o.exec(d.Body, ben)
	if e != nil {
		return nil, e
	}
	if !ret {
		return nil, &oerr{"Internal"}
	}
	pen := &oenv{a: a, b: b, result: r, entry: entry}
	if own {
		if e := o.checks(d.Post, pen); e != nil {
			return nil, e
		}
	}
	for i := len(inh) - 1; i >= 0; i-- {
		if e := o.checks(inh[i].Post, pen); e != nil {
			return nil, e
		}
	}
	return r, nil
}

func (o *oracle) exec(ss []*Stmt, en *oenv) (*big.Int, bool, *oerr) {
	for _, s := range ss {
		switch s.K {
		case "assign":
			v := o.eval(s.E, en, o.w.st)
			st := append([]*big.Int{}, o.w.st...)
			st[s.I] = v
			o.w.st = st
		case "local":
			en.loc[s.I] = o.eval(s.E, en, o.w.st)
		case "call":
			a, b := o.eval(s.E, en, o.w.st), o.eval(s.E2, en, o.w.st)
			r, e := o.invoke(s.F, a, b)
			if e != nil {
				return nil, false, e
			}
			en.loc[s.I] = r
		case "emit":
			o.w.trace = append(o.w.trace, [2]*big.Int{big.NewInt(s.Z), o.eval(s.E, en, o.w.st)})
		case "if":
			br := s.El
			if o.eval(s.E, en, o.w.st).Sign() != 0 {
				br = s.T
			}
			r, ret, e := o.exec(br, en)
			if e != nil || ret {
				return r, ret, e
			}
		case "return":
			return o.eval(s.E, en, o.w.st), true, nil
		case "panic":
			return nil, false, &oerr{"UserOther"}
		}
	}
	return nil, false, nil
}

// obs is what the property constrains, per script.
type obs struct {
	Cls     string // "" on success
	Results []*big.Int
	Fields  []*big.Int
	Trace   [][2]*big.Int
}

func runOracle(p *Prog, init []int64, calls []Call) obs {
	w := &oworld{}
	for _, v := range init {
		w.st = append(w.st, big.NewInt(v))
	}
	o := &oracle{p: p, w: w, eff: linearise(p)}
	var res obs
	for _, c := range calls {
		r, e := o.invoke(c.F, big.NewInt(c.A), big.NewInt(c.B))
		if e != nil {
			return obs{Cls: e.cls, Trace: w.trace}
		}
		res.Results = append(res.Results, r)
	}
	res.Fields = w.st
	res.Trace = w.trace
	return res
}
