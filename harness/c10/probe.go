package main

import (
	"fmt"
	"os"
	"strings"

	"cvh/lib"

	"github.com/onflow/cadence"
)

// probeFile runs every "//// name" separated script of a file in both engines and prints the outcome.
func probeFile(path string) {
	b, err := os.ReadFile(path)
	if err != nil {
		panic(err)
	}
	parts := strings.Split(string(b), "\n////")
	for _, p := range parts {
		if strings.TrimSpace(p) == "" {
			continue
		}
		for _, vm := range []bool{false, true} {
			h := lib.NewHost()
			o := h.RunScript(p, nil, vm)
			fmt.Printf("---- vm=%v class=%q value=%v\n  logs=%v\n", vm, o.Class, o.Value, o.Logs)
			for _, e := range o.Events {
				fmt.Printf("  event %s\n", e.String())
				if os.Getenv("PROBE_TYPES") != "" {
					m := cadence.FieldsMappedByName(e)
					tm := e.EventType.FieldsMappedByName()
					for name, v := range m {
						fmt.Printf("      field %s: %T declared %s\n", name, v, tm[name].ID())
					}
				}
			}
			if o.Err != nil {
				s := o.Err.Error()
				if len(s) > 600 {
					s = s[:600]
				}
				fmt.Printf("  err=%s\n", s)
			}
		}
	}
}

// probeContract deploys contracts "Name=file" (comma separated; addresses 0x1, 0x2, ...) and runs the script file, in both engines.
func probeContract(spec, scriptPath string) {
	scr, err := os.ReadFile(scriptPath)
	if err != nil {
		panic(err)
	}
	for _, vm := range []bool{false, true} {
		h := lib.NewHost()
		for i, c := range strings.Split(spec, ",") {
			kv := strings.SplitN(c, "=", 2)
			code, err := os.ReadFile(kv[1])
			if err != nil {
				panic(err)
			}
			var a [8]byte
			a[7] = byte(i + 1)
			d := h.Deploy(a, kv[0], string(code), vm)
			fmt.Printf("---- vm=%v deploy %s class=%q err=%.300v\n", vm, kv[0], d.Class, d.Err)
		}
		o := h.RunScript(string(scr), nil, vm)
		fmt.Printf("     run class=%q value=%v events=%v\n", o.Class, o.Value, o.Events)
		if o.Err != nil {
			fmt.Printf("     err=%.500s\n", o.Err.Error())
		}
	}
}
