package main

import (
	"fmt"

	"cvh/lib"
)

type gen struct {
	r   *lib.Rng
	nf  int
	nfn int
}

type ectx struct {
	local, result, before bool
}

func (g *gen) konst(lo, hi int) *Exp {
	return &Exp{K: "const", Z: int64(lo + g.r.Intn(hi-lo+1))}
}

func (g *gen) atom(c ectx) *Exp {
	for {
		switch g.r.Intn(7) {
		case 0:
			return g.konst(-2, 6)
		case 1, 2, 3:
			return &Exp{K: "param", I: g.r.Intn(2)}
		case 4:
			return &Exp{K: "field", I: g.r.Intn(g.nf)}
		case 5:
			if c.local {
				return &Exp{K: "local", I: g.r.Intn(2)}
			}
			if c.result {
				return &Exp{K: "result"}
			}
		case 6:
			if c.before {
				return &Exp{K: "before", A: g.intExp(ectx{}, g.r.Intn(2))}
			}
			if c.result {
				return &Exp{K: "result"}
			}
		}
	}
}

func (g *gen) intExp(c ectx, depth int) *Exp {
	if depth <= 0 || g.r.Chance(1, 3) {
		return g.atom(c)
	}
	switch g.r.Intn(5) {
	case 0, 1:
		return &Exp{K: "bin", Op: "BAdd", A: g.intExp(c, depth-1), B: g.intExp(c, depth-1)}
	case 2, 3:
		return &Exp{K: "bin", Op: "BSub", A: g.intExp(c, depth-1), B: g.intExp(c, depth-1)}
	default:
		k := lib.Pick(g.r, []int64{-1, 2, 3})
		return &Exp{K: "bin", Op: "BMul", A: g.intExp(c, depth-1), B: &Exp{K: "const", Z: k}}
	}
}

// cmp: a comparison that is true for most small values when likely, false for most otherwise.
func (g *gen) cmp(c ectx, likely bool) *Exp {
	e := g.intExp(c, 1+g.r.Intn(2))
	var t *Exp
	switch g.r.Intn(4) {
	case 0:
		t = &Exp{K: "bin", Op: "BLe", A: e, B: g.konst(5, 16)}
	case 1:
		t = &Exp{K: "bin", Op: "BLt", A: g.konst(-12, -1), B: e}
	case 2:
		t = &Exp{K: "not", A: &Exp{K: "bin", Op: "BEq", A: e, B: g.konst(-3, 9)}}
	default:
		// relation between two expressions: less predictable
		t = &Exp{K: "bin", Op: "BLe", A: e, B: &Exp{K: "bin", Op: "BAdd", A: g.intExp(c, 1), B: g.konst(2, 9)}}
	}
	if !likely {
		t = &Exp{K: "not", A: t}
	}
	return t
}

func (g *gen) boolExp(c ectx) *Exp {
	likely := !g.r.Chance(1, 9)
	switch g.r.Intn(8) {
	case 0:
		return &Exp{K: "bin", Op: "BAnd", A: g.cmp(c, true), B: g.cmp(c, likely)}
	case 1:
		return &Exp{K: "bin", Op: "BOr", A: g.cmp(c, likely), B: g.cmp(c, false)}
	default:
		return g.cmp(c, likely)
	}
}

func (g *gen) conds(c ectx, ent, f, kind int) []*Cond {
	n := g.r.Intn(3)
	if g.r.Chance(1, 6) {
		n = 3
	}
	var out []*Cond
	for i := 0; i < n; i++ {
		if g.r.Chance(1, 3) {
			out = append(out, &Cond{K: int64(ent*1000 + f*100 + kind*10 + i), E: g.intExp(c, 1)})
		} else {
			out = append(out, &Cond{Test: true, E: g.boolExp(c)})
		}
	}
	return out
}

// body: statements ending in a return; callees: functions that may be called on self.
func (g *gen) body(ent, f int, callees []int) []*Stmt {
	c := ectx{local: true}
	key := 0
	nextKey := func() int64 { key++; return int64(ent*1000 + f*100 + 30 + key) }
	var simple func() *Stmt
	simple = func() *Stmt {
		switch g.r.Intn(8) {
		case 0, 1, 2:
			return &Stmt{K: "assign", I: g.r.Intn(g.nf), E: g.intExp(c, 2)}
		case 3, 6:
			return &Stmt{K: "local", I: g.r.Intn(2), E: g.intExp(c, 2)}
		case 4, 5:
			if len(callees) > 0 {
				return &Stmt{K: "call", I: g.r.Intn(2), F: lib.Pick(g.r, callees), E: g.intExp(c, 1), E2: g.intExp(c, 1)}
			}
			return &Stmt{K: "assign", I: g.r.Intn(g.nf), E: g.intExp(c, 2)}
		default:
			return &Stmt{K: "emit", Z: nextKey(), E: g.intExp(c, 1)}
		}
	}
	var out []*Stmt
	out = append(out, &Stmt{K: "emit", Z: nextKey(), E: &Exp{K: "param", I: 0}}) // the body has started
	n := 1 + g.r.Intn(4)
	for i := 0; i < n; i++ {
		if g.r.Chance(1, 4) {
			s := &Stmt{K: "if", E: g.cmp(c, g.r.Bool())}
			s.T = append(s.T, simple())
			switch g.r.Intn(6) {
			case 0, 1:
				s.T = append(s.T, &Stmt{K: "return", E: g.intExp(c, 2)}) // early return
			case 2:
				if g.r.Chance(1, 3) {
					s.T = append(s.T, &Stmt{K: "panic"})
				}
			}
			if g.r.Bool() {
				s.El = append(s.El, simple())
			}
			out = append(out, s)
		} else {
			out = append(out, simple())
		}
	}
	out = append(out, &Stmt{K: "return", E: g.intExp(c, 2)})
	return out
}

// program generates one composite with its interface chains, respecting the checker's rules
// about default functions (at most one default per function among related interfaces; a default
// inherited from an ancestor can only be re-declared together with conditions).
func (g *gen) program() *Prog {
	p := &Prog{NF: 1 + g.r.Intn(3), Resource: g.r.Chance(1, 3)}
	g.nf = p.NF
	g.nfn = 2 + g.r.Intn(3)
	ni := 1 + g.r.Intn(5)
	depth := make([]int, ni)
	anc := make([]map[int]bool, ni) // strict ancestors
	for i := 0; i < ni; i++ {
		it := &IFace{}
		anc[i] = map[int]bool{}
		depth[i] = 1
		if i > 0 {
			np := g.r.Intn(3)
			for k := 0; k < np; k++ {
				j := g.r.Intn(i)
				dup := false
				for _, x := range it.Parents {
					dup = dup || x == j
				}
				if dup || depth[j] >= 3 {
					continue
				}
				it.Parents = append(it.Parents, j)
				if depth[j]+1 > depth[i] {
					depth[i] = depth[j] + 1
				}
				anc[i][j] = true
				for a := range anc[j] {
					anc[i][a] = true
				}
			}
		}
		p.Ifaces = append(p.Ifaces, it)
	}
	related := func(x, y int) bool { // share a descendant-or-self
		for k := 0; k < ni; k++ {
			hx := k == x || anc[k][x]
			hy := k == y || anc[k][y]
			if hx && hy {
				return true
			}
		}
		return false
	}
	// conformances of the composite
	nc := 1 + g.r.Intn(3)
	for k := 0; k < nc; k++ {
		j := g.r.Intn(ni)
		dup := false
		for _, x := range p.Confs {
			dup = dup || x == j
		}
		if !dup {
			p.Confs = append(p.Confs, j)
		}
	}
	eff := linearise(p)
	inEff := map[int]bool{}
	for _, i := range eff {
		inEff[i] = true
	}
	// which interface declares which function, and who owns the default(s)
	type role struct{ declares, deflt bool }
	roles := make([][]role, g.nfn)
	mustOwn := make([]bool, g.nfn)
	for f := 0; f < g.nfn; f++ {
		roles[f] = make([]role, ni)
		var decl []int
		for i := 0; i < ni; i++ {
			if g.r.Chance(11, 20) {
				roles[f][i].declares = true
				decl = append(decl, i)
			}
		}
		if len(decl) > 0 && g.r.Chance(3, 5) {
			o1 := lib.Pick(g.r, decl)
			roles[f][o1].deflt = true
			if g.r.Chance(1, 4) {
				o2 := lib.Pick(g.r, decl)
				if o2 != o1 && !related(o1, o2) {
					roles[f][o2].deflt = true
					mustOwn[f] = true
				}
			}
		}
	}
	// declared (transitively) by interface i
	declaredBy := func(i, f int) bool {
		if roles[f][i].declares {
			return true
		}
		for a := range anc[i] {
			if roles[f][a].declares {
				return true
			}
		}
		return false
	}
	// composite: which functions it owns
	owns := make([]bool, g.nfn)
	has := make([]bool, g.nfn)
	for f := 0; f < g.nfn; f++ {
		effDecl, defaults := false, 0
		for _, i := range eff {
			if roles[f][i].declares {
				effDecl = true
				if roles[f][i].deflt {
					defaults++
				}
			}
		}
		switch {
		case effDecl && defaults == 1 && !mustOwn[f]:
			owns[f] = g.r.Chance(9, 20)
			has[f] = true
		case effDecl:
			owns[f], has[f] = true, true
		default:
			owns[f] = g.r.Bool()
			has[f] = owns[f]
		}
	}
	// declarations
	for i := 0; i < ni; i++ {
		it := p.Ifaces[i]
		for f := 0; f < g.nfn; f++ {
			if !roles[f][i].declares {
				continue
			}
			d := &FDecl{Name: f, Params: [2]string{fmt.Sprintf("p%d", i), fmt.Sprintf("q%d", i)}}
			if g.r.Chance(4, 5) {
				d.Pre = g.conds(ectx{}, i+1, f, 1)
				d.Post = g.conds(ectx{result: true, before: true}, i+1, f, 2)
			}
			if roles[f][i].deflt {
				d.HasBody = true
				var callees []int
				for h := f + 1; h < g.nfn; h++ {
					if declaredBy(i, h) {
						callees = append(callees, h)
					}
				}
				d.Body = g.body(i+1, f, callees)
			} else {
				// re-declaring a default inherited from an ancestor needs conditions
				for a := range anc[i] {
					if roles[f][a].deflt && !d.hasConds() {
						d.Pre = []*Cond{{Test: true, E: g.boolExp(ectx{})}}
					}
				}
			}
			it.Funs = append(it.Funs, d)
		}
	}
	for f := 0; f < g.nfn; f++ {
		if !owns[f] {
			continue
		}
		d := &FDecl{Name: f, Params: [2]string{"a", "b"}, HasBody: true}
		// body locals named like parameters of inherited declarations of f (any level of the chain)
		var names []string
		for _, i := range eff {
			if roles[f][i].declares {
				names = append(names, fmt.Sprintf("p%d", i), fmt.Sprintf("q%d", i))
			}
		}
		if len(names) >= 2 && g.r.Chance(5, 6) {
			x := g.r.Intn(len(names))
			y := (x + 1 + g.r.Intn(len(names)-1)) % len(names)
			d.Locals = [2]string{names[x], names[y]}
		}
		if g.r.Chance(4, 5) {
			d.Pre = g.conds(ectx{}, 0, f, 1)
			d.Post = g.conds(ectx{result: true, before: true}, 0, f, 2)
		}
		var callees []int
		for h := f + 1; h < g.nfn; h++ {
			if has[h] {
				callees = append(callees, h)
			}
		}
		d.Body = g.body(0, f, callees)
		p.Funs = append(p.Funs, d)
	}
	return p
}

func (g *gen) callable(p *Prog) []int {
	eff := linearise(p)
	var out []int
	for f := 0; f < g.nfn; f++ {
		ok := p.find(f) != nil
		for _, i := range eff {
			if d := p.Ifaces[i].find(f); d != nil && d.HasBody {
				ok = true
			}
		}
		if ok {
			out = append(out, f)
		}
	}
	return out
}

func (g *gen) calls(fs []int) []Call {
	n := 1 + g.r.Intn(3)
	var out []Call
	for i := 0; i < n; i++ {
		out = append(out, Call{F: lib.Pick(g.r, fs), A: int64(g.r.Intn(13) - 3), B: int64(g.r.Intn(13) - 3)})
	}
	return out
}

func (g *gen) inits(p *Prog) []int64 {
	out := make([]int64, p.NF)
	for i := range out {
		out[i] = int64(g.r.Intn(7) - 1)
	}
	return out
}
