package main

import (
	"fmt"

	"cvh/lib"

	"github.com/onflow/cadence/common"
)

// Minimized past finding, run first on every run (both engines): the default function f of a struct
// interface nested in contract C must not be subject to the conditions that the contract interface CI
// (to which the CONTRACT C conforms) declares for the contract-level function f.

const corpusCI = `
access(all) contract interface CI {
    access(all) fun f(_ x: Int): Int { pre { x > 0: "CI.f pre" } }
}
`

const corpusC = `
import CI from 0x1
access(all) contract C: CI {
    access(all) fun f(_ x: Int): Int { return x }
    access(all) struct interface I {
        access(all) fun f(_ x: Int): Int { return x + 1 }
    }
    access(all) struct S: I {}
    access(all) fun run(): Int { return S().f(-1) }
}
`

const corpusScript = "import C from 0x2\naccess(all) fun main(): Int { return C.run() }\n"

func corpus(sum *lib.Summary) {
	for _, vm := range []bool{false, true} {
		engine := map[bool]string{false: "interpreter", true: "vm"}[vm]
		h := lib.NewHost()
		d1 := h.Deploy(common.MustBytesToAddress([]byte{1}), "CI", corpusCI, vm)
		d2 := h.Deploy(common.MustBytesToAddress([]byte{2}), "C", corpusC, vm)
		o := h.RunScript(corpusScript, nil, vm)
		sum.Evaluations++
		replay := map[string]any{"engine": engine, "contract_CI": corpusCI, "contract_C": corpusC, "script": corpusScript,
			"required": "0 (S implements only I; I.f has no conditions)"}
		switch {
		case d1.Class != "" || d2.Class != "":
			sum.Fail("c10:"+engine+":corpus-deploy", fmt.Sprintf("%s: corpus contracts rejected: %v %v", engine, d1.Err, d2.Err), replay)
		case o.Class == lib.ECondFail:
			sum.Fail("c10:"+engine+":nested-interface-default-gets-contract-interface-condition",
				fmt.Sprintf("%s: S().f(-1) fails with a condition error although no condition applies to S.f (only I.f, without conditions): %v", engine, lastLine(o.Err.Error())), replay)
		case o.Class != "" || o.Value == nil || o.Value.String() != "0":
			sum.Fail("c10:"+engine+":corpus-result", fmt.Sprintf("%s: S().f(-1) = %v (%s), required 0", engine, o.Value, o.Class), replay)
		}
	}
}

func lastLine(s string) string {
	out := ""
	for i, j := 0, 0; j <= len(s); j++ {
		if j == len(s) || s[j] == '\n' {
			if l := s[i:j]; len(l) > 6 && l[:6] == "error:" {
				out = l
			}
			i = j + 1
		}
	}
	return out
}
