package main

import (
	"fmt"
	"strings"
)

// The AST mirrors coq/theories/C10/Model.v. Every program is emitted twice: as Cadence source
// and as a Coq term.

type Exp struct {
	K    string // const param field local result before not bin
	Z    int64
	I    int // param/local: 0|1, field: index
	Op   string
	A, B *Exp
}

var opSym = map[string]string{
	"BAdd": "+", "BSub": "-", "BMul": "*", "BLt": "<", "BLe": "<=", "BEq": "==", "BAnd": "&&", "BOr": "||",
}

// pctx: how names are rendered in the enclosing declaration.
type pctx struct {
	params [2]string
	locals [2]string
}

func (e *Exp) cdc(c *pctx) string {
	switch e.K {
	case "const":
		if e.Z < 0 {
			return fmt.Sprintf("(%d)", e.Z)
		}
		return fmt.Sprint(e.Z)
	case "param":
		return c.params[e.I]
	case "field":
		return fmt.Sprintf("self.x%d", e.I)
	case "local":
		return c.locals[e.I]
	case "result":
		return "result"
	case "before":
		return "before(" + e.A.cdc(c) + ")"
	case "not":
		return "!(" + e.A.cdc(c) + ")"
	case "bin":
		return "(" + e.A.cdc(c) + " " + opSym[e.Op] + " " + e.B.cdc(c) + ")"
	}
	panic("exp kind " + e.K)
}

func coqBool(b bool) string {
	if b {
		return "true"
	}
	return "false"
}

func coqZ(z int64) string {
	if z < 0 {
		return fmt.Sprintf("(%d)", z)
	}
	return fmt.Sprint(z)
}

func (e *Exp) coq() string {
	switch e.K {
	case "const":
		return "(EConst " + coqZ(e.Z) + ")"
	case "param":
		return "(EParam " + coqBool(e.I == 1) + ")"
	case "field":
		return fmt.Sprintf("(EField %d%%nat)", e.I)
	case "local":
		return "(ELocal " + coqBool(e.I == 1) + ")"
	case "result":
		return "EResult"
	case "before":
		return "(EBefore " + e.A.coq() + ")"
	case "not":
		return "(ENot " + e.A.coq() + ")"
	case "bin":
		return "(EBin " + e.Op + " " + e.A.coq() + " " + e.B.coq() + ")"
	}
	panic("exp kind " + e.K)
}

type Stmt struct {
	K     string // assign local call emit if return panic
	I     int    // field / local index / call destination local
	F     int    // callee
	Z     int64  // emit key
	E, E2 *Exp
	T, El []*Stmt
}

func indent(n int) string { return strings.Repeat("    ", n) }

// cdcStmts renders a statement list; inIface: field assignment goes through the setter.
func cdcStmts(ss []*Stmt, c *pctx, inIface bool, ind int) string {
	var sb strings.Builder
	for _, s := range ss {
		sb.WriteString(indent(ind))
		switch s.K {
		case "assign":
			if inIface {
				fmt.Fprintf(&sb, "self.set%d(%s)\n", s.I, s.E.cdc(c))
			} else {
				fmt.Fprintf(&sb, "self.x%d = %s\n", s.I, s.E.cdc(c))
			}
		case "local":
			fmt.Fprintf(&sb, "%s = %s\n", c.locals[s.I], s.E.cdc(c))
		case "call":
			fmt.Fprintf(&sb, "%s = self.f%d(%s, %s)\n", c.locals[s.I], s.F, s.E.cdc(c), s.E2.cdc(c))
		case "emit":
			fmt.Fprintf(&sb, "emit Ev(k: %d, v: %s)\n", s.Z, s.E.cdc(c))
		case "if":
			fmt.Fprintf(&sb, "if %s {\n%s%s}", s.E.cdc(c), cdcStmts(s.T, c, inIface, ind+1), indent(ind))
			if len(s.El) > 0 {
				fmt.Fprintf(&sb, " else {\n%s%s}", cdcStmts(s.El, c, inIface, ind+1), indent(ind))
			}
			sb.WriteString("\n")
		case "return":
			fmt.Fprintf(&sb, "return %s\n", s.E.cdc(c))
		case "panic":
			sb.WriteString("panic(\"p\")\n")
		default:
			panic("stmt kind " + s.K)
		}
	}
	return sb.String()
}

func coqStmts(ss []*Stmt) string {
	if len(ss) == 0 {
		return "SSkip"
	}
	if len(ss) == 1 {
		return ss[0].coq()
	}
	return "(SSeq " + ss[0].coq() + " " + coqStmts(ss[1:]) + ")"
}

func (s *Stmt) coq() string {
	switch s.K {
	case "assign":
		return fmt.Sprintf("(SAssign %d%%nat %s)", s.I, s.E.coq())
	case "local":
		return "(SLocal " + coqBool(s.I == 1) + " " + s.E.coq() + ")"
	case "call":
		return fmt.Sprintf("(SCall %s %d%%nat %s %s)", coqBool(s.I == 1), s.F, s.E.coq(), s.E2.coq())
	case "emit":
		return "(SEmit " + coqZ(s.Z) + " " + s.E.coq() + ")"
	case "if":
		return "(SIf " + s.E.coq() + " " + coqStmts(s.T) + " " + coqStmts(s.El) + ")"
	case "return":
		return "(SReturn " + s.E.coq() + ")"
	case "panic":
		return "SPanic"
	}
	panic("stmt kind " + s.K)
}

type Cond struct {
	Test bool
	K    int64 // emit key
	E    *Exp
}

func (c *Cond) cdc(p *pctx) string {
	if c.Test {
		return c.E.cdc(p)
	}
	return fmt.Sprintf("emit Ev(k: %d, v: %s)", c.K, c.E.cdc(p))
}

func (c *Cond) coq() string {
	if c.Test {
		return "CTest " + c.E.coq()
	}
	return "CEmit " + coqZ(c.K) + " " + c.E.coq()
}

func coqConds(cs []*Cond) string {
	parts := make([]string, len(cs))
	for i, c := range cs {
		parts[i] = c.coq()
	}
	return "[" + strings.Join(parts, "; ") + "]"
}

type FDecl struct {
	Name    int
	Pre     []*Cond
	Post    []*Cond
	Body    []*Stmt // nil: no statements
	HasBody bool
	Params  [2]string
	// names of the two body locals (top-level `var`s of the body). For the composite's own functions they are
	// chosen among the parameter names of the inherited declarations of the same function, so that a body
	// local shadows an interface parameter name that inherited conditions refer to.
	Locals [2]string
}

func (d *FDecl) locals() [2]string {
	if d.Locals[0] == "" {
		return [2]string{"l0", "l1"}
	}
	return d.Locals
}

func (d *FDecl) hasConds() bool { return len(d.Pre)+len(d.Post) > 0 }

func (d *FDecl) cdc(inIface bool, ind int) string {
	c := &pctx{params: d.Params, locals: d.locals()}
	var sb strings.Builder
	fmt.Fprintf(&sb, "%saccess(all) fun f%d(_ %s: Int, _ %s: Int): Int", indent(ind), d.Name, d.Params[0], d.Params[1])
	if !d.HasBody && !d.hasConds() {
		sb.WriteString("\n")
		return sb.String()
	}
	sb.WriteString(" {\n")
	if len(d.Pre) > 0 {
		sb.WriteString(indent(ind+1) + "pre {\n")
		for _, x := range d.Pre {
			sb.WriteString(indent(ind+2) + x.cdc(c) + "\n")
		}
		sb.WriteString(indent(ind+1) + "}\n")
	}
	if len(d.Post) > 0 {
		sb.WriteString(indent(ind+1) + "post {\n")
		for _, x := range d.Post {
			sb.WriteString(indent(ind+2) + x.cdc(c) + "\n")
		}
		sb.WriteString(indent(ind+1) + "}\n")
	}
	if d.HasBody {
		sb.WriteString(indent(ind+1) + "var " + c.locals[0] + " = 0\n" + indent(ind+1) + "var " + c.locals[1] + " = 0\n")
		sb.WriteString(cdcStmts(d.Body, c, inIface, ind+1))
	}
	sb.WriteString(indent(ind) + "}\n")
	return sb.String()
}

func (d *FDecl) coq() string {
	body := "BNone"
	if d.HasBody {
		body = "(BStmts " + coqStmts(d.Body) + ")"
	}
	return fmt.Sprintf("(%d%%nat, FDecl %s %s SSkip %s SSkip)", d.Name, coqConds(d.Pre), coqConds(d.Post), body)
}

type IFace struct {
	Parents []int
	Funs    []*FDecl
}

type Prog struct {
	Ifaces   []*IFace
	Confs    []int
	Funs     []*FDecl
	NF       int
	Resource bool
	Contract bool // interfaces in contract A (0x1), composite in contract B (0x2)
}

func natList(xs []int) string {
	parts := make([]string, len(xs))
	for i, x := range xs {
		parts[i] = fmt.Sprintf("%d%%nat", x)
	}
	return "[" + strings.Join(parts, "; ") + "]"
}

func coqFuns(fs []*FDecl) string {
	parts := make([]string, len(fs))
	for i, f := range fs {
		parts[i] = f.coq()
	}
	return "[" + strings.Join(parts, ";\n    ") + "]"
}

func (p *Prog) coq() string {
	parts := make([]string, len(p.Ifaces))
	for i, it := range p.Ifaces {
		parts[i] = "IFace " + natList(it.Parents) + " " + coqFuns(it.Funs)
	}
	return "(Prog [" + strings.Join(parts, ";\n   ") + "]\n  " + natList(p.Confs) + "\n  " + coqFuns(p.Funs) + ")"
}

func (p *Prog) kind() string {
	if p.Resource {
		return "resource"
	}
	return "struct"
}

func (p *Prog) find(f int) *FDecl {
	for _, d := range p.Funs {
		if d.Name == f {
			return d
		}
	}
	return nil
}

func (it *IFace) find(f int) *FDecl {
	for _, d := range it.Funs {
		if d.Name == f {
			return d
		}
	}
	return nil
}

// declarations renders interfaces (and the event) and the composite. qual: prefix for interface
// names when the composite lives in another contract.
func (p *Prog) ifaceDecls(ind int) string {
	var sb strings.Builder
	sb.WriteString(indent(ind) + "access(all) event Ev(k: Int, v: Int)\n")
	// interfaces are printed in reverse index order: a conformance may refer to a later declaration
	for i := len(p.Ifaces) - 1; i >= 0; i-- {
		it := p.Ifaces[i]
		fmt.Fprintf(&sb, "%saccess(all) %s interface I%d", indent(ind), p.kind(), i)
		if len(it.Parents) > 0 {
			names := make([]string, len(it.Parents))
			for k, x := range it.Parents {
				names[k] = fmt.Sprintf("I%d", x)
			}
			sb.WriteString(": " + strings.Join(names, ", "))
		}
		sb.WriteString(" {\n")
		for k := 0; k < p.NF; k++ {
			fmt.Fprintf(&sb, "%saccess(all) var x%d: Int\n", indent(ind+1), k)
			fmt.Fprintf(&sb, "%saccess(all) fun set%d(_ v: Int)\n", indent(ind+1), k)
		}
		for _, d := range it.Funs {
			sb.WriteString(d.cdc(true, ind+1))
		}
		sb.WriteString(indent(ind) + "}\n")
	}
	return sb.String()
}

func (p *Prog) compositeDecl(qual string, ind int) string {
	var sb strings.Builder
	fmt.Fprintf(&sb, "%saccess(all) %s S", indent(ind), p.kind())
	if len(p.Confs) > 0 {
		names := make([]string, len(p.Confs))
		for k, x := range p.Confs {
			names[k] = fmt.Sprintf("%sI%d", qual, x)
		}
		sb.WriteString(": " + strings.Join(names, ", "))
	}
	sb.WriteString(" {\n")
	var ps, as []string
	for k := 0; k < p.NF; k++ {
		fmt.Fprintf(&sb, "%saccess(all) var x%d: Int\n", indent(ind+1), k)
		fmt.Fprintf(&sb, "%saccess(all) fun set%d(_ v: Int) { self.x%d = v }\n", indent(ind+1), k, k)
		ps = append(ps, fmt.Sprintf("x%d: Int", k))
		as = append(as, fmt.Sprintf("self.x%d = x%d", k, k))
	}
	fmt.Fprintf(&sb, "%sinit(%s) { %s }\n", indent(ind+1), strings.Join(ps, ", "), strings.Join(as, "; "))
	for _, d := range p.Funs {
		sb.WriteString(d.cdc(false, ind+1))
	}
	sb.WriteString(indent(ind) + "}\n")
	return sb.String()
}

type Call struct {
	F    int
	A, B int64
}

func coqCalls(cs []Call) string {
	parts := make([]string, len(cs))
	for i, c := range cs {
		parts[i] = fmt.Sprintf("(%d%%nat, %s, %s)", c.F, coqZ(c.A), coqZ(c.B))
	}
	return "[" + strings.Join(parts, "; ") + "]"
}

// mainFun renders the driver: construct the instance, perform the calls, return results ++ fields.
func (p *Prog) mainFun(init []int64, calls []Call) string {
	var sb strings.Builder
	sb.WriteString("access(all) fun main(): [Int] {\n")
	args := make([]string, len(init))
	for k, v := range init {
		args[k] = fmt.Sprintf("x%d: %d", k, v)
	}
	ctor := "S(" + strings.Join(args, ", ") + ")"
	switch {
	case p.Contract && p.Resource:
		sb.WriteString("    let s <- B.make(" + strings.Join(args, ", ") + ")\n")
	case p.Contract:
		sb.WriteString("    let s = B." + ctor + "\n")
	case p.Resource:
		sb.WriteString("    let s <- create " + ctor + "\n")
	default:
		sb.WriteString("    let s = " + ctor + "\n")
	}
	var out []string
	for i, c := range calls {
		fmt.Fprintf(&sb, "    let r%d = s.f%d(%d, %d)\n", i, c.F, c.A, c.B)
		out = append(out, fmt.Sprintf("r%d", i))
	}
	for k := 0; k < p.NF; k++ {
		out = append(out, fmt.Sprintf("s.x%d", k))
	}
	sb.WriteString("    let out: [Int] = [" + strings.Join(out, ", ") + "]\n")
	if p.Resource {
		sb.WriteString("    destroy s\n")
	}
	sb.WriteString("    return out\n}\n")
	return sb.String()
}

// script renders a self-contained script (non-contract form).
func (p *Prog) script(init []int64, calls []Call) string {
	return p.ifaceDecls(0) + p.compositeDecl("", 0) + p.mainFun(init, calls)
}

func (p *Prog) contractA() string {
	return "access(all) contract A {\n" + p.ifaceDecls(1) + "}\n"
}

func (p *Prog) contractB() string {
	var sb strings.Builder
	sb.WriteString("import A from 0x1\naccess(all) contract B {\n")
	sb.WriteString("    access(all) event Ev(k: Int, v: Int)\n")
	sb.WriteString(p.compositeDecl("A.", 1))
	if p.Resource {
		var ps, as []string
		for k := 0; k < p.NF; k++ {
			ps = append(ps, fmt.Sprintf("x%d: Int", k))
			as = append(as, fmt.Sprintf("x%d: x%d", k, k))
		}
		fmt.Fprintf(&sb, "    access(all) fun make(%s): @S { return <- create S(%s) }\n", strings.Join(ps, ", "), strings.Join(as, ", "))
	}
	sb.WriteString("}\n")
	return sb.String()
}

func (p *Prog) contractScript(init []int64, calls []Call) string {
	return "import B from 0x2\n" + p.mainFun(init, calls)
}
