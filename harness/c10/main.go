// Command c10: correspondence + direct-oracle harness for C10 (function pre-/post-conditions).
// Generated composites implementing interface chains (default functions, overrides, nested calls,
// before/result/emit conditions) are emitted as Cadence scripts (or contracts + script) and as Coq
// terms; both engines run them through lib.Host; outcome, results, final fields and the ordered
// event trace are compared with an independent flat oracle in Go and written to Coq case files.
package main

import (
	"flag"
	"fmt"
	"math/big"
	"os"
	"strings"

	"cvh/lib"

	"github.com/onflow/cadence"
	"github.com/onflow/cadence/common"
)

var (
	prop  = flag.String("prop", "C10", "property id")
	seed  = flag.Uint64("seed", 1, "seed")
	tier  = flag.String("tier", "quick", "quick|thorough")
	dir   = flag.String("dir", ".", "output directory")
	probe = flag.String("probe", "", "run the scripts of a file in both engines (debug)")
	dump  = flag.Bool("dump", false, "print generated sources (debug)")
	pcon  = flag.String("probe-contract", "", "Name=file,Name2=file2:scriptfile (debug)")
)

func main() {
	flag.Parse()
	if *probe != "" {
		probeFile(*probe)
		return
	}
	if *pcon != "" {
		parts := strings.SplitN(*pcon, ":", 2)
		probeContract(parts[0], parts[1])
		return
	}
	sum := &lib.Summary{}
	switch *prop {
	case "C10":
		c10(sum)
	default:
		fmt.Fprintln(os.Stderr, "unknown prop", *prop)
		os.Exit(2)
	}
	sum.Write(*dir)
}

func mapClass(cls string) string {
	if cls == "Panic" {
		return lib.EUserOther
	}
	return cls
}

// observe projects an engine outcome onto the observables of the property.
func observe(o lib.Outcome, ncalls int) (obs, string) {
	var r obs
	for _, e := range o.Events {
		f := cadence.FieldsMappedByName(e)
		k, ok1 := f["k"].(cadence.Int)
		v, ok2 := f["v"].(cadence.Int)
		if !ok1 || !ok2 {
			return r, "event without Int fields k, v: " + e.String()
		}
		r.Trace = append(r.Trace, [2]*big.Int{k.Big(), v.Big()})
	}
	if o.Class != "" {
		r.Cls = mapClass(o.Class)
		return r, ""
	}
	arr, ok := o.Value.(cadence.Array)
	if !ok || len(arr.Values) < ncalls {
		return r, fmt.Sprintf("unexpected script result %v", o.Value)
	}
	for i, x := range arr.Values {
		z, ok := x.(cadence.Int)
		if !ok {
			return r, fmt.Sprintf("unexpected script result %v", o.Value)
		}
		if i < ncalls {
			r.Results = append(r.Results, z.Big())
		} else {
			r.Fields = append(r.Fields, z.Big())
		}
	}
	return r, ""
}

func bigsEq(a, b []*big.Int) bool {
	if len(a) != len(b) {
		return false
	}
	for i := range a {
		if a[i].Cmp(b[i]) != 0 {
			return false
		}
	}
	return true
}

func (o obs) eq(p obs) (bool, string) {
	if o.Cls != p.Cls {
		return false, "outcome"
	}
	if len(o.Trace) != len(p.Trace) {
		return false, "events"
	}
	for i := range o.Trace {
		if o.Trace[i][0].Cmp(p.Trace[i][0]) != 0 || o.Trace[i][1].Cmp(p.Trace[i][1]) != 0 {
			return false, "events"
		}
	}
	if o.Cls == "" && !bigsEq(o.Results, p.Results) {
		return false, "result"
	}
	if o.Cls == "" && !bigsEq(o.Fields, p.Fields) {
		return false, "state"
	}
	return true, ""
}

func bigList(xs []*big.Int) string {
	parts := make([]string, len(xs))
	for i, x := range xs {
		parts[i] = lib.Z(x)
	}
	return "[" + strings.Join(parts, ";") + "]"
}

func (o obs) coq() string {
	parts := make([]string, len(o.Trace))
	for i, t := range o.Trace {
		parts[i] = "(" + lib.Z(t[0]) + "," + lib.Z(t[1]) + ")"
	}
	tr := "[" + strings.Join(parts, ";") + "]"
	if o.Cls != "" {
		return "(Err " + o.Cls + ", " + tr + ")"
	}
	return "(Ok (" + bigList(o.Results) + ", " + bigList(o.Fields) + "), " + tr + ")"
}

func (o obs) String() string {
	var tr []string
	for _, t := range o.Trace {
		tr = append(tr, t[0].String()+":"+t[1].String())
	}
	if o.Cls != "" {
		return fmt.Sprintf("Err %s events=%v", o.Cls, tr)
	}
	return fmt.Sprintf("results=%v fields=%v events=%v", o.Results, o.Fields, tr)
}

var coqErrs = map[string]bool{
	"Overflow": true, "Underflow": true, "DivZero": true, "NegShift": true, "IndexOOB": true, "TypeMismatch": true,
	"CondFail": true, "Invalidated": true, "LimitComputation": true, "LimitMemory": true, "LimitDepth": true,
	"UserOther": true, "HostFail": true, "Internal": true, "Crash": true,
}

func c10(sum *lib.Summary) {
	rng := lib.NewRng(*seed)
	g := &gen{r: rng}
	cw := &lib.CaseWriter{
		Dir: *dir, Prefix: "cases_C10",
		Header:   "From CV Require Import C10.Cases.",
		ElemType: "prog * list Z * list (fname * Z * Z) * obs * obs",
		CheckFn:  "check_case",
		PerFile:  120,
	}
	nprog := 130
	if *tier == "thorough" {
		nprog = 2600
	}
	sum.Rule = "generated composite (struct or resource; as script or as contracts A (interfaces) + B (composite)) implementing 1-5 " +
		"interfaces in chains of depth <= 3 with default functions, overrides, nested calls, before/result/emit conditions; per program 4 scripts " +
		"of 1-3 calls with arguments controlling condition truth; each script runs in the interpreter and in the VM; outcome class, call results, " +
		"final fields and the ordered (k,v) event trace are compared with a flat Go oracle and with the Coq model (interpreter-shaped run for the " +
		"interpreter, run of the desugared program for the VM). non-trivial = at least one inherited condition is evaluated; distinct = distinct (program, calls)"
	hosts := map[bool]*lib.Host{false: lib.NewHost(), true: lib.NewHost()}
	distinct := map[string]bool{}
	corpus(sum)
	for pi := 0; pi < nprog; pi++ {
		p := g.program()
		p.Contract = rng.Chance(1, 6)
		fs := g.callable(p)
		if len(fs) == 0 {
			sum.Count("program without callable function")
			continue
		}
		var chosts map[bool]*lib.Host
		if p.Contract {
			chosts = map[bool]*lib.Host{}
			bad := false
			for _, vm := range []bool{false, true} {
				h := lib.NewHost()
				oa := h.Deploy(common.MustBytesToAddress([]byte{1}), "A", p.contractA(), vm)
				ob := h.Deploy(common.MustBytesToAddress([]byte{2}), "B", p.contractB(), vm)
				if oa.Class != "" || ob.Class != "" {
					bad = true
					sum.Count("deploy rejected: " + oa.Class + "/" + ob.Class)
					if *dump {
						fmt.Println(p.contractA(), p.contractB(), oa.Err, ob.Err)
					}
				}
				chosts[vm] = h
			}
			if bad {
				continue
			}
		}
		nseq := 4
		for si := 0; si < nseq; si++ {
			init := g.inits(p)
			calls := g.calls(fs)
			var src string
			if p.Contract {
				src = p.contractScript(init, calls)
			} else {
				src = p.script(init, calls)
			}
			want := runOracle(p, init, calls)
			var got [2]obs
			skip := false
			for ei, vm := range []bool{false, true} {
				h := hosts[vm]
				if p.Contract {
					h = chosts[vm]
				}
				out := h.RunScript(src, nil, vm)
				sum.Evaluations++
				if out.Class == "CheckerError" || out.Class == "ParseError" {
					sum.Count("rejected by checker")
					if *dump {
						fmt.Println(src, out.Err)
					}
					skip = true
					break
				}
				o, bad := observe(out, len(calls))
				engine := "interpreter"
				if vm {
					engine = "vm"
				}
				replay := map[string]any{"engine": engine, "script": src, "observed": o.String(), "required": want.String()}
				if p.Contract {
					replay["contract_A"] = p.contractA()
					replay["contract_B"] = p.contractB()
				}
				if out.Panic != nil {
					sum.Fail("c10:"+engine+":go-panic", fmt.Sprintf("Go panic escaped the runtime: %v", out.Panic), replay)
				}
				if bad != "" {
					sum.Fail("c10:"+engine+":harness", bad, replay)
					skip = true
					break
				}
				if ok, what := o.eq(want); !ok {
					sum.Fail("c10:"+engine+":"+what,
						fmt.Sprintf("%s: %s differs: observed %s, required %s (error: %v)", engine, what, o.String(), want.String(), out.Err), replay)
				}
				got[ei] = o
			}
			if skip {
				continue
			}
			cls := want.Cls
			if cls == "" {
				cls = "success"
			}
			sum.Count("outcome " + cls)
			sum.Count(fmt.Sprintf("calls %d", len(calls)))
			sum.Count(fmt.Sprintf("interfaces %d", len(p.Ifaces)))
			sum.Count(fmt.Sprintf("effective conformances %d", len(linearise(p))))
			if p.Contract {
				sum.Count("form contracts")
			} else {
				sum.Count("form script")
			}
			if p.Resource {
				sum.Count("kind resource")
			} else {
				sum.Count("kind struct")
			}
			if nontrivial(p, calls) {
				key := p.coq() + coqCalls(calls) + fmt.Sprint(init)
				if !distinct[key] {
					distinct[key] = true
					sum.DistinctNontrivial++
				}
			}
			okCls := true
			for _, o := range got {
				if o.Cls != "" && !coqErrs[o.Cls] {
					okCls = false
				}
			}
			if !okCls {
				continue // already reported as a direct failure (class outside the model's enum)
			}
			inits := make([]*big.Int, len(init))
			for i, v := range init {
				inits[i] = big.NewInt(v)
			}
			cw.Add(fmt.Sprintf("(%s,\n %s, %s,\n %s,\n %s)", p.coq(), bigList(inits), coqCalls(calls), got[0].coq(), got[1].coq()),
				map[string]any{"script": src, "contract": p.Contract, "interpreter": got[0].String(), "vm": got[1].String(), "oracle": want.String()})
			sum.Sample(map[string]any{"script": src, "observed": got[0].String()})
		}
	}
	cw.Close()
	sum.CaseFiles = cw.Files
}

// nontrivial: some called function has a condition inherited from an interface.
func nontrivial(p *Prog, calls []Call) bool {
	eff := linearise(p)
	for _, c := range calls {
		for _, i := range eff {
			if d := p.Ifaces[i].find(c.F); d != nil && d.hasConds() {
				return true
			}
		}
	}
	return false
}
