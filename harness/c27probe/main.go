package main

import (
	"errors"
	"fmt"
	"strings"

	"cvh/lib"

	"github.com/onflow/cadence/common"
	"github.com/onflow/cadence/stdlib"
	ru "github.com/onflow/cadence/test_utils/runtime_utils"
)

var addr = common.MustBytesToAddress([]byte{1})
var addr2 = common.MustBytesToAddress([]byte{2})

func short(err error) string {
	if err == nil {
		return "<nil>"
	}
	var cue *stdlib.ContractUpdateError
	if errors.As(err, &cue) {
		var ks []string
		for _, e := range cue.Errors {
			ks = append(ks, fmt.Sprintf("%T(%v)", e, e))
		}
		return "ContractUpdateError[" + strings.Join(ks, ", ") + "]"
	}
	m := err.Error()
	var out []string
	for _, l := range strings.Split(m, "\n") {
		if strings.HasPrefix(l, "error:") {
			out = append(out, strings.TrimSpace(l))
		}
	}
	return strings.Join(out, " | ")
}

func update(h *lib.Host, a common.Address, name, code string, vm bool) lib.Outcome {
	o := h.RunTx(string(ru.UpdateTransaction(name, []byte(code))), nil, []common.Address{a}, vm)
	h.Iface.Programs = nil
	return o
}

func main() {
	for _, vm := range []bool{false, true} {
		h := lib.NewHost()
		o := h.Deploy(addr2, "S", `access(all) contract S { access(all) fun hello(): String { return "contract S" } }`, vm)
		fmt.Println("pre:", short(o.Err))
		o = h.Deploy(addr, "C", `import S from 0x2
          access(all) contract C {
             access(all) var cap: Capability<&S>?
             access(all) var caps: [Capability<&S>]
             access(all) fun set(_ c: Capability<&S>) { self.cap = c; self.caps.append(c) }
             init() { self.cap = nil; self.caps = [] }
          }`, vm)
		fmt.Println("deploy:", short(o.Err))
		o = h.RunTx(`import S from 0x2
          import C from 0x1
          transaction { prepare(a: auth(Capabilities) &Account) { C.set(a.capabilities.storage.issue<&S>(/storage/x)) } }`, nil, []common.Address{addr}, vm)
		fmt.Println("setup:", short(o.Err))
		o = update(h, addr, "C", `
          access(all) contract C {
             access(all) struct S { access(all) var b: Int; init() { self.b = 42 } }
             access(all) var cap: Capability<&C.S>?
             access(all) var caps: [Capability<&C.S>]
             init() { self.cap = nil; self.caps = [] }
          }`, vm)
		fmt.Println("update:", short(o.Err))
		r := h.RunScript(`import C from 0x1
           access(all) fun main(): [String] { let c: Capability<&C.S> = C.cap!
             let d: Capability<&C.S> = C.caps[0]
             return [c.getType().identifier, d.getType().identifier, C.caps.getType().identifier] }`, nil, vm)
		fmt.Printf("inspect vm=%v: class=%q val=%v err=%s\n", vm, r.Class, r.Value, short(r.Err))
	}
}
