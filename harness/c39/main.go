// C39: the formatter preserves meaning and comments and is idempotent.
//
// Two case streams, both against the REAL formatter.Format of /repo:
//  1. full-grammar programs (lib.ProgGen) decorated with comments at token boundaries (line, block, doc,
//     multi-line and nested block comments; before / after / between tokens of every declaration, statement
//     and expression form), extra blank lines and semicolons, under rotating option combinations:
//     direct monitors  no panic / output parses / same AST apart from positions (imports as a multiset) /
//     same multiset of comments (lexed with the real lexer, independent of formatter/trivia) /
//     Format(Format(x)) = Format(x);
//  2. skeleton programs (single-line top-level declarations and imports, single-line comments on their own
//     lines or at the end of a declaration line, blank lines): in addition the output TEXT is compared line by
//     line with the Coq model's output (case files evaluated by coqc).
package main

import (
	"bytes"
	"encoding/json"
	"flag"
	"fmt"
	"os"
	"path/filepath"
	"reflect"
	"runtime/debug"
	"sort"
	"strings"

	"cvh/lib"

	"github.com/onflow/cadence/ast"
	"github.com/onflow/cadence/formatter"
	"github.com/onflow/cadence/parser"
	"github.com/onflow/cadence/parser/lexer"
)

var (
	flagProp   = flag.String("prop", "C39", "")
	flagSeed   = flag.Uint64("seed", 1, "")
	flagTier   = flag.String("tier", "quick", "")
	flagDir    = flag.String("dir", ".", "")
	flagCorpus = flag.String("corpus", "", "directory with hand-picked cases (*.cdc), run first")
	flagProbe  = flag.String("probe", "", "format this file with default options, print the result and the checks, exit")
)

// ---------------------------------------------------------------- options

type Opt struct {
	LineWidth  int    `json:"line_width"`
	IndentChar string `json:"indent_char"`
	IndentN    int    `json:"indent_count"`
	Sort       bool   `json:"sort_imports"`
	StripSemi  bool   `json:"strip_semicolons"`
	KeepBlank  int    `json:"keep_blank_lines"`
	SkipVerify bool   `json:"skip_verify"`
}

func (o Opt) real() formatter.Options {
	return formatter.Options{LineWidth: o.LineWidth, IndentCharacter: o.IndentChar, IndentCount: o.IndentN,
		SortImports: o.Sort, StripSemicolons: o.StripSemi, KeepBlankLines: o.KeepBlank,
		FormatVersion: formatter.CurrentFormatVersion, SkipVerify: o.SkipVerify}
}

func allOptions() []Opt {
	var out []Opt
	for _, lw := range []int{100, 40} {
		for _, ind := range []struct {
			c string
			n int
		}{{" ", 4}, {"\t", 1}, {" ", 2}} {
			for _, srt := range []bool{true, false} {
				for _, ss := range []bool{true, false} {
					for _, kb := range []int{1, 0, 2} {
						for _, sv := range []bool{false, true} {
							out = append(out, Opt{lw, ind.c, ind.n, srt, ss, kb, sv})
						}
					}
				}
			}
		}
	}
	return out
}

func defaultOpt() Opt { return Opt{100, " ", 4, true, true, 1, false} }

// ---------------------------------------------------------------- observation helpers

// astJSON parses src and returns its AST as generic JSON with every position removed
// (any object with exactly the keys Offset/Line/Column, and StartPos/EndPos members).
func astJSON(src []byte) (any, error) {
	prog, err := parser.ParseProgram(nil, src, parser.Config{})
	if err != nil {
		return nil, err
	}
	b, err := json.Marshal(prog)
	if err != nil {
		return nil, err
	}
	var v any
	if err := json.Unmarshal(b, &v); err != nil {
		return nil, err
	}
	return stripPos(v), nil
}

func isPos(m map[string]any) bool {
	if len(m) != 3 {
		return false
	}
	_, a := m["Offset"]
	_, b := m["Line"]
	_, c := m["Column"]
	return a && b && c
}

func stripPos(v any) any {
	switch x := v.(type) {
	case map[string]any:
		if isPos(x) {
			return nil
		}
		out := map[string]any{}
		for k, e := range x {
			if k == "StartPos" || k == "EndPos" || k == "DocString" {
				// DocString is derived from the comments next to a declaration; comments are compared separately
				continue
			}
			s := stripPos(e)
			if k == "ParameterList" {
				// `transaction() {}` and `transaction {}` differ only in an empty parameter list object
				if pm, ok := s.(map[string]any); ok {
					if ps, has := pm["Parameters"]; has && (ps == nil || reflect.DeepEqual(ps, []any{})) && len(pm) <= 2 {
						s = nil
					}
				}
			}
			if s == nil {
				if m, ok := e.(map[string]any); ok && isPos(m) {
					continue
				}
			}
			out[k] = s
		}
		return out
	case []any:
		out := make([]any, len(x))
		for i, e := range x {
			out[i] = stripPos(e)
		}
		return out
	}
	return v
}

// splitImports separates import declarations (compared as a multiset) from the others (compared in order).
func splitImports(ast any) (imports []string, rest []any) {
	m, _ := ast.(map[string]any)
	decls, _ := m["Declarations"].([]any)
	for _, d := range decls {
		dm, _ := d.(map[string]any)
		if dm != nil && dm["Type"] == "ImportDeclaration" {
			b, _ := json.Marshal(d)
			imports = append(imports, string(b))
		} else {
			rest = append(rest, d)
		}
	}
	sort.Strings(imports)
	return
}

// firstDiff returns a path to the first difference of two JSON values and the node types along it.
func firstDiff(a, b any, path string, lastType string) (string, string) {
	if reflect.DeepEqual(a, b) {
		return "", ""
	}
	switch x := a.(type) {
	case map[string]any:
		y, ok := b.(map[string]any)
		if !ok {
			return path, lastType
		}
		if t, ok := x["Type"].(string); ok {
			lastType = t
		}
		keys := map[string]bool{}
		for k := range x {
			keys[k] = true
		}
		for k := range y {
			keys[k] = true
		}
		var ks []string
		for k := range keys {
			ks = append(ks, k)
		}
		sort.Strings(ks)
		for _, k := range ks {
			if p, t := firstDiff(x[k], y[k], path+"."+k, lastType); p != "" {
				return p, t
			}
		}
	case []any:
		y, ok := b.([]any)
		if !ok || len(x) != len(y) {
			return path + "[len]", lastType
		}
		for i := range x {
			if p, t := firstDiff(x[i], y[i], fmt.Sprintf("%s[%d]", path, i), lastType); p != "" {
				return p, t
			}
		}
	}
	return path, lastType
}

// comments extracts the comments of src with the real lexer (block comments re-assembled, nesting respected).
// Each text is canonicalised by trimming trailing blanks of every line (trailing whitespace is not content).
func comments(src []byte) ([]string, error) {
	ts, err := lexer.Lex(src, nil)
	defer ts.Reclaim()
	if err != nil {
		return nil, err
	}
	var out []string
	depth := 0
	start := 0
	for {
		tok := ts.Next()
		switch tok.Type {
		case lexer.TokenEOF:
			sort.Strings(out)
			return out, nil
		case lexer.TokenError:
			return nil, fmt.Errorf("lexer error token")
		case lexer.TokenLineComment:
			out = append(out, canonComment(string(src[tok.StartPos.Offset:tok.EndPos.Offset+1])))
		case lexer.TokenBlockCommentStart:
			if depth == 0 {
				start = tok.StartPos.Offset
			}
			depth++
		case lexer.TokenBlockCommentEnd:
			depth--
			if depth == 0 {
				out = append(out, canonComment(string(src[start:tok.EndPos.Offset+1])))
			}
		}
	}
}

func canonComment(s string) string {
	lines := strings.Split(s, "\n")
	for i, l := range lines {
		lines[i] = strings.TrimRight(l, " \t\r")
	}
	return strings.Join(lines, "\n")
}

func multisetDiff(a, b []string) (missing, extra []string) {
	cnt := map[string]int{}
	for _, x := range a {
		cnt[x]++
	}
	for _, x := range b {
		cnt[x]--
	}
	var keys []string
	for k := range cnt {
		keys = append(keys, k)
	}
	sort.Strings(keys)
	for _, k := range keys {
		for i := 0; i < cnt[k]; i++ {
			missing = append(missing, k)
		}
		for i := 0; i < -cnt[k]; i++ {
			extra = append(extra, k)
		}
	}
	return
}

type fmtResult struct {
	out   []byte
	err   error
	panic string
}

func doFormat(src []byte, o Opt) (r fmtResult) {
	defer func() {
		if rec := recover(); rec != nil {
			st := string(debug.Stack())
			fn := "?"
			for _, l := range strings.Split(st, "\n") {
				if strings.HasPrefix(l, "github.com/onflow/cadence") && !strings.Contains(l, "panic") {
					fn = l
					if i := strings.Index(fn, "("); i > 0 {
						fn = fn[:i]
					}
					break
				}
			}
			r.panic = fmt.Sprintf("%v @ %s", rec, fn)
		}
	}()
	out, err := formatter.Format(src, o.real())
	return fmtResult{out: out, err: err}
}

// listExcluded: trivia positions of element lists where the UNCHANGED formatter already misbehaves (determined
// with C39_LIST_ALL=1; reproducers in corpus/C39); key = <list kind>:<last|mid>:<feature> or <list kind>:*
var listExcluded = map[string]bool{
	"array:*": true, "dictionary:*": true, "type-args:*": true,
	"parameters:last:blank": true,
}

// Issue is one property failure found on a case.
type Issue struct{ Key, What string }

// checkCase runs the real formatter on src under o and checks the property. class = coarse outcome.
func checkCase(src []byte, o Opt) (class string, out []byte, issues []Issue) {
	inAST, err := astJSON(src)
	if err != nil {
		return "input-rejected-by-parser", nil, nil
	}
	r := doFormat(src, o)
	if r.panic != "" {
		fn := r.panic[strings.LastIndex(r.panic, "@ ")+2:]
		return "panic", nil, []Issue{{"panic:" + fn, "Format panicked: " + r.panic}}
	}
	if r.err != nil {
		// the property allows an error report; classify for the distribution
		msg := r.err.Error()
		switch {
		case strings.Contains(msg, "orphaned comments"):
			return "error:orphaned-comments", nil, nil
		case strings.Contains(msg, "round-trip verification failed"):
			return "error:round-trip-verification", nil, nil
		case strings.Contains(msg, "parse error"):
			return "error:parse", nil, []Issue{{"parse-error-on-accepted-input", "Format reports a parse error for a source the parser accepts: " + firstLine(msg)}}
		}
		return "error:other", nil, nil
	}
	out = r.out
	class = "formatted"
	outAST, err := astJSON(out)
	if err != nil {
		issues = append(issues, Issue{"output-does-not-parse", "Format returned no error but its output does not parse: " + firstLine(err.Error())})
		return class, out, issues
	}
	ia, ra := splitImports(inAST)
	ib, rb := splitImports(outAST)
	if !reflect.DeepEqual(ia, ib) {
		issues = append(issues, Issue{"ast-changed:imports", "the multiset of import declarations changed"})
	}
	if p, t := firstDiff(ra, rb, "decls", "Program"); p != "" {
		field := p[strings.LastIndex(p, ".")+1:]
		issues = append(issues, Issue{"ast-changed:" + t + "." + trimIndex(field), "the AST changed at " + p + " (inside a " + t + ")"})
	}
	ca, errA := comments(src)
	cb, errB := comments(out)
	if errA == nil && errB == nil {
		missing, extra := multisetDiff(ca, cb)
		if len(missing) > 0 || len(extra) > 0 {
			key := "comments-changed"
			switch {
			case len(missing) > 0 && len(extra) == 0:
				key = "comment-dropped"
			case len(missing) == 0 && len(extra) > 0:
				key = "comment-duplicated"
			default:
				key = "comment-text-changed:" + commentChangeKind(missing, extra)
			}
			issues = append(issues, Issue{key, fmt.Sprintf("comments of the input missing in the output: %q; comments only in the output: %q", trunc(missing), trunc(extra))})
		}
	}
	r2 := doFormat(out, o)
	switch {
	case r2.panic != "":
		issues = append(issues, Issue{"second-pass-panic", "Format(Format(x)) panicked: " + r2.panic})
	case r2.err != nil:
		issues = append(issues, Issue{"not-idempotent:second-pass-error:" + errClass(r2.err), "Format(Format(x)) reports an error: " + firstLine(r2.err.Error())})
	case !bytes.Equal(r2.out, out):
		issues = append(issues, Issue{"not-idempotent:" + diffKind(out, r2.out), "Format(Format(x)) differs from Format(x): " + lineDiff(out, r2.out)})
	}
	return class, out, issues
}

func errClass(err error) string {
	msg := err.Error()
	switch {
	case strings.Contains(msg, "orphaned comments"):
		return "orphaned-comments"
	case strings.Contains(msg, "round-trip"):
		return "round-trip"
	case strings.Contains(msg, "parse error"):
		return "parse"
	}
	return "other"
}

func trimIndex(s string) string {
	if i := strings.Index(s, "["); i >= 0 {
		return s[:i]
	}
	return s
}

func trunc(xs []string) []string {
	if len(xs) > 4 {
		xs = xs[:4]
	}
	return xs
}

func firstLine(s string) string {
	if i := strings.Index(s, "\n"); i >= 0 {
		s = s[:i]
	}
	if len(s) > 300 {
		s = s[:300]
	}
	return s
}

// commentChangeKind classifies a changed comment text.
func commentChangeKind(missing, extra []string) string {
	squash := func(s string) string {
		var ls []string
		for _, l := range strings.Split(s, "\n") {
			if strings.TrimSpace(l) != "" {
				ls = append(ls, l)
			}
		}
		return strings.Join(ls, "\n")
	}
	if len(missing) == len(extra) {
		same := true
		for i := range missing {
			if squash(missing[i]) != squash(extra[i]) {
				same = false
			}
		}
		if same {
			return "blank-lines-inside-block-comment"
		}
	}
	return "other"
}

// diffKind classifies the first differing line of two texts.
func diffKind(a, b []byte) string {
	la, lb := strings.Split(string(a), "\n"), strings.Split(string(b), "\n")
	i := 0
	for i < len(la) && i < len(lb) && la[i] == lb[i] {
		i++
	}
	get := func(l []string) string {
		if i < len(l) {
			return strings.TrimSpace(l[i])
		}
		return "<eof>"
	}
	x, y := get(la), get(lb)
	kind := func(s string) string {
		switch {
		case s == "":
			return "blank"
		case s == "<eof>":
			return "eof"
		case strings.HasPrefix(s, "//") || strings.HasPrefix(s, "/*"):
			return "comment"
		case strings.Contains(s, "//") || strings.Contains(s, "/*"):
			return "code+comment"
		}
		return "code"
	}
	return kind(x) + "->" + kind(y)
}

func lineDiff(a, b []byte) string {
	la, lb := strings.Split(string(a), "\n"), strings.Split(string(b), "\n")
	i := 0
	for i < len(la) && i < len(lb) && la[i] == lb[i] {
		i++
	}
	get := func(l []string, j int) string {
		if j >= 0 && j < len(l) {
			return l[j]
		}
		return "<eof>"
	}
	return fmt.Sprintf("first difference at line %d: pass1 %q / pass2 %q (previous line %q)", i+1, get(la, i), get(lb, i), get(la, i-1))
}

// lineCommentTexts returns the `//` comments of a text (crude: first `//` of a line not preceded by a quote).
func lineCommentTexts(src string) []string {
	var out []string
	for _, ln := range strings.Split(src, "\n") {
		if i := strings.Index(ln, "//"); i >= 0 && !strings.Contains(ln[:i], "\"") {
			out = append(out, strings.TrimRight(ln[i:], " \t"))
		}
	}
	return out
}

// swallowed reports the root cause "a line comment was rendered in the middle of a line, so the code after it
// became part of the comment": some `//` comment of the output extends a `//` comment of the input.
func swallowed(src, out string) bool {
	in := map[string]bool{}
	for _, c := range lineCommentTexts(src) {
		in[c] = true
	}
	for _, c := range lineCommentTexts(out) {
		if in[c] {
			continue
		}
		for k := range in {
			if len(c) > len(k) && strings.HasPrefix(c, k) {
				return true
			}
		}
	}
	return false
}

// streamKey: the clean stream keeps the precise key; the wild stream buckets by root cause / violated clause.
func streamKey(stream, key, src, out string) string {
	if key == "comment-text-changed:blank-lines-inside-block-comment" {
		return key // same narrow defect in both streams
	}
	if stream == "clean" {
		return "clean:" + key
	}
	if strings.HasPrefix(key, "panic:") {
		return "wild:" + key
	}
	if swallowed(src, out) {
		return "wild:line-comment-swallows-code"
	}
	if i := strings.Index(key, ":"); i > 0 {
		key = key[:i]
	}
	return "wild:" + key
}

// ---------------------------------------------------------------- generation: decorated full-grammar programs

// outsideStrings marks the byte offsets that are not inside a string literal (incl. templates).
func outsideStrings(src []byte) []bool {
	ok := make([]bool, len(src)+1)
	i := 0
	var str func()
	var tmpl func()
	str = func() { // at opening quote
		i++
		for i < len(src) {
			switch src[i] {
			case '"':
				i++
				return
			case '\\':
				i++
				if i < len(src) && src[i] == '(' {
					i++
					tmpl()
				} else {
					i++
				}
			case '\n':
				return
			default:
				i++
			}
		}
	}
	tmpl = func() {
		d := 1
		for i < len(src) && d > 0 {
			switch src[i] {
			case '(':
				d++
				i++
			case ')':
				d--
				i++
			case '"':
				str()
			default:
				i++
			}
		}
	}
	for i < len(src) {
		if src[i] == '"' {
			str()
			continue
		}
		ok[i] = true
		i++
	}
	ok[len(src)] = true
	return ok
}

type commentGen struct {
	r *lib.Rng
	n int
}

// next returns a comment text and whether it must be followed by a newline.
func (c *commentGen) next() (string, bool, string) {
	c.n++
	id := fmt.Sprintf("c%d", c.n)
	switch c.r.Intn(12) {
	case 0, 1, 2:
		return "// line " + id, true, "line"
	case 3:
		return "/// doc " + id, true, "doc-line"
	case 4, 5, 6:
		return "/* block " + id + " */", false, "block"
	case 7:
		return "/** docblock " + id + " */", false, "doc-block"
	case 8:
		return "/* multi " + id + "\n   second line\n */", false, "multi-line-block"
	case 9:
		return "/* outer " + id + " /* nested */ tail */", false, "nested-block"
	case 10:
		return "//" + id + "   ", true, "line-trailing-space"
	default:
		return "/* gap " + id + "\n\n\n   after blank lines */", false, "block-with-blank-lines"
	}
}

// decorate inserts comments, blank lines and semicolons into a program at token boundaries.
func decorate(r *lib.Rng, src string, nComments int, kinds map[string]int) string {
	b := []byte(src)
	ts, err := lexer.Lex(b, nil)
	if err != nil {
		ts.Reclaim()
		return src
	}
	okAt := outsideStrings(b)
	type boundary struct {
		off      int
		lineEnd  bool // the token before is followed by a newline (good place for end-of-line comments)
		lineHead bool
	}
	var bounds []boundary
	for {
		tok := ts.Next()
		if tok.Type == lexer.TokenEOF {
			break
		}
		if tok.Type == lexer.TokenSpace {
			continue
		}
		s, e := tok.StartPos.Offset, tok.EndPos.Offset+1
		if s >= 0 && s < len(okAt) && okAt[s] {
			head := s == 0 || b[s-1] == '\n' || strings.TrimSpace(string(b[lineStart(b, s):s])) == ""
			bounds = append(bounds, boundary{off: s, lineHead: head})
		}
		if e <= len(b) && okAt[e] && (e == len(b) || b[e] == '\n') {
			bounds = append(bounds, boundary{off: e, lineEnd: true})
		}
	}
	ts.Reclaim()
	if len(bounds) == 0 {
		return src
	}
	cg := &commentGen{r: r}
	type ins struct {
		off  int
		text string
	}
	var inserts []ins
	for k := 0; k < nComments; k++ {
		bd := bounds[r.Intn(len(bounds))]
		text, needNL, kind := cg.next()
		kinds[kind]++
		var s string
		switch {
		case bd.lineEnd:
			kinds["pos:end-of-line"]++
			s = " " + text // newline follows in the source
		case bd.lineHead && r.Chance(2, 3):
			kinds["pos:own-line-before"]++
			s = text + "\n" + indentAt(b, bd.off)
			if r.Chance(1, 4) {
				s = text + "\n\n" + indentAt(b, bd.off)
				kinds["pos:own-line-before+blank"]++
			}
		default:
			kinds["pos:inline-before-token"]++
			if needNL {
				s = text + "\n"
			} else {
				s = text + " "
			}
		}
		inserts = append(inserts, ins{bd.off, s})
	}
	// blank lines
	for k := 0; k < 1+r.Intn(3); k++ {
		bd := bounds[r.Intn(len(bounds))]
		if bd.lineEnd {
			inserts = append(inserts, ins{bd.off, strings.Repeat("\n", 1+r.Intn(3))})
			kinds["extra-blank-lines"]++
		}
	}
	sort.SliceStable(inserts, func(i, j int) bool { return inserts[i].off < inserts[j].off })
	var sb strings.Builder
	last := 0
	for _, in := range inserts {
		sb.Write(b[last:in.off])
		sb.WriteString(in.text)
		last = in.off
	}
	sb.Write(b[last:])
	return sb.String()
}

func lineStart(b []byte, off int) int {
	for off > 0 && b[off-1] != '\n' {
		off--
	}
	return off
}

func indentAt(b []byte, off int) string {
	s := lineStart(b, off)
	e := s
	for e < off && (b[e] == ' ' || b[e] == '\t') {
		e++
	}
	return string(b[s:e])
}

// cleanDecorate puts comments only at the CONVENTIONAL positions: on their own line(s) directly before a
// declaration / member / statement that starts its line, at the end of a line that a declaration or statement
// ends, as a header before the program and as a footer after it; plus extra blank lines before own-line comments.
func cleanDecorate(r *lib.Rng, src string, nComments int, kinds map[string]int) string {
	b := []byte(src)
	prog, err := parser.ParseProgram(nil, b, parser.Config{})
	if err != nil {
		return src
	}
	okAt := outsideStrings(b)
	type point struct {
		off   int
		eol   bool
		after bool   // whole comment lines after the line the element ends (between siblings / after the last child)
	}
	var points []point
	indents := map[int]string{}
	seen := map[point]bool{}
	add := func(p point) {
		if !seen[p] {
			seen[p] = true
			points = append(points, p)
		}
	}
	// positions where the unchanged formatter is known to misplace an own-line comment (known findings, exercised
	// from corpus/C39): before the first member of an attachment declaration (rendered before the `{`), before the
	// first statement of a switch case (rendered before the `:`)
	avoid := map[int]bool{}
	ast.Inspect(prog, func(el ast.Element) bool {
		switch x := el.(type) {
		case *ast.AttachmentDeclaration:
			if x.Members != nil {
				if ds := x.Members.Declarations(); len(ds) > 0 {
					avoid[ds[0].StartPosition().Offset] = true
				}
			}
		case *ast.TransactionDeclaration:
			// a comment before the first field / block of a transaction is re-attached differently on the second
			// pass when the transaction has parameters (known finding)
			first := -1
			x.Walk(func(child ast.Element) {
				if child == nil {
					return
				}
				if x.ParameterList != nil && child.StartPosition().Offset <= x.ParameterList.EndPosition(nil).Offset {
					return
				}
				if o := child.StartPosition().Offset; first < 0 || o < first {
					first = o
				}
			})
			if first >= 0 {
				avoid[first] = true
			}
		case *ast.SwitchStatement:
			for _, c := range x.Cases {
				if len(c.Statements) > 0 {
					avoid[c.Statements[0].StartPosition().Offset] = true
				}
			}
		}
		return el != nil
	})
	ast.Inspect(prog, func(el ast.Element) bool {
		if el == nil {
			return false
		}
		_, isDecl := el.(ast.Declaration)
		_, isStmt := el.(ast.Statement)
		if !isDecl && !isStmt {
			return true
		}
		if _, isProg := el.(*ast.Program); isProg {
			return true
		}
		s, e := el.StartPosition().Offset, el.EndPosition(nil).Offset+1
		if s < 0 || e > len(b) || s >= e || !okAt[s] || !okAt[e] {
			return true
		}
		if strings.TrimSpace(string(b[lineStart(b, s):s])) == "" && !avoid[s] {
			add(point{off: lineStart(b, s)})
			indents[lineStart(b, s)] = indentAt(b, s)
		}
		j := e
		for j < len(b) && (b[j] == ' ' || b[j] == '\t' || b[j] == ';') {
			j++
		}
		if j == len(b) || b[j] == '\n' {
			add(point{off: j, eol: true})
			// the slot after this element: before the next sibling or, for a last child, before the closing brace
			if j < len(b) && strings.TrimSpace(string(b[lineStart(b, s):s])) == "" {
				nextLine := j + 1
				avoided := false
				for a := range avoid {
					if lineStart(b, a) == nextLine {
						avoided = true
					}
				}
				if !avoided && nextLine <= len(b) && okAt[nextLine] {
					add(point{off: nextLine, after: true})
					if _, ok := indents[nextLine]; !ok {
						indents[nextLine] = indentAt(b, s)
					}
				}
			}
		}
		return true
	})
	if len(points) == 0 {
		return src
	}
	cg := &commentGen{r: r}
	simple := func() (string, string) {
		for {
			text, _, kind := cg.next()
			switch kind {
			case "line", "doc-line", "block", "doc-block", "line-trailing-space", "nested-block":
				return text, kind
			}
		}
	}
	type ins struct {
		off  int
		text string
	}
	var inserts []ins
	usedEol := map[int]bool{}
	// two more positions where the unchanged formatter is not a fixed point (known findings, corpus/C39):
	// own-line comments right after a statement whose last source line ends with `)` (the node's range excludes a
	// closing parenthesis, so after re-layout the comment is no longer adjacent to the node end), and comments
	// between the last statement of a switch case and the next `case` / `default`
	prevLineEndsWithParen := func(off int) bool {
		i := off - 1
		for i >= 0 && (b[i] == ' ' || b[i] == '\t' || b[i] == '\n' || b[i] == ';') {
			i--
		}
		return i >= 0 && b[i] == ')'
	}
	nextLineIsCase := func(off int) bool {
		rest := strings.TrimLeft(string(b[off:]), " \t\n")
		return strings.HasPrefix(rest, "case ") || strings.HasPrefix(rest, "default:") || strings.HasPrefix(rest, "default ")
	}
	var usable []point
	for _, pt := range points {
		if !pt.eol && (prevLineEndsWithParen(pt.off) || (pt.after && nextLineIsCase(pt.off))) {
			continue
		}
		usable = append(usable, pt)
	}
	points = usable
	if len(points) == 0 {
		return src
	}
	for k := 0; k < nComments; k++ {
		pt := points[r.Intn(len(points))]
		text, kind := simple()
		if pt.eol {
			if usedEol[pt.off] {
				continue
			}
			usedEol[pt.off] = true
			kinds["clean:end-of-line:"+kind]++
			inserts = append(inserts, ins{pt.off, " " + text})
		} else {
			// 1-3 comment GROUPS (1-2 comments each) separated by blank lines, adjacent or not to the code
			// before and after: every attachment slot (before the first child, between siblings, after the last
			// child, at top level and in nested bodies) sees header/leading/trailing/leftover combinations
			slot := "before"
			if pt.after {
				slot = "after"
			}
			ind := indents[pt.off]
			var sbg strings.Builder
			if r.Chance(1, 3) {
				sbg.WriteString("\n")
				kinds["clean:"+slot+":blank-line-before-first-group"]++
			}
			ng := []int{1, 1, 1, 2, 2, 3}[r.Intn(6)]
			kinds[fmt.Sprintf("clean:%s:%d-groups", slot, ng)]++
			for gi := 0; gi < ng; gi++ {
				if gi > 0 {
					sbg.WriteString("\n")
					if r.Chance(1, 5) {
						sbg.WriteString("\n")
					}
				}
				for ci := 0; ci < 1+r.Intn(2); ci++ {
					if gi > 0 || ci > 0 {
						text, kind = simple()
					}
					kinds["clean:"+slot+":"+kind]++
					sbg.WriteString(ind + text + "\n")
				}
			}
			if r.Chance(1, 3) {
				sbg.WriteString("\n")
				kinds["clean:"+slot+":blank-line-after-last-group"]++
			}
			inserts = append(inserts, ins{pt.off, sbg.String()})
		}
	}
	sort.SliceStable(inserts, func(i, j int) bool { return inserts[i].off < inserts[j].off })
	var sb strings.Builder
	if r.Chance(1, 3) {
		text, kind := simple()
		kinds["clean:header:"+kind]++
		sb.WriteString(text + "\n\n")
	}
	last := 0
	for _, in := range inserts {
		sb.Write(b[last:in.off])
		sb.WriteString(in.text)
		last = in.off
	}
	sb.Write(b[last:])
	if r.Chance(1, 3) {
		text, kind := simple()
		kinds["clean:footer:"+kind]++
		out := strings.TrimRight(sb.String(), "\n") + "\n\n" + text + "\n"
		return out
	}
	return sb.String()
}

// ---------------------------------------------------------------- list stream: comments inside element lists

// genListProgram builds a program whose statements / declarations contain ELEMENT LISTS laid out one element per
// line (invocation arguments with and without labels, parameter lists, array and dictionary literals, type argument
// lists) and puts comments in every trivia position of the list, alone and combined on the same element:
// own-line comments before an element (0-2), a same-line comment after it (`//`, `/* */` after the comma, or
// `/* */` before the comma), own-line comments after it (0-2; after the last element = before the closing bracket),
// for last and non-last elements, with and without a blank line.  sig describes the placements (for evidence).
func genListProgram(r *lib.Rng, n *int, excl func(kind, feature string) bool) (src string, sigs []string) {
	cm := func(block bool) string {
		*n++
		if block {
			return fmt.Sprintf("/* L%d */", *n)
		}
		return fmt.Sprintf("// L%d", *n)
	}
	type listKind struct {
		kind        string
		open, close string
		elems       []string
		wrap        func(list string) string
	}
	kindsAll := []listKind{
		{"call", "(", ")", []string{"1", "other: 2", "g(3)", "label: \"s\"", "x"}, func(l string) string { return "    let v" + fmt.Sprint(*n) + " = f" + l }},
		{"call-stmt", "(", ")", []string{"a", "b: 2", "c.d"}, func(l string) string { return "    h" + l }},
		{"array", "[", "]", []string{"1", "2", "f(3)", "x"}, func(l string) string { return "    let a" + fmt.Sprint(*n) + " = " + l }},
		{"dictionary", "{", "}", []string{"\"a\": 1", "\"b\": 2", "k: v"}, func(l string) string { return "    let d" + fmt.Sprint(*n) + " = " + l }},
		{"type-args", "<", ">", []string{"Int", "String", "&R"}, func(l string) string { return "    let t" + fmt.Sprint(*n) + " = g" + l + "(1)" }},
	}
	var body []string
	var decls []string
	nl := 1 + r.Intn(3)
	if os.Getenv("C39_LIST_ONE") != "" {
		nl = 1
	}
	for k := 0; k < nl; k++ {
		lk := kindsAll[r.Intn(len(kindsAll)+1)%len(kindsAll)]
		isParams := r.Chance(1, 5)
		if isParams {
			lk = listKind{"parameters", "(", ")", []string{"a: Int", "_ b: String", "to c: [Int]"}, nil}
		}
		ne := 1 + r.Intn(3)
		var lines []string
		sig := lk.kind + "["
		for i := 0; i < ne; i++ {
			last := i == ne-1
			pos := "mid"
			if last {
				pos = "last"
			}
			ind := "        "
			nLead := []int{0, 0, 1, 1, 2}[r.Intn(5)]
			if excl(lk.kind, pos+":lead") {
				nLead = 0
			}
			for j := 0; j < nLead; j++ {
				lines = append(lines, ind+cm(r.Chance(1, 3)))
			}
			el := lk.elems[r.Intn(len(lk.elems))]
			same := r.Intn(5) // 0,1 none; 2 line after comma; 3 block after comma; 4 block before comma
			if same >= 2 && excl(lk.kind, pos+":same"+fmt.Sprint(same)) {
				same = 0
			}
			line := ind + el
			if same == 4 {
				line += " " + cm(true)
			}
			if !last {
				line += ","
			}
			switch same {
			case 2:
				line += " " + cm(false)
			case 3:
				line += " " + cm(true)
			}
			lines = append(lines, line)
			nAfter := []int{0, 0, 1, 1, 2}[r.Intn(5)]
			if excl(lk.kind, pos+":after") || (same >= 2 && nAfter > 0 && excl(lk.kind, pos+":same+after")) {
				nAfter = 0
			}
			blank := nAfter > 0 && r.Chance(1, 5) && !excl(lk.kind, pos+":blank")
			if blank {
				lines = append(lines, "")
			}
			for j := 0; j < nAfter; j++ {
				lines = append(lines, ind+cm(r.Chance(1, 3)))
			}
			sig += fmt.Sprintf("%s(lead%d,same%d,after%d%s)", pos, nLead, same, nAfter, map[bool]string{true: ",blank", false: ""}[blank])
		}
		sig += "]"
		sigs = append(sigs, sig)
		list := lk.open + "\n" + strings.Join(lines, "\n") + "\n    " + lk.close
		if isParams {
			*n++
			decls = append(decls, fmt.Sprintf("fun p%d%s {\n}\n", *n, strings.ReplaceAll(list, "\n    ", "\n")))
		} else {
			body = append(body, lk.wrap(list))
		}
	}
	src = strings.Join(decls, "\n")
	if len(body) > 0 {
		src += "fun main() {\n" + strings.Join(body, "\n") + "\n}\n"
	}
	return src, sigs
}

// ---------------------------------------------------------------- skeleton programs (compared with the Coq model)

// A skeleton line: blank, comment-only, or a single-line declaration with an optional end-of-line comment.
type SkLine struct {
	Kind    int    // 0 blank, 1 comment, 2 declaration
	Decl    int    // index into the declaration table (Kind 2)
	Comment int    // comment id (Kind 1, or end-of-line comment of Kind 2; 0 = none)
	Block   bool   // comment is /* */ instead of //
	Semi    bool   // declaration followed by ';'
}

type skDecl struct {
	text  string
	imp   bool
	group int    // import group 0 identifier, 1 address, 2 string
	key   string // sort key inside the group
}

func skeletonDecls() []skDecl {
	return []skDecl{
		{"access(all) let a = 1", false, 0, ""},
		{"access(all) let b = 2", false, 0, ""},
		{"access(all) var c = \"s\"", false, 0, ""},
		{"access(all) entitlement E", false, 0, ""},
		{"access(all) let d = true", false, 0, ""},
		{"import Crypto", true, 0, "Crypto"},
		{"import Alpha", true, 0, "Alpha"},
		{"import B from 0x2", true, 1, "0000000000000002|B"},
		{"import A from 0x2", true, 1, "0000000000000002|A"},
		{"import C from 0x1", true, 1, "0000000000000001|C"},
		{"import Z from \"z.cdc\"", true, 2, "z.cdc"},
		{"import Y from \"a.cdc\"", true, 2, "a.cdc"},
		{"import B from 0x2", true, 1, "0000000000000002|B"}, // duplicate import (stability)
	}
}

func skText(lines []SkLine, decls []skDecl) string {
	var sb strings.Builder
	for _, l := range lines {
		switch l.Kind {
		case 1:
			sb.WriteString(skComment(l.Comment, l.Block))
		case 2:
			sb.WriteString(decls[l.Decl].text)
			if l.Semi {
				sb.WriteString(";")
			}
			if l.Comment != 0 {
				sb.WriteString(" " + skComment(l.Comment, l.Block))
			}
		}
		sb.WriteString("\n")
	}
	return sb.String()
}

func skComment(id int, block bool) string {
	if block {
		return fmt.Sprintf("/* k%d */", id)
	}
	return fmt.Sprintf("// k%d", id)
}

func genSkeleton(r *lib.Rng, decls []skDecl) []SkLine {
	var lines []SkLine
	cid := 0
	n := r.Intn(7)
	importsFirst := r.Chance(2, 3)
	nImp := 0
	if importsFirst {
		nImp = r.Intn(5)
	}
	trivia := func(max int) {
		for k := r.Intn(max + 1); k > 0; k-- {
			if r.Chance(1, 2) {
				cid++
				lines = append(lines, SkLine{Kind: 1, Comment: cid, Block: r.Chance(1, 4)})
			} else {
				lines = append(lines, SkLine{Kind: 0})
			}
		}
	}
	trivia(3)
	for i := 0; i < nImp+n; i++ {
		var d int
		if i < nImp {
			d = 5 + r.Intn(8)
		} else if !importsFirst && r.Chance(1, 3) {
			d = 5 + r.Intn(8)
		} else {
			d = r.Intn(5)
		}
		l := SkLine{Kind: 2, Decl: d}
		if r.Chance(1, 3) {
			cid++
			l.Comment = cid
			l.Block = r.Chance(1, 4)
		}
		l.Semi = r.Chance(1, 8)
		lines = append(lines, l)
		trivia(3)
	}
	return lines
}

// ---------------------------------------------------------------- main

func main() {
	flag.Parse()
	if *flagProbe != "" {
		b, err := os.ReadFile(*flagProbe)
		if err != nil {
			panic(err)
		}
		po := defaultOpt()
		if ob, err := os.ReadFile(strings.TrimSuffix(*flagProbe, ".cdc") + ".opts.json"); err == nil {
			_ = json.Unmarshal(ob, &po)
		}
		cls, out, issues := checkCase(b, po)
		fmt.Printf("class: %s\n--- output ---\n%s--- issues ---\n", cls, out)
		for _, is := range issues {
			fmt.Printf("%s: %s\n", is.Key, is.What)
		}
		return
	}
	r := lib.NewRng(*flagSeed)
	sum := &lib.Summary{Distribution: map[string]int{}}
	nFull, nSkel := 160, 500
	if *flagTier == "thorough" {
		nFull, nSkel = 2500, 4000
	}
	opts := allOptions()
	distinct := map[string]bool{}
	kinds := map[string]int{}
	var dump *os.File
	if p := os.Getenv("C39_DUMP"); p != "" {
		dump, _ = os.Create(p)
	}
	report := func(src string, o Opt, cls string, out []byte, issues []Issue, origin string) {
		for _, is := range issues {
			if dump != nil {
				b, _ := json.Marshal(map[string]any{"key": is.Key, "what": is.What, "source": src, "options": o, "formatted": string(out), "origin": origin})
				dump.Write(append(b, '\n'))
			}
			sum.Count("issue " + origin + " " + is.Key + fmt.Sprintf(" [skip_verify=%v]", o.SkipVerify))
			sum.Fail(is.Key, is.What, map[string]any{"source": src, "options": o, "formatted": string(out), "origin": origin, "seed": *flagSeed})
		}
	}

	// ---- 0. corpus
	if *flagCorpus != "" {
		files, _ := filepath.Glob(filepath.Join(*flagCorpus, "*.cdc"))
		sort.Strings(files)
		for _, f := range files {
			b, err := os.ReadFile(f)
			if err != nil {
				continue
			}
			o := defaultOpt()
			if ob, err := os.ReadFile(strings.TrimSuffix(f, ".cdc") + ".opts.json"); err == nil {
				_ = json.Unmarshal(ob, &o)
			}
			cls, out, issues := checkCase(b, o)
			sum.Evaluations++
			sum.Count("corpus " + cls)
			stem := strings.TrimSuffix(filepath.Base(f), ".cdc")
			for k := range issues {
				issues[k].Key = "corpus:" + stem + ":" + issues[k].Key
			}
			report(string(b), o, cls, out, issues, "corpus/"+filepath.Base(f))
		}
	}

	// ---- 1. full-grammar programs: (a) CLEAN stream - comments at conventional positions only: every failure
	//         counts; (b) WILD stream - comments at arbitrary token boundaries: failures are bucketed by root
	//         cause (the formatter has known defects there, see known_findings/C39.json)
	g := lib.NewProgGen(r)
	g.Comments = false
	g.Clean = true // avoid the constructs whose plain print/parse round trip already fails (C38's findings)
	for i := 0; i < nFull; i++ {
		base := g.Program(1+r.Intn(5), 2+r.Intn(2))
		if _, err := parser.ParseProgram(nil, []byte(base), parser.Config{}); err != nil {
			sum.Count("generated program rejected by the parser (skipped)")
			continue
		}
		for _, stream := range []string{"clean", "wild"} {
			src := base
			for try := 0; try < 4; try++ {
				var cand string
				if stream == "clean" {
					cand = cleanDecorate(r, base, 1+r.Intn(8>>try+1), kinds)
				} else {
					cand = decorate(r, base, 1+r.Intn(8>>try+1), kinds)
				}
				if _, err := parser.ParseProgram(nil, []byte(cand), parser.Config{}); err == nil {
					src = cand
					break
				}
				sum.Count(stream + ": decoration broke the parse (retried)")
			}
			for j := 0; j < 2; j++ {
				o := opts[(i*5+j*37+int(*flagSeed)*11)%len(opts)]
				if j == 0 && i%3 == 0 {
					o = defaultOpt()
				}
				// SkipVerify switches the formatter's own round-trip check off; what it then lets through are the
				// layout defects of the AST printer on comment-free programs (C38's subject, one reproducer in the
				// corpus).  The random full-grammar streams keep the check on; the skeleton stream covers both.
				o.SkipVerify = false
				cls, out, issues := checkCase([]byte(src), o)
				sum.Evaluations++
				sum.Count(stream + " " + cls)
				sum.Count(fmt.Sprintf("options keep_blank=%d sort=%v strip_semi=%v width=%d indent=%q*%d", o.KeepBlank, o.Sort, o.StripSemi, o.LineWidth, o.IndentChar, o.IndentN))
				if cls == "formatted" {
					distinct[src] = true
				}
				for k := range issues {
					issues[k].Key = streamKey(stream, issues[k].Key, src, string(out))
				}
				report(src, o, cls, out, issues, stream)
				if i < 2 && j == 0 {
					sum.Sample(map[string]any{"stream": stream, "source": src, "options": o, "class": cls, "formatted": string(out)})
				}
			}
		}
	}
	for k, v := range kinds {
		sum.Distribution["decoration "+k] = v
	}
	for k, v := range g.Forms {
		if strings.HasPrefix(k, "decl:") || strings.HasPrefix(k, "stmt:") {
			sum.Distribution["form "+k] = v
		}
	}

	// ---- 1b. list stream: every trivia position of element lists (arguments, parameters, literals, type arguments)
	nList := nFull * 3
	lcount := 0
	exclNone := func(kind, feature string) bool { return listExcluded[kind+":"+feature] || listExcluded[kind+":*"] }
	if os.Getenv("C39_LIST_ALL") != "" {
		exclNone = func(string, string) bool { return false }
	}
	for i := 0; i < nList; i++ {
		src, sigs := genListProgram(r, &lcount, exclNone)
		if _, err := parser.ParseProgram(nil, []byte(src), parser.Config{}); err != nil {
			sum.Count("lists: generated program rejected by the parser (skipped)")
			continue
		}
		o := opts[(i*7+int(*flagSeed)*13)%len(opts)]
		if i%2 == 0 {
			o = defaultOpt()
		}
		o.SkipVerify = false
		cls, out, issues := checkCase([]byte(src), o)
		sum.Evaluations++
		sum.Count("lists " + cls)
		for _, sg := range sigs {
			sum.Count("lists kind " + sg[:strings.Index(sg, "[")])
		}
		if cls == "formatted" {
			distinct[src] = true
		}
		for k := range issues {
			issues[k].Key = "lists:" + issues[k].Key
			issues[k].What += " [placements: " + strings.Join(sigs, " ") + "]"
		}
		report(src, o, cls, out, issues, "lists")
		if dump != nil {
			b, _ := json.Marshal(map[string]any{"listcase": true, "class": cls, "sigs": sigs, "nissues": len(issues), "source": src})
			dump.Write(append(b, '\n'))
		}
		if i < 1 {
			sum.Sample(map[string]any{"stream": "lists", "source": src, "options": o, "class": cls, "formatted": string(out)})
		}
	}

	// ---- 2. skeleton programs + Coq cases
	decls := skeletonDecls()
	cw := &lib.CaseWriter{Dir: *flagDir, Prefix: "cases_C39", PerFile: 400,
		Header:   "From CV Require Import Base.Prelude C39.Model C39.Cases.\nImport ListNotations.",
		ElemType: "sk_case", CheckFn: "check_case"}
	for i := 0; i < nSkel; i++ {
		lines := genSkeleton(r, decls)
		src := skText(lines, decls)
		o := defaultOpt()
		o.KeepBlank = []int{1, 1, 2, 0}[r.Intn(4)]
		o.Sort = !r.Chance(1, 4)
		o.StripSemi = !r.Chance(1, 4)
		o.SkipVerify = r.Chance(1, 3)
		cls, out, issues := checkCase([]byte(src), o)
		sum.Evaluations++
		sum.Count("skeleton " + cls)
		report(src, o, cls, out, issues, "skeleton")
		if cls != "formatted" {
			if cls == "input-rejected-by-parser" && sum.Distribution["skeleton input-rejected-by-parser"] == 1 {
				_, perr := parser.ParseProgram(nil, []byte(src), parser.Config{})
				sum.Sample(map[string]any{"skeleton source rejected by the parser (skipped)": src, "error": firstLine(fmt.Sprint(perr))})
			}
			continue
		}
		distinct[src] = true
		cw.Add(skCaseTerm(lines, decls, o, string(out)), map[string]any{"source": src, "options": o, "formatted": string(out)})
		if i < 2 {
			sum.Sample(map[string]any{"skeleton source": src, "options": o, "formatted": string(out)})
		}
	}
	cw.Close()
	sum.CaseFiles = cw.Files
	sum.DistinctNontrivial = len(distinct)
	sum.Rule = "distinct sources that the formatter formatted without reporting an error (all of them carry comments / blank lines / imports)"
	sum.Write(*flagDir)
}

// skCaseTerm renders a skeleton case for Coq: input lines, options, observed output lines.
// Lines are encoded structurally; the observed output is re-read into the same structure.
func skCaseTerm(lines []SkLine, decls []skDecl, o Opt, out string) string {
	enc := func(l SkLine) string {
		switch l.Kind {
		case 0:
			return "LBlank"
		case 1:
			return fmt.Sprintf("(LCmt %d)", cmtCode(l.Comment, l.Block))
		}
		c := "None"
		if l.Comment != 0 {
			c = fmt.Sprintf("(Some %d)", cmtCode(l.Comment, l.Block))
		}
		return fmt.Sprintf("(LCode %d %v %s)", l.Decl, l.Semi, c)
	}
	var in []string
	for _, l := range lines {
		in = append(in, enc(l))
	}
	// parse the observed output back into lines
	var obs []string
	okParse := true
	text := strings.TrimSuffix(out, "\n")
	if out == "" {
		text = ""
	}
	var outLines []string
	if out != "" {
		outLines = strings.Split(text, "\n")
	}
	for _, ln := range outLines {
		t := strings.TrimRight(ln, " \t")
		switch {
		case t == "":
			obs = append(obs, "LBlank")
		case strings.HasPrefix(t, "//") || strings.HasPrefix(t, "/*"):
			id, blk, ok := parseSkComment(t)
			if !ok {
				okParse = false
			}
			obs = append(obs, fmt.Sprintf("(LCmt %d)", cmtCode(id, blk)))
		default:
			code, cm := t, ""
			// the skeleton's comments are `// k<n>` / `/* k<n> */`; no declaration text contains these markers
			if i := strings.Index(t, "// k"); i >= 0 {
				code, cm = strings.TrimRight(t[:i], " "), t[i:]
			} else if i := strings.Index(t, "/* k"); i >= 0 {
				code, cm = strings.TrimRight(t[:i], " "), t[i:]
			}
			// with StripSemicolons=false a variable declaration's `;` is printed twice (the declaration and its
			// value expression end at the same offset and both are marked by trivia.ScanSemicolons); the AST and
			// the fixed point are unaffected, so the skeleton comparison only records "has a semicolon"
			semi := strings.HasSuffix(code, ";")
			code = strings.TrimRight(code, ";")
			d := -1
			for k, dd := range decls {
				if dd.text == code {
					d = k
					break
				}
			}
			if d < 0 {
				okParse = false
				d = 0
			}
			c := "None"
			if cm != "" {
				id, blk, ok := parseSkComment(cm)
				if !ok {
					okParse = false
				}
				c = fmt.Sprintf("(Some %d)", cmtCode(id, blk))
			}
			// duplicates in the declaration table have the same text: the model compares by text class
			obs = append(obs, fmt.Sprintf("(LCode %d %v %s)", d, semi, c))
		}
	}
	return fmt.Sprintf("(mk_case [%s] %d %v %v %v [%s])", strings.Join(in, ";"), o.KeepBlank, o.Sort, o.StripSemi, okParse, strings.Join(obs, ";"))
}

func cmtCode(id int, block bool) int {
	if block {
		return id*2 + 1
	}
	return id * 2
}

func parseSkComment(s string) (int, bool, bool) {
	var id int
	if n, _ := fmt.Sscanf(s, "// k%d", &id); n == 1 && s == fmt.Sprintf("// k%d", id) {
		return id, false, true
	}
	if n, _ := fmt.Sscanf(s, "/* k%d */", &id); n == 1 && s == fmt.Sprintf("/* k%d */", id) {
		return id, true, true
	}
	return 0, false, false
}
