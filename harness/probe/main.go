package main

import (
	"fmt"

	"cvh/lib"
)

func main() {
	h := lib.NewHost()
	for _, src := range []string{
		`access(all) fun main(): Int8 { let x: Fix128 = -1.5; return Int8(x) }`,
		`access(all) fun main(): Fix64 { let x: Fix128 = -0.000000000000000000000001; return Fix64(x) }`,
		`access(all) fun main(): UInt8 { let x: Fix128 = -0.000000000000000000000001; return UInt8(x) }`,
		`access(all) fun main(): Int { let x: Fix128 = -2.0; return Int(x) }`,
		`access(all) fun main(): Word8 { let x: Fix128 = -1.5; return Word8(x) }`,
	} {
		for _, vm := range []bool{false, true} {
			o := h.RunScript(src, nil, vm)
			fmt.Println(src[24:], "vm=", vm, "=>", o.Value, o.Class)
		}
	}
}
