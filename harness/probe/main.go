package main

import (
	"fmt"

	"cvh/lib"
)

func main() {
	h := lib.NewHost()
	h.CompGauge = nil
	for _, src := range []string{
		`access(all) fun main(): [Word8] { var r: [Word8] = []; for x in InclusiveRange<Word8>(250, 255) { r.append(x); if r.length > 20 { break } }; return r }`,
		`access(all) fun main(): [UInt8] { var r: [UInt8] = []; for x in InclusiveRange<UInt8>(250, 255) { r.append(x) }; return r }`,
		`access(all) fun main(): [UInt8] { var r: [UInt8] = []; for x in InclusiveRange<UInt8>(250, 254) { r.append(x) }; return r }`,
		`access(all) fun main(): [Int] { var r: [Int] = []; for x in InclusiveRange<Int>(5, 1, step: -2) { r.append(x) }; return r }`,
		`access(all) fun main(): Bool { return InclusiveRange(0, 10, step: 3).contains(10) }`,
		`access(all) fun main(): Bool { return InclusiveRange<Int8>(-128, 127, step: 2).contains(126) }`,
		`access(all) fun main(): Bool { return InclusiveRange<Word8>(3, 200, step: 2).contains(1) }`,
		`access(all) fun main(): Bool { return InclusiveRange<UInt8>(10, 3, step: 2).contains(1) }`,
		`access(all) fun main(): Bool { return InclusiveRange<Int8>(10, 3, step: -2).contains(4) }`,
		`access(all) fun main(): Bool { return InclusiveRange<Int8>(10, 3, step: -2).contains(5) }`,
	} {
		for _, vm := range []bool{false, true} {
			o := h.RunScript(src, nil, vm)
			fmt.Println(src[30:], "vm=", vm, "=>", o.Value, o.Class)
			if o.Err != nil {
				fmt.Println("   ", o.Err.Error()[:min(len(o.Err.Error()), 200)])
			}
		}
	}
}
