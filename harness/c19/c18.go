package main

// C18: equality, ordering and hashing laws.
// Values of every equatable kind are generated in related triples (same value in different
// representations, neighbours, other kinds); the real Equal / Less... / HashInput methods and real
// dictionaries are run on them; the results are (1) checked directly against the laws,
// (2) compared with an independent canonical-form oracle, (3) compared with the Coq model,
// (4) reproduced by Cadence scripts in both engines.

import (
	"bytes"
	"fmt"
	"math/big"
	"sort"
	"strings"

	"cvh/lib"

	"github.com/onflow/cadence"
	"github.com/onflow/cadence/common"
	"github.com/onflow/cadence/interpreter"
	"github.com/onflow/cadence/parser"
	"github.com/onflow/cadence/sema"
)

const decls18 = `
access(all) enum E: UInt8 { access(all) case a; access(all) case b; access(all) case c }
access(all) enum F: UInt8 { access(all) case a; access(all) case b }
access(all) enum G: Int16 { access(all) case x; access(all) case y }
access(all) struct interface I1 {}
access(all) struct interface I2 {}
access(all) struct interface I3 {}
access(all) struct S: I1, I2, I3 {}
access(all) resource R {}
access(all) entitlement E1
access(all) entitlement E2
access(all) entitlement E3
access(all) entitlement E4
access(all) entitlement E5
access(all) entitlement mapping M { E1 -> E2 }
access(all) fun mkE(_ i: UInt8): E { return E(rawValue: i)! }
access(all) fun mkF(_ i: UInt8): F { return F(rawValue: i)! }
access(all) fun mkG(_ i: Int16): G { return G(rawValue: i)! }
access(all) fun eid(_ n: String): String { let s = Type<S>().identifier; return s.slice(from: 0, upTo: s.length - 1).concat(n) }
`

var loc18 = common.StringLocation("test")

var inter18 *interpreter.Interpreter

func init18() {
	program, err := parser.ParseProgram(nil, []byte(decls18), parser.Config{})
	if err != nil {
		panic(fmt.Errorf("C18 declarations do not parse: %w", err))
	}
	checker, err := sema.NewChecker(program, loc18, nil, &sema.Config{AccessCheckMode: sema.AccessCheckModeStrict})
	if err != nil {
		panic(err)
	}
	if err := checker.Check(); err != nil {
		panic(fmt.Errorf("C18 declarations do not check: %w", err))
	}
	in, err := interpreter.NewInterpreter(
		interpreter.ProgramFromChecker(checker),
		loc18,
		&interpreter.Config{
			Storage: interpreter.NewInMemoryStorage(nil, nil),
			ImportLocationHandler: func(inter *interpreter.Interpreter, location common.Location) interpreter.Import {
				return interpreter.VirtualImport{Elaboration: checker.Elaboration}
			},
			CompositeTypeHandler: func(location common.Location, typeID interpreter.TypeID) *sema.CompositeType {
				return checker.Elaboration.CompositeType(typeID)
			},
		},
	)
	if err != nil {
		panic(err)
	}
	if err := in.Interpret(); err != nil {
		panic(err)
	}
	inter18 = in
	inter = in
}

// ---- generated values -------------------------------------------------------------------------

type gv struct {
	coq   string            // Coq term (type value)
	iv    interpreter.Value // the real value
	lit   string            // Cadence expression, "" when the value cannot be written in a script
	typ   string            // Cadence type of lit
	canon string            // canonical form: two values must be equal iff their canon is equal
	strs  []string          // source texts whose NFC form the Coq model needs
	fam   string
	cmp   bool // comparable kind
	hash  bool // hashable kind
	desc  string
	nocoq bool // kind outside the Coq model (function types): laws, oracle and scripts only
}

type numKind struct {
	name string // Cadence type name
	coq  string
	min  *big.Int // nil: unbounded
	max  *big.Int
	mk   func(*big.Int) interpreter.Value
	frac int // number of fractional digits (fixed point), 0 for integers
}

func p2(n uint) *big.Int { return new(big.Int).Lsh(big.NewInt(1), n) }
func neg(z *big.Int) *big.Int {
	return new(big.Int).Neg(z)
}
func dec1(z *big.Int) *big.Int { return new(big.Int).Sub(z, big.NewInt(1)) }

var numKinds []numKind

func initNumKinds() {
	for _, t := range lib.IntTypes {
		t := t
		numKinds = append(numKinds, numKind{name: t.Name, coq: "K" + t.Name, min: t.Min(), max: t.Max(),
			mk: func(z *big.Int) interpreter.Value { return t.Make(z) }})
	}
	numKinds = append(numKinds,
		numKind{name: "Fix64", coq: "KFix64", min: neg(p2(63)), max: dec1(p2(63)), frac: 8,
			mk: func(z *big.Int) interpreter.Value { return interpreter.NewUnmeteredFix64Value(z.Int64()) }},
		numKind{name: "UFix64", coq: "KUFix64", min: big.NewInt(0), max: dec1(p2(64)), frac: 8,
			mk: func(z *big.Int) interpreter.Value { return interpreter.NewUnmeteredUFix64Value(z.Uint64()) }},
		numKind{name: "Fix128", coq: "KFix128", min: neg(p2(127)), max: dec1(p2(127)), frac: 24,
			mk: func(z *big.Int) interpreter.Value {
				return interpreter.NewFix128ValueFromBigInt(nil, new(big.Int).Set(z))
			}},
		numKind{name: "UFix128", coq: "KUFix128", min: big.NewInt(0), max: dec1(p2(128)), frac: 24,
			mk: func(z *big.Int) interpreter.Value {
				return interpreter.NewUFix128ValueFromBigInt(nil, new(big.Int).Set(z))
			}},
	)
}

func (k numKind) inRange(z *big.Int) bool {
	return (k.min == nil || z.Cmp(k.min) >= 0) && (k.max == nil || z.Cmp(k.max) <= 0)
}

func (k numKind) random(r *lib.Rng) *big.Int {
	lo, hi := k.min, k.max
	if hi == nil {
		hi = p2(uint(70 + r.Intn(200)))
	}
	if lo == nil {
		lo = neg(hi)
	}
	switch r.Intn(8) {
	case 0:
		return new(big.Int).Set(lo)
	case 1:
		return new(big.Int).Set(hi)
	case 2:
		z := big.NewInt(int64(r.Intn(5)) - 2)
		if k.inRange(z) {
			return z
		}
		return big.NewInt(0)
	case 3: // byte-length boundaries of the minimal big-endian encodings
		e := uint(7 + 8*r.Intn(20))
		z := lib.Pick(r, []*big.Int{p2(e), dec1(p2(e)), neg(p2(e)), neg(dec1(p2(e))), neg(new(big.Int).Add(p2(e), big.NewInt(1))), p2(e + 1), dec1(p2(e + 1))})
		if k.inRange(z) {
			return z
		}
		return big.NewInt(1)
	}
	return r.BigBetween(lo, hi)
}

func (k numKind) literal(z *big.Int) string {
	if k.frac == 0 {
		return fmt.Sprintf("(%s as %s)", z, k.name)
	}
	a := new(big.Int).Abs(z)
	scale := new(big.Int).Exp(big.NewInt(10), big.NewInt(int64(k.frac)), nil)
	ip, fp := new(big.Int).QuoRem(a, scale, new(big.Int))
	sign := ""
	if z.Sign() < 0 {
		sign = "-"
	}
	return fmt.Sprintf("(%s%s.%0*s as %s)", sign, ip, k.frac, fp.String(), k.name)
}

func numValue(k numKind, z *big.Int) gv {
	return gv{
		coq: fmt.Sprintf("VNum %s %s", k.coq, lib.Z(z)), iv: k.mk(z), lit: k.literal(z), typ: k.name,
		canon: "num:" + k.name + ":" + z.String(), fam: "num", cmp: true, hash: true,
		desc: fmt.Sprintf("%s(%s)", k.name, z),
	}
}

func strValue(raw string) gv {
	return gv{coq: "Vs " + cpsList(raw), iv: interpreter.NewUnmeteredStringValue(raw), lit: lit(raw), typ: "String",
		canon: "str:" + nfc(raw), strs: []string{raw}, fam: "str", cmp: true, hash: true, desc: fmt.Sprintf("String(%+q)", raw)}
}

// derivedStr: a String value that is NOT a literal but the result of real string operations on parts
// (concat / join / replaceAll / slice); raw is the text it must be equal to.
func derivedStr(how string, r *lib.Rng, a, b string) gv {
	var iv *interpreter.StringValue
	var raw, src string
	A, B := interpreter.NewUnmeteredStringValue(a), interpreter.NewUnmeteredStringValue(b)
	if r != nil && r.Bool() { // operands whose cluster length is already cached
		A.Length(inter18)
		B.Length(inter18)
	}
	switch how {
	case "concat":
		iv = A.Concat(inter18, B).(*interpreter.StringValue)
		raw, src = nfc(a)+nfc(b), fmt.Sprintf("%s.concat(%s)", lit(a), lit(b))
	case "join":
		arr := interpreter.NewArrayValue(inter18, interpreter.VarSizedArrayOfStringType, common.ZeroAddress, A, B)
		iv = interpreter.StringFunctionJoin(inter18, arr, interpreter.NewUnmeteredStringValue("")).(*interpreter.StringValue)
		raw, src = nfc(a)+nfc(b), fmt.Sprintf("String.join([%s, %s], separator: \"\")", lit(a), lit(b))
	case "replace":
		base := interpreter.NewUnmeteredStringValue(a + "Z")
		iv = base.ReplaceAll(inter18, interpreter.NewUnmeteredStringValue("Z"), B)
		raw, _ = specReplaceRaw(nfc(a+"Z"), "Z", nfc(b))
		src = fmt.Sprintf("%s.replaceAll(of: \"Z\", with: %s)", lit(a+"Z"), lit(b))
	case "slice":
		whole := interpreter.NewUnmeteredStringValue(a + b)
		cl := clustersOf(nfc(a + b))
		i, j := 0, len(cl)
		if r != nil && len(cl) > 0 {
			i = r.Intn(len(cl) + 1)
			j = i + r.Intn(len(cl)-i+1)
		}
		iv = whole.Slice(inter18, interpreter.NewUnmeteredIntValueFromInt64(int64(i)), interpreter.NewUnmeteredIntValueFromInt64(int64(j))).(*interpreter.StringValue)
		raw, src = strings.Join(cl[i:j], ""), fmt.Sprintf("%s.slice(from: %d, upTo: %d)", lit(a+b), i, j)
	default:
		panic(how)
	}
	return gv{coq: "Vs " + cpsList(raw), iv: iv, lit: src, typ: "String", canon: "str:" + nfc(raw), strs: []string{raw}, fam: "str",
		cmp: true, hash: true, desc: fmt.Sprintf("String(%s)", strings.ReplaceAll(src, "\\u", "\\u"))}
}

func charValue(raw string) gv {
	return gv{coq: "Vc " + cpsList(raw), iv: interpreter.NewUnmeteredCharacterValue(raw), lit: lit(raw), typ: "Character",
		canon: "chr:" + nfc(raw), strs: []string{raw}, fam: "char", cmp: true, hash: true, desc: fmt.Sprintf("Character(%+q)", raw)}
}

func boolValue(b bool) gv {
	return gv{coq: fmt.Sprintf("VBool %v", b), iv: interpreter.BoolValue(b), lit: fmt.Sprint(b), typ: "Bool",
		canon: fmt.Sprint("bool:", b), fam: "bool", cmp: true, hash: true, desc: fmt.Sprint(b)}
}

func addrValue(x uint64) gv {
	var b [8]byte
	for i := 0; i < 8; i++ {
		b[7-i] = byte(x >> (8 * i))
	}
	return gv{coq: "VAddr " + new(big.Int).SetUint64(x).String(), iv: interpreter.NewUnmeteredAddressValueFromBytes(b[:]),
		lit: fmt.Sprintf("(0x%x as Address)", x), typ: "Address", canon: fmt.Sprint("addr:", x), fam: "addr", hash: true,
		desc: fmt.Sprintf("Address(0x%x)", x)}
}

var domainNames = map[common.PathDomain]string{common.PathDomainStorage: "storage", common.PathDomainPrivate: "private", common.PathDomainPublic: "public"}

func pathValue(d common.PathDomain, id string) gv {
	g := gv{coq: fmt.Sprintf("Vp %d %s", int(d), cpsList(id)), iv: interpreter.NewUnmeteredPathValue(d, id), typ: "Path",
		canon: fmt.Sprintf("path:%d:%s", d, id), fam: "path", hash: true, desc: fmt.Sprintf("/%s/%s", domainNames[d], id)}
	if d != common.PathDomainPrivate {
		g.lit = fmt.Sprintf("/%s/%s", domainNames[d], id)
	}
	return g
}

type enumDecl struct {
	name  string
	mk    string
	kind  string // Coq numkind
	raws  []int64
	case_ []string
}

var enumDecls = []enumDecl{
	{"E", "mkE", "KUInt8", []int64{0, 1, 2}, []string{"a", "b", "c"}},
	{"F", "mkF", "KUInt8", []int64{0, 1}, []string{"a", "b"}},
	{"G", "mkG", "KInt16", []int64{0, 1}, []string{"x", "y"}},
}

func enumValue(e enumDecl, i int) gv {
	var arg interpreter.Value
	if e.kind == "KUInt8" {
		arg = interpreter.NewUnmeteredUInt8Value(uint8(e.raws[i]))
	} else {
		arg = interpreter.NewUnmeteredInt16Value(int16(e.raws[i]))
	}
	v, err := inter18.Invoke(e.mk, arg)
	if err != nil {
		panic(err)
	}
	tid := "S.test." + e.name
	return gv{coq: fmt.Sprintf("VEnum %s %s %d", byteList([]byte(tid)), e.kind, e.raws[i]), iv: v,
		lit: e.name + "." + e.case_[i], typ: e.name, canon: fmt.Sprintf("enum:%s:%d", e.name, e.raws[i]), fam: "enum", hash: true,
		desc: e.name + "." + e.case_[i]}
}

// ---- static types -----------------------------------------------------------------------------

type authT struct {
	kind string // unauth set map
	disj bool
	es   []string
}

type styT struct {
	kind string // prim comp iface opt var const dict ref capnone cap inter range fun(a: parameter, b: return)
	name string
	a, b *styT
	n    int64
	auth authT
	ids  []string
}

var primTypes = map[string]interpreter.PrimitiveStaticType{
	"Int": interpreter.PrimitiveStaticTypeInt, "String": interpreter.PrimitiveStaticTypeString, "Bool": interpreter.PrimitiveStaticTypeBool,
	"UInt8": interpreter.PrimitiveStaticTypeUInt8, "Address": interpreter.PrimitiveStaticTypeAddress,
	"AnyStruct": interpreter.PrimitiveStaticTypeAnyStruct, "Character": interpreter.PrimitiveStaticTypeCharacter,
	"Int8": interpreter.PrimitiveStaticTypeInt8, "Type": interpreter.PrimitiveStaticTypeMetaType, "Path": interpreter.PrimitiveStaticTypePath,
}
var primNames = []string{"Int", "String", "Bool", "UInt8", "Address", "AnyStruct", "Character"}

func tid(name string) string { return "S.test." + name }

func (a authT) static() interpreter.Authorization {
	switch a.kind {
	case "unauth":
		return interpreter.UnauthorizedAccess
	case "map":
		return interpreter.NewEntitlementMapAuthorization(nil, common.TypeID(tid("M")))
	}
	k := sema.Conjunction
	if a.disj {
		k = sema.Disjunction
	}
	es := a.es
	return interpreter.NewEntitlementSetAuthorization(nil, func() []common.TypeID {
		out := make([]common.TypeID, len(es))
		for i, e := range es {
			out[i] = common.TypeID(tid(e))
		}
		return out
	}, len(es), k)
}

func (a authT) coq() string {
	switch a.kind {
	case "unauth":
		return "AUnauth"
	case "map":
		return "(AMap " + byteList([]byte(tid("M"))) + ")"
	}
	parts := make([]string, len(a.es))
	for i, e := range a.es {
		parts[i] = byteList([]byte(tid(e)))
	}
	return fmt.Sprintf("(ASet %v [%s])", a.disj, strings.Join(parts, ";"))
}

func (a authT) canon() string {
	switch a.kind {
	case "unauth":
		return "unauth"
	case "map":
		return "map"
	}
	es := append([]string{}, a.es...)
	sort.Strings(es)
	return fmt.Sprintf("set(%v,%s)", a.disj, strings.Join(es, "+"))
}

func (a authT) src() string {
	switch a.kind {
	case "unauth":
		return ""
	case "map":
		return "" // auth(mapping M) references cannot be written as a type argument
	}
	sep := ", "
	if a.disj {
		sep = " | "
	}
	return "auth(" + strings.Join(a.es, sep) + ") "
}

func (t *styT) static() interpreter.StaticType {
	switch t.kind {
	case "prim":
		return primTypes[t.name]
	case "comp":
		return interpreter.NewCompositeStaticTypeComputeTypeID(nil, loc18, t.name)
	case "iface":
		return interpreter.NewInterfaceStaticTypeComputeTypeID(nil, loc18, t.name)
	case "opt":
		return interpreter.NewOptionalStaticType(nil, t.a.static())
	case "var":
		return interpreter.NewVariableSizedStaticType(nil, t.a.static())
	case "const":
		return interpreter.NewConstantSizedStaticType(nil, t.a.static(), t.n)
	case "dict":
		return interpreter.NewDictionaryStaticType(nil, t.a.static(), t.b.static())
	case "ref":
		return interpreter.NewReferenceStaticType(nil, t.auth.static(), t.a.static())
	case "capnone":
		return interpreter.NewCapabilityStaticType(nil, nil)
	case "cap":
		return interpreter.NewCapabilityStaticType(nil, t.a.static())
	case "inter":
		var ts []*interpreter.InterfaceStaticType
		for _, id := range t.ids {
			ts = append(ts, interpreter.NewInterfaceStaticTypeComputeTypeID(nil, loc18, id))
		}
		return interpreter.NewIntersectionStaticType(nil, ts)
	case "range":
		return interpreter.NewInclusiveRangeStaticType(nil, t.a.static())
	case "fun":
		p := interpreter.MustConvertStaticToSemaType(t.a.static(), inter18)
		ret := interpreter.MustConvertStaticToSemaType(t.b.static(), inter18)
		ft := sema.NewSimpleFunctionType(sema.FunctionPurityImpure,
			[]sema.Parameter{{Label: sema.ArgumentLabelNotRequired, Identifier: "p0", TypeAnnotation: sema.NewTypeAnnotation(p)}},
			sema.NewTypeAnnotation(ret))
		return interpreter.NewFunctionStaticType(nil, ft)
	}
	panic(t.kind)
}

func (t *styT) hasFun() bool {
	if t == nil {
		return false
	}
	return t.kind == "fun" || t.a.hasFun() || t.b.hasFun()
}

func (t *styT) coq() string {
	switch t.kind {
	case "prim":
		return "(SPrim " + byteList([]byte(t.name)) + ")"
	case "comp":
		return "(SComposite " + byteList([]byte(tid(t.name))) + ")"
	case "iface":
		return "(SInterface " + byteList([]byte(tid(t.name))) + ")"
	case "opt":
		return "(SOpt " + t.a.coq() + ")"
	case "var":
		return "(SVarArr " + t.a.coq() + ")"
	case "const":
		return fmt.Sprintf("(SConstArr %s %d)", t.a.coq(), t.n)
	case "dict":
		return "(SDict " + t.a.coq() + " " + t.b.coq() + ")"
	case "ref":
		return "(SRef " + t.auth.coq() + " " + t.a.coq() + ")"
	case "capnone":
		return "SCapNone"
	case "cap":
		return "(SCap " + t.a.coq() + ")"
	case "inter":
		parts := make([]string, len(t.ids))
		for i, id := range t.ids {
			parts[i] = byteList([]byte(tid(id)))
		}
		return "(SInter [" + strings.Join(parts, ";") + "])"
	case "range":
		return "(SRange " + t.a.coq() + ")"
	case "fun":
		return "(SPrim [])" // function types are outside the Coq model; values containing them are never sent to Coq
	}
	panic(t.kind)
}

func (t *styT) canon() string {
	switch t.kind {
	case "prim", "comp", "iface":
		return t.kind + ":" + t.name
	case "opt", "var", "cap", "range":
		return t.kind + "(" + t.a.canon() + ")"
	case "const":
		return fmt.Sprintf("const(%s,%d)", t.a.canon(), t.n)
	case "dict":
		return "dict(" + t.a.canon() + "," + t.b.canon() + ")"
	case "ref":
		return "ref(" + t.auth.canon() + "," + t.a.canon() + ")"
	case "capnone":
		return "capnone"
	case "inter":
		ids := append([]string{}, t.ids...)
		sort.Strings(ids)
		return "inter(" + strings.Join(ids, "+") + ")"
	case "fun":
		return "fun(" + t.a.canon() + ";" + t.b.canon() + ")"
	}
	panic(t.kind)
}

// src renders the type in Cadence syntax ("" if it cannot be written)
func (t *styT) src() string {
	sub := func(x *styT) string {
		if x == nil {
			return ""
		}
		return x.src()
	}
	switch t.kind {
	case "prim", "comp", "iface":
		if t.kind == "iface" {
			return "" // a bare interface is not a type in source code
		}
		if t.kind == "comp" && t.name == "R" {
			return "@R"
		}
		return t.name
	case "opt":
		if s := sub(t.a); s != "" {
			if t.a.kind == "ref" {
				return "(" + s + ")?"
			}
			return s + "?"
		}
	case "var":
		if s := sub(t.a); s != "" {
			return "[" + s + "]"
		}
	case "const":
		if s := sub(t.a); s != "" {
			return fmt.Sprintf("[%s; %d]", s, t.n)
		}
	case "dict":
		if k, v := sub(t.a), sub(t.b); k != "" && v != "" {
			return "{" + k + ": " + v + "}"
		}
	case "ref":
		if t.auth.kind == "map" || (t.auth.kind == "set" && t.auth.disj && len(t.auth.es) == 1) {
			return "" // not expressible (a one-element disjunction reads back as a conjunction)
		}
		if t.a.kind == "ref" {
			return "" // `&&T` lexes as the logical-and token
		}
		if s := sub(t.a); s != "" {
			s = strings.TrimPrefix(s, "@")
			return t.auth.src() + "&" + s
		}
	case "capnone":
		return "Capability"
	case "cap":
		if s := sub(t.a); s != "" {
			return "Capability<" + s + ">"
		}
	case "inter":
		if len(t.ids) == 0 {
			return "" // `{}` is rejected by the checker as ambiguous
		}
		return "{" + strings.Join(t.ids, ", ") + "}"
	case "range":
		if s := sub(t.a); s != "" {
			return "InclusiveRange<" + s + ">"
		}
	case "fun":
		if p, q := sub(t.a), sub(t.b); p != "" && q != "" {
			return "fun(" + p + "): " + q
		}
	}
	return ""
}

// srcRT renders the type as a Cadence EXPRESSION of type Type that builds it with the run-time type
// constructors (ReferenceType, OptionalType, ...) where possible; "" if it cannot be written.
func (t *styT) srcRT() string {
	static := func() string {
		if s := t.src(); s != "" {
			return "Type<" + s + ">()"
		}
		return ""
	}
	ids := func(xs []string) string {
		parts := make([]string, len(xs))
		for i, x := range xs {
			parts[i] = fmt.Sprintf("eid(%q)", x)
		}
		return "[" + strings.Join(parts, ", ") + "]"
	}
	sub := func(x *styT) string {
		if x == nil {
			return ""
		}
		return x.srcRT()
	}
	switch t.kind {
	case "opt":
		if s := sub(t.a); s != "" {
			return "OptionalType(" + s + ")"
		}
	case "var":
		if s := sub(t.a); s != "" {
			return "VariableSizedArrayType(" + s + ")"
		}
	case "const":
		if s := sub(t.a); s != "" {
			return fmt.Sprintf("ConstantSizedArrayType(type: %s, size: %d)", s, t.n)
		}
	case "dict":
		if k, v := sub(t.a), sub(t.b); k != "" && v != "" {
			return "DictionaryType(key: " + k + ", value: " + v + ")!"
		}
	case "cap":
		if s := sub(t.a); s != "" {
			return "CapabilityType(" + s + ")!"
		}
	case "fun":
		// a type value of a function type is not storable, so it cannot sit in the `parameters` array
		if p, q := sub(t.a), sub(t.b); p != "" && q != "" && !t.a.hasFun() {
			return "FunctionType(parameters: [" + p + "], return: " + q + ")"
		}
	case "inter":
		if len(t.ids) > 0 {
			return "IntersectionType(types: " + ids(t.ids) + ")!"
		}
	case "ref":
		if t.auth.kind == "set" && !t.auth.disj && len(t.auth.es) > 0 {
			if s := sub(t.a); s != "" {
				return "ReferenceType(entitlements: " + ids(t.auth.es) + ", type: " + s + ")!"
			}
		}
	}
	return static()
}

func hasResource(t *styT) bool {
	if t == nil {
		return false
	}
	return (t.kind == "comp" && t.name == "R") || hasResource(t.a) || hasResource(t.b)
}

func subsetPerm(r *lib.Rng, xs []string) []string {
	var out []string
	for _, x := range xs {
		if r.Bool() {
			out = append(out, x)
		}
	}
	for i := len(out) - 1; i > 0; i-- {
		j := r.Intn(i + 1)
		out[i], out[j] = out[j], out[i]
	}
	return out
}

var entPool = []string{"E1", "E2", "E3", "E4", "E5"}

// pickEnts draws n distinct entitlements in random order, avoiding `avoid` as far as the pool allows.
func pickEnts(r *lib.Rng, n int, avoid []string) []string {
	bad := map[string]bool{}
	for _, a := range avoid {
		bad[a] = true
	}
	var pref, rest []string
	for _, e := range shuffled(r, entPool) {
		if bad[e] {
			rest = append(rest, e)
		} else {
			pref = append(pref, e)
		}
	}
	all := append(pref, rest...)
	return shuffled(r, all[:n])
}

func genAuth(r *lib.Rng) authT {
	switch r.Intn(6) {
	case 0:
		return authT{kind: "unauth"}
	case 1:
		return authT{kind: "map"}
	}
	return authT{kind: "set", disj: r.Chance(1, 3), es: pickEnts(r, 1+r.Intn(3), nil)}
}

func genSty(r *lib.Rng, depth int) *styT {
	k := r.Intn(14)
	if depth <= 0 && k >= 4 && k <= 10 {
		k = r.Intn(4)
	}
	switch k {
	case 0, 1:
		return &styT{kind: "prim", name: lib.Pick(r, primNames)}
	case 2:
		return &styT{kind: "comp", name: "S"}
	case 3:
		return &styT{kind: "iface", name: lib.Pick(r, []string{"I1", "I2", "I3"})}
	case 4:
		return &styT{kind: "opt", a: genSty(r, depth-1)}
	case 5:
		return &styT{kind: "var", a: genSty(r, depth-1)}
	case 6:
		return &styT{kind: "const", a: genSty(r, depth-1), n: int64(lib.Pick(r, []int{0, 1, 3, 10, 255}))}
	case 7:
		return &styT{kind: "dict", a: &styT{kind: "prim", name: lib.Pick(r, []string{"Int", "String", "Bool", "UInt8", "Address", "Character"})}, b: genSty(r, depth-1)}
	case 8, 9:
		return &styT{kind: "ref", auth: genAuth(r), a: genSty(r, depth-1)}
	case 10:
		return &styT{kind: "cap", a: &styT{kind: "ref", auth: genAuth(r), a: genSty(r, depth-2)}}
	case 11:
		return &styT{kind: "capnone"}
	case 12:
		return &styT{kind: "range", a: &styT{kind: "prim", name: lib.Pick(r, []string{"Int", "UInt8", "Int8"})}}
	default:
		return &styT{kind: "inter", ids: subsetPerm(r, []string{"I1", "I2", "I3"})}
	}
}

func shuffled(r *lib.Rng, xs []string) []string {
	out := append([]string{}, xs...)
	for i := len(out) - 1; i > 0; i-- {
		j := r.Intn(i + 1)
		out[i], out[j] = out[j], out[i]
	}
	return out
}

// variantSty: a type related to t: the same up to the order of sets (equal), or slightly different.
func variantSty(r *lib.Rng, t *styT, change bool) *styT {
	c := *t
	switch t.kind {
	case "inter":
		c.ids = shuffled(r, t.ids)
		if change {
			c.ids = subsetPerm(r, []string{"I1", "I2", "I3"})
		}
		return &c
	case "ref":
		c.auth = t.auth
		c.auth.es = shuffled(r, t.auth.es)
		if change && r.Bool() {
			c.auth = genAuth(r)
			if r.Bool() && t.auth.kind == "set" {
				c.auth = authT{kind: "set", disj: !t.auth.disj, es: shuffled(r, t.auth.es)}
			}
			return &c
		}
		c.a = variantSty(r, t.a, change)
		return &c
	case "const":
		if change && r.Bool() {
			c.n = t.n + 1
			return &c
		}
	case "prim", "comp", "iface", "capnone":
		if change {
			return genSty(r, 1)
		}
		return &c
	case "range", "cap":
		if change {
			return genSty(r, 2)
		}
	}
	if t.a != nil {
		if t.b != nil { // dictionary type: keep the (hashable) key type
			c.b = variantSty(r, t.b, change)
		} else {
			c.a = variantSty(r, t.a, change)
			if t.b != nil {
				c.b = variantSty(r, t.b, false)
			}
		}
	}
	return &c
}

func typeValue(t *styT) gv {
	g := gv{coq: "VType (Some " + t.coq() + ")", iv: interpreter.NewUnmeteredTypeValue(t.static()), typ: "Type",
		canon: "type:" + t.canon(), fam: "type", hash: true, desc: "Type<" + string(t.static().ID()) + ">"}
	if s := t.src(); s != "" {
		g.lit = "Type<" + s + ">()"
	}
	g.nocoq = t.hasFun()
	return g
}

// typeValueRT: the same value, but written in scripts with the run-time type constructors
func typeValueRT(t *styT) gv {
	g := typeValue(t)
	if s := t.srcRT(); s != "" {
		g.lit = s
		g.desc += " via " + s
	}
	return g
}

// authTriple: type values around reference types whose entitlement sets overlap, are reordered, disjoint,
// of the other kind, or chained (A~B, B~C, A!~C), nested inside optional / array / dictionary / capability /
// function types; 3 or 4 values.
func authTriple(r *lib.Rng) []gv {
	disj := r.Chance(1, 3)
	n := 1 + r.Intn(3)
	base := pickEnts(r, n, nil)
	overlap := func(s []string) []string { // same size, one member replaced by an outsider
		out := shuffled(r, s)
		out[r.Intn(len(out))] = pickEnts(r, 1, s)[0]
		return shuffled(r, out)
	}
	s1 := overlap(base)
	var sets []authT
	mk := func(es []string, d bool) authT { // entitlement sets are sets: no duplicates
		seen := map[string]bool{}
		var out []string
		for _, e := range es {
			if !seen[e] {
				seen[e] = true
				out = append(out, e)
			}
		}
		return authT{kind: "set", disj: d, es: out}
	}
	switch r.Intn(6) {
	case 0: // chain: base ~ s1 ~ s2, base and s2 as far apart as possible
		s2 := shuffled(r, s1)
		for i, e := range s2 {
			for _, b := range base {
				if e != b {
					continue
				}
				// replace a member shared with base by an entitlement outside base and s2, if there is one
				for _, c := range shuffled(r, entPool) {
					fresh := true
					for _, x := range append(append([]string{}, base...), s2...) {
						fresh = fresh && x != c
					}
					if fresh {
						s2[i] = c
						break
					}
				}
			}
		}
		sets = []authT{mk(base, disj), mk(s1, disj), mk(s2, disj), mk(shuffled(r, base), disj)}
	case 1: // reordered / overlapping / disjoint
		sets = []authT{mk(base, disj), mk(shuffled(r, base), disj), mk(s1, disj), mk(pickEnts(r, n, base), disj)}
	case 2: // other kind, sub- and superset
		sub := base[:1+r.Intn(len(base))]
		sup := append(append([]string{}, base...), pickEnts(r, 1, base)[0])
		sets = []authT{mk(base, disj), mk(shuffled(r, base), !disj), mk(shuffled(r, sub), disj), mk(shuffled(r, sup), disj)}
	case 3: // map / unauthorized next to sets
		sets = []authT{mk(base, disj), {kind: "map"}, {kind: "unauth"}, mk(s1, disj)}
	default:
		sets = []authT{mk(base, disj), mk(s1, disj), mk(overlap(s1), disj), mk(shuffled(r, s1), disj)}
	}
	if r.Bool() {
		sets = sets[:3]
	}
	inner := lib.Pick(r, []*styT{{kind: "comp", name: "S"}, {kind: "prim", name: "Int"}, {kind: "inter", ids: []string{"I1"}},
		{kind: "inter", ids: []string{"I2", "I1"}}, {kind: "prim", name: "AnyStruct"}, {kind: "var", a: &styT{kind: "prim", name: "String"}}})
	wrap := func(t *styT) *styT { return t }
	wrappers := []func(*styT) *styT{
		func(t *styT) *styT { return t },
		func(t *styT) *styT { return &styT{kind: "opt", a: t} },
		func(t *styT) *styT { return &styT{kind: "var", a: t} },
		func(t *styT) *styT { return &styT{kind: "const", a: t, n: 2} },
		func(t *styT) *styT { return &styT{kind: "dict", a: &styT{kind: "prim", name: "String"}, b: t} },
		func(t *styT) *styT {
			if t.kind != "ref" { // capabilities borrow reference types only
				return t
			}
			return &styT{kind: "cap", a: t}
		},
		func(t *styT) *styT { return &styT{kind: "fun", a: t, b: &styT{kind: "prim", name: "Int"}} },
		func(t *styT) *styT { return &styT{kind: "fun", a: &styT{kind: "prim", name: "Int"}, b: t} },
		func(t *styT) *styT {
			return &styT{kind: "ref", auth: authT{kind: "unauth"}, a: &styT{kind: "var", a: t}}
		},
	}
	w1, w2 := lib.Pick(r, wrappers), lib.Pick(r, wrappers)
	switch r.Intn(3) {
	case 0:
		wrap = w1
	case 1:
		wrap = func(t *styT) *styT { return w2(w1(t)) }
	}
	var out []gv
	for _, a := range sets {
		t := wrap(&styT{kind: "ref", auth: a, a: inner})
		if r.Bool() {
			out = append(out, typeValueRT(t))
		} else {
			out = append(out, typeValue(t))
		}
	}
	return out
}

// ---- optionals and arrays -------------------------------------------------------------------------

func someValue(in gv) gv {
	g := gv{coq: "VSome (" + in.coq + ")", iv: interpreter.NewUnmeteredSomeValueNonCopying(in.iv), canon: "some(" + in.canon + ")",
		strs: in.strs, fam: "opt", desc: "Some(" + in.desc + ")", nocoq: in.nocoq}
	if in.lit != "" && !strings.HasSuffix(in.typ, "?") && in.typ != "" {
		g.lit, g.typ = in.lit, in.typ+"?"
	}
	return g
}

func nilValue(typ string) gv {
	g := gv{coq: "VNil", iv: interpreter.Nil, canon: "nil", fam: "opt", desc: "nil"}
	if typ != "" && !strings.HasSuffix(typ, "?") {
		g.lit, g.typ = "nil", typ+"?"
	}
	return g
}

func arrValue(elemT *styT, constant bool, elems []gv) gv {
	t := &styT{kind: "var", a: elemT}
	if constant {
		t = &styT{kind: "const", a: elemT, n: int64(len(elems))}
	}
	vals := make([]interpreter.Value, len(elems))
	coqs := make([]string, len(elems))
	canons := make([]string, len(elems))
	lits := make([]string, len(elems))
	descs := make([]string, len(elems))
	var strs []string
	ok := true
	for i, e := range elems {
		vals[i], coqs[i], canons[i], lits[i], descs[i] = e.iv, e.coq, e.canon, e.lit, e.desc
		strs = append(strs, e.strs...)
		ok = ok && e.lit != ""
	}
	g := gv{
		coq:   fmt.Sprintf("VArr %s [%s]", t.coq(), strings.Join(coqs, ";")),
		iv:    interpreter.NewArrayValue(inter18, t.static().(interpreter.ArrayStaticType), common.ZeroAddress, vals...),
		canon: "arr(" + t.canon() + ";" + strings.Join(canons, ",") + ")", strs: strs, fam: "arr",
		desc: "[" + strings.Join(descs, ", ") + "] as " + string(t.static().ID()),
	}
	if ok {
		g.lit, g.typ = "["+strings.Join(lits, ", ")+"]", t.src()
	}
	return g
}

// ---- triples of related values ----------------------------------------------------------------------

func genTriple(r *lib.Rng) []gv {
	pool := genPool(r)
	switch r.Intn(24) {
	case 20, 21, 22, 23:
		return authTriple(r)
	case 0, 1, 2, 3: // numbers: same kind neighbours, or the same mathematical value in another kind
		k := lib.Pick(r, numKinds)
		z := k.random(r)
		out := []gv{numValue(k, z)}
		for len(out) < 3 {
			switch r.Intn(5) {
			case 0:
				out = append(out, numValue(k, z))
			case 1:
				d := big.NewInt(int64(r.Intn(3) - 1))
				if z2 := new(big.Int).Add(z, d); k.inRange(z2) {
					out = append(out, numValue(k, z2))
				}
			case 2:
				k2 := lib.Pick(r, numKinds)
				if k2.inRange(z) {
					out = append(out, numValue(k2, z))
				}
			default:
				out = append(out, numValue(k, k.random(r)))
			}
		}
		return out
	case 4, 5:
		s := string(genFromPool(r, pool, 5))
		return []gv{strValue(s), strValue(variant(r, s, pool)), strValue(variant(r, s, pool))}
	case 6, 7: // strings built by operations from parts whose junction composes / merges, next to equivalent literals
		var a, b string
		if r.Chance(2, 3) {
			sm := lib.Pick(r, seams)
			a, b = string(genFromPool(r, pool, 2))+sm[0], sm[1]+string(genFromPool(r, pool, 2))
		} else {
			rs := genFromPool(r, pool, 5)
			k := 0
			if len(rs) > 0 {
				k = r.Intn(len(rs) + 1)
			}
			a, b = string(rs[:k]), string(rs[k:])
		}
		how := func() string { return lib.Pick(r, []string{"concat", "concat", "join", "replace", "slice"}) }
		other := func() gv {
			switch r.Intn(4) {
			case 0:
				return strValue(nfc(a + b))
			case 1:
				return strValue(nfd(a + b))
			case 2:
				return strValue(a + b)
			}
			return derivedStr(how(), r, a, b)
		}
		return []gv{derivedStr(how(), r, a, b), other(), other()}
	case 8, 9:
		a := oneCluster(r)
		alt := func() string {
			b := lib.Pick(r, []string{a, nfd(a), nfc(a), oneCluster(r)})
			if len(clustersOf(b)) != 1 || len(clustersOf(nfc(b))) != 1 {
				return a
			}
			return b
		}
		return []gv{charValue(a), charValue(alt()), charValue(alt())}
	case 10:
		return []gv{boolValue(r.Bool()), boolValue(r.Bool()), boolValue(r.Bool())}
	case 11:
		xs := []uint64{0, 1, 2, 0xffffffffffffffff, 0x100, 0xff, 1 << 63, r.U64()}
		return []gv{addrValue(lib.Pick(r, xs)), addrValue(lib.Pick(r, xs)), addrValue(lib.Pick(r, xs))}
	case 12:
		ids := []string{"a", "b", "foo", "a1", "fo"}
		ds := []common.PathDomain{common.PathDomainStorage, common.PathDomainPublic, common.PathDomainPrivate}
		id := lib.Pick(r, ids)
		return []gv{pathValue(lib.Pick(r, ds), id), pathValue(lib.Pick(r, ds), id), pathValue(lib.Pick(r, ds), lib.Pick(r, ids))}
	case 13:
		var out []gv
		for i := 0; i < 3; i++ {
			e := lib.Pick(r, enumDecls)
			out = append(out, enumValue(e, r.Intn(len(e.raws))))
		}
		return out
	case 14, 15, 16:
		t := genSty(r, 3)
		return []gv{typeValue(t), typeValue(variantSty(r, t, false)), typeValue(variantSty(r, t, r.Bool()))}
	case 17, 18: // optionals of any depth around related values
		in := genTriple(r)
		out := make([]gv, 3)
		for i := range out {
			g := in[i]
			switch r.Intn(5) {
			case 0:
				g = nilValue(g.typ)
			case 1:
				g = someValue(someValue(g))
			case 2:
				g = someValue(nilValue(g.typ))
			default:
				g = someValue(g)
			}
			out[i] = g
		}
		return out
	default: // arrays
		k := lib.Pick(r, numKinds)
		elemT := &styT{kind: "prim", name: k.name}
		if _, ok := primTypes[k.name]; !ok {
			k = numKinds[0] // Int8
			elemT = &styT{kind: "prim", name: "Int8"}
		}
		n := r.Intn(4)
		base := make([]gv, n)
		for i := range base {
			base[i] = numValue(k, big.NewInt(int64(r.Intn(3))))
		}
		mk := func() gv {
			el := append([]gv{}, base...)
			constant := false
			switch r.Intn(6) {
			case 0:
				if len(el) > 0 {
					el[r.Intn(len(el))] = numValue(k, big.NewInt(int64(r.Intn(3))))
				}
			case 1:
				el = append(el, numValue(k, big.NewInt(0)))
			case 2:
				constant = true
			}
			return arrValue(elemT, constant, el)
		}
		return []gv{mk(), mk(), mk()}
	}
}

// ---- running the real implementation ---------------------------------------------------------------

type r18 struct {
	kind string // bool bytes none dict err
	b    bool
	bs   []byte
	n    int
	res  []int
	err  string
}

func (x r18) String() string {
	switch x.kind {
	case "bool":
		return fmt.Sprint(x.b)
	case "bytes":
		return fmt.Sprintf("%x", x.bs)
	case "dict":
		return fmt.Sprintf("len=%d %v", x.n, x.res)
	case "err":
		return "Err " + x.err
	}
	return x.kind
}

func (x r18) eq(y r18) bool { return x.String() == y.String() && x.kind == y.kind }

func (x r18) coq() string {
	switch x.kind {
	case "bool":
		return fmt.Sprintf("QBool %v", x.b)
	case "bytes":
		return "QBytes " + byteList(x.bs)
	case "none":
		return "QNone"
	case "dict":
		parts := make([]string, len(x.res))
		for i, v := range x.res {
			parts[i] = lib.ZI(int64(v))
		}
		return fmt.Sprintf("QDict %d [%s]", x.n, strings.Join(parts, ";"))
	}
	return "QNone"
}

func catch18(f func() r18) (o r18) {
	defer func() {
		if r := recover(); r != nil {
			o = r18{kind: "err", err: lib.Classify(r) + fmt.Sprintf(" (%.200v)", r)}
		}
	}()
	return f()
}

func realEqual(a, b gv) r18 {
	return catch18(func() r18 {
		return r18{kind: "bool", b: a.iv.(interpreter.EquatableValue).Equal(inter18, b.iv)}
	})
}

func realCmp(k string, a, b gv) r18 {
	return catch18(func() r18 {
		x, ok1 := a.iv.(interpreter.ComparableValue)
		y, ok2 := b.iv.(interpreter.ComparableValue)
		if !ok1 || !ok2 {
			return r18{kind: "none"}
		}
		switch k {
		case "CLt":
			return r18{kind: "bool", b: bool(x.Less(inter18, y))}
		case "CLe":
			return r18{kind: "bool", b: bool(x.LessEqual(inter18, y))}
		case "CGt":
			return r18{kind: "bool", b: bool(x.Greater(inter18, y))}
		case "CGe":
			return r18{kind: "bool", b: bool(x.GreaterEqual(inter18, y))}
		}
		panic(k)
	})
}

func realHash(a gv) r18 {
	return catch18(func() r18 {
		h, ok := a.iv.(interpreter.HashableValue)
		if !ok {
			return r18{kind: "none"}
		}
		if _, isComposite := a.iv.(*interpreter.CompositeValue); isComposite && a.fam != "enum" {
			return r18{kind: "none"}
		}
		out := h.HashInput(inter18, make([]byte, 32))
		return r18{kind: "bytes", bs: append([]byte{}, out...)}
	})
}

func realDict(ins []gv, probes []gv) r18 {
	return catch18(func() r18 {
		t := interpreter.NewDictionaryStaticType(nil, interpreter.PrimitiveStaticTypeHashableStruct, interpreter.PrimitiveStaticTypeInt)
		d := interpreter.NewDictionaryValue(inter18, t)
		for i, k := range ins {
			d.Insert(inter18, k.iv, interpreter.NewUnmeteredIntValueFromInt64(int64(i+1)))
		}
		out := r18{kind: "dict", n: d.Count()}
		for _, p := range probes {
			v, ok := d.Get(inter18, p.iv)
			if !ok {
				out.res = append(out.res, -1)
			} else {
				out.res = append(out.res, v.(interpreter.IntValue).ToInt())
			}
		}
		return out
	})
}

// ---- scripts ----------------------------------------------------------------------------------------

func script18(body, ret string) string {
	return decls18 + "\naccess(all) fun main(): " + ret + " { " + body + " }"
}

func runBoolScript(h *lib.Host, src string, vm bool) r18 {
	out := h.RunScript(src, nil, vm)
	if out.Err != nil || out.Panic != nil {
		cls := out.Class
		if out.Err != nil && (cls == "CheckerError" || cls == "ParseError") {
			cls += ": " + out.Err.Error()
		}
		return r18{kind: "err", err: cls}
	}
	if b, ok := out.Value.(cadence.Bool); ok {
		return r18{kind: "bool", b: bool(b)}
	}
	return r18{kind: "err", err: fmt.Sprintf("unexpected result %v", out.Value)}
}

func runDictScript(h *lib.Host, src string, vm bool) r18 {
	out := h.RunScript(src, nil, vm)
	if out.Err != nil || out.Panic != nil {
		cls := out.Class
		if out.Err != nil && (cls == "CheckerError" || cls == "ParseError") {
			cls += ": " + out.Err.Error()
		}
		return r18{kind: "err", err: cls}
	}
	arr, ok := out.Value.(cadence.Array)
	if !ok || len(arr.Values) == 0 {
		return r18{kind: "err", err: fmt.Sprintf("unexpected result %v", out.Value)}
	}
	res := r18{kind: "dict"}
	for i, v := range arr.Values {
		x := v.(cadence.Int).Int()
		if i == 0 {
			res.n = x
		} else {
			res.res = append(res.res, x)
		}
	}
	return res
}

func dictScript(keys []gv) string {
	var b strings.Builder
	fmt.Fprintf(&b, "let d: {%s: Int} = {}; ", keys[0].typ)
	for i, k := range keys {
		fmt.Fprintf(&b, "let k%d: %s = %s; d[k%d] = %d; ", i, k.typ, k.lit, i, i+1)
	}
	b.WriteString("return [d.length")
	for i := range keys {
		fmt.Fprintf(&b, ", d[k%d] ?? -1", i)
	}
	b.WriteString("]")
	return script18(b.String(), "[Int]")
}

var cmpSyms = map[string]string{"CLt": "<", "CLe": "<=", "CGt": ">", "CGe": ">="}

// ---- the run ------------------------------------------------------------------------------------------

func nfcTable(vs ...gv) string {
	seen := map[string]bool{}
	var parts []string
	for _, v := range vs {
		for _, s := range v.strs {
			if !seen[s] {
				seen[s] = true
				parts = append(parts, "("+cpsList(s)+","+cpsList(nfc(s))+")")
			}
		}
	}
	return "[" + strings.Join(parts, ";") + "]"
}

func c18(sum *lib.Summary) {
	initNumKinds()
	init18()
	r := lib.NewRng(*seed)
	cw := &lib.CaseWriter{
		Dir: *dir, Prefix: "cases_C18",
		Header:   "From CV Require Import C18.Cases.",
		ElemType: "case18",
		CheckFn:  "check18",
		PerFile:  500,
	}
	ntriples, ncoq, scriptEvery := 600, 70, 6
	if *tier == "thorough" {
		ntriples, ncoq, scriptEvery = 8000, 800, 8
	}
	sum.Rule = "triples of related values of every equatable kind (24 number kinds incl. fixed point, strings and characters in canonically " +
		"equivalent forms, booleans, addresses, paths, enums, type values with permuted intersections / entitlement sets, nested optionals, arrays): " +
		"all 9 Equal results, the 4 comparison operators on comparable kinds, HashInput bytes and a dictionary built from the triple are taken from the " +
		"real interpreter values; checked against the laws (reflexive, symmetric, transitive, trichotomy, <= / >= consistent, equal => same hash input, " +
		"equal keys => one entry found by either), against a canonical-form oracle, against the Coq model (first triples) and reproduced by scripts in " +
		"both engines (every 6th triple, every 8th at the thorough tier). non-trivial = the triple contains two distinct representations of equal values, or an equal pair, or values of " +
		"different kinds; distinct = distinct triples by description"
	h := lib.NewHost()
	distinct := map[string]bool{}
	cmps := []string{"CLt", "CLe", "CGt", "CGe"}

	fail := func(key, what string, d map[string]any) { sum.Fail(key, what, d) }

	runTriple := func(t []gv, idx int, toCoq, doScripts bool) {
		for _, v := range t {
			if v.nocoq {
				toCoq = false
			}
		}
		n := len(t)
		desc := make([]string, n)
		for i, v := range t {
			desc[i] = v.desc
		}
		d := map[string]any{"values": desc}
		E := make([][]r18, n)
		H := make([]r18, n)
		for i := range t {
			E[i] = make([]r18, n)
			H[i] = realHash(t[i])
			sum.Evaluations++
			for j := range t {
				E[i][j] = realEqual(t[i], t[j])
				sum.Evaluations++
				sum.Count("Equal:" + t[i].fam)
				want := t[i].canon == t[j].canon
				if E[i][j].kind != "bool" || E[i][j].b != want {
					fail("equal-oracle:"+t[i].fam, fmt.Sprintf("%s == %s gives %s, required %v (canonical forms %q, %q)", t[i].desc, t[j].desc, E[i][j], want, t[i].canon, t[j].canon), d)
				}
				if toCoq {
					cw.Add(fmt.Sprintf("(%s,\n CEqual (%s) (%s),\n %s)", nfcTable(t[i], t[j]), t[i].coq, t[j].coq, E[i][j].coq()),
						map[string]any{"op": "Equal", "a": t[i].desc, "b": t[j].desc, "observed": E[i][j].String()})
				}
			}
			if toCoq {
				cw.Add(fmt.Sprintf("(%s,\n CHash (%s),\n %s)", nfcTable(t[i]), t[i].coq, H[i].coq()),
					map[string]any{"op": "HashInput", "a": t[i].desc, "observed": H[i].String()})
			}
			if t[i].hash != (H[i].kind == "bytes") {
				fail("hashable:"+t[i].fam, fmt.Sprintf("%s: HashInput gives %s", t[i].desc, H[i]), d)
			}
		}
		eq := func(i, j int) bool { return E[i][j].kind == "bool" && E[i][j].b }
		// laws on the real results
		for i := 0; i < n; i++ {
			if !eq(i, i) {
				fail("law-reflexive:"+t[i].fam, fmt.Sprintf("%s == itself gives %s", t[i].desc, E[i][i]), d)
			}
			for j := 0; j < n; j++ {
				if eq(i, j) != eq(j, i) {
					fail("law-symmetric:"+t[i].fam, fmt.Sprintf("%s == %s is %s but the converse is %s", t[i].desc, t[j].desc, E[i][j], E[j][i]), d)
				}
				if eq(i, j) && (H[i].kind == "bytes" || H[j].kind == "bytes") && !H[i].eq(H[j]) {
					fail("law-hash:"+t[i].fam, fmt.Sprintf("%s == %s but the hash inputs differ: %s vs %s", t[i].desc, t[j].desc, H[i], H[j]), d)
				}
				for k := 0; k < n; k++ {
					if eq(i, j) && eq(j, k) && !eq(i, k) {
						fail("law-transitive:"+t[i].fam, fmt.Sprintf("%s == %s == %s but first != last", t[i].desc, t[j].desc, t[k].desc), d)
					}
				}
			}
		}
		// ordering
		for i := 0; i < n; i++ {
			for j := 0; j < n; j++ {
				if !t[i].cmp || !t[j].cmp || t[i].typ != t[j].typ || t[i].typ == "" {
					continue
				}
				res := map[string]bool{}
				for _, c := range cmps {
					o := realCmp(c, t[i], t[j])
					sum.Evaluations++
					sum.Count("Compare:" + t[i].fam)
					if o.kind != "bool" {
						fail("compare:"+t[i].fam, fmt.Sprintf("%s %s %s gives %s", t[i].desc, cmpSyms[c], t[j].desc, o), d)
						continue
					}
					res[c] = o.b
					if toCoq {
						cw.Add(fmt.Sprintf("(%s,\n CCmp %s (%s) (%s),\n %s)", nfcTable(t[i], t[j]), c, t[i].coq, t[j].coq, o.coq()),
							map[string]any{"op": c, "a": t[i].desc, "b": t[j].desc, "observed": o.String()})
					}
				}
				lt, gt, e := res["CLt"], res["CGt"], eq(i, j)
				cnt := 0
				for _, b := range []bool{lt, gt, e} {
					if b {
						cnt++
					}
				}
				if cnt != 1 || res["CLe"] != (lt || e) || res["CGe"] != (gt || e) {
					fail("law-order:"+t[i].fam, fmt.Sprintf("%s vs %s: < %v, == %v, > %v, <= %v, >= %v is not a total order consistent with ==",
						t[i].desc, t[j].desc, lt, e, gt, res["CLe"], res["CGe"]), d)
				}
				for k := 0; k < n; k++ {
					if t[k].cmp && t[k].typ == t[i].typ && lt {
						if o := realCmp("CLt", t[j], t[k]); o.kind == "bool" && o.b {
							if o2 := realCmp("CLt", t[i], t[k]); !(o2.kind == "bool" && o2.b) {
								fail("law-order-transitive:"+t[i].fam, fmt.Sprintf("%s < %s < %s but not first < last", t[i].desc, t[j].desc, t[k].desc), d)
							}
						}
					}
				}
			}
		}
		// dictionary: insert the hashable values of the triple in order, then look all of them up
		var keys []gv
		for _, v := range t {
			if v.hash && !v.nocoq { // type values of function types are not storable, hence not usable as keys
				keys = append(keys, v)
			}
		}
		var dres r18
		enumKeys := false
		for _, k := range keys {
			enumKeys = enumKeys || k.fam == "enum"
		}
		if enumKeys {
			// enum composites cannot be inserted through the bare DictionaryValue API (they need a full
			// transfer context); they are exercised through scripts below, with the interpreter as reference
			allLit := true
			for _, k := range keys {
				allLit = allLit && k.lit != "" && k.typ == keys[0].typ
			}
			if allLit {
				dres = runDictScript(h, dictScript(keys), false)
				sum.Evaluations++
				sum.Count("Dictionary:enum")
				classes := map[string]int{}
				for i, k := range keys {
					classes[k.canon] = i + 1
				}
				want := r18{kind: "dict", n: len(classes)}
				for _, k := range keys {
					want.res = append(want.res, classes[k.canon])
				}
				if !dres.eq(want) {
					fail("law-dictionary:enum", fmt.Sprintf("dictionary script with enum keys %v: observed %s, required %s", desc, dres, want),
						map[string]any{"values": desc, "observed": dres.String(), "required": want.String(), "script": dictScript(keys)})
				}
				if toCoq {
					ins := make([]string, len(keys))
					prs := make([]string, len(keys))
					for i, k := range keys {
						ins[i] = fmt.Sprintf("(%s, %d)", k.coq, i+1)
						prs[i] = "(" + k.coq + ")"
					}
					cw.Add(fmt.Sprintf("(%s,\n CDict [%s] [%s],\n %s)", nfcTable(keys...), strings.Join(ins, ";"), strings.Join(prs, ";"), dres.coq()),
						map[string]any{"op": "Dictionary", "keys": desc, "observed": dres.String()})
				}
			} else {
				keys = nil
			}
		} else if len(keys) > 0 {
			dres = realDict(keys, keys)
			sum.Evaluations++
			sum.Count("Dictionary:" + keys[0].fam)
			// required: one entry per class of equal keys; every key finds the index of the last inserted equal key
			classes := map[string]int{}
			for i, k := range keys {
				classes[k.canon] = i + 1
			}
			want := r18{kind: "dict", n: len(classes)}
			for _, k := range keys {
				want.res = append(want.res, classes[k.canon])
			}
			if !dres.eq(want) {
				dd := map[string]any{"values": desc, "observed": dres.String(), "required": want.String()}
				fail("law-dictionary:"+keys[0].fam, fmt.Sprintf("dictionary with keys %v inserted in order (values 1..n): observed %s, required %s", desc, dres, want), dd)
			}
			if toCoq {
				ins := make([]string, len(keys))
				prs := make([]string, len(keys))
				for i, k := range keys {
					ins[i] = fmt.Sprintf("(%s, %d)", k.coq, i+1)
					prs[i] = "(" + k.coq + ")"
				}
				cw.Add(fmt.Sprintf("(%s,\n CDict [%s] [%s],\n %s)", nfcTable(keys...), strings.Join(ins, ";"), strings.Join(prs, ";"), dres.coq()),
					map[string]any{"op": "Dictionary", "keys": desc, "observed": dres.String()})
			}
		}
		// scripts in both engines must reproduce the results of the value methods
		if doScripts {
			for _, vm := range []bool{false, true} {
				for i := 0; i < n; i++ {
					for j := 0; j < n; j++ {
						a, b := t[i], t[j]
						if a.lit == "" || b.lit == "" || a.typ != b.typ || a.typ == "" {
							continue
						}
						ops := []string{"=="}
						if a.cmp {
							ops = append(ops, "<", "<=", ">", ">=")
						}
						for _, op := range ops {
							var want r18
							switch op {
							case "==":
								want = E[i][j]
							case "<":
								want = realCmp("CLt", a, b)
							case "<=":
								want = realCmp("CLe", a, b)
							case ">":
								want = realCmp("CGt", a, b)
							case ">=":
								want = realCmp("CGe", a, b)
							}
							src := script18(fmt.Sprintf("let a: %s = %s; let b: %s = %s; return a %s b", a.typ, a.lit, b.typ, b.lit, op), "Bool")
							got := runBoolScript(h, src, vm)
							sum.Evaluations++
							sum.Count(fmt.Sprintf("script vm=%v", vm))
							if got.kind == "err" && strings.HasPrefix(got.err, "CheckerError") && strings.Contains(a.lit+b.lit, "Type<") {
								sum.Count("script: type not accepted by the checker")
								continue
							}
							if !got.eq(want) {
								fail(fmt.Sprintf("equality-script:%s:vm=%v", a.fam, vm),
									fmt.Sprintf("script `let a: %s = %s; let b: %s = %s; return a %s b` (vm=%v) gives %s, the value method gives %s", a.typ, a.lit, b.typ, b.lit, op, vm, got, want),
									map[string]any{"values": desc, "script": src, "vm": vm, "observed": got.String(), "value_method": want.String()})
							}
						}
					}
				}
				// dictionary script
				ok := len(keys) > 0
				for _, k := range keys {
					ok = ok && k.lit != "" && k.typ == keys[0].typ
				}
				if ok {
					src := dictScript(keys)
					got := runDictScript(h, src, vm)
					sum.Evaluations++
					sum.Count(fmt.Sprintf("script vm=%v", vm))
					if got.kind == "err" && strings.HasPrefix(got.err, "CheckerError") && keys[0].fam == "type" {
						sum.Count("script: type not accepted by the checker")
					} else if !got.eq(dres) {
						fail(fmt.Sprintf("dictionary-script:%s:vm=%v", keys[0].fam, vm),
							fmt.Sprintf("dictionary script (vm=%v) gives %s, the DictionaryValue API gives %s; script: %s", vm, got, dres, src),
							map[string]any{"values": desc, "script": src, "vm": vm, "observed": got.String(), "value_method": dres.String()})
					}
				}
			}
		}
		// non-trivial?
		nt := false
		for i := 0; i < n; i++ {
			for j := i + 1; j < n; j++ {
				if eq(i, j) || t[i].fam != t[j].fam || (t[i].canon == t[j].canon && t[i].coq != t[j].coq) {
					nt = true
				}
			}
		}
		key := strings.Join(desc, " | ")
		if nt && !distinct[key] {
			distinct[key] = true
			sum.DistinctNontrivial++
			sum.Sample(d)
		}
	}

	// every number kind at the boundaries of its big-endian encodings: HashInput vs the Coq model
	for _, k := range numKinds {
		var zs []*big.Int
		for _, e := range []uint{0, 1, 7, 8, 15, 16, 31, 32, 63, 64, 127, 128, 255, 256} {
			zs = append(zs, p2(e), dec1(p2(e)), neg(p2(e)), neg(dec1(p2(e))), neg(new(big.Int).Add(p2(e), big.NewInt(1))))
		}
		zs = append(zs, big.NewInt(0))
		seen := map[string]bool{}
		for _, z := range zs {
			if !k.inRange(z) || seen[z.String()] {
				continue
			}
			seen[z.String()] = true
			g := numValue(k, z)
			hh := realHash(g)
			sum.Evaluations++
			sum.Count("HashInput sweep")
			if hh.kind != "bytes" {
				fail("hashable:num", fmt.Sprintf("%s: HashInput gives %s", g.desc, hh), map[string]any{"values": []string{g.desc}})
			}
			cw.Add(fmt.Sprintf("([],\n CHash (%s),\n %s)", g.coq, hh.coq()), map[string]any{"op": "HashInput", "a": g.desc, "observed": hh.String()})
		}
	}

	fixed := fixed18()
	for i, t := range fixed {
		runTriple(t, i, true, true)
	}
	sum.Count("fixed triples")
	sum.Distribution["fixed triples"] = len(fixed)
	for i := 0; i < ntriples; i++ {
		runTriple(genTriple(r), i, i < ncoq, i%scriptEvery == 0)
	}
	cw.Close()
	sum.CaseFiles = cw.Files
	_ = bytes.Equal
}

// fixed18: hand-picked triples, run first on every run.
func fixed18() [][]gv {
	k := func(name string) numKind {
		for _, x := range numKinds {
			if x.name == name {
				return x
			}
		}
		panic(name)
	}
	I := func(ids ...string) *styT { return &styT{kind: "inter", ids: ids} }
	S := &styT{kind: "comp", name: "S"}
	ref := func(disj bool, es ...string) *styT {
		return &styT{kind: "ref", auth: authT{kind: "set", disj: disj, es: es}, a: S}
	}
	two127 := p2(127)
	return [][]gv{
		{strValue("e\u0301"), strValue("\u00e9"), strValue("e")},
		{strValue("\u212b"), strValue("A\u030a"), strValue("\u00c5")},
		{strValue(""), strValue("a"), strValue("ab")},
		{derivedStr("concat", nil, "cafe", "\u0301"), strValue("caf\u00e9"), strValue("cafe\u0301")},
		{derivedStr("join", nil, "e", "\u0301"), strValue("\u00e9"), derivedStr("concat", nil, "e", "\u0301")},
		{derivedStr("replace", nil, "e", "\u0301"), strValue("\u00e9"), derivedStr("slice", nil, "e\u0301", "x")},
		{derivedStr("concat", nil, "\u1112", "\u1161"), strValue("\ud558"), derivedStr("concat", nil, "\ud558", "\u11ab")},
		{derivedStr("concat", nil, "a\u0301", "\u0323"), strValue("a\u0323\u0301"), strValue("\u1ea1\u0301")},
		{strValue("\U0001F1E6\U0001F1E7"), strValue("\U0001F1E7\U0001F1E6"), strValue("\U0001F1E6")},
		{charValue("e\u0301"), charValue("\u00e9"), charValue("e")},
		{charValue("\ud55c"), charValue("\u1112\u1161\u11ab"), charValue("\ud558")},
		{numValue(k("Int8"), big.NewInt(1)), numValue(k("Int16"), big.NewInt(1)), numValue(k("UInt8"), big.NewInt(1))},
		{numValue(k("Int"), big.NewInt(-128)), numValue(k("Int"), big.NewInt(-129)), numValue(k("Int"), big.NewInt(128))},
		{numValue(k("Int"), big.NewInt(0)), numValue(k("UInt"), big.NewInt(0)), numValue(k("Word8"), big.NewInt(0))},
		{numValue(k("Int128"), neg(two127)), numValue(k("Int128"), dec1(two127)), numValue(k("Int128"), big.NewInt(-1))},
		{numValue(k("Int256"), neg(p2(255))), numValue(k("Int256"), big.NewInt(255)), numValue(k("Int256"), big.NewInt(256))},
		{numValue(k("UInt64"), dec1(p2(64))), numValue(k("Word64"), dec1(p2(64))), numValue(k("UFix64"), dec1(p2(64)))},
		{numValue(k("Fix64"), big.NewInt(-1)), numValue(k("Fix64"), neg(p2(63))), numValue(k("Fix64"), dec1(p2(63)))},
		{numValue(k("Fix128"), big.NewInt(-1)), numValue(k("Fix128"), neg(two127)), numValue(k("UFix128"), dec1(p2(128)))},
		{boolValue(true), boolValue(false), boolValue(true)},
		{addrValue(1), addrValue(0x0100000000000000), addrValue(1)},
		{pathValue(common.PathDomainStorage, "foo"), pathValue(common.PathDomainPublic, "foo"), pathValue(common.PathDomainStorage, "foo")},
		{pathValue(common.PathDomainPrivate, "a"), pathValue(common.PathDomainPublic, "a"), pathValue(common.PathDomainStorage, "a")},
		{enumValue(enumDecls[0], 0), enumValue(enumDecls[1], 0), enumValue(enumDecls[0], 0)},
		{enumValue(enumDecls[0], 1), enumValue(enumDecls[2], 1), enumValue(enumDecls[1], 1)},
		{typeValue(I("I1", "I2")), typeValue(I("I2", "I1")), typeValue(I("I1", "I3"))},
		{typeValue(I("I1", "I2", "I3")), typeValue(I("I3", "I1", "I2")), typeValue(I("I2", "I3", "I1"))},
		{typeValue(I()), typeValue(I("I1")), typeValue(&styT{kind: "iface", name: "I1"})},
		{typeValue(ref(false, "E1", "E2")), typeValue(ref(false, "E2", "E1")), typeValue(ref(true, "E1", "E2"))},
		// overlapping entitlement sets: equality must stay transitive and agree with the hash input
		{typeValue(ref(false, "E1", "E2")), typeValueRT(ref(false, "E1", "E3")), typeValue(ref(false, "E3", "E4")), typeValueRT(ref(false, "E2", "E1"))},
		{typeValue(ref(true, "E1", "E2")), typeValue(ref(true, "E2", "E3")), typeValue(ref(true, "E3", "E1"))},
		{typeValue(ref(false, "E1", "E2", "E3")), typeValueRT(ref(false, "E3", "E4", "E5")), typeValue(ref(false, "E5", "E1", "E2"))},
		{typeValueRT(&styT{kind: "opt", a: ref(false, "E4", "E5")}), typeValue(&styT{kind: "opt", a: ref(false, "E5", "E1")}), typeValueRT(&styT{kind: "opt", a: ref(false, "E5", "E4")})},
		{typeValue(&styT{kind: "cap", a: ref(false, "E1", "E2")}), typeValueRT(&styT{kind: "cap", a: ref(false, "E2", "E3")}), typeValue(&styT{kind: "cap", a: ref(false, "E2", "E1")})},
		{typeValue(&styT{kind: "dict", a: &styT{kind: "prim", name: "String"}, b: &styT{kind: "var", a: ref(false, "E1", "E2")}}),
			typeValueRT(&styT{kind: "dict", a: &styT{kind: "prim", name: "String"}, b: &styT{kind: "var", a: ref(false, "E1", "E5")}}),
			typeValueRT(&styT{kind: "dict", a: &styT{kind: "prim", name: "String"}, b: &styT{kind: "var", a: ref(false, "E2", "E1")}})},
		{typeValue(&styT{kind: "fun", a: ref(false, "E1", "E2"), b: &styT{kind: "prim", name: "Int"}}),
			typeValueRT(&styT{kind: "fun", a: ref(false, "E1", "E3"), b: &styT{kind: "prim", name: "Int"}}),
			typeValueRT(&styT{kind: "fun", a: ref(false, "E2", "E1"), b: &styT{kind: "prim", name: "Int"}})},
		{typeValue(ref(false, "E1")), typeValue(ref(true, "E1")), typeValue(&styT{kind: "ref", auth: authT{kind: "unauth"}, a: S})},
		{typeValue(&styT{kind: "ref", auth: authT{kind: "map"}, a: S}), typeValue(ref(false, "E1", "E2", "E3")), typeValue(ref(false, "E3", "E2", "E1"))},
		{typeValue(&styT{kind: "opt", a: &styT{kind: "ref", auth: authT{kind: "set", es: []string{"E2", "E1"}}, a: I("I2", "I1")}}),
			typeValue(&styT{kind: "opt", a: &styT{kind: "ref", auth: authT{kind: "set", es: []string{"E1", "E2"}}, a: I("I1", "I2")}}),
			typeValue(&styT{kind: "ref", auth: authT{kind: "set", es: []string{"E1", "E2"}}, a: I("I1", "I2")})},
		{typeValue(&styT{kind: "const", a: &styT{kind: "prim", name: "Int"}, n: 3}), typeValue(&styT{kind: "const", a: &styT{kind: "prim", name: "Int"}, n: 4}),
			typeValue(&styT{kind: "var", a: &styT{kind: "prim", name: "Int"}})},
		{typeValue(&styT{kind: "capnone"}), typeValue(&styT{kind: "cap", a: ref(false, "E1")}), typeValue(&styT{kind: "cap", a: ref(false, "E1")})},
		{someValue(strValue("e\u0301")), someValue(strValue("\u00e9")), nilValue("String")},
		{someValue(someValue(numValue(k("Int"), big.NewInt(1)))), someValue(numValue(k("Int"), big.NewInt(1))), someValue(nilValue("Int"))},
		{nilValue("Int"), nilValue("String"), someValue(nilValue(""))},
		{arrValue(&styT{kind: "prim", name: "Int8"}, false, []gv{numValue(k("Int8"), big.NewInt(1)), numValue(k("Int8"), big.NewInt(2))}),
			arrValue(&styT{kind: "prim", name: "Int8"}, true, []gv{numValue(k("Int8"), big.NewInt(1)), numValue(k("Int8"), big.NewInt(2))}),
			arrValue(&styT{kind: "prim", name: "Int8"}, false, []gv{numValue(k("Int8"), big.NewInt(1)), numValue(k("Int8"), big.NewInt(2))})},
		{arrValue(&styT{kind: "prim", name: "String"}, false, []gv{strValue("e\u0301")}), arrValue(&styT{kind: "prim", name: "String"}, false, []gv{strValue("\u00e9")}),
			arrValue(&styT{kind: "prim", name: "String"}, false, []gv{})},
	}
}
