// Command c19: correspondence + independent-oracle harness for
// C19 (strings are sequences of grapheme clusters of their NFC form) and
// C18 (equality, ordering and hashing laws; see c18.go).
package main

import (
	"bufio"
	"encoding/json"
	"flag"
	"fmt"
	"math/big"
	"os"
	"path/filepath"
	"sort"
	"strings"
	"unicode/utf8"

	"cvh/lib"
)

var (
	prop   = flag.String("prop", "C19", "property id")
	seed   = flag.Uint64("seed", 1, "seed")
	tier   = flag.String("tier", "quick", "quick|thorough")
	dir    = flag.String("dir", ".", "output directory")
	corpus = flag.String("corpus", "", "corpus directory (jsonl files of hand-picked cases, run first)")
	probe  = flag.Bool("probe", false, "probe the oracle hypotheses on many random strings")
)

func main() {
	flag.Parse()
	initInter()
	if *probe {
		runProbe()
		return
	}
	sum := &lib.Summary{}
	switch *prop {
	case "C19":
		c19(sum)
	case "C18":
		c18(sum)
	default:
		fmt.Fprintln(os.Stderr, "unknown prop", *prop)
		os.Exit(2)
	}
	sum.Write(*dir)
}

func runProbe() {
	r := lib.NewRng(*seed)
	bad := 0
	for i := 0; i < 300000 && bad < 20; i++ {
		s := nfc(string(genString(r)))
		if msg := checkOracleHyp(s); msg != "" {
			fmt.Println(msg)
			bad++
		}
	}
	fmt.Println("bad", bad)
}

// ---- case generation -----------------------------------------------------------------------

func bigI(i int64) *big.Int { return big.NewInt(i) }

func genIndex(r *lib.Rng, n int) *big.Int {
	switch r.Intn(14) {
	case 0:
		return bigI(-1)
	case 1:
		return bigI(0)
	case 2:
		return bigI(1)
	case 3:
		return bigI(int64(n) - 1)
	case 4:
		return bigI(int64(n))
	case 5:
		return bigI(int64(n) + 1)
	case 6:
		return lib.Pick(r, []*big.Int{
			new(big.Int).Lsh(bigI(1), 63), new(big.Int).Sub(new(big.Int).Lsh(bigI(1), 63), bigI(1)),
			new(big.Int).Neg(new(big.Int).Lsh(bigI(1), 63)), new(big.Int).Sub(new(big.Int).Neg(new(big.Int).Lsh(bigI(1), 63)), bigI(1)),
			new(big.Int).Lsh(bigI(1), 64), bigI(-2), bigI(1 << 32),
		})
	default:
		return bigI(int64(r.Intn(n + 1)))
	}
}

// genNeedle draws a substring / fragment related to the (normalised) haystack h.
func genNeedle(r *lib.Rng, h string, pool []atom) string {
	cl := clustersOf(h)
	rs := []rune(h)
	switch k := r.Intn(100); {
	case k < 35 && len(cl) > 0: // cluster-aligned substring
		i := r.Intn(len(cl))
		n := 1 + r.Intn(3)
		if i+n > len(cl) {
			n = len(cl) - i
		}
		return strings.Join(cl[i:i+n], "")
	case k < 60 && len(rs) > 0: // code-point-aligned (possibly cluster-misaligned) substring
		i := r.Intn(len(rs))
		n := 1 + r.Intn(3)
		if i+n > len(rs) {
			n = len(rs) - i
		}
		return string(rs[i : i+n])
	case k < 72 && len(rs) > 0: // single code point of the haystack
		return string(rs[r.Intn(len(rs))])
	case k < 80:
		return ""
	default:
		return string(genFromPool(r, pool, 2))
	}
}

func genHay(r *lib.Rng, pool []atom) string {
	s := string(genFromPool(r, pool, 6))
	switch r.Intn(6) {
	case 0:
		s = s + s
	case 1:
		s = s + string(lib.Pick(r, pool)) + s
	}
	return s
}

// oneCluster returns a raw text that is exactly one grapheme cluster both raw and normalised.
func oneCluster(r *lib.Rng) string {
	for i := 0; i < 50; i++ {
		raw := string(genString(r))
		cl := clustersOf(raw)
		if len(cl) == 0 {
			continue
		}
		c := lib.Pick(r, cl)
		if len(clustersOf(nfc(c))) == 1 {
			return c
		}
	}
	return "a"
}

var cmpKinds = []string{"CEq", "CNe", "CLt", "CLe", "CGt", "CGe"}

func nfd(s string) string { return normNFD(s) }

// variant returns a string related to s: itself, a canonically equivalent form, a prefix, an extension, or a neighbour.
func variant(r *lib.Rng, s string, pool []atom) string {
	rs := []rune(s)
	switch r.Intn(7) {
	case 0:
		return s
	case 1:
		return nfd(s)
	case 2:
		return nfc(s)
	case 3:
		if len(rs) > 0 {
			return string(rs[:r.Intn(len(rs))])
		}
		return s
	case 4:
		return s + string(lib.Pick(r, pool))
	case 5:
		if len(rs) > 0 {
			i := r.Intn(len(rs))
			d := rune(1)
			if r.Bool() {
				d = -1
			}
			c := rs[i] + d
			if c >= 0 && c <= 0x10ffff && !(c >= 0xd800 && c <= 0xdfff) {
				rs2 := append([]rune{}, rs...)
				rs2[i] = c
				return string(rs2)
			}
		}
		return s
	default:
		return string(genFromPool(r, pool, 4))
	}
}

var opWeights = []struct {
	op string
	w  int
}{
	{"OpNew", 4}, {"OpLength", 6}, {"OpGetKey", 8}, {"OpSlice", 10}, {"OpChars", 5}, {"OpConcat", 6},
	{"OpIndexOf", 14}, {"OpContains", 6}, {"OpCount", 12}, {"OpSplit", 10}, {"OpReplaceAll", 12}, {"OpJoin", 5},
	{"OpToLower", 4}, {"OpUtf8", 3}, {"OpDecodeHex", 5}, {"OpEncodeHex", 2}, {"OpFromUtf8", 8}, {"OpFromChars", 3},
	{"OpCharNew", 2}, {"OpCharToString", 1}, {"OpCharUtf8", 1}, {"OpCmp", 8}, {"OpCharCmp", 3}, {"OpSbToString", 3}, {"OpSbLength", 2},
}

func pickOp(r *lib.Rng) string {
	tot := 0
	for _, o := range opWeights {
		tot += o.w
	}
	k := r.Intn(tot)
	for _, o := range opWeights {
		if k < o.w {
			return o.op
		}
		k -= o.w
	}
	panic("unreachable")
}

func genHexString(r *lib.Rng) string {
	var b strings.Builder
	n := r.Intn(5)
	for i := 0; i < n; i++ {
		x := byte(r.Intn(256))
		if r.Chance(1, 3) {
			x = lib.Pick(r, []byte{0, 0xff, 0x0f, 0xf0, 0x9a, 0xa9, 0x7f, 0x80})
		}
		s := fmt.Sprintf("%02x", x)
		if r.Chance(1, 3) {
			s = strings.ToUpper(s)
		}
		b.WriteString(s)
	}
	s := b.String()
	if r.Chance(1, 3) { // damage: odd length and/or an invalid character
		bad := []string{"g", "G", "`", "@", "/", ":", "x", " ", "\u00e9", "\U0001f469", "e\u0301", "-", "0", "a", "F"}
		k := r.Intn(len(s) + 1)
		s = s[:k] + lib.Pick(r, bad) + s[k:]
		if r.Chance(1, 3) {
			s += lib.Pick(r, bad)
		}
	}
	return s
}

func genCase(r *lib.Rng) *opCase {
	pool := genPool(r)
	c := &opCase{op: pickOp(r)}
	gs := func() string { return string(genFromPool(r, pool, 6)) }
	switch c.op {
	case "OpNew", "OpLength", "OpChars", "OpUtf8":
		c.strs = []string{gs()}
	case "OpToLower":
		p := append(append([]atom{}, pool...), lib.Pick(r, caseAtoms), lib.Pick(r, caseAtoms), lib.Pick(r, asciiAtoms))
		c.strs = []string{string(genFromPool(r, p, 6))}
	case "OpGetKey":
		s := gs()
		c.strs = []string{s}
		c.ints = []*big.Int{genIndex(r, len(clustersOf(nfc(s))))}
	case "OpSlice":
		s := gs()
		n := len(clustersOf(nfc(s)))
		c.strs = []string{s}
		c.ints = []*big.Int{genIndex(r, n), genIndex(r, n)}
	case "OpConcat":
		c.strs = []string{gs(), gs()}
		if r.Chance(1, 3) { // split a text at a code point: the halves may re-compose when joined
			rs := genFromPool(r, pool, 5)
			if len(rs) > 1 {
				k := 1 + r.Intn(len(rs)-1)
				c.strs = []string{string(rs[:k]), string(rs[k:])}
			}
		}
	case "OpIndexOf", "OpContains", "OpCount", "OpSplit":
		h := genHay(r, pool)
		c.strs = []string{h, genNeedle(r, nfc(h), pool)}
	case "OpReplaceAll":
		h := genHay(r, pool)
		c.strs = []string{h, genNeedle(r, nfc(h), pool), string(genFromPool(r, pool, 2))}
	case "OpJoin":
		n := r.Intn(5)
		c.strs = []string{string(genFromPool(r, pool, 1))}
		for i := 0; i < n; i++ {
			c.strs = append(c.strs, string(genFromPool(r, pool, 3)))
		}
	case "OpDecodeHex":
		c.strs = []string{genHexString(r)}
	case "OpEncodeHex":
		n := r.Intn(7)
		for i := 0; i < n; i++ {
			x := byte(r.Intn(256))
			if r.Chance(1, 3) {
				x = lib.Pick(r, []byte{0, 0xff, 0x0f, 0xf0, 0x9a, 0xa9, 0x10, 0x09})
			}
			c.bytes = append(c.bytes, x)
		}
	case "OpFromUtf8":
		c.bytes = genUTF8Bytes(r)
	case "OpFromChars":
		n := r.Intn(5)
		for i := 0; i < n; i++ {
			c.strs = append(c.strs, oneCluster(r))
		}
	case "OpCharNew", "OpCharToString", "OpCharUtf8":
		c.strs = []string{oneCluster(r)}
	case "OpCmp":
		s := gs()
		c.strs = []string{s, variant(r, s, pool)}
		if r.Bool() {
			c.strs[0], c.strs[1] = c.strs[1], c.strs[0]
		}
		c.cmp = lib.Pick(r, cmpKinds)
	case "OpCharCmp":
		a := oneCluster(r)
		b := lib.Pick(r, []string{a, nfd(a), nfc(a), oneCluster(r)})
		if len(clustersOf(b)) != 1 || len(clustersOf(nfc(b))) != 1 {
			b = a
		}
		c.strs = []string{a, b}
		c.cmp = lib.Pick(r, cmpKinds)
	case "OpSbToString", "OpSbLength":
		n := r.Intn(6)
		for i := 0; i < n; i++ {
			switch r.Intn(5) {
			case 0:
				c.sbops = append(c.sbops, sbOp{"KClear", ""})
			case 1:
				c.sbops = append(c.sbops, sbOp{"KAppendChar", oneCluster(r)})
			default:
				c.sbops = append(c.sbops, sbOp{"KAppend", string(genFromPool(r, pool, 3))})
			}
		}
		c.noReal = true
	}
	return c
}

// ---- specification, oracle tables, Coq rendering -----------------------------------------------

// spec computes the required observation from the cluster-level oracle and fills the oracle table.
func (c *opCase) spec(t *otab) obs {
	n := make([]string, len(c.strs))
	for i, s := range c.strs {
		n[i] = t.add(s)
	}
	switch c.op {
	case "OpNew", "OpCharNew", "OpCharToString":
		return oStr(n[0])
	case "OpLength":
		return specLength(n[0])
	case "OpGetKey":
		return specGetKey(n[0], c.ints[0])
	case "OpSlice":
		return specSlice(n[0], c.ints[0], c.ints[1])
	case "OpChars":
		return specChars(n[0])
	case "OpConcat":
		return oStr(t.add(n[0] + n[1]))
	case "OpIndexOf":
		return specIndexOf(n[0], n[1])
	case "OpContains":
		return specContains(n[0], n[1])
	case "OpCount":
		t.addSuffixes(n[0])
		return specCount(n[0], n[1])
	case "OpSplit":
		t.addSuffixes(n[0])
		return specSplit(n[0], n[1])
	case "OpReplaceAll":
		t.addSuffixes(n[0])
		raw, _ := specReplaceRaw(n[0], n[1], n[2])
		t.add(raw)
		return specReplaceAll(n[0], n[1], n[2])
	case "OpJoin":
		return oStr(t.add(strings.Join(n[1:], n[0])))
	case "OpToLower":
		lo := lowerRaw(n[0])
		if !isASCII(n[0]) {
			t.lower = append(t.lower, [2]string{n[0], lo})
		}
		return oStr(t.add(lo))
	case "OpUtf8", "OpCharUtf8":
		return oStr(string(encodeRunes([]rune(n[0]))))
	case "OpDecodeHex":
		return specDecodeHex(n[0])
	case "OpEncodeHex":
		return specEncodeHex(c.bytes)
	case "OpFromUtf8":
		if !validUTF8(c.bytes) {
			return oNil
		}
		return oStr(t.add(string(c.bytes)))
	case "OpFromChars":
		return oStr(t.add(strings.Join(n, "")))
	case "OpCmp", "OpCharCmp":
		return specCmp(c.cmp, n[0], n[1])
	case "OpSbToString", "OpSbLength":
		b := ""
		for _, o := range c.sbops {
			switch o.kind {
			case "KClear":
				b = ""
			default:
				b += t.add(o.s)
			}
		}
		if c.op == "OpSbLength" {
			return oInt(len(b))
		}
		return oStr(t.add(b))
	}
	panic(c.op)
}

func isASCII(s string) bool {
	for i := 0; i < len(s); i++ {
		if s[i] >= 0x80 {
			return false
		}
	}
	return true
}

func (c *opCase) coqOp() string {
	var a []string
	for _, s := range c.strs {
		a = append(a, cpsList(s))
	}
	z := func(i int) string { return lib.Z(c.ints[i]) }
	switch c.op {
	case "OpGetKey":
		return fmt.Sprintf("OpGetKey %s %s", a[0], z(0))
	case "OpSlice":
		return fmt.Sprintf("OpSlice %s %s %s", a[0], z(0), z(1))
	case "OpJoin":
		return fmt.Sprintf("OpJoin [%s] %s", strings.Join(a[1:], ";"), a[0])
	case "OpFromChars":
		return fmt.Sprintf("OpFromChars [%s]", strings.Join(a, ";"))
	case "OpEncodeHex", "OpFromUtf8":
		return c.op + " " + byteList(c.bytes)
	case "OpCmp", "OpCharCmp":
		return fmt.Sprintf("%s %s %s %s", c.op, c.cmp, a[0], a[1])
	case "OpSbToString", "OpSbLength":
		parts := make([]string, len(c.sbops))
		for i, o := range c.sbops {
			parts[i] = fmt.Sprintf("(%s,%s)", o.kind, cpsList(o.s))
		}
		return fmt.Sprintf("%s [%s]", c.op, strings.Join(parts, ";"))
	}
	return c.op + " " + strings.Join(a, " ")
}

func (c *opCase) desc() map[string]any {
	d := map[string]any{"op": c.op}
	if len(c.strs) > 0 {
		q := make([]string, len(c.strs))
		for i, s := range c.strs {
			q[i] = fmt.Sprintf("%+q", s)
		}
		d["strs"] = q
	}
	if len(c.ints) > 0 {
		q := make([]string, len(c.ints))
		for i, s := range c.ints {
			q[i] = s.String()
		}
		d["ints"] = q
	}
	if c.bytes != nil {
		d["bytes"] = fmt.Sprintf("%x", c.bytes)
	}
	if c.cmp != "" {
		d["cmp"] = c.cmp
	}
	if len(c.sbops) > 0 {
		q := make([]string, len(c.sbops))
		for i, o := range c.sbops {
			q[i] = fmt.Sprintf("%s %+q", o.kind, o.s)
		}
		d["sbops"] = q
	}
	return d
}

func (c *opCase) key() string {
	b, _ := json.Marshal(c.desc())
	return string(b)
}

// nontrivial: some text involved is outside ASCII, or has a multi-code-point cluster, or the required result is a failure
func (c *opCase) nontrivial(want obs) bool {
	if want.kind == "err" || want.kind == "hexbyte" || want.kind == "hexlen" || want.kind == "nil" {
		return true
	}
	check := func(s string) bool {
		return !isASCII(s) || len(clustersOf(s)) != utf8.RuneCountInString(s)
	}
	for _, s := range c.strs {
		if check(s) {
			return true
		}
	}
	for _, o := range c.sbops {
		if check(o.s) {
			return true
		}
	}
	return c.bytes != nil && !isASCII(string(c.bytes))
}

// ---- corpus -----------------------------------------------------------------------------------

type corpusCase struct {
	Op    string   `json:"op"`
	Strs  []string `json:"strs"`
	Ints  []string `json:"ints"`
	Bytes []int    `json:"bytes"`
	Cmp   string   `json:"cmp"`
	Sb    []struct {
		Kind string `json:"kind"`
		S    string `json:"s"`
	} `json:"sb"`
}

func loadCorpus(d string) []*opCase {
	var out []*opCase
	if d == "" {
		return nil
	}
	files, _ := filepath.Glob(filepath.Join(d, "*.jsonl"))
	sort.Strings(files)
	for _, f := range files {
		fh, err := os.Open(f)
		if err != nil {
			continue
		}
		sc := bufio.NewScanner(fh)
		sc.Buffer(make([]byte, 1<<20), 1<<20)
		for sc.Scan() {
			line := strings.TrimSpace(sc.Text())
			if line == "" || strings.HasPrefix(line, "#") {
				continue
			}
			var cc corpusCase
			if err := json.Unmarshal([]byte(line), &cc); err != nil {
				fmt.Fprintln(os.Stderr, "bad corpus line:", line, err)
				os.Exit(2)
			}
			c := &opCase{op: cc.Op, strs: cc.Strs, cmp: cc.Cmp}
			for _, i := range cc.Ints {
				z, ok := new(big.Int).SetString(i, 10)
				if !ok {
					fmt.Fprintln(os.Stderr, "bad corpus int:", i)
					os.Exit(2)
				}
				c.ints = append(c.ints, z)
			}
			if cc.Bytes != nil || cc.Op == "OpEncodeHex" || cc.Op == "OpFromUtf8" {
				c.bytes = []byte{}
				for _, b := range cc.Bytes {
					c.bytes = append(c.bytes, byte(b))
				}
			}
			for _, o := range cc.Sb {
				c.sbops = append(c.sbops, sbOp{o.Kind, o.S})
			}
			if strings.HasPrefix(c.op, "OpSb") {
				c.noReal = true
			}
			out = append(out, c)
		}
		fh.Close()
	}
	return out
}

// ---- the C19 run ------------------------------------------------------------------------------

func c19(sum *lib.Summary) {
	r := lib.NewRng(*seed)
	cw := &lib.CaseWriter{
		Dir: *dir, Prefix: "cases_C19",
		Header:   "From CV Require Import C19.Cases.",
		ElemType: "case",
		CheckFn:  "check_str",
		PerFile:  400,
	}
	// every case goes to the Go oracle; the first ncoq random cases (and all fixed/corpus cases) also to the Coq model
	nrand, ncoq, scriptEvery := 5000, 1200, 4
	nseq, nseqCoq, seqScriptEvery := 1200, 100, 3
	if *tier == "thorough" {
		nrand, ncoq, scriptEvery = 60000, 14000, 4
		nseq, nseqCoq, seqScriptEvery = 15000, 600, 3
	}
	sum.Rule = "operations of String/Character/StringBuilder on strings from a Unicode-biased generator (ASCII, CR/LF, combining marks in " +
		"canonical and non-canonical order, precomposed/decomposed pairs, singleton decompositions, emoji ZWJ sequences, modifiers, regional " +
		"indicators, Hangul jamo/syllables, Prepend/SpacingMark/Indic conjuncts, UTF-8 length boundaries, invalid UTF-8 for fromUTF8); needles are " +
		"cluster-aligned substrings, code-point-aligned (cluster-misaligned) fragments, single code points, empty, or unrelated. Every case: real " +
		"StringValue method vs an independent cluster-level oracle in Go (uniseg clusters of the NFC form); the fixed cases and the first 1500 (quick) / " +
		"16000 (thorough) random cases also vs the Coq model (vm_compute) fed with the NFC/boundary oracle tables; every 4th case also as a script in interpreter and VM. " +
		"In addition 1200 (quick) / 15000 (thorough) SEQUENCES of 3-9 operations on the same value objects (length/index/slice/iterate first, then " +
		"concat/slice/replaceAll/join/toLower at seams where clusters merge or NFC composes, then length/index at the true count/iteration/comparison on " +
		"the result): every step is compared with the cluster-list specification of the current contents, a part with the Coq model, and every 3rd " +
		"sequence is replayed as one script with let-bound strings in both engines. non-trivial = an input is non-ASCII or has a " +
		"multi-code-point cluster, or the required result is a failure/nil; distinct = distinct (op, inputs)"
	h := lib.NewHost()
	distinct := map[string]bool{}
	hypChecked := map[string]bool{}

	runCase := func(c *opCase, idx int, forceScript bool, toCoq bool) bool {
		t := newTab()
		want := c.spec(t)
		key := c.key()
		d := c.desc()
		// oracle hypotheses of the Coq theorems, validated on every normalised input
		for _, s := range c.strs {
			n := nfc(s)
			if !hypChecked[n] {
				hypChecked[n] = true
				if msg := checkOracleHyp(n); msg != "" {
					sum.Fail("oracle-hypothesis", "uniseg/norm do not satisfy the substring-stability hypothesis: "+msg, d)
				}
			}
		}
		var got obs
		haveGot := false
		if c.pre != nil { // observed in a sequence of operations on the same value objects
			got, haveGot = *c.pre, true
			d["sequence"] = c.seq
			sum.Evaluations++
			sum.Count("seq:" + c.op)
		} else if !c.noReal {
			var ok bool
			got, ok = c.direct()
			if !ok {
				panic("no direct implementation for " + c.op)
			}
			haveGot = true
			sum.Evaluations++
			sum.Count(c.op)
		}
		if c.pre == nil && (forceScript || idx%scriptEvery == 0 || c.noReal) {
			for _, vm := range []bool{false, true} {
				sg, src := c.runScript(h, vm)
				sum.Evaluations++
				sum.Count(fmt.Sprintf("script vm=%v", vm))
				if !haveGot {
					got, haveGot = sg, true
					sum.Count(c.op)
				}
				if !sg.eq(got) {
					d2 := c.desc()
					d2["script"], d2["vm"], d2["observed"], d2["reference"] = src, vm, sg.String(), got.String()
					sum.Fail(fmt.Sprintf("string-script:%s:vm=%v", c.op, vm),
						fmt.Sprintf("script `%s` (vm=%v) gives %s but the interpreter value method / other engine gives %s", src, vm, sg, got), d2)
				}
			}
		}
		d["observed"] = got.String()
		if !got.eq(want) {
			d["required"] = want.String()
			k := "string-op:"
			if c.pre != nil {
				k = "string-seq:"
			}
			sum.Fail(k+c.op, fmt.Sprintf("%s %v: observed %s, required (cluster-sequence specification) %s", c.op, d, got, want), d)
		}
		if got.kind == "err" && got.err != lib.EIndexOOB && got.err != lib.EUserOther && got.err != lib.EOverflow {
			sum.Count("unexpected-error-class:" + got.err)
		}
		if got.kind == "str" && utf8.ValidString(got.s) {
			t.add(got.s)
		}
		if got.kind == "strs" {
			for _, s := range got.ss {
				if utf8.ValidString(s) {
					t.add(s)
				}
			}
		}
		if toCoq {
			cw.Add(fmt.Sprintf("(%s,\n %s,\n %s,\n %s)", t.coq(), t.coqLower(), c.coqOp(), got.coq()), d)
			sum.Count("coq model cases")
		}
		if c.nontrivial(want) {
			sum.Count("nontrivial")
			if !distinct[key] {
				distinct[key] = true
				sum.DistinctNontrivial++
				sum.Sample(d)
			}
		}
		sum.Count("result:" + got.kind)
		return got.eq(want)
	}

	fixed := append(fixedCases(), loadCorpus(*corpus)...)
	for i, c := range fixed {
		runCase(c, i, true, true)
	}
	sum.Count("fixed+corpus cases")
	sum.Distribution["fixed+corpus cases"] = len(fixed)
	for i := 0; i < nrand; i++ {
		runCase(genCase(r), i, false, i < ncoq)
	}
	// sequences of operations on the SAME value objects (cached state inside StringValue must not leak)
	seqs := fixedSeqs()
	for i := 0; i < nseq; i++ {
		seqs = append(seqs, genSeq(r))
	}
	for i, sq := range seqs {
		runSeq(sq, sum, h, func(c *opCase) bool { return runCase(c, 0, false, i < nseqCoq+len(fixedSeqs())) }, i%seqScriptEvery == 0 || i < len(fixedSeqs()))
	}
	sum.Distribution["operation sequences"] = len(seqs)
	cw.Close()
	sum.CaseFiles = cw.Files
}
