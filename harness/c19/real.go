package main

// Running the real implementation: direct calls of the interpreter's StringValue methods,
// and Cadence scripts executed by both engines (tree-walking interpreter and bytecode VM).

import (
	"errors"
	"fmt"
	"math/big"
	"strings"

	"cvh/lib"

	"github.com/onflow/cadence"
	"github.com/onflow/cadence/common"
	"github.com/onflow/cadence/interpreter"
)

var inter *interpreter.Interpreter

func initInter() {
	var err error
	inter, err = interpreter.NewInterpreter(nil, common.ScriptLocation{}, &interpreter.Config{
		Storage: interpreter.NewInMemoryStorage(nil, nil),
	})
	if err != nil {
		panic(err)
	}
}

// classify maps a recovered panic / returned error to an observation.
func classify(r any) obs {
	err, ok := r.(error)
	if ok {
		var hb *interpreter.InvalidHexByteError
		if errors.As(err, &hb) {
			return oHexByte(hb.Byte)
		}
		var hl *interpreter.InvalidHexLengthError
		if errors.As(err, &hl) {
			return oHexLen
		}
		var e1 *interpreter.StringIndexOutOfBoundsError
		var e2 *interpreter.StringSliceIndicesError
		if errors.As(err, &e1) || errors.As(err, &e2) {
			return oErr(lib.EIndexOOB)
		}
		var e3 *interpreter.InvalidSliceIndexError
		if errors.As(err, &e3) {
			return oErr(lib.EUserOther)
		}
		var e4 *interpreter.OverflowError
		if errors.As(err, &e4) {
			return oErr(lib.EOverflow)
		}
	}
	return oErr(lib.Classify(r))
}

func catch(f func() obs) (o obs) {
	defer func() {
		if r := recover(); r != nil {
			o = classify(r)
		}
	}()
	return f()
}

func sv(raw string) *interpreter.StringValue { return interpreter.NewUnmeteredStringValue(raw) }

func intVal(z *big.Int) interpreter.IntValue {
	return interpreter.NewUnmeteredIntValueFromBigInt(new(big.Int).Set(z))
}

func arrayStrings(a *interpreter.ArrayValue) []string {
	var out []string
	a.Iterate(inter, func(v interpreter.Value) bool {
		switch x := v.(type) {
		case *interpreter.StringValue:
			out = append(out, x.Str)
		case interpreter.CharacterValue:
			out = append(out, x.Str)
		default:
			panic(fmt.Sprintf("unexpected element %T", v))
		}
		return true
	}, false)
	if out == nil {
		out = []string{}
	}
	return out
}

func arrayBytes(a *interpreter.ArrayValue) string {
	bs, err := interpreter.ByteArrayValueToByteSlice(inter, a)
	if err != nil {
		panic(err)
	}
	return string(bs)
}

func stringArray(ss []string) *interpreter.ArrayValue {
	vs := make([]interpreter.Value, len(ss))
	for i, s := range ss {
		vs[i] = sv(s)
	}
	return interpreter.NewArrayValue(inter, interpreter.VarSizedArrayOfStringType, common.ZeroAddress, vs...)
}

func charArray(ss []string) *interpreter.ArrayValue {
	vs := make([]interpreter.Value, len(ss))
	for i, s := range ss {
		vs[i] = interpreter.NewUnmeteredCharacterValue(s)
	}
	t := interpreter.NewVariableSizedStaticType(nil, interpreter.PrimitiveStaticTypeCharacter)
	return interpreter.NewArrayValue(inter, t, common.ZeroAddress, vs...)
}

// ---- an operation on concrete inputs ----------------------------------------------------

type sbOp struct {
	kind string // KAppend KAppendChar KClear
	s    string
}

type opCase struct {
	op     string // Coq constructor name
	strs   []string
	ints   []*big.Int
	bytes  []byte
	cmp    string
	sbops  []sbOp
	noReal bool
	pre    *obs   // result observed inside a sequence (no fresh evaluation)
	seq    string // the sequence so far, for reports
}

// direct runs the operation through the Go API of the interpreter.
func (c *opCase) direct() (o obs, ok bool) {
	ok = true
	s := func(i int) *interpreter.StringValue { return sv(c.strs[i]) }
	o = catch(func() obs {
		switch c.op {
		case "OpNew":
			return oStr(s(0).Str)
		case "OpLength":
			return oInt(s(0).Length(inter))
		case "OpGetKey":
			return oStr(s(0).GetKey(inter, intVal(c.ints[0])).(interpreter.CharacterValue).Str)
		case "OpSlice":
			return oStr(s(0).Slice(inter, intVal(c.ints[0]), intVal(c.ints[1])).(*interpreter.StringValue).Str)
		case "OpChars":
			it := s(0).Iterator(inter)
			out := []string{}
			for {
				v := it.Next(inter)
				if v == nil {
					break
				}
				out = append(out, v.(interpreter.CharacterValue).Str)
			}
			return oStrs(out)
		case "OpConcat":
			return oStr(s(0).Concat(inter, s(1)).(*interpreter.StringValue).Str)
		case "OpIndexOf":
			return oInt(s(0).IndexOf(inter, s(1)).ToInt())
		case "OpContains":
			return oBool(bool(s(0).Contains(inter, s(1))))
		case "OpCount":
			return oInt(s(0).Count(inter, s(1)).ToInt())
		case "OpSplit":
			return oStrs(arrayStrings(s(0).Split(inter, s(1))))
		case "OpReplaceAll":
			return oStr(s(0).ReplaceAll(inter, s(1), s(2)).Str)
		case "OpJoin":
			v := interpreter.StringFunctionJoin(inter, stringArray(c.strs[1:]), s(0))
			return oStr(v.(*interpreter.StringValue).Str)
		case "OpToLower":
			return oStr(s(0).ToLower(inter).Str)
		case "OpUtf8":
			v := s(0).GetMember(inter, "utf8", common.DeclarationKindField, nil)
			return oStr(arrayBytes(v.(*interpreter.ArrayValue)))
		case "OpDecodeHex":
			return oStr(arrayBytes(s(0).DecodeHex(inter)))
		case "OpEncodeHex":
			v := interpreter.StringFunctionEncodeHex(inter, interpreter.ByteSliceToByteArrayValue(inter, c.bytes))
			return oStr(v.(*interpreter.StringValue).Str)
		case "OpFromUtf8":
			v := interpreter.StringFunctionFromUtf8(inter, interpreter.ByteSliceToByteArrayValue(inter, c.bytes))
			if some, isSome := v.(*interpreter.SomeValue); isSome {
				return oStr(some.InnerValue().(*interpreter.StringValue).Str)
			}
			return oNil
		case "OpFromChars":
			v := interpreter.StringFunctionFromCharacters(inter, charArray(c.strs))
			return oStr(v.(*interpreter.StringValue).Str)
		case "OpCharNew":
			return oStr(interpreter.NewUnmeteredCharacterValue(c.strs[0]).Str)
		case "OpCharToString":
			return oStr(interpreter.CharacterValueToString(inter, interpreter.NewUnmeteredCharacterValue(c.strs[0])).Str)
		case "OpCharUtf8":
			v := interpreter.NewUnmeteredCharacterValue(c.strs[0]).GetMember(inter, "utf8", common.DeclarationKindField, nil)
			return oStr(arrayBytes(v.(*interpreter.ArrayValue)))
		case "OpCmp":
			a, b := s(0), s(1)
			switch c.cmp {
			case "CEq":
				return oBool(a.Equal(inter, b))
			case "CNe":
				return oBool(!a.Equal(inter, b))
			case "CLt":
				return oBool(bool(a.Less(inter, b)))
			case "CLe":
				return oBool(bool(a.LessEqual(inter, b)))
			case "CGt":
				return oBool(bool(a.Greater(inter, b)))
			case "CGe":
				return oBool(bool(a.GreaterEqual(inter, b)))
			}
		case "OpCharCmp":
			a, b := interpreter.NewUnmeteredCharacterValue(c.strs[0]), interpreter.NewUnmeteredCharacterValue(c.strs[1])
			switch c.cmp {
			case "CEq":
				return oBool(a.Equal(inter, b))
			case "CNe":
				return oBool(!a.Equal(inter, b))
			case "CLt":
				return oBool(bool(a.Less(inter, b)))
			case "CLe":
				return oBool(bool(a.LessEqual(inter, b)))
			case "CGt":
				return oBool(bool(a.Greater(inter, b)))
			case "CGe":
				return oBool(bool(a.GreaterEqual(inter, b)))
			}
		}
		ok = false
		return oNil
	})
	return
}

// ---- scripts ------------------------------------------------------------------------------

func lit(s string) string {
	var b strings.Builder
	b.WriteByte('"')
	for _, r := range s {
		fmt.Fprintf(&b, "\\u{%x}", int(r))
	}
	b.WriteByte('"')
	return b.String()
}

func byteArrayLit(bs []byte) string {
	parts := make([]string, len(bs))
	for i, b := range bs {
		parts[i] = fmt.Sprint(b)
	}
	return "[" + strings.Join(parts, ", ") + "]"
}

var cmpSym = map[string]string{"CEq": "==", "CNe": "!=", "CLt": "<", "CLe": "<=", "CGt": ">", "CGe": ">="}

// script renders the operation as a Cadence script; kind says how to read the result.
func (c *opCase) script() (src string, kind string) {
	l := func(i int) string { return lit(c.strs[i]) }
	main := func(ret, body string) string {
		return "access(all) fun main(): " + ret + " { " + body + " }"
	}
	switch c.op {
	case "OpNew":
		return main("String", "return "+l(0)), "str"
	case "OpLength":
		return main("Int", "return "+l(0)+".length"), "int"
	case "OpGetKey":
		return main("Character", fmt.Sprintf("let s = %s; return s[%s]", l(0), c.ints[0])), "str"
	case "OpSlice":
		return main("String", fmt.Sprintf("let s = %s; return s.slice(from: %s, upTo: %s)", l(0), c.ints[0], c.ints[1])), "str"
	case "OpChars":
		return main("[Character]", fmt.Sprintf("let r: [Character] = []; for c in %s { r.append(c) }; return r", l(0))), "strs"
	case "OpConcat":
		return main("String", fmt.Sprintf("return %s.concat(%s)", l(0), l(1))), "str"
	case "OpIndexOf":
		return main("Int", fmt.Sprintf("return %s.index(of: %s)", l(0), l(1))), "int"
	case "OpContains":
		return main("Bool", fmt.Sprintf("return %s.contains(%s)", l(0), l(1))), "bool"
	case "OpCount":
		return main("Int", fmt.Sprintf("return %s.count(%s)", l(0), l(1))), "int"
	case "OpSplit":
		return main("[String]", fmt.Sprintf("return %s.split(separator: %s)", l(0), l(1))), "strs"
	case "OpReplaceAll":
		return main("String", fmt.Sprintf("return %s.replaceAll(of: %s, with: %s)", l(0), l(1), l(2))), "str"
	case "OpJoin":
		parts := make([]string, len(c.strs)-1)
		for i := range parts {
			parts[i] = l(i + 1)
		}
		return main("String", fmt.Sprintf("let a: [String] = [%s]; return String.join(a, separator: %s)", strings.Join(parts, ", "), l(0))), "str"
	case "OpToLower":
		return main("String", fmt.Sprintf("return %s.toLower()", l(0))), "str"
	case "OpUtf8":
		return main("[UInt8]", fmt.Sprintf("return %s.utf8", l(0))), "bytes"
	case "OpDecodeHex":
		return main("[UInt8]", fmt.Sprintf("return %s.decodeHex()", l(0))), "bytes"
	case "OpEncodeHex":
		return main("String", fmt.Sprintf("let a: [UInt8] = %s; return String.encodeHex(a)", byteArrayLit(c.bytes))), "str"
	case "OpFromUtf8":
		return main("String?", fmt.Sprintf("let a: [UInt8] = %s; return String.fromUTF8(a)", byteArrayLit(c.bytes))), "optstr"
	case "OpFromChars":
		parts := make([]string, len(c.strs))
		for i := range parts {
			parts[i] = l(i)
		}
		return main("String", fmt.Sprintf("let a: [Character] = [%s]; return String.fromCharacters(a)", strings.Join(parts, ", "))), "str"
	case "OpCharNew":
		return main("Character", fmt.Sprintf("let c: Character = %s; return c", l(0))), "str"
	case "OpCharToString":
		return main("String", fmt.Sprintf("let c: Character = %s; return c.toString()", l(0))), "str"
	case "OpCharUtf8":
		return main("[UInt8]", fmt.Sprintf("let c: Character = %s; return c.utf8", l(0))), "bytes"
	case "OpCmp":
		return main("Bool", fmt.Sprintf("let a: String = %s; let b: String = %s; return a %s b", l(0), l(1), cmpSym[c.cmp])), "bool"
	case "OpCharCmp":
		return main("Bool", fmt.Sprintf("let a: Character = %s; let b: Character = %s; return a %s b", l(0), l(1), cmpSym[c.cmp])), "bool"
	case "OpSbToString", "OpSbLength":
		var b strings.Builder
		b.WriteString("let sb = StringBuilder(); ")
		for _, o := range c.sbops {
			switch o.kind {
			case "KAppend":
				fmt.Fprintf(&b, "sb.append(%s); ", lit(o.s))
			case "KAppendChar":
				fmt.Fprintf(&b, "sb.appendCharacter(%s); ", lit(o.s))
			case "KClear":
				b.WriteString("sb.clear(); ")
			}
		}
		if c.op == "OpSbToString" {
			return main("String", b.String()+"return sb.toString()"), "str"
		}
		return main("Int", b.String()+"return sb.length"), "int"
	}
	panic(c.op)
}

func valueToObs(v cadence.Value, kind string) obs {
	switch kind {
	case "str":
		switch x := v.(type) {
		case cadence.String:
			return oStr(string(x))
		case cadence.Character:
			return oStr(string(x))
		}
	case "int":
		if x, ok := v.(cadence.Int); ok {
			return oInt(x.Int())
		}
	case "bool":
		if x, ok := v.(cadence.Bool); ok {
			return oBool(bool(x))
		}
	case "strs":
		if a, ok := v.(cadence.Array); ok {
			out := []string{}
			for _, e := range a.Values {
				out = append(out, valueToObs(e, "str").s)
			}
			return oStrs(out)
		}
	case "bytes":
		if a, ok := v.(cadence.Array); ok {
			var bs []byte
			for _, e := range a.Values {
				bs = append(bs, byte(e.(cadence.UInt8)))
			}
			return oStr(string(bs))
		}
	case "optstr":
		if o, ok := v.(cadence.Optional); ok {
			if o.Value == nil {
				return oNil
			}
			return valueToObs(o.Value, "str")
		}
	}
	return oErr(fmt.Sprintf("unexpected result %T %v", v, v))
}

func (c *opCase) runScript(h *lib.Host, vm bool) (obs, string) {
	src, kind := c.script()
	out := h.RunScript(src, nil, vm)
	if out.Err != nil {
		if out.Class == "CheckerError" || out.Class == "ParseError" {
			return oErr(out.Class + ": " + out.Err.Error()), src
		}
		return classify(out.Err), src
	}
	if out.Panic != nil {
		return oErr(lib.ECrash), src
	}
	return valueToObs(out.Value, kind), src
}
