package main

// Independent oracle for C19: strings as sequences of extended grapheme clusters (rivo/uniseg)
// of their NFC form (x/text/unicode/norm). Everything here works on the list of clusters;
// nothing is shared with interpreter/value_string.go.

import (
	"fmt"
	"math/big"
	"strings"
	"unicode"

	"cvh/lib"

	"github.com/rivo/uniseg"
	"golang.org/x/text/unicode/norm"
)

func nfc(s string) string { return norm.NFC.String(s) }

// bounds returns the byte offsets of the grapheme cluster boundaries of s: [0, e1, ..., len(s)].
func bounds(s string) []int {
	b := []int{0}
	g := uniseg.NewGraphemes(s)
	for g.Next() {
		_, e := g.Positions()
		b = append(b, e)
	}
	return b
}

func clustersOf(s string) []string {
	b := bounds(s)
	out := make([]string, 0, len(b)-1)
	for i := 0; i+1 < len(b); i++ {
		out = append(out, s[b[i]:b[i+1]])
	}
	return out
}

// ---- observations -------------------------------------------------------------------------

type obs struct {
	kind string // int bool str strs nil err hexbyte hexlen
	i    int64
	b    bool
	s    string
	ss   []string
	err  string
}

func oInt(i int) obs        { return obs{kind: "int", i: int64(i)} }
func oBool(b bool) obs      { return obs{kind: "bool", b: b} }
func oStr(s string) obs     { return obs{kind: "str", s: s} }
func oStrs(ss []string) obs { return obs{kind: "strs", ss: ss} }
func oErr(e string) obs     { return obs{kind: "err", err: e} }
func oHexByte(b byte) obs   { return obs{kind: "hexbyte", i: int64(b)} }

var oNil = obs{kind: "nil"}
var oHexLen = obs{kind: "hexlen"}

func (o obs) eq(p obs) bool {
	if o.kind != p.kind {
		return false
	}
	switch o.kind {
	case "int", "hexbyte":
		return o.i == p.i
	case "bool":
		return o.b == p.b
	case "str":
		return o.s == p.s
	case "strs":
		if len(o.ss) != len(p.ss) {
			return false
		}
		for i := range o.ss {
			if o.ss[i] != p.ss[i] {
				return false
			}
		}
		return true
	case "err":
		return o.err == p.err
	}
	return true
}

func (o obs) String() string {
	switch o.kind {
	case "int":
		return fmt.Sprint(o.i)
	case "hexbyte":
		return fmt.Sprintf("InvalidHexByte(%d)", o.i)
	case "bool":
		return fmt.Sprint(o.b)
	case "str":
		return fmt.Sprintf("%+q", o.s)
	case "strs":
		parts := make([]string, len(o.ss))
		for i, s := range o.ss {
			parts[i] = fmt.Sprintf("%+q", s)
		}
		return "[" + strings.Join(parts, ", ") + "]"
	case "err":
		return "Err " + o.err
	}
	return o.kind
}

func (o obs) coq() string {
	switch o.kind {
	case "int":
		return "ObInt " + lib.ZI(o.i)
	case "hexbyte":
		return "ObHexByte " + lib.ZI(o.i)
	case "bool":
		return fmt.Sprintf("ObBool %v", o.b)
	case "str":
		return "ObStr " + byteList([]byte(o.s))
	case "strs":
		parts := make([]string, len(o.ss))
		for i, s := range o.ss {
			parts[i] = byteList([]byte(s))
		}
		return "ObStrs [" + strings.Join(parts, ";") + "]"
	case "nil":
		return "ObNil"
	case "hexlen":
		return "ObHexLen"
	case "err":
		return "ObErr " + o.err
	}
	panic(o.kind)
}

// ---- cluster level specifications ---------------------------------------------------------

var (
	minInt64 = big.NewInt(-1 << 63)
	maxInt64 = new(big.Int).SetUint64(1<<63 - 1)
)

func fitsInt(z *big.Int) bool { return z.Cmp(minInt64) >= 0 && z.Cmp(maxInt64) <= 0 }

func specLength(s string) obs { return oInt(len(clustersOf(s))) }

func specGetKey(s string, i *big.Int) obs {
	if !fitsInt(i) {
		return oErr(lib.EOverflow)
	}
	cl := clustersOf(s)
	if i.Sign() < 0 || i.Cmp(big.NewInt(int64(len(cl)))) >= 0 {
		return oErr(lib.EIndexOOB)
	}
	return oStr(nfc(cl[i.Int64()]))
}

func specSlice(s string, from, to *big.Int) obs {
	if !fitsInt(from) || !fitsInt(to) {
		return oErr(lib.EOverflow)
	}
	cl := clustersOf(s)
	n := big.NewInt(int64(len(cl)))
	if from.Sign() < 0 || from.Cmp(n) > 0 || to.Sign() < 0 || to.Cmp(n) > 0 {
		return oErr(lib.EIndexOOB)
	}
	if from.Cmp(to) > 0 {
		return oErr(lib.EUserOther)
	}
	return oStr(nfc(strings.Join(cl[from.Int64():to.Int64()], "")))
}

func specChars(s string) obs {
	cl := clustersOf(s)
	out := make([]string, len(cl))
	for i, c := range cl {
		out[i] = nfc(c)
	}
	return oStrs(out)
}

// alignedSpan: number of leading clusters of cl whose concatenation is exactly needle, or -1.
func alignedSpan(cl []string, needle string) int {
	n := 0
	for needle != "" {
		if n >= len(cl) || !strings.HasPrefix(needle, cl[n]) {
			return -1
		}
		needle = needle[len(cl[n]):]
		n++
	}
	return n
}

func firstAligned(cl []string, needle string) (idx, span int) {
	for i := range cl {
		if m := alignedSpan(cl[i:], needle); m >= 0 {
			return i, m
		}
	}
	return -1, 0
}

func specIndexOf(s, o string) obs {
	if o == "" {
		return oInt(0)
	}
	i, _ := firstAligned(clustersOf(s), o)
	return oInt(i)
}

func specContains(s, o string) obs {
	if o == "" {
		return oBool(true)
	}
	i, _ := firstAligned(clustersOf(s), o)
	return oBool(i >= 0)
}

func specCount(s, o string) obs {
	cl := clustersOf(s)
	if o == "" {
		return oInt(len(cl) + 1)
	}
	n := 0
	for {
		i, m := firstAligned(cl, o)
		if i < 0 {
			return oInt(n)
		}
		n++
		cl = cl[i+m:]
	}
}

// specSplitRaw returns the parts before normalisation.
func specSplit(s, sep string) obs {
	cl := clustersOf(s)
	var parts []string
	if sep == "" {
		for _, c := range cl {
			parts = append(parts, nfc(nfc(c)))
		}
		return oStrs(parts)
	}
	for {
		i, m := firstAligned(cl, sep)
		if i < 0 {
			parts = append(parts, strings.Join(cl, ""))
			return oStrs(parts)
		}
		parts = append(parts, nfc(strings.Join(cl[:i], "")))
		cl = cl[i+m:]
	}
}

// specReplaceRaw: replaced text before normalisation; changed=false when there is no occurrence
func specReplaceRaw(s, o, r string) (raw string, changed bool) {
	cl := clustersOf(s)
	var b strings.Builder
	if o == "" {
		b.WriteString(r)
		for _, c := range cl {
			b.WriteString(c)
			b.WriteString(r)
		}
		return b.String(), true
	}
	for {
		i, m := firstAligned(cl, o)
		if i < 0 {
			b.WriteString(strings.Join(cl, ""))
			return b.String(), changed
		}
		changed = true
		b.WriteString(strings.Join(cl[:i], ""))
		b.WriteString(r)
		cl = cl[i+m:]
	}
}

func specReplaceAll(s, o, r string) obs {
	raw, changed := specReplaceRaw(s, o, r)
	if !changed {
		return oStr(s)
	}
	return oStr(nfc(raw))
}

func lowerRaw(s string) string {
	var b strings.Builder
	for _, r := range s {
		b.WriteRune(unicode.ToLower(r))
	}
	return b.String()
}

// encodeRunes: UTF-8 by the definition in RFC 3629 (not via the Go runtime)
func encodeRunes(rs []rune) []byte {
	var out []byte
	for _, r := range rs {
		c := uint32(r)
		switch {
		case c < 0x80:
			out = append(out, byte(c))
		case c < 0x800:
			out = append(out, byte(0xc0|c>>6), byte(0x80|c&0x3f))
		case c < 0x10000:
			out = append(out, byte(0xe0|c>>12), byte(0x80|(c>>6)&0x3f), byte(0x80|c&0x3f))
		default:
			out = append(out, byte(0xf0|c>>18), byte(0x80|(c>>12)&0x3f), byte(0x80|(c>>6)&0x3f), byte(0x80|c&0x3f))
		}
	}
	return out
}

// validUTF8 by the grammar of RFC 3629 section 4
func validUTF8(p []byte) bool {
	in := func(b, lo, hi byte) bool { return lo <= b && b <= hi }
	for i := 0; i < len(p); {
		b := p[i]
		rest := p[i+1:]
		switch {
		case b <= 0x7f:
			i++
		case in(b, 0xc2, 0xdf):
			if len(rest) < 1 || !in(rest[0], 0x80, 0xbf) {
				return false
			}
			i += 2
		case in(b, 0xe0, 0xef):
			if len(rest) < 2 || !in(rest[1], 0x80, 0xbf) {
				return false
			}
			lo, hi := byte(0x80), byte(0xbf)
			if b == 0xe0 {
				lo = 0xa0
			}
			if b == 0xed {
				hi = 0x9f
			}
			if !in(rest[0], lo, hi) {
				return false
			}
			i += 3
		case in(b, 0xf0, 0xf4):
			if len(rest) < 3 || !in(rest[1], 0x80, 0xbf) || !in(rest[2], 0x80, 0xbf) {
				return false
			}
			lo, hi := byte(0x80), byte(0xbf)
			if b == 0xf0 {
				lo = 0x90
			}
			if b == 0xf4 {
				hi = 0x8f
			}
			if !in(rest[0], lo, hi) {
				return false
			}
			i += 4
		default:
			return false
		}
	}
	return true
}

func hexVal(c byte) int {
	switch {
	case '0' <= c && c <= '9':
		return int(c - '0')
	case 'a' <= c && c <= 'f':
		return int(c-'a') + 10
	case 'A' <= c && c <= 'F':
		return int(c-'A') + 10
	}
	return -1
}

func specDecodeHex(s string) obs {
	var out []byte
	for i := 0; i+1 < len(s); i += 2 {
		a, b := hexVal(s[i]), hexVal(s[i+1])
		if a < 0 {
			return oHexByte(s[i])
		}
		if b < 0 {
			return oHexByte(s[i+1])
		}
		out = append(out, byte(a*16+b))
	}
	if len(s)%2 == 1 {
		if hexVal(s[len(s)-1]) < 0 {
			return oHexByte(s[len(s)-1])
		}
		return oHexLen
	}
	return oStr(string(out))
}

func specEncodeHex(bs []byte) obs {
	var b strings.Builder
	for _, x := range bs {
		fmt.Fprintf(&b, "%02x", x)
	}
	return oStr(b.String())
}

// code point lexicographic order
func cmpRunes(a, b string) int {
	ra, rb := []rune(a), []rune(b)
	for i := 0; i < len(ra) && i < len(rb); i++ {
		if ra[i] != rb[i] {
			if ra[i] < rb[i] {
				return -1
			}
			return 1
		}
	}
	switch {
	case len(ra) < len(rb):
		return -1
	case len(ra) > len(rb):
		return 1
	}
	return 0
}

func specCmp(k string, a, b string) obs {
	c := cmpRunes(a, b)
	switch k {
	case "CEq":
		return oBool(c == 0)
	case "CNe":
		return oBool(c != 0)
	case "CLt":
		return oBool(c < 0)
	case "CLe":
		return oBool(c <= 0)
	case "CGt":
		return oBool(c > 0)
	case "CGe":
		return oBool(c >= 0)
	}
	panic(k)
}

// ---- oracle tables for the Coq model -------------------------------------------------------

type tabEntry struct {
	raw, norm string
	b         []int
}

type otab struct {
	entries []tabEntry
	seen    map[string]bool
	lower   [][2]string
}

func newTab() *otab { return &otab{seen: map[string]bool{}} }

// add registers a source text: its NFC form and the cluster boundaries of the NFC form.
func (t *otab) add(raw string) string {
	n := nfc(raw)
	if !t.seen[raw] {
		t.seen[raw] = true
		t.entries = append(t.entries, tabEntry{raw, n, bounds(n)})
	}
	if !t.seen[n] {
		t.seen[n] = true
		t.entries = append(t.entries, tabEntry{n, n, bounds(n)})
	}
	return n
}

// addSuffixes registers every cluster-aligned suffix of the (normalised) string s.
func (t *otab) addSuffixes(s string) {
	for _, a := range bounds(s) {
		t.add(s[a:])
	}
}

// pack renders a list of small naturals as one number: digits of `bits` bits, least significant
// first, digit = element + 1 (decoded by Cases.unp); fewer tokens for coqc to parse.
func pack(fn string, bits uint, xs []int) string {
	if len(xs) == 0 {
		return "[]"
	}
	if len(xs) == 1 {
		return fmt.Sprintf("[%d]", xs[0])
	}
	z := new(big.Int)
	for i := len(xs) - 1; i >= 0; i-- {
		if xs[i] < 0 || xs[i]+1 >= 1<<bits {
			panic("pack: element out of range")
		}
		z.Lsh(z, bits)
		z.Or(z, big.NewInt(int64(xs[i]+1)))
	}
	return "(" + fn + " " + z.String() + ")"
}

func cpsList(s string) string {
	rs := []rune(s)
	xs := make([]int, len(rs))
	for i, r := range rs {
		xs[i] = int(r)
	}
	return pack("U", 21, xs)
}

func byteList(bs []byte) string {
	xs := make([]int, len(bs))
	for i, b := range bs {
		xs[i] = int(b)
	}
	return pack("UB", 9, xs)
}

func intList(xs []int) string { return pack("UN", 16, xs) }

func (t *otab) coq() string {
	parts := make([]string, len(t.entries))
	for i, e := range t.entries {
		parts[i] = "(" + cpsList(e.raw) + "," + cpsList(e.norm) + "," + intList(e.b) + ")"
	}
	return "[" + strings.Join(parts, ";") + "]"
}

func (t *otab) coqLower() string {
	parts := make([]string, len(t.lower))
	for i, e := range t.lower {
		parts[i] = "(" + cpsList(e[0]) + "," + cpsList(e[1]) + ")"
	}
	return "[" + strings.Join(parts, ";") + "]"
}

// checkOracleHyp validates, for the normalised string s, the hypotheses under which the Coq
// theorems are stated: every cluster-aligned substring of s is itself in NFC and its cluster
// boundaries are the shifted boundaries of s.
func checkOracleHyp(s string) string {
	b := bounds(s)
	for x := 0; x < len(b); x++ {
		for y := x; y < len(b); y++ {
			sub := s[b[x]:b[y]]
			if nfc(sub) != sub {
				return fmt.Sprintf("substring [%d:%d] of %+q is not in NFC", b[x], b[y], s)
			}
			sb := bounds(sub)
			ok := len(sb) == y-x+1
			for k := 0; ok && k < len(sb); k++ {
				ok = sb[k] == b[x+k]-b[x]
			}
			if !ok {
				return fmt.Sprintf("cluster boundaries of substring [%d:%d] of %+q are %v, not the shifted boundaries of %v", b[x], b[y], s, sb, b)
			}
		}
	}
	return ""
}
