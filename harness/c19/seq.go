package main

// Sequences of string operations on the SAME value objects.
// A StringValue carries mutable caches (the grapheme iterator, the cached cluster length); a result
// must depend only on the contents. A sequence keeps the Go objects (direct run) or let-bound
// variables (script run) alive, reads length / index / slice / iteration first, then builds new strings
// from them (concat, slice, replaceAll, join, toLower) - preferably at seams where clusters merge or
// NFC composes - and then reads length / index / iteration / comparison of the results. Every step is
// compared with the cluster-list specification of the current contents.

import (
	"fmt"
	"math/big"
	"strings"

	"cvh/lib"

	"github.com/onflow/cadence"
	"github.com/onflow/cadence/common"
	"github.com/onflow/cadence/interpreter"
)

type seqStep struct {
	op   string // OpLit or one of the single-operation names
	regs []int
	ints []*big.Int
	cmp  string
	lit  string // OpLit
}

type seqT struct {
	steps []seqStep // fixed plan (nil: generated while running, from rng)
	rng   *lib.Rng
	n     int
}

// pairs whose junction merges clusters and/or composes under NFC
var seams = [][2]string{
	{"\r", "\n"}, {"e", "\u0301"}, {"cafe", "\u0301"}, {"a", "\u030a"}, {"x", "\u0301"}, {"x\u0301", "\u0308"},
	{"\U0001F1E6", "\U0001F1E7"}, {"\U0001F1E6\U0001F1E7\U0001F1E8", "\U0001F1E9"}, {"\U0001F469\u200d", "\U0001F467"},
	{"\U0001F469", "\u200d\U0001F467"}, {"\U0001F44D", "\U0001F3FD"}, {"\u2764", "\ufe0f"},
	{"\u1112", "\u1161"}, {"\ud558", "\u11ab"}, {"\u1112\u1161", "\u11ab"}, {"\u1100", "\uac00"},
	{"\u0600", "1"}, {"\u0915", "\u094d\u0937"}, {"\u0915\u094d", "\u0937"}, {"\u0e01", "\u0e33"}, {"q\u0323", "\u0307"},
	{"a\u0301", "\u0323"}, {"ab", "c"}, {"\n", "\r"}, {"o\u0302", "\u0301"}, {"\u00f4", "\u0301"},
}

func genSeq(r *lib.Rng) seqT {
	return seqT{rng: lib.NewRng(r.U64()), n: 3 + r.Intn(7)}
}

func fixedSeqs() []seqT {
	L := func(s string) seqStep { return seqStep{op: "OpLit", lit: s} }
	op := func(name string, regs ...int) seqStep { return seqStep{op: name, regs: regs} }
	idx := func(reg int, i int64) seqStep {
		return seqStep{op: "OpGetKey", regs: []int{reg}, ints: []*big.Int{big.NewInt(i)}}
	}
	sl := func(reg int, a, b int64) seqStep {
		return seqStep{op: "OpSlice", regs: []int{reg}, ints: []*big.Int{big.NewInt(a), big.NewInt(b)}}
	}
	var out []seqT
	for _, sm := range seams {
		// warm both operands, join them, then look at the result
		out = append(out, seqT{steps: []seqStep{L(sm[0]), L(sm[1]), op("OpLength", 0), op("OpLength", 1), op("OpConcat", 0, 1),
			op("OpLength", 2), op("OpChars", 2), idx(2, 0), idx(2, 1)}})
	}
	out = append(out,
		seqT{steps: []seqStep{L("\r"), L("\n"), idx(0, 0), sl(1, 0, 1), op("OpConcat", 0, 1), op("OpLength", 2), idx(2, 1)}},
		seqT{steps: []seqStep{L("e"), L("\u0301"), op("OpLength", 0), op("OpLength", 1), op("OpConcat", 0, 1), sl(2, 0, 2)}},
		seqT{steps: []seqStep{L("e"), L("\u0301"), op("OpChars", 0), op("OpCount", 1, 0), op("OpConcat", 0, 1), L(""), op("OpCount", 2, 3), op("OpSplit", 2, 3)}},
		seqT{steps: []seqStep{L("cafe"), L("\u0301"), L("caf\u00e9"), op("OpLength", 0), op("OpLength", 1), op("OpConcat", 0, 1),
			{op: "OpCmp", cmp: "CEq", regs: []int{3, 2}}, {op: "OpCmp", cmp: "CLt", regs: []int{3, 2}}, op("OpLength", 3), op("OpUtf8", 3)}},
		seqT{steps: []seqStep{L("eXe"), L("X"), L("\u0301"), op("OpLength", 0), op("OpLength", 2), op("OpReplaceAll", 0, 1, 2), op("OpLength", 3), op("OpChars", 3)}},
		seqT{steps: []seqStep{L(""), L("e"), L("\u0301"), op("OpLength", 1), op("OpLength", 2), op("OpJoin", 0, 1, 2), op("OpLength", 3), idx(3, 1)}},
		seqT{steps: []seqStep{L("\U0001F1E6"), op("OpLength", 0), op("OpConcat", 0, 0), op("OpLength", 1), op("OpConcat", 1, 0), op("OpLength", 2), op("OpChars", 2)}},
		seqT{steps: []seqStep{L("x\r\ny"), op("OpLength", 0), sl(0, 0, 1), sl(0, 1, 2), op("OpLength", 1), op("OpLength", 2), op("OpConcat", 1, 2), op("OpLength", 3), op("OpConcat", 3, 2), op("OpLength", 4)}},
		seqT{steps: []seqStep{L("\u0130E"), L("\u0301"), op("OpLength", 0), op("OpToLower", 0), op("OpLength", 2), op("OpLength", 1), op("OpConcat", 2, 1), op("OpLength", 3)}},
	)
	return out
}

// nextStep chooses the next step from the current contents of the registers.
func nextStep(r *lib.Rng, regs []string, fresh int) seqStep {
	n := len(regs)
	pick := func() int {
		if fresh >= 0 && r.Chance(4, 5) {
			return fresh
		}
		return r.Intn(n)
	}
	a := pick()
	na := len(clustersOf(regs[a]))
	probeIdx := func() *big.Int {
		switch r.Intn(6) {
		case 0:
			return big.NewInt(int64(na))
		case 1:
			return big.NewInt(int64(na) - 1)
		case 2:
			return big.NewInt(int64(na) + 1)
		}
		return big.NewInt(int64(r.Intn(na + 1)))
	}
	if n < 2 {
		return seqStep{op: "OpLit", lit: string(genString(r))}
	}
	if fresh >= 0 && r.Chance(3, 4) { // look at the string that was just built
		switch r.Intn(8) {
		case 0, 1, 2:
			return seqStep{op: "OpLength", regs: []int{fresh}}
		case 3, 4:
			return seqStep{op: "OpGetKey", regs: []int{fresh}, ints: []*big.Int{probeIdx()}}
		case 5:
			return seqStep{op: "OpChars", regs: []int{fresh}}
		case 6:
			return seqStep{op: "OpSlice", regs: []int{fresh}, ints: []*big.Int{big.NewInt(int64(r.Intn(na + 1))), probeIdx()}}
		default:
			return seqStep{op: "OpCount", regs: []int{fresh, r.Intn(n)}}
		}
	}
	switch k := r.Intn(100); {
	case k < 12:
		return seqStep{op: "OpLength", regs: []int{a}}
	case k < 20:
		return seqStep{op: "OpGetKey", regs: []int{a}, ints: []*big.Int{probeIdx()}}
	case k < 30:
		x, y := r.Intn(na+1), r.Intn(na+1)
		if x > y && r.Chance(9, 10) {
			x, y = y, x
		}
		return seqStep{op: "OpSlice", regs: []int{a}, ints: []*big.Int{big.NewInt(int64(x)), big.NewInt(int64(y))}}
	case k < 35:
		return seqStep{op: "OpChars", regs: []int{a}}
	case k < 62:
		return seqStep{op: "OpConcat", regs: []int{r.Intn(n), r.Intn(n)}}
	case k < 67:
		return seqStep{op: lib.Pick(r, []string{"OpCount", "OpIndexOf", "OpContains", "OpSplit"}), regs: []int{a, r.Intn(n)}}
	case k < 74:
		return seqStep{op: "OpReplaceAll", regs: []int{a, r.Intn(n), r.Intn(n)}}
	case k < 79:
		m := 2 + r.Intn(2)
		rs := []int{r.Intn(n)}
		for i := 0; i < m; i++ {
			rs = append(rs, r.Intn(n))
		}
		return seqStep{op: "OpJoin", regs: rs}
	case k < 82:
		return seqStep{op: "OpToLower", regs: []int{a}}
	case k < 87:
		return seqStep{op: "OpCmp", cmp: lib.Pick(r, cmpKinds), regs: []int{a, r.Intn(n)}}
	case k < 90:
		return seqStep{op: "OpUtf8", regs: []int{a}}
	case k < 95:
		return seqStep{op: "OpLit", lit: genNeedle(r, regs[a], genPool(r))}
	default:
		return seqStep{op: "OpLit", lit: string(genString(r))}
	}
}

// stepDirect runs one step on the live objects.
func stepDirect(st seqStep, regs []*interpreter.StringValue) (o obs, produced *interpreter.StringValue) {
	g := func(i int) *interpreter.StringValue { return regs[st.regs[i]] }
	o = catch(func() obs {
		switch st.op {
		case "OpLength":
			return oInt(g(0).Length(inter))
		case "OpGetKey":
			return oStr(g(0).GetKey(inter, intVal(st.ints[0])).(interpreter.CharacterValue).Str)
		case "OpSlice":
			produced = g(0).Slice(inter, intVal(st.ints[0]), intVal(st.ints[1])).(*interpreter.StringValue)
			return oStr(produced.Str)
		case "OpChars":
			it := g(0).Iterator(inter)
			out := []string{}
			for {
				v := it.Next(inter)
				if v == nil {
					break
				}
				out = append(out, v.(interpreter.CharacterValue).Str)
			}
			return oStrs(out)
		case "OpConcat":
			produced = g(0).Concat(inter, g(1)).(*interpreter.StringValue)
			return oStr(produced.Str)
		case "OpIndexOf":
			return oInt(g(0).IndexOf(inter, g(1)).ToInt())
		case "OpContains":
			return oBool(bool(g(0).Contains(inter, g(1))))
		case "OpCount":
			return oInt(g(0).Count(inter, g(1)).ToInt())
		case "OpSplit":
			return oStrs(arrayStrings(g(0).Split(inter, g(1))))
		case "OpReplaceAll":
			produced = g(0).ReplaceAll(inter, g(1), g(2))
			return oStr(produced.Str)
		case "OpToLower":
			produced = g(0).ToLower(inter)
			return oStr(produced.Str)
		case "OpJoin":
			vals := make([]interpreter.Value, len(st.regs)-1)
			for i := range vals {
				vals[i] = g(i + 1)
			}
			arr := interpreter.NewArrayValue(inter, interpreter.VarSizedArrayOfStringType, common.ZeroAddress, vals...)
			produced = interpreter.StringFunctionJoin(inter, arr, g(0)).(*interpreter.StringValue)
			return oStr(produced.Str)
		case "OpUtf8":
			v := g(0).GetMember(inter, "utf8", common.DeclarationKindField, nil)
			return oStr(arrayBytes(v.(*interpreter.ArrayValue)))
		case "OpCmp":
			a, b := g(0), g(1)
			switch st.cmp {
			case "CEq":
				return oBool(a.Equal(inter, b))
			case "CNe":
				return oBool(!a.Equal(inter, b))
			case "CLt":
				return oBool(bool(a.Less(inter, b)))
			case "CLe":
				return oBool(bool(a.LessEqual(inter, b)))
			case "CGt":
				return oBool(bool(a.Greater(inter, b)))
			case "CGe":
				return oBool(bool(a.GreaterEqual(inter, b)))
			}
		}
		panic("seq: no step " + st.op)
	})
	if o.kind == "err" || o.kind == "hexbyte" || o.kind == "hexlen" {
		produced = nil
	}
	return
}

// stepScript renders one step; k is the index of the register the step defines (if any), j the step number.
func stepScript(st seqStep, k, j int) string {
	rg := func(i int) string { return fmt.Sprintf("r%d", st.regs[i]) }
	b := func(e string) string { return fmt.Sprintf(`out.append(["b", %s ? "true" : "false"])`, e) }
	switch st.op {
	case "OpLit":
		return fmt.Sprintf("let r%d = %s", k, lit(st.lit))
	case "OpLength":
		return fmt.Sprintf(`out.append(["i", %s.length.toString()])`, rg(0))
	case "OpGetKey":
		return fmt.Sprintf(`out.append(["s", %s[%s].toString()])`, rg(0), st.ints[0])
	case "OpSlice":
		return fmt.Sprintf(`let r%d = %s.slice(from: %s, upTo: %s); out.append(["s", r%d])`, k, rg(0), st.ints[0], st.ints[1], k)
	case "OpChars":
		return fmt.Sprintf(`var l%d: [String] = ["l"]; for ch in %s { l%d.append(ch.toString()) }; out.append(l%d)`, j, rg(0), j, j)
	case "OpConcat":
		return fmt.Sprintf(`let r%d = %s.concat(%s); out.append(["s", r%d])`, k, rg(0), rg(1), k)
	case "OpIndexOf":
		return fmt.Sprintf(`out.append(["i", %s.index(of: %s).toString()])`, rg(0), rg(1))
	case "OpContains":
		return b(fmt.Sprintf("%s.contains(%s)", rg(0), rg(1)))
	case "OpCount":
		return fmt.Sprintf(`out.append(["i", %s.count(%s).toString()])`, rg(0), rg(1))
	case "OpSplit":
		return fmt.Sprintf(`out.append(["l"].concat(%s.split(separator: %s)))`, rg(0), rg(1))
	case "OpReplaceAll":
		return fmt.Sprintf(`let r%d = %s.replaceAll(of: %s, with: %s); out.append(["s", r%d])`, k, rg(0), rg(1), rg(2), k)
	case "OpToLower":
		return fmt.Sprintf(`let r%d = %s.toLower(); out.append(["s", r%d])`, k, rg(0), k)
	case "OpJoin":
		parts := make([]string, len(st.regs)-1)
		for i := range parts {
			parts[i] = rg(i + 1)
		}
		return fmt.Sprintf(`let r%d = String.join([%s], separator: %s); out.append(["s", r%d])`, k, strings.Join(parts, ", "), rg(0), k)
	case "OpUtf8":
		return fmt.Sprintf(`var l%d: [String] = ["u"]; for x in %s.utf8 { l%d.append(x.toString()) }; out.append(l%d)`, j, rg(0), j, j)
	case "OpCmp":
		return b(fmt.Sprintf("%s %s %s", rg(0), cmpSym[st.cmp], rg(1)))
	}
	panic(st.op)
}

func decodeSeqObs(v cadence.Value) (obs, bool) {
	a, ok := v.(cadence.Array)
	if !ok || len(a.Values) == 0 {
		return obs{}, false
	}
	ss := make([]string, len(a.Values))
	for i, e := range a.Values {
		s, ok := e.(cadence.String)
		if !ok {
			return obs{}, false
		}
		ss[i] = string(s)
	}
	switch ss[0] {
	case "i":
		var n int
		fmt.Sscan(ss[1], &n)
		return oInt(n), true
	case "s":
		return oStr(ss[1]), true
	case "b":
		return oBool(ss[1] == "true"), true
	case "l":
		return oStrs(append([]string{}, ss[1:]...)), true
	case "u":
		bs := make([]byte, len(ss)-1)
		for i, x := range ss[1:] {
			var n int
			fmt.Sscan(x, &n)
			bs[i] = byte(n)
		}
		return oStr(string(bs)), true
	}
	return obs{}, false
}

// runSeq executes a sequence on live objects, checks every step through check (specification, Coq),
// and optionally replays the executed steps as one script in both engines.
func runSeq(sq seqT, sum *lib.Summary, h *lib.Host, check func(*opCase) bool, withScript bool) {
	var regs []*interpreter.StringValue
	var contents []string
	var lines []string
	var observed []obs
	fresh := -1
	var queue []seqStep
	if sq.steps != nil {
		queue = sq.steps
	} else {
		// start from a pair whose junction merges clusters / composes, or from random texts
		if sq.rng.Chance(2, 3) {
			sm := lib.Pick(sq.rng, seams)
			pre, post := "", ""
			if sq.rng.Chance(1, 3) {
				pre = string(genFromPool(sq.rng, genPool(sq.rng), 2))
			}
			if sq.rng.Chance(1, 3) {
				post = string(genFromPool(sq.rng, genPool(sq.rng), 2))
			}
			queue = []seqStep{{op: "OpLit", lit: pre + sm[0]}, {op: "OpLit", lit: sm[1] + post}}
		} else {
			queue = []seqStep{{op: "OpLit", lit: string(genString(sq.rng))}, {op: "OpLit", lit: string(genString(sq.rng))}}
		}
	}
	okAll := true
	for j := 0; j < 40 && okAll; j++ {
		var st seqStep
		if len(queue) > 0 {
			st, queue = queue[0], queue[1:]
		} else if sq.steps != nil || len(observed) >= sq.n {
			break
		} else {
			st = nextStep(sq.rng, contents, fresh)
		}
		k := len(regs)
		if st.op == "OpLit" {
			regs = append(regs, sv(st.lit))
			contents = append(contents, regs[k].Str)
			lines = append(lines, stepScript(st, k, j))
			fresh = -1
			continue
		}
		got, produced := stepDirect(st, regs)
		lines = append(lines, stepScript(st, k, j))
		observed = append(observed, got)
		// the same step as a single-operation case on the current contents
		c := &opCase{op: st.op, ints: st.ints, cmp: st.cmp, pre: &got, seq: strings.Join(lines, "; ")}
		for _, ri := range st.regs {
			c.strs = append(c.strs, contents[ri])
		}
		if !check(c) {
			okAll = false
		}
		fresh = -1
		if produced != nil {
			regs = append(regs, produced)
			contents = append(contents, produced.Str)
			fresh = k
		}
		if got.kind == "err" {
			break
		}
	}
	sum.Count("sequence steps")
	sum.Distribution["sequence steps"] += len(observed) - 1
	if !withScript || !okAll || len(observed) == 0 {
		return
	}
	src := "access(all) fun main(): [[String]] { let out: [[String]] = []; " + strings.Join(lines, "; ") + "; return out }"
	last := observed[len(observed)-1]
	for _, vm := range []bool{false, true} {
		out := h.RunScript(src, nil, vm)
		sum.Evaluations++
		sum.Count(fmt.Sprintf("sequence script vm=%v", vm))
		d := map[string]any{"script": src, "vm": vm}
		if out.Err != nil || out.Panic != nil {
			var so obs
			if out.Err != nil {
				if out.Class == "CheckerError" || out.Class == "ParseError" {
					so = oErr(out.Class + ": " + out.Err.Error())
				} else {
					so = classify(out.Err)
				}
			} else {
				so = oErr(lib.ECrash)
			}
			if !so.eq(last) {
				d["observed"], d["reference"] = so.String(), last.String()
				sum.Fail(fmt.Sprintf("string-seq-script:vm=%v", vm),
					fmt.Sprintf("sequence script (vm=%v) fails with %s but the same steps on StringValue objects end with %s; script: %s", vm, so, last, src), d)
			}
			continue
		}
		arr, ok := out.Value.(cadence.Array)
		bad := !ok || len(arr.Values) != len(observed)
		if !bad {
			for i, v := range arr.Values {
				so, ok := decodeSeqObs(v)
				if !ok || !so.eq(observed[i]) {
					d["observation"], d["observed"], d["reference"] = i, so.String(), observed[i].String()
					sum.Fail(fmt.Sprintf("string-seq-script:vm=%v", vm),
						fmt.Sprintf("sequence script (vm=%v): observation %d is %s but the same steps on StringValue objects give %s; script: %s", vm, i, so, observed[i], src), d)
					break
				}
			}
		} else {
			d["observed"] = fmt.Sprint(out.Value)
			sum.Fail(fmt.Sprintf("string-seq-script:vm=%v", vm),
				fmt.Sprintf("sequence script (vm=%v) returns %v, expected %d observations ending with %s; script: %s", vm, out.Value, len(observed), last, src), d)
		}
	}
}
