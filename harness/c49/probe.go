package main

import (
	"fmt"
	"os"
	"strings"

	"cvh/lib"

	"github.com/onflow/cadence/common"
	"github.com/onflow/cadence/runtime"
)

var addr1 = common.MustBytesToAddress([]byte{1})

func newHost(vm bool) *lib.Host {
	h := lib.NewHost()
	h.RT = runtime.NewRuntime(runtime.Config{})
	o := h.Deploy(addr1, "C", contractSrc, vm)
	if o.Err != nil {
		panic(fmt.Sprintf("contract does not deploy (vm=%v): %v", vm, o.Err))
	}
	return h
}

func probe(path string) {
	b, err := os.ReadFile(path)
	if err != nil {
		panic(err)
	}
	for _, vm := range []bool{false, true} {
		h := newHost(vm)
		fmt.Printf("== vm=%v uuid after deploy=%d\n", vm, h.UUID)
		for i, src := range strings.Split(string(b), "\n----\n") {
			o := h.RunTx(src, nil, []common.Address{addr1}, vm)
			fmt.Printf("#%d class=%q logs=%v\n", i, o.Class, o.Logs)
			for _, e := range o.Events {
				fmt.Printf("   event %s\n", e.String())
			}
			if o.Err != nil {
				s := o.Err.Error()
				if k := strings.Index(s, "error:"); k >= 0 {
					s = s[k:]
				}
				if len(s) > 300 {
					s = s[:300]
				}
				fmt.Printf("   err(%T): %s\n", o.Err, strings.ReplaceAll(s, "\n", " | "))
			}
		}
	}
}
