package main

// contractSrc: the world of the C49 correspondence run.
//
//	struct S / resource R: bases with a field x;
//	attachments AS, BS for S (struct-kinded) and AR, BR for R (resource-kinded); AR owns a nested resource Inner;
//	every resource declares a default destroy event carrying its uuid and state.
const contractSrc = `
access(all) contract C {
    access(all) entitlement E
    access(all) entitlement mapping M { E -> E }

    access(all) struct S {
        access(all) var x: Int
        init(_ x: Int) { self.x = x }
        access(all) fun setX(_ x: Int) { self.x = x }
    }
    access(all) resource Inner {
        access(all) var v: Int
        access(all) event ResourceDestroyed(id: UInt64 = self.uuid, v: Int = self.v)
        init(_ v: Int) { self.v = v }
    }
    access(all) resource R {
        access(all) var x: Int
        access(all) event ResourceDestroyed(id: UInt64 = self.uuid, x: Int = self.x)
        init(_ x: Int) { self.x = x }
        access(all) fun setX(_ x: Int) { self.x = x }
    }
    access(all) attachment AS for S {
        access(all) var n: Int
        access(all) let bx0: Int
        init(_ n: Int) { self.n = n; self.bx0 = base.x }
        access(all) fun incr() { self.n = self.n + 1 }
        access(all) view fun baseX(): Int { return base.x }
        access(all) view fun selfN(): Int { return self.n }
    }
    access(all) attachment BS for S {
        access(all) var n: Int
        access(all) let bx0: Int
        init(_ n: Int) { self.n = n; self.bx0 = base.x }
        access(all) fun incr() { self.n = self.n + 1 }
        access(all) view fun baseX(): Int { return base.x }
        access(all) view fun selfN(): Int { return self.n }
    }
    access(all) attachment AR for R {
        access(all) var n: Int
        access(all) let bx0: Int
        access(all) var inner: @Inner
        access(all) event ResourceDestroyed(bid: UInt64 = base.uuid, n: Int = self.n, bx: Int = base.x)
        init(_ n: Int) { self.n = n; self.bx0 = base.x; self.inner <- create Inner(n * 10) }
        access(all) fun incr() { self.n = self.n + 1 }
        access(all) view fun baseX(): Int { return base.x }
        access(all) view fun baseID(): UInt64 { return base.uuid }
        access(all) view fun selfN(): Int { return self.n }
    }
    access(all) attachment BR for R {
        access(all) var n: Int
        access(all) let bx0: Int
        access(all) event ResourceDestroyed(bid: UInt64 = base.uuid, n: Int = self.n, bx: Int = base.x)
        init(_ n: Int) { self.n = n; self.bx0 = base.x }
        access(all) fun incr() { self.n = self.n + 1 }
        access(all) view fun baseX(): Int { return base.x }
        access(all) view fun baseID(): UInt64 { return base.uuid }
        access(all) view fun selfN(): Int { return self.n }
    }
    access(all) resource Box {
        access(all) var r: @R?
        init(_ r: @R) { self.r <- r }
        access(all) fun take(): @R { let t <- self.r <- nil; return <- t! }
    }
    access(all) struct BoxS {
        access(all) let s: S
        init(_ s: S) { self.s = s }
    }
    access(all) fun passS(_ s: S): S { return s }
    access(all) fun mkR(_ x: Int): @R { return <- create R(x) }
    access(all) fun box(_ r: @R): @Box { return <- create Box(<-r) }
    access(all) fun pass(_ r: @R): @R { return <- r }
    access(all) fun attachAR(_ r: @R, _ n: Int): @R { return <- attach AR(n) to <-r }
    access(all) fun attachBR(_ r: @R, _ n: Int): @R { return <- attach BR(n) to <-r }
    access(all) fun removeAR(_ r: @R): @R { remove AR from r; return <- r }
    access(all) fun removeBR(_ r: @R): @R { remove BR from r; return <- r }
    access(all) fun kill(_ r: @R) { destroy r }
}
`
