package main

import (
	"cvh/lib"
)

// mirror: the generator's own bookkeeping of what the slots hold (generation bias and type names only)
type mirror struct {
	present [nslots]bool
	isRes   [nslots]bool
	atts    [nslots][2]bool
}

func (m *mirror) apply(o Op) {
	i := o.I
	switch o.Kind {
	case "Create":
		if !m.present[i] {
			m.present[i], m.isRes[i], m.atts[i] = true, o.Res, [2]bool{}
		}
	case "Attach":
		if m.present[i] && !m.atts[i][o.T] {
			m.atts[i][o.T] = true
		}
	case "Remove":
		if m.present[i] {
			m.atts[i][o.T] = false
		}
	case "Move":
		j := o.J
		if !m.present[i] {
			return
		}
		if m.isRes[i] {
			if i == j || !m.present[j] {
				p, a := m.isRes[i], m.atts[i]
				m.present[i] = false
				m.present[j], m.isRes[j], m.atts[j] = true, p, a
			}
		} else if i != j && !m.present[j] {
			m.present[j], m.isRes[j], m.atts[j] = true, false, m.atts[i]
		}
	case "Destroy":
		m.present[i] = false
	}
}

func genHistory(r *lib.Rng, n int) []Op {
	var m mirror
	var ops []Op
	pickSlot := func(wantPresent bool) int {
		var c []int
		for i := 0; i < nslots; i++ {
			if m.present[i] == wantPresent {
				c = append(c, i)
			}
		}
		if len(c) == 0 || r.Chance(1, 14) {
			return r.Intn(nslots)
		}
		return c[r.Intn(len(c))]
	}
	kinds := []string{"Create", "Create", "Create", "Attach", "Attach", "Attach", "Attach", "Attach", "Remove", "Remove",
		"Read", "Read", "Read", "Incr", "Incr", "SetX", "SetX", "Move", "Move", "Move", "Destroy", "ForEach", "ForEach"}
	for len(ops) < n {
		o := Op{Kind: kinds[r.Intn(len(kinds))], T: r.Intn(2), Route: r.Intn(len(routeNames)), N: int64(r.Intn(9) + 1)}
		anyPresent := m.present[0] || m.present[1] || m.present[2]
		if !anyPresent && o.Kind != "Create" && r.Chance(9, 10) {
			o.Kind = "Create"
		}
		switch o.Kind {
		case "Create":
			o.I = pickSlot(false)
			o.Res = r.Chance(3, 5)
		case "Move":
			o.I = pickSlot(true)
			o.J = pickSlot(false)
		case "Attach":
			o.I = pickSlot(true)
			// mostly a type that is not attached yet; sometimes a double attach
			if m.present[o.I] && m.atts[o.I][o.T] && r.Chance(2, 3) {
				o.T = 1 - o.T
			}
		case "Remove", "Read", "Incr", "SetX":
			o.I = pickSlot(true)
			if m.present[o.I] && !m.atts[o.I][o.T] && r.Chance(5, 6) {
				o.T = 1 - o.T
			}
		default:
			o.I = pickSlot(true)
		}
		if m.present[o.I] {
			o.IsRes = m.isRes[o.I]
		} else {
			o.IsRes = r.Bool()
		}
		if o.Kind == "Create" {
			o.IsRes = o.Res
		}
		// an early destroy of the only base makes the rest of the history trivial: keep destroys for the second half
		if o.Kind == "Destroy" && len(ops) < n/2 && r.Chance(2, 3) {
			continue
		}
		ops = append(ops, o)
		m.apply(o)
	}
	return ops
}

// corpus: hand-written histories run first on every run
func corpusHistories() [][]Op {
	res := func(k string, i int, t int, n int64, route int) Op {
		return Op{Kind: k, I: i, T: t, N: n, Route: route, IsRes: true}
	}
	str := func(k string, i int, t int, n int64, route int) Op {
		return Op{Kind: k, I: i, T: t, N: n, Route: route, IsRes: false}
	}
	return [][]Op{
		{ // resource: attach both, double attach fails, travel through every route, remove, destroy
			{Kind: "Create", I: 0, Res: true, N: 5, IsRes: true},
			res("Attach", 0, 0, 1, 0), res("Attach", 0, 1, 2, 1), res("Attach", 0, 1, 3, 2), res("Attach", 0, 0, 4, 0),
			res("Read", 0, 0, 0, 3), res("Read", 0, 1, 0, 4), res("Incr", 0, 0, 0, 0),
			{Kind: "Move", I: 0, J: 1, Route: 5, IsRes: true}, {Kind: "Move", I: 1, J: 2, Route: 1, IsRes: true},
			res("SetX", 2, 0, 70, 2), res("Read", 2, 0, 0, 5), {Kind: "ForEach", I: 2, IsRes: true},
			res("Remove", 2, 0, 0, 0), res("Remove", 2, 0, 0, 0), res("Read", 2, 0, 0, 0),
			res("Attach", 2, 0, 9, 4), {Kind: "Destroy", I: 2, IsRes: true}, res("Read", 2, 0, 0, 0),
		},
		{ // struct: attach copies, copies are independent, base binding follows the copy
			{Kind: "Create", I: 0, Res: false, N: 1},
			str("Attach", 0, 0, 4, 0), str("Attach", 0, 0, 5, 1), str("Attach", 0, 1, 6, 2),
			{Kind: "Move", I: 0, J: 1, Route: 3}, str("Incr", 1, 0, 0, 0), str("SetX", 1, 0, 50, 4),
			str("Read", 0, 0, 0, 0), str("Read", 1, 0, 0, 5), {Kind: "ForEach", I: 1}, str("Remove", 1, 1, 0, 0),
			{Kind: "ForEach", I: 1}, {Kind: "ForEach", I: 0}, {Kind: "Move", I: 0, J: 1, Route: 0}, {Kind: "Move", I: 0, J: 0, Route: 0},
			{Kind: "Destroy", I: 0}, str("Read", 0, 0, 0, 0), str("Read", 1, 0, 0, 0),
		},
		{ // operations on empty slots and occupied targets
			res("Read", 0, 0, 0, 0), res("Attach", 1, 0, 1, 0), res("Remove", 2, 1, 0, 0), {Kind: "Destroy", I: 0, IsRes: true},
			{Kind: "Create", I: 0, Res: true, N: 3, IsRes: true}, {Kind: "Create", I: 0, Res: true, N: 4, IsRes: true},
			{Kind: "Create", I: 1, Res: true, N: 6, IsRes: true}, {Kind: "Move", I: 0, J: 1, Route: 0, IsRes: true},
			res("Incr", 0, 0, 0, 0), res("Attach", 0, 0, 2, 3), res("Attach", 1, 0, 3, 5),
			{Kind: "Destroy", I: 0, IsRes: true}, {Kind: "Destroy", I: 1, IsRes: true},
		},
	}
}
