// Command c49: correspondence harness for C49 (attachments follow their lifecycle rules).
//
// Histories of operations (create, attach, remove, read through base[T], mutate the attachment, mutate the base after a
// move/copy, move/copy through six routes, destroy, forEachAttachment) are run, one transaction per operation and with
// every value going through account storage between operations, on the real runtime with both engines.  Logged
// observations, error classes and destroy events are written into Coq case files for evaluation by the model of
// coq/theories/C49/Model.v; engine agreement and a few structural facts are checked directly.
package main

import (
	"flag"
	"fmt"
	"os"
	"strings"

	"cvh/lib"
)

var (
	prop     = flag.String("prop", "C49", "property id")
	seed     = flag.Uint64("seed", 1, "seed")
	tier     = flag.String("tier", "quick", "quick|thorough")
	dir      = flag.String("dir", ".", "output directory")
	probeArg = flag.String("probe", "", "probe file")
	count    = flag.Int("n", 0, "number of generated histories (0 = by tier)")
	show     = flag.Bool("show", false, "print the transactions of the first generated history")
)

func main() {
	flag.Parse()
	if *probeArg != "" {
		probe(*probeArg)
		return
	}
	sum := &lib.Summary{}
	run(sum)
	sum.Write(*dir)
}

func run(sum *lib.Summary) {
	rng := lib.NewRng(*seed<<40 ^ 0x49c49c49)
	n := *count
	if n == 0 {
		n = 45
		if *tier == "thorough" {
			n = 1500
		}
	}
	cw := &lib.CaseWriter{
		Dir: *dir, Prefix: "cases_C49",
		Header:   "From CV Require Import C49.Cases.",
		ElemType: "list op * list (res (list Z) * list event)",
		CheckFn:  "check_case",
		PerFile:  40,
	}
	sum.Rule = "histories of 10-24 operations over 3 storage slots holding struct or resource bases with up to two attachment types " +
		"(one owning a nested resource): create, attach (6 routes), remove, read n/bx0/base.x/base.uuid through base[T], increment the attachment, " +
		"set base.x after a move/copy and read base.x through the attachment of the new and the old carrier, move/copy (6 routes), destroy, forEachAttachment; " +
		"one transaction per operation, every base goes through account storage between operations; both engines. " +
		"non-trivial = the history contains at least one successful attach followed by a later operation on that base; distinct = distinct history"
	var hists [][]Op
	hists = append(hists, corpusHistories()...)
	for i := 0; i < n; i++ {
		hists = append(hists, genHistory(rng, 10+rng.Intn(15)))
	}
	distinct := map[string]bool{}
	for hi, ops := range hists {
		if *show && hi == 3 {
			for _, o := range ops {
				fmt.Println("//", o.Coq())
				fmt.Println(o.tx())
			}
			os.Exit(0)
		}
		o0 := runHistory(ops, false)
		o1 := runHistory(ops, true)
		var opsCoq, outsCoq, descOps []string
		attached := false
		nontrivial := false
		for i, o := range ops {
			sum.Evaluations += 2
			sum.Count("op-" + o.Kind)
			if o0[i].Class != "" {
				sum.Count("err-" + o0[i].Class)
			} else if o.Kind == "Attach" {
				attached = true
			} else if attached {
				nontrivial = true
			}
			if len(o0[i].Events) > 0 {
				sum.Count("ops-with-events")
			}
			if !sameOut(o0[i], o1[i]) {
				sum.Fail("engine-divergence:"+o.Kind,
					fmt.Sprintf("interpreter and VM disagree at step %d (%s) of history %d: %+v vs %+v", i, o.Coq(), hi, o0[i], o1[i]),
					map[string]any{"history": coqOps(ops), "step": i, "transaction": o.tx(), "interpreter": o0[i], "vm": o1[i]})
			}
			// direct structural checks
			if o.Kind == "ForEach" && o0[i].Class == "" {
				seen := map[int64]bool{}
				for k := 0; k+1 < len(o0[i].Obs); k += 2 {
					if seen[o0[i].Obs[k]] {
						sum.Fail("two-attachments-of-one-type", fmt.Sprintf("forEachAttachment reports attachment type %d twice at step %d of history %d", o0[i].Obs[k], i, hi),
							map[string]any{"history": coqOps(ops), "step": i, "transaction": o.tx(), "observed": o0[i].Obs})
					}
					seen[o0[i].Obs[k]] = true
				}
			}
			if o.Kind == "Destroy" && o0[i].Class == "" && o.IsRes {
				ev := o0[i].Events
				if len(ev) == 0 || !strings.HasPrefix(ev[len(ev)-1], "EvBase") {
					sum.Fail("destroy-event-order", fmt.Sprintf("destroying a resource base did not end with the base's own destroy event at step %d of history %d: %v", i, hi, ev),
						map[string]any{"history": coqOps(ops), "step": i, "transaction": o.tx(), "events": ev})
				}
			}
			opsCoq = append(opsCoq, o.Coq())
			outsCoq = append(outsCoq, coqOut(o0[i]))
			descOps = append(descOps, fmt.Sprintf("%s => %s", o.Coq(), coqOut(o0[i])))
		}
		key := strings.Join(opsCoq, ";")
		if nontrivial && !distinct[key] {
			distinct[key] = true
			sum.DistinctNontrivial++
		}
		cw.Add("(["+strings.Join(opsCoq, "; ")+"],\n ["+strings.Join(outsCoq, "; ")+"])",
			map[string]any{"history": hi, "steps": descOps})
		if hi >= 3 {
			sum.Sample(map[string]any{"history": descOps})
		}
	}
	cw.Close()
	sum.CaseFiles = cw.Files
}

func coqOps(ops []Op) []string {
	var out []string
	for _, o := range ops {
		out = append(out, o.Coq())
	}
	return out
}
