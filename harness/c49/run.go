package main

import (
	"fmt"
	"sort"
	"strconv"
	"strings"

	"cvh/lib"

	"github.com/onflow/cadence"
	"github.com/onflow/cadence/common"
)

// StepOut is what one engine did with one operation of a history.
type StepOut struct {
	Class  string   // "" = transaction succeeded
	Obs    []int64  // logged observations (all log lines concatenated)
	Events []string // Coq terms of the emitted destroy events, in emission order
	Err    string
}

func parseInts(s string) []int64 {
	s = strings.Trim(s, "[] ")
	if s == "" {
		return nil
	}
	var out []int64
	for _, p := range strings.Split(s, ",") {
		n, err := strconv.ParseInt(strings.TrimSpace(p), 10, 64)
		if err != nil {
			return []int64{-999999}
		}
		out = append(out, n)
	}
	return out
}

func fieldInt(fields map[string]cadence.Value, name string) int64 {
	switch v := fields[name].(type) {
	case cadence.Int:
		return v.Big().Int64()
	case cadence.UInt64:
		return int64(v)
	}
	return -999999
}

func eventCoq(e cadence.Event) string {
	id := e.EventType.QualifiedIdentifier
	f := cadence.FieldsMappedByName(e)
	switch {
	case strings.HasSuffix(id, "C.Inner.ResourceDestroyed"):
		return fmt.Sprintf("EvInner %s %s", zl(fieldInt(f, "id")), zl(fieldInt(f, "v")))
	case strings.HasSuffix(id, "C.AR.ResourceDestroyed"):
		return fmt.Sprintf("EvAtt TA %s %s %s", zl(fieldInt(f, "bid")), zl(fieldInt(f, "n")), zl(fieldInt(f, "bx")))
	case strings.HasSuffix(id, "C.BR.ResourceDestroyed"):
		return fmt.Sprintf("EvAtt TB %s %s %s", zl(fieldInt(f, "bid")), zl(fieldInt(f, "n")), zl(fieldInt(f, "bx")))
	case strings.HasSuffix(id, "C.R.ResourceDestroyed"):
		return fmt.Sprintf("EvBase %s %s", zl(fieldInt(f, "id")), zl(fieldInt(f, "x")))
	}
	return ""
}

func classify(class string, err error) string {
	if err == nil {
		return ""
	}
	for e, i := err, 0; e != nil && i < 60; i++ {
		n := fmt.Sprintf("%T", e)
		switch {
		case strings.Contains(n, "ForceNilError"):
			return lib.ETypeMism
		case strings.Contains(n, "DuplicateAttachmentError"), strings.Contains(n, "OverwriteError"):
			return lib.EUserOther
		}
		u, ok := e.(interface{ Unwrap() error })
		if !ok {
			break
		}
		e = u.Unwrap()
	}
	if class == lib.ETypeMism || class == lib.EUserOther {
		// only the two expected error kinds map onto the model's classes
		return "Other:" + class
	}
	return class
}

// world: what the harness knows about the storage slots from the outcomes it observed (used to pick type names
// and to bias the generator; never used as an oracle)
type world struct {
	present [nslots]bool
	isRes   [nslots]bool
}

const nslots = 3

// runHistory executes the history on a fresh host with one engine.
func runHistory(ops []Op, vm bool) []StepOut {
	h := newHost(vm)
	var outs []StepOut
	for _, o := range ops {
		uuid0 := h.UUID
		out := h.RunTx(o.tx(), nil, []common.Address{addr1}, vm)
		so := StepOut{Class: classify(out.Class, out.Err)}
		if out.Err != nil {
			so.Err = out.Err.Error()
			// the uuid counter is part of the chain state: a reverted transaction does not consume uuids
			h.UUID = uuid0
		} else {
			for _, l := range out.Logs {
				so.Obs = append(so.Obs, parseInts(l)...)
			}
			for _, e := range out.Events {
				if c := eventCoq(e); c != "" {
					so.Events = append(so.Events, c)
				}
			}
		}
		outs = append(outs, so)
	}
	return outs
}

func sameOut(a, b StepOut) bool {
	if a.Class != b.Class || len(a.Obs) != len(b.Obs) || len(a.Events) != len(b.Events) {
		return false
	}
	for i := range a.Obs {
		if a.Obs[i] != b.Obs[i] {
			return false
		}
	}
	for i := range a.Events {
		if a.Events[i] != b.Events[i] {
			return false
		}
	}
	return true
}

func coqOut(s StepOut) string {
	var obs string
	if s.Class != "" {
		c := s.Class
		switch c {
		case lib.ETypeMism, lib.EUserOther:
		default:
			c = "Internal"
		}
		obs = "Err " + c
	} else {
		var p []string
		for _, x := range s.Obs {
			p = append(p, zl(x))
		}
		obs = "Ok [" + strings.Join(p, "; ") + "]"
	}
	return "(" + obs + ", [" + strings.Join(s.Events, "; ") + "])"
}

var _ = sort.Strings
