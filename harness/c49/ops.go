package main

import (
	"fmt"
	"strings"
)

// Op mirrors `op` of coq/theories/C49/Model.v.
type Op struct {
	Kind  string // Create Attach Remove Read Incr SetX Move Destroy ForEach
	I, J  int
	Res   bool // Create: resource (true) or struct
	T     int  // attachment type: 0 = TA (AS / AR), 1 = TB (BS / BR)
	N     int64
	Route int // 0 RVar 1 RArray 2 RDict 3 ROptional 4 RCall 5 RField
	// what the harness believes slot I holds (only used to pick the type names in the transaction text)
	IsRes bool
}

var routeNames = []string{"RVar", "RArray", "RDict", "ROptional", "RCall", "RField"}

func tidCoq(t int) string {
	if t == 0 {
		return "TA"
	}
	return "TB"
}

func zl(z int64) string {
	if z < 0 {
		return fmt.Sprintf("(%d)", z)
	}
	return fmt.Sprint(z)
}

func (o Op) Coq() string {
	switch o.Kind {
	case "Create":
		k := "KStruct"
		if o.Res {
			k = "KRes"
		}
		return fmt.Sprintf("OCreate %d %s %s", o.I, k, zl(o.N))
	case "Attach":
		return fmt.Sprintf("OAttach %d %s %s %s", o.I, tidCoq(o.T), zl(o.N), routeNames[o.Route])
	case "Remove":
		return fmt.Sprintf("ORemove %d %s", o.I, tidCoq(o.T))
	case "Read":
		return fmt.Sprintf("ORead %d %s %s", o.I, tidCoq(o.T), routeNames[o.Route])
	case "Incr":
		return fmt.Sprintf("OIncr %d %s", o.I, tidCoq(o.T))
	case "SetX":
		return fmt.Sprintf("OSetX %d %s %s %s", o.I, zl(o.N), tidCoq(o.T), routeNames[o.Route])
	case "Move":
		return fmt.Sprintf("OMove %d %d %s", o.I, o.J, routeNames[o.Route])
	case "Destroy":
		return fmt.Sprintf("ODestroy %d", o.I)
	case "ForEach":
		return fmt.Sprintf("OForEach %d", o.I)
	}
	panic(o.Kind)
}

func (o Op) String() string { return o.Coq() }

func attName(res bool, t int) string {
	n := "A"
	if t == 1 {
		n = "B"
	}
	if res {
		return "C." + n + "R"
	}
	return "C." + n + "S"
}

// routeCode moves (resource) or copies (struct) variable `from` into a new variable `to`
func routeCode(res bool, route int, from, to string) string {
	if res {
		switch route {
		case 0:
			return fmt.Sprintf("let %s <- %s", to, from)
		case 1:
			return fmt.Sprintf("let arr <- [<-%s]\n        let %s <- arr.removeFirst()\n        destroy arr", from, to)
		case 2:
			return fmt.Sprintf("let d: @{Int: C.R} <- {1: <-%s}\n        let %s <- d.remove(key: 1)!\n        destroy d", from, to)
		case 3:
			return fmt.Sprintf("var o: @C.R? <- %s\n        let %s <- o!", from, to)
		case 4:
			return fmt.Sprintf("let %s <- C.pass(<-%s)", to, from)
		default:
			return fmt.Sprintf("let b <- C.box(<-%s)\n        let %s <- b.take()\n        destroy b", from, to)
		}
	}
	switch route {
	case 0:
		return fmt.Sprintf("var %s = %s", to, from)
	case 1:
		return fmt.Sprintf("let arr = [%s]\n        var %s = arr[0]", from, to)
	case 2:
		return fmt.Sprintf("let d = {1: %s}\n        var %s = d[1]!", from, to)
	case 3:
		return fmt.Sprintf("let o: C.S? = %s\n        var %s = o!", from, to)
	case 4:
		return fmt.Sprintf("var %s = C.passS(%s)", to, from)
	default:
		return fmt.Sprintf("let b = C.BoxS(%s)\n        var %s = b.s", from, to)
	}
}

// tx renders the transaction that performs the operation.
func (o Op) tx() string {
	res := o.IsRes
	ty, mv, bind := "C.S", "", "var"
	if res {
		ty, mv, bind = "@C.R", "<-", "let"
	}
	slot := func(i int) string { return fmt.Sprintf("/storage/s%d", i) }
	op := "="
	if res {
		op = "<-"
	}
	load := fmt.Sprintf("%s v0 %s acct.storage.load<%s>(from: %s)!", bind, op, ty, slot(o.I))
	save := func(v string, i int) string { return fmt.Sprintf("acct.storage.save(%s%s, to: %s)", mv, v, slot(i)) }
	a := attName(res, o.T)
	readObs := func(v string, full bool) string {
		id := "0"
		if res {
			id = "Int(a.baseID())"
		}
		if full {
			return fmt.Sprintf("if let a = %s[%s] { log([1, a.n, a.bx0, a.baseX(), %s]) } else { log([0]) }", v, a, id)
		}
		return fmt.Sprintf("if let a = %s[%s] { log([1, a.baseX()]) } else { log([0]) }", v, a)
	}
	var body []string
	switch o.Kind {
	case "Create":
		if o.Res {
			body = []string{fmt.Sprintf("let v0 <- C.mkR(%d)", o.N), "log([Int(v0.uuid)])", fmt.Sprintf("acct.storage.save(<-v0, to: %s)", slot(o.I))}
		} else {
			body = []string{fmt.Sprintf("let v0 = C.S(%d)", o.N), "log([0])", fmt.Sprintf("acct.storage.save(v0, to: %s)", slot(o.I))}
		}
	case "Attach":
		body = []string{load, routeCode(res, o.Route, "v0", "v1"),
			fmt.Sprintf("%s v2 %s attach %s(%d) to %sv1", bind, op, a, o.N, mv), "log([] as [Int])", save("v2", o.I)}
	case "Remove":
		body = []string{load, fmt.Sprintf("remove %s from v0", a), "log([] as [Int])", save("v0", o.I)}
	case "Read":
		body = []string{load, routeCode(res, o.Route, "v0", "v1"), readObs("v1", true), save("v1", o.I)}
	case "Incr":
		body = []string{load, fmt.Sprintf("v0[%s]!.incr()", a), fmt.Sprintf("log([v0[%s]!.n])", a), save("v0", o.I)}
	case "SetX":
		body = []string{load, fmt.Sprintf("let before = v0[%s]?.n", a), routeCode(res, o.Route, "v0", "v1"),
			fmt.Sprintf("v1.setX(%d)", o.N), readObs("v1", false)}
		if !res {
			body = append(body, readObs("v0", false))
		}
		body = append(body, save("v1", o.I))
	case "Move":
		body = []string{load, routeCode(res, o.Route, "v0", "v1"), "log([] as [Int])", save("v1", o.J)}
		if !res {
			body = append(body, save("v0", o.I))
		}
	case "Destroy":
		if res {
			body = []string{load, "log([] as [Int])", "destroy v0"}
		} else {
			body = []string{load, "log([] as [Int])"}
		}
	case "ForEach":
		anyT := "&AnyStructAttachment"
		if res {
			anyT = "&AnyResourceAttachment"
		}
		body = []string{load, "let out: [Int] = []",
			fmt.Sprintf("v0.forEachAttachment(fun (a: %s) {\n            if let x = a as? &%s { out.append(0); out.append(x.n) }\n            if let y = a as? &%s { out.append(1); out.append(y.n) }\n        })",
				anyT, attName(res, 0), attName(res, 1)),
			"log(out)", save("v0", o.I)}
	}
	return "import C from 0x0000000000000001\ntransaction {\n    prepare(acct: auth(Storage) &Account) {\n        " +
		strings.Join(body, "\n        ") + "\n    }\n}\n"
}
