package main

import (
	"fmt"

	"cvh/lib"

	"github.com/onflow/cadence"
	"github.com/onflow/cadence/common"
	"github.com/onflow/cadence/errors"
	"github.com/onflow/cadence/runtime"
)

const contract = `
access(all) contract C {
  access(all) enum En: UInt8 { access(all) case a; access(all) case b }
  access(all) struct S0 { access(all) let id: Int; init(id: Int) { self.id = id } }
}`

func main() {
	h := lib.NewHost()
	addr := common.MustBytesToAddress([]byte{1})
	fmt.Println(h.Deploy(addr, "C", contract, false).Err)
	en := func(fields string) string {
		return `{"type":"Enum","value":{"id":"A.0000000000000001.C.En","fields":[` + fields + `]}}`
	}
	f := func(name, v string) string { return `{"name":"` + name + `","value":` + v + `}` }
	u8 := func(n int) string { return fmt.Sprintf(`{"type":"UInt8","value":"%d"}`, n) }
	str := `{"type":"String","value":"a"}`
	u16 := `{"type":"UInt16","value":"1"}`
	arr := `{"type":"Array","value":[{"type":"UInt8","value":"1"}]}`
	dict := func(k string) string {
		return `{"type":"Dictionary","value":[{"key":` + k + `,"value":{"type":"Int","value":"1"}}]}`
	}
	keys := []string{
		en(f("rawValue", u8(0))), en(f("rawValue", u8(5))), en(""), en(f("rawValue", str)), en(f("rawValue", u16)),
		en(f("rawValue", arr)), en(f("rawValue", u8(1)) + "," + f("x", u8(1))), en(f("rawValue", u8(1)) + "," + f("rawValue", u8(0))),
		en(f("x", u8(1))), `{"type":"Struct","value":{"id":"A.0000000000000001.C.En","fields":[` + f("rawValue", u8(0)) + `]}}`,
		`{"type":"Struct","value":{"id":"A.0000000000000001.C.S0","fields":[` + f("id", `{"type":"Int","value":"1"}`) + `]}}`,
	}
	ctr := byte(0)
	run := func(pt, arg string) {
		for _, vm := range []bool{false, true} {
			ctr++
			var loc common.ScriptLocation
			loc[0] = ctr
			loc[31] = 7
			src := fmt.Sprintf("import C from 0x1\naccess(all) fun main(x: %s): String { return x.getType().identifier }", pt)
			var v cadence.Value
			var err error
			func() {
				defer func() {
					if r := recover(); r != nil {
						err = fmt.Errorf("PANIC %v", r)
					}
				}()
				v, err = h.RT.ExecuteScript(runtime.Script{Source: []byte(src), Arguments: [][]byte{[]byte(arg)}},
					runtime.Context{Interface: h.Iface, Location: loc, UseVM: vm})
			}()
			cls := ""
			if err != nil {
				cls = fmt.Sprintf("%s user=%v internal=%v", lib.ClassifyRuntimeError(err), errors.IsUserError(err), errors.IsInternalError(err))
			}
			msg := fmt.Sprint(err)
			if len(msg) > 230 {
				msg = msg[:230]
			}
			fmt.Printf("%-18s %-70.70s vm=%v => %v | %s | %q\n", pt, arg[60:], vm, v, cls, msg)
		}
	}
	for _, k := range keys {
		run("{C.En: Int}", dict(k))
	}
	for _, k := range keys {
		run("AnyStruct", dict(k))
	}
	for _, k := range keys[:9] {
		run("C.En", k)
	}
	run("{HashableStruct: Int}", dict(keys[3]))
	run("[C.En]", `{"type":"Array","value":[`+keys[3]+`]}`)
}
