// Command c02: correspondence + direct-oracle harness for C02 (resources are never duplicated
// or lost at run time). Generated multi-transaction histories are run on the real runtime in
// both engines; the observations (uuids handed out, ResourceDestroyed events, committed storage
// read back by a script, logs, error class) are checked directly against the conservation rule,
// against the Go rendering of the model, and written as Coq cases for the Coq model.
package main

import (
	"flag"
	"fmt"
	"os"
	"strings"

	"cvh/c02gen"
	"cvh/lib"

	"github.com/onflow/cadence/common"
)

var (
	prop   = flag.String("prop", "C02", "property id")
	seed   = flag.Uint64("seed", 1, "seed")
	tier   = flag.String("tier", "quick", "quick|thorough")
	dir    = flag.String("dir", ".", "output directory")
	corpus = flag.String("corpus", "", "corpus directory")
	only   = flag.String("only", "", "child mode: run only this corpus file")
	probe  = flag.String("probe", "", "file with transactions separated by lines of ---")
	mkcorp = flag.String("mkcorpus", "", "write the hand-picked corpus histories to this directory and exit")
	show   = flag.Int("show", 0, "print this many generated histories and exit")
)

func main() {
	flag.Parse()
	if *probe != "" {
		runProbe(*probe)
		return
	}
	if *mkcorp != "" {
		if err := c02gen.WriteCorpus(*mkcorp, *prop); err != nil {
			fmt.Fprintln(os.Stderr, err)
			os.Exit(1)
		}
		return
	}
	if *show > 0 {
		rng := lib.NewRng(*seed)
		for i := 0; i < *show; i++ {
			g := c02gen.NewGen(rng, c02gen.WeightsC02, 1)
			h := g.GenHistory(2+rng.Intn(5), 18)
			for j, tx := range h.Txs {
				fmt.Printf("=== history %d tx %d\n%s", i, j, tx.Source())
			}
			fmt.Println(c02gen.CoqHistory(h))
		}
		return
	}
	c02gen.RunCheck(c02gen.Config{
		Prop: *prop, Seed: *seed, Tier: *tier, Dir: *dir, CorpusDir: *corpus, Only: *only,
		W: c02gen.WeightsC02,
		Rule: "a case = one generated history of 2-6 transactions (4-18 statements each, plus the statements that consume " +
			"what is left) run on a fresh host in one engine (every history runs in both); statements create resources of a type with and " +
			"a type without destruction event and move them through variables, optional fields, array slots, dictionary entries " +
			"(append/insert/remove/second-value/force-assign/swap, directly and through methods called on references), " +
			"storage save/load, and destroy them; observables per transaction: error class, uuids handed out, logs, " +
			"ResourceDestroyed events, committed storage read back by a script. Every transaction is checked (1) directly against " +
			"the conservation equations on the observations alone, (2) against the Go rendering of the model, (3) by the Coq model. " +
			"non-trivial = the history nests resources at least 2 deep and destroys or stores at least 3 resources in successful transactions; " +
			"distinct = distinct source text",
		Nontrivial: func(h *c02gen.History) bool { return h.MaxDepth >= 2 && h.Destroyed+h.Stored >= 3 },
	})
}

func runProbe(file string) {
	b, err := os.ReadFile(file)
	if err != nil {
		panic(err)
	}
	for _, vm := range []bool{false, true} {
		h := lib.NewHost()
		addr := common.MustBytesToAddress([]byte{1})
		o := h.Deploy(addr, "C", c02gen.Contract, vm)
		fmt.Printf("== vm=%v deploy err=%.1500v\n", vm, o.Err)
		for i, src := range strings.Split(string(b), "\n---\n") {
			u0 := h.UUID
			var o lib.Outcome
			if strings.Contains(src, "fun main") {
				o = h.RunScript(src, nil, vm)
			} else {
				o = h.RunTx(src, nil, []common.Address{addr}, vm)
			}
			fmt.Printf("-- tx %d vm=%v class=%q mine=%q uuids=%d value=%v\n", i, vm, o.Class, c02gen.ClassifyErr(o.Err), h.UUID-u0, o.Value)
			if o.Err != nil {
				es := o.Err.Error()
				if len(es) > 4000 {
					es = es[:4000]
				}
				fmt.Printf("   err: %s\n", es)
			}
			if o.Panic != nil {
				fmt.Printf("   PANIC: %v\n", o.Panic)
			}
			for _, l := range o.Logs {
				fmt.Printf("   log %s\n", l)
			}
			for _, e := range o.Events {
				fmt.Printf("   event %s\n", e.String())
			}
		}
	}
}
