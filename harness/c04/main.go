// Command c04: correspondence harness for C04 (references to moved or destroyed resources
// become unusable). Same generator, model and runner as C02 (package c02gen), biased towards
// taking references (to outer and nested resources, through fields, array elements, dictionary
// values, optionals, casts, storage) before moves and using them afterwards.
package main

import (
	"flag"

	"cvh/c02gen"
)

var (
	prop   = flag.String("prop", "C04", "property id")
	seed   = flag.Uint64("seed", 1, "seed")
	tier   = flag.String("tier", "quick", "quick|thorough")
	dir    = flag.String("dir", ".", "output directory")
	corpus = flag.String("corpus", "", "corpus directory")
	only   = flag.String("only", "", "child mode: run only this corpus file")
)

func main() {
	flag.Parse()
	c02gen.RunCheck(c02gen.Config{
		Prop: *prop, Seed: *seed + 1000003, Tier: *tier, Dir: *dir, CorpusDir: *corpus, Only: *only,
		W: c02gen.WeightsC04,
		Rule: "a case = one generated history of 2-6 transactions run on a fresh host in one engine (every history runs in both); " +
			"statements take ephemeral references to resources in variables and to resources nested in them (optional field, array " +
			"element, dictionary value; from owned values and by stepping through other references; unwrap, as!/as? casts) and storage " +
			"references (borrow), then move / swap / second-value-transfer / nest / un-nest / save / load / destroy resources along other " +
			"paths (directly and through methods called on references), then use the references (field read, method call, uuid, " +
			"lengths, whole-tree rendering, further step, cast, mutation through the reference). About 40% of the transactions end in a " +
			"statement chosen to fail, mostly a use of a reference the model says is invalidated. Observables per transaction: error class " +
			"(InvalidatedResourceReferenceError exactly when the model says), logged values, events, uuids, committed storage; compared " +
			"with the Go rendering of the model and with the Coq model. non-trivial = the history uses a reference after a move/destroy of " +
			"its target (invalidated use) or nests at least 2 deep with references taken; distinct = distinct source text",
		Nontrivial: func(h *c02gen.History) bool {
			return h.InvalidUses > 0 || (h.MaxDepth >= 2 && h.Kinds["refStep"]+h.Kinds["refVar"] > 0)
		},
	})
}
