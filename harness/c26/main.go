// Command c26: correspondence harness for C26 (contract deployment / update / removal lifecycle).
// Histories of contracts.add / update / tryUpdate / remove / get / borrow / names calls over two
// accounts and three contract names, with generated sources of several validity classes, run as
// real transactions (and observing scripts) on lib.Host in both engines. Per-operation results,
// AccountContract* events and the host-level code map are written as Coq cases and also compared
// with an independent Go rendering of the lifecycle specification.
package main

import (
	"crypto/sha3"
	"encoding/hex"
	"flag"
	"fmt"
	"os"
	"sort"
	"strings"

	"cvh/lib"

	"github.com/onflow/cadence"
	"github.com/onflow/cadence/common"
	cerrors "github.com/onflow/cadence/errors"
	"github.com/onflow/cadence/stdlib"
)

var (
	prop = flag.String("prop", "C26", "property id")
	seed = flag.Uint64("seed", 1, "seed")
	tier = flag.String("tier", "quick", "quick|thorough")
	dir  = flag.String("dir", ".", "output directory")
)

func main() {
	flag.Parse()
	sum := &lib.Summary{}
	if *prop != "C26" {
		fmt.Fprintln(os.Stderr, "unknown prop", *prop)
		os.Exit(2)
	}
	c26(sum)
	sum.Write(*dir)
}

// ---------------------------------------------------------------- sources

var classNames = []string{"SValid", "SInitPanics", "STypeError", "SParseError", "SNoContract", "STwoContracts"}

const (
	cValid = iota
	cInitPanics
	cTypeError
	cParseError
	cNoContract
	cTwoContracts
)

type Source struct {
	Class, Decl, Shape, Ver int
}

var shapeFields = []string{
	"access(all) var a: Int",
	"access(all) var a: Int\naccess(all) var b: Int",
	"access(all) var a: String",
	"",
	"access(all) var a: Int\naccess(all) enum E: UInt8 { access(all) case x }",
	"access(all) var a: Int\naccess(all) enum E: UInt8 { access(all) case x\naccess(all) case y }",
	"access(all) var a: Int\naccess(all) struct S {}",
}
var shapeInit = []string{"self.a = 1", "self.a = 1\nself.b = 2", "self.a = \"s\"", "", "self.a = 1", "self.a = 1", "self.a = 1"}

const nShapes = 7

func (s Source) Text() string {
	name := fmt.Sprintf("C%d", s.Decl)
	head := fmt.Sprintf("// v%d\n", s.Ver)
	switch s.Class {
	case cValid:
		return head + fmt.Sprintf("access(all) contract %s {\n%s\naccess(all) fun v(): Int { return %d }\ninit() {\n%s\n}\n}", name, shapeFields[s.Shape], s.Ver, shapeInit[s.Shape])
	case cInitPanics:
		return head + fmt.Sprintf("access(all) contract %s {\n%s\naccess(all) fun v(): Int { return %d }\ninit() {\n%s\npanic(\"no\")\n}\n}", name, shapeFields[s.Shape], s.Ver, shapeInit[s.Shape])
	case cTypeError:
		return head + fmt.Sprintf("access(all) contract %s {\n%s\naccess(all) fun v(): Int { return \"s\" }\ninit() {\n%s\n}\n}", name, shapeFields[s.Shape], shapeInit[s.Shape])
	case cParseError:
		return head + fmt.Sprintf("access(all) contract %s {\n%s\n", name, shapeFields[s.Shape])
	case cNoContract:
		return head + fmt.Sprintf("// no contract %s shape %d\n", name, s.Shape)
	default:
		return head + fmt.Sprintf("access(all) contract %s {}\naccess(all) contract %sb {}\n// shape %d", name, name, s.Shape)
	}
}

func (s Source) Coq() string {
	return fmt.Sprintf("(mkSrc %s %d %d %d)", classNames[s.Class], s.Decl, s.Shape, s.Ver)
}

// registries: code text / code hash -> source
var byText = map[string]Source{}
var byHash = map[string]Source{}

func register(s Source) {
	t := s.Text()
	byText[t] = s
	h := sha3.Sum256([]byte(t))
	byHash[hex.EncodeToString(h[:])] = s
}

// ---------------------------------------------------------------- operations

type Op struct {
	K   string // OAdd OUpdate OTryUpdate ORemove OGet OBorrow ONames OPanic
	A   int
	N   int
	Src Source
}

func (o Op) Coq() string {
	switch o.K {
	case "OAdd", "OUpdate", "OTryUpdate":
		return fmt.Sprintf("%s %d %d %s", o.K, o.A, o.N, o.Src.Coq())
	case "ORemove", "OGet", "OBorrow":
		return fmt.Sprintf("%s %d %d", o.K, o.A, o.N)
	case "ONames":
		return fmt.Sprintf("ONames %d", o.A)
	}
	return "OPanic"
}

// Cadence statement block; acct is the expression denoting the account (signer reference in
// transactions, getAccount(..) in scripts)
func (o Op) Cadence(acct string) string {
	name := fmt.Sprintf("\"C%d\"", o.N)
	code := "\"" + hex.EncodeToString([]byte(o.Src.Text())) + "\".decodeHex()"
	switch o.K {
	case "OAdd":
		return fmt.Sprintf("%s.contracts.add(name: %s, code: %s)\nlog(\"u\")", acct, name, code)
	case "OUpdate":
		return fmt.Sprintf("%s.contracts.update(name: %s, code: %s)\nlog(\"u\")", acct, name, code)
	case "OTryUpdate":
		return fmt.Sprintf("let r = %s.contracts.tryUpdate(name: %s, code: %s)\nlog(r.deployedContract != nil ? \"b:true\" : \"b:false\")", acct, name, code)
	case "ORemove":
		return fmt.Sprintf("if let dc = %s.contracts.remove(name: %s) {\nlog(\"c:\".concat(String.encodeHex(dc.code)))\n} else { log(\"n\") }", acct, name)
	case "OGet":
		return fmt.Sprintf("if let dc = %s.contracts.get(name: %s) {\nlog(\"c:\".concat(String.encodeHex(dc.code)))\n} else { log(\"n\") }", acct, name)
	case "OBorrow":
		return fmt.Sprintf("log(%s.contracts.borrow<&AnyStruct>(name: %s) != nil ? \"b:true\" : \"b:false\")", acct, name)
	case "ONames":
		return fmt.Sprintf("var s = \"l:\"\nfor n in %s.contracts.names { s = s.concat(n).concat(\",\") }\nlog(s)", acct)
	}
	return "panic(\"abort\")"
}

var signers = []common.Address{common.MustBytesToAddress([]byte{1}), common.MustBytesToAddress([]byte{2})}

func txSource(ops []Op) string {
	var sb strings.Builder
	sb.WriteString("transaction {\nprepare(s1: auth(Contracts) &Account, s2: auth(Contracts) &Account) {\n")
	for _, o := range ops {
		sb.WriteString("if true {\n" + o.Cadence(fmt.Sprintf("s%d", o.A)) + "\n}\n")
	}
	sb.WriteString("}\n}\n")
	return sb.String()
}

func scriptSource(ops []Op) string {
	var sb strings.Builder
	sb.WriteString("access(all) fun main() {\n")
	for _, o := range ops {
		sb.WriteString("if true {\n" + o.Cadence(fmt.Sprintf("getAccount(0x%d)", o.A)) + "\n}\n")
	}
	sb.WriteString("}\n")
	return sb.String()
}

// the observing script: every read of every account and name
func observeOps() []Op {
	var ops []Op
	for a := 1; a <= 2; a++ {
		ops = append(ops, Op{K: "ONames", A: a})
		for n := 0; n < 3; n++ {
			ops = append(ops, Op{K: "OGet", A: a, N: n}, Op{K: "OBorrow", A: a, N: n})
		}
	}
	return ops
}

// ---------------------------------------------------------------- execution

type Tx struct {
	Ops     []Op
	Script  bool
	Results []string
	Events  []string
	Failed  bool
	Bad     string
}

func unwrapFind(err error, f func(error) bool) bool {
	for i := 0; err != nil && i < 60; i++ {
		if f(err) {
			return true
		}
		u, ok := err.(interface{ Unwrap() error })
		if !ok {
			return false
		}
		err = u.Unwrap()
	}
	return false
}

type goRuntimeError interface {
	error
	RuntimeError()
}

func failClass(err error) string {
	cls := ""
	crash := false
	unwrapFind(err, func(e error) bool {
		if _, ok := e.(goRuntimeError); ok {
			crash = true
			return true
		}
		if cls != "" {
			return false
		}
		switch e.(type) {
		case *stdlib.InvalidContractDeploymentError:
			cls = "FDeploy"
		case *stdlib.ContractRemovalError:
			cls = "FRemoval"
		case *stdlib.PanicError:
			cls = "FPanic"
		case cerrors.DefaultUserError:
			cls = "FUser"
		case *cerrors.DefaultUserError:
			cls = "FUser"
		}
		return false
	})
	if crash {
		return "FCrash"
	}
	if cerrors.IsInternalError(err) {
		if strings.Contains(err.Error(), "runtime error:") {
			return "FCrash"
		}
		return "FInternal"
	}
	return cls
}

func parseResult(line string) (string, bool) {
	line = strings.Trim(line, "\"")
	switch {
	case line == "u":
		return "RUnit", true
	case line == "n":
		return "RNone", true
	case line == "b:true":
		return "(RBool true)", true
	case line == "b:false":
		return "(RBool false)", true
	case strings.HasPrefix(line, "l:"):
		var ids []int
		for _, p := range strings.Split(line[2:], ",") {
			if p == "" {
				continue
			}
			var n int
			if _, err := fmt.Sscanf(p, "C%d", &n); err != nil {
				return "", false
			}
			ids = append(ids, n)
		}
		sort.Ints(ids)
		parts := make([]string, len(ids))
		for i, v := range ids {
			parts[i] = fmt.Sprint(v)
		}
		return "(RNames [" + strings.Join(parts, ";") + "])", true
	case strings.HasPrefix(line, "c:"):
		b, err := hex.DecodeString(line[2:])
		if err != nil {
			return "", false
		}
		s, ok := byText[string(b)]
		if !ok {
			return "", false
		}
		return "(RCode " + s.Coq() + ")", true
	}
	return "", false
}

func parseEvent(e cadence.Event) (string, bool) {
	f := e.FieldsMappedByName()
	name := strings.TrimPrefix(e.EventType.QualifiedIdentifier, "flow.")
	ctor := map[string]string{"AccountContractAdded": "EvAdded", "AccountContractUpdated": "EvUpdated", "AccountContractRemoved": "EvRemoved"}[name]
	if ctor == "" {
		return "", false
	}
	var a, n int
	if _, err := fmt.Sscanf(f["address"].String(), "0x%x", &a); err != nil {
		return "", false
	}
	if _, err := fmt.Sscanf(strings.Trim(f["contract"].String(), "\""), "C%d", &n); err != nil {
		return "", false
	}
	arr, ok := f["codeHash"].(cadence.Array)
	if !ok {
		return "", false
	}
	hb := make([]byte, 0, 32)
	for _, v := range arr.Values {
		u, ok := v.(cadence.UInt8)
		if !ok {
			return "", false
		}
		hb = append(hb, byte(u))
	}
	s, ok := byHash[hex.EncodeToString(hb)]
	if !ok {
		return "", false
	}
	return fmt.Sprintf("%s %d %d %s", ctor, a, n, s.Coq()), true
}

func firstLine(s string) string {
	s = strings.TrimPrefix(s, "Execution failed:\n")
	if i := strings.Index(s, "\n"); i >= 0 {
		s = s[:i]
	}
	if len(s) > 300 {
		s = s[:300]
	}
	return s
}

// run one transaction (or script); the host discards code updates of a failed transaction and
// never keeps checked programs across executions
func runTx(h *lib.Host, vm bool, ops []Op, script bool) *Tx {
	t := &Tx{Ops: ops, Script: script}
	saved := map[common.AddressLocation][]byte{}
	for k, v := range h.Codes {
		saved[k] = v
	}
	// the ledger is transactional too (a failure during commit must leave no registers behind)
	regs := map[string][]byte{}
	for k, v := range h.Ledger.StoredValues {
		regs[k] = v
	}
	idx := map[string]uint64{}
	for k, v := range h.Ledger.StorageIndices {
		idx[k] = v
	}
	h.Iface.Programs = nil
	var o lib.Outcome
	if script {
		o = h.RunScript(scriptSource(ops), nil, vm)
	} else {
		o = h.RunTx(txSource(ops), nil, signers, vm)
	}
	if o.Panic != nil {
		t.Bad = fmt.Sprintf("Go panic escaped the runtime: %v", o.Panic)
		return t
	}
	for _, l := range o.Logs {
		r, ok := parseResult(l)
		if !ok {
			t.Bad = "cannot interpret result line " + l
			return t
		}
		t.Results = append(t.Results, r)
	}
	for _, e := range o.Events {
		ev, ok := parseEvent(e)
		if !ok {
			t.Bad = "cannot interpret event " + e.String()
			return t
		}
		t.Events = append(t.Events, ev)
	}
	if o.Err != nil {
		t.Failed = true
		for k := range h.Codes {
			delete(h.Codes, k)
		}
		for k, v := range saved {
			h.Codes[k] = v
		}
		for k := range h.Ledger.StoredValues {
			delete(h.Ledger.StoredValues, k)
		}
		for k, v := range regs {
			h.Ledger.StoredValues[k] = v
		}
		for k := range h.Ledger.StorageIndices {
			delete(h.Ledger.StorageIndices, k)
		}
		for k, v := range idx {
			h.Ledger.StorageIndices[k] = v
		}
		cls := failClass(o.Err)
		if cls == "" {
			t.Bad = fmt.Sprintf("failed with an error outside the modelled classes: %s", firstLine(o.Err.Error()))
			return t
		}
		t.Results = append(t.Results, "(RFail "+cls+")")
		if len(t.Results) > len(ops)+1 {
			t.Bad = "more results than operations"
		}
		return t
	}
	if len(t.Results) != len(ops) {
		t.Bad = fmt.Sprintf("%d results for %d operations", len(t.Results), len(ops))
	}
	return t
}

func hostCodes(h *lib.Host) (string, any) {
	var accts []string
	desc := map[string][]string{}
	for a := 1; a <= 2; a++ {
		var items []string
		for n := 0; n < 3; n++ {
			loc := common.AddressLocation{Address: signers[a-1], Name: fmt.Sprintf("C%d", n)}
			code, ok := h.Codes[loc]
			if !ok || len(code) == 0 {
				continue
			}
			s, known := byText[string(code)]
			if !known {
				items = append(items, fmt.Sprintf("(%d, mkSrc SValid (-1) (-1) (-1))", n))
				continue
			}
			items = append(items, fmt.Sprintf("(%d, %s)", n, s.Coq()))
			desc[fmt.Sprintf("0x%d", a)] = append(desc[fmt.Sprintf("0x%d", a)], fmt.Sprintf("C%d=%s", n, s.Coq()))
		}
		accts = append(accts, fmt.Sprintf("(%d, [%s])", a, strings.Join(items, "; ")))
	}
	// any contract outside the name universe is unexpected
	for loc := range h.Codes {
		var n int
		if _, err := fmt.Sscanf(loc.Name, "C%d", &n); err != nil || n > 2 {
			desc["unexpected"] = append(desc["unexpected"], loc.String())
		}
	}
	return "[" + strings.Join(accts, "; ") + "]", desc
}

type History struct {
	Name  string
	Txs   []*Tx
	Codes string
	CDesc any
}

func (h *History) coq(vm bool) string {
	txs := make([]string, len(h.Txs))
	obs := make([]string, len(h.Txs))
	for i, t := range h.Txs {
		ops := make([]string, len(t.Ops))
		for j, o := range t.Ops {
			ops[j] = o.Coq()
		}
		txs[i] = "[" + strings.Join(ops, "; ") + "]"
		obs[i] = "([" + strings.Join(t.Results, "; ") + "], [" + strings.Join(t.Events, "; ") + "])"
	}
	b := "false"
	if vm {
		b = "true"
	}
	return "(" + b + ",\n [" + strings.Join(txs, ";\n  ") + "],\n [" + strings.Join(obs, ";\n  ") + "],\n " + h.Codes + ")"
}

func (h *History) desc(vm bool) map[string]any {
	var txs []any
	for _, t := range h.Txs {
		var ops []string
		for _, o := range t.Ops {
			ops = append(ops, o.Coq())
		}
		txs = append(txs, map[string]any{"ops": ops, "script": t.Script, "observed_results": t.Results, "observed_events": t.Events, "failed": t.Failed})
	}
	return map[string]any{"history": h.Name, "vm": vm, "transactions": txs, "host_codes_after": h.CDesc}
}

// ---------------------------------------------------------------- independent Go oracle (specification)

type key struct{ a, n int }

type spec struct {
	dep     map[key]Source
	added   map[key]bool
	touched map[key]bool
}

func compat(o, n int) bool {
	if o == n {
		return true
	}
	switch o {
	case 0:
		return n == 3 || n >= 4
	case 1:
		return n == 0 || n >= 3
	case 2:
		return n == 3
	case 4:
		return n == 5
	}
	return false
}

func deployable(n int, s Source, old *Source) string {
	switch s.Class {
	case cParseError, cTypeError:
		return "FDeploy"
	case cNoContract, cTwoContracts:
		return "FUser"
	}
	if s.Decl != n {
		return "FUser"
	}
	if old != nil && !compat(old.Shape, s.Shape) {
		return "FDeploy"
	}
	return ""
}

// step returns the predicted result term; state is updated in place
func (sp *spec) step(o Op) string {
	k := key{o.A, o.N}
	cur, present := sp.dep[k]
	switch o.K {
	case "OAdd":
		if present || sp.touched[k] {
			return "(RFail FUser)"
		}
		if f := deployable(o.N, o.Src, nil); f != "" {
			return "(RFail " + f + ")"
		}
		if o.Src.Class == cInitPanics {
			return "(RFail FPanic)"
		}
		sp.dep[k] = o.Src
		sp.added[k], sp.touched[k] = true, true
		return "RUnit"
	case "OUpdate", "OTryUpdate":
		f := ""
		if !present {
			f = "FUser"
		} else {
			f = deployable(o.N, o.Src, &cur)
		}
		if f == "" {
			sp.dep[k] = o.Src
		}
		if o.K == "OTryUpdate" {
			if f == "" {
				return "(RBool true)"
			}
			return "(RBool false)"
		}
		if f != "" {
			return "(RFail " + f + ")"
		}
		return "RUnit"
	case "ORemove":
		if !present {
			return "RNone"
		}
		if cur.Shape == 4 || cur.Shape == 5 {
			return "(RFail FRemoval)"
		}
		delete(sp.dep, k)
		sp.touched[k] = true
		return "(RCode " + cur.Coq() + ")"
	case "OGet":
		if !present {
			return "RNone"
		}
		return "(RCode " + cur.Coq() + ")"
	case "OBorrow":
		if present && !sp.added[k] {
			return "(RBool true)"
		}
		return "(RBool false)"
	case "ONames":
		var parts []string
		for n := 0; n < 3; n++ {
			if _, ok := sp.dep[key{o.A, n}]; ok {
				parts = append(parts, fmt.Sprint(n))
			}
		}
		return "(RNames [" + strings.Join(parts, ";") + "])"
	}
	return "(RFail FPanic)"
}

func (sp *spec) clone() *spec {
	c := &spec{dep: map[key]Source{}, added: map[key]bool{}, touched: map[key]bool{}}
	for k, v := range sp.dep {
		c.dep[k] = v
	}
	return c
}

// runTx predicts the results of a transaction; returns predicted results and the state after
func (sp *spec) runTx(ops []Op) ([]string, *spec) {
	w := sp.clone()
	var out []string
	for _, o := range ops {
		r := w.step(o)
		out = append(out, r)
		if strings.HasPrefix(r, "(RFail") {
			return out, sp.clone()
		}
	}
	return out, w.clone()
}

// ---------------------------------------------------------------- generation

type gen struct {
	r   *lib.Rng
	ver *int
}

func (g *gen) source(class, decl, shape int) Source {
	*g.ver++
	s := Source{class, decl, shape, *g.ver}
	register(s)
	return s
}

func (g *gen) newSource(n int, old *Source) Source {
	class := cValid
	decl := n
	shape := g.r.Intn(nShapes)
	if old != nil && g.r.Chance(6, 10) {
		// mostly a compatible shape
		var ok []int
		for s := 0; s < nShapes; s++ {
			if compat(old.Shape, s) {
				ok = append(ok, s)
			}
		}
		shape = ok[g.r.Intn(len(ok))]
	} else if old == nil && g.r.Chance(1, 2) {
		shape = []int{0, 0, 1, 3}[g.r.Intn(4)]
	}
	switch x := g.r.Intn(100); {
	case x < 72:
	case x < 77:
		class = cInitPanics
	case x < 82:
		class = cTypeError
	case x < 86:
		class = cParseError
	case x < 89:
		class = cNoContract
	case x < 92:
		class = cTwoContracts
	default:
		decl = (n + 1 + g.r.Intn(2)) % 3 // name mismatch
	}
	return g.source(class, decl, shape)
}

func (g *gen) tx(sp *spec) []Op {
	n := 1 + g.r.Intn(6)
	w := sp.clone()
	var ops []Op
	for i := 0; i < n; i++ {
		a, nm := 1+g.r.Intn(2), g.r.Intn(3)
		// bias the name towards presence/absence as the operation needs
		pick := func(wantPresent bool) {
			for try := 0; try < 4; try++ {
				if _, ok := w.dep[key{a, nm}]; ok == wantPresent {
					return
				}
				a, nm = 1+g.r.Intn(2), g.r.Intn(3)
			}
		}
		var o Op
		switch x := g.r.Intn(100); {
		case x < 24:
			if g.r.Chance(8, 10) {
				pick(false)
			}
			o = Op{K: "OAdd", A: a, N: nm, Src: g.newSource(nm, nil)}
		case x < 40:
			if g.r.Chance(8, 10) {
				pick(true)
			}
			var old *Source
			if c, ok := w.dep[key{a, nm}]; ok {
				old = &c
			}
			o = Op{K: "OUpdate", A: a, N: nm, Src: g.newSource(nm, old)}
		case x < 56:
			if g.r.Chance(8, 10) {
				pick(true)
			}
			var old *Source
			if c, ok := w.dep[key{a, nm}]; ok {
				old = &c
			}
			src := g.newSource(nm, old)
			if g.r.Chance(1, 3) && old != nil {
				// deliberately incompatible
				for s := 0; s < nShapes; s++ {
					if !compat(old.Shape, s) {
						src = g.source(cValid, nm, s)
						break
					}
				}
			}
			o = Op{K: "OTryUpdate", A: a, N: nm, Src: src}
		case x < 68:
			if g.r.Chance(7, 10) {
				pick(true)
			}
			o = Op{K: "ORemove", A: a, N: nm}
		case x < 78:
			o = Op{K: "OGet", A: a, N: nm}
		case x < 88:
			o = Op{K: "OBorrow", A: a, N: nm}
		case x < 96:
			o = Op{K: "ONames", A: a}
		default:
			o = Op{K: "OPanic"}
		}
		ops = append(ops, o)
		r := w.step(o)
		if strings.HasPrefix(r, "(RFail") {
			break
		}
	}
	return ops
}

// ---------------------------------------------------------------- fixed scenarios

func scenarios(g *gen) ([]string, map[string][][]Op) {
	v := func(n, shape int) Source { return g.source(cValid, n, shape) }
	sc := map[string][][]Op{}
	sc["lifecycle"] = [][]Op{
		{{K: "OAdd", A: 1, N: 0, Src: v(0, 0)}, {K: "ONames", A: 1}, {K: "OGet", A: 1, N: 0}, {K: "OAdd", A: 2, N: 0, Src: v(0, 1)}},
		{{K: "OBorrow", A: 1, N: 0}, {K: "OUpdate", A: 1, N: 0, Src: v(0, 3)}, {K: "OGet", A: 1, N: 0}, {K: "OBorrow", A: 1, N: 0},
			{K: "OTryUpdate", A: 1, N: 0, Src: v(0, 0)}, {K: "OGet", A: 1, N: 0}, {K: "OTryUpdate", A: 1, N: 1, Src: v(1, 0)}, {K: "OTryUpdate", A: 1, N: 0, Src: g.source(cTypeError, 0, 3)},
			{K: "OTryUpdate", A: 1, N: 0, Src: g.source(cParseError, 0, 3)}, {K: "OTryUpdate", A: 1, N: 0, Src: v(1, 3)}, {K: "OTryUpdate", A: 1, N: 0, Src: g.source(cInitPanics, 0, 3)}, {K: "OGet", A: 1, N: 0}},
		{{K: "OAdd", A: 1, N: 0, Src: v(0, 0)}},
		{{K: "OUpdate", A: 1, N: 1, Src: v(1, 0)}},
		{{K: "OUpdate", A: 2, N: 0, Src: v(0, 2)}},
		{{K: "ORemove", A: 1, N: 0}, {K: "ORemove", A: 1, N: 0}, {K: "ONames", A: 1}, {K: "OBorrow", A: 1, N: 0}, {K: "OGet", A: 1, N: 0}},
		{{K: "OAdd", A: 1, N: 0, Src: v(0, 1)}, {K: "OUpdate", A: 1, N: 0, Src: v(0, 0)}, {K: "OGet", A: 1, N: 0}},
	}
	sc["remove-enum"] = [][]Op{
		{{K: "OAdd", A: 2, N: 1, Src: v(1, 4)}, {K: "OAdd", A: 2, N: 2, Src: v(2, 0)}},
		{{K: "ORemove", A: 2, N: 1}},
		{{K: "OUpdate", A: 2, N: 2, Src: v(2, 5)}, {K: "ORemove", A: 2, N: 2}},
		{{K: "ONames", A: 2}, {K: "OUpdate", A: 2, N: 1, Src: v(1, 0)}},
	}
	sc["remove-then-add-same-tx"] = [][]Op{
		{{K: "OAdd", A: 1, N: 2, Src: v(2, 0)}},
		{{K: "ORemove", A: 1, N: 2}, {K: "OAdd", A: 1, N: 2, Src: v(2, 0)}},
		{{K: "ONames", A: 1}, {K: "ORemove", A: 1, N: 2}, {K: "OUpdate", A: 1, N: 2, Src: v(2, 0)}},
		{{K: "ORemove", A: 1, N: 2}},
		{{K: "OAdd", A: 1, N: 2, Src: v(2, 2)}, {K: "OGet", A: 1, N: 2}},
	}
	sc["failed-tx-invisible"] = [][]Op{
		{{K: "OAdd", A: 1, N: 1, Src: v(1, 0)}},
		{{K: "OUpdate", A: 1, N: 1, Src: v(1, 3)}, {K: "OAdd", A: 1, N: 0, Src: v(0, 0)}, {K: "ORemove", A: 1, N: 1}, {K: "ONames", A: 1}, {K: "OPanic"}},
		{{K: "OAdd", A: 2, N: 0, Src: g.source(cInitPanics, 0, 0)}},
		{{K: "OAdd", A: 2, N: 0, Src: g.source(cNoContract, 0, 0)}},
		{{K: "OAdd", A: 2, N: 0, Src: g.source(cTwoContracts, 0, 0)}},
		{{K: "OAdd", A: 2, N: 0, Src: v(1, 0)}},
	}
	// interpreter: borrow of a contract added earlier in the same transaction
	sc["borrow-after-add-same-tx"] = [][]Op{
		{{K: "OAdd", A: 2, N: 2, Src: v(2, 0)}, {K: "OBorrow", A: 2, N: 2}, {K: "OGet", A: 2, N: 2}},
		{{K: "OBorrow", A: 2, N: 2}},
	}
	// add followed by remove of the same contract in one transaction
	sc["add-then-remove-same-tx"] = [][]Op{
		{{K: "OAdd", A: 1, N: 1, Src: v(1, 0)}, {K: "ORemove", A: 1, N: 1}, {K: "ONames", A: 1}},
		{{K: "ONames", A: 1}},
	}
	var names []string
	for n := range sc {
		names = append(names, n)
	}
	sort.Strings(names)
	return names, sc
}

// ---------------------------------------------------------------- main flow

func c26(sum *lib.Summary) {
	thorough := *tier == "thorough"
	rng := lib.NewRng(*seed)
	sum.Rule = "histories of contracts.add/update/tryUpdate/remove/get/borrow/names over 2 accounts x 3 names, sources of 6 classes (valid, initializer panics, " +
		"type error, parse error, no contract, two contracts) plus name mismatch, 7 declaration shapes (fields added/removed/retyped, enum, enum case added, nested struct) giving " +
		"compatible and incompatible updates; transactions (some failing) each followed by an observing script reading names/get/borrow of every account and name; both engines; " +
		"per-operation results, AccountContractAdded/Updated/Removed events and the host code map are compared with the Coq model and with an independent Go specification; " +
		"the 7x7 update-validation table is compared with the real validator. non-trivial history = at least one successful add, update and remove, a failing tryUpdate " +
		"and a failed transaction; distinct = distinct operation sequences"

	// update-validation table against the real validator
	tw := &lib.CaseWriter{Dir: *dir, Prefix: "cases_C26_compat", Header: "From CV Require Import C26.Cases.",
		ElemType: "Z * Z * bool", CheckFn: "check_compat", PerFile: 800}
	ver := 0
	g0 := &gen{r: rng, ver: &ver}
	for _, vm := range []bool{false, true} {
		for old := 0; old < nShapes; old++ {
			for nw := 0; nw < nShapes; nw++ {
				h := lib.NewHost()
				t1 := runTx(h, vm, []Op{{K: "OAdd", A: 1, N: 0, Src: g0.source(cValid, 0, old)}}, false)
				t2 := runTx(h, vm, []Op{{K: "OUpdate", A: 1, N: 0, Src: g0.source(cValid, 0, nw)}}, false)
				sum.Evaluations++
				sum.Count("compat-table")
				if t1.Bad != "" || t1.Failed || t2.Bad != "" {
					sum.Fail("unexpected-outcome", fmt.Sprintf("compat table %d->%d (vm=%v): %s %s", old, nw, vm, t1.Bad, t2.Bad), map[string]any{"old": old, "new": nw, "vm": vm})
					continue
				}
				obs := "true"
				if t2.Failed {
					obs = "false"
				}
				if t2.Failed != !compat(old, nw) {
					sum.Fail("compat-table", fmt.Sprintf("update validation of shape %d -> %d (vm=%v): accepted=%v, Go oracle table says %v", old, nw, vm, !t2.Failed, compat(old, nw)),
						map[string]any{"old_shape": shapeFields[old], "new_shape": shapeFields[nw], "vm": vm, "accepted": !t2.Failed})
				}
				tw.Add(fmt.Sprintf("(%d, %d, %s)", old, nw, obs), map[string]any{"table": "compat", "old": old, "new": nw, "vm": vm, "accepted": !t2.Failed})
			}
		}
	}
	tw.Close()

	cw := &lib.CaseWriter{Dir: *dir, Prefix: "cases_C26_hist", Header: "From CV Require Import C26.Cases.",
		ElemType: "bool * list (list op) * list (list result * list event) * list (Z * list (Z * source))",
		CheckFn:  "check_history", PerFile: 12}
	distinct := map[string]bool{}
	obsOps := observeOps()

	handle := func(name string, next func(sp *spec, i int) []Op) {
		var base [][]Op
		for k, vm := range []bool{false, true} {
			h := lib.NewHost()
			hist := &History{Name: name}
			sp := &spec{dep: map[key]Source{}, added: map[key]bool{}, touched: map[key]bool{}}
			bad := false
			for i := 0; ; i++ {
				var ops []Op
				if k == 0 {
					ops = next(sp, i)
					if ops == nil {
						break
					}
					base = append(base, ops)
				} else {
					if i >= len(base) {
						break
					}
					ops = base[i]
				}
				for pass, cur := range [][]Op{ops, obsOps} {
					t := runTx(h, vm, cur, pass == 1)
					hist.Txs = append(hist.Txs, t)
					sum.Count("transactions+scripts")
					if t.Bad != "" {
						bad = true
						sum.Fail("unexpected-outcome", fmt.Sprintf("history %s (vm=%v): %s", name, vm, t.Bad), hist.desc(vm))
						break
					}
					// independent Go specification
					pred, after := sp.runTx(cur)
					if !t.Failed {
						sp = after // (on failure the state before the transaction stays)
					}
					for j, o := range cur {
						if j < len(t.Results) {
							sum.Count("op " + o.K)
						}
					}
					if strings.Join(pred, ";") != strings.Join(t.Results, ";") {
						// classify against the two known deviations
						keyF := "spec-mismatch"
						last := t.Results[len(t.Results)-1]
						switch {
						case !vm && last == "(RFail FCrash)" && len(t.Results) <= len(cur) && cur[len(t.Results)-1].K == "OBorrow" &&
							pred[len(t.Results)-1] == "(RBool false)":
							keyF = "borrow-after-add-same-tx-crash"
						case last == "(RFail FInternal)" && len(t.Results) == len(cur)+1:
							keyF = "add-then-remove-same-tx-internal"
						}
						sum.Count("deviation " + keyF)
						sum.Fail(keyF, fmt.Sprintf("history %s (vm=%v): observed %v, lifecycle specification requires %v", name, vm, t.Results, pred), hist.desc(vm))
					}
					if t.Failed {
						sum.Count("failed")
					}
				}
				if bad {
					break
				}
			}
			if bad {
				continue
			}
			hist.Codes, hist.CDesc = hostCodes(h)
			sum.Evaluations++
			sum.Count(fmt.Sprintf("history vm=%v", vm))
			cw.Add(hist.coq(vm), hist.desc(vm))
			if k == 0 {
				var keyS strings.Builder
				add, upd, rem, tryF, failed := false, false, false, false, false
				for _, t := range hist.Txs {
					if t.Script {
						continue
					}
					failed = failed || t.Failed
					for j, o := range t.Ops {
						keyS.WriteString(o.Coq() + ";")
						if j >= len(t.Results) || t.Failed {
							continue
						}
						switch o.K {
						case "OAdd":
							add = add || t.Results[j] == "RUnit"
						case "OUpdate":
							upd = upd || t.Results[j] == "RUnit"
						case "ORemove":
							rem = rem || strings.HasPrefix(t.Results[j], "(RCode")
						case "OTryUpdate":
							tryF = tryF || t.Results[j] == "(RBool false)"
						}
					}
					keyS.WriteString("|")
				}
				if add && upd && rem && tryF && failed && !distinct[keyS.String()] {
					distinct[keyS.String()] = true
					sum.DistinctNontrivial++
					sum.Sample(hist.desc(vm))
				}
			}
		}
	}

	names, sc := scenarios(g0)
	for _, n := range names {
		txs := sc[n]
		handle("scenario:"+n, func(_ *spec, i int) []Op {
			if i < len(txs) {
				return txs[i]
			}
			return nil
		})
	}
	nh := 40
	if thorough {
		nh = 600
	}
	for k := 0; k < nh; k++ {
		g := &gen{r: lib.NewRng(rng.U64()), ver: &ver}
		ntx := 4 + g.r.Intn(8)
		if thorough {
			ntx = 4 + g.r.Intn(16)
		}
		handle(fmt.Sprintf("random:%d:%d", *seed, k), func(sp *spec, i int) []Op {
			if i >= ntx {
				return nil
			}
			return g.tx(sp)
		})
	}
	cw.Close()
	sum.CaseFiles = append(tw.Files, cw.Files...)
}
